#!/bin/bash
# Build the framework from files on disk only (offline).
set -e
cd "$(dirname "$0")"
/venv/bin/python harness/translate.py
cd lean
lake build 2>&1 | tail -5
