import Nitime.Model.DriverLoop
import Nitime.Model.C20

def main : IO Unit := Nitime.driverMain Nitime.C20.handle
