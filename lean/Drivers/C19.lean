import Nitime.Model.DriverLoop
import Nitime.Model.C19

def main : IO Unit := Nitime.driverMain Nitime.C19.handle
