import Nitime.Model.DriverLoop
import Nitime.Model.C11

def main : IO Unit := Nitime.driverMain Nitime.C11.handle
