import Nitime.Model.DriverLoop
import Nitime.Model.C06

def main : IO Unit := Nitime.driverMain Nitime.C06.handle
