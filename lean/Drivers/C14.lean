import Nitime.Model.DriverLoop
import Nitime.Model.C14

def main : IO Unit := Nitime.driverMain Nitime.C14.handle
