import Nitime.Model.DriverLoop
import Nitime.Model.C12

def main : IO Unit := Nitime.driverMain Nitime.C12.handle
