import Nitime.Model.DriverLoop
import Nitime.Model.C17

def main : IO Unit := Nitime.driverMain Nitime.C17.handle
