import Nitime.Model.DriverLoop
import Nitime.Model.C16

def main : IO Unit := Nitime.driverMain Nitime.C16.handle
