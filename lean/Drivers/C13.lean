import Nitime.Model.DriverLoop
import Nitime.Model.C13

def main : IO Unit := Nitime.driverMain Nitime.C13.handle
