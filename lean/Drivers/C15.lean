import Nitime.Model.DriverLoop
import Nitime.Model.C15

def main : IO Unit := Nitime.driverMain Nitime.C15.handle
