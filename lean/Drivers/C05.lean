import Nitime.Model.DriverLoop
import Nitime.Model.C05

def main : IO Unit := Nitime.driverMain Nitime.C05.handle
