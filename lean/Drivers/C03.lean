import Nitime.Model.DriverLoop
import Nitime.Model.C03

def main : IO Unit := Nitime.driverMain Nitime.C03.handle
