import Nitime.Model.DriverLoop
import Nitime.Model.C08

def main : IO Unit := Nitime.driverMain Nitime.C08.handle
