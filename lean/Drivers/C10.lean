import Nitime.Model.DriverLoop
import Nitime.Model.C10

def main : IO Unit := Nitime.driverMain Nitime.C10.handle
