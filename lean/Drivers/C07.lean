import Nitime.Model.DriverLoop
import Nitime.Model.C07

def main : IO Unit := Nitime.driverMain Nitime.C07.handle
