import Nitime.Model.DriverLoop
import Nitime.Model.C18

def main : IO Unit := Nitime.driverMain Nitime.C18.handle
