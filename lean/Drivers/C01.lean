import Nitime.Model.DriverLoop
import Nitime.Model.C01

def main : IO Unit := Nitime.driverMain Nitime.C01.handle
