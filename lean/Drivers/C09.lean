import Nitime.Model.DriverLoop
import Nitime.Model.C09

def main : IO Unit := Nitime.driverMain Nitime.C09.handle
