import Nitime.Model.DriverLoop
import Nitime.Model.C04

def main : IO Unit := Nitime.driverMain Nitime.C04.handle
