import Nitime.Model.DriverLoop
import Nitime.Model.C02

def main : IO Unit := Nitime.driverMain Nitime.C02.handle
