import Nitime.Props.C02
open Nitime.C02.Props
#print axioms accepts_iff_documented
