import Nitime.Props.C02
open Nitime.C02.Props
#print axioms accepts_iff_documented
#print axioms series_accepts_iff_documented
#print axioms wd_table
#print axioms rejects_documented
#print axioms accepts_documented
#print axioms series_rejects_documented
#print axioms samples_affine
#print axioms samples_diff
#print axioms mkUniform_ok
#print axioms len_eq_length
#print axioms len_duration_only
#print axioms attrs_describe_axis
#print axioms last_sample_before_end
#print axioms len_eq_data
#print axioms len_eq_data_from_time
#print axioms interval_object_any_unit
#print axioms same_interval_any_unit_pair
#print axioms same_sampling_same_axis
#print axioms len_eq_length_counterexample
#print axioms len_eq_length_counterexample2
#print axioms same_sampling_counterexample
#print axioms attrs_describe_axis_counterexample
#print axioms from_axis_counterexample
#print axioms duration_object_counterexample
#print axioms rejects_documented_partial
#print axioms len_eq_length_partial
