import Nitime.Props.C06
open Nitime.C06.Props
#print axioms completeHermitian_of_hermitian
#print axioms completeHermitian_hermitian
#print axioms completeUpper_of_hermitian
#print axioms mtmCross_gram
#print axioms multiTaperCsd_is_gram
#print axioms multiTaperCsd_hermitian
#print axioms multiTaperCsd_posSemidef
#print axioms multiTaperCsd_reindex
#print axioms multiTaperCsd_diag
#print axioms periodogramCsd_is_gram
#print axioms periodogramCsd_hermitian
#print axioms periodogramCsd_posSemidef
#print axioms periodogramCsd_reindex
#print axioms periodogramCsd_diag
#print axioms periodogramCsd_diag_parseval_twosided
#print axioms periodogramCsd_diag_parseval_onesided
#print axioms welchCompleted_is_gram
#print axioms welchCompleted_hermitian
#print axioms welchCompleted_posSemidef
#print axioms welchCompleted_reindex
#print axioms welchCompleted_diag
#print axioms welchCompletedList_eq
