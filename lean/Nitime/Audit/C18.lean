import Nitime.Props.C18
open Nitime.C18.Props
#print axioms dft_idft
#print axioms fourier_is_projection
#print axioms fourier_idempotent
#print axioms fourier_linear
#print axioms fourier_mean
#print axioms fourier_real
#print axioms fourier_pass_band
#print axioms keepBin_spec
#print axioms keepBin_symm
#print axioms restoreDC_mean
#print axioms filtfilt_wrapper_mean
#print axioms filtfilt_wrapper_linear
#print axioms band_fraction_true_freq
#print axioms firPlan_spec
#print axioms boxLowpass_length
#print axioms highpass_stage_mean
#print axioms boxcar_mean
#print axioms axis_preserved
#print axioms axis_comp_all
#print axioms axis_all_methods
