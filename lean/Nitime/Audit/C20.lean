import Nitime.Props.C20
open Nitime.C20.Props
#print axioms crosscov_is_lagged_sum
#print axioms lag_reversal
#print axioms zero_lag_position
#print axioms crosscov_accepts_iff
#print axioms autocorr_hermitian
#print axioms autocov_zero_lag
#print axioms xcorr_intended_is_direct
#print axioms xcorr_intended_pair_reversal
#print axioms xcorr_current_counterexample
#print axioms xcorr_current_partial
#print axioms pearson_abs_le_one
#print axioms zscore_mean_zero_var_one
#print axioms percent_change_mean_zero
#print axioms entropy_nonneg
#print axioms entropy_le_log_card
#print axioms mi_eq_sum
#print axioms Nitime.C20.Props.mi_nonneg
#print axioms mi_symm
#print axioms cond_le
#print axioms relabel_invariant
#print axioms permute_invariant
#print axioms crosscov_along_axis
#print axioms zscore_along_axis
#print axioms percent_change_along_axis
#print axioms corrspec_sums_to_pearson
#print axioms xcorr_norm_zero_lag
