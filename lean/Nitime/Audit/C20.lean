import Nitime.Props.C20
open Nitime.C20.Props
#print axioms mi_eq_sum_stub
