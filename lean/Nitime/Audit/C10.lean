import Nitime.Props.C10
open Nitime.C10.Props
#print axioms ldLoop_spec
#print axioms arLD_is_ld
#print axioms arLD_solves_YW
#print axioms arLD_sigma
#print axioms arLD_sigma_prod
#print axioms sigma_pos
#print axioms arLD_stable
#print axioms isSolution_iff_YW
#print axioms yw_unique
#print axioms arYW_eq_arLD
#print axioms exact_recovery
#print axioms arYW_sigma
#print axioms gjSolve_isSolution
#print axioms arYW_gj_eq_arLD
#print axioms autocorr_is_lagged_sum
#print axioms autocorr_zero_real
#print axioms arPsd_formula
#print axioms realN_spec
#print axioms whole_spec
#print axioms lfilter1_recursion
#print axioms generator_recursion
