import Nitime.Props.C09
open Nitime.C09.Props

#print axioms winMean_eq
#print axioms cachedConj_eq
#print axioms normVal_eq
#print axioms coherencySpec_scale
#print axioms cacheCoherency_eq
#print axioms cache_coherency_eq_dense
#print axioms memory_setting_irrelevant
#print axioms seed_rows_eq_dense
#print axioms cache_psd_eq_dense
#print axioms cache_psd_eq_dense_unscaled
#print axioms cache_relphase_eq_dense_angle
#print axioms cache_freqs_eq_dense
#print axioms defaults_agree
#print axioms F_segOf
#print axioms cache_relphase_eq_mean_dense_angles
#print axioms cache_phase_eq_mean_segment_angles
#print axioms Nitime.Coh.searchLeftBy_eq
#print axioms Nitime.Coh.searchRightBy_eq
#print axioms Nitime.Coh.getBounds_kept_bins
#print axioms Nitime.Coh.getBounds_kept_bins_none
