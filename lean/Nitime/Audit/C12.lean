import Nitime.Props.C12
open Nitime.C12.Props
#print axioms H_mul_A
#print axioms polyA_formula
#print axioms transfer_inverts
#print axioms S_eq_HCovHH
#print axioms S_hermitian_psd
#print axioms S_same_both_routines
#print axioms causality_y2x_nonneg
#print axioms causality_x2y_nonneg
#print axioms decomposition
#print axioms transfer_swap
#print axioms relabel_swaps
#print axioms no_coupling_zero
#print axioms analyzer_places_pairs
#print axioms defaultIJ_mem
#print axioms analyzer_freq_axis
#print axioms analyzer_grid_flag
#print axioms analyzer_retarget_spectra
#print axioms analyzer_spectra_after_set_input
#print axioms causality_scale_invariant
#print axioms transfer_function_value_independent_of_sharing
#print axioms transfer_inplace_distinct_objects
#print axioms transfer_inplace_negation_counterexample
#print axioms transfer_inplace_shared_offdiag
#print axioms analyzer_spectra_after_failed_fit
