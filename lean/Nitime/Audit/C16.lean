import Nitime.Props.C16
open Nitime.C16.Props
#print axioms convertOperand_pure
#print axioms convertOperand_values
#print axioms binop_preserves_operands
#print axioms binop_current
#print axioms binop_result_is_C01
#print axioms setItem_preserves_operand
#print axioms checkUniform_preserves_operand
#print axioms checkUniform_current
#print axioms checkUniform_result
#print axioms csd_shape_restored_on_error
#print axioms csd_fixed_outcome
#print axioms csd_current_partial
#print axioms csd_current_counterexample
#print axioms csd_current_noncontiguous_counterexample
#print axioms seriesCopy_fresh
#print axioms copy_then_inplace_preserves_original
#print axioms series_arith_preserves
#print axioms series_arith_value
#print axioms series_inplace_frame
#print axioms copy_shares_nothing_mutable_axis
#print axioms setItem_current_counterexample
#print axioms checkUniform_before_counterexample
#print axioms binop_before_counterexample
#print axioms series_arith_shares_nothing
#print axioms series_time_read_not_shared
