import Nitime.Props.C19
open Nitime.C19.Props
#print axioms results_sorted_by_code
#print axioms designEntry_eq_eventSum
#print axioms design_times_h_is_planted
#print axioms firSolve_solves
#print axioms fir_exact_recovery
#print axioms fir_recovers_planted
#print axioms fir_current_sign
#print axioms fir_negative_code_counterexample
#print axioms fir_linear
#print axioms planted_at_window
#print axioms eta_exact_no_overlap
#print axioms ets_zero
#print axioms eta_linear
#print axioms eta_repr_equiv
#print axioms axis_starts_at_offset
#print axioms fullRank_A
#print axioms separated_B
