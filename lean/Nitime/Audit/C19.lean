import Nitime.Props.C19
open Nitime.C19.Props
#print axioms t0Ps_def
