import Nitime.Props.C01
open Nitime.C01.Props
#print axioms factor_is_SI
#print axioms factor_exact_in_f64
#print axioms toPs_int_exact
#print axioms toPs_flt_nearest_of_product
#print axioms toPs_flt_near
#print axioms toPs_flt_exact_of_whole
#print axioms rewrap_same_instant
#print axioms rewrap_list_same_instants
#print axioms convertUnit_same_instant
#print axioms equal_instants_equal_payload
#print axioms unit_ladder
#print axioms operand_payload
#print axioms arith_exact
#print axioms arith_broadcast_scalar
#print axioms arith_fn_spec
#print axioms compare_exact
#print axioms cmp_fn_spec
#print axioms arith_rejects_mismatch
#print axioms reduce_spec
#print axioms fits62_no_wrap
