import Nitime.Props.C08
import Nitime.Props.C08Cache
open Nitime.C08.Props

#print axioms normSq_coherency_eq_coherence
#print axioms self_coherence_one
#print axioms self_coherency_one
#print axioms coherencySpec_swap
#print axioms coherency_hermitian
#print axioms coherence_symmetric
#print axioms phase_antisymm
#print axioms delay_antisymm
#print axioms gain_invariant_coherency
#print axioms gain_invariant_coherence
#print axioms welchBin_eq
#print axioms coherence_le_one
#print axioms coherence_nonneg
#print axioms welchBin_swap
#print axioms welch_coherency_hermitian
#print axioms welch_self_coherence_one
#print axioms welchBin_scale_left
#print axioms gain_invariant
#print axioms gain_coherency
#print axioms coherence_bavg_le_one
#print axioms coherency_bavg_le_one
#print axioms partial_closed_form
#print axioms partial_eq_inverse
#print axioms partial_on_witness
#print axioms gram_partial_ineq
#print axioms partial_le_one
#print axioms mt_coherence_le_one
#print axioms mt_self_coherence_one
#print axioms welch_partial_le_one
#print axioms welch_cs
#print axioms welch_coherence_bavg_le_one
#print axioms coherencySpec_norm_le_one
#print axioms welch_coherency_bavg_le_one
#print axioms gram_coherence_le_one
#print axioms mt_csd_coherence_le_one
#print axioms periodogram_csd_coherence_le_one
#print axioms welch_completed_coherence_le_one
#print axioms Nitime.Coh.segFft_eq
#print axioms Nitime.C08.CacheProps.cache_coherency_norm_le_one
#print axioms Nitime.C08.CacheProps.cache_coherency_hermitian
#print axioms Nitime.C08.CacheProps.seed_row_norm_le_one
#print axioms Nitime.C08.CacheProps.confidence_interval_chain_pure
#print axioms Nitime.C08.CacheProps.coherence_stays_bounded
#print axioms Nitime.C08.CacheProps.confidence_interval_inplace_counterexample
