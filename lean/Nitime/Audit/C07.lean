import Nitime.Props.C07
open Nitime.C07.Props
#print axioms generated_eq_model_pyx
#print axioms generated_eq_model_py
#print axioms generated_copies
#print axioms tridisolve_solves
#print axioms tridisolve_mul_eq
