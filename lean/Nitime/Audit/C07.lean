import Nitime.Props.C07
open Nitime.C07.Props
#print axioms generated_eq_model_pyx
#print axioms generated_eq_model_py
#print axioms generated_copies
#print axioms tridisolve_solves
#print axioms tridisolve_mul_eq
#print axioms fixSigns_pm
#print axioms fixSigns_norm
#print axioms fixSigns_convention
#print axioms fixSigns_idem
#print axioms concentration_is_rayleigh
#print axioms interpRescale_unit
#print axioms lowBias_spec
#print axioms fixSigns_gram
#print axioms fixSigns_residual
#print axioms concentration_unit_interval
#print axioms inverse_iteration_step
