import Nitime.Props.C07
open Nitime.C07.Props
#print axioms generated_eq_model_pyx
#print axioms generated_eq_model_py
#print axioms generated_copies
#print axioms tridisolve_solves
#print axioms tridisolve_mul_eq
#print axioms fixSigns_pm
#print axioms fixSigns_norm
#print axioms fixSigns_convention
#print axioms fixSigns_idem
#print axioms concentration_is_rayleigh
#print axioms interpRescale_unit
#print axioms lowBias_spec
#print axioms fixSigns_gram
#print axioms fixSigns_residual
#print axioms concentration_unit_interval
#print axioms inverse_iteration_step
#print axioms generated_matrix_is_slepian
#print axioms generated_structure
#print axioms generated_r_is_twice_sinc
#print axioms dpss_matrix_commutes_with_sinc
#print axioms taper_is_sinc_eigvec
#print axioms taper_eigenspace_one_dim
#print axioms tapers_orthogonal
#print axioms concentration_in_unit_interval
