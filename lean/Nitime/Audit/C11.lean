import Nitime.Props.C11
open Nitime.C11.Props
#print axioms lwrLoop_spec
#print axioms lwr_length
#print axioms lwr_solves
#print axioms lwr_equivariant
#print axioms marEst_order
#print axioms marEst_is_lwr
#print axioms lwr_scalar_is_LD
#print axioms crosscov_is_lagged_average
#print axioms autocov_zero_hermitian
#print axioms recur_getD
#print axioms generateMar_recursion
#print axioms fitModel_order_semantics
#print axioms fitModel_fixed_order
#print axioms lwr_sigma_order0
#print axioms lwr_sigma_psd_order1
#print axioms toeplitzPD_of_full
#print axioms lwr_abstract_posDef
#print axioms invOK_of_toeplitzPD
#print axioms lwr_sigma_posDef
#print axioms lwr_solves_of_toeplitzPD
#print axioms lwr_permutation_equivariant
#print axioms gjInv_contract
