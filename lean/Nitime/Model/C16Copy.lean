/-
C16, round 2 — `TimeSeries.copy()` and series arithmetic with the metadata as a NESTED CONTAINER GRAPH
(core Lean; imported by Model/C16.lean).

The heap holds the mutable python objects a series is made of: its data buffer, its time axis, its metadata dict
and every dict / list / ndarray reachable from the metadata.  An object is the list of its slots; a slot holds an
immutable value (`val`: number, string, tuple of such — shared freely, as python does), a handle that
`copy.deepcopy` refuses (`handle`: a lock, a generator, an open file, an object whose `__deepcopy__` raises), or a
reference to another heap object (`ref`).  Ids are positions, objects are only ever appended.

* `deepCopy`   = `copy.deepcopy` on such a graph: total, `Except` — raises `TypeError` iff an uncopyable handle is reached
                 (walking the slots in order, depth first, as deepcopy does), every container reached is rebuilt as a NEW object.
                 Fuel bounds the depth (acyclic metadata; `recursionError` when exhausted — python's memo would handle a cycle,
                 the correspondence generates trees).
* `seriesCopy` = `TimeSeries.copy`: `TimeSeries(data=self.data.copy(), time=self.time.copy(), …, metadata=copy.deepcopy(self.metadata))`.
                 `Discipline.strict` is the source as it stands: a refusal of the deep copy is the refusal of `copy()`, the heap is
                 what it was.  `Discipline.shallowFallback` is the VARIANT "catch the exception and give the copy its own dict"
                 (`copy.copy(self.metadata)` / `dict(self.metadata)`): same top-level slots, nested objects shared.
* `seriesArith` = `out = self.copy(); out.data = out.data.__op__(other)`; a shape numpy refuses raises after the copy was made
                 (the copy is garbage: the heap the caller can observe is what it was).
-/
namespace Nitime.C16.Copy

inductive Item where
  | val (v : Int)
  | handle (k : Nat)
  | ref (id : Nat)
  deriving Repr, DecidableEq

abbrev Obj := List Item
abbrev Heap := List Obj

inductive Err where
  | typeError | recursionError | valueError
  deriving Repr, DecidableEq

def Err.name : Err → String
  | .typeError => "TypeError" | .recursionError => "RecursionError" | .valueError => "ValueError"

def obj (h : Heap) (i : Nat) : Obj := h.getD i []

/-- the slots of one container, left to right; `rec` copies a referenced object -/
def copyItemsWith (rec : Heap → Nat → Except Err (Heap × Nat)) : Heap → List Item → Except Err (Heap × List Item)
  | h, [] => .ok (h, [])
  | h, .val v :: xs => match copyItemsWith rec h xs with
      | .ok (h1, ys) => .ok (h1, .val v :: ys)
      | .error e => .error e
  | _, .handle _ :: _ => .error .typeError
  | h, .ref i :: xs => match rec h i with
      | .error e => .error e
      | .ok (h1, j) => match copyItemsWith rec h1 xs with
          | .ok (h2, ys) => .ok (h2, .ref j :: ys)
          | .error e => .error e

/-- `copy.deepcopy(object r)`: the new heap and the id of the copy, or the exception -/
def deepCopy : Nat → Heap → Nat → Except Err (Heap × Nat)
  | 0, _, _ => .error .recursionError
  | fuel + 1, h, r => match copyItemsWith (deepCopy fuel) h (obj h r) with
      | .ok (h1, items) => .ok (h1 ++ [items], h1.length)
      | .error e => .error e

/-- `copy.copy(d)` / `dict(d)`: a new container with the SAME slots -/
def shallowCopy (h : Heap) (r : Nat) : Heap × Nat := (h ++ [obj h r], h.length)

/-- every reference stored in the heap points into the heap -/
def Closed (h : Heap) : Prop := ∀ o ∈ h, ∀ i, Item.ref i ∈ o → i < h.length

def closedB (h : Heap) : Bool :=
  h.all fun o => o.all fun it => match it with
    | .ref i => decide (i < h.length)
    | _ => true

/-- the VALUE of an object graph: a serialisation of everything reachable from `r` (to depth `g`) -/
def unfoldItems (rec : Nat → List Int) : List Item → List Int
  | [] => []
  | .val v :: xs => 0 :: v :: unfoldItems rec xs
  | .handle k :: xs => 1 :: (k : Int) :: unfoldItems rec xs
  | .ref i :: xs => 2 :: (rec i ++ 3 :: unfoldItems rec xs)

def unfold : Nat → Heap → Nat → List Int
  | 0, _, _ => [4]
  | g + 1, h, r => unfoldItems (unfold g h) (obj h r)

/-- ids of the containers reachable from `r` (to depth `g`), `r` included -/
def reachItems (rec : Nat → List Nat) : List Item → List Nat
  | [] => []
  | .ref i :: xs => rec i ++ reachItems rec xs
  | _ :: xs => reachItems rec xs

def reach : Nat → Heap → Nat → List Nat
  | 0, _, r => [r]
  | g + 1, h, r => r :: reachItems (reach g h) (obj h r)

/-! ### the series -/
structure GSeries where
  data : Nat
  time : Nat
  info : Nat
  deriving Repr, DecidableEq

inductive Discipline where
  /-- the source: `metadata=copy.deepcopy(self.metadata)`, no handler -/
  | strict
  /-- variant: `try: deepcopy … except Exception: metadata = copy.copy(self.metadata)` -/
  | shallowFallback
  deriving Repr, DecidableEq

def copyMeta (d : Discipline) (fuel : Nat) (h : Heap) (r : Nat) : Except Err (Heap × Nat) :=
  match deepCopy fuel h r with
  | .ok x => .ok x
  | .error e => match d with
    | .strict => .error e
    | .shallowFallback => .ok (shallowCopy h r)

def seriesCopy (d : Discipline) (fuel : Nat) (h : Heap) (s : GSeries) : Heap × Except Err GSeries :=
  match copyMeta d fuel h s.info with
  | .error e => (h, .error e)
  | .ok (h1, m) => (h1 ++ [obj h1 s.data, obj h1 s.time], .ok ⟨h1.length, h1.length + 1, m⟩)

def itemVal : Item → Int
  | .val v => v
  | _ => 0

/-- numpy broadcasting of the operand along the data (equal length, or one element) -/
def broadcastOK (a b : Obj) : Bool := b.length == a.length || b.length == 1

def zipVals (f : Int → Int → Int) (a b : Obj) : Obj :=
  if b.length == 1 then a.map fun x => .val (f (itemVal x) (itemVal (b.headD (.val 0))))
  else List.zipWith (fun x y => .val (f (itemVal x) (itemVal y))) a b

def seriesArith (d : Discipline) (fuel : Nat) (f : Int → Int → Int) (h : Heap) (s : GSeries) (other : Nat) :
    Heap × Except Err GSeries :=
  match seriesCopy d fuel h s with
  | (_, .error e) => (h, .error e)
  | (h1, .ok out) =>
    if broadcastOK (obj h1 out.data) (obj h1 other) then
      (h1 ++ [zipVals f (obj h1 out.data) (obj h1 other)], .ok { out with data := h1.length })
    else (h, .error .valueError)

/-- an in-place change of one container (`d[k] = v`, `l.append(x)`, `a[...] = 0`, `del d[k]`): the object's slots are replaced -/
def write (h : Heap) (j : Nat) (o : Obj) : Heap := h.set j o

/-! ### line protocol: `seriescopy <heap> <data> <time> <info> <other> <op>`
heap: objects separated by `;`, slots by `,` (`v<int>`, `h<n>`, `r<id>`; `-` = no slots). -/
def parseItem? (s : String) : Option Item :=
  match s.toList with
  | 'v' :: rest => (String.ofList rest).toInt?.map .val
  | 'h' :: rest => (String.ofList rest).toNat?.map .handle
  | 'r' :: rest => (String.ofList rest).toNat?.map .ref
  | _ => none

def parseObj? (s : String) : Option Obj := if s = "-" then some [] else (s.splitOn ",").mapM parseItem?
def parseHeap? (s : String) : Option Heap := (s.splitOn ";").mapM parseObj?

def showNats (l : List Nat) : String := if l.isEmpty then "-" else ",".intercalate (l.map toString)
def showInts (l : List Int) : String := if l.isEmpty then "-" else ",".intercalate (l.map toString)

def dedupSorted (l : List Nat) (n : Nat) : List Nat := (List.range n).filter fun i => l.contains i

/-- what the caller can observe of the outcome: raised (and the heap) / which ORIGINAL containers are reachable from the
result's metadata, from its data and time; whether the value of the metadata graph equals the original's; and whether a write to
every object reachable from the result changes the value of the operand's graphs -/
def describe (h : Heap) (s : GSeries) (r : Heap × Except Err GSeries) : String :=
  let n := h.length
  let old := (r.1.take n == h)
  match r.2 with
  | .error e => s!"raised {e.name} heap={if r.1 == h then "same" else "changed"}"
  | .ok out =>
    let h' := r.1
    let g := h'.length + 1
    let shared := dedupSorted ((reach g h' out.info ++ reach g h' out.data ++ reach g h' out.time).filter (· < n)) n
    let eq := unfold g h' out.info == unfold g h s.info && obj h' out.time == obj h s.time
    -- scribble every object reachable from the result, then look at the operand
    let targets := dedupSorted (reach g h' out.info ++ reach g h' out.data ++ reach g h' out.time) h'.length
    let h'' := targets.foldl (fun acc j => write acc j [.val 777]) h'
    let reached := unfold g h'' s.info != unfold g h s.info || obj h'' s.data != obj h s.data || obj h'' s.time != obj h s.time
    s!"ok data={showInts ((obj h' out.data).map itemVal)} shared={showNats shared} equal={if eq then 1 else 0} old={if old then "same" else "changed"} write-reaches-operand={if reached then 1 else 0}"

def handle (args : List String) : String :=
  match args with
  | [disc, heap, data, time, info, other, op] =>
    match parseHeap? heap, data.toNat?, time.toNat?, info.toNat?, other.toNat? with
    | some h, some d, some t, some m, some o =>
      let dsc := if disc = "fallback" then Discipline.shallowFallback else Discipline.strict
      let s : GSeries := ⟨d, t, m⟩
      let fuel := h.length + 1
      if !closedB h then "bad-heap" else
      match op with
      | "copy" => describe h s (seriesCopy dsc fuel h s)
      | "add" => describe h s (seriesArith dsc fuel (· + ·) h s o)
      | "sub" => describe h s (seriesArith dsc fuel (· - ·) h s o)
      | "mul" => describe h s (seriesArith dsc fuel (· * ·) h s o)
      | _ => "bad-op"
    | _, _, _, _, _ => "bad-op"
  | _ => "bad-op"

end Nitime.C16.Copy
