/-
C09 — the channel bookkeeping of the FFT cache ("labels attached to the wrong values").  Core Lean only.

`cache_fft` stores the windowed FFTs of the requested channels in a dict keyed by channel; `cache_to_psd` / `cache_to_phase`
return dicts keyed by channel.  Each of them (1) obtains a list of channels from the pair list — by iterating a `set` (an order
CPython chooses: `{1, 8}` iterates as 8, 1), by `sorted(...)`, or in order of first appearance — and (2) attaches a value to a
key.  `harness/translate_c09.py` (gen_keys) extracts from the CURRENT source, per function, the ordering the KEYS come from and
the ordering the VALUES are computed along (`Nitime.Generated.CacheKeys`): one `for c in chans: D[c] = f(src[c])` loop gives the
same ordering twice; `dict(zip(sorted(chans), [f(src[c]) for c in chans]))` gives two.

A dict is a finite map `List (Nat × V)` (association list; keys here are distinct), `fill keys vals f = zip keys (map f vals)`.
The set's iteration order is DATA of the model (`iter`, any permutation of the channels; the driver receives the order CPython
produced).
-/
namespace Nitime.C09.Keys

inductive Ord where
  | setIter      -- iteration of the `set` built from the pair list
  | sorted       -- `sorted(...)` / `np.unique(...)`
  | firstSeen    -- order of first appearance in the pair list
  | unknown
  deriving DecidableEq, Repr

/-- per function: where the keys of the dict come from, and along which ordering the values are computed -/
structure KeySpec where
  keyOrd : Ord
  valOrd : Ord
  deriving DecidableEq, Repr

/-- first-appearance order without repeats -/
def dedup : List Nat → List Nat
  | [] => []
  | a :: r => a :: (dedup r).filter (· != a)

/-- the channels a pair list names, in order of first appearance -/
def channels (ij : List (Nat × Nat)) : List Nat := dedup (ij.flatMap fun p => [p.1, p.2])

def insertNat (a : Nat) : List Nat → List Nat
  | [] => [a]
  | b :: r => if a ≤ b then a :: b :: r else b :: insertNat a r

/-- `sorted(...)` (insertion sort: structural, so that concrete instances evaluate in the kernel) -/
def sortNat (l : List Nat) : List Nat := l.foldr insertNat []

/-- the list of channels an ordering yields (`iter` = what iterating the set gives) -/
def order (iter : List Nat) (ij : List (Nat × Nat)) : Ord → List Nat
  | .setIter => iter
  | .sorted => sortNat (channels ij)
  | .firstSeen => channels ij
  | .unknown => channels ij

/-- `dict(zip(keys, [f c for c in vals]))` -/
def fill {V} (keys vals : List Nat) (f : Nat → V) : List (Nat × V) := keys.zip (vals.map f)

/-- the dict a function with discipline `s` produces from per-channel values `f` -/
def keyed {V} (s : KeySpec) (iter : List Nat) (ij : List (Nat × Nat)) (f : Nat → V) : List (Nat × V) :=
  fill (order iter ij s.keyOrd) (order iter ij s.valOrd) f

/-- `cache_fft` (discipline `sf`) followed by `cache_to_psd` / `cache_to_phase` (discipline `sq`): the windows under key `c` are
`slices (row c')` for whatever row the cache attached to `c`; the query reads `FFT_slices[c]` for each channel of ITS ordering -/
def cacheThenQuery {R S P} (sf sq : KeySpec) (iterF iterQ : List Nat) (ij : List (Nat × Nat))
    (rows : Nat → R) (slices : R → S) (post : S → P) (dflt : S) : List (Nat × P) :=
  let cache := keyed sf iterF ij (fun c => slices (rows c))
  keyed sq iterQ ij (fun c => post ((cache.lookup c).getD dflt))

end Nitime.C09.Keys
