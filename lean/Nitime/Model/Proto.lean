/-
Line-protocol helpers shared by all model drivers (core Lean only).

Tokens are separated by single spaces.  Integers are decimal; binary64 values travel as `x`
followed by the 16 hex digits of their bit pattern (exact in both directions); lists are
comma-separated without spaces, the empty list is `-`.
-/
namespace Nitime.Proto

def hexDigit? (c : Char) : Option Nat :=
  if '0' ≤ c ∧ c ≤ '9' then some (c.toNat - '0'.toNat)
  else if 'a' ≤ c ∧ c ≤ 'f' then some (c.toNat - 'a'.toNat + 10)
  else if 'A' ≤ c ∧ c ≤ 'F' then some (c.toNat - 'A'.toNat + 10)
  else none

def parseHex? (s : String) : Option Nat :=
  if s.isEmpty then none else
  s.toList.foldl (fun acc c => match acc, hexDigit? c with
    | some a, some d => some (a * 16 + d)
    | _, _ => none) (some 0)

def hexChar (d : Nat) : Char :=
  if d < 10 then Char.ofNat ('0'.toNat + d) else Char.ofNat ('a'.toNat + d - 10)

/-- 16 hex digits -/
def hex64 (n : Nat) : String :=
  String.ofList ((List.range 16).reverse.map fun i => hexChar ((n / 16 ^ i) % 16))

def splitList (s : String) : List String :=
  if s = "-" then [] else s.splitOn ","

def parseIntList? (s : String) : Option (List Int) :=
  (splitList s).mapM String.toInt?

def parseNatList? (s : String) : Option (List Nat) :=
  (splitList s).mapM String.toNat?

def joinList (xs : List String) : String :=
  if xs.isEmpty then "-" else ",".intercalate xs

def showIntList (xs : List Int) : String := joinList (xs.map toString)
def showNatList (xs : List Nat) : String := joinList (xs.map toString)
def showBoolList (xs : List Bool) : String := joinList (xs.map fun b => if b then "1" else "0")

/-- a binary64 token `x<16 hex>` as `Float` -/
def parseFloat? (s : String) : Option Float :=
  if s.startsWith "x" then (parseHex? (s.drop 1).toString).map fun n => Float.ofBits (UInt64.ofNat n)
  else none

def showFloat (x : Float) : String := "x" ++ hex64 x.toBits.toNat

def parseFloatList? (s : String) : Option (List Float) :=
  (splitList s).mapM parseFloat?

def showFloatList (xs : List Float) : String := joinList (xs.map showFloat)

/-- rationals as `p/q` or `p` -/
def parseRat? (s : String) : Option Rat :=
  match s.splitOn "/" with
  | [p] => p.toInt?.map fun i => (i : Rat)
  | [p, q] => match p.toInt?, q.toNat? with
    | some a, some b => if b = 0 then none else some ((a : Rat) / (b : Rat))
    | _, _ => none
  | _ => none

def showRat (q : Rat) : String :=
  if q.den = 1 then toString q.num else toString q.num ++ "/" ++ toString q.den

end Nitime.Proto
