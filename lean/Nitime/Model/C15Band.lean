/-
C15 — WHICH DFT bins `FilterAnalyzer.filtered_fourier` keeps (core Lean only), and how the lagged products of
`CorrelationAnalyzer.xcorr` are summed (generated facts only).

`filtered_fourier`:  `freqs = get_freqs(Fs, n)` (= `np.fft.rfftfreq(n) * Fs`: bin m ↦ `(m * (1.0 / n)) * Fs`, binary64),
`ub = Fs / 2` when `None`, bins with `freqs < lb` or `freqs > ub` (and their mirror images −m) are nulled, DC is put back:
the CLOSED band `lb ≤ f_m ≤ ub` stays.  A bin lying exactly ON an edge is kept.

* `count p n`              number of k < n with `p k` — on a sorted grid this is `np.searchsorted(g, v, side='left')` for
                           `p k = (g k < v)` and `side='right'` for `p k = (g k ≤ v)`.
* `keepByRange`            selection by an index range `[first, last)` (the refactored form of the same selection).
* `keepByPred`             today's selection: not (`f < lb`), not (`f > ub`), over any `lt`.
* `Side`, `searchsorted`, `maskRange`   the range form with a chosen side for each edge (`left`/`right` = the closed band;
                           `right`/`right` drops a bin lying ON lb — NOT today's code, see `Props/C15Band.lean`).
* `binFreq`, `mask`        the binary64 grid and the kept bins 0..n/2 of one call (driver op `band <n> <Fs> <lb> <ub|->`).
* `codeVouched`            GENERATED `Generated/BandSelect.lean` lists every comparison / index search inside
                           `filtered_fourier`; the model vouches only for the two strict comparisons it follows.
-/
import Nitime.Model.Proto
import Nitime.Generated.BandSelect

namespace Nitime.C15.Band

/-- number of indices k < n with `p k` -/
def count (p : Nat → Bool) : Nat → Nat
  | 0 => 0
  | n + 1 => count p n + (if p n then 1 else 0)

/-- selection by an index range `[first, last)` -/
def keepByRange (first last k : Nat) : Bool := decide (first ≤ k) && decide (k < last)

/-- today's selection: a bin is nulled when `f < lb` or `f > ub` -/
def keepByPred {α : Type} (lt : α → α → Bool) (lb ub f : α) : Bool := !(lt f lb) && !(lt ub f)

inductive Side where
  | left
  | right
  deriving DecidableEq, Repr

/-- `np.searchsorted(g[:n], v, side)` on a sorted grid: the number of entries `< v` (left) / `≤ v` (right) -/
def searchsorted {α : Type} (lt le : α → α → Bool) (side : Side) (g : Nat → α) (n : Nat) (v : α) : Nat :=
  count (fun k => match side with
    | .left => lt (g k) v
    | .right => le (g k) v) n

/-- the kept bins in range form, with a side for each edge -/
def maskRange {α : Type} (lt le : α → α → Bool) (sLb sUb : Side) (g : Nat → α) (n : Nat) (lb ub : α) (k : Nat) : Bool :=
  keepByRange (searchsorted lt le sLb g n lb) (searchsorted lt le sUb g n ub) k

/-- `np.fft.rfftfreq(n)[m] * Fs` -/
def binFreq (fs : Float) (n m : Nat) : Float := (Float.ofNat m * (1.0 / Float.ofNat n)) * fs

/-- the tables the model follows: two strict comparisons against the edges -/
def pinnedSelectors : List String := ["freqs < self.lb", "freqs > self.ub"]

def codeVouched : Bool := Nitime.Generated.BandSelect.fourierSelectors == pinnedSelectors

/-- kept bins 0..n/2 of one call (DC always: it is put back) -/
def mask (fs lb : Float) (ub : Option Float) (n : Nat) : List Bool :=
  let u := ub.getD (fs / 2.0)
  (List.range (n / 2 + 1)).map fun m => m == 0 || keepByPred (fun a b => a < b) lb u (binFreq fs n m)

/-- the same bins through the range form (`left` for lb, `right` for ub) on the first n/2+1 grid points -/
def maskByRange (fs lb : Float) (ub : Option Float) (n : Nat) : List Bool :=
  let u := ub.getD (fs / 2.0)
  let g := binFreq fs n
  (List.range (n / 2 + 1)).map fun m =>
    m == 0 || maskRange (fun a b => a < b) (fun a b => a ≤ b) .left .right g (n / 2 + 1) lb u m

open Proto in
def handleBand (n fs lb ub : String) : String :=
  if !codeVouched then "err band-selection-not-vouched" else
  match n.toNat?, parseFloat? fs, parseFloat? lb, (if ub = "-" then some none else (parseFloat? ub).map some) with
  | some n, some fs, some lb, some ub =>
    let a := mask fs lb ub n
    let b := maskByRange fs lb ub n
    if a == b then "ok " ++ String.join (a.map fun x => if x then "1" else "0") else "err range-form-differs"
  | _, _, _, _ => "bad-op"

end Nitime.C15.Band
