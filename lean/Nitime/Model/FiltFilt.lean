/-
Model of `scipy.signal.filtfilt(b, a, x)` as `FilterAnalyzer.filtfilt` calls it (default arguments:
`padtype='odd'`, `padlen = 3·max(len a, len b)`, `method='pad'`), core Lean only, polymorphic in the scalar:

  ext = odd_ext(x, padlen)                       -- 2·x[0] − x[n:0:-1]  ++ x ++  2·x[-1] − x[-2:-(n+2):-1]
  y   = lfilter(b, a, ext, zi = zi·ext[0])        -- direct form II transposed
  y   = lfilter(b, a, y[::-1], zi = zi·y[-1])[::-1]
  return y[padlen:-padlen]

`b`, `a` are given zero-padded to the common length `K = max(len a, len b)` and normalised (`a[0] = 1`);
`zi = lfilter_zi(b, a)` (length `K−1`, the steady-state of the step response) does not depend on the data and
is passed in (the harness takes it from scipy, as the DPSS tapers are for C04).
-/
namespace Nitime.FiltFilt

section model
variable {K : Type} [Add K] [Sub K] [Mul K] [OfNat K 0]

/-- list entry, zero outside -/
def g (l : List K) (i : Nat) : K := l.getD i 0

/-- one sample of the direct-form-II-transposed recursion: output and next state -/
def dfStep (b a z : List K) (x : K) : K × List K :=
  let y := g b 0 * x + g z 0
  (y, (List.range z.length).map fun i => g b (i + 1) * x + g z (i + 1) - g a (i + 1) * y)

/-- `lfilter(b, a, xs, zi=z)[0]` -/
def lfilterZ (b a : List K) : List K → List K → List K
  | _, [] => []
  | z, x :: xs => (dfStep b a z x).1 :: lfilterZ b a (dfStep b a z x).2 xs

/-- `scipy.signal._arraytools.odd_ext(x, n)` -/
def oddExt (x : List K) (n : Nat) : List K :=
  ((List.range n).map fun i => g x 0 + g x 0 - g x (n - i)) ++ x ++
  ((List.range n).map fun i => g x (x.length - 1) + g x (x.length - 1) - g x (x.length - 2 - i))

/-- `scipy.signal.filtfilt(b, a, x)` with the padding `padlen` -/
def filtfilt (b a zi : List K) (padlen : Nat) (x : List K) : List K :=
  let ext := oddExt x padlen
  let y1 := lfilterZ b a (zi.map (· * g ext 0)) ext
  let r := y1.reverse
  let y2 := lfilterZ b a (zi.map (· * g r 0)) r
  (y2.reverse.drop padlen).take x.length

end model
end Nitime.FiltFilt
