/-
C15 — analyzers and file readers as unit-aware front ends: model of the AXIS plumbing
(core Lean only).

* `Series`        a `TimeSeries` seen from outside: t0 and sampling interval in whole picoseconds,
                  number of samples, display unit, and the binary64 `sampling_rate` (Hz) it holds.
* `mkSeries`      `TimeSeries.__init__` for the argument kinds the analyzers use (interval as a time
                  object or a bare number, rate as a `Frequency`, t0 as a time object, unit or its
                  default `'s'`), branch by branch, on exact binary64 (`Nitime.F64`).
* `outputSeries`  a `SeriesCall` descriptor (GENERATED from the source, see
                  `Nitime/Generated/SeriesCalls.lean`) applied to a source series.
* `rateHz`        Fs = 10¹² / Δ_ps.            `rateOfInterval` the float the constructor stores.
* `timeAt`        the k-th entry of `.time` (`UniformTime(length, t0, sampling_interval)`).
* `concatData`/`concatenate`   `concatenate_time_series`.
* `selectVoxels`  `data[coords[0], coords[1], coords[2]]` on a C-ordered 4-d volume.
* `Reader.*`      (`Model/C15Reader.lean`) histories of reads and in-place writes on a heap of buffers.
-/
import Nitime.Model.F64
import Nitime.Model.Units
import Nitime.Model.Proto
import Nitime.Generated.Units
import Nitime.Model.C15Types
import Nitime.Generated.SeriesCalls
import Nitime.Generated.FsBindings
import Nitime.Model.C15Reader
import Nitime.Model.C15Opts
import Nitime.Model.C15Obj
import Nitime.Model.C15Band
import Nitime.Model.C15Cross
import Nitime.Model.C19

namespace Nitime.C15
open Nitime

structure Axis where
  t0 : Int
  dt : Int
  n : Nat
  unit : TimeUnit
  deriving DecidableEq, Repr

structure Series where
  ax : Axis
  /-- value of `.sampling_rate` (a `Frequency`, Hz), exact binary64 -/
  fs : Rat
  deriving DecidableEq, Repr

inductive Err where
  | valueError        -- invalid time specification
  | unsupported       -- descriptor outside the modelled language
  | unknownCall
  deriving DecidableEq, Repr

/-- the sampling rate in Hz that belongs to an axis: 10¹² ps per second over the interval in ps.
The display unit does not enter. -/
def rateHz (a : Axis) : Rat := (10 ^ 12 : Rat) / (a.dt : Rat)

/-- k-th entry of `.time`: `np.arange(t0, t0 + n*dt, dt)[k]` -/
def timeAt (a : Axis) (k : Nat) : Int := a.t0 + (k : Int) * a.dt

def cf (u : TimeUnit) : Rat := F64.ofInt (Generated.factor u : Int)

/-- `Frequency(1.0 / x, time_unit=u)` for an interval of `x` units: `(1.0/x) * (float(10**12)/tuc[u])` -/
def freqOfPeriod (u : TimeUnit) (x : Rat) : Rat :=
  F64.fmul (F64.fdiv 1 x) (F64.fdiv (F64.ofInt (10 ^ 12)) (cf u))

/-- `.sampling_rate` computed by the constructor from an interval given as a time object of unit `u`:
`Frequency(1.0 / (float(interval) / c_f), time_unit=u)` -/
def rateOfInterval (u : TimeUnit) (ps : Int) : Rat :=
  freqOfPeriod u (F64.fdiv (F64.ofInt ps) (cf u))

/-- `Frequency.to_period()`: `np.int64(np.round((1 / self) * 1e12))` — nearest picosecond, ties to even
(the variant before repo commit f90f922 truncated: `toPeriodTrunc`, kept for the counterexample) -/
def toPeriod (r : Rat) : Int := F64.rint (F64.fmul (F64.fdiv 1 r) (F64.ofInt (10 ^ 12)))

def toPeriodTrunc (r : Rat) : Int := F64.trunc (F64.fmul (F64.fdiv 1 r) (F64.ofInt (10 ^ 12)))

/-- `TimeArray(x, time_unit=u)` for a binary64 `x` -/
def psOfFloat (u : TimeUnit) (x : Rat) : Int := F64.rint (F64.fmul x (cf u))

/-- interval in ps that the constructor derives from a rate alone in unit `u`:
`TimeArray(rate.to_period() / float(c_f), time_unit=u)` -/
def quantise (u : TimeUnit) (r : Rat) : Int :=
  psOfFloat u (F64.fdiv (F64.ofInt (toPeriod r)) (cf u))

/-- a sampling interval argument -/
inductive IvArg where
  | time (ps : Int) (u : TimeUnit)   -- a time object
  | num (x : Rat)                    -- a bare binary64 number, read in the series' unit
  deriving DecidableEq, Repr

/-- `TimeSeries(data, sampling_interval=…, sampling_rate=…, t0=…, time_unit=…)` with `n` samples.
`t0` is a time object (ps) or absent (→ 0); `unit` is already defaulted by the caller (`'s'`). -/
def mkSeries (iv : Option IvArg) (rate : Option Rat) (t0 : Option Int) (unit : TimeUnit) (n : Nat) :
    Except Err Series :=
  match iv, rate with
  | some (.time ps u), none =>
      .ok { ax := { t0 := t0.getD 0, dt := ps, n := n, unit := unit }, fs := rateOfInterval u ps }
  | some (.num x), none =>
      .ok { ax := { t0 := t0.getD 0, dt := psOfFloat unit x, n := n, unit := unit }, fs := freqOfPeriod unit x }
  | none, some r =>
      .ok { ax := { t0 := t0.getD 0, dt := quantise unit r, n := n, unit := unit }, fs := r }
  | _, _ => .error .valueError

/-- run-time parameters of a construction site -/
structure Params where
  offset : Int := 0
  lenEt : Int := 0
  tr : Option IvArg := none
  deriving Repr

def symVal (src : Series) (p : Params) : Sym → Int
  | .one => 1
  | .n => src.ax.n
  | .nMinus1 => (src.ax.n : Int) - 1
  | .offset => p.offset
  | .lenEt => p.lenEt

def argInterval (src : Series) (p : Params) : Arg → Except Err (Option IvArg)
  | .absent => .ok none
  | .field .interval => .ok (some (.time src.ax.dt src.ax.unit))
  | .param => match p.tr with
    | some v => .ok (some v)
    | none => .error .unsupported
  | _ => .error .unsupported

def argRate (src : Series) : Arg → Except Err (Option Rat)
  | .absent => .ok none
  | .field .rate => .ok (some src.fs)
  | _ => .error .unsupported

def argT0 (src : Series) (p : Params) : Arg → Except Err (Option Int)
  | .absent => .ok none
  | .field .t0 => .ok (some src.ax.t0)
  | .scaled neg s => .ok (some ((if neg then -1 else 1) * symVal src p s * src.ax.dt))
  | _ => .error .unsupported

def argUnit (src : Series) : Arg → Except Err TimeUnit
  | .absent => .ok .s                 -- `time_unit='s'` is the constructor's default
  | .field .unit => .ok src.ax.unit
  | _ => .error .unsupported

/-- the series a construction site of the given shape returns for source `src`, with `nOut` samples -/
def outputSeries (sh : Shape) (src : Series) (p : Params) (nOut : Nat) : Except Err Series := do
  let iv ← argInterval src p sh.interval
  let r ← argRate src sh.rate
  let t0 ← argT0 src p sh.t0
  let u ← argUnit src sh.unit
  mkSeries iv r t0 u nOut

def outputAxis (sh : Shape) (src : Series) (p : Params) (nOut : Nat) : Except Err Axis :=
  (outputSeries sh src p nOut).map (·.ax)

def findCall (key : String) : Option SeriesCall :=
  Generated.SeriesCalls.all.find? (fun c => c.key = key)

/-- a chain of construction sites (e.g. `fir`: the intermediate `sig`, then `filtfilt`) -/
def chain (p : Params) : List (String × Nat) → Series → Except Err Series
  | [], s => .ok s
  | (k, nOut) :: rest, s =>
    match findCall k with
    | none => .error .unknownCall
    | some c => do
      let s' ← outputSeries c.shape s p nOut
      chain p rest s'

/-- the sampling rate (Hz) that reaches the algorithm layer at a site of kind `b`, for input `src` and an
optional caller-supplied `method['Fs']` -/
def fsDelivered (b : FsSrc) (src : Series) (user : Option Rat) : Option Rat :=
  match b with
  | .inputRate => some src.fs
  | .userOrInput => some (user.getD src.fs)
  | .other => none

/-- all generated bindings of one getter (`Class.getter.`) -/
def bindingsOf (pfx : String) : List FsBinding :=
  Generated.FsBindings.all.filter (fun b => b.key.startsWith pfx)

/-! ### concatenation and voxel selection (polymorphic in the sample type) -/

/-- `np.concatenate(data, -1)` for a list of (channels × time) blocks with equal channel counts -/
def concatData {α} (ds : List (List (List α))) : List (List α) :=
  match ds with
  | [] => []
  | d :: _ => (List.range d.length).map fun c => (ds.map fun b => b.getD c []).flatten

/-- `concatenate_time_series`: the interval is read from the last series; t0 and unit are not passed -/
def concatenate {α} (ss : List (Series × List (List α))) (sh : Shape) : Except Err (Series × List (List α)) :=
  match ss.getLast? with
  | none => .error .valueError
  | some (last, _) =>
    let data := concatData (ss.map (·.2))
    let n := (data.getD 0 []).length
    (outputSeries sh last {} n).map fun s => (s, data)

/-- a C-ordered 4-d volume (x, y, z, t) -/
structure Vol (α : Type) where
  X : Nat
  Y : Nat
  Z : Nat
  T : Nat
  flat : Array α

def Vol.voxel {α} [Inhabited α] (v : Vol α) (x y z : Nat) : List α :=
  (List.range v.T).map fun t => v.flat[((x * v.Y + y) * v.Z + z) * v.T + t]!

/-- `data[coords[0], coords[1], coords[2]]`: row i is the series of voxel (c0[i], c1[i], c2[i]) -/
def selectVoxels {α} [Inhabited α] (v : Vol α) (c0 c1 c2 : List Nat) : List (List α) :=
  (List.range c0.length).map fun i => v.voxel (c0.getD i 0) (c1.getD i 0) (c2.getD i 0)

/-! ### line protocol -/
open Nitime.Proto

def parseRatHex? (s : String) : Option Rat :=
  if s.startsWith "x" then (parseHex? (s.drop 1).toString).map F64.ofBits else none

def showRatHex (q : Rat) : String := "x" ++ hex64 (F64.toBits q)

def parseIv? (s : String) : Option (Option IvArg) :=
  if s = "-" then some none else
  match s.splitOn ":" with
  | ["T", ps, u] => match ps.toInt?, TimeUnit.ofString? u with
    | some ps, some u => some (some (.time ps u))
    | _, _ => none
  | [x] => (parseRatHex? x).map fun q => some (.num q)
  | _ => none

def showSeries (s : Series) : String :=
  s!"ok {s.ax.unit.name} {s.ax.t0} {s.ax.dt} {s.ax.n} {showRatHex s.fs} {timeAt s.ax 0} {timeAt s.ax (s.ax.n - 1)}"

def showErr : Err → String
  | .valueError => "err ValueError"
  | .unsupported => "err unsupported-descriptor"
  | .unknownCall => "err unknown-call"

def showExcept (r : Except Err Series) : String :=
  match r with
  | .ok s => showSeries s
  | .error e => showErr e

def chunk {α} (n : Nat) (xs : List α) : List (List α) :=
  if n = 0 then [] else
  (List.range (xs.length / n)).map fun i => (xs.drop (i * n)).take n

def handle (args : List String) : String :=
  match args with
  -- axis <keys> <nOuts> <unit> <t0> <dt> <n> <fs> <offset> <lenEt> <tr>
  | ["axis", keys, nouts, u, t0, dt, n, fs, off, le, tr] =>
    let r : Option String := do
      let u ← TimeUnit.ofString? u
      let t0 ← t0.toInt?
      let dt ← dt.toInt?
      let n ← n.toNat?
      let fs ← parseRatHex? fs
      let off ← off.toInt?
      let le ← le.toInt?
      let tr ← parseIv? tr
      let nouts ← parseNatList? nouts
      let ks := splitList keys
      if ks.length ≠ nouts.length then none else
      let src : Series := { ax := { t0 := t0, dt := dt, n := n, unit := u }, fs := fs }
      pure (showExcept (chain { offset := off, lenEt := le, tr := tr } (ks.zip nouts) src))
    r.getD "bad-op"
  -- mk <unit> <iv> <t0 ps|-> <n>      a series built directly by the constructor
  | ["mk", u, iv, t0, n] =>
    match TimeUnit.ofString? u, parseIv? iv, n.toNat? with
    | some u, some iv, some n =>
      let t0v : Option Int := if t0 = "-" then none else t0.toInt?
      showExcept (mkSeries iv none t0v u n)
    | _, _, _ => "bad-op"
  -- mkrate <unit> <rate> <n>
  | ["mkrate", u, r, n] =>
    match TimeUnit.ofString? u, parseRatHex? r, n.toNat? with
    | some u, some r, some n => showExcept (mkSeries none (some r) none u n)
    | _, _, _ => "bad-op"
  -- rate <unit> <ps>: the float the constructor stores, and the exact Fs
  | ["rate", u, ps] =>
    match TimeUnit.ofString? u, ps.toInt? with
    | some u, some ps =>
      s!"ok {showRatHex (rateOfInterval u ps)} {showRat (rateHz { t0 := 0, dt := ps, n := 1, unit := u })}"
    | _, _ => "bad-op"
  -- fsdeliver <Class.getter.> <unit> <dt> <fs> <user fs|->: what every Fs site of that getter hands on
  | ["fsdeliver", pfx, u, dt, fs, user] =>
    let r : Option String := do
      let u ← TimeUnit.ofString? u
      let dt ← dt.toInt?
      let fs ← parseRatHex? fs
      let user ← (if user = "-" then some none else (parseRatHex? user).map some)
      let src : Series := { ax := { t0 := 0, dt := dt, n := 1, unit := u }, fs := fs }
      let bs := bindingsOf pfx
      if bs.isEmpty then pure "err no-binding" else
      let vals := bs.map fun b => fsDelivered b.src src user
      match vals with
      | some v :: rest => if rest.all (· == some v) then pure ("ok " ++ showRatHex v) else pure "err mixed"
      | _ => pure "err not-from-input"
    r.getD "bad-op"
  -- concat <C> <lens> <dts> <units> <t0s> <data tokens, all blocks row-major>
  | ["concat", c, lens, dts, us, t0s, data] =>
    match c.toNat?, parseNatList? lens, parseIntList? dts, (splitList us).mapM TimeUnit.ofString?, parseIntList? t0s with
    | some c, some lens, some dts, some us, some t0s =>
      let toks := splitList data
      -- cut the token stream into blocks of c*len
      let blocks := (lens.foldl (fun (acc : List (List (List String)) × List String) len =>
          (acc.1 ++ [chunk len (acc.2.take (c * len))], acc.2.drop (c * len))) ([], toks)).1
      let ss : List (Series × List (List String)) :=
        (List.range lens.length).map fun i =>
          ({ ax := { t0 := t0s.getD i 0, dt := dts.getD i 0, n := lens.getD i 0, unit := us.getD i .s },
             fs := rateOfInterval (us.getD i .s) (dts.getD i 0) }, blocks.getD i [])
      match findCall "concatenate_time_series.0" with
      | none => showErr .unknownCall
      | some call =>
        match concatenate ss call.shape with
        | .ok (s, d) => showSeries s ++ " " ++ joinList d.flatten
        | .error e => showErr e
    | _, _, _, _, _ => "bad-op"
  -- coords <X> <Y> <Z> <T> <c0> <c1> <c2> <flat volume tokens>
  | ["coords", x, y, z, t, c0, c1, c2, data] =>
    match x.toNat?, y.toNat?, z.toNat?, t.toNat?, parseNatList? c0, parseNatList? c1, parseNatList? c2 with
    | some x, some y, some z, some t, some c0, some c1, some c2 =>
      let v : Vol String := { X := x, Y := y, Z := z, T := t, flat := (splitList data).toArray }
      let rows := selectVoxels v c0 c1 c2
      s!"ok {rows.length} {t} {joinList rows.flatten}"
    | _, _, _, _, _, _, _ => "bad-op"
  -- readseq <Y> <Z> <V> <Ts> <tokens> <ops>: a history of reads / in-place writes on the same files (Model/C15Reader.lean)
  | ["readseq", y, z, v, ts, toks, ops] => Reader.handleReadseq y z v ts toks ops
  -- readeropts <normalize|-> <filter method|->: accepted, or refused with ValueError
  | ["readeropts", nrm, meth] => if Reader.optionsOk nrm meth then "ok" else "err ValueError"
  -- readerhist <call>;<call>;…: the keyword arguments every call of a history hands to FilterAnalyzer (Model/C15Opts.lean)
  | ["readerhist", calls] => Opts.handleHist calls
  -- era <C19 job line>: the event-related analyzer's DATA (multi-row event series, dtypes) through the C19 model
  | "era" :: rest => Nitime.C19.handle rest
  -- objhist <nitems> <fails> <ops>: reads / set_input on ONE analyzer whose per-item loop fails part-way (Model/C15Obj.lean)
  | ["objhist", n, fails, ops] => Obj.handleHist .localDict n fails ops
  -- seedrows <ntarget> <idx> <mem>: which target row's dense result every seed row must show (Model/C15Obj.lean)
  | ["seedrows", n, idx, mem] => Seed.handleSeed .values n idx mem
  -- shiftsrc <n>: which DFT bin every position of the two-sided (complex-input) Fourier spectrum shows
  | ["shiftsrc", n] => Shift.handleShift n
  -- band <n> <Fs> <lb> <ub|->: which DFT bins 0..n/2 `FilterAnalyzer.filtered_fourier` keeps (Model/C15Band.lean)
  | ["band", n, fs, lb, ub] => Band.handleBand n fs lb ub
  -- firhist <code|keyed|norate> <taps,lb,ub,win,rate;…>: which request's design answers every request of a history (Model/C15Cross.lean)
  | ["firhist", v, reqs] => Cross.handleFirhist v reqs
  -- concatdt <dtype:re/im,…;…>: dtype and samples of the block `concatenate_time_series` builds from runs of different dtypes
  | ["concatdt", runs] => Cross.handleConcatDt runs
  | _ => "bad-op"

end Nitime.C15
