/-
C05 — the grid language and the exact `Rat` reference grids (core Lean only).

`harness/translate_c05.py` turns every frequency-grid expression of the source
(`np.linspace(...)`, `np.fft.rfftfreq(N) * Fs`, `utils.get_freqs(...)` inlined,
`circle_to_hz` inlined, …) into a term of `GridExpr`; `eval` gives its value for a sampling
rate `Fs : Rat` (Hz) and an FFT length `N : Nat`.  The symbol `π` of the source is the
environment entry `pi` (a parameter of the theorems; the driver instantiates it with a 40-digit
rational approximation).
-/
namespace Nitime.C05

/-- scalar sub-language: the arguments of `linspace` etc. in terms of `Fs` and `N` -/
inductive AExpr where
  | const (c : Int)
  | fs                       -- the sampling rate in Hz
  | n                        -- the FFT length / number of samples
  | pi                       -- `np.pi`
  | add (a b : AExpr)
  | sub (a b : AExpr)
  | mul (a b : AExpr)
  | div (a b : AExpr)        -- true division `/`
  | floordiv (a b : AExpr)   -- `//`
  | neg (a : AExpr)
  | int (a : AExpr)          -- `int(x)` (truncation toward zero)
  | bad                      -- fragment outside the supported language
  deriving Repr, DecidableEq, Inhabited

structure Env where
  fs : Rat
  n : Nat
  pi : Rat

/-- truncation toward zero -/
def truncQ (q : Rat) : Int := if q < 0 then -((-q).floor) else q.floor

def AExpr.eval (e : Env) : AExpr → Rat
  | .const c => (c : Rat)
  | .fs => e.fs
  | .n => (e.n : Rat)
  | .pi => e.pi
  | .add a b => a.eval e + b.eval e
  | .sub a b => a.eval e - b.eval e
  | .mul a b => a.eval e * b.eval e
  | .div a b => a.eval e / b.eval e
  | .floordiv a b => (((a.eval e / b.eval e).floor : Int) : Rat)
  | .neg a => - a.eval e
  | .int a => ((truncQ (a.eval e) : Int) : Rat)
  | .bad => 0

/-- an expression used as a count (`num=` of linspace, `n` of rfftfreq) -/
def AExpr.evalN (e : Env) (a : AExpr) : Nat := (a.eval e).floor.toNat

/-- `np.linspace(a, b, n, endpoint)`: `a + k·step`, `step = (b-a)/(n-1)` (endpoint) or `(b-a)/n`;
for `n = 1` with endpoint numpy returns `[a]` (here: division by zero is zero). -/
def linspace (a b : Rat) (n : Nat) (endpoint : Bool) : List Rat :=
  let d : Nat := if endpoint then n - 1 else n
  (List.range n).map fun (k : Nat) => a + (k : Rat) * ((b - a) / (d : Rat))

/-- `np.fft.rfftfreq(n)` (unit sample spacing): `k/n`, `k = 0 … n//2` -/
def rfftfreq (n : Nat) : List Rat :=
  (List.range (n / 2 + 1)).map fun (k : Nat) => (k : Rat) * (1 / (n : Rat))

/-- `np.fft.fftfreq(n)`: `0, 1/n, …, (⌈n/2⌉-1)/n, -⌊n/2⌋/n, …, -1/n` -/
def fftfreq (n : Nat) : List Rat :=
  (List.range n).map fun (k : Nat) =>
    (if k < (n + 1) / 2 then (k : Rat) else (k : Rat) - (n : Rat)) * (1 / (n : Rat))

inductive GridExpr where
  | linspace (a b num : AExpr) (endpoint : Bool)
  | rfftfreq (num : AExpr)
  | fftfreq (num : AExpr)
  | arange (num : AExpr)               -- `np.arange(n)`: 0, 1, …, n-1
  | addS (g : GridExpr) (s : AExpr)     -- elementwise `g + s`
  | subS (g : GridExpr) (s : AExpr)     -- elementwise `g - s`
  | mulS (g : GridExpr) (s : AExpr)     -- elementwise `g * s` / `s * g`
  | divS (g : GridExpr) (s : AExpr)     -- elementwise `g / s`
  | unsupported
  deriving Repr, DecidableEq, Inhabited

def GridExpr.evalEnv (e : Env) : GridExpr → List Rat
  | .linspace a b m ep => Nitime.C05.linspace (a.eval e) (b.eval e) (m.evalN e) ep
  | .rfftfreq m => Nitime.C05.rfftfreq (m.evalN e)
  | .fftfreq m => Nitime.C05.fftfreq (m.evalN e)
  | .arange m => (List.range (m.evalN e)).map fun (k : Nat) => (k : Rat)
  | .addS g s => (g.evalEnv e).map (· + s.eval e)
  | .subS g s => (g.evalEnv e).map (· - s.eval e)
  | .mulS g s => (g.evalEnv e).map (· * s.eval e)
  | .divS g s => (g.evalEnv e).map (· / s.eval e)
  | .unsupported => []

/-- value of a grid term at sampling rate `Fs` and length `N` (`pi` = the value used for `np.pi`) -/
def eval (g : GridExpr) (pi Fs : Rat) (N : Nat) : List Rat := g.evalEnv ⟨Fs, N, pi⟩

/-! ### the grids the property asks for -/

/-- one-sided: `k·Fs/N`, `k = 0 … ⌊N/2⌋` -/
def trueOneSided (Fs : Rat) (N : Nat) : List Rat :=
  (List.range (N / 2 + 1)).map fun (k : Nat) => (k : Rat) * Fs / (N : Rat)

/-- two-sided: `k·Fs/N`, `k = 0 … N-1` (covering `[0, Fs)`) -/
def trueTwoSided (Fs : Rat) (N : Nat) : List Rat :=
  (List.range N).map fun (k : Nat) => (k : Rat) * Fs / (N : Rat)

/-- centred (`fftshift`) two-sided grid: entry `k` is `(k - ⌊N/2⌋)·Fs/N` -/
def trueShifted (Fs : Rat) (N : Nat) : List Rat :=
  (List.range N).map fun (k : Nat) => ((k : Rat) - ((N / 2 : Nat) : Rat)) * Fs / (N : Rat)

/-- the grid `scipy.signal.freqz(worN = L)` evaluates on, in Hz: `k·Fs/(2L)`, `k < L`
(`[0, Fs/2)` without the Nyquist point); for `granger_causality_xy(n_freqs)`, `L = n_freqs//2+1` -/
def trueFreqz (Fs : Rat) (L : Nat) : List Rat :=
  (List.range L).map fun (k : Nat) => (k : Rat) * Fs / (2 * (L : Rat))

/-! ### band selection (`utils.get_bounds`, `np.searchsorted` on a sorted array) -/

/-- `np.searchsorted(f, lb, 'left')` on a sorted array = number of entries `< lb` -/
def searchLeft (f : List Rat) (lb : Rat) : Nat := (f.filter (· < lb)).length
/-- `np.searchsorted(f, ub, 'right')` on a sorted array = number of entries `≤ ub` -/
def searchRight (f : List Rat) (ub : Rat) : Nat := (f.filter (· ≤ ub)).length

def getBounds (f : List Rat) (lb : Rat) (ub : Option Rat) : Nat × Nat :=
  (searchLeft f lb, match ub with | none => f.length | some u => searchRight f u)

/-- `freqs[lb_idx:ub_idx]` -/
def sliceBand (f : List Rat) (lb : Rat) (ub : Option Rat) : List Rat :=
  let b := getBounds f lb ub
  (f.take b.2).drop b.1

end Nitime.C05
