/-
C08 — how `CoherenceAnalyzer.coherence_partial` obtains the (a, b) cross-spectrum from the array `get_spectra` hands
back.  Core Lean only; one text over `CScalar K` (run at `Cx` by the driver op `specfull`, proved about in
`Props/C08Layout.lean`).

`get_spectra` has two LAYOUTS for the same Hermitian spectral matrix H:
  * welch:                              filled for i ≤ j only, zeros below the diagonal (`Layout.halfFilled`)
  * multi_taper_csd, periodogram_csd:   the full Hermitian matrix                          (`Layout.full`)
The analyzer reads cross-spectra through the closure `csd(a, b)` (`csdOf`): `spectrum[a][b]` for a ≤ b,
`spectrum[b][a].conjugate()` otherwise — only the upper half is ever read, so both layouts give the same value.
`completed` is the one-off completion `S + S^H` with the diagonal restored (right on a half-filled array only);
`direct` the plain subscript (right on a full array only).
-/
import Nitime.Model.CohBase

namespace Nitime.C08
open Nitime.Coh Nitime.Coh.CScalar

/-- layout of the n×n×F array returned by `get_spectra` -/
inductive Layout where
  | halfFilled
  | full
  deriving DecidableEq, Repr

/-- the ways a method can read the (a, b) cross-spectrum out of the stored array (what the translator recognises in
    the source of `CoherenceAnalyzer.coherence_partial`) -/
inductive ReadKind where
  | closure      -- nested `def csd(a, b): if a <= b: return S[a][b]; return S[b][a].conjugate()`
  | direct       -- plain `S[a][b]`
  | unknown      -- anything else (a translator miss: the consuming theorem then fails to check)
  deriving DecidableEq, Repr

section generic
variable {K : Type} [CScalar K]

/-- the array `get_spectra` returns for the spectral matrix `H` -/
def stored (l : Layout) (H : Nat → Nat → Nat → K) (i j k : Nat) : K :=
  match l with
  | .halfFilled => if i ≤ j then H i j k else ofNat 0
  | .full => H i j k

/-- the closure `csd(a, b)` of `CoherenceAnalyzer.coherence_partial` on the stored array `S` -/
def csdOf (S : Nat → Nat → Nat → K) (a b k : Nat) : K :=
  if a ≤ b then S a b k else conj (S b a k)

/-- one-off completion `csd = S + S.transpose(1, 0, 2).conjugate(); csd[diag, diag] = S[diag, diag]` -/
def completed (S : Nat → Nat → Nat → K) (a b k : Nat) : K :=
  if a = b then S a a k else add (S a b k) (conj (S b a k))

/-- the plain subscript `S[a][b]` -/
def direct (S : Nat → Nat → Nat → K) (a b k : Nat) : K := S a b k

/-- reader selected by what the source does -/
def readOf : ReadKind → (Nat → Nat → Nat → K) → Nat → Nat → Nat → K
  | .closure => csdOf
  | .direct => direct
  | .unknown => fun _ _ _ _ => ofNat 0

/-- the body of the triple loop: `coherence_partial_spec(csd(i, j), S[i][i], S[j][j], csd(i, k), csd(k, j), S[k][k])`,
    left at 0 when `j == k or i == k` -/
def analyzerPartialCell (read : (Nat → Nat → Nat → K) → Nat → Nat → Nat → K) (S : Nat → Nat → Nat → K)
    (i j r k : Nat) : K :=
  if j = r ∨ i = r then ofNat 0
  else coherencePartialSpec (read S i j k) (S i i k) (S j j k) (read S i r k) (read S r j k) (S r r k)

/-- `CoherenceAnalyzer.coherence_partial[i][j][r][k]`: the loop, then `p[tril] = p[triu].conj()` -/
def analyzerPartial (read : (Nat → Nat → Nat → K) → Nat → Nat → Nat → K) (S : Nat → Nat → Nat → K)
    (i j r k : Nat) : K :=
  if j < i then conj (analyzerPartialCell read S j i r k) else analyzerPartialCell read S i j r k

/-- the function-level `coherence_partial(time_series, r)[i][j][k]` in terms of the joint spectral matrix `H` of the
    channels and the common cause `r`: pair loop over i ≤ j with `get_spectra_bi(x_i, r)` → f_ir and
    `get_spectra_bi(r, x_j)` → f_rj (`partialOf`), then `c[tril] = c[triu].conj()` -/
def functionPartial (H : Nat → Nat → Nat → K) (i j r k : Nat) : K :=
  if j < i then conj (partialOf H j i r k) else partialOf H i j r k

end generic

end Nitime.C08
