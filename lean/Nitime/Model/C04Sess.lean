/-
C04 — SpectralAnalyzer sessions: construct / `set_input` / `reset` / reads of the five getters in any order.  Core Lean only.

Every density the analyzer hands out is scaled by (and its frequency axis laid out with) a sampling rate; Parseval
(Σ PSD · Fs/NFFT = power) holds for the series HELD only if that rate is the held series' own.  `harness/translate_c04.py`
(gen_ansess) extracts from the CURRENT `analysis/spectral.py`, per getter, WHICH OBJECT the rate is taken from
(`Nitime.Generated.AnalyzerFs`):

  heldInput          `self.input.sampling_rate`
  methodEntryOrHeld  `self.method.get('Fs', self.input.sampling_rate)`
  methodEntry        `self.method['Fs']` / the method dict handed to `get_spectra`
  writesMethodFs     the getter first stores `self.method['Fs'] = self.input.sampling_rate` (cpsd does)

and what `__init__` stores under `'Fs'` in its copy of the method dict.  `BaseAnalyzer.set_input` swaps the input and forgets
the one-time attributes; it does not touch `self.method`.  A getter's result is recorded as (rate used, id of the series held).
-/
namespace Nitime.C04.Sess

inductive Getter where
  | psd | cpsd | periodogram | multiTaper | fourier
  deriving DecidableEq, Repr

inductive FsSrc where
  | heldInput | methodEntryOrHeld | methodEntry | unknown
  deriving DecidableEq, Repr

structure GetterSpec where
  src : FsSrc
  writesMethodFs : Bool
  deriving DecidableEq, Repr

/-- what `__init__` stores under `'Fs'` in the analyzer's method dict -/
inductive CtorFs where
  | onlyWhenMethodNone   -- the default dict `{'this_method': 'welch', 'Fs': input.sampling_rate}`; a user dict is copied as it is
  | always               -- … and a user dict gets `'Fs' = input.sampling_rate` too
  | never
  | unknown
  deriving DecidableEq, Repr

structure Inp where
  rate : Rat
  id : Nat
  deriving DecidableEq, Repr

structure St where
  held : Inp
  methodFs : Option Rat                      -- `self.method.get('Fs')`
  memo : Getter → Option (Rat × Nat)         -- fired one-time attributes

/-- `userMethod = none`: `method=None`; `some u`: a user dict whose `'Fs'` entry is `u` -/
def init (c : CtorFs) (inp : Inp) (userMethod : Option (Option Rat)) : St :=
  { held := inp
    memo := fun _ => none
    methodFs := match userMethod, c with
      | none, .onlyWhenMethodNone => some inp.rate
      | none, .always => some inp.rate
      | none, _ => none
      | some _, .always => some inp.rate
      | some u, _ => u }

def rateOf (src : FsSrc) (s : St) : Rat :=
  match src with
  | .heldInput => s.held.rate
  | .methodEntryOrHeld => s.methodFs.getD s.held.rate
  | .methodEntry => s.methodFs.getD 0
  | .unknown => 0

inductive Ev where
  | setInput (new : Inp)
  | reset
  | read (g : Getter)
  deriving Repr

def setMemo (m : Getter → Option (Rat × Nat)) (g : Getter) (v : Rat × Nat) : Getter → Option (Rat × Nat) :=
  fun g' => if g' = g then some v else m g'

/-- `OneTimeProperty`: memo hit, or compute (after the getter's own write into the method dict) and store -/
def read (table : Getter → GetterSpec) (g : Getter) (s : St) : St × (Rat × Nat) :=
  match s.memo g with
  | some v => (s, v)
  | none =>
    let s1 : St := if (table g).writesMethodFs then { s with methodFs := some s.held.rate } else s
    let v := (rateOf (table g).src s1, s1.held.id)
    ({ s1 with memo := setMemo s1.memo g v }, v)

def run (table : Getter → GetterSpec) : St → List Ev → List (Getter × Rat × Nat)
  | _, [] => []
  | s, .setInput new :: es => run table { s with held := new, memo := fun _ => none } es
  | s, .reset :: es => run table { s with memo := fun _ => none } es
  | s, .read g :: es => (g, (read table g s).2) :: run table (read table g s).1 es

/-- the property's side: every result is computed at the rate of the series held when it is read -/
def spec : Inp → List Ev → List (Getter × Rat × Nat)
  | _, [] => []
  | _, .setInput new :: es => spec new es
  | h, .reset :: es => spec h es
  | h, .read g :: es => (g, h.rate, h.id) :: spec h es

/-- a getter whose rate is the held series' whatever the method dict holds -/
def usesHeld (sp : GetterSpec) : Bool :=
  sp.src == .heldInput || (sp.writesMethodFs && (sp.src == .methodEntryOrHeld || sp.src == .methodEntry))

end Nitime.C04.Sess
