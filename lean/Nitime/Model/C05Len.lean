/-
C05 — FROM WHICH QUANTITY a frequency grid takes its length (core Lean only).

An estimator (`periodogram`, `periodogram_csd`, `multi_taper_psd`, `multi_taper_csd`) builds its grid from a
number `N` and computes its spectrum from a transform.  Both are decided by the optional arguments: the number
of samples `s.shape[-1]`, the argument `N=` / `NFFT=`, and a precomputed transform `Sk=` of any length.
`harness/translate_c05.py` (gen_lens) executes the assignments of the function body symbolically and emits, per
estimator, a `LenExpr` (what the name inside `rfftfreq(·)` / `linspace(0, Fs, ·)` is bound to when the grid is built)
and a `TrExpr` (which transform the spectral values are read from).  `Props/C05.lean` proves, per estimator, that
the grid length IS the length of the transform actually used, for every combination of the optional arguments.
-/
namespace Nitime.C05

/-- the optional arguments a call was made with: number of samples, `N=`/`NFFT=` (`none` = not given / `None`),
length of the last axis of a supplied `Sk=` (`none` = not given) -/
structure LenEnv where
  nData : Nat
  nfft : Option Nat
  sk : Option Nat
  deriving Repr, DecidableEq

/-- the tests on the optional arguments that occur in the sources -/
inductive LCond where
  | skGiven                  -- `Sk is not None`
  | nfftGiven                -- `NFFT is not None`
  | nfftTruthy               -- `N` used as a truth value (`not N`: `None` and `0` alike)
  | nfftLtData               -- `NFFT < s.shape[-1]` (only evaluated when NFFT is given)
  | not (c : LCond)
  | or (a b : LCond)
  | and (a b : LCond)
  | unknown
  deriving Repr, DecidableEq, Inhabited

def LCond.eval (e : LenEnv) : LCond → Bool
  | .skGiven => e.sk.isSome
  | .nfftGiven => e.nfft.isSome
  | .nfftTruthy => match e.nfft with | some k => k != 0 | none => false
  | .nfftLtData => match e.nfft with | some k => decide (k < e.nData) | none => false
  | .not c => !(c.eval e)
  | .or a b => a.eval e || b.eval e
  | .and a b => a.eval e && b.eval e
  | .unknown => false

/-- an integer of the function body in terms of the optional arguments -/
inductive LenExpr where
  | data                     -- `s.shape[-1]`
  | nfft                     -- the `N=` / `NFFT=` argument as passed
  | given                    -- `Sk.shape[-1]`: the length of the supplied transform
  | ite (c : LCond) (t e : LenExpr)
  | bad                      -- outside the fragment
  deriving Repr, DecidableEq, Inhabited

def LenExpr.eval (e : LenEnv) : LenExpr → Nat
  | .data => e.nData
  | .nfft => e.nfft.getD 0
  | .given => e.sk.getD 0
  | .ite c t f => if c.eval e then t.eval e else f.eval e
  | .bad => 0

/-- a transform of the function body -/
inductive TrExpr where
  | supplied                 -- the caller's `Sk` (reshaped at most)
  | fft (n : LenExpr)        -- `fftpack.fft(…, n=n)`: an n-point transform of the (tapered) data
  | ite (c : LCond) (t e : TrExpr)
  | bad
  deriving Repr, DecidableEq, Inhabited

/-- number of points of the transform (`fft(x, n=n)` returns `n` points, zero-padding or truncating `x`) -/
def TrExpr.len (e : LenEnv) : TrExpr → Nat
  | .supplied => e.sk.getD 0
  | .fft n => n.eval e
  | .ite c t f => if c.eval e then t.len e else f.len e
  | .bad => 0

/-- is the supplied transform the one that is used? -/
def TrExpr.usesSupplied (e : LenEnv) : TrExpr → Bool
  | .supplied => true
  | .fft _ => false
  | .ite c t f => if c.eval e then t.usesSupplied e else f.usesSupplied e
  | .bad => false

/-- one estimator: the length its grid is built from, and the transform its values are read from -/
structure LenSite where
  gridLen : LenExpr
  transform : TrExpr
  deriving Repr, DecidableEq, Inhabited

/-- number of spectral values along the last axis -/
def nBins (onesided : Bool) (n : Nat) : Nat := if onesided then n / 2 + 1 else n

end Nitime.C05
