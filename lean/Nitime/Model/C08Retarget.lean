/-
C08 — re-targeting an analyzer with `set_input` (object model; class L8: the SAME TimeSeries object handed in again after
its data were changed in place).  A heap maps object references to sample data; the analyzer holds a reference and a
one-time cache of a derived value `f data` (spectrum, coherency, coherence, …: every getter is such an `f`).
`set_input r` of the code that exists resets the cache ALWAYS (`BaseAnalyzer.set_input`); the variant that keeps the
cache when `r` is the object already held (`skipSame = true`, seeded change C08-11) is refuted.
Core Lean only.
-/
namespace Nitime.C08.Retarget

structure An (R : Type) where
  input : Nat
  cache : Option R

inductive Ev (D : Type) where
  | mutate (r : Nat) (d : D)
  | setInput (r : Nat)
  | read

section
variable {D R : Type}

def step (skipSame : Bool) (f : D → R) (h : Nat → D) (a : An R) : Ev D → (Nat → D) × An R × Option R
  | .mutate r d => (fun x => if x = r then d else h x, a, none)
  | .setInput r => (h, if skipSame && r == a.input then a else ⟨r, none⟩, none)
  | .read =>
    match a.cache with
    | some v => (h, a, some v)
    | none => (h, { a with cache := some (f (h a.input)) }, some (f (h a.input)))

def run (skipSame : Bool) (f : D → R) : (Nat → D) → An R → List (Ev D) → (Nat → D) × An R × List (Option R)
  | h, a, [] => (h, a, [])
  | h, a, e :: es =>
    let p := step skipSame f h a e
    let q := run skipSame f p.1 p.2.1 es
    (q.1, q.2.1, p.2.2 :: q.2.2)

/-- `k` reads in a row -/
def reads (k : Nat) : List (Ev D) := List.replicate k Ev.read

theorem run_append (s : Bool) (f : D → R) (h : Nat → D) (a : An R) (xs ys : List (Ev D)) :
    run s f h a (xs ++ ys) =
      ((run s f (run s f h a xs).1 (run s f h a xs).2.1 ys).1,
       (run s f (run s f h a xs).1 (run s f h a xs).2.1 ys).2.1,
       (run s f h a xs).2.2 ++ (run s f (run s f h a xs).1 (run s f h a xs).2.1 ys).2.2) := by
  induction xs generalizing h a with
  | nil => simp [run]
  | cons x xs ih => simp [run, ih]

/-- reads on an analyzer whose cache holds `v` (or is empty, `v = f (h input)`) all return `v` and change nothing else -/
theorem reads_cached (s : Bool) (f : D → R) (h : Nat → D) (i : Nat) (v : R) (k : Nat) :
    run s f h ⟨i, some v⟩ (reads k) = (h, ⟨i, some v⟩, List.replicate k (some v)) := by
  induction k with
  | zero => rfl
  | succ k ih =>
    simp only [reads] at ih
    simp [reads, List.replicate_succ, run, step, ih]

theorem reads_fresh (s : Bool) (f : D → R) (h : Nat → D) (i : Nat) (k : Nat) :
    (run s f h ⟨i, none⟩ (reads k)).2.2 = List.replicate k (some (f (h i))) := by
  cases k with
  | zero => rfl
  | succ k =>
    have := reads_cached s f h i (f (h i)) k
    simp only [reads] at this
    simp [reads, List.replicate_succ, run, step, this]

/-- **after `set_input r` every read answers from the data `r` holds NOW** — whatever happened before (any history `pre`
of in-place changes, re-targets and reads), also when `r` is the object already held -/
theorem retarget_reads_current (f : D → R) (h : Nat → D) (a : An R) (pre : List (Ev D)) (r k : Nat) :
    (run false f h a (pre ++ Ev.setInput r :: reads k)).2.2
      = (run false f h a pre).2.2 ++ none :: List.replicate k (some (f ((run false f h a pre).1 r))) := by
  rw [run_append]
  simp only [run, step, Bool.false_and, Bool.false_eq_true, if_false]
  rw [reads_fresh]

/-- the variant that keeps the cache when handed the object it already holds: stale after an in-place change -/
theorem skip_same_object_counterexample (f : D → R) (h : Nat → D) (r : Nat) (d' : D) :
    (run true f h ⟨r, none⟩ [Ev.read, Ev.mutate r d', Ev.setInput r, Ev.read]).2.2
      = [some (f (h r)), none, none, some (f (h r))] := by
  simp [run, step]

end
end Nitime.C08.Retarget
