/-
C05 — object histories around a frequency vector (core Lean only).

Two small machines, both parametrised by the grid the site's formula computes (so they compose with
the `<site>_is_true_grid` theorems about the generated terms):

`Hist` — ONE analyzer, read histories.  `OneTimeProperty.__get__` stores the array a getter returns
in the instance dict and hands the SAME object to every later reader (`setattr(obj, name, val)`,
nitime/descriptors.py).  Arrays live in a heap (cell id = allocation order); the caller keeps the
references it was handed.  Reading another result allocates that result's own array; it may read
the frequency attribute on the way (`delay = relative_phases / (2*pi*self.frequencies)`), but no
getter writes into an array that already exists.  `reset()` / `set_input()` forget the cached
references, never the arrays.

`Two` — SEVERAL live analyzers and the method dicts they hold.  Dicts are heap objects (id =
allocation order) of which only the `'Fs'` slot matters for the axis; `method=None` allocates a
new dict in the constructor (`self.method = {'this_method': 'welch'}`), `method=m` stores the
caller's object or a copy of it — which of the two, and whether `__init__` fills `'Fs'` in, is read
off the source by the translator (`MSpec`, `Nitime.Generated.Methods`).  The getters write `'Fs'` as
the source does:
  CoherenceAnalyzer / SparseCoherenceAnalyzer / SeedCoherenceAnalyzer `__init__` (`ctorFillsFs`):
      `self.method['Fs'] = self.method.get('Fs', input.sampling_rate)`
  Sparse/Seed `.frequencies`: the same fill-if-missing again, then `get_freqs(method['Fs'], NFFT)`
  CoherenceAnalyzer `.frequencies`: `get_spectra(data, method)` -> `Fs = method.get('Fs', 2*pi)`
  SpectralAnalyzer `__init__`: `method=None` -> `{'this_method': 'welch', 'Fs': rate}` (`defaultHasFs`); a given dict is not written
  SpectralAnalyzer `.psd`: `Fs = self.input.sampling_rate` (the dict is not consulted)
  SpectralAnalyzer `.cpsd`: `self.method['Fs'] = self.input.sampling_rate`, then `get_spectra`
(NFFT is one number for the whole history: every analyzer of a shared dict reads the same entry,
and the defaults of all four classes are 64.)
-/
namespace Nitime.C05

namespace Hist

/-- events of a read history of one analyzer -/
inductive Ev where
  | readFreq                                   -- read the frequency attribute; the caller keeps the object
  | readOther (usesFreq : Bool) (val : List Rat) -- read another result (`usesFreq`: its getter reads the frequencies)
  | reset                                      -- `reset()`
  | retarget (g : List Rat)                    -- `set_input` / new parameters + `reset()`: the site's formula now gives `g`
  deriving Repr

structure St where
  heap : List (List Rat)            -- every array allocated so far
  grid : List Rat                   -- what the site's formula gives for the current input / parameters
  cache : Option Nat                -- the fired one-time attribute: id of the stored array
  handed : List (Nat × List Rat)    -- references held by the caller, with the grid current at hand-out
  deriving Repr

def init (g : List Rat) : St := ⟨[], g, none, []⟩

/-- `OneTimeProperty.__get__` on the frequency attribute: memo hit, or compute + store -/
def fire (s : St) : St × Nat :=
  match s.cache with
  | some i => (s, i)
  | none => ({ s with heap := s.heap ++ [s.grid], cache := some s.heap.length }, s.heap.length)

def step (s : St) : Ev → St
  | .readFreq =>
    let r := fire s
    { r.1 with handed := r.1.handed ++ [(r.2, s.grid)] }
  | .readOther uses val =>
    let s' := if uses then (fire s).1 else s
    { s' with heap := s'.heap ++ [val] }
  | .reset => { s with cache := none }
  | .retarget g => { s with cache := none, grid := g }

def run (s : St) (evs : List Ev) : St := evs.foldl step s

/-- what the caller finds, at the end of the history, in each vector it was handed -/
def finalViews (s : St) : List (List Rat) := s.handed.map fun p => s.heap.getD p.1 []

/-- the change class of seeded change C05-6, for contrast: a getter that takes the cached frequency
array without copying (`np.asarray(self.frequencies)`) and overwrites its entry 0 with `v` -/
def stepAliasWrite (s : St) (v : Rat) : St :=
  let r := fire s
  { r.1 with heap := r.1.heap.set r.2 (match r.1.heap.getD r.2 [] with | [] => [] | _ :: t => v :: t) }

end Hist

namespace Two

inductive Cls where
  | coherence | sparse | seed | spectral
  deriving DecidableEq, Repr

structure An where
  cls : Cls
  dict : Nat            -- id of the dict object stored in `self.method`
  rate : Rat            -- sampling rate of the analyzer's own input, Hz
  deriving Repr

inductive Ev where
  | userDict (fs : Option Rat)                       -- the caller creates a dict (with / without an `'Fs'` entry)
  | new (c : Cls) (rate : Rat) (user : Option Nat)   -- constructor; `none`: `method=None`, `some d`: the caller's dict `d`
  | freq (k : Nat)                                   -- analyzer k: `.frequencies` (SpectralAnalyzer: `.psd[0]`)
  | cpsd (k : Nat)                                   -- SpectralAnalyzer k: `.cpsd[0]`
  deriving Repr

structure St where
  dicts : List (Option Rat)        -- the `'Fs'` slot of every dict object
  ans : List An                    -- live analyzers, in construction order
  fcache : List (Nat × List Rat)   -- fired `.frequencies` / `.psd` (first entry of a key counts)
  ccache : List (Nat × List Rat)   -- fired `.cpsd`
  out : List (Nat × List Rat)      -- every read: (analyzer, vector returned)
  deriving Repr

def init : St := ⟨[], [], [], [], []⟩

/-- how a class's constructor treats its `method` argument (extracted from the source into
`Nitime.Generated.Methods`): `keeps`: a caller's dict is stored as the object itself (`self.method = method`), otherwise
a copy (`dict(method)`); `ctorFillsFs`: `self.method['Fs'] = self.method.get('Fs', input.sampling_rate)` in `__init__`;
`defaultHasFs`: the dict built for `method=None` already has `'Fs': input.sampling_rate` -/
structure MSpec where
  keeps : Bool
  ctorFillsFs : Bool
  defaultHasFs : Bool
  deriving Repr, DecidableEq

def getFs (dicts : List (Option Rat)) (d : Nat) : Option Rat := (dicts.getD d none)

/-- `method['Fs'] = method.get('Fs', rate)` -/
def fillFs (dicts : List (Option Rat)) (d : Nat) (rate : Rat) : List (Option Rat) :=
  dicts.set d (some ((getFs dicts d).getD rate))

/-- `G c Fs`: the vector class `c` computes at rate `Fs`; `twoPi`: `get_spectra`'s default rate -/
def step (spec : Cls → MSpec) (G : Cls → Rat → List Rat) (twoPi : Rat) (s : St) : Ev → St
  | .userDict fs => { s with dicts := s.dicts ++ [fs] }
  | .new c rate user =>
    let dd : List (Option Rat) × Nat := match user with
      | none => (s.dicts ++ [if (spec c).defaultHasFs then some rate else none], s.dicts.length)
      | some d => if (spec c).keeps then (s.dicts, d) else (s.dicts ++ [getFs s.dicts d], s.dicts.length)
    let dicts' := if (spec c).ctorFillsFs then fillFs dd.1 dd.2 rate else dd.1
    { s with dicts := dicts', ans := s.ans ++ [⟨c, dd.2, rate⟩] }
  | .freq k =>
    match s.ans[k]? with
    | none => s
    | some a =>
      match s.fcache.lookup k with
      | some v => { s with out := s.out ++ [(k, v)] }
      | none =>
        let dicts' := match a.cls with
          | .sparse | .seed => fillFs s.dicts a.dict a.rate
          | _ => s.dicts
        let fs := match a.cls with
          | .spectral => a.rate
          | _ => (getFs dicts' a.dict).getD twoPi
        let v := G a.cls fs
        { s with dicts := dicts', fcache := (k, v) :: s.fcache, out := s.out ++ [(k, v)] }
  | .cpsd k =>
    match s.ans[k]? with
    | none => s
    | some a =>
      if a.cls ≠ .spectral then s else
      match s.ccache.lookup k with
      | some v => { s with out := s.out ++ [(k, v)] }
      | none =>
        let dicts' := s.dicts.set a.dict (some a.rate)
        let v := G a.cls ((getFs dicts' a.dict).getD twoPi)
        { s with dicts := dicts', ccache := (k, v) :: s.ccache, out := s.out ++ [(k, v)] }

def run (spec : Cls → MSpec) (G : Cls → Rat → List Rat) (twoPi : Rat) (s : St) (evs : List Ev) : St :=
  evs.foldl (step spec G twoPi) s

end Two

end Nitime.C05
