/-
C17 — model of `nitime.timeseries.UniformTime` under in-place operations, slicing, copying and
unit relabelling (core Lean only).

Concrete state (`State`): an object store holding the 0-d time objects that serve as attributes
(`t0`, `sampling_interval`, `duration`; ids = positions in the store), the axis operated on
(`cur`: its int64 samples in picoseconds, unit, attribute *ids*, and the immutable `Frequency`
value), and the originals of earlier copies (`kept`) that the caller still holds.
Abstract state (`Abs`): `(t0, Δ, n, unit)`.

Follows the source:
* `_convert_and_check_uniformity`  → `convScalar`, `convRamp`, `rampStep`
* `__iadd__/__isub__/__imul__/__idiv__` → `step` cases `addS … div`
* `__getitem__` with a slice + `__array_finalize__` → `sliceIndices`, `step (.slice …)`
* `ndarray.copy` + `__array_finalize__` → `step .copy`
* `UniformTime(axis, time_unit=u)` → `step (.convert u)`   (the only unit conversion the class has)
* `__setitem__` → refused
* `index_at` → `indexAt`
* attribute refresh `_set_sampling` → `setSampling`;  `Frequency(1.0/(float(Δ)/f), unit)` → `rateOf`

`Cfg` switches select, branch by branch, the behaviour of the unrepaired source (`current` = the
snapshot, `head8` = after the first eight repairs) or the intended/repaired one (`fixed`).  Theorems are about `fixed`; `current` is used for the
counterexample theorems and is also run against the implementation.
A slice owns a copy of its samples in the repaired code (`sliceIsView = false`): its parent stays in
the state (`kept`) and must not be touched by operations on the slice.  Not modelled: the write-through
of the unrepaired view semantics (there the parent is dropped from the state).
-/
import Nitime.Model.F64
import Nitime.Model.Units
import Nitime.Model.Proto
import Nitime.Generated.Units

namespace Nitime.C17
open Nitime

/-! ### configuration: which of today's defects are switched on -/
structure Cfg where
  /-- `+=`/`-=` leave `t0` and `duration` as they were -/
  staleShift : Bool
  /-- `-= ramp` adds the ramp's step to the interval -/
  subAddsStep : Bool
  /-- `*=` leaves `t0` and `duration` as they were (and `*= 0` is carried out before failing) -/
  mulStale : Bool
  /-- `/=` calls the non-existent `ndarray.__idiv__` -/
  noIdiv : Bool
  /-- slices keep the parent's `t0`, interval, duration, rate -/
  sliceInherit : Bool
  /-- views and copies share the parent's attribute objects, and `+= ramp`, `*=` update the
  interval object in place -/
  shareAttrs : Bool
  /-- the interval is updated before numpy has checked the operand's shape; an operand whose step
  cancels the interval is accepted -/
  earlyUpdate : Bool
  /-- `+=`/`-=` read the first element of the operand AFTER the in-place operation: wrong when the
  operand is the axis itself or a view of it (`t += t`) -/
  aliasLateRead : Bool
  /-- a 1-d operand of one element dies in `dv[0]` (IndexError) instead of acting as a shift -/
  len1Refused : Bool
  /-- `index_at` tests the range as `t0 ≤ t < t0 + duration` only (refuses everything on an axis
  with a negative interval, e.g. a reversed slice) -/
  lookupPositiveOnly : Bool
  /-- a slice is a numpy view of its parent's sample buffer (in-place operations on the slice move
  some of the parent's samples; not expressible here: the parent is dropped from the state).
  Repaired: a slice owns a copy of its samples and the parent stays observable in `kept` -/
  sliceIsView : Bool
  deriving Repr, DecidableEq

def fixed : Cfg := ⟨false, false, false, false, false, false, false, false, false, false, false⟩
/-- the original snapshot -/
def current : Cfg := ⟨true, true, true, true, true, true, true, false, true, true, true⟩
/-- /repo after the first eight repairs (before C17-09…11) -/
def head8 : Cfg := ⟨false, false, false, false, false, false, false, true, true, true, true⟩

/-! ### object store -/
abbrev ObjId := Nat

def sget (s : List Int) (i : ObjId) : Int := s.getD i 0
/-- a new 0-d time object -/
def salloc (s : List Int) (v : Int) : List Int × ObjId := (s ++ [v], s.length)

structure Axis where
  samples : List Int
  unit : TimeUnit
  t0 : ObjId
  dt : ObjId
  dur : ObjId
  /-- `sampling_rate` (a `Frequency`, immutable): exact value of the binary64 number -/
  rate : Rat
  deriving Repr, DecidableEq

structure State where
  store : List Int
  cur : Axis
  kept : List Axis
  deriving Repr, DecidableEq

inductive Err where
  | valueError | indexError | attributeError | zeroDivisionError
  deriving Repr, DecidableEq

def Err.name : Err → String
  | .valueError => "ValueError" | .indexError => "IndexError"
  | .attributeError => "AttributeError" | .zeroDivisionError => "ZeroDivisionError"

/-! ### operands and operations -/
/-- a 0-d operand: a python/numpy integer read in the axis' unit, or a time object (ps) -/
inductive Scalar where
  | int (k : Int)
  | time (ps : Int)
  deriving Repr, DecidableEq

/-- a 1-d operand: integers read in the axis' unit, or a time object (ps) -/
inductive Ramp where
  | ints (xs : List Int)
  | time (ps : List Int)
  /-- the axis itself, or a view of all of it (`t += t`, `t -= t[:]`): shares the sample buffer -/
  | self
  /-- an operand of TYPE `UniformTime`: its samples (ps) and the `sampling_interval` attribute it
  carries.  The attribute need not describe the samples: the result of fancy / boolean indexing or
  of a write through an ndarray view keeps the type and the inherited attributes.  The check must
  difference the SAMPLES; `claimed` is ignored by the model of the code (`convRamp`) and only read
  by the variant `rampStepTrusting` -/
  | typed (claimed : Int) (ps : List Int)
  deriving Repr, DecidableEq

def Ramp.aliased : Ramp → Bool
  | .self => true
  | _ => false

inductive Op where
  | addS (v : Scalar) | subS (v : Scalar)
  | addR (r : Ramp) | subR (r : Ramp)
  | mul (k : Int) | div (k : Int)
  | slice (a b : Option Int) (c : Int)
  | copy
  | convert (u : TimeUnit)
  | setitem
  deriving Repr, DecidableEq

def factorOf (u : TimeUnit) : Int := (Generated.factor u : Int)

def convScalar (u : TimeUnit) : Scalar → Int
  | .int k => k * factorOf u
  | .time ps => ps

def convRamp (u : TimeUnit) (self : List Int) : Ramp → List Int
  | .ints xs => xs.map (· * factorOf u)
  | .time ps => ps
  | .self => self
  | .typed _ ps => ps

/-- `n` instants from `t0` every `dt` -/
def affine (t0 dt : Int) (n : Nat) : List Int := (List.range n).map fun (i : Nat) => t0 + (i : Int) * dt

/-- `np.diff` -/
def diff : List Int → List Int
  | a :: b :: rest => (b - a) :: diff (b :: rest)
  | _ => []

/-- the check in `_convert_and_check_uniformity`: `dv[0]` (IndexError when there is none), then
every difference must equal it -/
def rampStep (vals : List Int) : Except Err Int :=
  match diff vals with
  | [] => .error .indexError
  | d :: ds => if ds.all (· == d) then .ok d else .error .valueError

/-- `_convert_and_check_uniformity` for a 1-d operand of any type: the values in ps and the change
they make to the sampling interval — empty: refused; one element: a shift (0); else the exact
all-differences-equal check on the SAMPLES (`rampStep`) -/
def checkOperand (u : TimeUnit) (self : List Int) (r : Ramp) : Except Err (List Int × Int) :=
  match convRamp u self r with
  | [] => .error .valueError
  | [v] => .ok ([v], 0)
  | x :: y :: rest => (rampStep (x :: y :: rest)).map fun d => (x :: y :: rest, d)

/-- VARIANT, not the code's check (counterexample theorems only): an operand of type `UniformTime`
is trusted — the interval change is read from its attribute instead of its samples -/
def rampStepTrusting (r : Ramp) (vals : List Int) : Except Err Int :=
  match r with
  | .typed c _ => if vals.length < 2 then .error .indexError else .ok c
  | _ => rampStep vals

/-- VARIANT, not the code's check (counterexample theorems only): `np.isclose(dv, dv[0])`, i.e.
`|x − d| ≤ atol + rtol·|d|` with numpy's defaults rtol = 10⁻⁵, atol = 10⁻⁸, in exact arithmetic
(both sides × 10⁸) -/
def rampStepTol (vals : List Int) : Except Err Int :=
  match diff vals with
  | [] => .error .indexError
  | d :: ds =>
    if ds.all (fun x => decide ((x - d).natAbs * 100000000 ≤ 1 + 1000 * d.natAbs)) then .ok d
    else .error .valueError

/-- `Frequency(1.0 / (float(Δ) / tuc[unit]), time_unit=unit)` in exact binary64 -/
def rateOf (u : TimeUnit) (dt : Int) : Rat :=
  let f := F64.ofInt (factorOf u)
  F64.fmul (F64.fdiv 1 (F64.fdiv (F64.ofInt dt) f)) (F64.fdiv (F64.ofInt 1000000000000) f)

/-- `_set_sampling`: new attribute objects describing `samples` as `n` points from `t0` every `dt` -/
def setSampling (store : List Int) (samples : List Int) (u : TimeUnit) (oldRate : Rat)
    (t0 dt : Int) : List Int × Axis :=
  let i := store.length
  (store ++ [t0, dt, (samples.length : Int) * dt],
   { samples := samples, unit := u, t0 := i, dt := i + 1, dur := i + 2,
     rate := if dt = 0 then oldRate else rateOf u dt })

/-- CPython `PySlice_AdjustIndices` for one bound -/
def adjust (n : Int) (neg : Bool) (x : Int) : Int :=
  if x < 0 then (if x + n < 0 then (if neg then -1 else 0) else x + n)
  else if x ≥ n then (if neg then n - 1 else n) else x

def sliceStart (n : Nat) (neg : Bool) : Option Int → Int
  | none => if neg then (n : Int) - 1 else 0
  | some x => adjust n neg x

def sliceStop (n : Nat) (neg : Bool) : Option Int → Int
  | none => if neg then -1 else (n : Int)
  | some x => adjust n neg x

/-- number of positions from `start` towards `stop` in steps of `c` (c ≠ 0) -/
def sliceCount (start stop c : Int) : Nat :=
  (if c < 0 then (if stop < start then (start - stop - 1) / (-c) + 1 else 0)
   else (if start < stop then (stop - start - 1) / c + 1 else 0)).toNat

/-- `slice(a, b, c).indices(n)` and the number of selected positions (c ≠ 0) -/
def sliceIndices (n : Nat) (a b : Option Int) (c : Int) : Int × Int × Nat :=
  let start := sliceStart n (decide (c < 0)) a
  let stop := sliceStop n (decide (c < 0)) b
  (start, stop, sliceCount start stop c)

def sliceSamples (xs : List Int) (start c : Int) (cnt : Nat) : List Int :=
  (List.range cnt).map fun (j : Nat) => xs.getD (start + (j : Int) * c).toNat 0

/-- attributes as `__array_finalize__` hands them to a view / copy -/
def inheritAttrs (cfg : Cfg) (store : List Int) (p : Axis) (samples : List Int) : List Int × Axis :=
  if cfg.shareAttrs then (store, { p with samples := samples })
  else
    let i := store.length
    (store ++ [sget store p.t0, sget store p.dt, sget store p.dur],
     { p with samples := samples, t0 := i, dt := i + 1, dur := i + 2 })

/-- a 1-d operand whose step cancels the sampling interval would put all samples on one instant -/
def collapses (dt dd : Int) : Bool := dd != 0 && dt + dd == 0

/-- shift / ramp addition (`sgn = 1`) or subtraction (`sgn = -1`) -/
def shiftOp (cfg : Cfg) (s : State) (sgn : Int) (vals : Option (List Int)) (v0 d : Int) :
    State × Option Err :=
  let ax := s.cur
  let t0 := sget s.store ax.t0
  let dt := sget s.store ax.dt
  -- interval change as the source computes it
  let dd := if cfg.subAddsStep then d else sgn * d
  let fits := match vals with
    | none => true
    | some vs => vs.length == ax.samples.length
  let newSamples := match vals with
    | none => ax.samples.map (· + sgn * v0)
    | some vs => List.zipWith (fun x v => x + sgn * v) ax.samples vs
  if cfg.staleShift then
    -- unrepaired: only the interval object and the rate are touched, and only for 1-d operands
    match vals with
    | none => ({ s with cur := { ax with samples := newSamples } }, none)
    | some _ =>
      let dt' := dt + dd
      let (store', ax0) :=
        if cfg.shareAttrs then (s.store.set ax.dt dt', ax)
        else (s.store ++ [dt'], { ax with dt := s.store.length })
      -- `1.0 / (float(interval) / …)` after the interval has been updated
      if dt' = 0 then ({ s with store := store', cur := ax0 }, some .zeroDivisionError) else
      let ax' := { ax0 with rate := rateOf ax.unit dt' }
      if fits then ({ s with store := store', cur := { ax' with samples := newSamples } }, none)
      else if cfg.earlyUpdate then ({ s with store := store', cur := ax' }, some .valueError)
      else (s, some .valueError)
  else
    if fits then
      -- repaired: an operand that would collapse the axis is refused before anything changes
      if collapses dt dd then (s, some .valueError) else
      let (store', ax') := setSampling s.store newSamples ax.unit ax.rate (t0 + sgn * v0) (dt + dd)
      ({ s with store := store', cur := ax' }, none)
    else (s, some .valueError)

/-- a 1-d operand of two or more elements: uniformity check, then the shift -/
def rampOp (cfg : Cfg) (s : State) (sgn : Int) (aliased : Bool) (vals : List Int) : State × Option Err :=
  match rampStep vals with
  | .error e => (s, some e)
  | .ok d =>
    -- the unrepaired code reads `val.flat[0]` after the in-place operation; when `val` is the
    -- axis itself that element has already changed
    let v0 := if cfg.aliasLateRead && aliased then s.cur.samples.headD 0 + sgn * vals.headD 0
              else vals.headD 0
    shiftOp cfg s sgn (some vals) v0 d

/-- any 1-d operand: empty → refused; one element → numpy broadcasts it, a shift; else `rampOp` -/
def rampDispatch (cfg : Cfg) (s : State) (sgn : Int) (aliased : Bool) (vals : List Int) :
    State × Option Err :=
  if cfg.len1Refused then rampOp cfg s sgn aliased vals
  else match vals with
    | [] => (s, some .valueError)
    | [v] => shiftOp cfg s sgn none v 0
    | _ :: _ :: _ => rampOp cfg s sgn aliased vals

def step (cfg : Cfg) (s : State) (op : Op) : State × Option Err :=
  let ax := s.cur
  let t0 := sget s.store ax.t0
  let dt := sget s.store ax.dt
  match op with
  | .addS v => shiftOp cfg s 1 none (convScalar ax.unit v) 0
  | .subS v => shiftOp cfg s (-1) none (convScalar ax.unit v) 0
  | .addR r => rampDispatch cfg s 1 r.aliased (convRamp ax.unit ax.samples r)
  | .subR r => rampDispatch cfg s (-1) r.aliased (convRamp ax.unit ax.samples r)
  | .mul k =>
    if cfg.mulStale then
      let samples := ax.samples.map (· * k)
      let dt' := dt * k
      let (store', ax') :=
        if cfg.shareAttrs then (s.store.set ax.dt dt', ax)
        else (s.store ++ [dt'], { ax with dt := s.store.length })
      if k = 0 then ({ s with store := store', cur := { ax' with samples := samples } }, some .zeroDivisionError)
      else ({ s with store := store', cur := { ax' with samples := samples, rate := F64.fdiv ax.rate (F64.ofInt k) } }, none)
    else if k = 0 then (s, some .valueError)
    else
      let (store', ax') := setSampling s.store (ax.samples.map (· * k)) ax.unit ax.rate (t0 * k) (dt * k)
      ({ s with store := store', cur := ax' }, none)
  | .div k =>
    if cfg.noIdiv then (s, some .attributeError)
    else if k = 0 ∨ t0 % k ≠ 0 ∨ dt % k ≠ 0 then (s, some .valueError)
    else
      let (store', ax') := setSampling s.store (ax.samples.map (· / k)) ax.unit ax.rate (t0 / k) (dt / k)
      ({ s with store := store', cur := ax' }, none)
  | .slice a b c =>
    if c = 0 then (s, some .valueError)
    else
      let (start, _, cnt) := sliceIndices ax.samples.length a b c
      let samples := sliceSamples ax.samples start c cnt
      if cfg.sliceInherit then
        let (store', ax') := inheritAttrs cfg s.store ax samples
        ({ s with store := store', cur := ax' }, none)
      else
        let (store', ax') := setSampling s.store samples ax.unit ax.rate (t0 + start * dt) (dt * c)
        ({ store := store', cur := ax', kept := if cfg.sliceIsView then s.kept else ax :: s.kept }, none)
  | .copy =>
    let (store', ax') := inheritAttrs cfg s.store ax ax.samples
    ({ store := store', cur := ax', kept := ax :: s.kept }, none)
  | .convert u =>
    -- a new axis built by the constructor from the attributes of the old one: same instants,
    -- new label, rate (already in Hz) carried over
    let n : Int := ax.samples.length
    let i := s.store.length
    ({ store := s.store ++ [t0, dt, n * dt],
       cur := { samples := affine t0 dt ax.samples.length,
                unit := u, t0 := i, dt := i + 1, dur := i + 2, rate := ax.rate },
       kept := ax :: s.kept }, none)
  | .setitem => (s, some .valueError)

def run (cfg : Cfg) (ops : List Op) (s : State) : State := ops.foldl (fun s op => (step cfg s op).1) s

/-- `index_at(t)` for one instant (ps): range check against the span the attributes describe
(`[t0, t0+duration)` for a positive interval, `(t0+duration, t0]` for a negative one), floor division -/
def indexAt (cfg : Cfg) (store : List Int) (ax : Axis) (t : Int) : Except Err Int :=
  let t0 := sget store ax.t0
  let dt := sget store ax.dt
  let dur := sget store ax.dur
  let outside :=
    if cfg.lookupPositiveOnly || decide (0 < dt) then decide (t < t0 ∨ t ≥ t0 + dur)
    else decide (t > t0 ∨ t ≤ t0 + dur)
  if outside then .error .valueError else .ok (Int.fdiv (t - t0) dt)

/-! ### abstract specification -/
structure Abs where
  t0 : Int
  dt : Int
  n : Nat
  unit : TimeUnit
  deriving Repr, DecidableEq

def absSamples (a : Abs) : List Int := affine a.t0 a.dt a.n

/-- a 1-d operand on the abstract state -/
def absRamp (a : Abs) (sgn : Int) (vals : List Int) : Abs :=
  match vals with
  | [] => a
  | [v] => { a with t0 := a.t0 + sgn * v }
  | _ :: _ :: _ =>
    match rampStep vals with
    | .ok d =>
      if vals.length = a.n then
        (if collapses a.dt (sgn * d) then a
         else { a with t0 := a.t0 + sgn * vals.headD 0, dt := a.dt + sgn * d })
      else a
    | .error _ => a

def absStep (a : Abs) : Op → Abs
  | .addS v => { a with t0 := a.t0 + convScalar a.unit v }
  | .subS v => { a with t0 := a.t0 - convScalar a.unit v }
  | .addR r => absRamp a 1 (convRamp a.unit (absSamples a) r)
  | .subR r => absRamp a (-1) (convRamp a.unit (absSamples a) r)
  | .mul k => if k = 0 then a else { a with t0 := a.t0 * k, dt := a.dt * k }
  | .div k => if k = 0 ∨ a.t0 % k ≠ 0 ∨ a.dt % k ≠ 0 then a else { a with t0 := a.t0 / k, dt := a.dt / k }
  | .slice x y c =>
    if c = 0 then a else
      let (start, _, cnt) := sliceIndices a.n x y c
      { a with t0 := a.t0 + start * a.dt, dt := a.dt * c, n := cnt }
  | .copy => a
  | .convert u => { a with unit := u }
  | .setitem => a

/-- the abstraction function: what the attributes of the current axis say -/
def abs (s : State) : Abs :=
  { t0 := sget s.store s.cur.t0, dt := sget s.store s.cur.dt, n := s.cur.samples.length, unit := s.cur.unit }

/-- a well-formed initial state for `(t0, Δ, n)` -/
def initState (u : TimeUnit) (t0 dt : Int) (n : Nat) : State :=
  { store := [t0, dt, (n : Int) * dt],
    cur := { samples := affine t0 dt n, unit := u,
             t0 := 0, dt := 1, dur := 2, rate := rateOf u dt },
    kept := [] }

/-! ### line protocol -/
open Proto

def parseOptInt? (s : String) : Option (Option Int) :=
  if s = "n" then some none else s.toInt?.map some

def parseOp? (s : String) : Option Op :=
  match s.splitOn ":" with
  | ["as", "i", k] => k.toInt?.map fun k => .addS (.int k)
  | ["as", "t", k] => k.toInt?.map fun k => .addS (.time k)
  | ["ss", "i", k] => k.toInt?.map fun k => .subS (.int k)
  | ["ss", "t", k] => k.toInt?.map fun k => .subS (.time k)
  | ["ar", "i", xs] => (parseIntList? xs).map fun xs => .addR (.ints xs)
  | ["ar", "t", xs] => (parseIntList? xs).map fun xs => .addR (.time xs)
  | ["sr", "i", xs] => (parseIntList? xs).map fun xs => .subR (.ints xs)
  | ["sr", "t", xs] => (parseIntList? xs).map fun xs => .subR (.time xs)
  | ["ar", "u", c, xs] => do
    let c ← c.toInt?
    let xs ← parseIntList? xs
    pure (.addR (.typed c xs))
  | ["sr", "u", c, xs] => do
    let c ← c.toInt?
    let xs ← parseIntList? xs
    pure (.subR (.typed c xs))
  | ["ar", "self"] => some (.addR .self)
  | ["sr", "self"] => some (.subR .self)
  | ["mu", k] => k.toInt?.map .mul
  | ["dv", k] => k.toInt?.map .div
  | ["sl", a, b, c] => do
    let a ← parseOptInt? a
    let b ← parseOptInt? b
    let c ← c.toInt?
    pure (.slice a b c)
  | ["cp"] => some .copy
  | ["cv", u] => (TimeUnit.ofString? u).map .convert
  | ["st"] => some .setitem
  | _ => none

def showAxis (cfg : Cfg) (store : List Int) (ax : Axis) : String :=
  let looks := ax.samples.map fun t => match indexAt cfg store ax t with
    | .ok i => toString i
    | .error _ => "e"
  s!"{ax.unit.name}:{sget store ax.t0}:{sget store ax.dt}:{sget store ax.dur}:{hex64 (F64.toBits ax.rate)}:{showIntList ax.samples}:{joinList looks}"

def showState (cfg : Cfg) (s : State) (e : Option Err) (a : Abs) : String :=
  let out := match e with | none => "ok" | some e => e.name
  let axes := (s.cur :: s.kept).map (showAxis cfg s.store)
  s!"{out}|{a.t0},{a.dt},{a.n},{a.unit.name}|" ++ "|".intercalate axes

/-- the whole history: state after construction and after every operation -/
def trace (cfg : Cfg) (s : State) (a : Abs) (ops : List Op) : List String :=
  match ops with
  | [] => []
  | op :: rest =>
    let (s', e) := step cfg s op
    let a' := absStep a op
    showState cfg s' e a' :: trace cfg s' a' rest

def showCheck (r : Except Err Int) : String :=
  match r with
  | .ok d => s!"ok:{d}"
  | .error e => "err:" ++ e.name

/-- `check <unit> <operand token>`: what `_convert_and_check_uniformity` answers for a 1-d operand
(`ok <Δ change> <values in ps>` | `err <class>`), then — after ` ## ` — the two variant checks -/
def handleCheck (u : TimeUnit) (tok : String) : String :=
  match parseOp? ("ar:" ++ tok) with
  | some (.addR r) =>
    let vals := convRamp u [] r
    let head := match checkOperand u [] r with
      | .ok (vs, d) => s!"ok {d} {showIntList vs}"
      | .error e => "err " ++ e.name
    s!"{head} ## tol={showCheck (rampStepTol vals)} trusting={showCheck (rampStepTrusting r vals)}"
  | _ => "bad-op"

def handle (args : List String) : String :=
  match args with
  | ["check", u, tok] =>
    match TimeUnit.ofString? u with
    | some u => handleCheck u tok
    | none => "bad-op"
  | [mode, u, t0, dt, n, ops] =>
    match TimeUnit.ofString? u, t0.toInt?, dt.toInt?, n.toNat?,
          (if ops = "-" then some [] else (ops.splitOn ";").mapM parseOp?) with
    | some u, some t0, some dt, some n, some ops =>
      let s := initState u t0 dt n
      let a : Abs := ⟨t0, dt, n, u⟩
      let tr (cfg : Cfg) := "ok " ++ ";".intercalate (showState cfg s none a :: trace cfg s a ops)
      if mode = "run" then tr fixed
      else if mode = "runcur" then tr current
      else if mode = "runhead8" then tr head8
      else if mode = "both" then tr fixed ++ " ## " ++ tr current
      else "bad-op"
    | _, _, _, _, _ => "bad-op"
  | _ => "bad-op"

end Nitime.C17
