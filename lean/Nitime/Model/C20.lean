/-
C20 — model of the correlation / normalisation / information-measure utilities (core Lean only).

Follows the source:
* `utils.crosscov`  → `crosscovCore` / `crosscov1` (one lane) / `crosscovND` (any axis):
    `remove_bias` when `debias`; `fftconvolve(x, conj(y[::-1]), mode='full')` is modelled by its
    documented semantics, the full linear convolution `convFull` written as direct sums (the FFT
    is NOT modelled: FFT-vs-direct equality is checked by correspondence on every run);
    `/= N` when `normalize`; `all_lags` or the slice `[N-1, 2N-1)`.
* `utils.crosscorr / autocov / autocorr` → the same wrappers (flags forced as in the code).
* `algorithms.correlation.seed_corrcoef` → `seedCorrcoef`.
* `utils.zscore`, `utils.percent_change` → `zscore1`, `percentChange1` (+ `…ND` along an axis).
* `analysis.correlation.CorrelationAnalyzer.xcorr / xcorr_norm` → `xcorrFill` with the pair fill
    in two variants: `.current` (entry (j,i) is a COPY of (i,j) — recorded finding, pinned by the
    repo's test) and `.intended` (entry (j,i) is the lag-REVERSED sequence); the driver prints both
    and the correspondence accepts either.  `xcorr_norm` normalises at the zero-lag index N-1
    (repaired upstream by 8b4ced3; the former index N is no longer accepted).
    `np.correlate(a, v, 'full')` = `convFull a (conj (reverse v))` (numpy's documented semantics).
* `algorithms.entropy.*` → `entropyG` on exact joint counts (`List.count` on the zipped samples,
    cells = product of the per-variable symbol sets), `-p·log2 p` applied by the instance.
* `algorithms.cohere.correlation_spectrum` → `correlationSpectrum` (naive DFT, real input).
-/
import Nitime.Model.EvBase
import Nitime.Model.Proto

namespace Nitime.C20
open Nitime Nitime.Ev Nitime.Ev.Scalar

section corr
variable {K : Type} [Scalar K]

/-- full linear convolution: `c[m] = Σ_j a[j]·b[m-j]`, length `|a|+|b|-1` -/
def convFull (a b : List K) : List K :=
  tabulate (a.length + b.length - 1) fun m =>
    sumRange a.length fun j =>
      if j ≤ m ∧ m - j < b.length then mul (nth a j) (nth b (m - j)) else zero

/-- `crosscov` on one lane, after the equal-length check -/
def crosscovCore (x y : List K) (allLags debias normalize : Bool) : List K :=
  let x' := if debias then removeBias x else x
  let y' := if debias then removeBias y else y
  let c := convFull x' (y'.reverse.map conj)
  let N := x.length
  let c := if normalize then c.map (fun v => div v (ofNat N)) else c
  if allLags then c else (c.drop (N - 1)).take N

/-- `crosscov(x, y, all_lags, debias, normalize)` on 1-d arrays -/
def crosscov1 (x y : List K) (allLags debias normalize : Bool) : Except Unit (List K) :=
  if x.length ≠ y.length then .error () else .ok (crosscovCore x y allLags debias normalize)

/-- `crosscorr`: `debias` forced to False -/
def crosscorr1 (x y : List K) (allLags normalize : Bool) : Except Unit (List K) :=
  crosscov1 x y allLags false normalize

/-- `autocov`: the mean is removed once (when asked), then `crosscov(x, x, debias=False)` -/
def autocov1 (x : List K) (allLags debias normalize : Bool) : List K :=
  let x' := if debias then removeBias x else x
  crosscovCore x' x' allLags false normalize

/-- `autocorr`: `autocov` with `debias=False` -/
def autocorr1 (x : List K) (allLags normalize : Bool) : List K := autocov1 x allLags false normalize

/-- lane-wise application along an axis of two equal-shape arrays -/
def crosscovND (x y : ND K) (axis : Int) (allLags debias normalize : Bool) : Except Unit (ND K) :=
  match normAxis x.shape.length axis with
  | none => .error ()
  | some ax =>
    if x.shape.getD ax 0 ≠ y.shape.getD ax 0 then .error () else
    let ls := List.zipWith (fun a b => crosscovCore a b allLags debias normalize) (lanesOf x ax) (lanesOf y ax)
    .ok (fromLanes x.shape ax ls)

def autocovND (x : ND K) (axis : Int) (allLags debias normalize : Bool) : Except Unit (ND K) :=
  match normAxis x.shape.length axis with
  | none => .error ()
  | some ax => .ok (fromLanes x.shape ax ((lanesOf x ax).map fun a => autocov1 a allLags debias normalize))

/-- `percent_change` on one lane: `(x / mean - 1)·100` -/
def percentChange1 (x : List K) : List K :=
  let m := mean x
  x.map fun v => mul (sub (div v m) (ofNat 1)) (ofNat 100)

def mapLanesND (f : List K → List K) (x : ND K) (axis : Int) : Except Unit (ND K) :=
  match normAxis x.shape.length axis with
  | none => .error ()
  | some ax => .ok (fromLanes x.shape ax ((lanesOf x ax).map f))

/-- `Σ x_i·y_i` -/
def dot (x y : List K) : K := sumRange x.length fun i => mul (nth x i) (nth y i)

inductive Variant where | current | intended
  deriving DecidableEq, Repr

/-- `np.correlate(a, v, 'full')` -/
def correlateFull (a v : List K) : List K := convFull a (v.reverse.map conj)

/-- the `xcorr` pair fill: upper triangle computed, lower triangle filled from it -/
def xcorrFill (var : Variant) (data : List (List K)) : List (List (List K)) :=
  let nch := data.length
  (List.range nch).map fun i => (List.range nch).map fun j =>
    if i ≤ j then correlateFull (data.getD i []) (data.getD j [])
    else
      let u := correlateFull (data.getD j []) (data.getD i [])
      match var with
      | .current => u
      | .intended => u.reverse.map conj

/-! ### `utils.fftconvolve` as the code does it

`fsize = 2 ** int(np.ceil(np.log2(size)))`, `IN1 = fft(in1, fsize)`, `IN1 *= fft(in2, fsize)`,
`ret = ifft(IN1)[:size]`, `ret.real` unless one of the inputs is complex, then the mode slice.
`fftpack.fft / ifft` are modelled by their documented semantics, the naive O(L²) DFT with the
twiddle table `tw m = e^{-2πi m/L}` (`fft(x, L)` zero-pads / cuts `x` to `L` samples). -/

/-- the smallest power of two `≥ size` -/
def fftSize (size : Nat) : Nat := if size ≤ 1 then 1 else 2 ^ (Nat.log2 (size - 1) + 1)

/-- `x` zero-padded (or cut) to `L` samples -/
def padTo (L : Nat) (x : List K) : List K := tabulate L (nth x)

/-- `fftpack.fft(x, L)`: `X_k = Σ_{j<L} x_j·tw((j·k) mod L)` -/
def dftL (tw : Nat → K) (L : Nat) (x : List K) : List K :=
  let xp := padTo L x
  tabulate L fun k => sumRange L fun j => mul (nth xp j) (tw ((j * k) % L))

/-- `fftpack.ifft(X)` for `len(X) = L`: `x_j = (1/L)·Σ_{k<L} X_k·conj(tw((j·k) mod L))` -/
def idftL (tw : Nat → K) (L : Nat) (X : List K) : List K :=
  tabulate L fun j => div (sumRange L fun k => mul (nth X k) (conj (tw ((j * k) % L)))) (ofNat L)

/-- `z.real` (as an element of `K`): `(z + conj z) / 2` -/
def realPart (z : K) : K := div (add z (conj z)) (ofNat 2)

/-- `fftconvolve(a, b, mode='full')` on 1-d arrays with FFT length `L` and twiddle table `tw` -/
def fftconvolveL (tw : Nat → K) (L : Nat) (complexResult : Bool) (a b : List K) : List K :=
  let size := a.length + b.length - 1
  let in1 := dftL tw L a
  let in2 := dftL tw L b
  let prod := tabulate L fun k => mul (nth in1 k) (nth in2 k)
  let ret := (idftL tw L prod).take size
  if complexResult then ret else ret.map realPart

/-- `fftconvolve(a, b, mode='full')`: the FFT length is the power of two chosen by the code;
`tw L` is the twiddle table for length `L` -/
def fftconvolve (tw : Nat → Nat → K) (complexResult : Bool) (a b : List K) : List K :=
  let L := fftSize (a.length + b.length - 1)
  fftconvolveL (tw L) L complexResult a b

/-- `signaltools._centered(arr, newsize)` -/
def centered (arr : List K) (newsize : Nat) : List K :=
  (arr.drop ((arr.length - newsize) / 2)).take newsize

/-- the `mode` argument: 0 = full, 1 = same, 2 = valid -/
def applyMode (mode : Nat) (la lb : Nat) (ret : List K) : List K :=
  match mode with
  | 0 => ret
  | 1 => centered ret (if la > lb then la else lb)
  | _ => centered ret ((if la ≥ lb then la - lb else lb - la) + 1)

def fftconvolveMode (tw : Nat → Nat → K) (complexResult : Bool) (mode : Nat) (a b : List K) : List K :=
  applyMode mode a.length b.length (fftconvolve tw complexResult a b)

/-- the same slices of the direct linear convolution -/
def convMode (mode : Nat) (a b : List K) : List K := applyMode mode a.length b.length (convFull a b)

/-- `crosscov` on one lane THROUGH `fftconvolve` (the code's path); `crosscovCore` is the same text
with the direct linear convolution in place of the FFT -/
def crosscovFftCore (tw : Nat → Nat → K) (complexResult : Bool) (x y : List K)
    (allLags debias normalize : Bool) : List K :=
  let x' := if debias then removeBias x else x
  let y' := if debias then removeBias y else y
  let c := fftconvolve tw complexResult x' (y'.reverse.map conj)
  let N := x.length
  let c := if normalize then c.map (fun v => div v (ofNat N)) else c
  if allLags then c else (c.drop (N - 1)).take N

/-- `autocov` through the FFT path -/
def autocovFft1 (tw : Nat → Nat → K) (complexResult : Bool) (x : List K)
    (allLags debias normalize : Bool) : List K :=
  let x' := if debias then removeBias x else x
  crosscovFftCore tw complexResult x' x' allLags false normalize

/-! ### `utils.crosscov_vector` / `utils.autocov_vector` (the multichannel lagged AVERAGES)

`rxy[..., k] = (x[:, None, k:] * y[None, :, :N-k].conj()).mean(axis=-1)` for `k < nlags`
(`nlags is None` → `N = x.shape[1]`): entry `(i, j, k)` is the sample mean over the `N-k`
available products `x_i[t+k]·conj(y_j[t])` — divided by `N-k`, not by `N`. -/

/-- one entry of `crosscov_vector`: the lagged average `E{x(t+k) y*(t)}` over `N-k` samples -/
def laggedAvg (xi yj : List K) (N k : Nat) : K :=
  div (sumRange (N - k) fun t => mul (nth xi (t + k)) (conj (nth yj t))) (ofNat (N - k))

/-- `crosscov_vector(x, y, nlags)`: `rxy[i][j][k]`; `nlags = none` is the default `None` -/
def crosscovVector (x y : List (List K)) (nlags : Option Nat) : List (List (List K)) :=
  let N := (x.headD []).length
  let nl := nlags.getD N
  x.map fun xi => y.map fun yj => tabulate nl fun k => laggedAvg xi yj N k

/-- `autocov_vector(x, nlags) = crosscov_vector(x, x, nlags)` -/
def autocovVector (x : List (List K)) (nlags : Option Nat) : List (List (List K)) :=
  crosscovVector x x nlags

/-! ### integer / boolean recordings: the EXACT embedding of the stored samples

numpy converts integer samples to floating point without changing their value before any of the
sums below (`np.mean`, `fft`, true division); the definitions of this file on an integer array ARE
the definitions on its embedding.  (Storing a lagged average back into an integer array — what
`np.empty(..., dtype=np.result_type(x, y))` does — is NOT this; see `Props.truncated_…`.) -/

/-- the value of an integer sample as a scalar -/
def ofInt (z : Int) : K := if 0 ≤ z then ofNat z.toNat else sub (ofNat 0) (ofNat (-z).toNat)

def embed (x : List Int) : List K := x.map ofInt

/-- `crosscov` / `crosscorr` on integer lanes -/
def crosscovInt (x y : List Int) (allLags debias normalize : Bool) : List K :=
  crosscovCore (embed x) (embed y) allLags debias normalize

/-- `crosscov_vector` on integer channels -/
def crosscovVectorInt (x y : List (List Int)) (nlags : Option Nat) : List (List (List K)) :=
  crosscovVector (x.map embed) (y.map embed) nlags

end corr

section real
variable {K : Type} [RScalar K]

/-- population variance `mean(|x - mean|²)` (real data) -/
def variance (x : List K) : K :=
  let d := removeBias x
  mean (d.map fun v => mul v v)

/-- `zscore` on one lane: `(x - mean) / std` -/
def zscore1 (x : List K) : List K :=
  let s := RScalar.sqrt (variance x)
  (removeBias x).map fun v => div v s

/-- `seed_corrcoef(seed, target_row)`: `xy / (sqrt(xx)·sqrt(yy))` — the two roots are taken separately
(the product `xx·yy` of two sums of squares leaves the range of the dtype for data that are
themselves far inside it; proposed_fixes/C20-pearson-denominator-scale.diff) -/
def seedCorrcoef1 (seed target : List K) : K :=
  let x := removeBias target
  let y := removeBias seed
  div (dot x y) (mul (RScalar.sqrt (dot x x)) (RScalar.sqrt (dot y y)))

def seedCorrcoef (seed : List K) (targets : List (List K)) : List K :=
  targets.map (seedCorrcoef1 seed)

/-- `np.corrcoef` entry (Pearson coefficient of two rows) — documented numpy semantics -/
def corrcoef1 (a b : List K) : K := seedCorrcoef1 a b

/-- `CorrelationAnalyzer.corrcoef` = `np.corrcoef(data)` -/
def corrcoefMatrix (data : List (List K)) : List (List K) :=
  data.map fun a => data.map fun b => corrcoef1 a b

/-- `xcorr_norm`: each computed sequence is divided by its zero-lag entry (index `N-1`) and
multiplied by the correlation coefficient; then the pair fill -/
def xcorrNormFill (var : Variant) (data : List (List K)) : List (List (List K)) :=
  let nch := data.length
  let N := (data.headD []).length
  let up (i j : Nat) : List K :=
    let c := correlateFull (data.getD i []) (data.getD j [])
    let r := corrcoef1 (data.getD i []) (data.getD j [])
    c.map fun v => mul (div v (nth c (N - 1))) r
  (List.range nch).map fun i => (List.range nch).map fun j =>
    if i ≤ j then up i j
    else match var with
      | .current => up j i
      | .intended => (up j i).reverse.map conj

/-! ### the analyzer as an object: one-time outputs read in any order

`CorrelationAnalyzer` stores every output on first read (`setattr_on_read`) and hands the stored
object out afterwards.  The state keeps the input and the three caches; `read` follows the
getters: `corrcoef` and `xcorr` compute from the INPUT, `xcorr_norm` computes from the input and
from `self.corrcoef` (which it thereby reads), never from the cached `xcorr`. -/

inductive Out where | raw | norm | cc
  deriving DecidableEq, Repr

inductive Val (K : Type) where
  | cube (v : List (List (List K)))
  | mat (v : List (List K))

structure AState (K : Type) where
  data : List (List K)
  raw : Option (List (List (List K)))
  norm : Option (List (List (List K)))
  cc : Option (List (List K))

def AState.fresh (data : List (List K)) : AState K := ⟨data, none, none, none⟩

/-- what a fresh analyzer returns for one output -/
def compute (var : Variant) (data : List (List K)) : Out → Val K
  | .raw => .cube (xcorrFill var data)
  | .norm => .cube (xcorrNormFill var data)
  | .cc => .mat (corrcoefMatrix data)

def AState.readCc (s : AState K) : List (List K) × AState K :=
  match s.cc with
  | some v => (v, s)
  | none => let v := corrcoefMatrix s.data; (v, { s with cc := some v })

/-- one attribute read -/
def AState.read (var : Variant) (s : AState K) : Out → Val K × AState K
  | .cc => let (v, s') := s.readCc; (.mat v, s')
  | .raw => match s.raw with
    | some v => (.cube v, s)
    | none => let v := xcorrFill var s.data; (.cube v, { s with raw := some v })
  | .norm => match s.norm with
    | some v => (.cube v, s)
    | none =>
      let (_, s') := s.readCc
      let v := xcorrNormFill var s'.data
      (.cube v, { s' with norm := some v })

/-- a sequence of reads on one object: the values handed out, and the final state -/
def AState.reads (var : Variant) (s : AState K) : List Out → List (Val K) × AState K
  | [] => ([], s)
  | o :: os =>
    let (v, s') := s.read var o
    let (vs, s'') := s'.reads var os
    (v :: vs, s'')

/-! ### entropies on exact joint counts -/

/-- the distinct symbols of a sequence (`set(x)`) -/
def uniq {σ : Type} [DecidableEq σ] : List σ → List σ
  | [] => []
  | a :: l => if a ∈ uniq l then uniq l else a :: uniq l

/-- `itertools.product(A, B)` -/
def pairs {σ τ : Type} (A : List σ) (B : List τ) : List (σ × τ) :=
  A.flatMap fun a => B.map fun b => (a, b)

/-- `-p·log2 p` for `p = c/n`, and 0 for an empty cell (`if p > 0 else 0`) -/
def plogp (c n : Nat) : K :=
  if c = 0 then zero else
  let p : K := div (ofNat c) (ofNat n)
  mul (sub zero p) (RScalar.log2 p)

/-- exact joint histogram: number of samples in every cell -/
def jointCounts {σ : Type} [DecidableEq σ] (cells samples : List σ) : List Nat :=
  cells.map fun c => samples.count c

def entropyOfCounts (n : Nat) (counts : List Nat) : K :=
  sumList (counts.map fun c => plogp c n)

/-- entropy of the empirical distribution of `samples` over `cells` -/
def entropyG {σ : Type} [DecidableEq σ] (cells samples : List σ) : K :=
  entropyOfCounts samples.length (jointCounts cells samples)

variable {σ : Type} [DecidableEq σ]

/-- `entropy(x)` -/
def entropy1 (x : List σ) : K := entropyG (uniq x) x
/-- `entropy(x, y)` -/
def entropy2 (x y : List σ) : K := entropyG (pairs (uniq x) (uniq y)) (x.zip y)
/-- `entropy(x, y, z)` -/
def entropy3 (x y z : List σ) : K :=
  entropyG (pairs (uniq x) (pairs (uniq y) (uniq z))) (x.zip (y.zip z))

/-- `conditional_entropy(x, y) = H(y, x) − H(y)` -/
def conditionalEntropy (x y : List σ) : K := sub (entropy2 y x : K) (entropy1 y)

/-- `mutual_information(x, y) = H(x) + H(y) − H(x, y)` -/
def mutualInformation (x y : List σ) : K :=
  sub (add (entropy1 x : K) (entropy1 y)) (entropy2 x y)

/-- `entropy_cc(x, y) = sqrt(MI(y, x) / (0.5·(H(x) + H(y))))` -/
def entropyCC (x y : List σ) : K :=
  RScalar.sqrt (div (mutualInformation y x : K)
    (mul (div (ofNat 1) (ofNat 2)) (add (entropy1 x : K) (entropy1 y))))

/-- `np.roll(x, -lag)` -/
def rollLeft (x : List σ) (lag : Nat) : List σ :=
  if x.length = 0 then x else x.rotateLeft (lag % x.length)

/-- `transfer_entropy(x, y, lag)` -/
def transferEntropy (x y : List σ) (lag : Nat) : K :=
  let fi := rollLeft x lag
  let a : K := conditionalEntropy fi x
  let b : K := sub (entropy3 fi y x : K) (entropy2 x y)
  sub a b

/-- `correlation_spectrum` before the final cut to `n//2+1` bins.  Naive DFT of a real sequence:
`X_k = Σ_t x_t e^{-2πi kt/n}`, the twiddle factors given as tables `cosT j = cos(2πj/n)`,
`sinT j = sin(2πj/n)`, `j < n` -/
def correlationSpectrumFull (cosT sinT : Nat → K) (x1 x2 : List K) (norm : Bool) : List K :=
  let n := x1.length
  let a := removeBias x1
  let b := removeBias x2
  let re (x : List K) (k : Nat) : K := sumRange n fun t => mul (nth x t) (cosT ((k * t) % n))
  let im (x : List K) (k : Nat) : K := sumRange n fun t => sub zero (mul (nth x t) (sinT ((k * t) % n)))
  let d := mul (RScalar.sqrt (dot a a)) (RScalar.sqrt (dot b b))
  let ccn := tabulate n fun k =>
    div (add (mul (re a k) (re b k)) (mul (im a k) (im b k))) (mul d (ofNat n))
  if norm then
    let s := sumRange n (nth ccn)
    ccn.map fun v => mul (div v s) (ofNat 2)
  else ccn

/-- `correlation_spectrum(x1, x2, norm)[1]`: the first `n//2 + 1` bins -/
def correlationSpectrum (cosT sinT : Nat → K) (x1 x2 : List K) (norm : Bool) : List K :=
  (correlationSpectrumFull cosT sinT x1 x2 norm).take (x1.length / 2 + 1)

end real

/-! ### line protocol -/
open Proto

def parseCList? (s : String) : Option (List CF) := do
  let fs ← parseFloatList? s
  let rec go : List Float → Option (List CF)
    | [] => some []
    | [_] => none
    | a :: b :: r => (go r).map (⟨a, b⟩ :: ·)
  go fs

def showCList (xs : List CF) : String := showFloatList (xs.flatMap fun z => [z.re, z.im])

def b? (s : String) : Bool := s = "1"

def showND (show_ : List α → String) (r : Except Unit (ND α)) : String :=
  match r with
  | .ok a => s!"ok {showNatList a.shape} {show_ a.data}"
  | .error _ => "err ValueError"

/-- split a flat list into rows of length `n` -/
def rows {α} (n : Nat) (l : List α) : List (List α) :=
  if n = 0 then [] else (List.range (l.length / n)).map fun r => (l.drop (r * n)).take n

def showCube (x : List (List (List Float))) : String :=
  showFloatList (x.flatMap fun r => r.flatMap id)

def pi : Float := 3.141592653589793

/-- `fn kind axis allLags debias normalize shape xdata [ydata]` with fn ∈ crosscov, crosscorr,
autocov, autocorr and kind ∈ r (real), c (complex, interleaved) -/
def handleCov (fn kind : String) (axis : Int) (al db nm : Bool) (shape : List Nat) (xs : String)
    (ys : Option String) : String :=
  let run {K} [Scalar K] (parse : String → Option (List K)) (show_ : List K → String) : String :=
    match parse xs with
    | none => "bad-op"
    | some xd =>
      let x : ND K := ⟨shape, xd⟩
      match fn, ys with
      | "autocov", none => showND show_ (autocovND x axis al db nm)
      | "autocorr", none => showND show_ (autocovND x axis al false nm)
      | "crosscov", some ys => match parse ys with
        | some yd => showND show_ (crosscovND x ⟨shape, yd⟩ axis al db nm)
        | none => "bad-op"
      | "crosscorr", some ys => match parse ys with
        | some yd => showND show_ (crosscovND x ⟨shape, yd⟩ axis al false nm)
        | none => "bad-op"
      | _, _ => "bad-op"
  match kind with
  | "r" => run parseFloatList? showFloatList
  | "c" => run parseCList? showCList
  | "i" => run (fun s => (parseIntList? s).map (embed (K := Float))) showFloatList
  | _ => "bad-op"

def showCube3 (show_ : List α → String) (r : List (List (List α))) : String :=
  let nl := ((r.headD []).headD []).length
  s!"ok {showNatList [r.length, (r.headD []).length, nl]} {show_ (r.flatMap fun a => a.flatMap id)}"

/-- `covvec kind nlags N xdata ydata` / `acovvec kind nlags N xdata`: `crosscov_vector` / `autocov_vector` on
channels of `N` samples (`nlags` = `none` for the default); kind `i` = integer / boolean recordings, run
through the exact embedding `crosscovVectorInt` -/
def handleCovVec (kind : String) (nl : Option Nat) (n : Nat) (xs : String) (ys : Option String) : String :=
  let run {K} [Scalar K] (parse : String → Option (List K)) (show_ : List K → String) : String :=
    match parse xs, ys with
    | some xd, none => showCube3 show_ (autocovVector (rows n xd) nl)
    | some xd, some ys => match parse ys with
      | some yd => showCube3 show_ (crosscovVector (rows n xd) (rows n yd) nl)
      | none => "bad-op"
    | none, _ => "bad-op"
  match kind with
  | "r" => run parseFloatList? showFloatList
  | "c" => run parseCList? showCList
  | "i" => match parseIntList? xs, ys.map parseIntList? with
    | some xd, none => showCube3 showFloatList (crosscovVectorInt (K := Float) (rows n xd) (rows n xd) nl)
    | some xd, some (some yd) => showCube3 showFloatList (crosscovVectorInt (K := Float) (rows n xd) (rows n yd) nl)
    | _, _ => "bad-op"
  | _ => "bad-op"

/-- the twiddle table of the driver's FFT path: `tw L m = e^{-2πi m/L}` -/
def twCF (L m : Nat) : CF :=
  let t := 2.0 * pi * m.toFloat / L.toFloat
  ⟨Float.cos t, -(Float.sin t)⟩

def ofRe (x : Float) : CF := ⟨x, 0.0⟩

/-- `fftconv kind mode a b`: the model's `fftconvolve` (real data run through the complex DFT, then
`.real`, as in the code) and, after ` ; `, the same slice of the direct linear convolution -/
def handleFftconv (kind : String) (mode : Nat) (as bs : String) : String :=
  match kind with
  | "r" => match parseFloatList? as, parseFloatList? bs with
    | some a, some b =>
      let f := fftconvolveMode twCF false mode (a.map ofRe) (b.map ofRe)
      s!"ok {showFloatList (f.map (·.re))} ; {showFloatList (convMode mode a b)}"
    | _, _ => "bad-op"
  | "c" => match parseCList? as, parseCList? bs with
    | some a, some b =>
      s!"ok {showCList (fftconvolveMode twCF true mode a b)} ; {showCList (convMode mode a b)}"
    | _, _ => "bad-op"
  | _ => "bad-op"

/-- `covfft fn kind al db nm x [y]` on one lane: the FFT path of the covariance family and, after
` ; `, the direct path (`crosscovCore` / `autocov1`) -/
def handleCovFft (fn kind : String) (al db nm : Bool) (xs : String) (ys : Option String) : String :=
  match kind with
  | "r" => match parseFloatList? xs, ys.map parseFloatList? with
    | some x, none =>
      let db' := if fn = "autocorr" then false else db
      if fn = "autocov" ∨ fn = "autocorr" then
        s!"ok {showFloatList ((autocovFft1 twCF false (x.map ofRe) al db' nm).map (·.re))} ; {showFloatList (autocov1 x al db' nm)}"
      else "bad-op"
    | some x, some (some y) =>
      let db' := if fn = "crosscorr" then false else db
      if (fn = "crosscov" ∨ fn = "crosscorr") ∧ x.length = y.length then
        s!"ok {showFloatList ((crosscovFftCore twCF false (x.map ofRe) (y.map ofRe) al db' nm).map (·.re))} ; {showFloatList (crosscovCore x y al db' nm)}"
      else "bad-op"
    | _, _ => "bad-op"
  | "c" => match parseCList? xs, ys.map parseCList? with
    | some x, none =>
      let db' := if fn = "autocorr" then false else db
      if fn = "autocov" ∨ fn = "autocorr" then
        s!"ok {showCList (autocovFft1 twCF true x al db' nm)} ; {showCList (autocov1 x al db' nm)}"
      else "bad-op"
    | some x, some (some y) =>
      let db' := if fn = "crosscorr" then false else db
      if (fn = "crosscov" ∨ fn = "crosscorr") ∧ x.length = y.length then
        s!"ok {showCList (crosscovFftCore twCF true x y al db' nm)} ; {showCList (crosscovCore x y al db' nm)}"
      else "bad-op"
    | _, _ => "bad-op"
  | _ => "bad-op"

/-- `covfft … i …`: integer lanes, embedded exactly, then the two real paths -/
def handleCovFftAny (fn kind : String) (al db nm : Bool) (xs : String) (ys : Option String) : String :=
  if kind = "i" then
    match parseIntList? xs, ys.map parseIntList? with
    | some x, none => handleCovFft fn "r" al db nm (showFloatList (embed x)) none
    | some x, some (some y) =>
      handleCovFft fn "r" al db nm (showFloatList (embed x)) (some (showFloatList (embed y)))
    | _, _ => "bad-op"
  else handleCovFft fn kind al db nm xs ys

def handle (args : List String) : String :=
  match args with
  | ["covvec", kind, nl, n, xs, ys] =>
    match n.toNat? with
    | some n => handleCovVec kind nl.toNat? n xs (some ys)
    | none => "bad-op"
  | ["acovvec", kind, nl, n, xs] =>
    match n.toNat? with
    | some n => handleCovVec kind nl.toNat? n xs none
    | none => "bad-op"
  | ["fftconv", kind, mode, as, bs] =>
    match mode.toNat? with
    | some m => handleFftconv kind m as bs
    | none => "bad-op"
  | ["covfft", fn, kind, al, db, nm, xs] => handleCovFftAny fn kind (b? al) (b? db) (b? nm) xs none
  | ["covfft", fn, kind, al, db, nm, xs, ys] => handleCovFftAny fn kind (b? al) (b? db) (b? nm) xs (some ys)
  | [fn, kind, axis, al, db, nm, shape, xs] =>
    match axis.toInt?, parseNatList? shape with
    | some ax, some sh => handleCov fn kind ax (b? al) (b? db) (b? nm) sh xs none
    | _, _ => "bad-op"
  -- crosscov with per-array shapes (length mismatch along the axis → ValueError)
  | [fn, kind, axis, al, db, nm, shape, xs, ys] =>
    match axis.toInt?, parseNatList? shape with
    | some ax, some sh => handleCov fn kind ax (b? al) (b? db) (b? nm) sh xs (some ys)
    | _, _ => "bad-op"
  | ["crosscovlen", xs, ys] =>
    match parseFloatList? xs, parseFloatList? ys with
    | some x, some y => match crosscov1 x y false true true with
      | .ok r => "ok " ++ showFloatList r
      | .error _ => "err ValueError"
    | _, _ => "bad-op"
  | ["zscore", axis, shape, xs] =>
    match axis.toInt?, parseNatList? shape, parseFloatList? xs with
    | some ax, some sh, some x => showND showFloatList (mapLanesND zscore1 ⟨sh, x⟩ ax)
    | _, _, _ => "bad-op"
  | ["pchange", axis, shape, xs] =>
    match axis.toInt?, parseNatList? shape, parseFloatList? xs with
    | some ax, some sh, some x => showND showFloatList (mapLanesND percentChange1 ⟨sh, x⟩ ax)
    | _, _, _ => "bad-op"
  | ["seedcc", n, seed, targets] =>
    match n.toNat?, parseFloatList? seed, parseFloatList? targets with
    | some n, some s, some t => "ok " ++ showFloatList (seedCorrcoef s (rows n t))
    | _, _, _ => "bad-op"
  | ["xcorr", which, n, data] =>
    match n.toNat?, parseFloatList? data with
    | some n, some d =>
      let rs := rows n d
      if which = "norm" then
        s!"ok {showCube (xcorrNormFill .intended rs)} ; {showCube (xcorrNormFill .current rs)}"
      else s!"ok {showCube (xcorrFill .intended rs)} ; {showCube (xcorrFill .current rs)}"
    | _, _ => "bad-op"
  -- `seq <order> <k> n data`: read the outputs in `order` (comma separated raw|norm|cc) on ONE analyzer
  -- object and print the k-th value handed out (both pair-fill variants)
  | ["seq", order, k, n, data] =>
    match k.toNat?, n.toNat?, parseFloatList? data with
    | some k, some n, some d =>
      let os := (order.splitOn ",").filterMap fun t =>
        if t = "raw" then some Out.raw else if t = "norm" then some Out.norm else if t = "cc" then some Out.cc else none
      let run := fun (var : Variant) =>
        match ((AState.fresh (rows n d)).reads var os).1[k]? with
        | some (Val.cube v) => showCube v
        | some (Val.mat v) => showFloatList (v.flatMap id)
        | none => "none"
      s!"ok {run .intended} ; {run .current}"
    | _, _, _ => "bad-op"
  | ["corrcoef", n, data] =>
    match n.toNat?, parseFloatList? data with
    | some n, some d =>
      let rs := rows n d
      let m := corrcoefMatrix rs
      s!"ok {showFloatList (m.flatMap id)}"
    | _, _ => "bad-op"
  | ["corrspec", nm, x1, x2] =>
    match parseFloatList? x1, parseFloatList? x2 with
    | some a, some b =>
      let n := a.length.toFloat
      let c := fun (k : Nat) => Float.cos (2.0 * pi * k.toFloat / n)
      let s := fun (k : Nat) => Float.sin (2.0 * pi * k.toFloat / n)
      "ok " ++ showFloatList (correlationSpectrum c s a b (b? nm))
    | _, _ => "bad-op"
  | ["entropy", x] => match parseIntList? x with
    | some x => "ok " ++ showFloat (entropy1 x)
    | _ => "bad-op"
  | ["entropy", x, y] => match parseIntList? x, parseIntList? y with
    | some x, some y => "ok " ++ showFloat (entropy2 x y)
    | _, _ => "bad-op"
  | ["entropy", x, y, z] => match parseIntList? x, parseIntList? y, parseIntList? z with
    | some x, some y, some z => "ok " ++ showFloat (entropy3 x y z)
    | _, _, _ => "bad-op"
  | ["counts", x, y] => match parseIntList? x, parseIntList? y with
    | some x, some y => "ok " ++ showNatList (jointCounts (pairs (uniq x) (uniq y)) (x.zip y))
    | _, _ => "bad-op"
  | ["condent", x, y] => match parseIntList? x, parseIntList? y with
    | some x, some y => "ok " ++ showFloat (conditionalEntropy x y)
    | _, _ => "bad-op"
  | ["mi", x, y] => match parseIntList? x, parseIntList? y with
    | some x, some y => "ok " ++ showFloat (mutualInformation x y)
    | _, _ => "bad-op"
  | ["ecc", x, y] => match parseIntList? x, parseIntList? y with
    | some x, some y => "ok " ++ showFloat (entropyCC x y)
    | _, _ => "bad-op"
  | ["te", lag, x, y] => match lag.toNat?, parseIntList? x, parseIntList? y with
    | some lag, some x, some y => "ok " ++ showFloat (transferEntropy x y lag)
    | _, _, _ => "bad-op"
  | _ => "bad-op"

end Nitime.C20
