/-
Shared base of the autoregressive models C10 / C11 / C12 (core Lean only).

* `Scalar K`: the operations the AR code uses on numbers.  The model functions are written ONCE
  over this class; the drivers run the `CF` (pair of binary64) instance, the property files
  instantiate the same definitions at `ℂ` (noncomputable, `Props/ARInst.lean`).
* `CF`: complex numbers over `Float` (a real signal is a complex one with zero imaginary part).
* `MatOps M`: the operations `lwr_recursion` uses on square matrices; instance `SqMat n`
  (list of rows of `CF`) with a Gauss–Jordan `inv` (models `scipy.linalg.inv`).
* protocol helpers for complex lists.
-/
import Nitime.Model.Proto

namespace Nitime.AR

class Scalar (K : Type) where
  add : K → K → K
  mul : K → K → K
  sub : K → K → K
  div : K → K → K
  neg : K → K
  conj : K → K
  /-- `.real`, embedded back into `K` -/
  re : K → K
  zero : K
  one : K
  ofNat : Nat → K
  /-- `x ** 0.5` of a real number (the real part is used) -/
  sqrtRe : K → K
  /-- `|a| > |b|` (pivot choice in the elimination) -/
  absGt : K → K → Bool
  /-- exact equality test -/
  beq : K → K → Bool
  /-- `exp(-1j * w_k)` on scipy's `freqz` grid: `w_k = k * (π / n)` (`whole = false`) or
  `k * (2π / n)` (`whole = true`) -/
  phasor : Bool → Nat → Nat → K

/- explicit operator names (no `Add`/`Mul` instances: the property files instantiate `Scalar ℂ`
and must not get a second `+` on `ℂ`) -/
scoped infixl:65 " +. " => Scalar.add
scoped infixl:65 " -. " => Scalar.sub
scoped infixl:70 " *. " => Scalar.mul
scoped infixl:70 " /. " => Scalar.div

/-- `Σ_{i<n} f i`, accumulated left to right from zero -/
def sumRange {K : Type} [Scalar K] (n : Nat) (f : Nat → K) : K :=
  (List.range n).foldl (fun acc i => acc +. f i) Scalar.zero

/-- `z ^ n` by repeated multiplication -/
def powNat {K : Type} [Scalar K] (z : K) : Nat → K
  | 0 => Scalar.one
  | n + 1 => powNat z n *. z

/-- `exp(-1j·w_k)` on the grid `freqz(worN=n, whole, include_nyquist=incl)` returns: with
`include_nyquist` and a half circle the `n` points end exactly at π (step π/(n−1)) -/
def gridPhasor {K : Type} [Scalar K] (incl whole : Bool) (k n : Nat) : K :=
  if incl && !whole then Scalar.phasor false k (n - 1) else Scalar.phasor whole k n

/-- `Σ_j c_j z^j` (what `scipy.signal.freqz` evaluates at `z = exp(-1j w)`) -/
def polyEval {K : Type} [Scalar K] (c : List K) (z : K) : K :=
  sumRange c.length fun j => c.getD j Scalar.zero *. powNat z j

/-! ### Gauss–Jordan inverse (models `scipy.linalg.inv` / `scipy.linalg.solve`), generic

The state is an `n × w` array rebuilt entry by entry at each column step, so that every entry of
the new state is an explicit expression in entries of the old one (`Lemmas/GaussJordan.lean`
proves: whenever `inv?` returns `X`, `X·A = I`). -/
namespace GMat
variable {K : Type} [Scalar K]

def entry (a : List (List K)) (i j : Nat) : K := (a.getD i []).getD j Scalar.zero

def ofFn (n m : Nat) (f : Nat → Nat → K) : List (List K) :=
  (List.range n).map fun i => (List.range m).map fun j => f i j

/-- partial pivoting: the row (≥ c) with the largest |entry| in column `c` -/
def pivotRow (n : Nat) (rows : List (List K)) (c : Nat) : Nat :=
  (List.range n).foldl (fun bi i => if c ≤ i && Scalar.absGt (entry rows i c) (entry rows bi c) then i else bi) c

/-- one column step: swap the pivot row into place, scale it, eliminate the column elsewhere -/
def gjStep (n w : Nat) (rows : List (List K)) (c : Nat) : List (List K) :=
  let best := pivotRow n rows c
  let sw : Nat → Nat → K := fun i j => entry rows (if i = c then best else if i = best then c else i) j
  let piv := sw c c
  ofFn n w fun i j => if i = c then sw c j /. piv else sw i j -. sw i c *. (sw c j /. piv)

def gjReduce (n w : Nat) (aug : List (List K)) : List (List K) := (List.range n).foldl (gjStep n w) aug

/-- `[A | I]` -/
def augment (n : Nat) (a : List (List K)) : List (List K) :=
  ofFn n (2 * n) fun i j => if j < n then entry a i j else if j - n = i then Scalar.one else Scalar.zero

def isIdentLeft (n : Nat) (rows : List (List K)) : Bool :=
  (List.range n).all fun i => (List.range n).all fun j =>
    Scalar.beq (entry rows i j) (if i = j then Scalar.one else Scalar.zero)

/-- the inverse, when the elimination ends with the identity on the left -/
def inv? (n : Nat) (a : List (List K)) : Option (List (List K)) :=
  let red := gjReduce n (2 * n) (augment n a)
  if isIdentLeft n red then some (ofFn n n fun i j => entry red i (n + j)) else none

/-- `X·y` -/
def mulVec (n : Nat) (x : List (List K)) (y : List K) : List K :=
  (List.range n).map fun i => sumRange n fun k => entry x i k *. y.getD k Scalar.zero

/-- `linalg.solve(a, y)` modelled as `inv(a)·y` (empty when singular) -/
def solve (a : List (List K)) (y : List K) : List K :=
  match inv? y.length a with
  | some x => mulVec y.length x y
  | none => []

end GMat

/-! ### complex binary64 -/

structure CF where
  re : Float
  im : Float
deriving Inhabited

namespace CF
def add (a b : CF) : CF := ⟨a.re + b.re, a.im + b.im⟩
def sub (a b : CF) : CF := ⟨a.re - b.re, a.im - b.im⟩
def mul (a b : CF) : CF := ⟨a.re * b.re - a.im * b.im, a.re * b.im + a.im * b.re⟩
def neg (a : CF) : CF := ⟨-a.re, -a.im⟩
def conj (a : CF) : CF := ⟨a.re, -a.im⟩
def normSq (a : CF) : Float := a.re * a.re + a.im * a.im
/-- largest component magnitude (a power-free scale: keeps `|z|²` inside the binary64 range) -/
def scaleOf (a : CF) : Float := if a.re.abs > a.im.abs then a.re.abs else a.im.abs
/-- complex division; numerator and denominator are first divided by the denominator's scale, so that
operands around 1e±300 (autocorrelations of signals of amplitude 1e±150) do not overflow `|b|²` -/
def div (a b : CF) : CF :=
  if b.im == 0.0 then ⟨a.re / b.re, a.im / b.re⟩ else
  let s := scaleOf b
  let br := b.re / s
  let bi := b.im / s
  let ar := a.re / s
  let ai := a.im / s
  let d := br * br + bi * bi
  ⟨(ar * br + ai * bi) / d, (ai * br - ar * bi) / d⟩
/-- `|a| > |b|`, compared after a common rescaling (pivot choice only) -/
def absGt (a b : CF) : Bool :=
  let s := if scaleOf a > scaleOf b then scaleOf a else scaleOf b
  if s == 0.0 then false else
  normSq ⟨a.re / s, a.im / s⟩ > normSq ⟨b.re / s, b.im / s⟩
def ofFloat (x : Float) : CF := ⟨x, 0.0⟩
def pi : Float := 3.141592653589793
def phasor (whole : Bool) (k n : Nat) : CF :=
  let step := (if whole then 2.0 * pi else pi) / n.toFloat
  let w := k.toFloat * step
  ⟨Float.cos w, -(Float.sin w)⟩
/-- the grid value `w_k` itself, as `numpy.linspace(0, last, n, endpoint=False)` computes it -/
def gridW (whole : Bool) (k n : Nat) : Float :=
  k.toFloat * ((if whole then 2.0 * pi else pi) / n.toFloat)
def gridWI (incl whole : Bool) (k n : Nat) : Float :=
  if incl && !whole then gridW false k (n - 1) else gridW whole k n
end CF

instance : Scalar CF where
  add := CF.add
  mul := CF.mul
  sub := CF.sub
  div := CF.div
  neg := CF.neg
  conj := CF.conj
  re := fun z => ⟨z.re, 0.0⟩
  zero := ⟨0.0, 0.0⟩
  one := ⟨1.0, 0.0⟩
  ofNat := fun n => ⟨n.toFloat, 0.0⟩
  sqrtRe := fun z => ⟨Float.sqrt z.re, 0.0⟩
  absGt := CF.absGt
  beq := fun a b => a.re == b.re && a.im == b.im
  phasor := CF.phasor

/-! ### square matrices -/

class MatOps (M : Type) where
  add : M → M → M
  sub : M → M → M
  mul : M → M → M
  neg : M → M
  /-- conjugate transpose -/
  star : M → M
  /-- `scipy.linalg.inv` -/
  inv : M → M
  one : M
  zero : M

scoped infixl:65 " +: " => MatOps.add
scoped infixl:65 " -: " => MatOps.sub
scoped infixl:70 " *: " => MatOps.mul

/-- `Σ_{i<n} f i` in a `MatOps` structure -/
def msumRange {M : Type} [MatOps M] (n : Nat) (f : Nat → M) : M :=
  (List.range n).foldl (fun acc i => acc +: f i) MatOps.zero

abbrev Mat := List (List CF)

namespace Mat
def entry (a : Mat) (i j : Nat) : CF := (a.getD i []).getD j ⟨0.0, 0.0⟩
def ofFn (n m : Nat) (f : Nat → Nat → CF) : Mat :=
  (List.range n).map fun i => (List.range m).map fun j => f i j
def zipW (f : CF → CF → CF) (a b : Mat) : Mat :=
  List.zipWith (fun r s => List.zipWith f r s) a b
def mul (n : Nat) (a b : Mat) : Mat :=
  ofFn n n fun i j => (List.range n).foldl (fun acc k => CF.add acc (CF.mul (entry a i k) (entry b k j))) ⟨0.0, 0.0⟩
def ctrans (n : Nat) (a : Mat) : Mat := ofFn n n fun i j => CF.conj (entry a j i)
def ident (n : Nat) : Mat := ofFn n n fun i j => if i = j then ⟨1.0, 0.0⟩ else ⟨0.0, 0.0⟩
def zeros (n : Nat) : Mat := ofFn n n fun _ _ => ⟨0.0, 0.0⟩

/-- `scipy.linalg.inv`: the generic Gauss–Jordan inverse at complex binary64 (zeros when singular) -/
def inv (n : Nat) (a : Mat) : Mat := (GMat.inv? n a).getD (zeros n)

/-- `scipy.linalg.solve(a, y)` for a vector right-hand side -/
def solveVec (a : Mat) (y : List CF) : List CF := GMat.solve a y
end Mat

/-- square matrices of a fixed size (the size is a phantom parameter) -/
def SqMat (_n : Nat) := Mat

instance (n : Nat) : MatOps (SqMat n) where
  add := Mat.zipW CF.add
  sub := Mat.zipW CF.sub
  mul := Mat.mul n
  neg := fun a => a.map fun r => r.map CF.neg
  star := Mat.ctrans n
  inv := Mat.inv n
  one := Mat.ident n
  zero := Mat.zeros n

/-! ### protocol -/
open Proto

def pairUp : List Float → Option (List CF)
  | [] => some []
  | a :: b :: rest => (pairUp rest).map fun t => ⟨a, b⟩ :: t
  | [_] => none

def parseCList? (s : String) : Option (List CF) := (parseFloatList? s).bind pairUp

def showCList (zs : List CF) : String :=
  showFloatList (zs.foldr (fun z acc => z.re :: z.im :: acc) [])

/-- matrices travel as `n:<clist of n*n entries, row major>` -/
def parseMat? (n : Nat) (zs : List CF) : Option Mat :=
  if zs.length = n * n then some (Mat.ofFn n n fun i j => zs.getD (i * n + j) ⟨0.0, 0.0⟩) else none

def flattenMat (a : Mat) : List CF := a.foldr (fun r acc => r ++ acc) []

end Nitime.AR
