/-
Shared base of the autoregressive models C10 / C11 / C12 (core Lean only).

* `Scalar K`: the operations the AR code uses on numbers.  The model functions are written ONCE
  over this class; the drivers run the `CF` (pair of binary64) instance, the property files
  instantiate the same definitions at `ℂ` (noncomputable, `Props/ARInst.lean`).
* `CF`: complex numbers over `Float` (a real signal is a complex one with zero imaginary part).
* `MatOps M`: the operations `lwr_recursion` uses on square matrices; instance `SqMat n`
  (list of rows of `CF`) with a Gauss–Jordan `inv` (models `scipy.linalg.inv`).
* protocol helpers for complex lists.
-/
import Nitime.Model.Proto

namespace Nitime.AR

class Scalar (K : Type) where
  add : K → K → K
  mul : K → K → K
  sub : K → K → K
  div : K → K → K
  neg : K → K
  conj : K → K
  /-- `.real`, embedded back into `K` -/
  re : K → K
  zero : K
  one : K
  ofNat : Nat → K
  /-- `x ** 0.5` of a real number (the real part is used) -/
  sqrtRe : K → K
  /-- `exp(-1j * w_k)` on scipy's `freqz` grid: `w_k = k * (π / n)` (`whole = false`) or
  `k * (2π / n)` (`whole = true`) -/
  phasor : Bool → Nat → Nat → K

/- explicit operator names (no `Add`/`Mul` instances: the property files instantiate `Scalar ℂ`
and must not get a second `+` on `ℂ`) -/
scoped infixl:65 " +. " => Scalar.add
scoped infixl:65 " -. " => Scalar.sub
scoped infixl:70 " *. " => Scalar.mul
scoped infixl:70 " /. " => Scalar.div

/-- `Σ_{i<n} f i`, accumulated left to right from zero -/
def sumRange {K : Type} [Scalar K] (n : Nat) (f : Nat → K) : K :=
  (List.range n).foldl (fun acc i => acc +. f i) Scalar.zero

/-- `z ^ n` by repeated multiplication -/
def powNat {K : Type} [Scalar K] (z : K) : Nat → K
  | 0 => Scalar.one
  | n + 1 => powNat z n *. z

/-- `exp(-1j·w_k)` on the grid `freqz(worN=n, whole, include_nyquist=incl)` returns: with
`include_nyquist` and a half circle the `n` points end exactly at π (step π/(n−1)) -/
def gridPhasor {K : Type} [Scalar K] (incl whole : Bool) (k n : Nat) : K :=
  if incl && !whole then Scalar.phasor false k (n - 1) else Scalar.phasor whole k n

/-- `Σ_j c_j z^j` (what `scipy.signal.freqz` evaluates at `z = exp(-1j w)`) -/
def polyEval {K : Type} [Scalar K] (c : List K) (z : K) : K :=
  sumRange c.length fun j => c.getD j Scalar.zero *. powNat z j

/-! ### complex binary64 -/

structure CF where
  re : Float
  im : Float
deriving Inhabited

namespace CF
def add (a b : CF) : CF := ⟨a.re + b.re, a.im + b.im⟩
def sub (a b : CF) : CF := ⟨a.re - b.re, a.im - b.im⟩
def mul (a b : CF) : CF := ⟨a.re * b.re - a.im * b.im, a.re * b.im + a.im * b.re⟩
def neg (a : CF) : CF := ⟨-a.re, -a.im⟩
def conj (a : CF) : CF := ⟨a.re, -a.im⟩
def normSq (a : CF) : Float := a.re * a.re + a.im * a.im
def div (a b : CF) : CF :=
  if b.im == 0.0 then ⟨a.re / b.re, a.im / b.re⟩ else
  let d := normSq b
  ⟨(a.re * b.re + a.im * b.im) / d, (a.im * b.re - a.re * b.im) / d⟩
def ofFloat (x : Float) : CF := ⟨x, 0.0⟩
def pi : Float := 3.141592653589793
def phasor (whole : Bool) (k n : Nat) : CF :=
  let step := (if whole then 2.0 * pi else pi) / n.toFloat
  let w := k.toFloat * step
  ⟨Float.cos w, -(Float.sin w)⟩
/-- the grid value `w_k` itself, as `numpy.linspace(0, last, n, endpoint=False)` computes it -/
def gridW (whole : Bool) (k n : Nat) : Float :=
  k.toFloat * ((if whole then 2.0 * pi else pi) / n.toFloat)
def gridWI (incl whole : Bool) (k n : Nat) : Float :=
  if incl && !whole then gridW false k (n - 1) else gridW whole k n
end CF

instance : Scalar CF where
  add := CF.add
  mul := CF.mul
  sub := CF.sub
  div := CF.div
  neg := CF.neg
  conj := CF.conj
  re := fun z => ⟨z.re, 0.0⟩
  zero := ⟨0.0, 0.0⟩
  one := ⟨1.0, 0.0⟩
  ofNat := fun n => ⟨n.toFloat, 0.0⟩
  sqrtRe := fun z => ⟨Float.sqrt z.re, 0.0⟩
  phasor := CF.phasor

/-! ### square matrices -/

class MatOps (M : Type) where
  add : M → M → M
  sub : M → M → M
  mul : M → M → M
  neg : M → M
  /-- conjugate transpose -/
  star : M → M
  /-- `scipy.linalg.inv` -/
  inv : M → M
  one : M
  zero : M

scoped infixl:65 " +: " => MatOps.add
scoped infixl:65 " -: " => MatOps.sub
scoped infixl:70 " *: " => MatOps.mul

/-- `Σ_{i<n} f i` in a `MatOps` structure -/
def msumRange {M : Type} [MatOps M] (n : Nat) (f : Nat → M) : M :=
  (List.range n).foldl (fun acc i => acc +: f i) MatOps.zero

abbrev Mat := List (List CF)

namespace Mat
def entry (a : Mat) (i j : Nat) : CF := (a.getD i []).getD j ⟨0.0, 0.0⟩
def ofFn (n m : Nat) (f : Nat → Nat → CF) : Mat :=
  (List.range n).map fun i => (List.range m).map fun j => f i j
def zipW (f : CF → CF → CF) (a b : Mat) : Mat :=
  List.zipWith (fun r s => List.zipWith f r s) a b
def mul (n : Nat) (a b : Mat) : Mat :=
  ofFn n n fun i j => (List.range n).foldl (fun acc k => CF.add acc (CF.mul (entry a i k) (entry b k j))) ⟨0.0, 0.0⟩
def ctrans (n : Nat) (a : Mat) : Mat := ofFn n n fun i j => CF.conj (entry a j i)
def ident (n : Nat) : Mat := ofFn n n fun i j => if i = j then ⟨1.0, 0.0⟩ else ⟨0.0, 0.0⟩
def zeros (n : Nat) : Mat := ofFn n n fun _ _ => ⟨0.0, 0.0⟩

/-- one Gauss–Jordan column step on the augmented rows (partial pivoting by |.|²) -/
def gjStep (rows : List (List CF)) (c : Nat) : List (List CF) :=
  let n := rows.length
  -- pivot row: largest |entry| in column c among rows c..n-1
  let best := (List.range n).foldl (fun (bi : Nat) i =>
      if i ≥ c ∧ CF.normSq ((rows.getD i []).getD c ⟨0.0, 0.0⟩) > CF.normSq ((rows.getD bi []).getD c ⟨0.0, 0.0⟩)
      then i else bi) c
  let rowc := rows.getD c []
  let rowb := rows.getD best []
  let rows := (List.range n).map fun i => if i = c then rowb else if i = best then rowc else rows.getD i []
  let piv := (rows.getD c []).getD c ⟨0.0, 0.0⟩
  let prow := (rows.getD c []).map fun x => CF.div x piv
  (List.range n).map fun i =>
    if i = c then prow else
      let r := rows.getD i []
      let f := r.getD c ⟨0.0, 0.0⟩
      List.zipWith (fun x p => CF.sub x (CF.mul f p)) r prow

/-- solve `a · X = rhs` for the columns of `rhs` (n × m); Gauss–Jordan with partial pivoting -/
def solveMat (n : Nat) (a rhs : Mat) : Mat :=
  let aug := List.zipWith (fun r s => r ++ s) a rhs
  let red := (List.range n).foldl gjStep aug
  red.map fun r => r.drop n

def inv (n : Nat) (a : Mat) : Mat := solveMat n a (ident n)

/-- `scipy.linalg.solve(a, y)` for a vector right-hand side -/
def solveVec (a : Mat) (y : List CF) : List CF :=
  let n := y.length
  (solveMat n a (y.map fun v => [v])).map fun r => r.getD 0 ⟨0.0, 0.0⟩
end Mat

/-- square matrices of a fixed size (the size is a phantom parameter) -/
def SqMat (_n : Nat) := Mat

instance (n : Nat) : MatOps (SqMat n) where
  add := Mat.zipW CF.add
  sub := Mat.zipW CF.sub
  mul := Mat.mul n
  neg := fun a => a.map fun r => r.map CF.neg
  star := Mat.ctrans n
  inv := Mat.inv n
  one := Mat.ident n
  zero := Mat.zeros n

/-! ### protocol -/
open Proto

def pairUp : List Float → Option (List CF)
  | [] => some []
  | a :: b :: rest => (pairUp rest).map fun t => ⟨a, b⟩ :: t
  | [_] => none

def parseCList? (s : String) : Option (List CF) := (parseFloatList? s).bind pairUp

def showCList (zs : List CF) : String :=
  showFloatList (zs.foldr (fun z acc => z.re :: z.im :: acc) [])

/-- matrices travel as `n:<clist of n*n entries, row major>` -/
def parseMat? (n : Nat) (zs : List CF) : Option Mat :=
  if zs.length = n * n then some (Mat.ofFn n n fun i j => zs.getD (i * n + j) ⟨0.0, 0.0⟩) else none

def flattenMat (a : Mat) : List CF := a.foldr (fun r acc => r ++ acc) []

end Nitime.AR
