/-
C05 / C09 — analyzer sessions in which `set_input` may be REFUSED (failure paths, class L7).  Core Lean only.

The coherence analyzers keep the sampling rate they estimate with in `self.method['Fs']`, next to the input they
hold; `set_input` has to move both (and forget the memoised results) or neither.  The body of `set_input` is a
sequence of statements which `harness/translate_c05.py` (gen_setinput) extracts from the CURRENT source into
`Nitime.Generated.SetInput` (`BaseAnalyzer.set_input(self, input)` is inlined from `analysis/base.py`):

  save            `previous = self.input`
  check           a `raise` under a condition, or a call of a method of the class whose body contains a `raise`
                  (a validator): raises iff the new input is one the class refuses
  reset           `self.reset()`
  setInput src    `self.input = input | previous`
  writeFs src     `if self._Fs_from_input: self.method['Fs'] = <src>.sampling_rate` or `… self.method = dict(self.method, Fs=<src>.sampling_rate)`
                  (src: `input` | `self.input` | `previous`)
  unknown         anything else (the theorems about that class stop checking)

`exec` runs such a body for a candidate input; a `check` ends it with the state reached SO FAR (Python has no
roll-back).  `run` is a session: `setInput new refused | readFreq | reset`, every frequency read is recorded with
the id of the input held at that moment.  `G fs` is the vector the class computes at rate `fs` (its generated grid
term), so the session theorems compose with the `<site>_is_true_grid` theorems.  Every Fs-dependent result of these
classes (frequencies, the `scale_by_freq` normalisation of the spectra, `delay`) reads the same slot.

Constructors: a refused construction leaves no analyzer behind, but a class that KEEPS the caller's `method` dict
writes through it; `CStmt` is the order of {possible raise, write into `self.method`} in `__init__`.
-/
namespace Nitime.CohSession

inductive Src where
  | new | held | saved
  deriving DecidableEq, Repr

inductive Stmt where
  | save
  | check
  | reset
  | setInput (s : Src)
  | writeFs (s : Src)
  | unknown
  deriving DecidableEq, Repr

/-- a time series as far as the frequency axis is concerned: its sampling rate in Hz, and which object it is -/
structure Inp where
  rate : Rat
  id : Nat
  deriving DecidableEq, Repr

structure St where
  held : Inp                   -- `self.input`
  fs : Rat                     -- `self.method['Fs']`
  fsFromInput : Bool           -- `self._Fs_from_input`: the constructor found no `'Fs'` in the method dict
  cache : Option (List Rat)    -- the fired one-time attribute `.frequencies`
  deriving DecidableEq, Repr

def pick (new : Inp) (saved : Option Inp) (s : St) : Src → Inp
  | .new => new
  | .held => s.held
  | .saved => saved.getD s.held

/-- run a `set_input` body; `(state reached, raised?)`.  `saved` is the local `previous`. -/
def exec (refused : Bool) (new : Inp) : List Stmt → Option Inp → St → St × Bool
  | [], _, s => (s, false)
  | .check :: r, sv, s => if refused then (s, true) else exec refused new r sv s
  | .save :: r, _, s => exec refused new r (some s.held) s
  | .reset :: r, sv, s => exec refused new r sv { s with cache := none }
  | .setInput src :: r, sv, s => exec refused new r sv { s with held := pick new sv s src }
  | .writeFs src :: r, sv, s =>
    exec refused new r sv (if s.fsFromInput then { s with fs := (pick new sv s src).rate } else s)
  | .unknown :: r, sv, s => exec refused new r sv s

/-- the discipline: every possible raise precedes every write (`save` only binds a local) -/
def checksFirst : List Stmt → Bool
  | [] => true
  | .check :: r => checksFirst r
  | .save :: r => checksFirst r
  | _ :: r => r.all (· != .check)

def hasCheck (p : List Stmt) : Bool := p.contains .check

/-- what a successful `set_input` has to do -/
def retarget (new : Inp) (s : St) : St :=
  { s with held := new, cache := none, fs := if s.fsFromInput then new.rate else s.fs }

inductive Ev where
  | setInput (new : Inp) (refused : Bool)    -- the caller catches the exception of a refused call and goes on
  | readFreq
  | reset
  deriving Repr

/-- `OneTimeProperty`: memo hit, or compute at the rate in the method dict and store -/
def readFreq (G : Rat → List Rat) (s : St) : St × List Rat :=
  match s.cache with
  | some v => (s, v)
  | none => ({ s with cache := some (G s.fs) }, G s.fs)

/-- a session; the frequency vector of every read, with the id of the input held at that moment -/
def run (G : Rat → List Rat) (prog : List Stmt) : St → List Ev → List (List Rat × Nat)
  | _, [] => []
  | s, .setInput new refused :: es => run G prog (exec refused new prog none s).1 es
  | s, .readFreq :: es => ((readFreq G s).2, s.held.id) :: run G prog (readFreq G s).1 es
  | s, .reset :: es => run G prog { s with cache := none } es

/-- the property's side: the input held is the last one that was not refused; a read is the grid at the rate the
caller fixed (`fixed = some fs`), else at the rate of the input held -/
def spec (G : Rat → List Rat) (guards : Bool) (fixed : Option Rat) : Inp → List Ev → List (List Rat × Nat)
  | _, [] => []
  | h, .setInput new refused :: es => spec G guards fixed (if refused && guards then h else new) es
  | h, .readFreq :: es => (G (fixed.getD h.rate), h.id) :: spec G guards fixed h es
  | h, .reset :: es => spec G guards fixed h es

/-- the analyzer as its constructor leaves it -/
def init (inp : Inp) (userFs : Option Rat) : St :=
  ⟨inp, userFs.getD inp.rate, userFs.isNone, none⟩

def fixedOf (s : St) : Option Rat := if s.fsFromInput then none else some s.fs

/-! ### constructors: order of possible raises and writes into `self.method` -/

inductive CStmt where
  | check          -- a `raise` under a condition / a validator call
  | writeMethod    -- `self.method[...] = …`
  deriving DecidableEq, Repr

/-- `(the caller's dict was written, raised?)` for a class that keeps the caller's dict object (`keeps`) -/
def ctorExec (refused keeps : Bool) : List CStmt → Bool → Bool × Bool
  | [], w => (w, false)
  | .check :: r, w => if refused then (w, true) else ctorExec refused keeps r w
  | .writeMethod :: r, w => ctorExec refused keeps r (w || keeps)

def cChecksFirst : List CStmt → Bool
  | [] => true
  | .check :: r => cChecksFirst r
  | .writeMethod :: r => r.all (· != .check)

end Nitime.CohSession
