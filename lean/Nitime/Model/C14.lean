/-
C14 — driver side: the `OneTime` machine (Model/OneTime.lean) with `retarget` on the GENERATED class
tables, symbolic semantics as in Model/C13.lean.  The dictionaries `reset` walks are taken from the
generated `resetWalksMRO`; a class name prefixed `sub:` is a user subclass that adds nothing.

ops (first token `C14` already stripped):
  retarget <Class> <cfg> <pre> <post> [kind]     set_input(new input) after the reads `pre` (kind of new input: label only)
  reparam  <Class> <cfg> <pre> <slots> <post>    reset(); assign new values to `slots`
  slice    <Class> <cfg> <pre> [key]             `Epochs.__getitem__` after the reads `pre`, then read every getter
answer: surv=<getters still stored after the switch>|<g>:s=<1 equal to a newly built object for every F / 0 / r>|…
-/
import Nitime.Model.C13

namespace Nitime.C14
open Nitime.OneTime Nitime.Proto Nitime.C13

def findSpec? (cls : String) : Option AnalyzerSpec :=
  if cls.startsWith "sub:" then (C13.findSpec? (cls.drop 4).toString).map (·.subclass)
  else C13.findSpec? cls

def postReads (spec : Spec) (fresh : St String String) :
    List Nat → St String String → List String → List String
  | [], _, acc => acc.reverse
  | g :: gs, s, acc =>
    let (s', r) := read spec symSem g s
    let same := match r with
      | none => "r"
      | some v => if (read spec symSem g fresh).2 == some v then "1" else "0"
    postReads spec fresh gs s' (s!"{g}:s={same}" :: acc)

def switch (sp : AnalyzerSpec) (cfg pre changed post : List Nat) (newInput : String)
    (refreshed : List Nat) : String :=
  let spec := sp.resolve cfg
  let cp := initParams sp cfg
  let new : Nat → Option String := fun p => some s!"q{p}"
  let s := run spec symSem pre (construct symSem sp.initDerived cp "x")
  let s' := retarget symSem (sp.walked Generated.resetWalksMRO) refreshed changed new newInput s
  let fresh := construct symSem sp.initDerived
    (fun p => if changed.contains p then new p else cp p) newInput
  let surv := (List.range sp.getters.length).filter fun k => (s'.cache k).isSome
  "|".intercalate (s!"surv={showNatList surv}" :: postReads spec fresh post s' [])

def handle (args : List String) : String :=
  match Nitime.OneTime.Sessions.handleSession args with
  | some r => r
  | none =>
  match args with
  | ["retarget", cls, cfg, pre, post] =>
    match findSpec? cls, parseNatList? cfg, parseNatList? pre, parseNatList? post with
    | some sp, some cfg, some pre, some post => switch sp cfg pre [] post "x1" sp.refreshed
    | none, _, _, _ => "unknown-class"
    | _, _, _, _ => "bad-op"
  | ["retarget", cls, cfg, pre, post, _kindOfNewInput] =>
    match findSpec? cls, parseNatList? cfg, parseNatList? pre, parseNatList? post with
    | some sp, some cfg, some pre, some post => switch sp cfg pre [] post "x1" sp.refreshed
    | none, _, _, _ => "unknown-class"
    | _, _, _, _ => "bad-op"
  | ["reparam", cls, cfg, pre, slots, post] =>
    match findSpec? cls, parseNatList? cfg, parseNatList? pre, parseNatList? slots, parseNatList? post with
    | some sp, some cfg, some pre, some slots, some post => switch sp cfg pre slots post "x" []
    | none, _, _, _, _ => "unknown-class"
    | _, _, _, _, _ => "bad-op"
  | ["slice", cls, cfg, pre, _key] =>
    handleSlice cls cfg pre
  | ["slice", cls, cfg, pre] => handleSlice cls cfg pre
  | ["names", cls] => C13.handleCore ["names", cls]
  | _ => "bad-op"
where
  handleSlice (cls cfg pre : String) : String :=
    match findSpec? cls, parseNatList? cfg, parseNatList? pre with
    | some sp, some cfg, some pre =>
      let dataSlots := (List.range sp.slotNames.length).filter fun p =>
        match sp.slotNames[p]? with
        | some n => n == "data" || n.startsWith "data."
        | none => false
      switch sp cfg pre dataSlots (List.range sp.getters.length) "x" []
    | none, _, _ => "unknown-class"
    | _, _, _ => "bad-op"

end Nitime.C14
