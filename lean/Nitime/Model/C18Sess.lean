/-
C18 — the FilterAnalyzer as an OBJECT WITH A HISTORY (core Lean only).

`FilterAnalyzer(desc.ResetMixin)` keeps its input (`_ts`, `data`, `sampling_rate`, `time_unit`), its parameters
(`lb`, `ub`, `_filt_order`, `_gpass`, `_gstop`, `_ftype`, `_win`, `_boxcar_iterations`) as plain attributes and four
one-time attributes (`@desc.setattr_on_read`: `filtered_fourier`, `filtered_boxcar`, `fir`, `iir`).  The documented
protocol (nitime/descriptors.py, `ResetMixin`): assign attributes, call `reset()`, read again.

* `St`, `Op`, `step`, `run`: state = (input, params, store of computed one-time attributes); operations = assign a
  parameter (`setParam u`, `u : P → P`), `reset` (drops every stored attribute, nothing else), `refused` (a public call that raises part-way, e.g. `filtfilt(b, a, in_ts)` refused: the object is left as it was), `read m` (stored value if
  there is one — a re-read WITHOUT reset legitimately returns the stored value — else the getter body, a pure function
  `compute m input params`, whose value is stored), `setInput` (assign another input).  A getter body may also WRITE a
  parameter (`filtered_fourier`: `if self.ub is None: self.ub = Fs/2`): `touch`.
* `CSt`, `cstep`, `crun`: the discipline of a transform kept on the object ACROSS reset() (`self._spectrum`) with the
  band nulled IN PLACE on that kept array (`power[..., idx_0] = 0` where `power is self._spectrum`), over an abstract
  transform / mask / inverse (`SpecSem`).  `cstepCopy`: the same memo with the nulling done on a copy.
Theorems: Lemmas/C18Sess.lean (restated in Props/C18.lean).
-/
namespace Nitime.C18.Sess

/-- the four one-time attributes of `FilterAnalyzer` -/
inductive Meth where
  | fourier | boxcar | fir | iir
deriving DecidableEq, Repr

/-- getter bodies: `compute m input params` = the value, `touch m input params` = the parameters after the body ran -/
structure Sem (I P V : Type) where
  compute : Meth → I → P → V
  touch : Meth → I → P → P

structure St (I P V : Type) where
  input : I
  params : P
  cache : Meth → Option V

inductive Op (I P : Type) where
  | setParam (u : P → P)
  | reset
  | read (m : Meth)
  | setInput (i : I)
  | refused            -- a call that RAISES part-way (`filtfilt(b, a, in_ts)` refused by scipy / a bad `in_ts`): no effect

variable {I P V : Type}

/-- a newly constructed analyzer -/
def fresh (i : I) (p : P) : St I P V := ⟨i, p, fun _ => none⟩

def step (S : Sem I P V) (s : St I P V) : Op I P → St I P V × Option V
  | .setParam u => ({ s with params := u s.params }, none)
  | .reset => ({ s with cache := fun _ => none }, none)
  | .setInput i => ({ s with input := i }, none)
  | .refused => (s, none)
  | .read m =>
    match s.cache m with
    | some v => (s, some v)
    | none =>
      let v := S.compute m s.input s.params
      ({ s with params := S.touch m s.input s.params,
                cache := fun m' => if m' = m then some v else s.cache m' }, some v)

/-- a whole history: final state and what every read returned, in order -/
def run (S : Sem I P V) (s : St I P V) : List (Op I P) → St I P V × List V
  | [] => (s, [])
  | o :: os =>
    let r := step S s o
    let t := run S r.1 os
    (t.1, (match r.2 with | some v => [v] | none => []) ++ t.2)

/-- "something the getters depend on was assigned since the last reset()" -/
def dirtyAfter : Bool → List (Op I P) → Bool
  | d, [] => d
  | _, .setParam _ :: os => dirtyAfter true os
  | _, .setInput _ :: os => dirtyAfter true os
  | _, .reset :: os => dirtyAfter false os
  | d, .read _ :: os => dirtyAfter d os
  | d, .refused :: os => dirtyAfter d os

/-! ### a transform kept across reset() -/

/-- the Fourier filter split into its three stages -/
structure SpecSem (I P C V : Type) where
  transform : I → List C
  mask : P → List C → List C
  inverse : List C → V

structure CSt (I P C V : Type) where
  input : I
  params : P
  cache : Option V              -- the one-time attribute `filtered_fourier`
  spectrum : Option (List C)    -- `self._spectrum`: a plain attribute, NOT touched by reset()

variable {C : Type}

def cfresh (i : I) (p : P) : CSt I P C V := ⟨i, p, none, none⟩

/-- nulling IN PLACE on the kept array: what is kept afterwards is the MASKED spectrum -/
def cstep (F : SpecSem I P C V) (s : CSt I P C V) : Op I P → CSt I P C V × Option V
  | .setParam u => ({ s with params := u s.params }, none)
  | .reset => ({ s with cache := none }, none)
  | .setInput i => ({ s with input := i }, none)
  | .refused => (s, none)
  | .read _ =>
    match s.cache with
    | some v => (s, some v)
    | none =>
      let sp := s.spectrum.getD (F.transform s.input)
      let sp' := F.mask s.params sp
      let v := F.inverse sp'
      ({ s with cache := some v, spectrum := some sp' }, some v)

/-- the same memo with the nulling done on a COPY: the kept array stays the full transform -/
def cstepCopy (F : SpecSem I P C V) (s : CSt I P C V) : Op I P → CSt I P C V × Option V
  | .setParam u => ({ s with params := u s.params }, none)
  | .reset => ({ s with cache := none }, none)
  | .setInput i => ({ s with input := i }, none)
  | .refused => (s, none)
  | .read _ =>
    match s.cache with
    | some v => (s, some v)
    | none =>
      let sp := s.spectrum.getD (F.transform s.input)
      let v := F.inverse (F.mask s.params sp)
      ({ s with cache := some v, spectrum := some sp }, some v)

def crunWith (st : CSt I P C V → Op I P → CSt I P C V × Option V) (s : CSt I P C V) :
    List (Op I P) → CSt I P C V × List V
  | [] => (s, [])
  | o :: os =>
    let r := st s o
    let t := crunWith st r.1 os
    (t.1, (match r.2 with | some v => [v] | none => []) ++ t.2)

/-- the getter as a pure function: what a fresh analyzer returns -/
def specCompute (F : SpecSem I P C V) (i : I) (p : P) : V := F.inverse (F.mask p (F.transform i))

/-! ### a concrete, decidable instance in the spectrum domain (transform = identity on integer "bins") -/

/-- keep bin 0 (the mean) and the bins `lb ≤ k ≤ ub`, null the others -/
def binMask (band : Nat × Nat) (sp : List Int) : List Int :=
  (List.range sp.length).zipWith (fun k v => if k = 0 ∨ (band.1 ≤ k ∧ k ≤ band.2) then v else 0) sp

def binSem : SpecSem (List Int) (Nat × Nat) Int (List Int) := ⟨id, binMask, id⟩

end Nitime.C18.Sess
