/-
PROCESS-level model for C13 / C14 (core Lean only): several live objects of related classes in one
python process, plus the state OUTSIDE the objects that the one-time machinery can touch:

* `tables` — a per-class table of one-time attribute names kept ON THE CLASS (what a caching
  `ResetMixin.reset` would leave behind).  `namesFor src` is how `reset` obtains the names:
  `walkPerCall` (today's source: walks `self.__class__.__mro__` on every call), `ownTable` (cached, looked
  up in the class's own dictionary), `inheritedTable` (cached, looked up with `getattr(cls, …)`, which also
  finds a PARENT's table).  Which one the current source is, is GENERATED (`Generated.resetNameSource`).
* `cells` — process-level objects (a module-level default dict, ONE dict handed to two constructors)
  that slots of several objects may be bound to (`Obj.bound`): such a slot is loaded from / stored to its
  cell around every operation, so a write by one object is seen by the others.

A session is a list of `SOp`: construct object `o`, or apply `read g` / `reset` / `retarget …`
(= `reset` + assignments + `set_input`) to object `o`.  `objRun` is the same list seen by ONE object with
the exact name list of its class (`Hier.allNames`): Lemmas/Sessions.lean proves that for a safe name
source and unbound slots the process run and the per-object runs agree for every session.
-/
import Nitime.Model.OneTime
import Nitime.Model.Proto
import Nitime.Generated.Analyzers

namespace Nitime.OneTime.Sessions
open Nitime.OneTime

variable {V I : Type}

structure Hier where
  mro : Nat → List Nat       -- class ↦ its MRO (itself first)
  own : Nat → List Nat       -- class ↦ the one-time names in its own class dictionary
  visited : Nat → Bool := fun _ => true   -- the classes a FILTERED walk of the MRO looks at (`NameSource.walkFiltered` only)

/-- what `reset` must delete for an object of class `c`: the names of `c` and of all its ancestors -/
def Hier.allNames (h : Hier) (c : Nat) : List Nat := (h.mro c).flatMap h.own

abbrev Tables := Nat → Option (List Nat)

def upd {α : Type} (f : Nat → α) (i : Nat) (v : α) : Nat → α := fun j => if j = i then v else f j

/-- `getattr(cls, '_names', None)`: the first class of the MRO that has a table -/
def lookupInherited (h : Hier) (t : Tables) (c : Nat) : Option (List Nat) := (h.mro c).findSome? t

/-- the names `reset` uses for an object of class `c`, and the tables afterwards -/
def namesFor (src : NameSource) (h : Hier) (t : Tables) (c : Nat) : List Nat × Tables :=
  match src with
  | .walkPerCall => (h.allNames c, t)
  | .walkFiltered => (((h.mro c).filter h.visited).flatMap h.own, t)
  | .ownTable =>
    match t c with
    | some ns => (ns, t)
    | none => (h.allNames c, upd t c (some (h.allNames c)))
  | _ =>
    match lookupInherited h t c with
    | some ns => (ns, t)
    | none => (h.allNames c, upd t c (some (h.allNames c)))

structure Obj (V I : Type) where
  cls : Nat
  spec : Spec
  st : St V I
  bound : List (Nat × Nat) := []     -- (slot, cell): slots whose value lives in a process-level object

inductive Op (V I : Type) where
  | read (g : Nat)
  | reset
  | retarget (refreshed changed : List Nat) (new : Nat → Option V) (x : I)

def Op.resets : Op V I → Bool
  | .read _ => false
  | _ => true

inductive SOp (V I : Type) where
  | new (o : Nat) (ob : Obj V I)
  | on (o : Nat) (op : Op V I)

structure Proc (V I : Type) where
  obj : Nat → Option (Obj V I)
  tables : Tables
  cells : Nat → Option V

def Proc.empty : Proc V I := ⟨fun _ => none, fun _ => none, fun _ => none⟩

/-- one operation on one object, given the names `reset` deletes -/
def applyOp (sem : Sem V I) (ns : List Nat) (spec : Spec) : Op V I → St V I → St V I
  | .read g, s => (read spec sem g s).1
  | .reset, s => reset ns s
  | .retarget r c new x, s => retarget sem ns r c new x s

def load (cells : Nat → Option V) (bound : List (Nat × Nat)) (s : St V I) : St V I :=
  { s with params := fun p => match bound.lookup p with
                              | some c => cells c
                              | none => s.params p }

def store (cells : Nat → Option V) (bound : List (Nat × Nat)) (s : St V I) : Nat → Option V :=
  fun c => match bound.find? (fun e => e.2 == c) with
           | some e => s.params e.1
           | none => cells c

def sstep (src : NameSource) (h : Hier) (sem : Sem V I) (p : Proc V I) : SOp V I → Proc V I
  | .new o ob => { p with obj := upd p.obj o (some ob) }
  | .on o op =>
    match p.obj o with
    | none => p
    | some ob =>
      let nt := if op.resets then namesFor src h p.tables ob.cls else ([], p.tables)
      let s' := applyOp sem nt.1 ob.spec op (load p.cells ob.bound ob.st)
      { obj := upd p.obj o (some { ob with st := s' }), tables := nt.2, cells := store p.cells ob.bound s' }

def srun (src : NameSource) (h : Hier) (sem : Sem V I) (ops : List (SOp V I)) (p : Proc V I) : Proc V I :=
  ops.foldl (sstep src h sem) p

/-- the session as ONE object sees it: only its own operations, `reset` with the exact names of its class -/
def objStep (h : Hier) (sem : Sem V I) (o : Nat) (cur : Option (Obj V I)) : SOp V I → Option (Obj V I)
  | .new o' ob => if o = o' then some ob else cur
  | .on o' op =>
    if o = o' then cur.map fun ob => { ob with st := applyOp sem (h.allNames ob.cls) ob.spec op ob.st }
    else cur

def objRun (h : Hier) (sem : Sem V I) (o : Nat) (ops : List (SOp V I)) (cur : Option (Obj V I)) :
    Option (Obj V I) :=
  ops.foldl (objStep h sem o) cur

/-! ### driver: family sessions on the generated tables (symbolic semantics) -/

open Nitime.Proto

def joinS (l : List String) : String := ",".intercalate l

def showOpt : Option String → String
  | none => "None"
  | some s => s

/-- symbolic semantics: every uninterpreted function builds a term (same as Model/C13) -/
def symSemR (raising : List Nat) : Sem String String :=
  { raises := fun g _ _ _ => raising.contains g
    F := fun g dvs pvs x => s!"F{g}({joinS dvs}|{joinS (pvs.map showOpt)}|{showOpt x})"
    W := fun g p dvs pvs x => s!"W{g}_{p}({joinS dvs}|{joinS (pvs.map showOpt)}|{showOpt x})"
    C := fun g k v => s!"C{g}_{k}({v})"
    CI := fun g x => s!"CI{g}({x})"
    D := fun p x => s!"D{p}({x})" }

def initParams (sp : AnalyzerSpec) (cfg : List Nat) : Nat → Option String := fun p =>
  match sp.slotNames[p]? with
  | none => some s!"p{p}"
  | some nm =>
    match sp.flag? ("none:" ++ nm) with
    | some f => if cfg.contains f then none else some s!"p{p}"
    | none => some s!"p{p}"

/-- class ids of a family: 0 `ResetMixin`, 1 `BaseAnalyzer` (owns the inherited one-time attributes),
    2 the analyzer class, 3 a user subclass that adds the one-time attribute `ng` -/
def familyHier (sp : AnalyzerSpec) : Hier :=
  let ng := sp.getters.length
  { mro := fun c => (List.range (c + 1)).reverse
    own := fun c =>
      if c = 1 then sp.inherited
      else if c = 2 then (List.range ng).filter (fun g => !sp.inherited.contains g)
      else if c = 3 then [ng]
      else [] }

/-- the user subclass's own result: computed from the input only -/
def ownEff : Eff := { usesInput := true }

def kindCls : String → Nat
  | "m" => 0
  | "b" => 1
  | "p" => 2
  | _ => 3

structure Tok where
  kind : String      -- r / z / i
  o : Nat
  g : Nat

def parseTok (s : String) : Option Tok :=
  let k := (s.take 1).toString
  let rest := (s.drop 1).toString
  match rest.splitOn "." with
  | [o] => o.toNat?.map fun o => ⟨k, o, 0⟩
  | [o, g] => match o.toNat?, g.toNat? with
    | some o, some g => some ⟨k, o, g⟩
    | _, _ => none
  | _ => none

def tablesChanged (t t' : Tables) : Bool := (List.range 4).any fun c => t' c != t c

/-- run a family session; one answer token per operation -/
def familySession (src : NameSource) (sp : AnalyzerSpec) (cfg : List Nat) (kinds : List String)
    (toks : List Tok) (raising : List Nat) : String :=
  let sem := symSemR raising
  let spec := sp.resolve cfg ++ [ownEff]
  let h := familyHier sp
  let cp := initParams sp cfg
  let mk (x : String) : St String String := construct sem sp.initDerived cp x
  let p0 : Proc String String :=
    (kinds.zipIdx).foldl (fun p (k, o) =>
      sstep src h sem p (.new o { cls := kindCls k, spec := spec, st := mk s!"x{o}" })) Proc.empty
  let inputs0 : Nat → String := fun o => s!"x{o}"
  let step := fun (acc : Proc String String × (Nat → String) × Nat × List String) (t : Tok) =>
    let (p, inputs, n, out) := acc
    match t.kind with
    | "r" =>
      match p.obj t.o with
      | none => (p, inputs, n, "noobj" :: out)
      | some ob =>
        -- the getters that raise on the analyzer (e.g. `parameterlist` when the constructor's first argument is
        -- not called `input`) do not raise on a bare `BaseAnalyzer`
        let semO := if ob.cls ≤ 1 then symSemR [] else sem
        let r := (read ob.spec semO t.g (load p.cells ob.bound ob.st)).2
        let p' := sstep src h semO p (.on t.o (.read t.g))
        let same := match r with
          | none => "r"
          | some v => if (read ob.spec semO t.g (mk (inputs t.o))).2 == some v then "1" else "0"
        (p', inputs, n, s!"{t.g}:s={same}:t=0" :: out)
    | "c" =>
      -- `copy.copy(obj)`: a new object (id `t.o`) in the state of object `t.g`
      match p.obj t.g with
      | none => (p, inputs, n, "noobj" :: out)
      | some ob => (sstep src h sem p (.new t.o ob), upd inputs t.o (inputs t.g), n, "c:t=0" :: out)
    | "x" =>
      -- a `set_input` that raises: the object answers as before (whether or not it has been reset meanwhile)
      (p, inputs, n, "x:t=0" :: out)
    | k =>
      let newIn := s!"y{n}"
      let refreshed := match p.obj t.o with
        | some ob => if ob.cls ≥ 2 then sp.refreshed else []
        | none => []
      let op : Op String String := if k == "z" then .reset else .retarget refreshed [] (fun _ => none) newIn
      let p' := sstep src h sem p (.on t.o op)
      let surv := match p'.obj t.o with
        | some ob => (List.range (sp.getters.length + 1)).filter fun g => (ob.st.cache g).isSome
        | none => []
      let inputs' := if k == "z" then inputs else upd inputs t.o newIn
      (p', inputs', n + 1, s!"surv={showNatList surv}:t={if tablesChanged p.tables p'.tables then 1 else 0}" :: out)
  let (_, _, _, out) := toks.foldl step (p0, inputs0, 0, [])
  if out.isEmpty then "-" else "|".intercalate out.reverse

def findSpec? (cls : String) : Option AnalyzerSpec :=
  Generated.allSpecs.find? (·.cls == cls)

/-- `two <mode> <classes in construction order>`: are the analyzers independent of each other?
    method=None / own dicts: iff no constructor binds a slot to a process-level object; one shared dict:
    iff, besides, no constructor except possibly the last keeps (and writes into) the caller's object -/
def twoIndep (mode : String) (classes : List String) : String :=
  match classes.mapM findSpec? with
  | none => "unknown-class"
  | some sps =>
    let proc := sps.all fun sp => sp.processBound.isEmpty
    let kept := sps.dropLast.all fun sp => sp.argKept.isEmpty
    let ok := if mode == "shared" then proc && kept else proc
    s!"indep={if ok then 1 else 0}"

def handleSession (args : List String) : Option String :=
  match args with
  | ["session", cls, cfg, kinds, ops, raising] =>
    match findSpec? cls, parseNatList? cfg, parseNatList? raising with
    | some sp, some cfg, some raising =>
      let ks := if kinds == "-" then [] else kinds.splitOn ","
      let ts := if ops == "-" then some [] else (ops.splitOn "|").mapM parseTok
      match ts with
      | some ts => some (familySession Generated.resetNameSource sp cfg ks ts raising)
      | none => some "bad-op"
    | none, _, _ => some "unknown-class"
    | _, _, _ => some "bad-op"
  | ["two", mode, classes] => some (twoIndep mode (classes.splitOn ","))
  | _ => none

end Nitime.OneTime.Sessions
