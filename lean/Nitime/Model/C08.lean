/-
C08 — coherence measures: executable driver of the model in `CohBase.lean` (instance `Cx`).

Line protocol (after the property id):
  welch <what> <NFFT> <noverlap|dfunc|dan> <Fs> <win> <lb> <ub> <chan0> <chan1> …
      win = `hann` | list of window values;  lb, ub = floats, ub may be `none`
      what ∈ freqs | coherency | coherence | phase | aphase | delay | adelay | cohbavg | cybavg
             | partial | apartial
  spec  <what> <nchan> <f> <lb> <ub> <fxy[0][0]> <fxy[0][1]> … (upper triangle, row-major, complex)
      what ∈ coherency | coherence | aphase | cohbavg | apartial
  specfull apartial <nchan> <nf> <S[0][0]> <S[0][1]> … <S[n-1][n-1]>   (ALL n·n rows of the array the analyzer exposes as
      `.spectrum`, whatever its layout: half-filled for welch, full for multi_taper_csd / periodogram_csd)
      CoherenceAnalyzer.coherence_partial = `analyzerPartial csdOf S` (Model/C08Layout.lean), flattened over i, j, r, k
  mtcsd <what> <Fs> <N> <sides> <M> <T> <tapers> <wmode> <weights> <x>   (arguments as C04/C06 `mtcsd`)
      the multitaper estimator of the spectral model (`Nitime.C04.multiTaperCsdList`: tapered spectra from the
      data, tapers and weights given as data) followed by the coherence layer; what ∈ coherency | coherence
  mt <N> <nchan> <nt> then per channel: nt complex rows (tapered spectra), nt real rows (weights)
Results: `ok <flattened list>`; complex values as interleaved re,im.
-/
import Nitime.Model.CohBase
import Nitime.Model.C04
import Nitime.Model.C08Hist
import Nitime.Model.C08Retarget
import Nitime.Model.C08Layout

namespace Nitime.C08
open Nitime.Coh Nitime.Coh.CScalar

/-- `np.fft.fftfreq(NFFT, 1/Fs)[:numFreqs]` bit for bit (last one sign-fixed for even NFFT) -/
def mlabFreqs (Fs : Float) (NFFT : Nat) : List Float :=
  let val := 1.0 / (NFFT.toFloat * (1.0 / Fs))
  (List.range (nFreq NFFT)).map fun k => k.toFloat * val

def parseUb? (s : String) : Option (Option Float) :=
  if s = "none" then some none else (Proto.parseFloat? s).map some

def parseWin? (s : String) (NFFT : Nat) : Option (List Cx) :=
  if s = "hann" then some ((hanning NFFT).map Cx.ofF)
  else (Proto.parseFloatList? s).map (·.map Cx.ofF)

/-- table of a semi-filled spectrum (computed once per operation): entries for i ≤ j only -/
def specTable (n nf : Nat) (spec : Nat → Nat → Nat → Cx) : Array Cx := Id.run do
  let mut a : Array Cx := Array.mkEmpty (n * n * nf)
  for i in [0:n] do
    for j in [0:n] do
      for k in [0:nf] do
        a := a.push (if i ≤ j then spec i j k else ⟨0.0, 0.0⟩)
  return a

def readTable (tbl : Array Cx) (n nf : Nat) (i j k : Nat) : Cx := tbl.getD ((i * n + j) * nf + k) ⟨0.0, 0.0⟩

def flat3 (n m nf : Nat) (f : Nat → Nat → Nat → Cx) : List Cx :=
  (List.range n).flatMap fun i => (List.range m).flatMap fun j => (List.range nf).map fun k => f i j k

def flat2 (n m : Nat) (f : Nat → Nat → Cx) : List Cx :=
  (List.range n).flatMap fun i => (List.range m).map fun j => f i j

/-- the operations that only need a spectral matrix `spec` (read for i ≤ j), its frequency grid
    `f` and the band `lb, ub` -/
def specOps (what : String) (n nf : Nat) (spec : Nat → Nat → Nat → Cx) (f : List Float)
    (lb : Float) (ub : Option Float) : Option String :=
  let fK : Nat → Cx := fun k => Cx.ofF (f.getD k 0.0)
  match what with
  | "coherency" => some ("ok " ++ showCx (flat3 n n nf (coherencyMat spec)))
  | "coherence" => some ("ok " ++ showRe (flat3 n n nf (coherenceMat spec)))
  | "phase" => some ("ok " ++ showRe (flat3 n n nf fun i j k =>
        if i = j then Cx.ofF 0.0 else phaseMat spec i j k))
  | "aphase" => some ("ok " ++ showRe (flat3 n n nf (phaseMat spec)))
  | "adelay" => some ("ok " ++ showRe (flat3 n n nf fun i j k => delayOf (phaseMat spec i j k) (fK k)))
  | "delay" =>
      -- coherency_phase_delay: bounds from get_bounds, `if lb_idx == 0: lb_idx = 1`
      let (l0, u) := getBounds f lb ub
      let l := if l0 = 0 then 1 else l0
      some ("ok " ++ toString l ++ " " ++ toString u ++ " " ++
        showRe (flat3 n n (u - l) fun i j t => delayOf (phaseMat spec i j (l + t)) (fK (l + t))))
  | "cohbavg" =>
      -- coherence_bavg: `if lb == 0: lb_idx = 1`
      let (l0, u) := getBounds f lb ub
      let l := if lb == 0.0 then 1 else l0
      some ("ok " ++ showRe (flat2 n n (bavgMat coherenceBavg spec l u)))
  | "cybavg" =>
      let (l0, u) := getBounds f lb ub
      let l := if lb == 0.0 then 1 else l0
      some ("ok " ++ showCx (flat2 n n (bavgMat coherencyBavg spec l u)))
  | "partial" =>
      -- coherence_partial(time_series[:-1], r = time_series[-1])
      let r := n - 1
      some ("ok " ++ showRe (flat3 r r nf fun i j k => partialOf spec i j r k))
  | "apartial" =>
      -- CoherenceAnalyzer.coherence_partial[i][j][r]: zero when r ∈ {i, j}
      some ("ok " ++ showRe ((List.range n).flatMap fun i => (List.range n).flatMap fun j =>
        (List.range n).flatMap fun r => (List.range nf).map fun k =>
          if r = i ∨ r = j then Cx.ofF 0.0 else partialOf spec i j r k))
  | _ => none

def handleWelch (args : List String) : Option String := do
  match args with
  | what :: sN :: sO :: sFs :: sWin :: sLb :: sUb :: chans =>
    let NFFT ← sN.toNat?
    let nov ← (if sO = "dfunc" then some (denseDefaultOverlap NFFT)   -- get_spectra: int(np.ceil(NFFT // 2))
               else if sO = "dan" then some 32                         -- analysis: tsa.default_n_overlap
               else sO.toNat?)
    let Fs ← Proto.parseFloat? sFs
    let lb ← Proto.parseFloat? sLb
    let ub ← parseUb? sUb
    let X ← parseChans? chans
    if NFFT = 0 ∨ nov ≥ NFFT then return "err ValueError"   -- mlab: 'noverlap must be less than NFFT'
    let w ← parseWin? sWin NFFT
    if w.length ≠ NFFT then return "err ValueError"
    let n := X.length
    let nf := nFreq NFFT
    let step := NFFT - nov
    let f := mlabFreqs Fs NFFT
    if what = "freqs" then
      return "ok " ++ Proto.showFloatList f ++ " " ++
        showRe ((List.range nf).map fun k => welchFreq (Cx.ofF Fs) NFFT k)
    let tbl := specTable n nf fun i j k => welchBin w (Cx.ofF Fs) NFFT step (X.getD i []) (X.getD j []) k
    specOps what n nf (readTable tbl n nf) f lb ub
  | _ => none

def handleSpec (args : List String) : Option String := do
  match args with
  | what :: sn :: sf :: sLb :: sUb :: rest =>
    let n ← sn.toNat?
    let f ← Proto.parseFloatList? sf
    let lb ← Proto.parseFloat? sLb
    let ub ← parseUb? sUb
    let rows ← rest.mapM parseCxList?
    let nf := f.length
    -- upper triangle row-major: index of (i, j), i ≤ j
    let idx := fun (i j : Nat) => i * n - i * (i - 1) / 2 + (j - i)
    let arr := rows.toArray.map (·.toArray)
    let spec : Nat → Nat → Nat → Cx := fun i j k => (arr.getD (idx i j) #[]).getD k ⟨0.0, 0.0⟩
    specOps what n nf spec f lb ub
  | _ => none

/-- `CoherenceAnalyzer.coherence_partial` from the array the analyzer itself exposes (every row, both halves):
    the cross-spectra are read through the closure `csdOf` -/
def handleSpecFull (args : List String) : Option String := do
  match args with
  | "apartial" :: sn :: snf :: rest =>
    let n ← sn.toNat?
    let nf ← snf.toNat?
    let rows ← rest.mapM parseCxList?
    if rows.length ≠ n * n then none
    let arr := rows.toArray.map (·.toArray)
    let S : Nat → Nat → Nat → Cx := fun i j k => (arr.getD (i * n + j) #[]).getD k ⟨0.0, 0.0⟩
    some ("ok " ++ showRe ((List.range n).flatMap fun i => (List.range n).flatMap fun j =>
      (List.range n).flatMap fun r => (List.range nf).map fun k => analyzerPartial csdOf S i j r k))
  | _ => none

def splitAtN {α} (n : Nat) (xs : List α) : List α × List α := (xs.take n, xs.drop n)

def handleMt (args : List String) : Option String := do
  match args with
  | sN :: sn :: snt :: rest =>
    let N ← sN.toNat?
    let n ← sn.toNat?
    let nt ← snt.toNat?
    if rest.length ≠ 2 * n * nt then none
    let mut sp : Array (List (List Cx)) := #[]
    let mut ws : Array (List (List Cx)) := #[]
    let mut cur := rest
    for _ in [0:n] do
      let (a, r1) := splitAtN nt cur
      let (b, r2) := splitAtN nt r1
      sp := sp.push (← a.mapM parseCxList?)
      ws := ws.push (← parseChans? b)
      cur := r2
    let L := N / 2 + 1
    -- coh_mat[i, j] for j < i, mirrored; the diagonal as the analyzer leaves it
    let coh : Nat → Nat → Nat → Cx := fun i j k =>
      if i = j then mtCoherence N nt (sp.getD i []) (sp.getD i []) (ws.getD i []) (ws.getD i []) k
      else
        let (a, b) := if j < i then (i, j) else (j, i)
        mtCoherence N nt (sp.getD a []) (sp.getD b []) (ws.getD a []) (ws.getD b []) k
    return "ok " ++ showRe (flat3 n n L coh)
  | _ => none

/-- joint run with the spectral model: `coherency(x, multi_taper_csd)` = coherence layer ∘ `multiTaperCsdList` -/
def handleMtCsd (args : List String) : Option String := do
  match args with
  | [what, fs, nfft, sides, m, t, taps, wmode, ws, xs] =>
    let Fs ← Proto.parseFloat? fs
    let N ← nfft.toNat?
    let M ← m.toNat?
    let T ← t.toNat?
    let h ← Nitime.Num.parseFArray? taps
    let w ← Nitime.Num.parseFArray? ws
    let x ← Nitime.Num.parseCList? xs
    if M = 0 then none
    let n := x.size / M
    let one := sides == "1"
    let L := Nitime.Generated.SpecIdx.mt_csd_last_freq N one
    let tw := Nitime.Num.twiddleFn N (Nitime.Num.twiddleTable N)
    let hf : Nat → Nat → Float := fun t j => Nitime.Num.ffn h (t * n + j)
    let wf : Nat → Nat → Nat → Float :=
      if wmode == "f" then fun _ t _ => Nitime.Num.ffn w t else fun i t k => Nitime.Num.ffn w ((i * T + t) * L + k)
    let S := (Nitime.C04.multiTaperCsdList tw Fs n N M one T hf wf (Nitime.C04.chan x n)).toArray
    let spec : Nat → Nat → Nat → Cx := fun i j k =>
      let z := S.getD ((i * M + j) * L + k) ⟨0.0, 0.0⟩
      ⟨z.re, z.im⟩
    match what with
    | "coherency" => some ("ok " ++ showCx (flat3 M M L (coherencyMat spec)))
    | "coherence" => some ("ok " ++ showRe (flat3 M M L (coherenceMat spec)))
    | _ => none
  | _ => none

/-- `cache <NFFT> <noverlap|dfunc> <Fs> <win> <sbf 0|1> <psm 0|1> <lbIdx> <nBins> <i:j,i:j,…> <chan0> …`:
    `cache_to_coherency(cache_fft(…), ij)` for the listed pairs on the kept bins (CohBase `cacheCoherency`: cached
    slices, window mean, norm, coherency of the three cached spectra) -/
def handleCacheCoh (args : List String) : Option String := do
  match args with
  | sN :: sO :: sFs :: sWin :: sSbf :: sPsm :: sL :: sNb :: sIj :: chans =>
    let NFFT ← sN.toNat?
    let nov ← (if sO = "dfunc" then some (denseDefaultOverlap NFFT) else sO.toNat?)
    let Fs ← Proto.parseFloat? sFs
    let l ← sL.toNat?
    let nb ← sNb.toNat?
    let X ← parseChans? chans
    if NFFT = 0 ∨ nov ≥ NFFT then return "err ValueError"
    let w ← parseWin? sWin NFFT
    let ij ← (sIj.splitOn ",").mapM fun p =>
      match p.splitOn ":" with
      | [a, b] => do some ((← a.toNat?), (← b.toNat?))
      | _ => none
    let nv : Cx := normVal w (Cx.ofF Fs) NFFT (sSbf == "1")
    let step := NFFT - nov
    return "ok " ++ showCx (ij.flatMap fun (a, b) =>
      (List.range nb).map fun t => cacheCoherency (sPsm == "1") w nv NFFT step (X.getD a []) (X.getD b []) l t)
  | _ => none

/-- `reads <dof> <t_lo> <t_hi> <coherence> <jackknife variance> <order: string of c / i>`: the getter object model of
    `Model/C08Hist.lean` with `g = sqrt(dof)·arctanh` and `F` = the rest of `confidence_interval` (limits from the
    jackknife variance — data —, `normal_coherence_to_unit`, `ub − lb`); answer: the contents each read hands out,
    followed by what every handed-out address holds at the END of the history -/
def handleReads (args : List String) : Option String := do
  match args with
  | [sdof, stlo, sthi, sc0, svar, sorder] =>
    let dof ← Proto.parseFloat? sdof
    let tlo ← Proto.parseFloat? stlo
    let thi ← Proto.parseFloat? sthi
    let c0 ← Proto.parseFloatList? sc0
    let var ← Proto.parseFloatList? svar
    let rs ← sorder.toList.mapM fun ch =>
      if ch = 'c' then some Hist.Rd.coherence else if ch = 'i' then some Hist.Rd.confidence_interval else none
    let sq := Float.sqrt dof
    let g : Float → Float := fun x => Float.atanh x * sq
    let F : List Float → List Float := fun xs => (List.zip xs var).map fun (x, v) =>
      let lb := (x + tlo * Float.sqrt v) / sq
      let ub := (x + thi * Float.sqrt v) / sq
      Float.tanh ub - Float.tanh lb
    let out := Hist.runReads true g F c0 Hist.St.init rs
    let now := out.1.map fun x => Proto.showFloatList x.2.2
    let atEnd := out.1.map fun x => Proto.showFloatList (Hist.rd out.2.heap x.2.1)
    return "ok " ++ " ".intercalate (now ++ atEnd)
  | _ => none

/-- `retarget <skip 0|1> <event> …`, event = `r` (read a getter) | `s:<ref>` (set_input with object <ref>) |
    `m:<ref>:<version>` (the data of object <ref> replaced in place by version <version>); object `ref` initially holds
    version `1000·ref`; the analyzer starts on object 0.  Answer: the data version every read answers from. -/
def handleRetarget (args : List String) : Option String := do
  match args with
  | sk :: evs =>
    let es ← evs.mapM fun e =>
      match e.splitOn ":" with
      | ["r"] => some (Retarget.Ev.read : Retarget.Ev Nat)
      | ["s", r] => r.toNat?.map Retarget.Ev.setInput
      | ["m", r, v] => do some (Retarget.Ev.mutate (← r.toNat?) (← v.toNat?))
      | _ => none
    let out := (Retarget.run (sk == "1") (fun v : Nat => v) (fun r => 1000 * r) ⟨0, none⟩ es).2.2
    let vs := out.filterMap fun o => o.map toString
    return "ok " ++ (if vs.isEmpty then "-" else ",".intercalate vs)
  | _ => none

def handle (args : List String) : String :=
  match args with
  | "retarget" :: rest => (handleRetarget rest).getD "bad-op"
  | "cache" :: rest => (handleCacheCoh rest).getD "bad-op"
  | "reads" :: rest => (handleReads rest).getD "bad-op"
  | "mtcsd" :: rest => (handleMtCsd rest).getD "bad-op"
  | "welch" :: rest => (handleWelch rest).getD "bad-op"
  | "spec" :: rest => (handleSpec rest).getD "bad-op"
  | "specfull" :: rest => (handleSpecFull rest).getD "bad-op"
  | "mt" :: rest => (handleMt rest).getD "bad-op"
  | _ => "bad-op"

end Nitime.C08
