import Nitime.Model.C05Len
/-
C05 — WHERE an analyzer's frequency getter takes its vector from, next to the spectral getter it accompanies (core Lean only).

`CoherenceAnalyzer.frequencies` and `CoherenceAnalyzer.spectrum` are two one-time attributes; the property needs the first to
have one entry per bin of the second, spaced `Fs / NFFT_used`.  That holds for every method and every option combination when
both are components of the SAME call (`f, spectrum = tsa.get_spectra(self.input.data, method=self.method)`): the estimator
decides the number of points of its transform (multitaper: never fewer than samples) and labels its own bins.
`harness/translate_c05.py` (gen_freqsrc) re-extracts, per getter, whether its body is `a, b = <call>; return <a | b>`, numbers
the distinct call texts, and says whether the call is the delegation to `tsa.get_spectra` on the analyzer's own input and
method dict.  A getter that computes its vector any other way (a shortcut from `method['NFFT']`) comes out as `.other`.
-/
namespace Nitime.C05

/-- the body of a getter: component `idx` of the tuple returned by call text number `call`, or anything else -/
inductive GetterSrc where
  | component (call idx : Nat)
  | other
  deriving Repr, DecidableEq, Inhabited

/-- the frequency getter and the spectral getter of one analyzer class -/
structure FreqPair where
  freq : GetterSrc
  spec : GetterSrc
  /-- call text number 0 is `tsa.get_spectra(self.input.data, method=self.method)` -/
  delegates : Bool
  deriving Repr, DecidableEq, Inhabited

/-- frequencies = component 0, spectrum = component 1 of one and the same delegating call -/
def FreqPair.oneCall (p : FreqPair) : Bool :=
  match p.freq, p.spec with
  | .component c 0, .component d 1 => c == d && c == 0 && p.delegates
  | _, _ => false

/-- what the two getters report for a call environment, given the estimator behind the call (`ls`) and — for a getter that
does not go through the call — the length expression it uses instead (`alt`): (number of frequencies, number of bins) -/
def FreqPair.lengths (p : FreqPair) (ls : LenSite) (alt : LenExpr) (onesided : Bool) (e : LenEnv) : Nat × Nat :=
  let viaCall := nBins onesided (ls.gridLen.eval e)
  let nf := match p.freq with | .component _ 0 => viaCall | _ => nBins onesided (alt.eval e)
  (nf, nBins onesided (ls.transform.len e))

end Nitime.C05
