/-
Square matrices as lists of rows over ANY `Scalar K` (core Lean only): the operations
`lwr_recursion` uses (`+ - ·`, negation, conjugate transpose, identity, zeros, `linalg.inv`), written
once.  The C11 driver runs `GSq CF n` (complex binary64); `Lemmas/SqMatBridge.lean` shows that at
`K = ℂ` these list operations ARE the `Matrix (Fin n) (Fin n) ℂ` operations on well-shaped inputs
(`toMatrix (mmul n a b) = toMatrix a * toMatrix b`, …), which is what lets `lwr_solves` specialise to
this executable text (`Props/C11.lean`, `lwr_solves_concrete`).

At `K = CF` every operation unfolds to the text of `Nitime.AR.Mat.*` / `SqMat n` in `ARBase.lean`
(`Props/C11.lean`, `sqMat_ops_eq`, by `rfl`).
-/
import Nitime.Model.ARBase

namespace Nitime.AR

namespace GMat
variable {K : Type} [Scalar K]

/-- entrywise combination of two row lists -/
def zipW (f : K → K → K) (a b : List (List K)) : List (List K) :=
  List.zipWith (fun r s => List.zipWith f r s) a b

def madd (a b : List (List K)) : List (List K) := zipW Scalar.add a b
def msub (a b : List (List K)) : List (List K) := zipW Scalar.sub a b
def mneg (a : List (List K)) : List (List K) := a.map fun r => r.map Scalar.neg

/-- `np.dot(a, b)`: entry `(i, j)` is `Σ_k a[i,k]·b[k,j]` accumulated left to right from zero -/
def mmul (n : Nat) (a b : List (List K)) : List (List K) :=
  ofFn n n fun i j => sumRange n fun k => entry a i k *. entry b k j

/-- `.conj().T` -/
def ctrans (n : Nat) (a : List (List K)) : List (List K) := ofFn n n fun i j => Scalar.conj (entry a j i)

def ident (n : Nat) : List (List K) := ofFn n n fun i j => if i = j then Scalar.one else Scalar.zero
def zeros (n : Nat) : List (List K) := ofFn n n fun _ _ => Scalar.zero

/-- `scipy.linalg.inv`: the Gauss–Jordan inverse (zeros when the elimination fails) -/
def minv (n : Nat) (a : List (List K)) : List (List K) := (inv? n a).getD (zeros n)

end GMat

/-- square matrices of a fixed size over `K` (the size is a phantom parameter) -/
def GSq (K : Type) (_n : Nat) := List (List K)

instance instMatOpsGSq (K : Type) [Scalar K] (n : Nat) : MatOps (GSq K n) where
  add := GMat.madd
  sub := GMat.msub
  mul := GMat.mmul n
  neg := GMat.mneg
  star := GMat.ctrans n
  inv := GMat.minv n
  one := GMat.ident n
  zero := GMat.zeros n

end Nitime.AR
