/-
C15 round 5 — two small object models (core Lean only).

Part `Memo`: a PROCESS-WIDE memo in front of a design function (what a module-level dict of FIR / IIR kernels keyed by the
filter parameters is): `call` answers from the memo when the key is present, else designs and stores; `run` = the answers of
a whole history of requests made by any number of analyzer objects.  `FirArgs` / `firDesign` / `keyFull` / `keyNoRate`: the
request of `FilterAnalyzer.fir` (taps, band edges in Hz, window, SAMPLING RATE), the quantities the kernels are designed from
(edges as fractions of Nyquist), a key holding every argument and a key that forgets the rate.  Today's code keeps no such
memo (`Generated/ModuleState.lean`: no module-level name of nitime/analysis/*.py is written inside a function, no caching
decorator): `codeVouched`.  Driver op `firhist <code|keyed|norate> <taps,lb,ub,win,rate;...>` -> for every request WHICH
request's design it is answered with (its own index when right).

Part `Concat`: runs of DIFFERENT dtypes.  A dtype is a rounding map on exact samples (`round`: int16 drops the fraction and
the imaginary part, float32 keeps a coarser grid, float64 drops the imaginary part, complex128 keeps everything); a stored
run consists of fixed points of its own dtype.  `concatPromote` = np.concatenate (block of the JOINED dtype: today's code),
`concatFirst` = a block allocated with the dtype of the first run.  Samples are pairs of integers in units of 2^-8.
-/
import Nitime.Generated.ModuleState

namespace Nitime.C15.Cross

/-! ## Memo -/

def lookup {K V : Type} [DecidableEq K] (k : K) : List (K × V) → Option V
  | [] => none
  | (k', v) :: m => if k' = k then some v else lookup k m

/-- one request through the memo: the answer and the memo afterwards -/
def call {A K V : Type} [DecidableEq K] (key : A → K) (design : A → V) (m : List (K × V)) (a : A) : V × List (K × V) :=
  match lookup (key a) m with
  | some v => (v, m)
  | none => (design a, (key a, design a) :: m)

/-- the answers of a history of requests, starting from memo `m` -/
def run {A K V : Type} [DecidableEq K] (key : A → K) (design : A → V) : List (K × V) → List A → List V
  | _, [] => []
  | m, a :: as => (call key design m a).1 :: run key design (call key design m a).2 as

/-- every stored entry is the design of every request that has its key -/
def Sound {A K V : Type} [DecidableEq K] (key : A → K) (design : A → V) (m : List (K × V)) : Prop :=
  ∀ k v, lookup k m = some v → ∀ a, key a = k → design a = v

structure FirArgs where
  taps : Nat
  lb : Nat      -- mHz
  ub : Nat      -- mHz
  win : Nat
  rate : Nat    -- mHz
  deriving DecidableEq, Repr

/-- what the kernels are designed from: taps, window, the edges as fractions of Nyquist (numerator, denominator) -/
def firDesign (a : FirArgs) : Nat × Nat × (Nat × Nat) × (Nat × Nat) :=
  (a.taps, a.win, (2 * a.lb, a.rate), (2 * a.ub, a.rate))

def keyFull (a : FirArgs) : Nat × Nat × Nat × Nat × Nat := (a.taps, a.lb, a.ub, a.win, a.rate)
def keyNoRate (a : FirArgs) : Nat × Nat × Nat × Nat := (a.taps, a.lb, a.ub, a.win)

/-- which request's design answers request i (first index whose design equals the answer) -/
def provenance (reqs : List FirArgs) (answers : List (Nat × Nat × (Nat × Nat) × (Nat × Nat))) : List Nat :=
  answers.map fun v => (reqs.findIdx? (fun r => firDesign r = v)).getD reqs.length

def codeVouched : Bool :=
  Nitime.Generated.ModuleState.moduleWrites.isEmpty && Nitime.Generated.ModuleState.cacheDecorators.isEmpty

/-! ## Concat -/

inductive DT | i16 | f32 | f64 | c128
  deriving DecidableEq, Repr

def DT.rank : DT → Nat
  | .i16 => 0 | .f32 => 1 | .f64 => 2 | .c128 => 3

def DT.join (a b : DT) : DT := if a.rank ≤ b.rank then b else a

/-- exact sample: real and imaginary part in units of 2^-8 -/
abbrev Val := Int × Int

def round : DT → Val → Val
  | .i16, (re, _) => (re / 256 * 256, 0)
  | .f32, (re, _) => (re / 16 * 16, 0)
  | .f64, (re, _) => (re, 0)
  | .c128, v => v

abbrev Run := DT × List Val

def Stored (r : Run) : Prop := ∀ v ∈ r.2, round r.1 v = v

def joinAll : List Run → DT
  | [] => .i16
  | r :: rs => DT.join r.1 (joinAll rs)

def append (runs : List Run) : List Val := runs.flatMap (·.2)

/-- np.concatenate: a block of the joined dtype -/
def concatPromote (runs : List Run) : Run := (joinAll runs, (append runs).map (round (joinAll runs)))

/-- a block allocated once with the dtype of the FIRST run -/
def concatFirst : List Run → Run
  | [] => (.i16, [])
  | r :: rs => (r.1, (append (r :: rs)).map (round r.1))

def concatVouched : Bool :=
  Nitime.Generated.ModuleState.concatBuilder == ["np.concatenate(data,-1)"] &&
    Nitime.Generated.ModuleState.concatDtypeMentions.isEmpty

/-! ## driver -/

def parseReq (s : String) : Option FirArgs :=
  match (s.splitOn ",").map String.toNat? with
  | [some t, some l, some u, some w, some r] => some ⟨t, l, u, w, r⟩
  | _ => none

def handleFirhist (variant reqs : String) : String :=
  match (reqs.splitOn ";").mapM parseReq with
  | none => "err parse"
  | some rs =>
    if !codeVouched && variant == "code" then "err module-state-not-vouched" else
    let ans := match variant with
      | "keyed" => run keyFull firDesign [] rs
      | "norate" => run keyNoRate firDesign [] rs
      | _ => rs.map firDesign
    "ok " ++ ",".intercalate ((provenance rs ans).map toString)

def DT.ofString? : String → Option DT
  | "int16" => some .i16 | "float32" => some .f32 | "float64" => some .f64 | "complex128" => some .c128 | _ => none

def DT.toString : DT → String
  | .i16 => "int16" | .f32 => "float32" | .f64 => "float64" | .c128 => "complex128"

def parseVal (s : String) : Option Val :=
  match (s.splitOn "/").map String.toInt? with
  | [some a, some b] => some (a, b)
  | _ => none

def parseRun (s : String) : Option Run :=
  match s.splitOn ":" with
  | [d, vs] => do
    let dt ← DT.ofString? d
    let xs ← (vs.splitOn ",").mapM parseVal
    pure (dt, xs)
  | _ => none

/-- concatdt <dtype:re/im,...;dtype:...>: dtype and samples (units of 2^-8) of the concatenated block -/
def handleConcatDt (runs : String) : String :=
  match (runs.splitOn ";").mapM parseRun with
  | none => "err parse"
  | some rs =>
    if !concatVouched then "err concat-not-vouched" else
    let r := concatPromote rs
    "ok " ++ r.1.toString ++ " " ++ ",".intercalate (r.2.map fun v => toString v.1 ++ "/" ++ toString v.2)

end Nitime.C15.Cross
