/-
C10 — executable model of the univariate AR estimators and their spectrum / simulator
(`nitime/algorithms/autoregressive.py`: AR_est_YW, AR_est_LD, AR_psd; `nitime/utils.py`:
autocorr, ar_generator; `nitime/algorithms/spectral.py`: freq_response).  Core Lean only.

Every function is written once over `Scalar K`; the driver runs `K = CF` (complex binary64),
`Props/C10.lean` proves the theorems for `K = ℂ` of the same definitions.

External calls, by documented semantics: `fftconvolve` (autocorr) = the direct lagged sum;
`scipy.linalg.toeplitz(c)` = Hermitian Toeplitz (first row `conj c`); `scipy.linalg.solve` =
a parameter `solve` (the driver plugs in `GMat.solve` = Gauss–Jordan inverse times right-hand side,
proved to satisfy the contract whenever it returns: `Lemmas/GaussJordan.lean`);
`scipy.signal.freqz(b, a, worN=n, whole)` = ratio of the two polynomials in `exp(-1j w_k)`,
`w_k = k·(π or 2π)/n`; `scipy.signal.lfilter(b, a, v)` = direct-form recursion.

Session 3: `autocovOpt` / `autocovAllLags` = the covariance helper with its keyword arguments
(`debias`, `normalize`, `all_lags`; driver op `acopt`); `runCalls` = programs of `AR_est_LD` /
`AR_est_YW` calls on ONE caller-owned `rxx` array (driver op `seq`; `Props`: `reuse_rxx_same_sigma`).
Signals / sequences given as integer, float32, … arrays reach the model as their float64 values (exact).
-/
import Nitime.Model.ARBase
import Nitime.Generated.FreqResponse
import Nitime.Generated.LdFlow

namespace Nitime.C10
open Nitime.AR Nitime.AR.Scalar Nitime.Proto

variable {K : Type} [Scalar K]

/-- `utils.autocorr(x)[k]` for a length-`n` signal: `(1/n) Σ_m x[m+k]·conj x[m]` -/
def autocorrDirect (x : Nat → K) (n k : Nat) : K :=
  sumRange (n - k) (fun m => x (m + k) *. conj (x m)) /. ofNat n

/-- sample mean (`remove_bias`: `np.mean(x, axis)`) -/
def meanSig (x : Nat → K) (n : Nat) : K := sumRange n x /. ofNat n

/-- `utils.crosscov(x, x, debias=…, normalize=…)[k]`, `k ≥ 0`, for a 1-d signal — what `autocorr` (`debias=False`)
and `autocov` (`debias=True` unless told otherwise) compute with their keyword arguments: `debias` subtracts the
sample mean first, `normalize` divides the lagged sum by `n` -/
def autocovOpt (debias normalize : Bool) (x : Nat → K) (n k : Nat) : K :=
  let m := if debias then meanSig x n else zero
  let s := sumRange (n - k) (fun t => (x (t + k) -. m) *. conj (x t -. m))
  if normalize then s /. ofNat n else s

/-- entry `j` of the `all_lags=True` output (length `2n − 1`, lag `j − (n−1)`): the negative lags are the
conjugates of the positive ones -/
def autocovAllLags (debias normalize : Bool) (x : Nat → K) (n j : Nat) : K :=
  if n - 1 ≤ j then autocovOpt debias normalize x n (j - (n - 1))
  else conj (autocovOpt debias normalize x n (n - 1 - j))

/-! ### AR_est_LD -/

/-- loop state: `w[1..p]`, the code's `b`, and `w_k` -/
structure LDSt (K : Type) where
  w : List K
  b : K
  wk : K

/-- `b = rxx[0].real; w_k = rxx[1] / b; w[1] = w_k` -/
def ldInit (r : Nat → K) : LDSt K :=
  let b := re (r 0)
  let wk := r 1 /. b
  ⟨[wk], b, wk⟩

/-- body of `while p <= order` -/
def ldStep (r : Nat → K) (p : Nat) (s : LDSt K) : LDSt K :=
  -- b *= 1 - (w_k * w_k.conj()).real
  let b := s.b *. (one -. re (s.wk *. conj s.wk))
  -- w_k = (rxx_m[p] - (w[1:p] * rxx_m[1:p][::-1]).sum()) / b
  let acc := sumRange (p - 1) fun i => s.w.getD i zero *. r (p - 1 - i)
  let wk := (r p -. acc) /. b
  -- w[1:p] = w[1:p] - w_k * w[1:p][::-1].conj();  w[p] = w_k
  let w := (List.range (p - 1)).map
      (fun i => s.w.getD i zero -. wk *. conj (s.w.getD (p - 2 - i) zero)) ++ [wk]
  ⟨w, b, wk⟩

/-- state when the loop has finished order `p ≥ 1` -/
def ldLoop (r : Nat → K) : Nat → LDSt K
  | 0 => ldInit r
  | 1 => ldInit r
  | p + 2 => ldStep r (p + 2) (ldLoop r (p + 1))

/-- the source's loop has the shape `ldLoop` models — `p = 2; while p <= order: …; p += 1` with no `break` / `continue` /
`return` / `raise` and no conditional inside: every pass is performed, whatever the reflection coefficient (facts GENERATED
from `AR_est_LD` by `harness/translate_c10.py: gen_ld_flow`; `Props/C10Sparse.lean: ld_source_runs_every_pass`) -/
def ldLoopRunsEveryPass : Bool :=
  Nitime.Generated.LdFlow.ldLoopExits.isEmpty && Nitime.Generated.LdFlow.ldLoopGuards.isEmpty &&
  Nitime.Generated.LdFlow.ldLoopHeaderIsPLeOrder && Nitime.Generated.LdFlow.ldLoopCountsByOne &&
  Nitime.Generated.LdFlow.loops == 1

/-- `AR_est_LD(x, order, rxx=r)`: `(w[1:], b)` after the final `b *= 1 - |w_k|²` -/
def arLD (r : Nat → K) (order : Nat) : List K × K :=
  let s := ldLoop r order
  (s.w, s.b *. (one -. re (s.wk *. conj s.wk)))

/-! ### AR_est_YW -/

/-- entry (k, i) of `toeplitz(r[:p])`: `r[k-i]` on and below the diagonal, `conj r[i-k]` above -/
def toepEntry (r : Nat → K) (k i : Nat) : K := if i ≤ k then r (k - i) else conj (r (i - k))

def toeplitzH (r : Nat → K) (p : Nat) : List (List K) :=
  (List.range p).map fun k => (List.range p).map fun i => toepEntry r k i

/-- `AR_est_YW(x, order, rxx=r)` with `linalg.solve` a parameter -/
def arYW (solve : List (List K) → List K → List K) (r : Nat → K) (order : Nat) : List K × K :=
  let T := toeplitzH r order
  let y := (List.range order).map fun k => r (k + 1)
  let ak := solve T y
  -- sigma_v = r_m[0].real - np.dot(r_m[1:].conj(), ak).real
  let sigma := re (r 0) -. re (sumRange order fun k => conj (r (k + 1)) *. ak.getD k zero)
  (ak, sigma)

/-! ### one caller-owned `rxx` array handed to several estimator calls

`AR_est_LD` / `AR_est_YW` take `rxx[:order + 1]` (a VIEW of the caller's array) and only read it: a call returns a
value computed from the array contents and leaves the contents as they were.  `runCallsWith post` threads the array
through a program of calls; the code's `post` is `callPost` (identity).  `Props/C10.lean` proves that every call of
every program then returns what it returns on the original array, and that all innovation variances of a program
coincide; the counter-model there is an `AR_est_LD` that normalises the view in place. -/

inductive EstCall where
  | LD
  | YW
  deriving Repr, DecidableEq

/-- the caller's array as the estimators index it -/
def arrFn (a : List K) : Nat → K := fun k => a.getD k zero

/-- what a call returns, given the array contents -/
def callOut (solve : List (List K) → List K → List K) (p : Nat) (c : EstCall) (a : List K) : List K × K :=
  match c with
  | .LD => arLD (arrFn a) p
  | .YW => arYW solve (arrFn a) p

/-- what a call leaves in the caller's array: both estimators only read the slice -/
def callPost (_c : EstCall) (a : List K) : List K := a

/-- a program of calls on ONE array: the outputs in call order, and the array afterwards -/
def runCallsWith (post : EstCall → List K → List K) (solve : List (List K) → List K → List K) (p : Nat) :
    List EstCall → List K → List (List K × K) × List K
  | [], a => ([], a)
  | c :: cs, a =>
    let r := runCallsWith post solve p cs (post c a)
    (callOut solve p c a :: r.1, r.2)

def runCalls (solve : List (List K) → List K → List K) (p : Nat) (cs : List EstCall) (a : List K) :
    List (List K × K) × List K :=
  runCallsWith callPost solve p cs a

/-- round 2 (L7): a call with its OWN order on the caller's array; `none` = the call is refused — the sequence is shorter than
`order + 1` (`AR_est_LD` raises `IndexError` part-way through its loop, `AR_est_YW` `ValueError` in `solve`) -/
def callOutE (solve : List (List K) → List K → List K) (c : EstCall) (p : Nat) (a : List K) : Option (List K × K) :=
  if a.length < p + 1 then none else some (callOut solve p c a)

/-- a program of calls with their own orders, some of them refused, on ONE array: outcomes in call order, and the array afterwards -/
def runCallsE (solve : List (List K) → List K → List K) : List (EstCall × Nat) → List K → List (Option (List K × K)) × List K
  | [], a => ([], a)
  | (c, p) :: cs, a =>
    let r := runCallsE solve cs (callPost c a)
    (callOutE solve c p a :: r.1, r.2)

/-! ### AR_psd / freq_response -/

/-- `scipy.signal.freqz(b, a, worN=n, whole=whole, include_nyquist=incl)[1]` -/
def freqz (incl : Bool) (b a : List K) (whole : Bool) (n : Nat) : List K :=
  (List.range n).map fun k =>
    polyEval b (gridPhasor incl whole k n) /. polyEval a (gridPhasor incl whole k n)

/-- number of grid points `freq_response` asks for — GENERATED from the source -/
abbrev realN := Nitime.Generated.FreqResponse.realN

/-- `AR_psd(ak, sigma_v, n_freqs, sides)[1]`; `incl` = the `include_nyquist` option
`freq_response` passes to `freqz` (generated: `Generated.FreqResponse.includeNyquist`) -/
def arPsd (incl : Bool) (ak : List K) (sigma : K) (nFreqs : Nat) (onesided : Bool) : List K :=
  let hw := freqz incl [sqrtRe sigma] (one :: ak.map neg) (!onesided) (realN nFreqs onesided)
  hw.map fun h =>
    let p := re (h *. conj h)
    if onesided then ofNat 2 *. p else p

/-! ### ar_generator -/

/-- `lfilter([b0], a, v)` with `a[0] = 1`: `u[n] = b0·v[n] − Σ_{k≥1} a[k]·u[n−k]` -/
def lfilter1 (b0 : K) (a : List K) (v : List K) : List K :=
  v.foldl (fun (u : List K) vn =>
    let n := u.length
    let fb := sumRange (min n (a.length - 1)) fun k => a.getD (k + 1) zero *. u.getD (n - 1 - k) zero
    u ++ [b0 *. vn -. fb]) []

/-- `ar_generator(N, sigma, coefs, drop_transients, v)` with `v` supplied
(`len v = N + drop_transients`): returns `(u[drop:], v[drop:])` -/
def arGenerator (sigma : K) (coefs : List K) (drop : Nat) (v : List K) : List K × List K :=
  let u := lfilter1 (sqrtRe sigma) (one :: coefs.map neg) v
  (u.drop drop, v.drop drop)

/-! ### Toeplitz form / Gram form (the stability clause)

`toepForm r p c = cᴴ·T·c` for `T = toeplitz(r[:p+1])` (the matrix `AR_est_YW` builds, one size up);
`gramForm x n p c = (1/n)·Σ_{t<n+p} |Σ_{i≤p} c_i·x[t−i]|²` with `x` zero outside `0..n−1`.
`Props/C10.lean` proves `toepForm (autocorrDirect x n) p c = gramForm x n p c` for every input
(`autocorr_toeplitz_psd`), hence positive definiteness, `σ_j > 0`, `|κ_j| < 1` and stability of
every `AR_est_LD` fit of a non-zero signal.  The driver evaluates both sides (ops `gram`, `gramq`,
`ldq`), the `q` ops in exact rational arithmetic (`CQ`). -/

/-- `cᴴ·T·c = Σ_{k,i ≤ p} c_i·conj(c_k)·T[k,i]` -/
def toepForm (r : Nat → K) (p : Nat) (c : Nat → K) : K :=
  sumRange (p + 1) fun k => sumRange (p + 1) fun i => c i *. conj (c k) *. toepEntry r k i

/-- zero-extended shifted sample `x[t−i]` -/
def shiftSig (x : Nat → K) (n t i : Nat) : K := if i ≤ t ∧ t - i < n then x (t - i) else zero

/-- output sample `t` of the FIR filter `c` on the zero-extended signal -/
def filtOut (x : Nat → K) (n p : Nat) (c : Nat → K) (t : Nat) : K :=
  sumRange (p + 1) fun i => c i *. shiftSig x n t i

/-- `(1/n)·Σ_{t<n+p} |Σ_{i≤p} c_i·x[t−i]|²` -/
def gramForm (x : Nat → K) (n p : Nat) (c : Nat → K) : K :=
  sumRange (n + p) (fun t => re (filtOut x n p c t *. conj (filtOut x n p c t))) /. ofNat n

/-- the prediction-error filter `[1, −a_1, …, −a_p]` of a returned coefficient list -/
def predErrFilter (ak : List K) : Nat → K :=
  fun i => if i = 0 then one else neg (ak.getD (i - 1) zero)

/-- left side of Yule–Walker equation `k` (1-based): `Σ_{i<p} T[k−1,i]·a_i` -/
def ywLhs (r : Nat → K) (p : Nat) (ak : List K) (k : Nat) : K :=
  sumRange p fun i => toepEntry r (k - 1) i *. ak.getD i zero

/-! ### exact complex rationals (`ℚ(i)`): the field operations of `Scalar`, exactly

`sqrtRe` and `phasor` are not rational operations; the ops that run at `CQ` (`gramq`, `ldq`) never
call them (placeholders `0` / `1`).  Division by zero is `0`, as in Mathlib's `ℂ`. -/
structure CQ where
  re : Rat
  im : Rat
deriving Inhabited

namespace CQ
def normSq (a : CQ) : Rat := a.re * a.re + a.im * a.im
end CQ

instance : Scalar CQ where
  add := fun a b => ⟨a.re + b.re, a.im + b.im⟩
  mul := fun a b => ⟨a.re * b.re - a.im * b.im, a.re * b.im + a.im * b.re⟩
  sub := fun a b => ⟨a.re - b.re, a.im - b.im⟩
  div := fun a b =>
    let d := CQ.normSq b
    ⟨(a.re * b.re + a.im * b.im) / d, (a.im * b.re - a.re * b.im) / d⟩
  neg := fun a => ⟨-a.re, -a.im⟩
  conj := fun a => ⟨a.re, -a.im⟩
  re := fun z => ⟨z.re, 0⟩
  zero := ⟨0, 0⟩
  one := ⟨1, 0⟩
  ofNat := fun n => ⟨(n : Rat), 0⟩
  sqrtRe := fun _ => ⟨0, 0⟩
  absGt := fun a b => CQ.normSq a > CQ.normSq b
  beq := fun a b => a.re == b.re && a.im == b.im
  phasor := fun _ _ _ => ⟨1, 0⟩

/-! ### line protocol -/

def fnOf (l : List CF) : Nat → CF := fun i => l.getD i ⟨0.0, 0.0⟩

def solveCF (T : List (List CF)) (y : List CF) : List CF := Mat.solveVec T y

def showEst (r : List CF × CF) : String := s!"ok {showCList r.1} {showCList [r.2]}"

/-- the first `order+1` autocorrelation lags of `x` (what `utils.autocorr(x)[:order+1]` holds) -/
def acLags (x : List CF) (order : Nat) : List CF :=
  let a := x.toArray                       -- O(1) indexing for the long signals
  let f : Nat → CF := fun i => a.getD i ⟨0.0, 0.0⟩
  (List.range (order + 1)).map fun k => autocorrDirect f x.length k

/-- complex rationals from interleaved integers (re, im, re, im, …) over a common denominator -/
def pairUpQ (den : Nat) : List Int → Option (List CQ)
  | [] => some []
  | a :: b :: rest => (pairUpQ den rest).map fun t => ⟨(a : Rat) / (den : Rat), (b : Rat) / (den : Rat)⟩ :: t
  | [_] => none

def parseCQList? (den : Nat) (s : String) : Option (List CQ) := (parseIntList? s).bind (pairUpQ den)

def showCQList (zs : List CQ) : String :=
  joinList (zs.foldr (fun z acc => showRat z.re :: showRat z.im :: acc) [])

def fnOfK (l : List K) : Nat → K :=
  let a := l.toArray
  fun i => a.getD i zero

/-- both sides of the Gram identity (`autocorr_toeplitz_psd`) for a signal, an order and a filter:
`(cᴴ·toeplitz(autocorr(x)[:p+1])·c, (1/N)·Σ_t |Σ_i c_i x[t−i]|²)` -/
def gramBoth (x : List K) (p : Nat) (c : List K) : K × K :=
  let xf := fnOfK x
  let cf := fnOfK c
  (toepForm (fun k => autocorrDirect xf x.length k) p cf, gramForm xf x.length p cf)

/-- `AR_est_LD(x, o)` in exact arithmetic, with the exact truth value of every link of the proved
chain: divisors real and positive (`DivisorsOK`, `ld_sigma_pos_of_toeplitz_pd`), `|κ_j|² < 1`,
`σ > 0` real, Yule–Walker residual exactly zero (`arLD_solves_YW`), `σ = R(0) − Σ a_k conj R(k)`
(`arLD_sigma`) and `σ = cᴴ·T·c` at the prediction-error filter (`arLD_sigma_is_form`) -/
def ldrReport (lags : List CQ) (o : Nat) : String :=
  let r := fnOfK lags
  let est := arLD r o
  let divOK := (List.range o).all fun j => let b := (ldLoop r (j + 1)).b; b.im == 0 && b.re > 0
  let kapOK := (List.range o).all fun j => CQ.normSq (ldLoop r (j + 1)).wk < 1
  let sigPos := est.2.im == 0 && est.2.re > 0
  let ywOK := (List.range o).all fun k => Scalar.beq (ywLhs r o est.1 (k + 1)) (r (k + 1))
  let errOK := Scalar.beq est.2 (r 0 -. sumRange o fun k => est.1.getD k zero *. conj (r (k + 1)))
  let formOK := Scalar.beq est.2 (toepForm r o (predErrFilter est.1))
  s!"ok {showCQList est.1} {showCQList [est.2]} {showBoolList [divOK, kapOK, sigPos, ywOK, errOK, formOK]}"

def ldqReport (x : List CQ) (o : Nat) : String :=
  let xf := fnOfK x
  ldrReport ((List.range (o + 1)).map fun k => autocorrDirect xf x.length k) o

def handle (args : List String) : String :=
  match args with
  | ["gram", p, xs, cs] => match p.toNat?, parseCList? xs, parseCList? cs with
    | some p, some x, some c =>
      let r := gramBoth x p c
      "ok " ++ showCList [r.1, r.2]
    | _, _, _ => "bad-op"
  | ["gramq", p, den, xs, cs] => match p.toNat?, den.toNat? with
    | some p, some den => match parseCQList? den xs, parseCQList? den cs with
      | some x, some c =>
        let r := gramBoth x p c
        "ok " ++ showCQList [r.1, r.2]
      | _, _ => "bad-op"
    | _, _ => "bad-op"
  | ["ldq", o, den, xs] => match o.toNat?, den.toNat? with
    | some o, some den => match parseCQList? den xs with
      | some x => if o = 0 ∨ x.length < o + 1 then "err IndexError" else ldqReport x o
      | none => "bad-op"
    | _, _ => "bad-op"
  | ["ldrq", o, den, rs] => match o.toNat?, den.toNat? with
    -- `AR_est_LD(None, o, rxx=r)` in exact arithmetic on a SUPPLIED sequence (structured exact autocovariances)
    | some o, some den => match parseCQList? den rs with
      | some r => if o = 0 ∨ r.length < o + 1 then "err IndexError" else ldrReport r o
      | none => "bad-op"
    | _, _ => "bad-op"
  | ["autocorr", nl, xs] => match nl.toNat?, parseCList? xs with
    | some nl, some x => "ok " ++ showCList ((acLags x (nl - 1)).take nl)
    | _, _ => "bad-op"
  | ["acopt", deb, nrm, alll, nl, xs] => match nl.toNat?, parseCList? xs with
    | some nl, some x =>
      let f := fnOfK x
      let n := x.length
      if alll = "1" then "ok " ++ showCList ((List.range (2 * n - 1)).map fun j => autocovAllLags (deb = "1") (nrm = "1") f n j)
      else "ok " ++ showCList ((List.range nl).map fun k => autocovOpt (deb = "1") (nrm = "1") f n k)
    | _, _ => "bad-op"
  | ["seq", o, calls, rs] => match o.toNat?, parseCList? rs with
    | some o, some r =>
      if o = 0 ∨ r.length < o + 1 then "err IndexError" else
      let cs := calls.toList.map fun ch => if ch = 'L' then EstCall.LD else EstCall.YW
      let res := runCalls solveCF o cs r
      "ok " ++ " ".intercalate (res.1.map fun e => showCList e.1 ++ " " ++ showCList [e.2]) ++ " " ++ showCList res.2
    | _, _ => "bad-op"
  | ["seqe", calls, rs] => match parseCList? rs, (calls.splitOn ",").mapM (fun (t : String) =>
        match t.toList with
        | ch :: ds => (String.ofList ds).toNat?.map fun o => (if ch = 'L' then EstCall.LD else EstCall.YW, o)
        | [] => none) with
    | some r, some cs =>
      -- calls with their own orders (>= 1), some refused (order beyond the sequence): `E` for a refused call
      let res := runCallsE solveCF cs r
      "ok " ++ " ".intercalate (res.1.map fun e => match e with
        | some e => showCList e.1 ++ " " ++ showCList [e.2]
        | none => "E") ++ " " ++ showCList res.2
    | _, _ => "bad-op"
  | ["ld", o, rs] => match o.toNat?, parseCList? rs with
    | some o, some r => if o = 0 ∨ r.length < o + 1 then "err IndexError" else showEst (arLD (fnOf r) o)
    | _, _ => "bad-op"
  | ["ldx", o, xs] => match o.toNat?, parseCList? xs with
    | some o, some x => if o = 0 ∨ x.length < o + 1 then "err IndexError" else showEst (arLD (fnOf (acLags x o)) o)
    | _, _ => "bad-op"
  | ["yw", o, rs] => match o.toNat?, parseCList? rs with
    | some o, some r => if o = 0 ∨ r.length < o + 1 then "err ValueError" else showEst (arYW solveCF (fnOf r) o)
    | _, _ => "bad-op"
  | ["ywx", o, xs] => match o.toNat?, parseCList? xs with
    | some o, some x => if o = 0 ∨ x.length < o + 1 then "err ValueError" else showEst (arYW solveCF (fnOf (acLags x o)) o)
    | _, _ => "bad-op"
  | ["psd", one, nf, sg, aks] => match nf.toNat?, parseCList? sg, parseCList? aks with
    | some nf, some [sg], some ak =>
      let os := one = "1"
      let n := realN nf os
      let incl := Nitime.Generated.FreqResponse.includeNyquist
      let w := (List.range n).map fun k => CF.gridWI incl (!os) k n
      "ok " ++ showFloatList w ++ " " ++ showFloatList ((arPsd incl ak sg nf os).map CF.re)
    | _, _, _ => "bad-op"
  | ["gen", d, sg, cs, vs] => match d.toNat?, parseCList? sg, parseCList? cs, parseCList? vs with
    | some d, some [sg], some c, some v =>
      let r := arGenerator sg c d v
      "ok " ++ showCList r.1 ++ " " ++ showCList r.2
    | _, _, _, _ => "bad-op"
  | _ => "bad-op"

end Nitime.C10
