/-
C10 — executable model of the univariate AR estimators and their spectrum / simulator
(`nitime/algorithms/autoregressive.py`: AR_est_YW, AR_est_LD, AR_psd; `nitime/utils.py`:
autocorr, ar_generator; `nitime/algorithms/spectral.py`: freq_response).  Core Lean only.

Every function is written once over `Scalar K`; the driver runs `K = CF` (complex binary64),
`Props/C10.lean` proves the theorems for `K = ℂ` of the same definitions.

External calls, by documented semantics: `fftconvolve` (autocorr) = the direct lagged sum;
`scipy.linalg.toeplitz(c)` = Hermitian Toeplitz (first row `conj c`); `scipy.linalg.solve` =
a parameter `solve` (the driver plugs in `GMat.solve` = Gauss–Jordan inverse times right-hand side,
proved to satisfy the contract whenever it returns: `Lemmas/GaussJordan.lean`);
`scipy.signal.freqz(b, a, worN=n, whole)` = ratio of the two polynomials in `exp(-1j w_k)`,
`w_k = k·(π or 2π)/n`; `scipy.signal.lfilter(b, a, v)` = direct-form recursion.
-/
import Nitime.Model.ARBase
import Nitime.Generated.FreqResponse

namespace Nitime.C10
open Nitime.AR Nitime.AR.Scalar Nitime.Proto

variable {K : Type} [Scalar K]

/-- `utils.autocorr(x)[k]` for a length-`n` signal: `(1/n) Σ_m x[m+k]·conj x[m]` -/
def autocorrDirect (x : Nat → K) (n k : Nat) : K :=
  sumRange (n - k) (fun m => x (m + k) *. conj (x m)) /. ofNat n

/-! ### AR_est_LD -/

/-- loop state: `w[1..p]`, the code's `b`, and `w_k` -/
structure LDSt (K : Type) where
  w : List K
  b : K
  wk : K

/-- `b = rxx[0].real; w_k = rxx[1] / b; w[1] = w_k` -/
def ldInit (r : Nat → K) : LDSt K :=
  let b := re (r 0)
  let wk := r 1 /. b
  ⟨[wk], b, wk⟩

/-- body of `while p <= order` -/
def ldStep (r : Nat → K) (p : Nat) (s : LDSt K) : LDSt K :=
  -- b *= 1 - (w_k * w_k.conj()).real
  let b := s.b *. (one -. re (s.wk *. conj s.wk))
  -- w_k = (rxx_m[p] - (w[1:p] * rxx_m[1:p][::-1]).sum()) / b
  let acc := sumRange (p - 1) fun i => s.w.getD i zero *. r (p - 1 - i)
  let wk := (r p -. acc) /. b
  -- w[1:p] = w[1:p] - w_k * w[1:p][::-1].conj();  w[p] = w_k
  let w := (List.range (p - 1)).map
      (fun i => s.w.getD i zero -. wk *. conj (s.w.getD (p - 2 - i) zero)) ++ [wk]
  ⟨w, b, wk⟩

/-- state when the loop has finished order `p ≥ 1` -/
def ldLoop (r : Nat → K) : Nat → LDSt K
  | 0 => ldInit r
  | 1 => ldInit r
  | p + 2 => ldStep r (p + 2) (ldLoop r (p + 1))

/-- `AR_est_LD(x, order, rxx=r)`: `(w[1:], b)` after the final `b *= 1 - |w_k|²` -/
def arLD (r : Nat → K) (order : Nat) : List K × K :=
  let s := ldLoop r order
  (s.w, s.b *. (one -. re (s.wk *. conj s.wk)))

/-! ### AR_est_YW -/

/-- entry (k, i) of `toeplitz(r[:p])`: `r[k-i]` on and below the diagonal, `conj r[i-k]` above -/
def toepEntry (r : Nat → K) (k i : Nat) : K := if i ≤ k then r (k - i) else conj (r (i - k))

def toeplitzH (r : Nat → K) (p : Nat) : List (List K) :=
  (List.range p).map fun k => (List.range p).map fun i => toepEntry r k i

/-- `AR_est_YW(x, order, rxx=r)` with `linalg.solve` a parameter -/
def arYW (solve : List (List K) → List K → List K) (r : Nat → K) (order : Nat) : List K × K :=
  let T := toeplitzH r order
  let y := (List.range order).map fun k => r (k + 1)
  let ak := solve T y
  -- sigma_v = r_m[0].real - np.dot(r_m[1:].conj(), ak).real
  let sigma := re (r 0) -. re (sumRange order fun k => conj (r (k + 1)) *. ak.getD k zero)
  (ak, sigma)

/-! ### AR_psd / freq_response -/

/-- `scipy.signal.freqz(b, a, worN=n, whole=whole, include_nyquist=incl)[1]` -/
def freqz (incl : Bool) (b a : List K) (whole : Bool) (n : Nat) : List K :=
  (List.range n).map fun k =>
    polyEval b (gridPhasor incl whole k n) /. polyEval a (gridPhasor incl whole k n)

/-- number of grid points `freq_response` asks for — GENERATED from the source -/
abbrev realN := Nitime.Generated.FreqResponse.realN

/-- `AR_psd(ak, sigma_v, n_freqs, sides)[1]`; `incl` = the `include_nyquist` option
`freq_response` passes to `freqz` (generated: `Generated.FreqResponse.includeNyquist`) -/
def arPsd (incl : Bool) (ak : List K) (sigma : K) (nFreqs : Nat) (onesided : Bool) : List K :=
  let hw := freqz incl [sqrtRe sigma] (one :: ak.map neg) (!onesided) (realN nFreqs onesided)
  hw.map fun h =>
    let p := re (h *. conj h)
    if onesided then ofNat 2 *. p else p

/-! ### ar_generator -/

/-- `lfilter([b0], a, v)` with `a[0] = 1`: `u[n] = b0·v[n] − Σ_{k≥1} a[k]·u[n−k]` -/
def lfilter1 (b0 : K) (a : List K) (v : List K) : List K :=
  v.foldl (fun (u : List K) vn =>
    let n := u.length
    let fb := sumRange (min n (a.length - 1)) fun k => a.getD (k + 1) zero *. u.getD (n - 1 - k) zero
    u ++ [b0 *. vn -. fb]) []

/-- `ar_generator(N, sigma, coefs, drop_transients, v)` with `v` supplied
(`len v = N + drop_transients`): returns `(u[drop:], v[drop:])` -/
def arGenerator (sigma : K) (coefs : List K) (drop : Nat) (v : List K) : List K × List K :=
  let u := lfilter1 (sqrtRe sigma) (one :: coefs.map neg) v
  (u.drop drop, v.drop drop)

/-! ### line protocol -/

def fnOf (l : List CF) : Nat → CF := fun i => l.getD i ⟨0.0, 0.0⟩

def solveCF (T : List (List CF)) (y : List CF) : List CF := Mat.solveVec T y

def showEst (r : List CF × CF) : String := s!"ok {showCList r.1} {showCList [r.2]}"

/-- the first `order+1` autocorrelation lags of `x` (what `utils.autocorr(x)[:order+1]` holds) -/
def acLags (x : List CF) (order : Nat) : List CF :=
  let a := x.toArray                       -- O(1) indexing for the long signals
  let f : Nat → CF := fun i => a.getD i ⟨0.0, 0.0⟩
  (List.range (order + 1)).map fun k => autocorrDirect f x.length k

def handle (args : List String) : String :=
  match args with
  | ["autocorr", nl, xs] => match nl.toNat?, parseCList? xs with
    | some nl, some x => "ok " ++ showCList ((acLags x (nl - 1)).take nl)
    | _, _ => "bad-op"
  | ["ld", o, rs] => match o.toNat?, parseCList? rs with
    | some o, some r => if o = 0 ∨ r.length < o + 1 then "err IndexError" else showEst (arLD (fnOf r) o)
    | _, _ => "bad-op"
  | ["ldx", o, xs] => match o.toNat?, parseCList? xs with
    | some o, some x => if o = 0 ∨ x.length < o + 1 then "err IndexError" else showEst (arLD (fnOf (acLags x o)) o)
    | _, _ => "bad-op"
  | ["yw", o, rs] => match o.toNat?, parseCList? rs with
    | some o, some r => if o = 0 ∨ r.length < o + 1 then "err ValueError" else showEst (arYW solveCF (fnOf r) o)
    | _, _ => "bad-op"
  | ["ywx", o, xs] => match o.toNat?, parseCList? xs with
    | some o, some x => if o = 0 ∨ x.length < o + 1 then "err ValueError" else showEst (arYW solveCF (fnOf (acLags x o)) o)
    | _, _ => "bad-op"
  | ["psd", one, nf, sg, aks] => match nf.toNat?, parseCList? sg, parseCList? aks with
    | some nf, some [sg], some ak =>
      let os := one = "1"
      let n := realN nf os
      let incl := Nitime.Generated.FreqResponse.includeNyquist
      let w := (List.range n).map fun k => CF.gridWI incl (!os) k n
      "ok " ++ showFloatList w ++ " " ++ showFloatList ((arPsd incl ak sg nf os).map CF.re)
    | _, _, _ => "bad-op"
  | ["gen", d, sg, cs, vs] => match d.toNat?, parseCList? sg, parseCList? cs, parseCList? vs with
    | some d, some [sg], some c, some v =>
      let r := arGenerator sg c d v
      "ok " ++ showCList r.1 ++ " " ++ showCList r.2
    | _, _, _, _ => "bad-op"
  | _ => "bad-op"

end Nitime.C10
