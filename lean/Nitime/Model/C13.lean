/-
C13 — driver side of the `OneTime` machine (Model/OneTime.lean) run on the GENERATED class tables
(Generated/Analyzers.lean) with a symbolic semantics: values are terms (strings) built from the
uninterpreted `F`, `W`, `C`, so two reads agree in the model iff they agree for every `F`.

ops (first token `C13` already stripped):
  names <Class>                      -> getters=a,b;slots=…;flags=…
  hist <Class> <cfg> <history> [raising]  (raising = getters that raise instead of returning)
                                     -> one record per read, `|`-separated:
        <g>:f=<getters that ran>:w=<slots whose value changed>:c=<cached results rewritten>:i=<input rewritten 0/1>:s=<1 value equals that of a fresh object, 0 not, r recursion limit>
  hist2 <Class> <cfg> <objs> <history> -> as hist, for two objects (0/1) of the class read interleaved
  verdict <Class> <cfg>              -> ni=<0/1>   (noInterferenceB of the resolved table)
  session <Class> <cfg> <kinds> <ops> <raising> / two <mode> <classes>   -> Model/Sessions.lean (process-level sessions)
`cfg` = ids of the flags that hold on the constructed object (`-` = none).
-/
import Nitime.Model.OneTime
import Nitime.Model.Proto
import Nitime.Generated.Analyzers
import Nitime.Model.Sessions

namespace Nitime.C13
open Nitime.OneTime Nitime.Proto

def joinS (l : List String) : String := ",".intercalate l

def showOpt : Option String → String
  | none => "None"
  | some s => s

/-- symbolic semantics: every uninterpreted function builds a term -/
def symSemR (raising : List Nat) : Sem String String :=
  { raises := fun g _ _ _ => raising.contains g
    F := fun g dvs pvs x => s!"F{g}({joinS dvs}|{joinS (pvs.map showOpt)}|{showOpt x})"
    W := fun g p dvs pvs x => s!"W{g}_{p}({joinS dvs}|{joinS (pvs.map showOpt)}|{showOpt x})"
    C := fun g k v => s!"C{g}_{k}({v})"
    CI := fun g x => s!"CI{g}({x})"
    D := fun p x => s!"D{p}({x})" }

/-- no getter raises -/
def symSem : Sem String String := symSemR []

def findSpec? (cls : String) : Option AnalyzerSpec :=
  Generated.allSpecs.find? (·.cls == cls)

/-- constructor parameters: a slot is missing / None exactly when its `none:<slot>` flag holds -/
def initParams (sp : AnalyzerSpec) (cfg : List Nat) : Nat → Option String := fun p =>
  match sp.slotNames[p]? with
  | none => some s!"p{p}"
  | some nm =>
    match sp.flag? ("none:" ++ nm) with
    | some f => if cfg.contains f then none else some s!"p{p}"
    | none => some s!"p{p}"

def fresh (sp : AnalyzerSpec) (cfg : List Nat) (x : String) : St String String :=
  construct symSem sp.initDerived (initParams sp cfg) x

structure StepObs where
  g : Nat
  fired : List Nat
  pw : List Nat
  cl : List Nat
  inp : Bool
  same : String

def observe (sem : Sem String String) (sp : AnalyzerSpec) (spec : Spec) (s0 : St String String) (g : Nat)
    (s : St String String) : St String String × StepObs :=
  let (s', r) := read spec sem g s
  let ng := sp.getters.length
  let fired := (List.range ng).filter fun k => s'.count k > s.count k
  let pw := (List.range sp.slotNames.length).filter fun p => s'.params p != s.params p
  let cl := (List.range ng).filter fun k => (s.cache k).isSome && s'.cache k != s.cache k
  let same := match r with
    | none => "r"
    | some v => if (read spec sem g s0).2 == some v then "1" else "0"
  (s', { g := g, fired := fired, pw := pw, cl := cl, inp := s'.input != s.input, same := same })

def StepObs.show (o : StepObs) : String :=
  s!"{o.g}:f={showNatList o.fired}:w={showNatList o.pw}:c={showNatList o.cl}:i={if o.inp then 1 else 0}:s={o.same}"

def runObs (sem : Sem String String) (sp : AnalyzerSpec) (spec : Spec) (s0 : St String String) :
    List Nat → St String String → List StepObs → St String String × List StepObs
  | [], s, acc => (s, acc.reverse)
  | g :: h, s, acc => let (s', o) := observe sem sp spec s0 g s; runObs sem sp spec s0 h s' (o :: acc)

def hist (sp : AnalyzerSpec) (cfg h : List Nat) (raising : List Nat := []) : String :=
  let spec := sp.resolve cfg
  let s0 := fresh sp cfg "x"
  let (_, obs) := runObs (symSemR raising) sp spec s0 h s0 []
  if obs.isEmpty then "-" else "|".intercalate (obs.map StepObs.show)

/-- two live objects of the same class (same configuration, different inputs), reads interleaved:
    the machine has no state outside the object, so each object runs on its own -/
def runObs2 (sem : Sem String String) (sp : AnalyzerSpec) (spec : Spec) (f0 f1 : St String String) :
    List (Nat × Nat) → St String String → St String String → List StepObs → List StepObs
  | [], _, _, acc => acc.reverse
  | (o, g) :: h, sa, sb, acc =>
    if o = 0 then let (s', ob) := observe sem sp spec f0 g sa; runObs2 sem sp spec f0 f1 h s' sb (ob :: acc)
    else let (s', ob) := observe sem sp spec f1 g sb; runObs2 sem sp spec f0 f1 h sa s' (ob :: acc)

def hist2 (sp : AnalyzerSpec) (cfg objs h : List Nat) (raising : List Nat := []) : String :=
  let spec := sp.resolve cfg
  let f0 := fresh sp cfg "x"
  let f1 := fresh sp cfg "y"
  let obs := runObs2 (symSemR raising) sp spec f0 f1 (objs.zip h) f0 f1 []
  if obs.isEmpty then "-" else "|".intercalate (obs.map StepObs.show)

def handleCore (args : List String) : String :=
  match args with
  | ["hist2", cls, cfg, objs, h, r] =>
    match findSpec? cls, parseNatList? cfg, parseNatList? objs, parseNatList? h, parseNatList? r with
    | some sp, some cfg, some objs, some h, some r => hist2 sp cfg objs h r
    | none, _, _, _, _ => "unknown-class"
    | _, _, _, _, _ => "bad-op"
  | ["hist", cls, cfg, h, r] => match findSpec? cls, parseNatList? cfg, parseNatList? h, parseNatList? r with
    | some sp, some cfg, some h, some r => hist sp cfg h r
    | none, _, _, _ => "unknown-class"
    | _, _, _, _ => "bad-op"
  | ["hist2", cls, cfg, objs, h] =>
    match findSpec? cls, parseNatList? cfg, parseNatList? objs, parseNatList? h with
    | some sp, some cfg, some objs, some h => hist2 sp cfg objs h
    | none, _, _, _ => "unknown-class"
    | _, _, _, _ => "bad-op"
  | ["names", cls] => match findSpec? cls with
    | some sp => s!"getters={joinS sp.getterNames};slots={joinS sp.slotNames};flags={joinS sp.flagNames}"
    | none => "unknown-class"
  | ["hist", cls, cfg, h] => match findSpec? cls, parseNatList? cfg, parseNatList? h with
    | some sp, some cfg, some h => hist sp cfg h
    | none, _, _ => "unknown-class"
    | _, _, _ => "bad-op"
  | ["verdict", cls, cfg] => match findSpec? cls, parseNatList? cfg with
    | some sp, some cfg =>
      s!"ni={if noInterferenceB (sp.resolve cfg) (sp.present cfg) then 1 else 0}"
    | none, _ => "unknown-class"
    | _, _ => "bad-op"
  | _ => "bad-op"

/-- process-level sessions (`session …`, `two …`: Model/Sessions.lean) first, then the single-object ops -/
def handle (args : List String) : String :=
  match Nitime.OneTime.Sessions.handleSession args with
  | some r => r
  | none => handleCore args

end Nitime.C13
