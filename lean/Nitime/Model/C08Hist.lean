/-
C08 — object model of the one-time getters of `MTCoherenceAnalyzer` that the read histories of the correspondence
exercise: `.coherence` (computed once, the ARRAY OBJECT is kept and handed out) and `.confidence_interval`, which reads
`self.coherence`, passes it through `tsu.normalize_coherence(x, dof, copy)` (`arctanh`, scale) and builds the interval
from the transformed values.  Arrays live in a heap (address ↦ contents); a getter hands out an ADDRESS.
`copy = true` is the code that exists (`normalize_coherence(self.coherence, 2*df-2)`); `copy = false` is the in-place
variant (`copy=False`) of the seeded change C08-9.  Core Lean only; theorems in `Lemmas/C08Hist.lean`.
-/
namespace Nitime.C08.Hist

structure St (V : Type) where
  heap : List (List V)
  coh : Option Nat
  ci : Option Nat

inductive Rd where
  | coherence
  | confidence_interval
deriving DecidableEq, Repr

section
variable {V : Type}

def rd (h : List (List V)) (a : Nat) : List V := (h[a]?).getD []

def St.init : St V := ⟨[], none, none⟩

/-- `setattr_on_read` of `.coherence`: computed (`c0`) and stored on the first read, the stored object afterwards -/
def getCoh (c0 : List V) (s : St V) : St V × Nat :=
  match s.coh with
  | some a => (s, a)
  | none => ({ s with heap := s.heap ++ [c0], coh := some s.heap.length }, s.heap.length)

/-- `normalize_coherence(x, dof, copy)`: `g` = `sqrt(dof)·arctanh`; a new array when `copy`, the argument itself otherwise -/
def normalize (copy : Bool) (g : V → V) (h : List (List V)) (a : Nat) : List (List V) × Nat :=
  if copy then (h ++ [(rd h a).map g], h.length) else (h.set a ((rd h a).map g), a)

/-- `.confidence_interval`: `F` = everything after the normalisation (jackknife limits, back-transform, `ub − lb`) -/
def getCi (copy : Bool) (g : V → V) (F : List V → List V) (c0 : List V) (s : St V) : St V × Nat :=
  match s.ci with
  | some a => (s, a)
  | none =>
    let s1 := (getCoh c0 s).1
    let a := (getCoh c0 s).2
    let hx := normalize copy g s1.heap a
    ({ heap := hx.1 ++ [F (rd hx.1 hx.2)], coh := s1.coh, ci := some hx.1.length }, hx.1.length)

def read (copy : Bool) (g : V → V) (F : List V → List V) (c0 : List V) (s : St V) : Rd → St V × Nat
  | .coherence => getCoh c0 s
  | .confidence_interval => getCi copy g F c0 s

/-- a history of reads: for every read the address handed out and what it held at that moment; the final state -/
def runReads (copy : Bool) (g : V → V) (F : List V → List V) (c0 : List V) :
    St V → List Rd → List (Rd × Nat × List V) × St V
  | s, [] => ([], s)
  | s, r :: rs =>
    let p := read copy g F c0 s r
    let q := runReads copy g F c0 p.1 rs
    ((r, p.2, rd p.1.heap p.2) :: q.1, q.2)

/-- the value a read hands out in a fresh analyzer: a pure function of the coherence -/
def pureValue (g : V → V) (F : List V → List V) (c0 : List V) : Rd → List V
  | .coherence => c0
  | .confidence_interval => F (c0.map g)

end
end Nitime.C08.Hist
