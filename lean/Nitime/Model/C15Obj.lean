/-
C15, round 2 — analyzers as OBJECTS whose one-time results are built by a per-item loop that may fail part-way, and
seed/target correspondence as a function of VALUES (core Lean only).

Part 1 (`Nitime.C15.Obj`).  `GrangerAnalyzer._model` fits one model per pair of `ij` (`fit_model` may raise:
order estimation does not converge, NaN / flat channel, pair index outside the data); `SparseCoherenceAnalyzer`,
`SeedCoherenceAnalyzer.coherency` (per seed), the file reader (per file / per ROI) have the same shape: a loop over
items inside a `setattr_on_read` getter.  `BaseAnalyzer.set_input` calls `reset()`, which deletes the ONE-TIME
attributes from the instance dict — and nothing else.

* `St`                 the object: current input, the one-time cache (`_model`), and `kept` = whatever a getter left in a
                       PLAIN instance attribute (reset() never clears plain attributes).
* `Loop.localDict`     today's code: the loop fills a local dict; it becomes the cache only when every item succeeded.
* `Loop.keptPartial`   NOT today's code: the dict under construction lives in a plain instance attribute, items already in
                       it are skipped, it is deleted when the loop completes (the "resume after a failure" discipline).
* `run` / `ref`        a history of `setInput` / `read` on one object; the reference answers every read with the
                       all-or-nothing loop on the input held at that time.
* `codeVouched`        GENERATED (`Generated/AnalyzerState.lean`, from nitime/analysis/*.py on every run): no getter or
                       other method outside `__init__` / `set_input` stores a plain attribute on `self`, touches
                       `self.__dict__` / `vars(self)` / `setattr(self, …)`, and every `set_input` override resets first.

Part 2 (`Nitime.C15.Seed`).  `SeedCoherenceAnalyzer.coherency` / `SeedCorrelationAnalyzer.corrcoef`: for every seed row,
`pair seedRow targetRow` over all target rows.  A seed array is VALUES plus a memory descriptor (`Mem`): its own buffer,
or a view of the target's buffer starting at row `first` with row step `step`.
* `Variant.values`     today's code: the descriptor is never looked at.
* `Variant.byAddress`  NOT today's code: when the seed is a view of the target, seed i takes the cached transform of
                       target row `first + i` (consecutive rows assumed).
* `codeVouched`        GENERATED: no analyzer reads `.base`, `.strides`, `__array_interface__`, `.ctypes`, `shares_memory`,
                       `may_share_memory`, `byte_bounds`, `id(…)` or compares arrays with `is`.
-/
import Nitime.Generated.AnalyzerState

namespace Nitime.C15.Obj

inductive Loop where
  | localDict
  | keptPartial
  deriving DecidableEq, Repr

structure St (D K R : Type) where
  input : D
  cache : Option (List (K × R))
  kept : Option (List (K × R))

inductive Op (D : Type) where
  | setInput (d : D)
  | read

section
variable {D K R : Type} [DecidableEq K] (fit : D → K → Option R) (items : D → List K)

/-- the all-or-nothing loop: `for k in items: model[k] = fit(data, k)`; `none` = the call raised -/
def fitAll (d : D) : List K → Option (List (K × R))
  | [] => some []
  | k :: ks =>
    match fit d k with
    | none => none
    | some r => (fitAll d ks).map ((k, r) :: ·)

/-- the loop of the `keptPartial` discipline on the dict `acc` held in a plain attribute: items already present are
skipped; returns the dict as it stands when the loop stops and whether it completed -/
def fitKeep (d : D) : List K → List (K × R) → List (K × R) × Bool
  | [], acc => (acc, true)
  | k :: ks, acc =>
    if (acc.lookup k).isSome then fitKeep d ks acc else
    match fit d k with
    | none => (acc, false)
    | some r => fitKeep d ks (acc ++ [(k, r)])

def construct (d : D) : St D K R := ⟨d, none, none⟩

/-- `BaseAnalyzer.set_input`: `reset()` removes the one-time attributes; plain attributes stay -/
def setInput (d : D) (s : St D K R) : St D K R := ⟨d, none, s.kept⟩

/-- what the projections (`order`, `error_cov`, `causality_xy[i, j]`, …) show for the items of the current input -/
def view (ks : List K) (m : List (K × R)) : List (K × Option R) := ks.map fun k => (k, m.lookup k)

/-- reading the one-time attribute: `none` = raised -/
def read (v : Loop) (s : St D K R) : St D K R × Option (List (K × Option R)) :=
  match s.cache with
  | some m => (s, some (view (items s.input) m))
  | none =>
    match v with
    | .localDict =>
      match fitAll fit s.input (items s.input) with
      | some m => ({ s with cache := some m }, some (view (items s.input) m))
      | none => (s, none)
    | .keptPartial =>
      match fitKeep fit s.input (items s.input) (s.kept.getD []) with
      | (m, true) => ({ s with cache := some m, kept := none }, some (view (items s.input) m))
      | (m, false) => ({ s with kept := some m }, none)

def step (v : Loop) (s : St D K R) : Op D → St D K R × Option (Option (List (K × Option R)))
  | .setInput d => (setInput d s, none)
  | .read => let r := read fit items v s; (r.1, some r.2)

/-- a history on ONE object: what every operation returned (`none` for `set_input`, `some none` for a read that raised) -/
def run (v : Loop) : List (Op D) → St D K R → List (Option (Option (List (K × Option R))))
  | [], _ => []
  | o :: os, s => let r := step fit items v s o; r.2 :: run v os r.1

/-- the reference: every read answered by the algorithm layer on the input held at that time -/
def ref : List (Op D) → D → List (Option (Option (List (K × Option R))))
  | [], _ => []
  | .setInput d :: os, _ => none :: ref os d
  | .read :: os, d => some ((fitAll fit d (items d)).map (view (items d))) :: ref os d

end

/-- plain attribute stores in getters that today's code has and that carry nothing from one input to the next:
`FilterAnalyzer.filtered_fourier` replaces `ub=None` by the Nyquist frequency (a parameter default; the class has no
`set_input`); `SpectralAnalyzer.cpsd` rebinds `welch_method` to `self.method` and re-stamps `Fs` from the CURRENT input on
every read (the Fs sites are `Generated/FsBindings.lean`) -/
def allowedPlainStores : List String :=
  ["FilterAnalyzer.filtered_fourier: store self.ub", "SpectralAnalyzer.cpsd: store self.welch_method"]

/-- is the `localDict` reading vouched for by the source? (GENERATED) -/
def codeVouched : Bool :=
  Nitime.Generated.AnalyzerState.plainStores.all (allowedPlainStores.contains ·) &&
  Nitime.Generated.AnalyzerState.setInputWithoutReset.isEmpty

/-! ### line protocol: `objhist <nitems> <fails> <ops>`
inputs are numbered 0, 1, …; items 0 … n-1; `fails` = `d:k,d:k` (`-` for none): `fit d k` raises; `ops` = `r` / `s<d>`,
the object is constructed on input 0.  Answer: per read `err` or `d:k,…` = for every item, the input whose fit it shows. -/

def parseFails (s : String) : List (Nat × Nat) :=
  if s = "-" then [] else
  (s.splitOn ",").filterMap fun t =>
    match t.splitOn ":" with
    | [a, b] => match a.toNat?, b.toNat? with
      | some x, some y => some (x, y)
      | _, _ => none
    | _ => none

def parseOps (s : String) : List (Op Nat) :=
  (s.splitOn ",").filterMap fun t =>
    if t = "r" then some .read
    else if t.startsWith "s" then (t.drop 1).toNat?.map .setInput
    else none

def showRead : Option (Option (List (Nat × Option (Nat × Nat)))) → Option String
  | none => none
  | some none => some "err"
  | some (some l) => some (",".intercalate (l.map fun kr =>
      match kr.2 with
      | some (d, k) => toString d ++ ":" ++ toString k
      | none => "?:" ++ toString kr.1))

/-- the provenance instance: a fit is tagged with (input, item) -/
def tagFit (fails : List (Nat × Nat)) (d k : Nat) : Option (Nat × Nat) :=
  if fails.contains (d, k) then none else some (d, k)

def handleHist (v : Loop) (n : String) (fails ops : String) : String :=
  if !codeVouched then "err analyzer-keeps-plain-state-or-set_input-does-not-reset" else
  match n.toNat? with
  | none => "err parse"
  | some n =>
    let outs := run (tagFit (parseFails fails)) (fun _ => List.range n) v (parseOps ops) (construct 0)
    "ok " ++ " ; ".intercalate (outs.filterMap showRead)

end Nitime.C15.Obj

namespace Nitime.C15.Seed

/-- where a seed array lives: its own buffer, or a view of the target's buffer from row `first` with row step `step` -/
inductive Mem where
  | own
  | viewOf (first : Nat) (step : Int)
  deriving DecidableEq, Repr

inductive Variant where
  | values
  | byAddress
  deriving DecidableEq, Repr

section
variable {V C : Type} (pair : V → V → C)

/-- the dense (all-to-all) result on the target's rows -/
def dense (target : List V) : List (List C) := target.map fun s => target.map (pair s)

/-- the analyzer: seed rows (values), their memory descriptor, the target rows -/
def seedResult (v : Variant) (seed : List V) (mem : Mem) (target : List V) : List (List C) :=
  match v, mem with
  | .byAddress, .viewOf first _ =>
    (List.range seed.length).map fun i =>
      match target[first + i]? with
      | some s => target.map (pair s)
      | none => []
  | _, _ => seed.map fun s => target.map (pair s)

end

def codeVouched : Bool := Nitime.Generated.AnalyzerState.memoryProbes.isEmpty

/-! ### line protocol: `seedrows <ntarget> <idx,…> <own | view:first:step>`: the seed rows are the target rows `idx`;
answer = for every seed row the target row whose dense result it must show -/

def parseMem (s : String) : Mem :=
  match s.splitOn ":" with
  | ["view", a, b] =>
    match a.toNat?, b.toInt? with
    | some x, some y => .viewOf x y
    | _, _ => .own
  | _ => .own

def handleSeed (v : Variant) (n idx mem : String) : String :=
  if !codeVouched then "err analyzer-probes-memory-layout" else
  match n.toNat? with
  | none => "err parse"
  | some n =>
    let target := List.range n
    let seed := (idx.splitOn ",").filterMap String.toNat?
    -- `pair s t = s`: the result row of a seed shows which VALUE it was computed from
    let res := seedResult (fun s (_ : Nat) => s) v seed (parseMem mem) target
    "ok " ++ ",".intercalate (res.map fun row => match row.head? with | some s => toString s | none => "?")

end Nitime.C15.Seed

namespace Nitime.C15.Shift
/-! `SpectralAnalyzer.spectrum_fourier`, complex branch: `f[k] = (k - n//2) * Fs / n` and `fftshift(fft(data))` on the time axis -/

/-- `np.fft.fftshift(X)[k] = X[fftshiftSrc n k]` (roll by `n/2`) -/
def fftshiftSrc (n k : Nat) : Nat := (k + (n - n / 2)) % n
/-- `np.fft.ifftshift(X)[k] = X[ifftshiftSrc n k]` (roll by `-(n/2)`) -/
def ifftshiftSrc (n k : Nat) : Nat := (k + n / 2) % n
/-- the DFT bin that the label `f[k] = (k - n//2) * Fs / n` names: `(k - n//2) mod n` -/
def labelBin (n k : Nat) : Nat := (((k : Int) - ((n / 2 : Nat) : Int)) % (n : Int)).toNat

/-- is the fftshift reading vouched for by the source? (GENERATED: every shift call of the analyzers is `fftshift`) -/
def codeVouched : Bool :=
  Nitime.Generated.AnalyzerState.shiftCalls.all fun c => c.2 == "fftshift"

/-- `shiftsrc <n>`: for every output position the DFT bin it shows -/
def handleShift (n : String) : String :=
  if !codeVouched then "err spectrum-shift-not-fftshift" else
  match n.toNat? with
  | none => "err parse"
  | some n => "ok " ++ ",".intercalate ((List.range n).map fun k => toString (fftshiftSrc n k))

end Nitime.C15.Shift
