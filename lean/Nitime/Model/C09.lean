/-
C09 — the FFT cache (`cache_fft`, `cache_to_*`, Sparse/SeedCoherenceAnalyzer): executable driver of
the cache model in `CohBase.lean` (instance `Cx`).  The cache is an optimisation whose contract is
equality with the dense Welch path (theorems in `Props/C09.lean`).

Line protocol (after the property id):
  cache <what> <NFFT> <noverlap|dcache> <Fs> <win> <scale_by_freq 0/1> <prefer_speed 0/1> <lb> <ub> <ij> <chan0> …
      what ∈ freqs | coherency | psd | relphase | phase ;  ij = `i:j;i:j;…`
  seed <NFFT> <noverlap|dcache> <Fs> <win> <sbf> <psm> <lb> <ub> <nseed> <seed chans…> <target chans…>
      nseed = 0 means a 1-d seed (one channel, result squeezed)
  dense <NFFT> <noverlap|dfunc> <Fs> <win> <lb> <ub> <ij> <chan0> …    (coherency through welchBin + coherencySpec,
      restricted to the band the dense frequency grid selects; used to run the refinement on concrete inputs)
  outhist <cache_to_psd|cache_to_phase|cache_to_relative_phase|cache_to_coherency> <shape key>:<value id> …
      a history of queries of ONE cache whose results the caller keeps; the output array is kept with the cache or allocated
      per call as `Generated.CacheOut` says of the current source; answer: `<array id>=<value id it holds at the END>` per query
  sess <user Fs p/q|none> <rate0 p/q> <ev> …   SparseCoherenceAnalyzer session, `set_input` body = `Generated.SetInput.sparse`:
      `s<rate p/q>:<refused 0|1>:<series id>`, `f` (read a result computed with method['Fs']), `r` reset();
      answer per read: `<id of the series held>@<the rate used, p/q>`
  keyed <cache_fft|cache_to_psd|cache_to_phase> <set iteration order c,c,…> <ij>   the channel bookkeeping (`Model/C09Keys.lean`) with the
      key / fill orderings `Generated.CacheKeys` extracted from the current source; the iteration order of the channel set is data.
      answer: `<key>=<row of the recording whose value lies under that key>` per requested channel, ascending
-/
import Nitime.Model.CohBase
import Nitime.Model.C09Win
import Nitime.Generated.CacheWin
import Nitime.Model.C09Out
import Nitime.Generated.CacheOut
import Nitime.Model.CohSession
import Nitime.Generated.SetInput
import Nitime.Model.C09Keys
import Nitime.Generated.CacheKeys

namespace Nitime.C09
open Nitime.Coh Nitime.Coh.CScalar

def parseUb? (s : String) : Option (Option Float) :=
  if s = "none" then some none else (Proto.parseFloat? s).map some

/-- numpy's casts of a float64 window value to the dtype of the data -/
def cxCasts : Casts Cx where
  toF32 z := Cx.ofF z.re.toFloat32.toFloat
  toInt z := Cx.ofF (if z.re < 0.0 then Float.ceil z.re else Float.floor z.re)

def parseDType? : String → Option DType
  | "f64" => some .f64 | "f32" => some .f32 | "int" => some .int | _ => none

/-- the window token: `hann` (the default function `mlab.window_hanning`), `<values>` (an array, float64 data),
`hann/<dt>`, `a/<dt>/<values>` (given as data: array / list / tuple of any dtype, its values taken exactly),
`f/<dt>/<values>` (given as the function `lambda x: values * x`); `<dt>` = dtype class of the DATA (`f64 | f32 | int`).
Resolved the way the CURRENT source does it (`Generated.CacheWin`). -/
def parseWin? (s : String) (NFFT : Nat) : Option (List Cx) :=
  let resolve (dt : DType) (wa : WinArg Cx) : Option (List Cx) :=
    if Nitime.Generated.CacheWin.windowedProduct then
      windowVals cxCasts (Cx.ofF 1.0) Nitime.Generated.CacheWin.arrayConv Nitime.Generated.CacheWin.funcArg dt NFFT wa
    else none
  let hannF : List Cx → List Cx := mulWindow Cx.mul ((hanning NFFT).map Cx.ofF)
  match s.splitOn "/" with
  | ["hann"] => resolve .f64 (.func hannF)
  | ["hann", dt] => (parseDType? dt).bind fun d => resolve d (.func hannF)
  | ["a", dt, vals] => do
      let d ← parseDType? dt
      let v ← Proto.parseFloatList? vals
      resolve d (.arr (v.map Cx.ofF))
  | ["f", dt, vals] => do
      let d ← parseDType? dt
      let v ← Proto.parseFloatList? vals
      resolve d (.func (mulWindow Cx.mul (v.map Cx.ofF)))
  | [vals] => (Proto.parseFloatList? vals).bind fun v => resolve .f64 (.arr (v.map Cx.ofF))
  | _ => none

def parsePairs? (s : String) : Option (List (Nat × Nat)) :=
  (s.splitOn ";").mapM fun t => match t.splitOn ":" with
    | [a, b] => do pure (← a.toNat?, ← b.toNat?)
    | _ => none

/-- frequency grid of the cache: `utils.get_freqs(Fs, NFFT)` -/
def cacheFreqs (Fs : Float) (NFFT : Nat) : List Float := getFreqs Fs NFFT

/-- `np.fft.fftfreq(NFFT, 1/Fs)[:numFreqs]` (the dense grid, bit for bit) -/
def mlabFreqs (Fs : Float) (NFFT : Nat) : List Float :=
  let val := 1.0 / (NFFT.toFloat * (1.0 / Fs))
  (List.range (nFreq NFFT)).map fun k => k.toFloat * val

def uniqSorted (xs : List Nat) : List Nat :=
  let m := xs.foldl max 0
  (List.range (m + 1)).filter fun c => xs.contains c

structure Cfg where
  NFFT : Nat
  step : Nat
  Fs : Float
  w : List Cx
  sbf : Bool
  psm : Bool
  lb : Float
  ub : Option Float

def parseCfg? (sN sO sFs sWin sSbf sPsm sLb sUb : String) (dflt : Nat → Nat) : Option (Except String Cfg) := do
  let NFFT ← sN.toNat?
  let nov ← (if sO = "dcache" ∨ sO = "dfunc" then some (dflt NFFT) else sO.toNat?)
  let Fs ← Proto.parseFloat? sFs
  let lb ← Proto.parseFloat? sLb
  let ub ← parseUb? sUb
  if NFFT = 0 ∨ nov ≥ NFFT then return .error "err ValueError"
  let w ← parseWin? sWin NFFT
  if w.length ≠ NFFT then return .error "err AssertionError"
  return .ok { NFFT, step := NFFT - nov, Fs, w, sbf := sSbf = "1", psm := sPsm = "1", lb, ub }

def cacheData (args : List String) : Option String := do
  match args with
  | what :: sN :: sO :: sFs :: sWin :: sSbf :: sPsm :: sLb :: sUb :: sIj :: chans =>
    match ← parseCfg? sN sO sFs sWin sSbf sPsm sLb sUb cacheDefaultOverlap with
    | .error e => return e
    | .ok c =>
    let ij ← parsePairs? sIj
    let X ← parseChans? chans
    let f := cacheFreqs c.Fs c.NFFT
    let (l, u) := getBounds f c.lb c.ub
    let nb := u - l
    let nv : Cx := normVal c.w (Cx.ofF c.Fs) c.NFFT c.sbf
    let ch := fun (i : Nat) => X.getD i []
    let chansUsed := uniqSorted (ij.flatMap fun (a, b) => [a, b])
    let hdr := ""
    match what with
    | "freqs" => return Proto.showFloatList ((f.drop l).take nb)   -- the frequencies of the cached band
    | "coherency" =>
        return hdr ++ showCx (ij.flatMap fun (a, b) =>
          (List.range nb).map fun t => cacheCoherency c.psm c.w nv c.NFFT c.step (ch a) (ch b) l t)
    | "psd" =>
        return hdr ++ showRe (chansUsed.flatMap fun a =>
          (List.range nb).map fun t => cachePsd c.psm c.w nv c.NFFT c.step (ch a) l t)
    | "relphase" =>
        return hdr ++ showRe (ij.flatMap fun (a, b) =>
          (List.range nb).map fun t => cacheRelPhase c.psm c.w c.NFFT c.step (ch a) (ch b) l t)
    | "phase" =>
        return hdr ++ showRe (chansUsed.flatMap fun a =>
          (List.range nb).map fun t => cachePhase c.w c.NFFT c.step (ch a) l t)
    | _ => none
  | _ => none

def okData (f : Option String) : Option String := do
  let a ← f
  if a.startsWith "err" then return a
  return "ok " ++ a

def handleCache (args : List String) : Option String := okData (cacheData args)

def seedData (args : List String) : Option String := do
  match args with
  | sN :: sO :: sFs :: sWin :: sSbf :: sPsm :: sLb :: sUb :: sNs :: chans =>
    match ← parseCfg? sN sO sFs sWin sSbf sPsm sLb sUb cacheDefaultOverlap with
    | .error e => return e
    | .ok c =>
    let ns0 ← sNs.toNat?
    let ns := if ns0 = 0 then 1 else ns0
    let X ← parseChans? chans
    let seeds := X.take ns
    let targets := X.drop ns
    let f := cacheFreqs c.Fs c.NFFT
    let (l, u) := getBounds f c.lb c.ub
    let nb := u - l
    let nv : Cx := normVal c.w (Cx.ofF c.Fs) c.NFFT c.sbf
    -- the seed's FFT slices are stored under key −1; pairs are (−1, target)
    return showCx (seeds.flatMap fun sd =>
      targets.flatMap fun tg => (List.range nb).map fun t =>
        cacheCoherency c.psm c.w nv c.NFFT c.step sd tg l t)
  | _ => none

def handleSeed (args : List String) : Option String := okData (seedData args)

def handleDense (args : List String) : Option String := do
  match args with
  | sN :: sO :: sFs :: sWin :: sLb :: sUb :: sIj :: chans =>
    match ← parseCfg? sN sO sFs sWin "1" "0" sLb sUb denseDefaultOverlap with
    | .error e => return e
    | .ok c =>
    let ij ← parsePairs? sIj
    let X ← parseChans? chans
    let f := mlabFreqs c.Fs c.NFFT
    let (l, u) := getBounds f c.lb c.ub
    let ch := fun (i : Nat) => X.getD i []
    let wb := fun (a b k : Nat) => welchBin c.w (Cx.ofF c.Fs) c.NFFT c.step (ch a) (ch b) k
    return "ok " ++ toString l ++ " " ++ toString u ++ " " ++ showCx (ij.flatMap fun (a, b) =>
      (List.range (u - l)).map fun t => coherencySpec (wb a b (l + t)) (wb a a (l + t)) (wb b b (l + t)))
  | _ => none

/-- `grid <Fs> <N>`: the two frequency formulas of the generic model, `ok <k·Fs/N …> <(k·(1/N))·Fs …>` -/
def handleGrid (args : List String) : Option String := do
  match args with
  | [sFs, sN] =>
    let Fs ← Proto.parseFloat? sFs
    let N ← sN.toNat?
    return "ok " ++ showRe ((List.range (nFreq N)).map fun k => welchFreq (Cx.ofF Fs) N k) ++ " " ++
      showRe ((List.range (nFreq N)).map fun k => rfftFreq (Cx.ofF Fs) N k)
  | _ => none

def parseRat? (s : String) : Option Rat :=
  match s.splitOn "/" with
  | [a] => a.toInt?.map fun n => (n : Rat)
  | [a, b] => match a.toInt?, b.toNat? with
    | some n, some d => if d = 0 then none else some ((n : Rat) / (d : Rat))
    | _, _ => none
  | _ => none

def showRat (q : Rat) : String := if q.den = 1 then toString q.num else toString q.num ++ "/" ++ toString q.den

def handleOutHist (args : List String) : String :=
  match args with
  | fn :: qs =>
    match Nitime.Generated.CacheOut.table.lookup fn with
    | none => "no-such-function"
    | some o =>
      if o.alloc == .unknown then "unsupported" else
      let keep := !(o.alloc == .fresh && !o.writesCache && o.entriesNew)
      let cs : Option (List Out.Call) := qs.mapM fun q =>
        match q.splitOn ":" with
        | [a, b] => match a.toNat?, b.toInt? with
          | some a, some b => some ⟨a, [b]⟩
          | _, _ => none
        | _ => none
      match cs with
      | none => "bad-args"
      | some cs =>
        let s := Out.run keep Out.init cs
        " ".intercalate ((Out.ids s).zip (Out.finalViews s) |>.map fun (i, v) => toString i ++ "=" ++ toString (v.headD (-1)))
  | _ => "bad-args"

def parseSessEvs : List String → Option (List CohSession.Ev)
  | [] => some []
  | t :: r =>
    if t = "f" then (parseSessEvs r).map (.readFreq :: ·)
    else if t = "r" then (parseSessEvs r).map (.reset :: ·)
    else if t.startsWith "s" then
      match (t.drop 1).toString.splitOn ":" with
      | [q, b, k] =>
        match parseRat? q, k.toNat?, parseSessEvs r with
        | some q, some k, some es => some (.setInput ⟨q, k⟩ (b = "1") :: es)
        | _, _, _ => none
      | _ => none
    else none

def handleSess (args : List String) : String :=
  match args with
  | ufs :: r0 :: evs =>
    let u : Option (Option Rat) := if ufs = "none" then some none else (parseRat? ufs).map some
    match u, parseRat? r0, parseSessEvs evs with
    | some u, some r0, some es =>
      if Nitime.Generated.SetInput.sparse.contains .unknown then "unsupported" else
      let out := CohSession.run (fun fs => [fs]) Nitime.Generated.SetInput.sparse (CohSession.init ⟨r0, 0⟩ u) es
      if out.isEmpty then "none" else " ".intercalate (out.map fun p => toString p.2 ++ "@" ++ showRat (p.1.headD 0))
    | _, _, _ => "bad-args"
  | _ => "bad-args"

def handleKeyed (args : List String) : String :=
  match args with
  | [fn, sIter, sIj] =>
    let it : Option (List Nat) := (sIter.splitOn ",").mapM (·.toNat?)
    match Nitime.Generated.CacheKeys.table.lookup fn, Nitime.Generated.CacheKeys.table.lookup "cache_fft", it, parsePairs? sIj with
    | some sq, some sf, some it, some ij =>
      if sq.keyOrd == .unknown || sq.valOrd == .unknown || sf.keyOrd == .unknown || sf.valOrd == .unknown then "unsupported" else
      -- values are row numbers: `slices` and `post` are the identity, so the answer names the ROW whose value lies under each key
      let d : List (Nat × Nat) :=
        if fn = "cache_fft" then Keys.keyed sf it ij (fun c => c)
        else Keys.cacheThenQuery sf sq it it ij (fun c => c) (fun r => r) (fun r => r) 1000000
      let ks := Keys.sortNat (d.map (·.1))
      if ks != uniqSorted (ij.flatMap fun (a, b) => [a, b]) then "keys " ++ ",".intercalate (ks.map toString) else
      "ok " ++ " ".intercalate (ks.map fun k => toString k ++ "=" ++ toString ((d.lookup k).getD 1000000))
    | _, _, _, _ => "bad-args"
  | _ => "bad-args"

def handle (args : List String) : String :=
  match args with
  | "keyed" :: rest => handleKeyed rest
  | "outhist" :: rest => handleOutHist rest
  | "sess" :: rest => handleSess rest
  | "grid" :: rest => (handleGrid rest).getD "bad-op"
  | "cache" :: rest => (handleCache rest).getD "bad-op"
  | "seed" :: rest => (handleSeed rest).getD "bad-op"
  | "dense" :: rest => (handleDense rest).getD "bad-op"
  | _ => "bad-op"

end Nitime.C09
