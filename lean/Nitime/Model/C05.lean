/-
C05 — frequency axes: executable model and line protocol (core Lean only).

The grid terms come from `Nitime.Generated.Grids` (re-extracted from the source on every run);
the definitions they are evaluated with, the true grids and `getBounds` are in
`Nitime.Model.C05Grid`.  Everything is exact `Rat` arithmetic; a binary64 sampling rate enters as
the rational number it denotes (`F64.ofFloat`).

Ops (after the property id):
  grid <site> <Fs> <N>                 generated grid of the site, as exact rationals
  band <site> <Fs> <N> <lb> <ub|none>  `freqs[lb_idx:ub_idx]` with `get_bounds(freqs, lb, ub)`
  bounds <site> <Fs> <N> <lb> <ub|none>  `lb_idx ub_idx`
  ret cache_fft <Fs> <N> <lb> <ub|none>  the vector `cache_fft` returns (all bins or the band, as the source says)
  keep <site> <Fs> <N> <lb> <ub|none>  indices of the bins `filtered_fourier` keeps (DC excluded)
  true1 / true2 / trueshift / truefreqz <Fs> <N>   the grids the property asks for
  sites                                names of all generated sites
`<Fs>`, `<lb>`, `<ub>`: `x<16 hex>` (a double, taken exactly) or `p/q`.
-/
import Nitime.Model.Proto
import Nitime.Model.F64
import Nitime.Model.C05Grid
import Nitime.Generated.Grids

namespace Nitime.C05
open Nitime.Proto

/-- the value used for `np.pi` in the exact runs: π to 40 digits (error < 1e-40, far below the
4-ulp comparison); the theorems treat π as an arbitrary parameter -/
def piApprox : Rat := (31415926535897932384626433832795028841971 : Int) / ((10 ^ 40 : Nat) : Rat)

def parseQ? (s : String) : Option Rat :=
  if s.startsWith "x" then (parseFloat? s).map F64.ofFloat else parseRat? s

def showRatList (xs : List Rat) : String := joinList (xs.map showRat)

def lookup (site : String) : Option GridExpr := (Nitime.Generated.Grids.sites.lookup site)

def parseUb? (s : String) : Option (Option Rat) :=
  if s = "none" then some none else (parseQ? s).map some

def handle (args : List String) : String :=
  match args with
  | ["grid", site, fs, n] =>
    match lookup site, parseQ? fs, n.toNat? with
    | some g, some q, some k => showRatList (eval g piApprox q k)
    | none, _, _ => "no-such-site"
    | _, _, _ => "bad-args"
  | ["band", site, fs, n, lb, ub] =>
    match lookup site, parseQ? fs, n.toNat?, parseQ? lb, parseUb? ub with
    | some g, some q, some k, some l, some u => showRatList (sliceBand (eval g piApprox q k) l u)
    | none, _, _, _, _ => "no-such-site"
    | _, _, _, _, _ => "bad-args"
  | ["ret", "cache_fft", fs, n, lb, ub] =>
    -- the frequency vector `cache_fft` returns next to a cache limited to `[lb, ub]`
    match lookup "cache_fft", parseQ? fs, n.toNat?, parseQ? lb, parseUb? ub with
    | some g, some q, some k, some l, some u =>
      match Nitime.Generated.Grids.cache_fft_sliced with
      | some true => showRatList (sliceBand (eval g piApprox q k) l u)
      | some false => showRatList (eval g piApprox q k)
      | none => "unsupported"
    | _, _, _, _, _ => "bad-args"
  | ["bounds", site, fs, n, lb, ub] =>
    match lookup site, parseQ? fs, n.toNat?, parseQ? lb, parseUb? ub with
    | some g, some q, some k, some l, some u =>
      let b := getBounds (eval g piApprox q k) l u
      toString b.1 ++ " " ++ toString b.2
    | none, _, _, _, _ => "no-such-site"
    | _, _, _, _, _ => "bad-args"
  | ["keep", site, fs, n, lb, ub] =>
    -- `filtered_fourier`: one-sided bins (DC excluded) that survive `freqs < lb` / `freqs > ub`
    match lookup site, parseQ? fs, n.toNat?, parseQ? lb, parseUb? ub with
    | some g, some q, some k, some l, some u =>
      let f := eval g piApprox q k
      let hi := match u with | some v => v | none => f.getLastD 0
      showNatList (((List.range f.length).zip f).filterMap fun (i, x) =>
        if i ≠ 0 ∧ ¬ (x < l) ∧ ¬ (x > hi) then some i else none)
    | none, _, _, _, _ => "no-such-site"
    | _, _, _, _, _ => "bad-args"
  | ["true1", fs, n] =>
    match parseQ? fs, n.toNat? with
    | some q, some k => showRatList (trueOneSided q k)
    | _, _ => "bad-args"
  | ["true2", fs, n] =>
    match parseQ? fs, n.toNat? with
    | some q, some k => showRatList (trueTwoSided q k)
    | _, _ => "bad-args"
  | ["trueshift", fs, n] =>
    match parseQ? fs, n.toNat? with
    | some q, some k => showRatList (trueShifted q k)
    | _, _ => "bad-args"
  | ["truefreqz", fs, n] =>
    match parseQ? fs, n.toNat? with
    | some q, some k => showRatList (trueFreqz q k)
    | _, _ => "bad-args"
  | ["sites"] => joinList (Nitime.Generated.Grids.sites.map (·.1))
  | _ => "bad-op"

end Nitime.C05
