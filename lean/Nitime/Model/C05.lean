/-
C05 — frequency axes: executable model and line protocol (core Lean only).

The grid terms come from `Nitime.Generated.Grids` (re-extracted from the source on every run);
the definitions they are evaluated with, the true grids and `getBounds` are in
`Nitime.Model.C05Grid`.  Everything is exact `Rat` arithmetic; a binary64 sampling rate enters as
the rational number it denotes (`F64.ofFloat`).

Ops (after the property id):
  grid <site> <Fs> <N>                 generated grid of the site, as exact rationals
  band <site> <Fs> <N> <lb> <ub|none>  `freqs[lb_idx:ub_idx]` with `get_bounds(freqs, lb, ub)`
  bounds <site> <Fs> <N> <lb> <ub|none>  `lb_idx ub_idx`
  ret cache_fft <Fs> <N> <lb> <ub|none>  the vector `cache_fft` returns (all bins or the band, as the source says)
  keep <site> <Fs> <N> <lb> <ub|none>  indices of the bins `filtered_fourier` keeps (DC excluded)
  true1 / true2 / trueshift / truefreqz <Fs> <N>   the grids the property asks for
  sites                                names of all generated sites
  hist <events> <op …>                 read history of ONE analyzer whose frequency attribute is the vector of `<op …>`
                                       (any op above): `F` read the frequencies (keep the object), `O` read another
                                       result, `D` read another result whose getter reads the frequencies, `R` reset();
                                       answer: the content, at the END, of every vector handed out, `;`-separated
  two <N> <ev> …                       several live analyzers (`Nitime.C05.Two`): `u` the caller creates a method dict
                                       (no 'Fs'), `n<C|P|E|S>:<rate>:<dict id|->` construct a Coherence / sParse /
                                       sEed / Spectral analyzer on an input of that rate with the caller's dict or
                                       method=None, `f<k>` analyzer k `.frequencies` (Spectral: `.psd[0]`), `c<k>`
                                       `.cpsd[0]`; answer: the vector each read returned, `;`-separated
  sess <coherence|sparse> <N> <lb> <ub|none> <user Fs|none> <rate0> <ev> …
                                       ONE analyzer whose `set_input` body is `Generated.SetInput.<class>`, built on an input
                                       (id 0) of rate0: `s<rate>:<0|1>:<id>` set_input with the series of that id (1 = the class
                                       refuses it; the id of the series held: the SAME object may be given again), `f` read `.frequencies`, `r` reset(); answer per read:
                                       `<id of the input held>@<vector>`, `;`-separated
  ctor <coherence|sparse|seed> <0|1>   a construction (1: with arguments the class refuses): `<caller's dict written> <raised>`
`<Fs>`, `<lb>`, `<ub>`: `x<16 hex>` (a double, taken exactly) or `p/q`.
-/
import Nitime.Model.Proto
import Nitime.Model.F64
import Nitime.Model.C05Grid
import Nitime.Model.C05Hist
import Nitime.Generated.Grids
import Nitime.Generated.Methods
import Nitime.Model.C05Len
import Nitime.Generated.GridLens
import Nitime.Model.C05Src
import Nitime.Generated.FreqSrc
import Nitime.Model.CohSession
import Nitime.Generated.SetInput

namespace Nitime.C05
open Nitime.Proto

/-- the value used for `np.pi` in the exact runs: π to 40 digits (error < 1e-40, far below the
4-ulp comparison); the theorems treat π as an arbitrary parameter -/
def piApprox : Rat := (31415926535897932384626433832795028841971 : Int) / ((10 ^ 40 : Nat) : Rat)

def parseQ? (s : String) : Option Rat :=
  if s.startsWith "x" then (parseFloat? s).map F64.ofFloat else parseRat? s

def showRatList (xs : List Rat) : String := joinList (xs.map showRat)

def lookup (site : String) : Option GridExpr := (Nitime.Generated.Grids.sites.lookup site)

def parseUb? (s : String) : Option (Option Rat) :=
  if s = "none" then some none else (parseQ? s).map some

def lookupLen (fn : String) : Option LenSite := (Nitime.Generated.GridLens.lens.lookup fn)

def parseOptNat? (s : String) : Option (Option Nat) :=
  if s = "none" then some none else s.toNat?.map some

def handleVec (args : List String) : String :=
  match args with
  | ["grid", site, fs, n] =>
    match lookup site, parseQ? fs, n.toNat? with
    | some g, some q, some k => showRatList (eval g piApprox q k)
    | none, _, _ => "no-such-site"
    | _, _, _ => "bad-args"
  | ["band", site, fs, n, lb, ub] =>
    match lookup site, parseQ? fs, n.toNat?, parseQ? lb, parseUb? ub with
    | some g, some q, some k, some l, some u => showRatList (sliceBand (eval g piApprox q k) l u)
    | none, _, _, _, _ => "no-such-site"
    | _, _, _, _, _ => "bad-args"
  | ["ret", "cache_fft", fs, n, lb, ub] =>
    -- the frequency vector `cache_fft` returns next to a cache limited to `[lb, ub]`
    match lookup "cache_fft", parseQ? fs, n.toNat?, parseQ? lb, parseUb? ub with
    | some g, some q, some k, some l, some u =>
      match Nitime.Generated.Grids.cache_fft_sliced with
      | some true => showRatList (sliceBand (eval g piApprox q k) l u)
      | some false => showRatList (eval g piApprox q k)
      | none => "unsupported"
    | _, _, _, _, _ => "bad-args"
  | ["bounds", site, fs, n, lb, ub] =>
    match lookup site, parseQ? fs, n.toNat?, parseQ? lb, parseUb? ub with
    | some g, some q, some k, some l, some u =>
      let b := getBounds (eval g piApprox q k) l u
      toString b.1 ++ " " ++ toString b.2
    | none, _, _, _, _ => "no-such-site"
    | _, _, _, _, _ => "bad-args"
  | ["keep", site, fs, n, lb, ub] =>
    -- `filtered_fourier`: one-sided bins (DC excluded) that survive `freqs < lb` / `freqs > ub`
    match lookup site, parseQ? fs, n.toNat?, parseQ? lb, parseUb? ub with
    | some g, some q, some k, some l, some u =>
      let f := eval g piApprox q k
      let hi := match u with | some v => v | none => f.getLastD 0
      showNatList (((List.range f.length).zip f).filterMap fun (i, x) =>
        if i ≠ 0 ∧ ¬ (x < l) ∧ ¬ (x > hi) then some i else none)
    | none, _, _, _, _ => "no-such-site"
    | _, _, _, _, _ => "bad-args"
  | ["true1", fs, n] =>
    match parseQ? fs, n.toNat? with
    | some q, some k => showRatList (trueOneSided q k)
    | _, _ => "bad-args"
  | ["true2", fs, n] =>
    match parseQ? fs, n.toNat? with
    | some q, some k => showRatList (trueTwoSided q k)
    | _, _ => "bad-args"
  | ["trueshift", fs, n] =>
    match parseQ? fs, n.toNat? with
    | some q, some k => showRatList (trueShifted q k)
    | _, _ => "bad-args"
  | ["truefreqz", fs, n] =>
    match parseQ? fs, n.toNat? with
    | some q, some k => showRatList (trueFreqz q k)
    | _, _ => "bad-args"
  | ["sites"] => joinList (Nitime.Generated.Grids.sites.map (·.1))
  | ["gridx", site, fn, fs, nd, nf, sk] =>
    -- the site's grid at the length the estimator `fn` builds it from, for a call with `nd` samples, `N=`/`NFFT=` `nf`
    -- and a supplied transform of `sk` points (`none`: not given)
    match lookup site, lookupLen fn, parseQ? fs, nd.toNat?, parseOptNat? nf, parseOptNat? sk with
    | some g, some ls, some q, some d, some f, some s => showRatList (eval g piApprox q (ls.gridLen.eval ⟨d, f, s⟩))
    | none, _, _, _, _, _ => "no-such-site"
    | _, none, _, _, _, _ => "no-such-estimator"
    | _, _, _, _, _, _ => "bad-args"
  | ["freqlens", cls, fn, side, nd, nf] =>
    -- `<number of frequencies> <number of spectral values>` of the analyzer class `cls` on the estimator `fn` (`side` = one|two),
    -- `nd` samples, `NFFT` entry `nf` of the method dict; a getter outside the call is taken to use `method['NFFT'] or n`
    match Nitime.Generated.FreqSrc.pairs.lookup cls, lookupLen fn, nd.toNat?, parseOptNat? nf with
    | some p, some ls, some d, some f =>
      let r := p.lengths ls (.ite .nfftTruthy .nfft .data) (side == "one") ⟨d, f, none⟩
      toString r.1 ++ " " ++ toString r.2
    | none, _, _, _ => "no-such-class"
    | _, none, _, _ => "no-such-estimator"
    | _, _, _, _ => "bad-args"
  | ["lens", fn, nd, nf, sk] =>
    -- `<grid length> <points of the transform used> <is it the supplied one 0/1>`
    match lookupLen fn, nd.toNat?, parseOptNat? nf, parseOptNat? sk with
    | some ls, some d, some f, some s =>
      let e : LenEnv := ⟨d, f, s⟩
      toString (ls.gridLen.eval e) ++ " " ++ toString (ls.transform.len e) ++ " " ++ (if ls.transform.usesSupplied e then "1" else "0")
    | none, _, _, _ => "no-such-estimator"
    | _, _, _, _ => "bad-args"
  | _ => "bad-op"

/-- the vector ops again, as values (for the history machines) -/
def vecOf (args : List String) : Option (List Rat) :=
  let r := handleVec args
  if r = "-" then some [] else
  (splitList r).mapM parseRat?

def parseHistEv (g : List Rat) : Char → Option Hist.Ev
  | 'F' => some .readFreq
  | 'O' => some (.readOther false (g.map (· * 2)))
  | 'D' => some (.readOther true (g.map (· * 2)))
  | 'R' => some .reset
  | _ => none

def showViews (vs : List (List Rat)) : String :=
  if vs.isEmpty then "none" else ";".intercalate (vs.map showRatList)

/-- what class `c` computes at rate `fs` with `NFFT = n` and the default band (`lb=0`, `ub=None`):
Sparse / Seed: the generated `get_freqs` term, sliced; Coherence (Welch) / Spectral psd, cpsd: mlab's grid -/
def twoGrid (n : Nat) (c : Two.Cls) (fs : Rat) : List Rat :=
  match c with
  | .sparse => match lookup "SparseCoherenceAnalyzer_frequencies" with
    | some g => sliceBand (eval g piApprox fs n) 0 none | none => []
  | .seed => match lookup "SeedCoherenceAnalyzer_frequencies" with
    | some g => sliceBand (eval g piApprox fs n) 0 none | none => []
  | _ => trueOneSided fs n

def parseCls? : String → Option Two.Cls
  | "C" => some .coherence | "P" => some .sparse | "E" => some .seed | "S" => some .spectral | _ => none

def parseTwoEv (t : String) : Option Two.Ev :=
  if t = "u" then some (.userDict none) else
  if t.startsWith "n" then
    match (t.drop 1).toString.splitOn ":" with
    | [c, r, d] =>
      match parseCls? c, parseQ? r with
      | some c, some r => if d = "-" then some (.new c r none) else d.toNat?.map fun i => .new c r (some i)
      | _, _ => none
    | _ => none
  else if t.startsWith "f" then (t.drop 1).toString.toNat?.map .freq
  else if t.startsWith "c" then (t.drop 1).toString.toNat?.map .cpsd
  else none

/-- events of a `sess` line -/
def parseSessEvs : List String → Option (List CohSession.Ev)
  | [] => some []
  | t :: r =>
    if t = "f" then (parseSessEvs r).map (.readFreq :: ·)
    else if t = "r" then (parseSessEvs r).map (.reset :: ·)
    else if t.startsWith "s" then
      match (t.drop 1).toString.splitOn ":" with
      | [q, b, k] =>
        match parseQ? q, k.toNat?, parseSessEvs r with
        | some q, some k, some es => some (.setInput ⟨q, k⟩ (b = "1") :: es)
        | _, _, _ => none
      | _ => none
    else none

def sessGrid (cls : String) (n : Nat) (lb : Rat) (ub : Option Rat) (fs : Rat) : List Rat :=
  if cls = "sparse" then
    match lookup "SparseCoherenceAnalyzer_frequencies" with
    | some g => sliceBand (eval g piApprox fs n) lb ub | none => []
  else trueOneSided fs n

def handleSess (args : List String) : String :=
  match args with
  | cls :: n :: lb :: ub :: ufs :: r0 :: evs =>
    match Nitime.Generated.SetInput.programs.lookup cls, n.toNat?, parseQ? lb, parseUb? ub, parseUb? ufs, parseQ? r0, parseSessEvs evs with
    | some prog, some n, some lb, some ub, some ufs, some r0, some es =>
      if prog.contains .unknown then "unsupported" else
      let out := CohSession.run (sessGrid cls n lb ub) prog (CohSession.init ⟨r0, 0⟩ ufs) es
      if out.isEmpty then "none" else ";".intercalate (out.map fun p => toString p.2 ++ "@" ++ showRatList p.1)
    | none, _, _, _, _, _, _ => "no-such-class"
    | _, _, _, _, _, _, _ => "bad-args"
  | _ => "bad-args"

/-- `ctor <coherence|sparse|seed> <refused 0|1>`: `<the caller's method dict was written 0|1> <raised 0|1>` -/
def handleCtor (args : List String) : String :=
  match args with
  | [cls, r] =>
    let pk : Option (List CohSession.CStmt × Bool) := match cls with
      | "coherence" => some (Nitime.Generated.SetInput.coherenceCtor, (Nitime.Generated.Methods.spec .coherence).keeps)
      | "sparse" => some (Nitime.Generated.SetInput.sparseCtor, (Nitime.Generated.Methods.spec .sparse).keeps)
      | "seed" => some (Nitime.Generated.SetInput.seedCtor, (Nitime.Generated.Methods.spec .seed).keeps)
      | _ => none
    match pk with
    | some (p, keeps) =>
      let o := CohSession.ctorExec (r = "1") keeps p false
      (if o.1 then "1" else "0") ++ " " ++ (if o.2 then "1" else "0")
    | none => "no-such-class"
  | _ => "bad-args"

def handle (args : List String) : String :=
  match args with
  | "sess" :: rest => handleSess rest
  | "ctor" :: rest => handleCtor rest
  | "hist" :: evs :: rest =>
    match vecOf rest with
    | none => handleVec rest
    | some g =>
      match evs.toList.mapM (parseHistEv g) with
      | none => "bad-args"
      | some es => showViews (Hist.finalViews (Hist.run (Hist.init g) es))
  | "two" :: n :: evs =>
    match n.toNat?, evs.mapM parseTwoEv with
    | some n, some es =>
      if Nitime.Generated.Methods.recognised && [Two.Cls.coherence, .sparse, .seed, .spectral].all Nitime.Generated.Methods.freshDefault then
        showViews ((Two.run Nitime.Generated.Methods.spec (twoGrid n) (2 * piApprox) Two.init es).out.map (·.2))
      else "unsupported"
    | _, _ => "bad-args"
  | _ => handleVec args

end Nitime.C05
