/-
C15 — the file reader's FILTER OPTIONS seen as a history of calls (core Lean only).

`time_series_from_file(..., filter=d)` hands every voxel series to `FilterAnalyzer(tseries, **kwargs)` where, in
`_tseries_from_nifti_helper`, `kwargs = dict(lb=d.get('lb', 0), ub=d.get('ub', None), boxcar_iterations=d.get(
'boxcar_iterations', 2), …)`: for every design option the CALL'S OWN value, else a default.  The reader is called again
and again in one process with different dicts, so the property ("filter options … of THIS call") is about every call
of such a history: where do the defaults live?

* `Val`, `Dict`      option values as tokens (the driver and the harness exchange them verbatim) and association lists.
* `effective`        the keyword arguments one call builds: for every key of the table in force, `call.get(key, default)`.
* `Variant.perCall`  the defaults are literals evaluated inside the call (today's code, see GENERATED `ReaderOpts`:
                     the `filter.get('<key>', <literal>)` sites and the module-level names written inside functions).
* `Variant.sharedTable`  NOT today's code: a module-level dict of defaults that a call aliases and updates in place
                     (`kwargs = _filter_design; kwargs.update(…)`), so one call's values become the next call's defaults.
* `run`              a history of calls → the keyword arguments of every call.
-/
import Nitime.Generated.ReaderOpts

namespace Nitime.C15.Opts

abbrev Dict := List (String × String)

/-- `d.get(k, dflt)` -/
def getD (d : Dict) (k dflt : String) : String := (d.lookup k).getD dflt

/-- the keyword arguments built by one call from the table of defaults in force and the call's own dict -/
def effective (table call : Dict) : Dict := table.map fun kv => (kv.1, getD call kv.1 kv.2)

inductive Variant where
  | perCall
  | sharedTable
  deriving DecidableEq, Repr

/-- one call: (the table in force afterwards, the keyword arguments handed to FilterAnalyzer) -/
def callStep (v : Variant) (defaults table call : Dict) : Dict × Dict :=
  match v with
  | .perCall => (table, effective defaults call)
  | .sharedTable => (effective table call, effective table call)

/-- a history of calls (each with its own dict): the keyword arguments of every call, in order -/
def run (v : Variant) (defaults : Dict) : Dict → List Dict → List Dict
  | _, [] => []
  | table, c :: cs =>
    let r := callStep v defaults table c
    r.2 :: run v defaults r.1 cs

/-- the documented defaults (= `FilterAnalyzer.__init__`'s own) -/
def documented : Dict :=
  [("lb", "0"), ("ub", "None"), ("boxcar_iterations", "2"), ("filt_order", "64"), ("gpass", "1"), ("gstop", "60"),
   ("iir_ftype", "'ellip'"), ("fir_win", "'hamming'")]

/-- is the per-call reading vouched for by the source?  (GENERATED: every design option is read by
`filter.get('<key>', <literal>)` inside the helper, and no function of the module writes a module-level name) -/
def codeVouched : Bool :=
  Nitime.Generated.ReaderOpts.defaults == documented &&
  Nitime.Generated.ReaderOpts.writtenModuleNames.isEmpty &&
  Nitime.Generated.ReaderOpts.sharedTables.isEmpty

/-! ### line protocol: `readerhist <call>;<call>;…`, a call = `k=v,k=v` (or `-` for an empty dict) -/

def parseCall (s : String) : Dict :=
  if s = "-" then [] else
  (s.splitOn ",").filterMap fun kv =>
    match kv.splitOn "=" with
    | [k, v] => some (k, v)
    | _ => none

def showDict (d : Dict) : String := ",".intercalate (d.map fun kv => kv.1 ++ "=" ++ kv.2)

def handleHist (calls : String) : String :=
  if !codeVouched then "err reader-option-defaults-not-vouched" else
  "ok " ++ " ; ".intercalate ((run .perCall Nitime.Generated.ReaderOpts.defaults [] ((calls.splitOn ";").map parseCall)).map showDict)

end Nitime.C15.Opts
