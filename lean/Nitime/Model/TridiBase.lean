/-
Array / loop vocabulary shared by the hand-written model of `tridisolve` (Model/C07.lean) and
by the programs the translator extracts from `_utils.pyx` and `utils.py`
(Generated/Tridi.lean).  Core Lean only.

`get a i`      numpy `a[i]` (in-range by the caller's guard; out of range reads `default`)
`set a i v`    numpy `a[i] = v` (in-range; out of range is a no-op)
`forUp lo hi`  `for k in range(lo, hi)`
`forDown cnt`  `for k in range(cnt-1, -1, -1)`
`sumN`, `sumList`  left-to-right sums
-/
namespace Nitime.Tridi

/-- the three work vectors of `tridisolve` -/
structure St (K : Type) where
  dw : Array K
  ew : Array K
  x : Array K

variable {K : Type}

@[inline] def get [Inhabited K] (a : Array K) (i : Nat) : K := a.getD i default
@[inline] def set (a : Array K) (i : Nat) (v : K) : Array K := a.setIfInBounds i v

def forUp {σ : Type} (lo hi : Nat) (s : σ) (f : Nat → σ → σ) : σ :=
  (List.range' lo (hi - lo)).foldl (fun s k => f k s) s

def forDown {σ : Type} (cnt : Nat) (s : σ) (f : Nat → σ → σ) : σ :=
  (List.range cnt).reverse.foldl (fun s k => f k s) s

/-- `acc + f i + f (i+1) + … + f (i+k-1)`, left to right, no allocation -/
def sumFrom [Add K] (f : Nat → K) : Nat → Nat → K → K
  | 0, _, acc => acc
  | k + 1, i, acc => sumFrom f k (i + 1) (acc + f i)

/-- `Σ_{i<n} f i`, accumulated left to right from 0 (tail recursive, allocation free) -/
def sumN [Add K] [OfNat K 0] (n : Nat) (f : Nat → K) : K := sumFrom f n 0 0

/-- `np.sum` of a vector -/
def sumList [Add K] [OfNat K 0] (l : List K) : K := l.foldl (fun acc x => acc + x) 0

end Nitime.Tridi
