/-
Array / loop vocabulary shared by the hand-written model of `tridisolve` (Model/C07.lean) and
by the programs the translator extracts from `_utils.pyx` and `utils.py`
(Generated/Tridi.lean).  Core Lean only.

`get a i`      numpy `a[i]` (in-range by the caller's guard; out of range reads `default`)
`set a i v`    numpy `a[i] = v` (in-range; out of range is a no-op)
`forUp lo hi`  `for k in range(lo, hi)`
`forDown cnt`  `for k in range(cnt-1, -1, -1)`
-/
namespace Nitime.Tridi

/-- the three work vectors of `tridisolve` -/
structure St (K : Type) where
  dw : Array K
  ew : Array K
  x : Array K

variable {K : Type}

@[inline] def get [Inhabited K] (a : Array K) (i : Nat) : K := a.getD i default
@[inline] def set (a : Array K) (i : Nat) (v : K) : Array K := a.setIfInBounds i v

def forUp {σ : Type} (lo hi : Nat) (s : σ) (f : Nat → σ → σ) : σ :=
  (List.range' lo (hi - lo)).foldl (fun s k => f k s) s

def forDown {σ : Type} (cnt : Nat) (s : σ) (f : Nat → σ → σ) : σ :=
  (List.range cnt).reverse.foldl (fun s k => f k s) s

end Nitime.Tridi
