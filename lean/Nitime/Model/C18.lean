/-
C18 — model of `nitime.analysis.spectral.FilterAnalyzer` and `nitime.algorithms.filter.boxcar_filter`
(core Lean only).

* `filteredFourier`  : `filtered_fourier` (generic `fourierProj` over `Model/Num.lean`'s scalar classes) — bins selected on the frequency grid `get_freqs` returns
  (`np.fft.rfftfreq(n)·Fs`, the true bin frequency `j·Fs/n`, since commit ed873b1; the former
  `linspace(0, Fs/2, n//2+1)` grid was wrong for odd `n`), ± index nulling, DC kept, default
  `ub` = Nyquist, real part of the inverse transform.
* `restoreDC`, `filtfiltWrapper` : the DC restoration around the external `scipy.signal.filtfilt`.
* `firBandFractions`, `firPlan`, `iirPlan` : band edges as fractions of Nyquist, which designs are
  requested (the designs themselves — `firwin`, `iirdesign` — are external).
* `boxcarFilter` : padding, convolution, central excision + DC restoration, high-pass by subtraction + mean;
  polymorphic in the scalar (runs at `Float` and `Rat`).
* `methodAxis` : which of rate / t0 / unit each method forwards, read off the GENERATED
  output-series descriptors (`Generated/SeriesCalls.lean`, harness/translate_c15.py).
-/
import Nitime.Model.Num
import Nitime.Model.Proto
import Nitime.Model.C15Types
import Nitime.Generated.SeriesCalls
import Nitime.Generated.C18Opts
import Nitime.Model.FiltFilt
import Nitime.Model.C18Sess

namespace Nitime.C18
open Nitime

/-! ### Fourier-domain filter -/

/-- `get_freqs(Fs, n)[j]` = `(np.fft.rfftfreq(n) * Fs)[j]` = `(j·(1/n))·Fs`: the true frequency of bin `j ≤ n/2` -/
def gridTrue (fs : Float) (n j : Nat) : Float := (j.toFloat * (1 / n.toFloat)) * fs

/-- is bin `k` (0 ≤ k < n) kept?  DC always; otherwise its grid frequency must not be `< lb` nor `> ub`.
The code nulls `idx` and `-idx` for every `idx ≤ n/2` outside the band, i.e. bin `k` is judged by
the grid entry `min(k, n-k)`.  (Polymorphic in the ordered scalar: `Float` when run.) -/
def keepBin {K : Type} [LT K] [DecidableLT K] (grid : Nat → K) (lb ub : K) (n k : Nat) : Bool :=
  if k = 0 then true else
  let j := if k ≤ n - k then k else n - k
  !(decide (grid j < lb)) && !(decide (ub < grid j))

/-! The transform itself is written ONCE over the scalar classes of `Model/Num.lean` (`R` reals, `K`
complex numbers): executed with `Float` / `Num.C`, reasoned about with `ℝ` / `ℂ` (Props/C18.lean,
where `fourierProj` with twiddles `ζ^m` is shown to be the textbook masked inverse DFT). -/
section generic
variable {R K : Type} [Num.RScalar R] [Num.CScalar R K]

/-- `power` after the nulling: kept bins carry `fft(x)[k]`, the others zero -/
def maskedSpectrum (tw : Nat → K) (N : Nat) (keep : Nat → Bool) (x : Nat → K) (k : Nat) : K :=
  if keep k then Num.dftAt tw N x k else Num.CScalar.zero

/-- `ifft(power)[t]` -/
def fourierProj (tw : Nat → K) (N : Nat) (keep : Nat → Bool) (x : Nat → K) (t : Nat) : K :=
  Num.idftAt tw N (maskedSpectrum tw N keep x) t

/-- all `N` output samples, with the masked spectrum tabulated once (`memoGet_memoArr`: the table
is provably the function, see `Props.fourierProjList_eq`) -/
def fourierProjList (tw : Nat → K) (N : Nat) (keep : Nat → Bool) (x : Nat → K) : List K :=
  let f := maskedSpectrum tw N keep x
  let Y := Num.memoArr N f
  (List.range N).map fun t => Num.idftAt tw N (Num.memoGet Y f) t

/-- `np.real(ifft(power))` for real input -/
def filteredFourierG (tw : Nat → K) (N : Nat) (keep : Nat → Bool) (x : Nat → R) : List R :=
  (fourierProjList tw N keep fun j => Num.CScalar.ofReal (x j)).map Num.CScalar.re

end generic

def filteredFourierWith (grid : Nat → Float) (ubDefault lb : Float) (ub : Option Float) (n : Nat) (x : List Float) :
    List Float :=
  let ub := ub.getD ubDefault
  let xa := x.toArray
  let tw := Num.twiddleFn n (Num.twiddleTable n)
  filteredFourierG (K := Num.C) tw n (keepBin grid lb ub n) (Num.ffn xa)

/-- `ub=None` means the Nyquist frequency `Fs/2` -/
def filteredFourier (fs lb : Float) (ub : Option Float) (x : List Float) : List Float :=
  filteredFourierWith (gridTrue fs x.length) (fs / 2) lb ub x.length x

/-! ### DC restoration around `filtfilt` -/
section dc
variable {K : Type} [Add K] [Sub K] [Div K] [OfNat K 0] [NatCast K]

def sumL (l : List K) : K := l.foldl (fun acc v => acc + v) 0
def mean (l : List K) : K := sumL l / (l.length : K)

/-- `out = out - mean(out) + dc` -/
def restoreDC (dc : K) (y : List K) : List K := y.map fun v => v - mean y + dc

/-- the wrapper: `F` is the external zero-phase filter -/
def filtfiltWrapper (F : List K → List K) (x : List K) : List K := restoreDC (mean x) (F x)
end dc

/-! ### FIR / IIR plans -/
section plans
variable {K : Type} [Div K] [OfNat K 0] [OfNat K 1] [OfNat K 2] [LT K] [DecidableLT K]

/-- `(lb_frac, ub_frac)`: band edges as fractions of the Nyquist frequency `Fs/2` -/
def firBandFractions (fs lb : K) (ub : Option K) : K × K :=
  (lb / (fs / 2), match ub with | some u => u / (fs / 2) | none => 1)

inductive PlanErr where | valueError
  deriving DecidableEq, Repr

/-- which designs `fir` requests: `(n_taps, low-pass cut-off?, high-pass cut-off?)` -/
def firPlan (fs lb : K) (ub : Option K) (order n : Nat) : Except PlanErr (Nat × Option K × Option K) :=
  let (lf, uf) := firBandFractions fs lb ub
  if lf < 0 ∨ 1 < uf then .error .valueError
  else if n * 3 < order + 1 then .error .valueError
  else .ok (order + 1, if uf < 1 then some uf else none, if 0 < lf then some lf else none)

/-- which design `iir` requests from `scipy.signal.iirdesign`: pass-band edges `wp` and stop-band edges
`ws` as fractions of the Nyquist frequency, by the three branches of the source (band-pass, low-pass,
high-pass); `none` when no branch applies (the source then fails on an unbound name) -/
def iirPlan [Add K] [Sub K] [OfScientific K] (fs lb : K) (ub : Option K) : Option (List K × List K) :=
  let (lf, uf) := firBandFractions fs lb ub
  let kmax (a b : K) : K := if a < b then b else a
  let kmin (a b : K) : K := if b < a then b else a
  if 0 < lf ∧ uf < 1 then some ([lf, uf], [kmax (lf - 0.1) 0.001, kmin (uf + 0.1) 0.999])
  else if ¬ (lf < 0) ∧ ¬ (0 < lf) then some ([uf], [kmin (uf + 0.1) 0.9])
  else if ¬ (uf < 1) ∧ ¬ (1 < uf) then some ([lf], [kmax (lf - 0.1) 0.1])
  else none
end plans

/-! ### boxcar -/
section boxcar
variable {K : Type} [Add K] [Sub K] [Mul K] [Div K] [OfNat K 0] [OfNat K 1] [NatCast K]

/-- `np.convolve(a, [1/m]*m)` (full) -/
def convBox (a : Array K) (m : Nat) : List K :=
  let w : K := 1 / (m : K)
  (List.range (a.size + m - 1)).map fun i =>
    (List.range m).foldl (fun acc j => if j ≤ i ∧ i - j < a.size then acc + a.getD (i - j) 0 * w else acc) 0

/-- pad with `m` copies of the end values, convolve, excise the central `n` points -/
def boxLowpass (m : Nat) (x : List K) : List K :=
  let n := x.length
  let first := x.headD 0
  let last := x.getLastD 0
  let pad := (List.replicate m first ++ x ++ List.replicate m last).toArray
  let conv := convBox pad m
  let L := conv.length
  (conv.drop (L / 2 - n / 2)).take n

/-- `boxcar_filter` on one channel: `mUb = ceil(1/(2·ub))`, `mLb = ceil(1/(2·lb))` when `lb ≠ 0`;
the low-pass stage puts the original mean back (commit 39c5aa4: "all filtering methods keep the
original DC component") -/
def boxcarFilter (mUb : Nat) (mLb : Option Nat) (x : List K) : List K :=
  let x1 := restoreDC (mean x) (boxLowpass mUb x)
  match mLb with
  | none => x1
  | some m =>
    let lp := boxLowpass m x1
    let mu := mean lp
    (x1.zip lp).map fun (a, b) => a - b + mu

/-! #### `boxcar_filter` on n-d input (`nitime/algorithms/filter.py`)

`n = time_series.shape[-1]`; a 1-d input is wrapped into one row (`np.array([time_series])`) and unwrapped at the
end, a 2-d input is filtered row by row (`for i in range(time_series.shape[0])`) and comes back with its shape; for
more dimensions `time_series[i]` is itself 2-d and `np.hstack((boxcar_ones * time_series[i, 0], time_series[i]))`
raises `ValueError` (operands of different dimensions / not broadcastable) in the first row — unless there is no
row at all.  `n_iterations = 0` leaves `conv_s` unbound (`UnboundLocalError`) as soon as a row is filtered. -/

inductive BoxErr where | valueError | unboundLocal | indexError
  deriving DecidableEq, Repr

/-- consecutive chunks of length `n` (the rows of a C-ordered 2-d array); `fuel` = number of rows -/
def chunks {α : Type} (n : Nat) : Nat → List α → List (List α)
  | 0, _ => []
  | r + 1, l => l.take n :: chunks n r (l.drop n)

/-- the lanes `boxcar_filter` iterates over, by the dimensions of the input -/
def boxLanes {α : Type} (dims : List Nat) (x : List α) : Except BoxErr (List (List α)) :=
  match dims with
  | [] => .error .indexError                     -- `time_series.shape[-1]` of a 0-d array
  | [_] => .ok [x]
  | [r, n] => .ok (chunks n r x)
  | r :: _ => if r = 0 then .ok [] else .error .valueError

/-- `boxcar_filter(time_series, lb, ub, n_iterations)`: every lane through `boxcarFilter`, the shape kept
(the result is the list of filtered lanes, in order) -/
def boxcarND (iters mUb : Nat) (mLb : Option Nat) (dims : List Nat) (x : List K) : Except BoxErr (List (List K)) :=
  match boxLanes dims x with
  | .error e => .error e
  | .ok ls => if iters = 0 ∧ ls ≠ [] then .error .unboundLocal else .ok (ls.map (boxcarFilter mUb mLb))
end boxcar

def ceilHalfInv (f : Float) : Nat := (Float.ceil (1 / (2 * f))).toUInt64.toNat

/-! ### output axis, from the generated descriptors -/
open Nitime.C15 Nitime.Generated.SeriesCalls

structure AxisD where
  rate : Bool     -- sampling rate forwarded from the input
  t0 : Bool
  unit : Bool
  deriving DecidableEq, Repr

def shapeAxis (sh : Shape) : AxisD :=
  { rate := sh.rate == .field .rate || sh.interval == .field .interval,
    t0 := sh.t0 == .field .t0, unit := sh.unit == .field .unit }

def AxisD.comp (a b : AxisD) : AxisD := ⟨a.rate && b.rate, a.t0 && b.t0, a.unit && b.unit⟩

/-- the descriptor of one construction site, looked up by its key in the generated list (a site
that no longer exists in the source gives `none`, never a build failure) -/
def siteAxis (key : String) : Option AxisD :=
  (Nitime.Generated.SeriesCalls.all.find? fun c => c.key == key).map fun c => shapeAxis c.shape

/-- descriptors each method goes through (fir: its own re-wrapping, then `filtfilt` on it) -/
def methodAxis : String → Option AxisD
  | "fir" => do
      let a ← siteAxis "FilterAnalyzer.fir.0"
      let b ← siteAxis "FilterAnalyzer.filtfilt.0"
      pure (a.comp b)
  | "iir" => siteAxis "FilterAnalyzer.filtfilt.0"
  | "filtered_fourier" => siteAxis "FilterAnalyzer.filtered_fourier.0"
  | "filtered_boxcar" => siteAxis "FilterAnalyzer.filtered_boxcar.0"
  | "filtfilt" => siteAxis "FilterAnalyzer.filtfilt.0"     -- the public wrapper (the axis of `in_ts` when one is given)
  | _ => none

/-! ### option handling, read off the GENERATED tables (`Generated/C18Opts.lean`, harness/translate_c18.py)

The model functions above encode the option handling of the source: `ub : Option _` with `none ↦ 1` (fraction) or
`Fs/2` is the `self.ub is not None` / `is None` test (never truthiness: an explicit `0.0` is an edge), `firBandFractions`
divides by `Fs/2`, the boxcar driver line by `Fs`, `boxcarND` keeps `lb == 0 ↦ no high-pass`.  The tables below are the
source text of exactly these fragments; `Props.ub_rule_all`, `lb_rule_all`, `boxcar_guards`, `in_ts_rule`,
`option_flow` are DECIDED statements about them, so an edit of the source re-opens the obligation. -/
open Nitime.Generated in
/-- the constructor parameter that reaches argument `arg` (position or keyword) of `callee` inside `method`: the
argument's source text must be `self.<attr>` for an attribute assigned `self.<attr> = <parameter>` in `__init__` -/
def optionSource (method callee arg : String) : Option String :=
  match C18Opts.callArgs.find? (fun r => r.1 == method && r.2.1 == callee && r.2.2.1 == arg) with
  | none => none
  | some r => (C18Opts.initFlow.find? fun p => "self." ++ p.1 == r.2.2.2).map (·.2)

/-- the five optional parameters that are handed on to an external design / filter, and where they must arrive -/
def optionSites : List (String × String × String) :=
  [("fir", "signal.firwin", "window"), ("iir", "signal.iirdesign", "2"), ("iir", "signal.iirdesign", "3"),
   ("iir", "signal.iirdesign", "ftype"), ("filtered_boxcar", "tsa.boxcar_filter", "n_iterations")]

def optionFlow : List (Option String) := optionSites.map fun s => optionSource s.1 s.2.1 s.2.2

-- ------------------------------------------------------------------ driver
instance : NatCast Float := ⟨Nat.toFloat⟩

open Proto in
def optF (s : String) : Option (Option Float) :=
  if s = "none" then some none else (parseFloat? s).map some

def b2s (b : Bool) : String := if b then "1" else "0"

/-- an integer recording (int16 / int32 / int64 / uint8 samples) as the filters see it: every sample embedded into
binary64 (`Float.ofInt`, exact below 2^53) BEFORE any arithmetic — the filters never compute in the integer type -/
def embedInts (l : List Int) : List Float := l.map Float.ofInt

/-- series data on the protocol: hexadecimal binary64 values, or `i:` followed by decimal integers (integer dtypes) -/
def parseData? (s : String) : Option (List Float) :=
  if s.startsWith "i:" then ((Proto.splitList (s.drop 2).toString).mapM String.toInt?).map embedInts
  else Proto.parseFloatList? s

/-- `filtered_boxcar` on one channel: band edges as fractions of Fs (`ub None ↦ 1.0`), `lb == 0 ↦` no high-pass stage -/
def boxcarLine (fs lb : Float) (ub : Option Float) (x : List Float) : List Float :=
  let u := match ub with | some u => u / fs | none => 1.0
  let l := lb / fs
  let ml := if l == 0 then none else some (ceilHalfInv l)
  boxcarFilter (ceilHalfInv u) ml x

/-! ### the analyzer as an object with a history (Model/C18Sess.lean): input = (Fs, one channel), params = (lb, ub)

`filtered_fourier`'s body WRITES a parameter (`if self.ub is None: self.ub = Fs/2`): `touch`.  `fir` / `iir` are external
designs (not run through the session op; judged against fresh analyzers by the oracle). -/
def floatSem : Sess.Sem (Float × List Float) (Float × Option Float) (List Float) where
  compute m i p :=
    match m with
    | .fourier => filteredFourier i.1 p.1 p.2 i.2
    | .boxcar => boxcarLine i.1 p.1 p.2 i.2
    | _ => []
  touch m i p :=
    match m with
    | .fourier => (p.1, some (p.2.getD (i.1 / 2)))
    | _ => p

open Proto in
/-- one operation token of a history line: `lb=<f>`, `ub=<f|none>`, `reset`, `rf` / `rb` (read filtered_fourier /
filtered_boxcar), `in=<Fs>:<data>` (another input), `opt` (an option neither getter reads: filt_order, gpass, …), `refused` (a call that raised part-way) -/
def parseSessOp (t : String) : Option (Sess.Op (Float × List Float) (Float × Option Float)) :=
  if t = "reset" then some .reset
  else if t = "rf" then some (.read .fourier)
  else if t = "rb" then some (.read .boxcar)
  else if t = "opt" then some (.setParam id)
  else if t = "refused" then some .refused
  else if t.startsWith "lb=" then (parseFloat? (t.drop 3).toString).map fun v => .setParam fun p => (v, p.2)
  else if t.startsWith "ub=" then (optF (t.drop 3).toString).map fun v => .setParam fun p => (p.1, v)
  else if t.startsWith "in=" then
    match (t.drop 3).toString.splitOn ":" with
    | [fs, x] =>
      match parseFloat? fs, parseData? x with
      | some fs, some x => some (.setInput (fs, x))
      | _, _ => none
    | _ => none
  else none

open Proto in
def handle (args : List String) : String :=
  match args with
  | ["fourier", fs, lb, ub, x] =>
    match parseFloat? fs, parseFloat? lb, optF ub, parseData? x with
    | some fs, some lb, some ub, some x =>
      "ok " ++ showFloatList (filteredFourier fs lb ub x)
    | _, _, _, _ => "bad-args"
  | ["ffmodel", b, a, zi, padlen, x] =>
    -- FilterAnalyzer.filtfilt(b, a) on one channel: DC restoration around the MODEL of scipy.signal.filtfilt
    match parseFloatList? b, parseFloatList? a, parseFloatList? zi, padlen.toNat?, parseFloatList? x with
    | some b, some a, some zi, some p, some x =>
      "ok " ++ showFloatList (filtfiltWrapper (FiltFilt.filtfilt b a zi p) x)
    | _, _, _, _, _ => "bad-args"
  | ["restoredc", x, y] =>
    match parseData? x, parseFloatList? y with
    | some x, some y => "ok " ++ showFloatList (restoreDC (mean x) y)
    | _, _ => "bad-args"
  | ["firplan", fs, lb, ub, order, n] =>
    match parseFloat? fs, parseFloat? lb, optF ub, order.toNat?, n.toNat? with
    | some fs, some lb, some ub, some order, some n =>
      match firPlan fs lb ub order n with
      | .error _ => "err ValueError"
      | .ok (taps, lp, hp) =>
        "ok " ++ toString taps ++ " " ++ (match lp with | some v => showFloat v | none => "-") ++ " "
          ++ (match hp with | some v => showFloat v | none => "-")
    | _, _, _, _, _ => "bad-args"
  | ["iirplan", fs, lb, ub] =>
    match parseFloat? fs, parseFloat? lb, optF ub with
    | some fs, some lb, some ub =>
      match iirPlan fs lb ub with
      | none => "err UnboundLocalError"
      | some (wp, ws) => "ok " ++ showFloatList wp ++ " " ++ showFloatList ws
    | _, _, _ => "bad-args"
  | ["boxcar", fs, lb, ub, x] =>
    match parseFloat? fs, parseFloat? lb, optF ub, parseFloatList? x with
    | some fs, some lb, some ub, some x => "ok " ++ showFloatList (boxcarLine fs lb ub x)
    | _, _, _, _ => "bad-args"
  | "session" :: fs :: lb :: ub :: x :: ops =>
    -- ONE analyzer built with (lb, ub) on (Fs, x), then the whole history; answer = what every read returned, in order
    match parseFloat? fs, parseFloat? lb, optF ub, parseData? x, ops.mapM parseSessOp with
    | some fs, some lb, some ub, some x, some ops =>
      "ok " ++ "|".intercalate ((Sess.run floatSem (Sess.fresh (fs, x) (lb, ub)) ops).2.map showFloatList)
    | _, _, _, _, _ => "bad-args"
  | ["boxcarnd", dims, iters, lb, ub, x] =>
    -- boxcar_filter(time_series.reshape(dims), lb, ub, n_iterations): lb, ub fractions of the sampling rate
    match (dims.splitOn "x").mapM String.toNat?, iters.toNat?, parseFloat? lb, parseFloat? ub, parseData? x with
    | some dims, some iters, some l, some u, some x =>
      let ml := if l == 0 then none else some (ceilHalfInv l)
      match boxcarND iters (ceilHalfInv u) ml dims x with
      | .ok ls => "ok " ++ "x".intercalate (dims.map toString) ++ " " ++ showFloatList ls.flatten
      | .error .valueError => "err ValueError"
      | .error .unboundLocal => "err Other:UnboundLocalError"
      | .error .indexError => "err IndexError"
    | _, _, _, _, _ => "bad-args"
  | ["boxcarq", mub, mlb, x] =>
    match mub.toNat?, (if mlb = "none" then some none else mlb.toNat?.map some), (splitList x).mapM parseRat? with
    | some mub, some mlb, some x =>
      "ok " ++ joinList ((boxcarFilter mub mlb x).map showRat)
    | _, _, _ => "bad-args"
  | ["optflow"] =>
    "ok " ++ " ".intercalate ((optionSites.zip optionFlow).map fun (s, o) =>
      (o.getD "?") ++ ">" ++ s.2.1 ++ "." ++ s.2.2)
  | ["axis", m] =>
    match methodAxis m with
    | some a => "ok " ++ b2s a.rate ++ " " ++ b2s a.t0 ++ " " ++ b2s a.unit
    | none => "bad-args"
  | _ => "bad-op"

end Nitime.C18
