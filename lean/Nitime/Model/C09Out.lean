/-
C09 — where the RESULTS of `cache_to_coherency` / `cache_to_relative_phase` / `cache_to_psd` / `cache_to_phase` live
(aliasing, classes L8 / L6).  Core Lean only.

A cache (the dict `cache_fft` returns) is queried again and again, with other or equal pair lists; the caller keeps
every result.  Arrays live in a heap (id = allocation order).  Two disciplines for the output array of a call:
  `keep = false`  the function allocates it (`np.zeros(...)`, `{}`) — the code that exists;
  `keep = true`   the function keeps ONE output array per shape inside the cache dict and refills it (`fill(0)`) on
                  re-use (the change class of seeded change C09-11).
Which one the current source uses is read off by `harness/translate_c09.py` (gen_out → `Generated/CacheOut.lean`:
how the returned name is bound, whether the function writes into `cache` or hands it to a helper).
`finalViews`: what the caller finds, at the end of the history, in each result it was handed.
-/
namespace Nitime.C09.Out

/-- how the returned array is bound in the source -/
inductive Alloc where
  | fresh        -- `np.zeros(...)` / `np.empty(...)` / `{}` in the function itself
  | fromCache    -- an expression that involves `cache`
  | unknown
  deriving DecidableEq, Repr

/-- one query: the shape of its output `(max i + 1, max j + 1, n_freqs)` as a key, and the values it computes -/
structure Call where
  shape : Nat
  vals : List Int
  deriving Repr

structure St where
  heap : List (List Int)            -- every array allocated so far
  kept : List (Nat × Nat)           -- shape ↦ id of the output array kept in the cache dict
  handed : List (Nat × List Int)    -- (id handed to the caller, its content at hand-out)
  deriving Repr

def init : St := ⟨[], [], []⟩

def call (keep : Bool) (s : St) (c : Call) : St :=
  if keep then
    match s.kept.lookup c.shape with
    | some i => { s with heap := s.heap.set i c.vals, handed := s.handed ++ [(i, c.vals)] }
    | none => ⟨s.heap ++ [c.vals], (c.shape, s.heap.length) :: s.kept, s.handed ++ [(s.heap.length, c.vals)]⟩
  else ⟨s.heap ++ [c.vals], s.kept, s.handed ++ [(s.heap.length, c.vals)]⟩

def run (keep : Bool) (s : St) (cs : List Call) : St := cs.foldl (call keep) s

def finalViews (s : St) : List (List Int) := s.handed.map fun p => (s.heap[p.1]?).getD []

/-- the ids of the results handed out -/
def ids (s : St) : List Nat := s.handed.map (·.1)

end Nitime.C09.Out
