/-
C06 — cross-spectral matrices.  The estimators themselves are modelled in
`Nitime/Model/C04.lean` (`periodogramCsdAt`, `multiTaperCsdAt`, `welchSpectraAt`, with the
lower-triangle pair loops `lowerPairs` and the completion `completeHermitian` of the source);
this file adds the Hermitian completion of the upper-triangular array that
`get_spectra(method='welch')` returns by design, and the driver operations.

Operations (Float reading; arguments exactly as for C04, see `Nitime/Model/C04.lean`):
    pcsd … / mtcsd … / welch …      the matrices as the functions return them
    welchc <Fs> <N> <noverlap> <sides> <M> <window> <x>   the completed Welch matrix
-/
import Nitime.Model.C04

namespace Nitime.C06
open Nitime.Num Nitime.C04

section generic
variable {R K : Type} [RScalar R] [CScalar R K]

/-- fill the lower triangle of an upper-triangular array with the conjugates:
`C[i][j] = W[i][j]` for `i ≤ j`, `conj W[j][i]` otherwise -/
def completeUpper (W : Nat → Nat → Nat → K) (i j m : Nat) : K :=
  if i ≤ j then W i j m else conj (W j i m)

/-- completed Welch cross-spectral matrix -/
def welchCompletedAt (tw : Nat → K) (Fs : R) (n N noverlap : Nat) (onesided : Bool) (win : Nat → R)
    (x : Nat → Nat → K) (i j m : Nat) : K :=
  completeUpper (welchSpectraAt tw Fs n N noverlap onesided win x) i j m

def welchCompletedList (tw : Nat → K) (Fs : R) (n N noverlap M : Nat) (onesided : Bool)
    (win : Nat → R) (x : Nat → Nat → K) : List K :=
  let X := memoArr3 M (welchSegs n N noverlap) N fun i => segSpec tw N n noverlap win (x i)
  matList M (outLen N onesided)
    (completeUpper (welchSpectraOf Fs n N noverlap onesided win
      (memoGet3 X fun i => segSpec tw N n noverlap win (x i))))

end generic

open Nitime.Proto

def handle (args : List String) : String :=
  match args with
  | ["welchc", fs, nfft, nov, sides, m, win, xs] =>
    match parseFloat? fs, nfft.toNat?, nov.toNat?, m.toNat?, parseFArray? win, parseSig? xs with
    | some Fs, some N, some nov, some M, some w, some x =>
      if M = 0 ∨ N = 0 ∨ nov ≥ N then "bad-op" else
      let n := x.size / M
      let tw := twiddleFn N (twiddleTable N)
      "ok " ++ showCList (welchCompletedList tw Fs n N nov M (sides == "1") (ffn w) (chan x n))
    | _, _, _, _, _, _ => "bad-op"
  | _ => Nitime.C04.handle args

end Nitime.C06
