/-
C01 — vocabulary of the GENERATED attribute-discipline table (`Nitime/Generated/C01Ctor.lean`, written by
harness/translate_c01.py from the AST of `TimeArray.__new__ / __array_finalize__ / convert_unit`,
`UniformTime.__new__ / __array_finalize__` and the reductions).  Core Lean only.

A time object carries TWO coupled attributes: `time_unit` (the LABEL it reports) and
`_conversion_factor` (the FACTOR bare numbers are read with and values are printed with).
A `Path` says, for one return path of an entry point, where each of the two comes from.
-/
namespace Nitime.C01Attr

inductive Src where
  | arg            -- the (resolved) unit expression of the call: `x.time_unit = time_unit`
  | lit (s : String)   -- a string literal
  | tableOfLabel   -- `time_unit_conversion[<the very expression the label was assigned from>]`
  | tableOfOther   -- the table, but indexed with something else (or with a name re-assigned in between)
  | fromObj        -- copied from the object the view was made from (`obj.time_unit` / `obj._conversion_factor`)
  | fromOtherObj   -- copied from an object other than the one the label came from
  | unset          -- not assigned on this path: whatever `__array_finalize__` left
  | other          -- outside the translated fragment
  deriving DecidableEq, Repr

structure Path where
  label : Src
  factor : Src
  deriving DecidableEq, Repr

inductive RedKind where
  | relabel   -- result built by the constructor in the base unit, then `convert_unit(self.time_unit)`
  | view      -- an element of `self` / `self` itself: attributes come along through `__array_finalize__`
  | missing   -- not defined by the class (ndarray's own: attributes come along like for a view)
  | other
  deriving DecidableEq, Repr

/-- one event of a method body that updates the two attributes, in source order (GENERATED table
`Nitime/Generated/C01Fail.lean`): what is written, and what can raise, BEFORE or AFTER what -/
inductive Ev where
  | writeLabel       -- `self.time_unit = …`
  | writeFactor      -- `self._conversion_factor = …`
  | lookup           -- `time_unit_conversion[<the unit argument>]` is evaluated: raises when the argument is not a key
  | raiseIfNone      -- `if <arg> is None: raise …`
  | raiseIfInvalid   -- `if <arg> not in time_unit_conversion: raise …`
  | raiseOther       -- a raise under any other guard
  | unknown          -- outside the translated fragment (no theorem accepts it)
  deriving DecidableEq, Repr

end Nitime.C01Attr
