/-
C01 — vocabulary of the GENERATED attribute-discipline table (`Nitime/Generated/C01Ctor.lean`, written by
harness/translate_c01.py from the AST of `TimeArray.__new__ / __array_finalize__ / convert_unit`,
`UniformTime.__new__ / __array_finalize__` and the reductions).  Core Lean only.

A time object carries TWO coupled attributes: `time_unit` (the LABEL it reports) and
`_conversion_factor` (the FACTOR bare numbers are read with and values are printed with).
A `Path` says, for one return path of an entry point, where each of the two comes from.
-/
namespace Nitime.C01Attr

inductive Src where
  | arg            -- the (resolved) unit expression of the call: `x.time_unit = time_unit`
  | lit (s : String)   -- a string literal
  | tableOfLabel   -- `time_unit_conversion[<the very expression the label was assigned from>]`
  | tableOfOther   -- the table, but indexed with something else (or with a name re-assigned in between)
  | fromObj        -- copied from the object the view was made from (`obj.time_unit` / `obj._conversion_factor`)
  | fromOtherObj   -- copied from an object other than the one the label came from
  | unset          -- not assigned on this path: whatever `__array_finalize__` left
  | other          -- outside the translated fragment
  deriving DecidableEq, Repr

structure Path where
  label : Src
  factor : Src
  deriving DecidableEq, Repr

inductive RedKind where
  | relabel   -- result built by the constructor in the base unit, then `convert_unit(self.time_unit)`
  | view      -- an element of `self` / `self` itself: attributes come along through `__array_finalize__`
  | missing   -- not defined by the class (ndarray's own: attributes come along like for a view)
  | other
  deriving DecidableEq, Repr

/-- one event of a method body that updates the two attributes, in source order (GENERATED table
`Nitime/Generated/C01Fail.lean`): what is written, and what can raise, BEFORE or AFTER what -/
inductive Ev where
  | writeLabel       -- `self.time_unit = …`
  | writeFactor      -- `self._conversion_factor = …`
  | lookup           -- `time_unit_conversion[<the unit argument>]` is evaluated: raises when the argument is not a key
  | raiseIfNone      -- `if <arg> is None: raise …`
  | raiseIfInvalid   -- `if <arg> not in time_unit_conversion: raise …`
  | raiseOther       -- a raise under any other guard
  | unknown          -- outside the translated fragment (no theorem accepts it)
  deriving DecidableEq, Repr

/-- the comparison FORM of a test of a boolean / optional parameter in the source (GENERATED table `flagTests`
in `Nitime/Generated/C01Ctor.lean`).  `x == False`, `not x` and `x is None` agree on `True` / `False` but not on
`None`, `0`, `0.0`, `''`, `[]`, `np.False_`, `'False'` … -/
inductive FlagForm where
  | eqFalse      -- `x == False`   (also `not x == True` is NOT this: recorded as `.other`)
  | neFalse      -- `x != False`
  | eqTrue       -- `x == True`
  | neTrue       -- `x != True`
  | isNone       -- `x is None`
  | isNotNone    -- `x is not None`
  | isFalse      -- `x is False`
  | isTrue       -- `x is True`
  | truthy       -- `if x:`
  | notTruthy    -- `if not x:`
  | other        -- any other shape (no theorem accepts it)
  deriving DecidableEq, Repr

/-- the value classes a caller can hand to a boolean / optional parameter (class "L3, sharper") -/
inductive FlagVal where
  | pyNone | pyFalse | pyTrue | int0 | float0 | emptyStr | emptyList | npFalse | npTrue | int1 | strFalse
  deriving DecidableEq, Repr

/-- python `v == False` -/
def FlagVal.eqFalse : FlagVal → Bool
  | .pyFalse | .int0 | .float0 | .npFalse => true
  | _ => false

/-- python `v == True` -/
def FlagVal.eqTrue : FlagVal → Bool
  | .pyTrue | .int1 | .npTrue => true
  | _ => false

/-- python `bool(v)` -/
def FlagVal.truthy : FlagVal → Bool
  | .pyTrue | .npTrue | .int1 | .strFalse => true
  | _ => false

/-- does the test hold for the value?  (`.other`: never — no theorem accepts a table that contains it) -/
def FlagForm.holds : FlagForm → FlagVal → Bool
  | .eqFalse, v => v.eqFalse
  | .neFalse, v => !v.eqFalse
  | .eqTrue, v => v.eqTrue
  | .neTrue, v => !v.eqTrue
  | .isNone, v => v == .pyNone
  | .isNotNone, v => v != .pyNone
  | .isFalse, v => v == .pyFalse
  | .isTrue, v => v == .pyTrue
  | .truthy, v => v.truthy
  | .notTruthy, v => !v.truthy
  | .other, _ => false

/-- one test of a parameter: `fn` = `Class.method`, `param` = parameter name (or `isinstance(p,Class)`) -/
structure FlagTest where
  fn : String
  param : String
  form : FlagForm
  deriving DecidableEq, Repr

end Nitime.C01Attr
