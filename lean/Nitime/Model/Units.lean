/-
Time units of `nitime.timeseries` (core Lean only).  The conversion factors themselves are NOT
written here: `Nitime/Generated/Units.lean` is regenerated from the `time_unit_conversion` dict
literal in /repo/nitime/timeseries.py on every run by harness/translate.py.
-/
namespace Nitime

inductive TimeUnit where
  | ps | ns | us | ms | s | m | h | D | W
  deriving DecidableEq, Repr, Inhabited

namespace TimeUnit

def all : List TimeUnit := [ps, ns, us, ms, s, m, h, D, W]

def name : TimeUnit → String
  | ps => "ps" | ns => "ns" | us => "us" | ms => "ms" | s => "s"
  | m => "m" | h => "h" | D => "D" | W => "W"

def ofString? (str : String) : Option TimeUnit :=
  all.find? (fun u => u.name = str)

end TimeUnit
end Nitime
