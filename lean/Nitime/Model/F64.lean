/-
Exact model of IEEE-754 binary64 arithmetic on `Rat` (core Lean only).

A finite double is represented by the rational number it denotes.  `rne` rounds an arbitrary
rational to the nearest representable double (ties to even) in the *normal* range; the
property domains (|x| < 2^62 ps, factors ≤ 6.048e17) never leave it and never underflow,
apart from 0 which is handled separately.  The model is validated bit-for-bit against the
hardware on every run of the C01 correspondence (ops `f64mul`, `f64div`, `f64add`, `f64rint`).
-/
namespace Nitime.F64

def pow2 (e : Int) : Rat :=
  if e ≥ 0 then ((2 ^ e.toNat : Nat) : Rat) else 1 / ((2 ^ (-e).toNat : Nat) : Rat)

/-- floor(log2 q) for q > 0 -/
def ilog2 (q : Rat) : Int :=
  let n := q.num.toNat
  let d := q.den
  let e0 : Int := (Nat.log2 n : Int) - (Nat.log2 d : Int)
  if pow2 e0 ≤ q then (if pow2 (e0 + 1) ≤ q then e0 + 1 else e0) else e0 - 1

/-- round half to even of a rational to an integer (numpy `.round()`, C `rint`) -/
def rint (q : Rat) : Int :=
  let f := q.floor
  let r := q - f
  if r < 1/2 then f else if r > 1/2 then f + 1 else (if f % 2 = 0 then f else f + 1)

/-- truncation toward zero (`np.int64(x)` for a float x) -/
def trunc (q : Rat) : Int := if q < 0 then -((-q).floor) else q.floor

/-- ceiling -/
def ceil (q : Rat) : Int := -((-q).floor)

/-- round to nearest-even binary64 (normal range) -/
def rne (q : Rat) : Rat :=
  if q = 0 then 0 else
  let a := if q < 0 then -q else q
  let e := ilog2 a
  let ulp := pow2 (e - 52)
  let m := rint (a / ulp)
  let r := (m : Rat) * ulp
  if q < 0 then -r else r

def fmul (a b : Rat) : Rat := rne (a * b)
def fadd (a b : Rat) : Rat := rne (a + b)
def fsub (a b : Rat) : Rat := rne (a - b)
def fdiv (a b : Rat) : Rat := rne (a / b)
/-- conversion of a (python / int64) integer to binary64 -/
def ofInt (i : Int) : Rat := rne (i : Rat)

/-- exact value of a finite double given by its bit pattern -/
def ofBits (bits : Nat) : Rat :=
  let sign : Nat := bits / 2^63
  let ex : Nat := (bits / 2^52) % 2048
  let man : Nat := bits % 2^52
  let v : Rat := if ex = 0 then (man : Rat) * pow2 (-1074)
                 else (((2^52 + man : Nat) : Int) : Rat) * pow2 ((ex : Int) - 1075)
  if sign = 1 then -v else v

def ofFloat (x : Float) : Rat := ofBits x.toBits.toNat

/-- bit pattern of a rational that is exactly representable as a normal double (or 0) -/
def toBits (q : Rat) : Nat :=
  if q = 0 then 0 else
  let a := if q < 0 then -q else q
  let e := ilog2 a
  let m : Int := (a / pow2 (e - 52)).floor
  let s : Nat := if q < 0 then 2^63 else 0
  s + ((e + 1023).toNat) * 2^52 + (m.toNat - 2^52)

def toFloat (q : Rat) : Float := Float.ofBits (UInt64.ofNat (toBits (rne q)))

/-- representable as a normal double or zero -/
def Representable (q : Rat) : Prop := rne q = q

end Nitime.F64
