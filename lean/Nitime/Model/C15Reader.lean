/-
C15 — the file reader seen as a HISTORY on a heap of array buffers (core Lean only).

`time_series_from_file` is called again and again on the same files, and callers modify the series they were
handed in place.  The property ("returns exactly the voxel data at the requested coordinates") is about every
call of such a history, so object identity matters: which buffer does a returned series' `.data` live in?

* `File`   what is on disk: `X·Y·Z` voxel rows (C order) of `T` samples.  No operation writes it.
* `St`     disk, heap of live ndarray buffers (identity = index), the hidden image cache of the `keepImages`
           variant (file ↦ buffer of the array its cached image object holds), and for every series returned so
           far the buffer its `.data` lives in.
* `fdata`  `im.get_fdata()`: `freshLoad` — `im = load(f)` is a new image, the array is a NEW buffer holding the
           file's data; `keepImages` — the image object is reused, and a nibabel image hands out the array it
           cached at the first call.
* `piece`  `_tseries_from_nifti_helper` (plain options): `coords=None` keeps THE array (`out_data = data`),
           coordinates select rows by fancy indexing (a new buffer).
* `read`   one call: a single file (string argument) or a list of files (`concatenate_time_series`: new buffer).
* `write`  the caller assigns into `results[r].data` in place (any new content).
* `expected`  the voxel data on disk at the coordinates, runs appended in time — a function of the disk only.
-/
import Nitime.Model.C15Types
import Nitime.Generated.ReaderLoads

namespace Nitime.C15.Reader

abbrev Buf (α : Type) := List (List α)

structure File (α : Type) where
  Y : Nat
  Z : Nat
  rows : Buf α

def emptyFile {α} : File α := ⟨0, 0, []⟩

structure Coords where
  c0 : List Nat
  c1 : List Nat
  c2 : List Nat
  deriving Repr, DecidableEq

structure St (α : Type) where
  disk : List (File α)
  heap : List (Buf α)
  imgCache : List (Nat × Nat)
  results : List Nat

def init {α} (disk : List (File α)) : St α := ⟨disk, [], [], []⟩

/-- `data[c0, c1, c2]` on rows in C order: row i is voxel (c0[i], c1[i], c2[i]) -/
def sel {α} (Y Z : Nat) (b : Buf α) (c : Coords) : Buf α :=
  (List.range c.c0.length).map fun i => b.getD ((c.c0.getD i 0 * Y + c.c1.getD i 0) * Z + c.c2.getD i 0) []

/-- `np.concatenate(…, -1)` of blocks with equal row counts -/
def catT {α} (bs : List (Buf α)) : Buf α :=
  match bs with
  | [] => []
  | d :: _ => (List.range d.length).map fun r => (bs.map fun b => b.getD r []).flatten

def fileAt {α} (disk : List (File α)) (f : Nat) : File α := disk.getD f emptyFile

/-- the voxel data of one file at the requested coordinates (all rows for `coords=None`) -/
def filePiece {α} (fl : File α) (c : Option Coords) : Buf α :=
  match c with
  | none => fl.rows
  | some c => sel fl.Y fl.Z fl.rows c

/-- what a read has to return: a function of the DISK alone -/
def expected {α} (disk : List (File α)) (fs : List Nat) (single : Bool) (c : Option Coords) : Buf α :=
  if single then filePiece (fileAt disk (fs.headD 0)) c
  else catT (fs.map fun f => filePiece (fileAt disk f) c)

def alloc {α} (st : St α) (b : Buf α) : St α × Nat :=
  ({ st with heap := st.heap ++ [b] }, st.heap.length)

def lookup (f : Nat) : List (Nat × Nat) → Option Nat
  | [] => none
  | (g, id) :: rest => if g = f then some id else lookup f rest

/-- `im.get_fdata()` for file `f` -/
def fdata {α} (src : ImgSrc) (st : St α) (f : Nat) : St α × Nat :=
  match src with
  | .keepImages =>
    match lookup f st.imgCache with
    | some id => (st, id)
    | none =>
      let r := alloc st (fileAt st.disk f).rows
      ({ r.1 with imgCache := (f, r.2) :: r.1.imgCache }, r.2)
  | _ => alloc st (fileAt st.disk f).rows

/-- `_tseries_from_nifti_helper(coords, data, …)` with plain options: the buffer of the series' data -/
def piece {α} (src : ImgSrc) (st : St α) (f : Nat) (c : Option Coords) : St α × Nat :=
  let r := fdata src st f
  match c with
  | none => r
  | some c => alloc r.1 (sel (fileAt st.disk f).Y (fileAt st.disk f).Z (r.1.heap.getD r.2 []) c)

def pieces {α} (src : ImgSrc) : St α → List Nat → Option Coords → St α × List Nat
  | st, [], _ => (st, [])
  | st, f :: fs, c =>
    let r := piece src st f c
    let rest := pieces src r.1 fs c
    (rest.1, r.2 :: rest.2)

/-- one call of `time_series_from_file`; the new series is appended to `results` -/
def read {α} (src : ImgSrc) (st : St α) (fs : List Nat) (single : Bool) (c : Option Coords) : St α :=
  if single then
    let r := piece src st (fs.headD 0) c
    { r.1 with results := r.1.results ++ [r.2] }
  else
    let r := pieces src st fs c
    let a := alloc r.1 (catT (r.2.map fun id => r.1.heap.getD id []))
    { a.1 with results := a.1.results ++ [a.2] }

/-- `results[r].data[...] = b` (any in-place modification: the buffer's new content is `b`) -/
def write {α} (st : St α) (r : Nat) (b : Buf α) : St α :=
  match st.results[r]? with
  | none => st
  | some id => { st with heap := st.heap.set id b }

inductive Op (α : Type) where
  | read (fs : List Nat) (single : Bool) (c : Option Coords)
  | write (r : Nat) (b : Buf α)

def step {α} (src : ImgSrc) (st : St α) : Op α → St α
  | .read fs single c => read src st fs single c
  | .write r b => write st r b

def run {α} (src : ImgSrc) (st : St α) (ops : List (Op α)) : St α := ops.foldl (step src) st

/-- the data of the k-th returned series, now -/
def dataOf {α} (st : St α) (k : Nat) : Buf α := st.heap.getD (st.results.getD k st.heap.length) []

/-- the data of the series returned last -/
def lastData {α} (st : St α) : Buf α := dataOf st (st.results.length - 1)

/-- earlier results living in the same buffer as the k-th (`np.shares_memory`) -/
def aliases {α} (st : St α) (k : Nat) : List Nat :=
  (List.range k).filter fun j => st.results.getD j 0 == st.results.getD k 0

/-- the variant of the code that exists, from the GENERATED `get_fdata()` sites: all `freshLoad` ⇒ `freshLoad` -/
def codeSrc : ImgSrc :=
  if Nitime.Generated.ReaderLoads.all.isEmpty then .other
  else if Nitime.Generated.ReaderLoads.all.all (fun s => s.src == .freshLoad) then .freshLoad
  else .other

/-- the reader's validation of its options: `normalize` ∈ {None, 'percent', 'zscore'} (checked before anything is
read), `filter['method']` ∈ {'boxcar', 'fourier', 'fir', 'iir'} (checked in the helper); anything else is refused
with `ValueError` ("-" = option not given) -/
def optionsOk (normalize method : String) : Bool :=
  (normalize == "-" || normalize == "percent" || normalize == "zscore") &&
  (method == "-" || method == "boxcar" || method == "fourier" || method == "fir" || method == "iir")

/-! ### line protocol: `readseq <Y> <Z> <V> <Ts> <tokens> <ops>` -/

def chunkRows {α} (t : Nat) (xs : List α) : Buf α :=
  if t = 0 then [] else (List.range (xs.length / t)).map fun i => (xs.drop (i * t)).take t

def dots (s : String) : List String := if s = "-" then [] else s.splitOn "."

def parseCoords? (s : String) : Option (Option Coords) :=
  if s = "-" then some none else
  match s.splitOn "/" with
  | [a, b, c] =>
    match (dots a).mapM String.toNat?, (dots b).mapM String.toNat?, (dots c).mapM String.toNat? with
    | some a, some b, some c => some (some ⟨a, b, c⟩)
    | _, _, _ => none
  | _ => none

def parseOp? (s : String) : Option (Op String) :=
  match s.splitOn ":" with
  | ["r", fs, sl, c] =>
    match (fs.splitOn "+").mapM String.toNat?, parseCoords? c with
    | some fs, some c => some (.read fs (sl == "s") c)
    | _, _ => none
  | ["w", r, t, toks] =>
    match r.toNat?, t.toNat? with
    | some r, some t => some (.write r (chunkRows t (dots toks)))
    | _, _ => none
  | _ => none

def showBuf (b : Buf String) : String :=
  let t := (b.headD []).length
  s!"{b.length}x{t}:" ++ (if b.flatten.isEmpty then "-" else ".".intercalate b.flatten)

def showAliases (l : List Nat) : String := if l.isEmpty then "-" else ".".intercalate (l.map toString)

/-- run the history, reporting after every read the data of the new series and the earlier series it shares
memory with, and at the end the data of every series handed out -/
def report (src : ImgSrc) (st : St String) (ops : List (Op String)) : String :=
  let r := ops.foldl (fun (acc : St String × List String) op =>
      let st' := step src acc.1 op
      match op with
      | .read .. => (st', acc.2 ++ [showBuf (lastData st') ++ ":" ++ showAliases (aliases st' (st'.results.length - 1))])
      | .write .. => (st', acc.2 ++ ["w"])) (st, [])
  "ok " ++ " ".intercalate r.2 ++ " | " ++
    " ".intercalate ((List.range r.1.results.length).map fun k => showBuf (dataOf r.1 k))

def handleReadseq (y z v ts toks ops : String) : String :=
  match y.toNat?, z.toNat?, v.toNat?, ((ts.splitOn ",").mapM String.toNat?), (ops.splitOn ";").mapM parseOp? with
  | some y, some z, some v, some ts, some ops =>
    match codeSrc with
    | .other => "err reader-image-source-not-vouched"
    | src =>
      let all := dots toks
      let files := (ts.foldl (fun (acc : List (File String) × List String) t =>
          (acc.1 ++ [⟨y, z, chunkRows t (acc.2.take (v * t))⟩], acc.2.drop (v * t))) ([], all)).1
      report src (init files) ops
  | _, _, _, _, _ => "bad-op"

end Nitime.C15.Reader
