/-
C02 — model of `nitime.timeseries.UniformTime.__new__`, `Frequency`, `Frequency.to_period`,
`TimeSeries.__init__` and the lazy `TimeSeries.time` (core Lean only).

The model follows the source branch by branch and exists in two variants:
* `.intended` — the property-satisfying behaviour (the code with the repairs proposed in
  `proposed_fixes/C02-*.diff`): the period of a rate is rounded to the nearest picosecond, the
  number of samples is the requested length (or, for a duration-only specification, the number of
  multiples of the interval before the duration, on integers), the reported duration is `n·Δ`,
  construction from an existing axis keeps its start and reads a rate in Hz.
* `.current` — the unchanged tree: `to_period` truncates, the sample count is numpy's
  `arange` length `⌈fl((stop−start)/step)⌉` of a duration computed in binary64, the reported
  duration is the requested one, `duration == data.duration` is a comparison (→ `TypeError`), a
  rate given with an existing axis is read as `1.0/rate` in the axis unit, `t0` defaults to 0,
  and `float(duration)` of a time object is its picosecond payload.
The full theorems are proved for `.intended`, the counterexamples for `.current`; the
correspondence compares the implementation with `.intended` and reports `.current` alongside.

Pieces: `checkTspec` (generated validity tables) → `inherit` (existing axis) → `checkUnit`/
`inferUnit` → `deriveIntervalRate` (`frequency`, `toPeriod`) → `durationPs` → `build`
(sample count, duration) ; `mkSeries`/`mkSeriesFromTime` resolve the series' own attributes and
call `mkUniform` exactly like the `time` property does.
-/
import Nitime.Model.F64
import Nitime.Model.Units
import Nitime.Model.Proto
import Nitime.Model.C01
import Nitime.Generated.Units
import Nitime.Generated.Tspecs

namespace Nitime.C02
open Nitime
open Nitime.C01 (Num toPs)

inductive Err where
  | valueError | typeError | zeroDiv
  deriving Repr, DecidableEq

inductive Variant where
  | current | intended
  deriving Repr, DecidableEq

/-- a time-valued argument: bare python number (read in the axis unit) or a 0-d time object -/
inductive TArg where
  | num (v : Num)
  | tobj (ps : Int) (unit : TimeUnit)
  deriving Repr, DecidableEq

/-- a rate argument: bare number (Hz) or a `Frequency` object (binary64 Hz) -/
inductive RArg where
  | num (v : Num)
  | freq (hz : Rat)
  deriving Repr, DecidableEq

/-- the `time_unit` argument: `None`, a key of the conversion table, or anything else -/
inductive UArg where
  | none | ok (u : TimeUnit) | bad
  deriving Repr, DecidableEq

/-- what is observable of a uniform axis: everything in whole picoseconds, the rate as the exact
value of the stored binary64 -/
structure Axis where
  t0 : Int
  dt : Int
  n : Nat
  dur : Int
  rate : Rat
  unit : TimeUnit
  deriving Repr, DecidableEq

structure Spec where
  data : Option Axis := none
  length : Option Nat := none
  duration : Option TArg := none
  rate : Option RArg := none
  interval : Option TArg := none
  t0 : Option TArg := none
  unit : UArg := .none
  deriving Repr

/-- sample `i` of an axis; numpy's integer `arange` fills `start + i*step`, the repaired code
computes `t0 + arange(n)*Δ` -/
def sampleAt (a : Axis) (i : Nat) : Int := a.t0 + (i : Int) * a.dt

def samples (a : Axis) : List Int := (List.range a.n).map (sampleAt a)

/-! ### argument validation (tables regenerated from the source) -/

def tspecOf (s : Spec) : List Bool :=
  [s.interval.isSome, s.rate.isSome, s.length.isSome, s.duration.isSome]

def validTspecs (withData : Bool) : List (List Bool) :=
  (Generated.uniformValid.getD []) ++
    (if withData then Generated.uniformValidWithData.getD [] else [])

/-- `tspecs_w_data[name]`, names in the order nothing, sampling_interval, sampling_rate, length,
duration -/
def wd (i : Nat) : List Bool := (Generated.uniformValidWithData.getD []).getD i []

def checkTspec (s : Spec) : Except Err Unit :=
  if (validTspecs s.data.isSome).contains (tspecOf s) then .ok () else .error .valueError

/-! ### Frequency -/

def numToF : Num → Rat
  | .int v => F64.ofInt v
  | .flt x => x

/-- `float(time_unit_conversion[u])` -/
def cf (u : TimeUnit) : Rat := F64.ofInt (Generated.factor u : Int)

/-- `Frequency(f, time_unit=u)` for a bare `f`: `f * (float(tuc['s']) / tuc[u])` Hz -/
def frequency (f : Rat) (u : TimeUnit) : Rat := F64.fmul f (F64.fdiv (cf .s) (cf u))

/-- the binary64 value `(1 / self) * scale_factor` inside `to_period` (base unit) -/
def periodF (hz : Rat) : Rat := F64.fmul (F64.fdiv 1 hz) (F64.fdiv (cf .s) (cf .ps))

/-- `Frequency.to_period()`: today `np.int64(…)` truncates; intended: nearest picosecond -/
def toPeriod (v : Variant) (hz : Rat) : Except Err Int :=
  if hz = 0 then .error .zeroDiv else
  .ok (match v with
    | .current => F64.trunc (periodF hz)
    | .intended => F64.rint (periodF hz))

/-- `Frequency.to_period(time_unit=u)` (intended rounding): whole number of `u` in one period -/
def toPeriodIn (hz : Rat) (u : TimeUnit) : Except Err Int :=
  if hz = 0 then .error .zeroDiv else
  .ok (F64.rint (F64.fmul (F64.fdiv 1 hz) (F64.fdiv (cf .s) (cf u))))

/-- a sequence of `to_period` calls on ONE object: the object has no state, so each answer is the
answer of a fresh object -/
def toPeriodSeq (hz : Rat) (us : List TimeUnit) : List (Except Err Int) := us.map (toPeriodIn hz)

/-! ### construction from an existing axis -/

/-- the block `if isinstance(data, UniformTime): …` : returns the arguments after inheritance -/
def inherit (v : Variant) (s : Spec) : Except Err Spec :=
  match s.data with
  | none => .ok s
  | some d =>
    let tspec := tspecOf s
    let dDur : TArg := .tobj d.dur d.unit
    let unit : UArg := match s.unit with | .none => .ok d.unit | u => u
    let t0 : Option TArg := match v, s.t0 with
      | .intended, none => some (.tobj d.t0 d.unit)
      | _, t => t
    let s := { s with unit := unit, t0 := t0 }
    -- intended: wherever the sampling is taken over, the exact integer interval comes along with the
    -- rate (nothing is re-derived from the binary64 rate); today only the rate is taken
    let dIv : Option TArg := match v with
      | .intended => some (.tobj d.dt d.unit)
      | .current => s.interval
    if tspec = wd 0 then .ok { s with rate := some (.freq d.rate), duration := some dDur, interval := dIv }
    else if tspec = wd 1 then
      match v with
      | .intended => .ok { s with duration := some dDur }
      | .current => .error .typeError   -- `duration == data.duration` compares `None` with a time object
    else if tspec = wd 2 then
      match v with
      | .intended => .ok { s with duration := some dDur }
      | .current =>
        match s.rate with
        | some (.freq hz) =>
          match toPeriod v hz with
          | .ok p => .ok { s with interval := some (.num (.int p)), duration := some dDur }
          | .error e => .error e
        | some (.num r) =>
          if numToF r = 0 then .error .zeroDiv
          else .ok { s with interval := some (.num (.flt (F64.fdiv 1 (numToF r)))), duration := some dDur }
        | none => .ok s
    else if tspec = wd 3 then
      .ok { s with duration := some (.tobj ((s.length.getD 0 : Nat) * d.dt) d.unit),
                   rate := some (.freq d.rate), interval := dIv }
    else if tspec = wd 4 then .ok { s with rate := some (.freq d.rate), interval := dIv }
    else .ok s

/-! ### unit -/

def checkUnit : UArg → Except Err (Option TimeUnit)
  | .none => .ok none
  | .ok u => .ok (some u)
  | .bad => .error .valueError

/-- unit of a duration time object, else of an interval time object, else seconds -/
def inferUnit (u : Option TimeUnit) (duration interval : Option TArg) : TimeUnit :=
  match u with
  | some u => u
  | none =>
    match duration with
    | some (.tobj _ du) => du
    | _ => match interval with
      | some (.tobj _ iu) => iu
      | _ => .s

/-! ### interval and rate from each other -/

/-- `float(duration)` in the axis unit: a bare number as it is; a time object is its picosecond
payload (today), divided by the conversion factor (intended) -/
def durationF (v : Variant) (u : TimeUnit) : TArg → Rat
  | .num x => numToF x
  | .tobj ps _ => match v with
    | .current => F64.ofInt ps
    | .intended => F64.fdiv (F64.ofInt ps) (cf u)

/-- the interval (a binary64 number of the unit `u`) derived from a rate:
`sampling_rate.to_period() / float(c_f)` -/
def intervalOfRate (v : Variant) (u : TimeUnit) (hz : Rat) : Except Err Rat :=
  match toPeriod v hz with
  | .ok p => .ok (F64.fdiv (F64.ofInt p) (cf u))
  | .error e => .error e

/-- the block "Calculate the sampling_interval or sampling_rate": returns the interval argument
(as it is then cast by `TimeArray(sampling_interval, time_unit)`) and the rate in Hz.
`n` is `length` (axis) or the data length (series). -/
def deriveIntervalRate (v : Variant) (u : TimeUnit) (n : Option Nat)
    (interval : Option TArg) (rate : Option RArg) (duration : Option TArg) :
    Except Err (TArg × Rat) :=
  match interval with
  | some iv =>
    -- intended: `elif sampling_rate is None` — a rate inherited together with the interval is kept
    match v, rate with
    | .intended, some (.freq hz) => .ok (iv, hz)
    | .intended, some (.num r) => .ok (iv, frequency (numToF r) .s)
    | _, _ =>
      match iv with
      | .tobj ps iu =>
        let x := F64.fdiv (F64.ofInt ps) (cf iu)
        if x = 0 then .error .zeroDiv else .ok (.tobj ps iu, frequency (F64.fdiv 1 x) iu)
      | .num x =>
        if numToF x = 0 then .error .zeroDiv
        else .ok (.num x, frequency (F64.fdiv 1 (numToF x)) u)
  | none =>
    match rate with
    | some (.freq hz) =>
      match intervalOfRate v u hz with
      | .ok x => .ok (.num (.flt x), hz)
      | .error e => .error e
    | some (.num r) =>
      let hz := frequency (numToF r) .s
      match intervalOfRate v u hz with
      | .ok x => .ok (.num (.flt x), hz)
      | .error e => .error e
    | none =>
      match duration, n with
      | some d, some l =>
        if l = 0 then .error .zeroDiv else
        let x := F64.fdiv (durationF v u d) (F64.ofInt l)
        if x = 0 then .error .zeroDiv else .ok (.num (.flt x), frequency (F64.fdiv 1 x) u)
      | _, _ => .error .typeError

/-- `TimeArray(x, time_unit=u)` of an argument -/
def targPs (u : TimeUnit) : TArg → Int
  | .num v => toPs u v
  | .tobj ps _ => ps

/-- `duration = length * sampling_interval` (python int × python int / float / time object),
then `TimeArray(duration, time_unit)` -/
def durationPs (u : TimeUnit) (n : Option Nat) (interval : TArg) : Option TArg → Except Err Int
  | some d => .ok (targPs u d)
  | none =>
    match n with
    | none => .error .typeError            -- `None * sampling_interval`
    | some l =>
      match interval with
      | .num (.int k) => .ok (toPs u (.int ((l : Int) * k)))
      | .num (.flt x) => .ok (toPs u (.flt (F64.fmul (F64.ofInt l) x)))
      | .tobj ps _ => .ok ((l : Int) * ps)

/-! ### the samples -/

/-- start, interval, requested duration in whole picoseconds; rate; unit -/
structure Resolved where
  t0 : Int
  dt : Int
  durReq : Int
  rate : Rat
  unit : TimeUnit
  deriving Repr, DecidableEq

/-- number of multiples of `dt` (> 0) that lie before `dur`: `⌈dur/dt⌉`, at least 0 -/
def countBefore (dur dt : Int) : Nat := (-((-dur) / dt)).toNat

/-- length of numpy's `arange(start, start+dur, dt)` for int64 scalars: the ceiling of the
BINARY64 quotient -/
def arangeLen (dur dt : Int) : Nat :=
  (F64.ceil (F64.fdiv (F64.ofInt dur) (F64.ofInt dt))).toNat

def build (v : Variant) (length : Option Nat) (r : Resolved) : Except Err Axis :=
  if r.dt ≤ 0 then .error .valueError else
  match v with
  | .intended =>
    let n := match length with
      | some l => l
      | none => countBefore r.durReq r.dt
    .ok { t0 := r.t0, dt := r.dt, n := n, dur := (n : Int) * r.dt, rate := r.rate, unit := r.unit }
  | .current =>
    .ok { t0 := r.t0, dt := r.dt, n := arangeLen r.durReq r.dt, dur := r.durReq,
          rate := r.rate, unit := r.unit }

/-- everything before the samples are laid out -/
def resolve (v : Variant) (s : Spec) : Except Err Resolved := do
  let s ← inherit v s
  let uo ← checkUnit s.unit
  let u := inferUnit uo s.duration s.interval
  let (iv, hz) ← deriveIntervalRate v u s.length s.interval s.rate s.duration
  let dur ← durationPs u s.length iv s.duration
  pure { t0 := targPs u (s.t0.getD (.num (.int 0))), dt := targPs u iv, durReq := dur,
         rate := hz, unit := u }

/-- `UniformTime(data, length, duration, sampling_rate, sampling_interval, t0, time_unit)` -/
def mkUniform (v : Variant) (s : Spec) : Except Err Axis := do
  checkTspec s
  let r ← resolve v s
  build v s.length r

/-! ### TimeSeries -/

def seriesTspecOk (interval rate duration : Bool) : Bool :=
  (Generated.seriesValid.getD []).contains [interval, rate, duration]

/-- the series' own attributes -/
structure Series where
  t0 : Int
  dt : Int
  rate : Rat
  unit : TimeUnit
  time : Axis
  deriving Repr, DecidableEq

/-- `TimeSeries(data, t0, sampling_interval, sampling_rate, duration, time_unit=u)` followed by a
read of `.time` (= `UniformTime(length=len, t0=self.t0, sampling_interval=self.sampling_interval,
time_unit=self.time_unit)`).  `dataLen` = `data.shape[-1]`; `unit` defaults to seconds. -/
def mkSeries (v : Variant) (dataLen : Nat) (t0 interval : Option TArg) (rate : Option RArg)
    (duration : Option TArg) (unit : UArg) : Except Err Series := do
  if !(seriesTspecOk interval.isSome rate.isSome duration.isSome) then throw .valueError
  let uo ← checkUnit unit
  let u := inferUnit uo duration interval
  let (iv, hz) ← deriveIntervalRate v u (some dataLen) interval rate duration
  let t0ps := targPs u (t0.getD (.num (.int 0)))
  let dt := targPs u iv
  let ax ← mkUniform v { length := some dataLen, t0 := some (.tobj t0ps u),
                         interval := some (.tobj dt u), unit := .ok u }
  pure { t0 := t0ps, dt := dt, rate := hz, unit := u, time := ax }

/-- `TimeSeries(data, time=axis, t0=…, time_unit=u)` (no rate/interval/duration override) and a
read of `.time`.  The length check is the code's: lengths differ and the rate is not
`float(data_len * c_fac) / duration`. -/
def mkSeriesFromTime (v : Variant) (ax : Axis) (dataLen : Nat) (t0 : Option TArg) (unit : UArg) :
    Except Err Series := do
  let uo ← checkUnit unit
  if ax.n ≠ dataLen ∧
      ax.rate ≠ F64.fdiv (F64.ofInt ((dataLen : Int) * (Generated.factor ax.unit : Int))) (F64.ofInt ax.dur) then
    throw .valueError
  let u := uo.getD ax.unit
  let t0ps := match t0 with
    | none => ax.t0
    | some t => targPs u t
  let time ← mkUniform v { length := some dataLen, t0 := some (.tobj t0ps u),
                           interval := some (.tobj ax.dt u), unit := .ok u }
  pure { t0 := t0ps, dt := ax.dt, rate := ax.rate, unit := u, time := time }

/-! ### line protocol -/
open Proto

def parseTArg? (s : String) : Option (Option TArg) :=
  if s = "-" then some none else
  match s.splitOn ":" with
  | ["T", u, ps] => do
    let u ← TimeUnit.ofString? u
    let ps ← ps.toInt?
    pure (some (.tobj ps u))
  | _ => (C01.parseNum? s).map fun n => some (.num n)

def parseRArg? (s : String) : Option (Option RArg) :=
  if s = "-" then some none else
  match s.splitOn ":" with
  | ["F", h] => (parseHex? h).map fun n => some (.freq (F64.ofBits n))
  | _ => (C01.parseNum? s).map fun n => some (.num n)

def parseUArg? (s : String) : Option UArg :=
  if s = "none" then some .none else if s = "bad" then some .bad
  else (TimeUnit.ofString? s).map .ok

def parseLen? (s : String) : Option (Option Nat) :=
  if s = "-" then some none else s.toNat?.map some

/-- `A:<unit>:<t0>:<dt>:<n>:<dur>:<rate hex>` -/
def parseAxis? (s : String) : Option (Option Axis) :=
  if s = "-" then some none else
  match s.splitOn ":" with
  | ["A", u, t0, dt, n, dur, r] => do
    let u ← TimeUnit.ofString? u
    let t0 ← t0.toInt?
    let dt ← dt.toInt?
    let n ← n.toNat?
    let dur ← dur.toInt?
    let r ← parseHex? r
    pure (some { t0 := t0, dt := dt, n := n, dur := dur, rate := F64.ofBits r, unit := u })
  | _ => none

/-- first, second and last sample (through `samples` for short axes, `sampleAt` for long ones) -/
def showSamples (a : Axis) : String :=
  if a.n = 0 then "-" else
  let get (i : Nat) : Int := if a.n ≤ 4096 then (samples a).getD i 0 else sampleAt a i
  showIntList [get 0, get (min 1 (a.n - 1)), get (a.n - 1)]

def showAxis (a : Axis) : String :=
  s!"A:{a.unit.name}:{a.t0}:{a.dt}:{a.n}:{a.dur}:{hex64 (F64.toBits a.rate)}:S:{showSamples a}"

def showErr : Err → String
  | .valueError => "err ValueError"
  | .typeError => "err TypeError"
  | .zeroDiv => "err ZeroDivisionError"

def showExcept {α} (f : α → String) : Except Err α → String
  | .ok a => "ok " ++ f a
  | .error e => showErr e

def showSeries (s : Series) : String :=
  s!"S:{s.unit.name}:{s.t0}:{s.dt}:{hex64 (F64.toBits s.rate)}:{showAxis s.time}"

/-- both variants, `intended | current` -/
def both (f : Variant → String) : String := f .intended ++ " | " ++ f .current

def handle (args : List String) : String :=
  match args with
  | ["uniform", data, len, dur, rate, iv, t0, unit] =>
    match parseAxis? data, parseLen? len, parseTArg? dur, parseRArg? rate, parseTArg? iv,
          parseTArg? t0, parseUArg? unit with
    | some data, some len, some dur, some rate, some iv, some t0, some unit =>
      let s : Spec := { data := data, length := len, duration := dur, rate := rate,
                        interval := iv, t0 := t0, unit := unit }
      both fun v => showExcept showAxis (mkUniform v s)
    | _, _, _, _, _, _, _ => "bad-op"
  | ["series", n, t0, iv, rate, dur, unit] =>
    match n.toNat?, parseTArg? t0, parseTArg? iv, parseRArg? rate, parseTArg? dur, parseUArg? unit with
    | some n, some t0, some iv, some rate, some dur, some unit =>
      both fun v => showExcept showSeries (mkSeries v n t0 iv rate dur unit)
    | _, _, _, _, _, _ => "bad-op"
  | ["series_from_time", ax, n, t0, unit] =>
    match parseAxis? ax, n.toNat?, parseTArg? t0, parseUArg? unit with
    | some (some ax), some n, some t0, some unit =>
      both fun v => showExcept showSeries (mkSeriesFromTime v ax n t0 unit)
    | _, _, _, _ => "bad-op"
  | ["freq", f, unit] =>
    match C01.parseNum? f, TimeUnit.ofString? unit with
    | some f, some u => "ok " ++ hex64 (F64.toBits (frequency (numToF f) u))
    | _, _ => "bad-op"
  | ["to_period", h] =>
    match parseHex? h with
    | some n => both fun v => showExcept toString (toPeriod v (F64.ofBits n))
    | none => "bad-op"
  | ["to_period_seq", h, us] =>
    match parseHex? h, (splitList us).mapM TimeUnit.ofString? with
    | some n, some us =>
      "ok " ++ joinList ((toPeriodSeq (F64.ofBits n) us).map fun r => match r with
        | .ok p => toString p
        | .error _ => "err")
    | _, _ => "bad-op"
  | ["arange_len", dur, dt] =>
    match dur.toInt?, dt.toInt? with
    | some dur, some dt => "ok " ++ toString (arangeLen dur dt)
    | _, _ => "bad-op"
  | _ => "bad-op"

end Nitime.C02
