/-
C02 — model of `nitime.timeseries.UniformTime.__new__`, `Frequency`, `Frequency.to_period`,
`TimeSeries.__init__` and the lazy `TimeSeries.time` (core Lean only).

The model follows the source branch by branch and exists in two variants:
* `.intended` — the property-satisfying behaviour (the code with the repairs proposed in
  `proposed_fixes/C02-*.diff`): the period of a rate is rounded to the nearest picosecond, the
  number of samples is the requested length (or, for a duration-only specification, the number of
  multiples of the interval before the duration, on integers), the reported duration is `n·Δ`,
  construction from an existing axis keeps its start and reads a rate in Hz.
* `.current` — the unchanged tree: `to_period` truncates, the sample count is numpy's
  `arange` length `⌈fl((stop−start)/step)⌉` of a duration computed in binary64, the reported
  duration is the requested one, `duration == data.duration` is a comparison (→ `TypeError`), a
  rate given with an existing axis is read as `1.0/rate` in the axis unit, `t0` defaults to 0,
  and `float(duration)` of a time object is its picosecond payload.
The full theorems are proved for `.intended`, the counterexamples for `.current`; the
correspondence compares the implementation with `.intended` and reports `.current` alongside.

Pieces: `checkTspec` (generated validity tables) → `inherit` (existing axis) → `checkUnit`/
`inferUnit` → `deriveIntervalRate` (`frequency`, `toPeriod`) → `durationPs` → `build`
(sample count, duration) ; `mkSeries`/`mkSeriesFromTime` resolve the series' own attributes and
call `mkUniform` exactly like the `time` property does.
-/
import Nitime.Model.F64
import Nitime.Model.Units
import Nitime.Model.Proto
import Nitime.Model.C01
import Nitime.Generated.Units
import Nitime.Generated.Tspecs

namespace Nitime.C02
open Nitime
open Nitime.C01 (Num toPs)

inductive Err where
  | valueError | typeError | zeroDiv
  deriving Repr, DecidableEq

inductive Variant where
  | current | intended
  deriving Repr, DecidableEq

/-- a time-valued argument: bare python number (read in the axis unit) or a 0-d time object -/
inductive TArg where
  | num (v : Num)
  | tobj (ps : Int) (unit : TimeUnit)
  deriving Repr, DecidableEq

/-- a rate argument: bare number (Hz) or a `Frequency` object (binary64 Hz) -/
inductive RArg where
  | num (v : Num)
  | freq (hz : Rat)
  deriving Repr, DecidableEq

/-- the `time_unit` argument: `None`, a key of the conversion table, or anything else -/
inductive UArg where
  | none | ok (u : TimeUnit) | bad
  deriving Repr, DecidableEq

/-- what is observable of a uniform axis: everything in whole picoseconds, the rate as the exact
value of the stored binary64 -/
structure Axis where
  t0 : Int
  dt : Int
  n : Nat
  dur : Int
  rate : Rat
  unit : TimeUnit
  deriving Repr, DecidableEq

structure Spec where
  data : Option Axis := none
  length : Option Nat := none
  duration : Option TArg := none
  rate : Option RArg := none
  interval : Option TArg := none
  t0 : Option TArg := none
  unit : UArg := .none
  deriving Repr

/-- sample `i` of an axis; numpy's integer `arange` fills `start + i*step`, the repaired code
computes `t0 + arange(n)*Δ` -/
def sampleAt (a : Axis) (i : Nat) : Int := a.t0 + (i : Int) * a.dt

def samples (a : Axis) : List Int := (List.range a.n).map (sampleAt a)

/-! ### argument validation (tables regenerated from the source) -/

def tspecOf (s : Spec) : List Bool :=
  [s.interval.isSome, s.rate.isSome, s.length.isSome, s.duration.isSome]

def validTspecs (withData : Bool) : List (List Bool) :=
  (Generated.uniformValid.getD []) ++
    (if withData then Generated.uniformValidWithData.getD [] else [])

/-- `tspecs_w_data[name]`, names in the order nothing, sampling_interval, sampling_rate, length,
duration -/
def wd (i : Nat) : List Bool := (Generated.uniformValidWithData.getD []).getD i []

def checkTspec (s : Spec) : Except Err Unit :=
  if (validTspecs s.data.isSome).contains (tspecOf s) then .ok () else .error .valueError

/-! ### Frequency -/

def numToF : Num → Rat
  | .int v => F64.ofInt v
  | .flt x => x

/-- `float(time_unit_conversion[u])` -/
def cf (u : TimeUnit) : Rat := F64.ofInt (Generated.factor u : Int)

/-- `Frequency(f, time_unit=u)` for a bare `f`: `f * (float(tuc['s']) / tuc[u])` Hz -/
def frequency (f : Rat) (u : TimeUnit) : Rat := F64.fmul f (F64.fdiv (cf .s) (cf u))

/-- the binary64 value `(1 / self) * scale_factor` inside `to_period` (base unit) -/
def periodF (hz : Rat) : Rat := F64.fmul (F64.fdiv 1 hz) (F64.fdiv (cf .s) (cf .ps))

/-- `Frequency.to_period()`: today `np.int64(…)` truncates; intended: nearest picosecond -/
def toPeriod (v : Variant) (hz : Rat) : Except Err Int :=
  if hz = 0 then .error .zeroDiv else
  .ok (match v with
    | .current => F64.trunc (periodF hz)
    | .intended => F64.rint (periodF hz))

/-- `Frequency.to_period(time_unit=u)` (intended rounding): whole number of `u` in one period -/
def toPeriodIn (hz : Rat) (u : TimeUnit) : Except Err Int :=
  if hz = 0 then .error .zeroDiv else
  .ok (F64.rint (F64.fmul (F64.fdiv 1 hz) (F64.fdiv (cf .s) (cf u))))

/-- a sequence of `to_period` calls on ONE object: the object has no state, so each answer is the
answer of a fresh object -/
def toPeriodSeq (hz : Rat) (us : List TimeUnit) : List (Except Err Int) := us.map (toPeriodIn hz)

/-! ### construction from an existing axis -/

/-- the block `if isinstance(data, UniformTime): …` : returns the arguments after inheritance -/
def inherit (v : Variant) (s : Spec) : Except Err Spec :=
  match s.data with
  | none => .ok s
  | some d =>
    let tspec := tspecOf s
    let dDur : TArg := .tobj d.dur d.unit
    let unit : UArg := match s.unit with | .none => .ok d.unit | u => u
    let t0 : Option TArg := match v, s.t0 with
      | .intended, none => some (.tobj d.t0 d.unit)
      | _, t => t
    let s := { s with unit := unit, t0 := t0 }
    -- intended: wherever the sampling is taken over, the exact integer interval comes along with the
    -- rate (nothing is re-derived from the binary64 rate); today only the rate is taken
    let dIv : Option TArg := match v with
      | .intended => some (.tobj d.dt d.unit)
      | .current => s.interval
    if tspec = wd 0 then .ok { s with rate := some (.freq d.rate), duration := some dDur, interval := dIv }
    else if tspec = wd 1 then
      match v with
      | .intended => .ok { s with duration := some dDur }
      | .current => .error .typeError   -- `duration == data.duration` compares `None` with a time object
    else if tspec = wd 2 then
      match v with
      | .intended => .ok { s with duration := some dDur }
      | .current =>
        match s.rate with
        | some (.freq hz) =>
          match toPeriod v hz with
          | .ok p => .ok { s with interval := some (.num (.int p)), duration := some dDur }
          | .error e => .error e
        | some (.num r) =>
          if numToF r = 0 then .error .zeroDiv
          else .ok { s with interval := some (.num (.flt (F64.fdiv 1 (numToF r)))), duration := some dDur }
        | none => .ok s
    else if tspec = wd 3 then
      .ok { s with duration := some (.tobj ((s.length.getD 0 : Nat) * d.dt) d.unit),
                   rate := some (.freq d.rate), interval := dIv }
    else if tspec = wd 4 then .ok { s with rate := some (.freq d.rate), interval := dIv }
    else .ok s

/-! ### unit -/

def checkUnit : UArg → Except Err (Option TimeUnit)
  | .none => .ok none
  | .ok u => .ok (some u)
  | .bad => .error .valueError

/-- unit of a duration time object, else of an interval time object, else seconds -/
def inferUnit (u : Option TimeUnit) (duration interval : Option TArg) : TimeUnit :=
  match u with
  | some u => u
  | none =>
    match duration with
    | some (.tobj _ du) => du
    | _ => match interval with
      | some (.tobj _ iu) => iu
      | _ => .s

/-! ### interval and rate from each other -/

/-- `float(duration)` in the axis unit: a bare number as it is; a time object is its picosecond
payload (today), divided by the conversion factor (intended) -/
def durationF (v : Variant) (u : TimeUnit) : TArg → Rat
  | .num x => numToF x
  | .tobj ps _ => match v with
    | .current => F64.ofInt ps
    | .intended => F64.fdiv (F64.ofInt ps) (cf u)

/-- the interval (a binary64 number of the unit `u`) derived from a rate:
`sampling_rate.to_period() / float(c_f)` -/
def intervalOfRate (v : Variant) (u : TimeUnit) (hz : Rat) : Except Err Rat :=
  match toPeriod v hz with
  | .ok p => .ok (F64.fdiv (F64.ofInt p) (cf u))
  | .error e => .error e

/-- the block "Calculate the sampling_interval or sampling_rate": returns the interval argument
(as it is then cast by `TimeArray(sampling_interval, time_unit)`) and the rate in Hz.
`n` is `length` (axis) or the data length (series). -/
def deriveIntervalRate (v : Variant) (u : TimeUnit) (n : Option Nat)
    (interval : Option TArg) (rate : Option RArg) (duration : Option TArg) :
    Except Err (TArg × Rat) :=
  match interval with
  | some iv =>
    -- intended: `elif sampling_rate is None` — a rate inherited together with the interval is kept
    match v, rate with
    | .intended, some (.freq hz) => .ok (iv, hz)
    | .intended, some (.num r) => .ok (iv, frequency (numToF r) .s)
    | _, _ =>
      match iv with
      | .tobj ps iu =>
        let x := F64.fdiv (F64.ofInt ps) (cf iu)
        if x = 0 then .error .zeroDiv else .ok (.tobj ps iu, frequency (F64.fdiv 1 x) iu)
      | .num x =>
        if numToF x = 0 then .error .zeroDiv
        else .ok (.num x, frequency (F64.fdiv 1 (numToF x)) u)
  | none =>
    match rate with
    | some (.freq hz) =>
      match intervalOfRate v u hz with
      | .ok x => .ok (.num (.flt x), hz)
      | .error e => .error e
    | some (.num r) =>
      let hz := frequency (numToF r) .s
      match intervalOfRate v u hz with
      | .ok x => .ok (.num (.flt x), hz)
      | .error e => .error e
    | none =>
      match duration, n with
      | some d, some l =>
        if l = 0 then .error .zeroDiv else
        let x := F64.fdiv (durationF v u d) (F64.ofInt l)
        if x = 0 then .error .zeroDiv else .ok (.num (.flt x), frequency (F64.fdiv 1 x) u)
      | _, _ => .error .typeError

/-- `TimeArray(x, time_unit=u)` of an argument -/
def targPs (u : TimeUnit) : TArg → Int
  | .num v => toPs u v
  | .tobj ps _ => ps

/-- `duration = length * sampling_interval` (python int × python int / float / time object),
then `TimeArray(duration, time_unit)` -/
def durationPs (u : TimeUnit) (n : Option Nat) (interval : TArg) : Option TArg → Except Err Int
  | some d => .ok (targPs u d)
  | none =>
    match n with
    | none => .error .typeError            -- `None * sampling_interval`
    | some l =>
      match interval with
      | .num (.int k) => .ok (toPs u (.int ((l : Int) * k)))
      | .num (.flt x) => .ok (toPs u (.flt (F64.fmul (F64.ofInt l) x)))
      | .tobj ps _ => .ok ((l : Int) * ps)

/-! ### `TimeArray(x, time_unit=u, copy=c)` for one value — the constructor every time-valued
argument (and every stored attribute) goes through -/

/-- what is handed to `TimeArray`: a python int, a numpy int64, a python float, or a 2-d int64 array -/
inductive TAIn where
  | pyInt (k : Int) | i64 (k : Int) | flt (x : Rat) | matrix
  deriving Repr, DecidableEq

/-- invalid unit name → `ValueError`; `copy=False` is honoured only for int64 data, which is then
taken to be in the base unit already; otherwise integers are scaled exactly, floats scaled and
rounded to the nearest picosecond; more than one dimension → `ValueError`; no unit → seconds -/
def timeArray0 (x : TAIn) (u : UArg) (copy : Bool) : Except Err (Int × TimeUnit) :=
  match checkUnit u with
  | .error e => .error e
  | .ok uo =>
    let unit := uo.getD .s
    match x, copy with
    | .pyInt _, false => .error .valueError
    | .flt _, false => .error .valueError
    | .matrix, _ => .error .valueError
    | .i64 k, false => .ok (k, unit)
    | .pyInt k, true => .ok (toPs unit (.int k), unit)
    | .i64 k, true => .ok (toPs unit (.int k), unit)
    | .flt x, true => .ok (toPs unit (.flt x), unit)

/-! ### the samples -/

/-- start, interval, requested duration in whole picoseconds; rate; unit -/
structure Resolved where
  t0 : Int
  dt : Int
  durReq : Int
  rate : Rat
  unit : TimeUnit
  deriving Repr, DecidableEq

/-- number of multiples of `dt` (> 0) that lie before `dur`: `⌈dur/dt⌉`, at least 0 -/
def countBefore (dur dt : Int) : Nat := (-((-dur) / dt)).toNat

/-- length of numpy's `arange(start, start+dur, dt)` for int64 scalars: the ceiling of the
BINARY64 quotient -/
def arangeLen (dur dt : Int) : Nat :=
  (F64.ceil (F64.fdiv (F64.ofInt dur) (F64.ofInt dt))).toNat

def build (v : Variant) (length : Option Nat) (r : Resolved) : Except Err Axis :=
  if r.dt ≤ 0 then .error .valueError else
  match v with
  | .intended =>
    let n := match length with
      | some l => l
      | none => countBefore r.durReq r.dt
    .ok { t0 := r.t0, dt := r.dt, n := n, dur := (n : Int) * r.dt, rate := r.rate, unit := r.unit }
  | .current =>
    .ok { t0 := r.t0, dt := r.dt, n := arangeLen r.durReq r.dt, dur := r.durReq,
          rate := r.rate, unit := r.unit }

/-- everything before the samples are laid out -/
def resolve (v : Variant) (s : Spec) : Except Err Resolved := do
  let s ← inherit v s
  let uo ← checkUnit s.unit
  let u := inferUnit uo s.duration s.interval
  let (iv, hz) ← deriveIntervalRate v u s.length s.interval s.rate s.duration
  let dur ← durationPs u s.length iv s.duration
  pure { t0 := targPs u (s.t0.getD (.num (.int 0))), dt := targPs u iv, durReq := dur,
         rate := hz, unit := u }

/-- `UniformTime(data, length, duration, sampling_rate, sampling_interval, t0, time_unit)` -/
def mkUniform (v : Variant) (s : Spec) : Except Err Axis := do
  checkTspec s
  let r ← resolve v s
  build v s.length r

/-! ### TimeSeries -/

def seriesTspecOk (interval rate duration : Bool) : Bool :=
  (Generated.seriesValid.getD []).contains [interval, rate, duration]

/-- the series' own attributes -/
structure Series where
  t0 : Int
  dt : Int
  rate : Rat
  unit : TimeUnit
  time : Axis
  deriving Repr, DecidableEq

/-- `TimeSeries(data, t0, sampling_interval, sampling_rate, duration, time_unit=u)` followed by a
read of `.time` (= `UniformTime(length=len, t0=self.t0, sampling_interval=self.sampling_interval,
time_unit=self.time_unit)`).  `dataLen` = `data.shape[-1]`; `unit` defaults to seconds. -/
def mkSeries (v : Variant) (dataLen : Nat) (t0 interval : Option TArg) (rate : Option RArg)
    (duration : Option TArg) (unit : UArg) : Except Err Series := do
  if !(seriesTspecOk interval.isSome rate.isSome duration.isSome) then throw .valueError
  let uo ← checkUnit unit
  let u := inferUnit uo duration interval
  let (iv, hz) ← deriveIntervalRate v u (some dataLen) interval rate duration
  let t0ps := targPs u (t0.getD (.num (.int 0)))
  let dt := targPs u iv
  let ax ← mkUniform v { length := some dataLen, t0 := some (.tobj t0ps u),
                         interval := some (.tobj dt u), unit := .ok u }
  pure { t0 := t0ps, dt := dt, rate := hz, unit := u, time := ax }

/-- the factor that turns "samples per duration (in picoseconds)" into the RATE the check compares with.  Intended:
samples per SECOND (`sampling_rate` is in Hz whatever the axis' unit).  Today's source multiplies with the axis' own
`_conversion_factor` (`c_fac`): samples per <axis unit> — the same number on seconds axes only (finding 7). -/
def rateFactor (v : Variant) (u : TimeUnit) : Nat :=
  match v with
  | .intended => Generated.factor .s
  | .current => Generated.factor u

/-- `float(data_len * c_fac) / time.duration`: the one rate that makes `dataLen` samples fill the duration of the axis -/
def reconcilingRate (v : Variant) (ax : Axis) (dataLen : Nat) : Rat :=
  F64.fdiv (F64.ofInt ((dataLen : Int) * (rateFactor v ax.unit : Int))) (F64.ofInt ax.dur)

/-- `TimeSeries(data, time=axis, t0=…, time_unit=u)` (no rate/interval/duration override) and a
read of `.time`.  The length check is the code's: lengths differ and the rate is not
`float(data_len * c_fac) / duration`. -/
def mkSeriesFromTime (v : Variant) (ax : Axis) (dataLen : Nat) (t0 : Option TArg) (unit : UArg) :
    Except Err Series := do
  let uo ← checkUnit unit
  if ax.n ≠ dataLen ∧ ax.rate ≠ reconcilingRate v ax dataLen then
    throw .valueError
  let u := uo.getD ax.unit
  let t0ps := match t0 with
    | none => ax.t0
    | some t => targPs u t
  let time ← mkUniform v { length := some dataLen, t0 := some (.tobj t0ps u),
                           interval := some (.tobj ax.dt u), unit := .ok u }
  pure { t0 := t0ps, dt := ax.dt, rate := ax.rate, unit := u, time := time }

/-! ### the length check of `time=` as a predicate, and its tolerance variant (round 4, class L9)

`reconcilingRate v ax m` (above) is the one rate that makes `m` samples fill the duration of the axis.  `lengthCheckIsclose` = numpy's `isclose(a, b)` with its
defaults (`|a − b| ≤ 1e-8 + 1e-5·|b|`) on the exact values of the two binary64 numbers: the class
of change "compare up to rounding, not bit for bit", whose reach grows with the length. -/

def ratAbs (q : Rat) : Rat := if q < 0 then -q else q

def lengthCheckIsclose (a b : Rat) : Bool :=
  decide (ratAbs (a - b) ≤ (1 : Rat) / 100000000 + (1 : Rat) / 100000 * ratAbs b)

/-- `mkSeriesFromTime` with the length check relaxed to `not isclose(rate, reconciling rate)` -/
def mkSeriesFromTimeTol (v : Variant) (ax : Axis) (dataLen : Nat) (t0 : Option TArg) (unit : UArg) :
    Except Err Series := do
  let uo ← checkUnit unit
  if ax.n ≠ dataLen ∧ lengthCheckIsclose ax.rate (reconcilingRate v ax dataLen) = false then
    throw .valueError
  let u := uo.getD ax.unit
  let t0ps := match t0 with
    | none => ax.t0
    | some t => targPs u t
  let time ← mkUniform v { length := some dataLen, t0 := some (.tobj t0ps u),
                           interval := some (.tobj ax.dt u), unit := .ok u }
  pure { t0 := t0ps, dt := ax.dt, rate := ax.rate, unit := u, time := time }

/-- the number an explicit `sampling_rate=` argument is compared as (python compares an int with a float by value) -/
def rateValue : RArg → Rat
  | .num v => numToF v
  | .freq hz => hz

/-- `TimeSeries(data_m, time=axis, sampling_rate=r[, t0][, time_unit])`: the explicit rate is what the length check
compares with the reconciling rate; an accepted call is the specification `(data_m, t0 | axis.t0, sampling_rate=r)`
in the given unit (`None` = the axis' unit) -/
def mkSeriesFromTimeRate (v : Variant) (ax : Axis) (dataLen : Nat) (t0 : Option TArg) (rate : RArg)
    (unit : UArg) : Except Err Series := do
  let _ ← checkUnit unit
  if ax.n ≠ dataLen ∧ rateValue rate ≠ reconcilingRate v ax dataLen then throw .valueError
  mkSeries v dataLen (some (t0.getD (.tobj ax.t0 ax.unit))) none (some rate) none
    (match unit with | .none => .ok ax.unit | u => u)

/-! ### live objects: axes built FROM other axes, then changed in place

Python objects are modelled as positions in a store (`Heap`): every `UniformTime` the caller can
reach is an entry of `axes` (its id = its position), every `TimeSeries` an entry of `series`
holding its own attribute values and the id of its lazily built `.time` axis (`none` before the
first read — `setattr_on_read`).  A constructor ALLOCATES: the new axis gets the id
`axes.length`, whatever it was built from.  An in-place operator (`+= -= *= /=`, scalar or ramp
operand; `__setitem__` is refused) rewrites the entry of the object it is applied to and nothing
else.  `HCfg` switches on two "avoid building the axis twice" short-cuts that hand out the
SOURCE's id instead of a fresh one (the class of change "result aliases an argument"); the
theorems are about `hIntended` (no short-cut), the counterexamples about the short-cuts. -/

-- (object ids are plain `Nat`s: positions in the store)

/-- `Frequency(1.0 / (float(Δ) / tuc[u]), time_unit=u)`: the rate `_set_sampling` stores -/
def rateOfInterval (u : TimeUnit) (dt : Int) : Rat :=
  frequency (F64.fdiv 1 (F64.fdiv (F64.ofInt dt) (cf u))) u

/-- `_set_sampling(t0, Δ)`: the attributes describe `n` samples from `t0` every `Δ` -/
def setSampling (a : Axis) (t0 dt : Int) : Axis :=
  { a with t0 := t0, dt := dt, dur := (a.n : Int) * dt,
           rate := if dt = 0 then a.rate else rateOfInterval a.unit dt }

/-- operand of an in-place operator: bare integers are read in the unit of the axis, time
objects are picoseconds -/
inductive Opnd where
  | int | time
  deriving Repr, DecidableEq

def opndPs (u : TimeUnit) : Opnd → Int → Int
  | .int, k => k * (Generated.factor u : Int)
  | .time, ps => ps

/-- the in-place operators of `UniformTime`.  A 1-d operand is given by its first element `v0`,
its step `d` and its length `cnt` (non-uniform operands are C17's subject). -/
inductive IOp where
  | addS (k : Opnd) (v : Int) | subS (k : Opnd) (v : Int)
  | addR (k : Opnd) (v0 d : Int) (cnt : Nat) | subR (k : Opnd) (v0 d : Int) (cnt : Nat)
  | mul (k : Int) | div (k : Int)
  | setitem
  deriving Repr, DecidableEq

/-- a 1-d operand: empty → refused; one element → numpy broadcasts it (a shift); otherwise the
lengths must match and the step must not cancel the interval -/
def rampOp (a : Axis) (sgn v0 d : Int) (cnt : Nat) : Except Err Axis :=
  if cnt = 0 then .error .valueError
  else if cnt = 1 then .ok (setSampling a (a.t0 + sgn * v0) a.dt)
  else if (d ≠ 0 ∧ a.dt + sgn * d = 0) ∨ cnt ≠ a.n then .error .valueError
  else .ok (setSampling a (a.t0 + sgn * v0) (a.dt + sgn * d))

def applyIOp (a : Axis) : IOp → Except Err Axis
  | .addS k v => .ok (setSampling a (a.t0 + opndPs a.unit k v) a.dt)
  | .subS k v => .ok (setSampling a (a.t0 - opndPs a.unit k v) a.dt)
  | .addR k v0 d cnt => rampOp a 1 (opndPs a.unit k v0) (opndPs a.unit k d) cnt
  | .subR k v0 d cnt => rampOp a (-1) (opndPs a.unit k v0) (opndPs a.unit k d) cnt
  | .mul k => if k = 0 then .error .valueError else .ok (setSampling a (a.t0 * k) (a.dt * k))
  | .div k =>
    if k = 0 ∨ a.t0 % k ≠ 0 ∨ a.dt % k ≠ 0 then .error .valueError
    else .ok (setSampling a (a.t0 / k) (a.dt / k))
  | .setitem => .error .valueError

/-- a `TimeSeries`: its own attribute values (private copies, never changed afterwards), the
length of its data and the cache of the `time` property -/
structure SeriesObj where
  t0 : Int
  dt : Int
  rate : Rat
  unit : TimeUnit
  n : Nat
  time : Option Nat
  deriving Repr, DecidableEq

structure Heap where
  axes : List Axis
  series : List SeriesObj
  deriving Repr, DecidableEq

structure HCfg where
  /-- `TimeSeries(data, time=axis)` with nothing overridden, the axis' own unit and a matching
  length pre-seeds the `time` cache with the caller's axis object -/
  seriesKeepsAxis : Bool
  /-- `UniformTime(axis)` with no other argument returns the object it was given -/
  rebuildReturnsSource : Bool
  deriving Repr, DecidableEq

def hIntended : HCfg := ⟨false, false⟩

inductive Cmd where
  /-- `UniformTime(axes[src], time_unit=unit, length=length)` -/
  | rebuild (src : Nat) (unit : UArg) (length : Option Nat)
  /-- `axes[src].copy()` -/
  | copy (src : Nat)
  /-- `TimeSeries(zeros(m), time=axes[src], time_unit=unit)` -/
  | series (src : Nat) (m : Nat) (unit : UArg)
  /-- read `series[sid].time` -/
  | time (sid : Nat)
  /-- `series[sid].copy()` = `TimeSeries(data.copy(), time=self.time.copy(), time_unit=self.time_unit)` -/
  | seriesCopy (sid : Nat)
  /-- `axes[id] <op>= operand` -/
  | inplace (id : Nat) (op : IOp)
  deriving Repr, DecidableEq

/-- what a command hands back to the caller -/
inductive Res where
  | axis (id : Nat) | series (sid : Nat) | unit
  deriving Repr, DecidableEq

def Heap.allocAxis (h : Heap) (a : Axis) : Heap × Nat :=
  ({ h with axes := h.axes ++ [a] }, h.axes.length)

/-- the axis a series builds on the first read of `.time`, from its own attributes -/
def seriesAxis (s : SeriesObj) : Except Err Axis :=
  mkUniform .intended { length := some s.n, t0 := some (.tobj s.t0 s.unit),
                        interval := some (.tobj s.dt s.unit), unit := .ok s.unit }

/-- read `.time` of series `sid`: the cached id, else build, allocate and cache -/
def readTime (h : Heap) (sid : Nat) : Except Err (Heap × Nat) :=
  match h.series[sid]? with
  | none => .error .valueError
  | some s =>
    match s.time with
    | some p => .ok (h, p)
    | none =>
      match seriesAxis s with
      | .error e => .error e
      | .ok a =>
        let (h', p) := h.allocAxis a
        .ok ({ h' with series := h'.series.set sid { s with time := some p } }, p)

/-- `TimeSeries(zeros(m), time=ax, time_unit=unit)` where `ax` is the value of object `src` -/
def newSeries (cfg : HCfg) (h : Heap) (src : Nat) (ax : Axis) (m : Nat) (unit : UArg) :
    Except Err (Heap × Res) :=
  match mkSeriesFromTime .intended ax m none unit with
  | .error e => .error e
  | .ok sr =>
    let keep := cfg.seriesKeepsAxis && decide (sr.unit = ax.unit) && decide (ax.n = m)
    let s : SeriesObj := { t0 := sr.t0, dt := sr.dt, rate := sr.rate, unit := sr.unit, n := m,
                           time := if keep then some src else none }
    .ok ({ h with series := h.series ++ [s] }, .series h.series.length)

def exec (cfg : HCfg) (h : Heap) : Cmd → Except Err (Heap × Res)
  | .rebuild src unit length =>
    match h.axes[src]? with
    | none => .error .valueError
    | some d =>
      match mkUniform .intended { data := some d, unit := unit, length := length } with
      | .error e => .error e
      | .ok a =>
        if cfg.rebuildReturnsSource && decide (unit = .none) && length.isNone then .ok (h, .axis src)
        else let (h', p) := h.allocAxis a; .ok (h', .axis p)
  | .copy src =>
    match h.axes[src]? with
    | none => .error .valueError
    | some d => let (h', p) := h.allocAxis d; .ok (h', .axis p)
  | .series src m unit =>
    match h.axes[src]? with
    | none => .error .valueError
    | some d => newSeries cfg h src d m unit
  | .time sid =>
    match readTime h sid with
    | .error e => .error e
    | .ok (h', p) => .ok (h', .axis p)
  | .seriesCopy sid =>
    match readTime h sid with
    | .error e => .error e
    | .ok (h', p) =>
      match h'.axes[p]?, h'.series[sid]? with
      | some d, some s =>
        -- the argument is a COPY of the series' axis, an object nobody else can reach: whether
        -- the new series keeps it or builds its own later cannot be observed, so no short-cut
        -- applies here and the unreachable copy gets no id
        newSeries hIntended h' p d s.n (.ok s.unit)
      | _, _ => .error .valueError
  | .inplace id op =>
    match h.axes[id]? with
    | none => .error .valueError
    | some a =>
      match applyIOp a op with
      | .error e => .error e
      | .ok a' => .ok ({ h with axes := h.axes.set id a' }, .unit)

/-- the object an in-place operator is applied to (constructors are applied to none) -/
def Cmd.target : Cmd → Option Nat
  | .inplace id _ => some id
  | _ => none

/-- a program: a command that raises leaves every object as it was -/
def stepH (cfg : HCfg) (h : Heap) (c : Cmd) : Heap :=
  match exec cfg h c with
  | .ok (h', _) => h'
  | .error _ => h

def runH (cfg : HCfg) (h : Heap) (cs : List Cmd) : Heap := cs.foldl (stepH cfg) h

/-! ### below object granularity: the sample buffer of every axis (session 3)

Next to the object store runs a store of SAMPLE BUFFERS: `parts[i]` is the id of the buffer the
axis object `axes[i]` views, `bufs` maps a buffer id to its content.  The content of a buffer is
always an affine grid (every in-place operator maps grids to grids), so it is kept as the triple
(first sample, step, count).  A constructor (`UniformTime.__new__` lays the samples out with
`np.arange`, `.copy()` copies them) ALLOCATES a new buffer; an in-place operator WRITES through the
buffer of its target.  `share = true` models a memo of sample grids that hands out the stored array
itself (a view): a new axis with the (t0, Δ, n) of an earlier one gets that one's buffer. -/

abbrev Grid := Int × Int × Nat

def Axis.grid (a : Axis) : Grid := (a.t0, a.dt, a.n)

structure PHeap where
  next : Nat
  parts : List Nat
  bufs : List (Nat × Grid)
  memo : List (Grid × Nat)
  deriving Repr, DecidableEq

def PHeap.read (p : PHeap) (b : Nat) : Grid := ((p.bufs.find? (fun e => e.1 == b)).map (·.2)).getD (0, 0, 0)

def PHeap.empty : PHeap := ⟨0, [], [], []⟩

/-- a new axis object with the described grid `g` -/
def PHeap.alloc (share : Bool) (p : PHeap) (g : Grid) : PHeap :=
  match (if share then p.memo.find? (fun e => e.1 == g) else none) with
  | some (_, b) => { p with parts := p.parts ++ [b] }
  | none => { next := p.next + 1, parts := p.parts ++ [p.next], bufs := (p.next, g) :: p.bufs,
              memo := if share then (g, p.next) :: p.memo else p.memo }

/-- `axes[id] <op>= …` (accepted by the object layer): the operator is applied to what the BUFFER holds -/
def PHeap.inplace (p : PHeap) (a : Axis) (id : Nat) (op : IOp) : PHeap :=
  match p.parts[id]? with
  | none => p
  | some b =>
    let g := p.read b
    match applyIOp { a with t0 := g.1, dt := g.2.1, n := g.2.2 } op with
    | .ok a' => { p with bufs := (b, a'.grid) :: p.bufs }
    | .error _ => p

/-- one command on both layers (the buffer layer follows what the object layer did) -/
def stepHP (share : Bool) (hp : Heap × PHeap) (c : Cmd) : Heap × PHeap :=
  match exec hIntended hp.1 c with
  | .error _ => hp
  | .ok (h', _) =>
    match c with
    | .inplace id op =>
      match hp.1.axes[id]? with
      | some a => (h', hp.2.inplace a id op)
      | none => (h', hp.2)
    | _ =>
      match h'.axes.drop hp.1.axes.length with
      | [a] => (h', hp.2.alloc share a.grid)
      | _ => (h', hp.2)

def runHP (share : Bool) (hp : Heap × PHeap) (cs : List Cmd) : Heap × PHeap := cs.foldl (stepHP share) hp

def startHP (a : Axis) : Heap × PHeap := ({ axes := [a], series := [] }, PHeap.empty.alloc false a.grid)

/-- for every axis the smallest index of an axis that views the same buffer -/
def bufReps (parts : List Nat) : List Nat :=
  (List.range parts.length).map fun j => (parts.take (j + 1)).idxOf (parts.getD j 0)

/-! ### line protocol -/
open Proto

def parseTArg? (s : String) : Option (Option TArg) :=
  if s = "-" then some none else
  match s.splitOn ":" with
  | ["T", u, ps] => do
    let u ← TimeUnit.ofString? u
    let ps ← ps.toInt?
    pure (some (.tobj ps u))
  | _ => (C01.parseNum? s).map fun n => some (.num n)

def parseRArg? (s : String) : Option (Option RArg) :=
  if s = "-" then some none else
  match s.splitOn ":" with
  | ["F", h] => (parseHex? h).map fun n => some (.freq (F64.ofBits n))
  | _ => (C01.parseNum? s).map fun n => some (.num n)

def parseUArg? (s : String) : Option UArg :=
  if s = "none" then some .none else if s = "bad" then some .bad
  else (TimeUnit.ofString? s).map .ok

def parseLen? (s : String) : Option (Option Nat) :=
  if s = "-" then some none else s.toNat?.map some

/-- `A:<unit>:<t0>:<dt>:<n>:<dur>:<rate hex>` -/
def parseAxis? (s : String) : Option (Option Axis) :=
  if s = "-" then some none else
  match s.splitOn ":" with
  | ["A", u, t0, dt, n, dur, r] => do
    let u ← TimeUnit.ofString? u
    let t0 ← t0.toInt?
    let dt ← dt.toInt?
    let n ← n.toNat?
    let dur ← dur.toInt?
    let r ← parseHex? r
    pure (some { t0 := t0, dt := dt, n := n, dur := dur, rate := F64.ofBits r, unit := u })
  | _ => none

/-- first, second and last sample (through `samples` for short axes, `sampleAt` for long ones) -/
def showSamples (a : Axis) : String :=
  if a.n = 0 then "-" else
  let get (i : Nat) : Int := if a.n ≤ 4096 then (samples a).getD i 0 else sampleAt a i
  showIntList [get 0, get (min 1 (a.n - 1)), get (a.n - 1)]

def showAxis (a : Axis) : String :=
  s!"A:{a.unit.name}:{a.t0}:{a.dt}:{a.n}:{a.dur}:{hex64 (F64.toBits a.rate)}:S:{showSamples a}"

def showErr : Err → String
  | .valueError => "err ValueError"
  | .typeError => "err TypeError"
  | .zeroDiv => "err ZeroDivisionError"

def showExcept {α} (f : α → String) : Except Err α → String
  | .ok a => "ok " ++ f a
  | .error e => showErr e

def showSeries (s : Series) : String :=
  s!"S:{s.unit.name}:{s.t0}:{s.dt}:{hex64 (F64.toBits s.rate)}:{showAxis s.time}"

/-- both variants, `intended | current` -/
def both (f : Variant → String) : String := f .intended ++ " | " ++ f .current

/-! protocol of the object programs: `heap <initial axis> <cmd;cmd;…>` -/
def parseOpnd? (s : String) : Option Opnd :=
  if s = "i" then some .int else if s = "t" then some .time else none

def parseIOp? : List String → Option IOp
  | ["as", k, v] => do pure (.addS (← parseOpnd? k) (← v.toInt?))
  | ["ss", k, v] => do pure (.subS (← parseOpnd? k) (← v.toInt?))
  | ["ar", k, v0, d, cnt] => do pure (.addR (← parseOpnd? k) (← v0.toInt?) (← d.toInt?) (← cnt.toNat?))
  | ["sr", k, v0, d, cnt] => do pure (.subR (← parseOpnd? k) (← v0.toInt?) (← d.toInt?) (← cnt.toNat?))
  | ["mu", k] => k.toInt?.map .mul
  | ["dv", k] => k.toInt?.map .div
  | ["st"] => some .setitem
  | _ => none

def parseCmd? (s : String) : Option Cmd :=
  match s.splitOn ":" with
  | ["R", src, u, l] => do pure (.rebuild (← src.toNat?) (← parseUArg? u) (← parseLen? l))
  | ["C", src] => src.toNat?.map .copy
  | ["S", src, m, u] => do pure (.series (← src.toNat?) (← m.toNat?) (← parseUArg? u))
  | ["T", sid] => sid.toNat?.map .time
  | ["SC", sid] => sid.toNat?.map .seriesCopy
  | "I" :: id :: rest => do pure (.inplace (← id.toNat?) (← parseIOp? rest))
  | _ => none

def showSeriesObj (s : SeriesObj) : String :=
  let t := match s.time with
    | some p => toString p
    | none => "-"
  s!"S:{s.unit.name}:{s.t0}:{s.dt}:{hex64 (F64.toBits s.rate)}:{s.n}:{t}"

def showHeap (h : Heap) : String :=
  "|".intercalate (h.axes.map showAxis) ++ "#" ++ "|".intercalate (h.series.map showSeriesObj)

def showRes : Res → String
  | .axis id => s!"a{id}"
  | .series sid => s!"s{sid}"
  | .unit => "-"

/-- every object after every command -/
def traceH (cfg : HCfg) (h : Heap) : List Cmd → List String
  | [] => []
  | c :: cs =>
    match exec cfg h c with
    | .ok (h', r) => ("ok " ++ showRes r ++ " " ++ showHeap h') :: traceH cfg h' cs
    | .error e => (showErr e ++ " " ++ showHeap h) :: traceH cfg h cs

def handle (args : List String) : String :=
  match args with
  | ["uniform", data, len, dur, rate, iv, t0, unit] =>
    match parseAxis? data, parseLen? len, parseTArg? dur, parseRArg? rate, parseTArg? iv,
          parseTArg? t0, parseUArg? unit with
    | some data, some len, some dur, some rate, some iv, some t0, some unit =>
      let s : Spec := { data := data, length := len, duration := dur, rate := rate,
                        interval := iv, t0 := t0, unit := unit }
      both fun v => showExcept showAxis (mkUniform v s)
    | _, _, _, _, _, _, _ => "bad-op"
  | ["series", n, t0, iv, rate, dur, unit] =>
    match n.toNat?, parseTArg? t0, parseTArg? iv, parseRArg? rate, parseTArg? dur, parseUArg? unit with
    | some n, some t0, some iv, some rate, some dur, some unit =>
      both fun v => showExcept showSeries (mkSeries v n t0 iv rate dur unit)
    | _, _, _, _, _, _ => "bad-op"
  | ["series_from_time", ax, n, t0, unit] =>
    match parseAxis? ax, n.toNat?, parseTArg? t0, parseUArg? unit with
    | some (some ax), some n, some t0, some unit =>
      both fun v => showExcept showSeries (mkSeriesFromTime v ax n t0 unit)
    | _, _, _, _ => "bad-op"
  | ["series_from_time_rate", ax, n, t0, rate, unit] =>
    match parseAxis? ax, n.toNat?, parseTArg? t0, parseRArg? rate, parseUArg? unit with
    | some (some ax), some n, some t0, some (some rate), some unit =>
      both fun v => showExcept showSeries (mkSeriesFromTimeRate v ax n t0 rate unit)
    | _, _, _, _, _ => "bad-op"
  | ["freq", f, unit] =>
    match C01.parseNum? f, TimeUnit.ofString? unit with
    | some f, some u => "ok " ++ hex64 (F64.toBits (frequency (numToF f) u))
    | _, _ => "bad-op"
  | ["to_period", h] =>
    match parseHex? h with
    | some n => both fun v => showExcept toString (toPeriod v (F64.ofBits n))
    | none => "bad-op"
  | ["to_period_seq", h, us] =>
    match parseHex? h, (splitList us).mapM TimeUnit.ofString? with
    | some n, some us =>
      "ok " ++ joinList ((toPeriodSeq (F64.ofBits n) us).map fun r => match r with
        | .ok p => toString p
        | .error _ => "err")
    | _, _ => "bad-op"
  | ["tarray", x, unit, copy] =>
    let xin : Option TAIn :=
      if x = "M" then some .matrix
      else if x.startsWith "n" then (x.drop 1).toString.toInt?.map .i64
      else match C01.parseNum? x with
        | some (.int k) => some (.pyInt k)
        | some (.flt q) => some (.flt q)
        | none => none
    match xin, parseUArg? unit with
    | some xin, some u =>
      showExcept (fun (r : Int × TimeUnit) => s!"{r.1} {r.2.name}") (timeArray0 xin u (copy = "1"))
    | _, _ => "bad-op"
  | ["heap", ax, prog] =>
    match parseAxis? ax, (if prog = "-" then some [] else (prog.splitOn ";").mapM parseCmd?) with
    | some (some a), some cs =>
      let h : Heap := { axes := [a], series := [] }
      "ok " ++ " ; ".intercalate (showHeap h :: traceH hIntended h cs)
    | _, _ => "bad-op"
  | ["heapparts", ax, prog] =>
    match parseAxis? ax, (if prog = "-" then some [] else (prog.splitOn ";").mapM parseCmd?) with
    | some (some a), some cs =>
      let hp := runHP false (startHP a) cs
      "ok B:" ++ showNatList (bufReps hp.2.parts) ++ " W:" ++
        showBoolList ((List.range hp.1.axes.length).map fun j =>
          match hp.1.axes[j]? with
          | some x => hp.2.read (hp.2.parts.getD j 0) == x.grid
          | none => false)
    | _, _ => "bad-op"
  | ["arange_len", dur, dt] =>
    match dur.toInt?, dt.toInt? with
    | some dur, some dt => "ok " ++ toString (arangeLen dur dt)
    | _, _ => "bad-op"
  | _ => "bad-op"

end Nitime.C02
