/- C02 — model not written yet (stub so that the driver target exists). -/
namespace Nitime.C02

def handle (_args : List String) : String := "bad-op"

end Nitime.C02
