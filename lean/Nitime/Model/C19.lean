/-
C19 — event-related estimators (nitime.analysis.EventRelatedAnalyzer; nitime.algorithms.fir;
nitime.utils.fir_design_matrix).  Core Lean only.

All numerical work is done in EXACT rational arithmetic (`Rat`): the binary64 inputs are read as
the rationals they denote (`F64.ofFloat`), results are rounded once on output (`F64.toFloat`).
The property theorems (Props/C19.lean) are about these very definitions (same `Rat` instance).

What mirrors what:
* `eventTypes`      — `np.unique(events)[np.unique(events) != 0]`
* `designEntry`     — entry (r, b*L+j) of `utils.fir_design_matrix` (closed form; the code's
                      accumulation "for every event add eye(L)*sign" is `designEventSum`; equality is
                      theorem `designEntry_eq_eventSum`; the op `design` ties it to the code)
* `designOk`        — the slice `fir_matrix[k:k+L]` must have L rows, else numpy raises ValueError
* `firSolve`        — `algorithms.fir` = pinv(XᵀX)Xᵀy, modelled for full rank as the solution of the
                      normal equations by own Gaussian elimination `elimSolve` (exact; proved sound and,
                      for a non-singular system, total: `elimSolve_sound`, `elimSolve_total`)
* `padFn`, `rollFn` — zero padding by offset / len_et in `__init__`, `np.roll` in `FIR`
* `etaRow`, `semSqRow`, `positions` — `eta` / `ets` for an event-coded series
* `etaRowZ`, `eventIndex`           — `eta` / `ets` for an `Events` object (no padding, python
                      negative-index wrap, `(time / sampling_interval).astype(int)`)
* `t0Ps`            — `t0 = offset * sampling_interval`
* `cur : Bool`      — `true`: today's `np.sign(t)` factor in the design matrix; `false`: intended
                      (no sign; each code's own response is returned).
-/
import Nitime.Model.Proto
import Nitime.Model.F64

namespace Nitime.C19
open Nitime.Proto

/-! ## sums -/

def sumRange (n : Nat) (f : Nat → Rat) : Rat := ((List.range n).map f).sum
def sumRangeI (n : Nat) (f : Nat → Int) : Int := ((List.range n).map f).sum

/-! ## event types: sorted distinct non-zero codes -/

def insertUniq (t : Int) : List Int → List Int
  | [] => [t]
  | u :: us => if t < u then t :: u :: us else if t = u then u :: us else u :: insertUniq t us

/-- `np.unique` -/
def uniqueSorted (xs : List Int) : List Int := xs.foldr insertUniq []

/-- `np.unique(ev)[np.unique(ev) != 0]` -/
def eventTypes (xs : List Int) : List Int := (uniqueSorted xs).filter (fun t => t != 0)

/-! ## FIR design matrix -/

/-- `np.sign(t)` when `cur`, else 1 (intended: no sign convention) -/
def sgn (cur : Bool) (t : Int) : Int :=
  if cur then (if t > 0 then 1 else if t < 0 then -1 else 0) else 1

/-- entry (r, c) with c = b*L + j: the event at row r-j (if any) of type `types[b]` puts
    `sign` on the j-th diagonal element of its identity block -/
def designEntry (cur : Bool) (ev : Nat → Int) (types : List Int) (L r c : Nat) : Int :=
  let t := types.getD (c / L) 0
  if c % L ≤ r ∧ ev (r - c % L) = t ∧ t ≠ 0 then sgn cur t else 0

/-- the code's accumulation: for every event k of type `types[b]`: `M[k:k+L, bL:(b+1)L] += eye(L)*sign` -/
def designEventSum (cur : Bool) (n : Nat) (ev : Nat → Int) (types : List Int) (L r c : Nat) : Int :=
  let t := types.getD (c / L) 0
  sumRangeI n fun k => if ev k = t ∧ t ≠ 0 ∧ k ≤ r ∧ r - k = c % L then sgn cur t else 0

/-- numpy raises ValueError when an event is closer than L to the end (short slice += eye(L)) -/
def designOk (n : Nat) (ev : Nat → Int) (L : Nat) : Bool :=
  (List.range n).all fun k => ev k == 0 || k + L ≤ n

/-! ## least squares through the normal equations -/

def gram (n : Nat) (X : Nat → Nat → Int) (a b : Nat) : Int := sumRangeI n fun r => X r a * X r b
def xty (n : Nat) (X : Nat → Nat → Int) (y : Nat → Rat) (a : Nat) : Rat :=
  sumRange n fun r => (X r a : Rat) * y r

/-- first row whose leading entry is non-zero, and the remaining rows (order kept) -/
def pickPivot : List (List Rat) → Option (List Rat × List (List Rat))
  | [] => none
  | r :: rs =>
    if r.getD 0 0 ≠ 0 then some (r, rs) else
    match pickPivot rs with
    | none => none
    | some (q, rest) => some (q, r :: rest)

/-- eliminate the leading unknown of `row` with the pivot row; keeps entries 1..m -/
def reduceRow (m : Nat) (piv row : List Rat) : List Rat :=
  (List.range m).map fun c => row.getD (c + 1) 0 - (row.getD 0 0 / piv.getD 0 0) * piv.getD (c + 1) 0

/-- Gaussian elimination with back substitution on p augmented rows `[a₀ … a_{p-1}, rhs]` (exact;
    `none` iff some column has no pivot, i.e. the matrix is singular — see `elimSolve_total`) -/
def elimSolve : Nat → List (List Rat) → Option (List Rat)
  | 0, _ => some []
  | p + 1, rows =>
    match pickPivot rows with
    | none => none
    | some (piv, rest) =>
      match elimSolve p (rest.map (reduceRow (p + 1) piv)) with
      | none => none
      | some xs =>
        some ((piv.getD (p + 1) 0 - sumRange p (fun c => piv.getD (c + 1) 0 * xs.getD c 0)) / piv.getD 0 0 :: xs)

/-- augmented rows of the normal equations XᵀX x = Xᵀy -/
def normalRows (n p : Nat) (X : Nat → Nat → Int) (y : Nat → Rat) : List (List Rat) :=
  (List.range p).map fun a =>
    ((List.range p).map fun b => ((gram n X a b : Int) : Rat)) ++ [xty n X y a]

/-- `algorithms.fir` for a full-rank design: `none` = singular -/
def firSolve (n p : Nat) (X : Nat → Nat → Int) (y : Nat → Rat) : Option (List Rat) :=
  elimSolve p (normalRows n p X y)

/-! ## padding, rolling, planted signals -/

/-- `hstack([zeros(o), x, zeros(..)])` as a function of the padded index -/
def padFn {α} (zero : α) (o N : Nat) (x : Nat → α) (p : Nat) : α :=
  if o ≤ p ∧ p < o + N then x (p - o) else zero

/-- `np.roll(x, k)` for an array of length n -/
def rollFn {α} (n k : Nat) (x : Nat → α) (i : Nat) : α := x ((i + n - k % n) % n)

/-- the noise-free linear system of the property: every event k (code ≠ 0) adds the response of its
    code, `resp (ev k) 0 .. resp (ev k) (L-1)`, starting `off` samples after the event -/
def planted (n : Nat) (ev : Nat → Int) (resp : Int → Nat → Rat) (off L p : Nat) : Rat :=
  sumRange n fun k =>
    if ev k ≠ 0 ∧ k + off ≤ p ∧ p < k + off + L then resp (ev k) (p - (k + off)) else 0

/-! ## event-triggered average / standard error -/

/-- `np.where(events == t)[0]` -/
def positions (n : Nat) (ev : Nat → Int) (t : Int) : List Nat :=
  (List.range n).filter fun k => ev k == t

def meanOver (idx : List Nat) (f : Nat → Rat) : Rat := (idx.map f).sum / (idx.length : Rat)

/-- sample j of event k's window, with the optional baseline correction `event_trig -= event_trig[0]` -/
def trig (cb : Bool) (data : Nat → Rat) (off j k : Nat) : Rat :=
  if cb then data (k + off + j) - data (k + off) else data (k + off + j)

/-- `np.mean(data[idx + offset], -1)[j]` -/
def etaRow (cb : Bool) (data : Nat → Rat) (idx : List Nat) (off j : Nat) : Rat :=
  meanOver idx (trig cb data off j)

/-- square of `stats.sem(…, -1)[j]` = (unbiased variance) / count -/
def semSqRow (cb : Bool) (data : Nat → Rat) (idx : List Nat) (off j : Nat) : Rat :=
  let m := etaRow cb data idx off j
  ((idx.map fun k => (trig cb data off j k - m) * (trig cb data off j k - m)).sum
     / ((idx.length : Rat) - 1)) / (idx.length : Rat)

/-- python indexing of an array of length N with a possibly negative index (caller checks range) -/
def dataZ (N : Nat) (data : Nat → Rat) (i : Int) : Rat :=
  if 0 ≤ i then data i.toNat else data (i + (N : Int)).toNat

/-- Events branch, one sample of one window, with the baseline correction `event_trig - event_trig[0]`
    (repaired in /repo 7b5e6e4; before that the Events branch ignored `correct_baseline`) -/
def trigZ (cb : Bool) (N : Nat) (data : Nat → Rat) (off : Int) (j : Nat) (k : Int) : Rat :=
  if cb then dataZ N data (k + off + (j : Int)) - dataZ N data (k + off) else dataZ N data (k + off + (j : Int))

/-- Events branch: `data[idx + add_offset]` averaged over the events, no padding -/
def etaRowZ (cb : Bool) (N : Nat) (data : Nat → Rat) (idx : List Int) (off : Int) (j : Nat) : Rat :=
  ((idx.map (trigZ cb N data off j)).sum) / (idx.length : Rat)

def semSqRowZ (cb : Bool) (N : Nat) (data : Nat → Rat) (idx : List Int) (off : Int) (j : Nat) : Rat :=
  let m := etaRowZ cb N data idx off j
  ((idx.map fun k => (trigZ cb N data off j k - m) * (trigZ cb N data off j k - m)).sum
     / ((idx.length : Rat) - 1)) / (idx.length : Rat)

/-! ## recordings stored in an integer dtype

`__init__` stacks the recording with float64 zeros (`np.hstack([zeros_before, data, zeros_after])`), so the working
copy holds the EXACT embedding of the stored integers (every int16/int32/uint8/uint16 value, and every int64 value of
magnitude < 2^53, is a binary64 value); the Events branch converts the windows likewise (repaired in /repo cb45faf).
`trigWrap` is the variant in which the subtraction `event_trig -= event_trig[0]` is done IN an unsigned dtype of `bits`
bits (a working copy padded in the recording's own dtype): it wraps modulo 2^bits. -/

/-- exact embedding of stored integers into the working precision -/
def embedInt (d : Nat → Int) : Nat → Rat := fun i => ((d i : Int) : Rat)

def trigWrap (bits : Nat) (cb : Bool) (d : Nat → Int) (off j k : Nat) : Int :=
  if cb then (d (k + off + j) - d (k + off)) % (2 ^ bits : Int) else d (k + off + j)

def etaRowWrap (bits : Nat) (cb : Bool) (d : Nat → Int) (idx : List Nat) (off j : Nat) : Rat :=
  meanOver idx (fun k => ((trigWrap bits cb d off j k : Int) : Rat))

/-- `(events.time / sampling_interval).astype(int)`: binary64 quotient of the two int64 picosecond
    values, truncated toward zero -/
def eventIndex (timePs siPs : Int) : Int :=
  F64.trunc (F64.fdiv (F64.ofInt timePs) (F64.ofInt siPs))

/-- `t0 = offset * sampling_interval` (int64 picoseconds) -/
def t0Ps (off siPs : Int) : Int := off * siPs

/-! ## analyzer level (arrays) -/

def getI (a : Array Int) (i : Nat) : Int := a.getD i 0
def getR (a : Array Rat) (i : Nat) : Rat := a.getD i 0

/-- `np.array(h).squeeze()` shape -/
def squeeze (s : List Nat) : List Nat := s.filter (· != 1)

/-- one channel of `FIR`: padded events/data in, coefficient list (types*L) out -/
def firChannel (cur : Bool) (nPad : Nat) (evPad : Nat → Int) (dataPad : Nat → Rat) (off L : Nat) :
    Except String (List Rat) :=
  let rolled := rollFn nPad off evPad
  let types := eventTypes ((List.range nPad).map rolled)
  if !designOk nPad rolled L then .error "err ValueError" else
  let p := types.length * L
  match firSolve nPad p (designEntry cur rolled types L) dataPad with
  | none => .error "singular"
  | some x => .ok x

/-- `F64.toFloat` rounds in the NORMAL range only; recordings at amplitude 1e-300 leave rounding dust
    below 2^-1022 in the exact estimate, which is rounded here on the subnormal grid (multiples of
    2^-1074, ties to even; 2^52 grid steps = the smallest normal number, same bit layout) -/
def toFloatSub (q : Rat) : Float :=
  let a := if q < 0 then -q else q
  if a < F64.pow2 (-1022) then
    let m := F64.rint (a / F64.pow2 (-1074))
    Float.ofBits (UInt64.ofNat ((if q < 0 then 2^63 else 0) + m.toNat))
  else F64.toFloat q

def showRatAsFloat (q : Rat) : String := showFloat (toFloatSub q)

def semOut (cnt : Nat) (q : Rat) : String :=
  if cnt ≤ 1 then showFloat (0.0 / 0.0) else showFloat (Float.sqrt (toFloatSub q))

structure Job where
  what : String
  off : Int
  L : Nat
  cb : Bool
  si : Int
  nch : Nat      -- 0 = 1-d data
  N : Nat
  evch : Nat     -- 0 = 1-d events
  ev : Array Int
  data : Array Rat

def header (j : Job) (shape : List Nat) : String :=
  "ok t0=" ++ toString (t0Ps j.off j.si) ++ " si=" ++ toString j.si ++ " shape=" ++ showNatList (squeeze shape)

/-- padded event series of channel `ch` (1-d events are broadcast to every channel) -/
def evOf (j : Job) (ch : Nat) : Nat → Int :=
  padFn 0 j.off.toNat j.N (fun i => getI j.ev ((if j.evch = 0 then 0 else ch) * j.N + i))

/-- padded data of channel `ch` -/
def dataOf (j : Job) (ch : Nat) : Nat → Rat :=
  padFn 0 j.off.toNat j.N (fun i => getR j.data (ch * j.N + i))

def nPadOf (j : Job) : Nat := j.off.toNat + j.N + j.L

/-- `event_types` of channel `ch` -/
def typesOf (j : Job) (ch : Nat) : List Int := eventTypes ((List.range (nPadOf j)).map (evOf j ch))

/-- the eta values of row `ch` for a given list of event types (the rows of the result that belong to channel `ch`) -/
def etaBlock (j : Job) (types : List Int) (ch : Nat) : List Rat :=
  types.flatMap fun t => (List.range j.L).map fun jj =>
    etaRow j.cb (dataOf j ch) (positions (nPadOf j) (evOf j ch) t) j.off.toNat jj

/-- VARIANT (not today's code): `np.unique(self.events)` taken once over ALL rows -- the union of the rows' code sets -/
def typesUnion (j : Job) : List Int :=
  eventTypes ((List.range (max j.nch 1)).flatMap fun ch => (List.range (nPadOf j)).map (evOf j ch))

/-- a window of some event would leave the padded array (numpy IndexError) -/
def windowBad (j : Job) : Bool :=
  (List.range (max j.nch 1)).any fun ch => (typesOf j ch).any fun t =>
    (positions (nPadOf j) (evOf j ch) t).any fun k => j.L > 0 && k + j.off.toNat + j.L > nPadOf j

def isErr (r : Except String (List Rat)) : Bool := match r with | .error _ => true | .ok _ => false
def okVal (r : Except String (List Rat)) : List Rat := match r with | .ok x => x | .error _ => []

/-- un-squeezed shape and flat (rendered) values of FIR / eta / ets -/
structure Out where
  shape : List Nat
  data : List String

/-- `FIR` / `eta` / `ets` for an event-coded series input (`_is_ts = True`), one sign variant:
    per-channel loop, reshape by event type, `np.array(h)` (ragged → ValueError) -/
def seriesOut (cur : Bool) (j : Job) : Except String Out :=
  if j.off < 0 then .error "err ValueError" else   -- np.zeros with a negative dimension
  let o := j.off.toNat
  let C := max j.nch 1
  let T := (typesOf j 0).length
  if (List.range C).any (fun ch => (typesOf j ch).length != T) then .error "err ValueError" else
  if j.what = "fir" then
    let res := (List.range C).map fun ch => firChannel cur (nPadOf j) (evOf j ch) (dataOf j ch) o j.L
    match res.find? isErr with
    | some (.error e) => .error e
    | _ => .ok ⟨[C, T, j.L], (res.flatMap okVal).map showRatAsFloat⟩
  else
    if windowBad j then .error "err IndexError" else
    if j.what = "eta" then
      .ok ⟨[C, T, j.L], (List.range C).flatMap fun ch => (typesOf j ch).flatMap fun t =>
        (List.range j.L).map fun jj =>
          showRatAsFloat (etaRow j.cb (dataOf j ch) (positions (nPadOf j) (evOf j ch) t) o jj)⟩
    else if j.what = "ets" then
      .ok ⟨[C, T, j.L], (List.range C).flatMap fun ch => (typesOf j ch).flatMap fun t =>
        let idx := positions (nPadOf j) (evOf j ch) t
        (List.range j.L).map fun jj => semOut idx.length (semSqRow j.cb (dataOf j ch) idx o jj)⟩
    else .error "bad-op"

/-- event-coded series input: line-protocol rendering of `seriesOut`, and `et_data` -/
def runSeries (cur : Bool) (j : Job) : String :=
  if j.what = "etdata" then
    if j.off < 0 then "err ValueError" else
    let o := j.off.toNat
    let C := max j.nch 1
    if windowBad j then "err IndexError" else
    let blocks := (List.range C).flatMap fun ch => (typesOf j ch).map fun t =>
      let idx := positions (nPadOf j) (evOf j ch) t
      (idx.length, idx.flatMap fun k => (List.range j.L).map fun jj => showRatAsFloat (dataOf j ch (k + o + jj)))
    "ok t0=" ++ toString (t0Ps j.off j.si) ++ " si=" ++ toString j.si ++
      " blocks=" ++ showNatList (blocks.map (·.1)) ++ " data=" ++ joinList (blocks.flatMap (·.2))
  else
    match seriesOut cur j with
    | .error e => e
    | .ok out => header j out.shape ++ " data=" ++ joinList out.data

/-- `Events` input: `ev` holds the event times in picoseconds -/
def runEvents (cb : Bool) (j : Job) : String :=
  let C := max j.nch 1
  if j.si = 0 then "bad-si" else
  let idx : List Int := j.ev.toList.map fun t => eventIndex t j.si
  let bad := idx.any fun k => (List.range j.L).any fun jj =>
    let i := k + j.off + (jj : Int)
    i ≥ (j.N : Int) || i < -(j.N : Int)
  if bad then "err IndexError" else
  let dataOf (ch : Nat) : Nat → Rat := fun i => getR j.data (ch * j.N + i)
  if j.what = "eta" then
    let flat := (List.range C).flatMap fun ch =>
      (List.range j.L).map fun jj => showRatAsFloat (etaRowZ cb j.N (dataOf ch) idx j.off jj)
    header j [C, j.L] ++ " data=" ++ joinList flat
  else if j.what = "ets" then
    let flat := (List.range C).flatMap fun ch =>
      (List.range j.L).map fun jj => semOut idx.length (semSqRowZ cb j.N (dataOf ch) idx j.off jj)
    header j [C, j.L] ++ " data=" ++ joinList flat
  else "bad-op"

def hasNeg (j : Job) : Bool := j.ev.any (· < 0)

def parseJob? (args : List String) : Option Job :=
  match args with
  | [what, off, L, cb, si, nch, N, evch, ev, data] => do
    let off ← off.toInt?
    let L ← L.toNat?
    let si ← si.toInt?
    let nch ← nch.toNat?
    let N ← N.toNat?
    let evch ← evch.toNat?
    let ev ← parseIntList? ev
    let data ← parseFloatList? data
    some { what, off, L, cb := cb = "1", si, nch, N, evch, ev := ev.toArray,
           data := (data.map F64.ofFloat).toArray }
  | _ => none

/-- the design matrix op: `design <L> <events>` → `ok rows cols entries` (row-major) -/
def runDesign (cur : Bool) (L : Nat) (evl : List Int) : String :=
  let ev := evl.toArray
  let n := ev.size
  let types := eventTypes evl
  if !designOk n (getI ev) L then "err ValueError" else
  let p := types.length * L
  let entries := (List.range n).flatMap fun r => (List.range p).map fun c =>
    designEntry cur (getI ev) types L r c
  "ok " ++ toString n ++ " " ++ toString p ++ " " ++ showIntList entries

/-- the same matrix through the per-event accumulation `designEventSum` (op `designsum`) -/
def runDesignSum (cur : Bool) (L : Nat) (evl : List Int) : String :=
  let ev := evl.toArray
  let n := ev.size
  let types := eventTypes evl
  if !designOk n (getI ev) L then "err ValueError" else
  let p := types.length * L
  let entries := (List.range n).flatMap fun r => (List.range p).map fun c =>
    designEventSum cur n (getI ev) types L r c
  "ok " ++ toString n ++ " " ++ toString p ++ " " ++ showIntList entries

/-- the specification signal `planted` itself (op `planted`), compared with the harness's own planting -/
def runPlanted (off L : Nat) (evl codes : List Int) (resp : List Rat) : String :=
  let ev := evl.toArray
  let respFn : Int → Nat → Rat := fun t j =>
    match codes.findIdx? (· == t) with
    | some b => resp.getD (b * L + j) 0
    | none => 0
  "ok " ++ joinList ((List.range ev.size).map fun p => showRatAsFloat (planted ev.size (getI ev) respFn off L p))

/-- both sign variants when they can differ (negative codes): `current || intended` -/
def both (neg : Bool) (f : Bool → String) : String :=
  let a := f true
  if neg then
    let b := f false
    if a = b then a else a ++ " || " ++ b
  else a

/-! ## one analyzer object, several reads

The analyzer's getters (`FIR`, `eta`, `ets`, `et_data`) are `setattr_on_read` one-time properties: the
first read computes the value from the constructor inputs and stores it, later reads return the
stored value.  In the model the inputs are not part of the mutable state at all — the state is only
the cache — so a read cannot change them; `value` is the pure getter function of the inputs. -/

/-- one read: cached value if present, else compute and cache -/
def readC (value : String → String) (cache : List (String × String)) (w : String) :
    String × List (String × String) :=
  match cache.lookup w with
  | some v => (v, cache)
  | none => (value w, (w, value w) :: cache)

/-- a sequence of reads on one object: the returned values, and the final cache -/
def readsC (value : String → String) : List (String × String) → List String → List String × List (String × String)
  | cache, [] => ([], cache)
  | cache, w :: ws =>
    let r := readC value cache w
    let rs := readsC value r.2 ws
    (r.1 :: rs.1, rs.2)

/-- the getter `w` of the analyzer built from job `j` (series or Events input) -/
def getterValue (kind : String) (j : Job) (w : String) : String :=
  let j' := { j with what := w }
  if kind = "series" then runSeries true j' else runEvents j'.cb j'

/-! ## refused reads and partial loops (round 2, class L7)

A getter that raises is a `setattr_on_read` property whose function did not return: nothing is stored, on the analyzer or
anywhere else, and the next read computes again.  A refusal is an OUTCOME of the model (`err …` / `singular` lines; `Except`
inside), the analyzer object is its immutable inputs plus the one-time cache. -/

/-- a rendered outcome that is a refusal -/
def isRefusal (v : String) : Bool := v.startsWith "err" || v == "singular" || v == "bad-op"

/-- one read of a getter that may raise: a refusal is returned and NOTHING is stored -/
def readE (value : String → String) (cache : List (String × String)) (w : String) :
    String × List (String × String) :=
  match cache.lookup w with
  | some v => (v, cache)
  | none => if isRefusal (value w) then (value w, cache) else (value w, (w, value w) :: cache)

def readsE (value : String → String) : List (String × String) → List String → List String × List (String × String)
  | cache, [] => ([], cache)
  | cache, w :: ws =>
    let r := readE value cache w
    let rs := readsE value r.2 ws
    (r.1 :: rs.1, rs.2)

/-- one analyzer object: what the constructor stored (never written again) and the one-time cache -/
structure Obj where
  kind : String
  inputs : Job
  cache : List (String × String)

def Obj.read (o : Obj) (w : String) : String × Obj :=
  let r := readE (getterValue o.kind o.inputs) o.cache w
  (r.1, { o with cache := r.2 })

def Obj.reads : Obj → List String → List String × Obj
  | o, [] => ([], o)
  | o, w :: ws =>
    let r := o.read w
    let rs := Obj.reads r.2 ws
    (r.1 :: rs.1, rs.2)

/-- the per-channel loop of the getters (`for i in range(self._len_h)`): channel after channel, the first refused channel
    ends the loop with its error; the results of the channels before it are dropped with the frame -/
def loopChannels {β : Type} (f : Nat → Except String β) : List Nat → Except String (List β)
  | [] => .ok []
  | ch :: chs =>
    match f ch with
    | .error e => .error e
    | .ok v =>
      match loopChannels f chs with
      | .error e => .error e
      | .ok vs => .ok (v :: vs)

/-- the first refused channel of a loop -/
def firstRefused {β : Type} (f : Nat → Except String β) : List Nat → Option Nat
  | [] => none
  | ch :: chs => match f ch with
    | .error _ => some ch
    | .ok _ => firstRefused f chs

/-- the FIR loop of an event-coded series input -/
def firLoop (cur : Bool) (j : Job) : Except String (List (List Rat)) :=
  loopChannels (fun ch => firChannel cur (nPadOf j) (evOf j ch) (dataOf j ch) j.off.toNat j.L) (List.range (max j.nch 1))

/-! ## the entries of XᵀX are COUNTS (round 2, class L7: range of the design matrix's element type)

`gram` is exact (`Int`).  `wrapInt bits` is two's-complement wrap-around of a `bits`-bit signed element type: the VARIANT in
which the design matrix (entries −1, 0, 1) is held in `int8` and `design.T @ design` is formed in that type. -/

def wrapInt (bits : Nat) (v : Int) : Int :=
  if bits = 0 then v else (v + 2 ^ (bits - 1)) % (2 ^ bits : Int) - 2 ^ (bits - 1)

def gramWrap (bits n : Nat) (X : Nat → Nat → Int) (a b : Nat) : Int := wrapInt bits (gram n X a b)

/-- op `gramdiag <bits> <L> <events>`: the diagonal of XᵀX of `fir_design_matrix(events, L)` -/
def runGramDiag (cur : Bool) (bits L : Nat) (evl : List Int) : String :=
  let ev := evl.toArray
  let n := ev.size
  let types := eventTypes evl
  if !designOk n (getI ev) L then "err ValueError" else
  let p := types.length * L
  "ok " ++ showIntList ((List.range p).map fun c => gramWrap bits n (designEntry cur (getI ev) types L) c c)

def handle (args : List String) : String :=
  match args with
  -- seqf <order> <kind> <job>: reads on one analyzer object, refused reads store nothing
  | "seqf" :: order :: kind :: rest =>
    match parseJob? rest with
    | some j => " ;; ".intercalate ((Obj.reads ⟨kind, j, []⟩ (order.splitOn ",")).1)
    | none => "bad-args"
  -- firloop <job>: the first refused channel of the FIR loop
  | "firloop" :: rest =>
    match parseJob? rest with
    | some j =>
      "first-refused=" ++
        (match firstRefused (fun ch => firChannel true (nPadOf j) (evOf j ch) (dataOf j ch) j.off.toNat j.L)
                 (List.range (max j.nch 1)) with
         | some k => toString k
         | none => "none")
    | none => "bad-args"
  | ["gramdiag", bits, L, ev] =>
    match bits.toNat?, L.toNat?, parseIntList? ev with
    | some bits, some L, some evl => runGramDiag true bits L evl
    | _, _, _ => "bad-args"
  | "seq" :: order :: kind :: rest =>
    match parseJob? rest with
    | some j => " ;; ".intercalate (readsC (getterValue kind j) [] (order.splitOn ",")).1
    | none => "bad-args"
  | "series" :: rest =>
    match parseJob? rest with
    | some j => if j.what = "fir" then both (hasNeg j) (fun cur => runSeries cur j) else runSeries true j
    | none => "bad-args"
  | "events" :: rest =>
    match parseJob? rest with
    | some j => runEvents j.cb j
    | none => "bad-args"
  | ["design", L, ev] =>
    match L.toNat?, parseIntList? ev with
    | some L, some evl => both (evl.any (· < 0)) (fun cur => runDesign cur L evl)
    | _, _ => "bad-args"
  | ["designsum", L, ev] =>
    match L.toNat?, parseIntList? ev with
    | some L, some evl => both (evl.any (· < 0)) (fun cur => runDesignSum cur L evl)
    | _, _ => "bad-args"
  | ["planted", off, L, ev, codes, resp] =>
    match off.toNat?, L.toNat?, parseIntList? ev, parseIntList? codes, parseFloatList? resp with
    | some off, some L, some evl, some codes, some resp => runPlanted off L evl codes (resp.map F64.ofFloat)
    | _, _, _, _, _ => "bad-args"
  -- etarows <job>: the eta of an event-coded series input, row by row through `etaBlock` with the row's OWN types
  | "etarows" :: rest =>
    match parseJob? rest with
    | some j =>
      if j.off < 0 then "err ValueError" else
      "ok " ++ joinList ((List.range (max j.nch 1)).flatMap fun ch => (etaBlock j (typesOf j ch) ch).map showRatAsFloat)
    | none => "bad-args"
  -- etaint <bits> <cb> <off> <L> <events> <stored integers>: eta of a 1-d recording stored in an integer dtype, from the
  -- exact embedding (bits = 0) or with the baseline subtraction wrapping modulo 2^bits (variant)
  | ["etaint", bits, cb, off, L, ev, d] =>
    match bits.toNat?, off.toNat?, L.toNat?, parseIntList? ev, parseIntList? d with
    | some bits, some off, some L, some evl, some dl =>
      let eva := evl.toArray
      let da := dl.toArray
      let vals := (eventTypes evl).flatMap fun t => (List.range L).map fun jj =>
        if bits = 0 then etaRow (cb = "1") (embedInt (getI da)) (positions eva.size (getI eva) t) off jj
        else etaRowWrap bits (cb = "1") (getI da) (positions eva.size (getI eva) t) off jj
      "ok " ++ joinList (vals.map showRatAsFloat)
    | _, _, _, _, _ => "bad-args"
  | ["types", ev] =>
    match parseIntList? ev with
    | some evl => "ok " ++ showIntList (eventTypes evl)
    | none => "bad-args"
  | ["evindex", t, si] =>
    match t.toInt?, si.toInt? with
    | some t, some si => if si = 0 then "bad-si" else "ok " ++ toString (eventIndex t si)
    | _, _ => "bad-args"
  | _ => "bad-op"

end Nitime.C19
