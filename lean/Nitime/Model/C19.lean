/- C19 — model not written yet (stub so that the driver target exists). -/
namespace Nitime.C19

def handle (_args : List String) : String := "bad-op"

end Nitime.C19
