/- Dispatch table of the driver: property id ↦ that model's `handle`. -/
import Nitime.Model.C01

namespace Nitime

def dispatch (toks : List String) : String :=
  match toks with
  | "C01" :: rest => C01.handle rest
  | _ => "bad-op"

end Nitime
