/-
C04 / C06 (round 4, class L9 "size thresholds") — block-wise processing of an axis (core Lean only).

An estimator may treat the frequency axis in consecutive blocks of `b` bins (work arrays stay small for long FFTs) and
the channel axis in blocks of `rows` rows (`tapered_spectra` transforming `rows` channels at a time).  Today's source does
neither; these definitions say what such a decomposition has to satisfy to be the un-blocked computation, so that the
per-run oracle cases at sizes beyond the block thresholds (2^13 bins, 2^18 complex values) have a stated meaning:

* `blockFoldLo dbl N b lo p k` — the one-sided assembly applied block by block: bin `k` lies in the block starting at
  `f0 = (k / b) * b`, its local index is `l = k - f0`, and the block doubles its local range `lo f0 ≤ l < Fl - f0`
  (`blk[..., lo : Fl - f0] *= 2`).  `loOffset f0 = 1 - f0` shifts the global lower bound `1` by the block start;
  `loUnshifted = 1` forgets to.
* `rowsBlockwise rows nblk f init i` — row `i` of a result allocated with content `init` (`np.empty`) after `nblk`
  blocks of `rows` rows have been filled with `f`; `blocksCeil` / `blocksFloor` are `⌈M / rows⌉` and `M // rows`;
  `rowsPerBlock cap M K NFFT = max 1 (min M (cap // max 1 (K·NFFT)))` is the usual block size under a cap on the number
  of complex values per block.

Driver ops (`Nitime.C04.handle`):  `blockfold <N> <b> <two-sided values>` → the `N/2+1` block-wise folded values (offset
lower bound);  `blockrows <M> <rows>` → the rows filled by `⌈M/rows⌉` blocks.
-/
import Nitime.Model.Num

namespace Nitime.C04
open Nitime.Num

/-- the one-sided assembly (`foldWith`) carried out block by block over blocks of `b` bins; `lo f0` is the LOCAL lower
bound of the doubled range of the block starting at `f0`, the local upper bound is `(N+1)/2 - f0` -/
def blockFoldLo {α : Type} (dbl : α → α) (N b : Nat) (lo : Nat → Nat) (p : Nat → α) (k : Nat) : α :=
  let f0 := (k / b) * b
  let l := k - f0
  if lo f0 ≤ l ∧ l < (N + 1) / 2 - f0 then dbl (p k) else p k

/-- lower bound shifted by the block start: `max(1 - f0, 0)` -/
def loOffset (f0 : Nat) : Nat := 1 - f0

/-- lower bound NOT shifted: `1` in every block -/
def loUnshifted (_ : Nat) : Nat := 1

def blockFoldList {α : Type} (dbl : α → α) (N b : Nat) (lo : Nat → Nat) (p : Nat → α) : List α :=
  (List.range (N / 2 + 1)).map (blockFoldLo dbl N b lo p)

/-- rows transformed in one go under a cap on the number of complex values -/
def rowsPerBlock (cap M K NFFT : Nat) : Nat := max 1 (min M (cap / max 1 (K * NFFT)))

def blocksCeil (M rows : Nat) : Nat := (M + rows - 1) / rows
def blocksFloor (M rows : Nat) : Nat := M / rows

/-- row `i` of a result that was allocated holding `init` and then filled with `f` in `nblk` blocks of `rows` rows
(`t_spectra[blk*rows : (blk+1)*rows] = f(...)`; a slice beyond the end is clipped by numpy) -/
def rowsBlockwise {β : Type} (rows nblk : Nat) (f init : Nat → β) (i : Nat) : β :=
  if i / rows < nblk then f i else init i

/-- the rows `< M` that `nblk` blocks of `rows` rows fill -/
def rowsFilled (M rows nblk : Nat) : List Nat := (List.range M).filter fun i => i / rows < nblk

end Nitime.C04
