/-
C07 — model of the Slepian-taper machinery of `nitime.utils` (core Lean only).

* `tridisolve` (`nitime/_utils.pyx`, pure-Python fallback in `nitime/utils.py`): the four loops of
  the source, statement by statement, over the three work vectors `dw, ew, x` (`Tridi.St`),
  polymorphic in the scalar type (runs at `Float` and `Rat`; the theorems are about the same
  definition at an arbitrary field).  `Generated/Tridi.lean` holds the two programs the
  translator extracts from the current source; `Props/C07.generated_eq_model_*` ties them to
  this definition.
* `dpss_windows` post-processing: `fixSigns` (sign convention), `concentration`
  (autocorrelation·N dotted with r), `interpRescale`, `lowBias` (tapered_spectra).
* certificate evaluators used by the correspondence (`gram`, `sincResidual`, …) — evaluated in
  the `Float` instance on the tapers the real code returned.
-/
import Nitime.Model.TridiBase
import Nitime.Model.Proto
import Nitime.Model.C07Hist

namespace Nitime.C07
open Nitime Nitime.Tridi

variable {K : Type}

section solver
variable [Inhabited K] [Sub K] [Mul K] [Div K]

/-- first loop: LDLᵀ factorisation in place (`ew[k-1]` becomes the multiplier, `dw[k]` the pivot) -/
def elim (N : Nat) (s : St K) : St K :=
  forUp 1 N s fun k s =>
    let t := get s.ew (k - 1)
    let s := { s with ew := set s.ew (k - 1) (t / get s.dw (k - 1)) }
    let s := { s with dw := set s.dw k (get s.dw k - t * get s.ew (k - 1)) }
    s

/-- second loop: forward substitution -/
def fwd (N : Nat) (s : St K) : St K :=
  forUp 1 N s fun k s =>
    let s := { s with x := set s.x k (get s.x k - get s.ew (k - 1) * get s.x (k - 1)) }
    s

/-- `x[N-1] = x[N-1] / dw[N-1]` -/
def lastDiv (N : Nat) (s : St K) : St K :=
  { s with x := set s.x (N - 1) (get s.x (N - 1) / get s.dw (N - 1)) }

/-- third loop: back substitution, `k = N-2, …, 0` -/
def bwd (N : Nat) (s : St K) : St K :=
  forDown (N - 1) s fun k s =>
    let s := { s with x := set s.x k (get s.x k / get s.dw k - get s.ew k * get s.x (k + 1)) }
    s

/-- `tridisolve(d, e, b)`: the solution vector (left in `b` when `overwrite_b`, else returned) -/
def tridisolve (d e b : Array K) : Array K :=
  let N := b.size
  let s : St K := { dw := d, ew := e, x := b }
  let s := elim N s
  let s := fwd N s
  let s := lastDiv N s
  let s := bwd N s
  s.x

/-- the pivots the code divides by (`dw` after the first loop) -/
def pivots (d e b : Array K) : Array K := (elim b.size { dw := d, ew := e, x := b }).dw

end solver

section mul
variable [Inhabited K] [Add K] [Mul K]

/-- row `i` of `A·x` for the symmetric tridiagonal `A` (main diagonal `d`, off-diagonal `e[:-1]`) -/
def mulRow (d e x : Array K) (N i : Nat) : K :=
  if N = 1 then get d 0 * get x 0
  else if i = 0 then get d 0 * get x 0 + get e 0 * get x 1
  else if i + 1 = N then get e (i - 1) * get x (i - 1) + get d i * get x i
  else get e (i - 1) * get x (i - 1) + get d i * get x i + get e i * get x (i + 1)

def tridiagMul (d e x : Array K) : Array K :=
  Array.ofFn (n := x.size) fun i => mulRow d e x x.size i.val

end mul

/-! ### sign convention (`dpss_windows`, Percival & Walden p. 379) -/
section signs
variable [OfNat K 0] [Add K] [Neg K] [LT K] [DecidableLT K]

def absK (x : K) : K := if x < 0 then -x else x

/-- `np.argmax`: index of the FIRST maximum (0 for an empty vector) -/
def argmaxFrom (i bi : Nat) (bv : K) : List K → Nat
  | [] => bi
  | x :: t => if bv < x then argmaxFrom (i + 1) (i + 1) x t else argmaxFrom (i + 1) bi bv t

def argmax : List K → Nat
  | [] => 0
  | a :: t => argmaxFrom 0 0 a t

def negRow (r : List K) : List K := r.map fun x => -x

/-- symmetric tapers (k = 0, 2, …): positive average -/
def fixEven (r : List K) : List K := if sumList r < 0 then negRow r else r

/-- index of the first (largest) extremum within the first half -/
def peak (N : Nat) (r : List K) : Nat := argmax ((r.take (N / 2)).map absK)

/-- antisymmetric tapers (k = 1, 3, …): positive slope up to the first (largest) extremum of the
first half, `np.sum(dpss[k, :pk]) < 0 → flip` -/
def fixOdd (N : Nat) (r : List K) : List K :=
  if sumList (r.take (peak N r)) < 0 then negRow r else r

def fixRow (N i : Nat) (r : List K) : List K := if i % 2 = 0 then fixEven r else fixOdd N r

def fixSigns (N : Nat) (rows : List (List K)) : List (List K) :=
  rows.mapIdx fun i r => fixRow N i r

end signs

/-! ### concentration via the autocorrelation sequence (Percival & Walden p. 390) -/
section conc
variable [OfNat K 0] [Add K] [Mul K]

/-- `autocorr(v)[k] * N = Σ_{n < N-k} v[n+k]·v[n]` -/
def autocorrN (N : Nat) (v : Nat → K) (k : Nat) : K := sumN (N - k) fun n => v (n + k) * v n

/-- `np.dot(dpss_rxx, r)` -/
def quadAutocorr (N : Nat) (v r : Nat → K) : K := sumN N fun k => autocorrN N v k * r k

def dot (N : Nat) (u v : Nat → K) : K := sumN N fun n => u n * v n

def sumSq (l : List K) : K := sumList (l.map fun x => x * x)

/-- `d_temp / s` -/
def rescale [Div K] (s : K) (l : List K) : List K := l.map fun x => x / s

end conc

/-- `tapered_spectra(..., low_bias=True)`: keep the tapers whose concentration exceeds `thr` -/
def lowBias [LT K] [DecidableLT K] (thr : K) (tapers : List (List K)) (eig : List K) :
    List (List K) × List K :=
  let kept := (tapers.zip eig).filter fun p => thr < p.2
  (kept.map (·.1), kept.map (·.2))

/-! ### binary64 instances -/

def pi : Float := 3.141592653589793

/-- `np.sinc` -/
def npSinc (x : Float) : Float := if x == 0 then 1 else Float.sin (pi * x) / (pi * x)

/-- `r = 4·W·sinc(2·W·k)`, `r[0] = 2·W` -/
def rSeq (W : Float) (k : Nat) : Float := if k = 0 then 2 * W else 4 * W * npSinc (2 * W * k.toFloat)

/-- the band-limiting kernel `S[m,n] = sin(2πW(m-n)) / (π(m-n))`, `S[n,n] = 2W`, as a function of |m-n| -/
def sincKernel (W : Float) (k : Nat) : Float :=
  if k = 0 then 2 * W else Float.sin (2 * pi * W * k.toFloat) / (pi * k.toFloat)

/-- an array as a total function (0 outside); callers convert the list ONCE -/
def arrFn (a : Array Float) (i : Nat) : Float := a.getD i 0

/-- `eigvals[k]` of `dpss_windows` for one taper -/
def concentration (N : Nat) (NW : Float) (row : List Float) : Float :=
  let a := row.toArray
  let r := ((List.range N).map (rSeq (NW / N.toFloat))).toArray
  quadAutocorr N (arrFn a) (arrFn r)

/-- `d_temp / np.sqrt(np.sum(d_temp ** 2))` -/
def interpRescale (l : List Float) : List Float := rescale (Float.sqrt (sumSq l)) l

/-- `interp1d(arange(M), src, 'linear')(np.linspace(0, M-1, N, endpoint=False))` -/
def interpLinear (src : List Float) (N : Nat) : List Float :=
  let a := src.toArray
  let M := a.size
  let step := (M - 1).toFloat / N.toFloat
  (List.range N).map fun j =>
    let pos := j.toFloat * step
    let hi0 := (Float.ceil pos).toUInt64.toNat
    let hi := if hi0 < 1 then 1 else if hi0 > M - 1 then M - 1 else hi0
    let lo := hi - 1
    let slope := (a.getD hi 0 - a.getD lo 0) / (hi.toFloat - lo.toFloat)
    slope * (pos - lo.toFloat) + a.getD lo 0

/-- the interpolation branch of `dpss_windows` for `interp_kind='linear'`, from the short tapers -/
def interpBranch (N : Nat) (NW : Float) (short : List (List Float)) : List (List Float) × List Float :=
  let rows := fixSigns N (short.map fun r => interpRescale (interpLinear r N))
  (rows, rows.map (concentration N NW))

/-! ### certificates (evaluated on what the real code returned) -/

def fmax (a b : Float) : Float := if a < b then b else a

/-- max |⟨v_i, v_j⟩ − δ_ij| -/
def gramErr (N : Nat) (rows : List (List Float)) : Float :=
  let fs := rows.map fun r => arrFn r.toArray
  let idx := List.range fs.length
  (idx.zip fs).foldl (fun acc (i, u) =>
    (idx.zip fs).foldl (fun acc (j, v) =>
      fmax acc (Float.abs (dot N u v - (if i = j then 1 else 0)))) acc) 0

/-- max_m |Σ_n S[m,n]·v[n] − λ·v[m]| -/
def sincResidual (N : Nat) (W : Float) (row : List Float) (lam : Float) : Float :=
  let v := arrFn row.toArray
  let ker := ((List.range N).map (sincKernel W)).toArray
  (List.range N).foldl (fun acc m =>
    let sv := sumN N fun n => ker.getD (if m ≤ n then n - m else m - n) 0 * v n
    fmax acc (Float.abs (sv - lam * v m))) 0

def chunk (n : Nat) : Nat → List Float → List (List Float)
  | 0, _ => []
  | k + 1, l => l.take n :: chunk n k (l.drop n)

def b2s (b : Bool) : String := if b then "1" else "0"

-- ------------------------------------------------------------------ driver
open Proto in
def handle (args : List String) : String :=
  match args with
  | "hist" :: rest => (Nitime.C07.Hist.handleHist rest).getD "bad-args"
  | ["tridif", d, e, b] =>
    match parseFloatList? d, parseFloatList? e, parseFloatList? b with
    | some d, some e, some b =>
      if b.length = 0 ∨ d.length < b.length ∨ e.length + 1 < b.length then "err shape" else
      let x := tridisolve d.toArray e.toArray b.toArray
      let p := pivots d.toArray e.toArray b.toArray
      "ok " ++ showFloatList x.toList ++ " " ++ showFloatList p.toList ++ " "
        ++ showFloatList (tridiagMul d.toArray e.toArray x).toList
    | _, _, _ => "bad-args"
  | ["tridiq", d, e, b] =>
    match (splitList d).mapM parseRat?, (splitList e).mapM parseRat?, (splitList b).mapM parseRat? with
    | some d, some e, some b =>
      if b.length = 0 ∨ d.length < b.length ∨ e.length + 1 < b.length then "err shape" else
      let p := pivots d.toArray e.toArray b.toArray
      if (p.toList.take b.length).any (· == 0) then "err zero-pivot" else
      let x := tridisolve d.toArray e.toArray b.toArray
      "ok " ++ joinList (x.toList.map showRat) ++ " " ++ joinList (p.toList.map showRat) ++ " "
        ++ joinList ((tridiagMul d.toArray e.toArray x).toList.map showRat)
    | _, _, _ => "bad-args"
  | ["fixsigns", n, k, flat] =>
    match n.toNat?, k.toNat?, parseFloatList? flat with
    | some n, some k, some flat =>
      "ok " ++ showFloatList (fixSigns n (chunk n k flat)).flatten
    | _, _, _ => "bad-args"
  | ["conc", n, nw, row] =>
    match n.toNat?, parseFloat? nw, parseFloatList? row with
    | some n, some nw, some row => "ok " ++ showFloat (concentration n nw row)
    | _, _, _ => "bad-args"
  | ["interp", m, n, k, nw, flat] =>
    match m.toNat?, n.toNat?, k.toNat?, parseFloat? nw, parseFloatList? flat with
    | some m, some n, some k, some nw, some flat =>
      let (rows, eig) := interpBranch n nw (chunk m k flat)
      "ok " ++ showFloatList rows.flatten ++ " " ++ showFloatList eig
    | _, _, _, _, _ => "bad-args"
  | ["lowbias", eig] =>
    match parseFloatList? eig with
    | some eig =>
      let (ts, es) := lowBias (0.9 : Float) (eig.map fun x => [x]) eig
      "ok " ++ showFloatList ts.flatten ++ " " ++ showFloatList es
    | _ => "bad-args"
  | ["cert", n, nw, k, flat, eig] =>
    match n.toNat?, parseFloat? nw, k.toNat?, parseFloatList? flat, parseFloatList? eig with
    | some n, some nw, some k, some flat, some eig =>
      let rows := chunk n k flat
      let w := nw / n.toFloat
      let res := (rows.zip eig).foldl (fun acc (r, l) => fmax acc (sincResidual n w r l)) (0 : Float)
      let conc := (rows.zip eig).foldl (fun acc (r, l) => fmax acc (Float.abs (concentration n nw r - l))) (0 : Float)
      let ordered := (eig.zip (eig.drop 1)).all fun (a, b) => b ≤ a + 1e-9
      let inRange := eig.all fun l => 0 < l ∧ l < 1 + 1e-9
      let signs := fixSigns n rows == rows
      "ok " ++ showFloat (gramErr n rows) ++ " " ++ showFloat res ++ " " ++ showFloat conc ++ " "
        ++ b2s ordered ++ " " ++ b2s inRange ++ " " ++ b2s signs
    | _, _, _, _, _ => "bad-args"
  | _ => "bad-op"

end Nitime.C07
