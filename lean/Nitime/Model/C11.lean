/-
C11 — executable model of the multichannel (Levinson–Wiggins–Robinson) estimator
(`nitime/algorithms/autoregressive.py`: lwr_recursion, MAR_est_LWR; `nitime/utils.py`:
crosscov_vector / autocov_vector, generate_mar, bayesian / akaike information criterion;
`nitime/analysis/granger.py`: fit_model).  Core Lean only.

`lwr` is written once over `MatOps M` (the operations `lwr_recursion` uses on square matrices:
`+ - · neg`, conjugate transpose, `linalg.inv`, identity); the driver runs `M = GSq CF n`
(`Model/SqMatK.lean`: lists of rows over any `Scalar K`, here complex binary64, Gauss–Jordan inverse),
`Props/C11.lean` instantiates the same definition at any star ring (in particular complex matrices),
ties it to `Lemmas/BlockLevinson`, and shows (`lwr_solves_concrete`) that the list-of-rows text at
`K = ℂ` is the matrix recursion.

`MAR_est_LWR(x, order)` requests `nlags = order + 1` lags (the off-by-one `nlags = order` found by
this check was repaired in /repo; finding `mar/order-off-by-one`, now status fixed).

Session 3: the lag counts of `MAR_est_LWR` and of `fit_model`'s fixed-order branch come from
`Generated/FitModel.lean` (translated from the source by `harness/translate_c11.py`); `fitPlan` is the
whole `order` / `max_order` / criterion semantics of `fit_model` (`fitPair` runs it); integer-typed
recordings are modelled by the exact embedding `ofIntK` (`crosscovEntryInt`, driver op `ccovi`);
`aicc` = the AIC with `corrected=True`.

Wave 6 (structured inputs): the order loop's control flow is GENERATED (`Generated/LwrFlow.lean`; `loopRunsEveryPass`):
`lwr` performs every pass `p = 0..P-1`, also when the reflection numerator `lwrDelta` vanishes; `lwrBreak` is the
counter-model of an early exit on a vanishing numerator (seed C11-12); op `lwrq` runs `lwr` in EXACT rational arithmetic
(`GSq CQ n`) on the binary64 lags and reports the exact truth of the Yule–Walker equations, of the covariance identity, of
"every inverse existed", and whether the early-exit discipline would have returned the same.
-/
import Nitime.Model.ARBase
import Nitime.Model.SqMatK
import Nitime.Model.GrangerObj
import Nitime.Generated.FitModel
import Nitime.Generated.LwrFlow
import Nitime.Model.C10

namespace Nitime.C11
open Nitime.AR Nitime.Proto

section lwr
variable {M : Type} [MatOps M]
open MatOps

/-- loop state of `lwr_recursion` after `p` iterations: `a[0..p-1]`, `b[0..p-1]`, `sigf`, `sigb` -/
structure LWRSt (M : Type) where
  a : List M
  b : List M
  sigf : M
  sigb : M

/-- `Σ` started from `x0`, in loop order (`delta[:] = r[p+1]; delta += …`) -/
def foldAdd (x0 : M) (n : Nat) (f : Nat → M) : M :=
  (List.range n).foldl (fun acc i => acc +: f i) x0

/-- one pass of `for p in range(P)` -/
def lwrStep (r : Nat → M) (p : Nat) (s : LWRSt M) : LWRSt M :=
  -- delta = r[p+1] + Σ_{i=1..p} a[i-1]·r[p+1-i]
  let delta := foldAdd (r (p + 1)) p fun i => s.a.getD i zero *: r (p - i)
  -- ka = delta·inv(sigb);  kb = delta^H·inv(sigf)
  let ka := delta *: inv s.sigb
  let kb := star delta *: inv s.sigf
  -- a[i-1] -= ka·b[p-i], b[i-1] -= kb·ao[p-i]  (i = 1..p);  a[p] = -ka;  b[p] = -kb
  let a' := (List.range p).map (fun i => s.a.getD i zero -: ka *: s.b.getD (p - 1 - i) zero) ++ [neg ka]
  let b' := (List.range p).map (fun i => s.b.getD i zero -: kb *: s.a.getD (p - 1 - i) zero) ++ [neg kb]
  -- sigf = (I - ka·kb)·sigf;  sigb = (I - kb·ka)·sigb
  ⟨a', b', (one -: ka *: kb) *: s.sigf, (one -: kb *: ka) *: s.sigb⟩

def lwrLoop (r : Nat → M) : Nat → LWRSt M
  | 0 => ⟨[], [], r 0, r 0⟩
  | p + 1 => lwrStep r p (lwrLoop r p)

/-- `lwr_recursion(r)` for `r` of shape `(P+1, nc, nc)`: `(a, sigf)` -/
def lwr (r : Nat → M) (P : Nat) : List M × M := ((lwrLoop r P).a, (lwrLoop r P).sigf)

/-! ### control flow of the order loop (wave 6)

`for p in range(P)` contains no `break` / `continue` / `return` / `raise` and no conditional: every pass is performed,
whatever the value of the reflection numerator.  The facts are GENERATED from the source (`harness/translate_c11.py:
gen_lwr_flow`); `Props/C11Sparse.lean: lwr_source_runs_every_pass` is `decide` over them. -/

/-- the source's order loop has the shape `lwrLoop` models: `range(P)`, no early exit, no guarded update, `return a, sigf`
directly after it -/
def loopRunsEveryPass : Bool :=
  Nitime.Generated.LwrFlow.orderLoopExits.isEmpty && Nitime.Generated.LwrFlow.orderLoopGuards.isEmpty &&
  Nitime.Generated.LwrFlow.orderLoopOverRangeP && Nitime.Generated.LwrFlow.returnsAfterLoop &&
  Nitime.Generated.LwrFlow.whileLoops == 0

/-- the reflection numerator `delta_{p+1} = r(p+1) + Σ_{i=1..p} a(i)·r(p+1-i)` of pass `p` (the first `let` of `lwrStep`) -/
def lwrDelta (r : Nat → M) (p : Nat) (s : LWRSt M) : M :=
  foldAdd (r (p + 1)) p fun i => s.a.getD i zero *: r (p - i)

/-- COUNTER-MODEL (seed C11-12): the loop with `if <delta vanishes>: break` before the updates -/
def lwrBreakFrom (isZero : M → Bool) (r : Nat → M) : Nat → Nat → LWRSt M → LWRSt M
  | 0, _, s => s
  | fuel + 1, p, s => if isZero (lwrDelta r p s) then s else lwrBreakFrom isZero r fuel (p + 1) (lwrStep r p s)

/-- what that variant returns: the coefficient array keeps its initial zeros beyond the pass at which the loop was left -/
def lwrBreak (isZero : M → Bool) (r : Nat → M) (P : Nat) : List M × M :=
  let s := lwrBreakFrom isZero r P 0 ⟨[], [], r 0, r 0⟩
  (s.a ++ List.replicate (P - s.a.length) zero, s.sigf)

/-! ### the covariance stack as an OBJECT with other consumers (round 2, L8)

`R = autocov_vector(x, nlags)` is one array.  Its diagonal sequences `R[c, c, :p+1]` are VIEWS; they are what the scalar
estimators (`AR_est_LD(None, p, rxx=R[c, c])`, `AR_est_YW`, C10) and the one-channel recursion are handed when per-channel
and multichannel models are fitted from one covariance estimate.  `post` = what a consumer leaves in the slice it was
handed (today: what it found — the consumers only read); `runSliceCalls` threads the stack through a program of such
calls; `lwrAfterCalls` is the block recursion on the stack afterwards. -/

/-- a consumer call on the diagonal sequence of channel `c`, lags `0..p` -/
structure SliceCall where
  c : Nat
  p : Nat

section stack
variable {K : Type}

/-- the view `R[c, c, :p+1]` -/
def sliceOf (diag : Nat → M → K) (r : Nat → M) (s : SliceCall) : List K :=
  (List.range (s.p + 1)).map fun k => diag s.c (r k)

/-- a view: what the consumer leaves in the slice IS what the stack holds -/
def writeBack (setDiag : Nat → M → K → M) (dflt : K) (r : Nat → M) (s : SliceCall) (l : List K) : Nat → M :=
  fun k => if k < s.p + 1 then setDiag s.c (r k) (l.getD k dflt) else r k

def runSliceCalls (diag : Nat → M → K) (setDiag : Nat → M → K → M) (dflt : K) (post : List K → List K) :
    List SliceCall → (Nat → M) → (Nat → M)
  | [], r => r
  | s :: ss, r => runSliceCalls diag setDiag dflt post ss (writeBack setDiag dflt r s (post (sliceOf diag r s)))

/-- `lwr_recursion(R)` after the other consumers of `R` have run -/
def lwrAfterCalls (diag : Nat → M → K) (setDiag : Nat → M → K → M) (dflt : K) (post : List K → List K)
    (calls : List SliceCall) (r : Nat → M) (P : Nat) : List M × M :=
  lwr (runSliceCalls diag setDiag dflt post calls r) P

end stack

/-- number of lags `MAR_est_LWR(x, order)` requests from `autocov_vector` — GENERATED from the source
(`harness/translate_c11.py`; today `nlags=order + 1`) -/
def marLags (order : Nat) : Nat := Nitime.Generated.FitModel.marNlags order

/-- `MAR_est_LWR(x, order)` given the lagged covariances `R` of `x`
(`lwr_recursion` on `marLags order` lags, i.e. `P = nlags − 1`) -/
def marEstLWR (R : Nat → M) (order : Nat) : List M × M :=
  lwr R (marLags order - 1)

end lwr

/-! ### covariance helper -/

section cov
variable {K : Type} [Scalar K]
open Scalar

/-- `crosscov_vector(x, y, nlags)[i, j, k]`: `mean_t x_i[t+k]·conj y_j[t]` over `t < N−k` -/
def crosscovEntry (x y : Nat → Nat → K) (N i j k : Nat) : K :=
  sumRange (N - k) (fun t => x i (t + k) *. conj (y j t)) /. ofNat (N - k)

/-- exact embedding of an integer sample (int16 / int32 / int64 / uint8 recordings) into the scalar
type: numpy converts the integer products to float64 before `mean`, and the output array of
`crosscov_vector` is float64 (`np.empty((nc, nc, nlags))`), so nothing is truncated -/
def ofIntK (z : Int) : K := if 0 ≤ z then ofNat z.toNat else neg (ofNat (-z).toNat)

/-- `crosscov_vector(x, y, nlags)[i, j, k]` on integer-typed recordings: the lagged average of the
EMBEDDED samples (same `crosscovEntry`) -/
def crosscovEntryInt (xi yi : Nat → Nat → Int) (N i j k : Nat) : K :=
  crosscovEntry (fun c t => ofIntK (xi c t)) (fun c t => ofIntK (yi c t)) N i j k

end cov

/-! ### model-order selection (`fit_model`) -/

/-- outcome of the `for lag in range(1, max_order)` loop: the accepted lag so far, the criterion
value it had, and whether the loop has hit `break` -/
structure FitSt (α : Type) where
  cOld : Option α          -- `none` = `np.inf`
  lag : Option Nat         -- lag of the values kept so far
  broke : Bool

/-- one pass: `c_new > c_old` ⇒ break, else keep the new values -/
def fitPass {α : Type} (gt : α → α → Bool) (c : Nat → α) (s : FitSt α) (lag : Nat) : FitSt α :=
  if s.broke then s else
  match s.cOld with
  | some co => if gt (c lag) co then { s with broke := true } else ⟨some (c lag), some lag, false⟩
  | none => ⟨some (c lag), some lag, false⟩      -- nothing exceeds +inf

/-- `fit_model(..., order=None, max_order)`: the lag whose values are returned
(`order = lag − 1` coefficient matrices), or `none` = `ValueError` (loop ran out without `break`) -/
def fitSelect {α : Type} (gt : α → α → Bool) (c : Nat → α) (maxOrder : Nat) : Option Nat :=
  let s := (List.range' 1 (maxOrder - 1)).foldl (fitPass gt c) ⟨none, none, false⟩
  if s.broke then s.lag else none

/-- `fit_model(x1, x2, order, max_order, criterion)`: the order it REPORTS and the number of lags of
`autocov_vector` it hands to `lwr_recursion`.
* `order = some p` (`if order is not None`): `lag` = the GENERATED `FitModel.fixedLags p` (today
  `order + 1`, requested from `autocov_vector` for this call and handed whole to `lwr_recursion`);
  `max_order` is not looked at (smaller than, equal to, larger than `order`, or `None`).
* `order = none`: the criterion loop over `range(1, max_order)`; the reported order is
  `coef_new.shape[0]` of the accepted lag, i.e. `lag − 1`; `none` = `ValueError`.
* `order = none, max_order = none`: `range(1, None)` is a `TypeError` (no result either). -/
def fitPlan {α : Type} (gt : α → α → Bool) (c : Nat → α) (order maxOrder : Option Nat) : Option (Nat × Nat) :=
  match order, maxOrder with
  | some p, _ => some (p, Nitime.Generated.FitModel.fixedLags p)
  | none, some mo => (fitSelect gt c mo).map fun lag => (lag - 1, lag)
  | none, none => none

/-! ### simulator -/

/-- `u` built sample by sample, each new sample computed from the samples so far -/
def recur {α β : Type} (step : List α → β → α) (xs : List β) : List α :=
  xs.foldl (fun u x => u ++ [step u x]) []

/-- `generate_mar`: `mar[i] = nz[i] − Σ_{j<min(i,P)} a[j]·mar[i−j−1]` -/
def generateMar {V C : Type} (sub : V → V → V) (act : C → V → V) (dflt : V) (cdflt : C)
    (a : List C) (nz : List V) : List V :=
  recur (fun mar e =>
    (List.range (min mar.length a.length)).foldl
      (fun acc j => sub acc (act (a.getD j cdflt) (mar.getD (mar.length - j - 1) dflt))) e) nz

/-! ### line protocol (complex binary64 matrices) -/

def matsOf (n cnt : Nat) (zs : List CF) : Option (List Mat) :=
  if zs.length = cnt * n * n then
    some ((List.range cnt).map fun t => Mat.ofFn n n fun i j => zs.getD (t * n * n + i * n + j) ⟨0.0, 0.0⟩)
  else none

def showMats (ms : List Mat) : String := showCList (ms.foldr (fun m acc => flattenMat m ++ acc) [])

def lwrCF (n : Nat) (rs : List Mat) : List Mat × Mat :=
  lwr (M := GSq CF n) (fun k => rs.getD k (GMat.zeros n)) (rs.length - 1)

/-- channel-major data `nc × N` -/
def chanOf (nc N : Nat) (a : Array CF) : Nat → Nat → CF :=
  fun i t => if i < nc ∧ t < N then a.getD (i * N + t) ⟨0.0, 0.0⟩ else ⟨0.0, 0.0⟩

/-- `autocov_vector(x, nlags)` as the list of lag matrices `R(0..nlags-1)` -/
def autocovMats (nc N nlags : Nat) (zs : List CF) : List Mat :=
  let arr := zs.toArray                   -- O(1) indexing
  let x := chanOf nc N arr
  (List.range nlags).map fun k => Mat.ofFn nc nc fun i j => crosscovEntry x x N i j k

/-- determinant by elimination (for the information criteria) -/
def det2or (n : Nat) (m : Mat) : Float :=
  -- Gaussian elimination without pivoting on a symmetric positive-definite matrix
  let res := (List.range n).foldl (fun (st : Mat × Float) c =>
    let rows := st.1
    let piv := (Mat.entry rows c c).re
    let rows' := (List.range n).map fun i =>
      if i ≤ c then rows.getD i [] else
        let f := (Mat.entry rows i c).re / piv
        (List.range n).map fun j => CF.ofFloat ((Mat.entry rows i j).re - f * (Mat.entry rows c j).re)
    (rows', st.2 * piv)) (m, 1.0)
  res.2

/-- `bayesian_information_criterion(ecov, p, m, Ntotal)` -/
def bic (n : Nat) (ecov : Mat) (p m ntotal : Nat) : Float :=
  2.0 * Float.log (det2or n ecov) + (2.0 * (p * p).toFloat * m.toFloat * Float.log ntotal.toFloat) / ntotal.toFloat

/-- `akaike_information_criterion(ecov, p, m, Ntotal)` -/
def aic (n : Nat) (ecov : Mat) (p m ntotal : Nat) : Float :=
  2.0 * Float.log (det2or n ecov) + (2.0 * (p * p).toFloat * m.toFloat) / ntotal.toFloat

/-- `akaike_information_criterion(ecov, p, m, Ntotal, corrected=True)`:
`AIC + (2·m·(m+1)) / (Ntotal − m − 1)` -/
def aicc (n : Nat) (ecov : Mat) (p m ntotal : Nat) : Float :=
  aic n ecov p m ntotal + (2 * m * (m + 1)).toFloat / (Float.ofInt ((ntotal : Int) - m - 1))

/-- the criterion callables the correspondence passes (`bic` is the default of `fit_model`) -/
def critVal (crit : String) (ecov : Mat) (m ntotal : Nat) : Float :=
  if crit = "aic" then aic 2 ecov 2 m ntotal
  else if crit = "aicc" then aicc 2 ecov 2 m ntotal
  else bic 2 ecov 2 m ntotal

def vsub (a b : List CF) : List CF := List.zipWith CF.sub a b
def mact (n : Nat) (m : Mat) (v : List CF) : List CF :=
  (List.range n).map fun i => (List.range n).foldl (fun acc k => CF.add acc (CF.mul (Mat.entry m i k) (v.getD k ⟨0.0, 0.0⟩))) ⟨0.0, 0.0⟩

def chunk (n : Nat) (zs : List CF) : List (List CF) :=
  (List.range (zs.length / n)).map fun t => (List.range n).map fun i => zs.getD (t * n + i) ⟨0.0, 0.0⟩

/-! ### sampled entries of the covariance helper (long records) -/

/-- real-valued data `nc × N`, channel major -/
def chanOfReal (nc N : Nat) (a : Array Float) : Nat → Nat → CF :=
  fun i t => if i < nc ∧ t < N then CF.ofFloat (a.getD (i * N + t) 0.0) else ⟨0.0, 0.0⟩

def pairsOf : List Nat → List (Nat × Nat)
  | i :: j :: rest => (i, j) :: pairsOf rest
  | _ => []

/-- `crosscov_vector(x, y, nlags)[i, j, :]` for the listed channel pairs: the SAME `crosscovEntry`
(mean over `N − k` products), whatever the record length -/
def crosscovSample (x y : Nat → Nat → CF) (N nlags : Nat) (pairs : List (Nat × Nat)) : List CF :=
  pairs.flatMap fun q => (List.range nlags).map fun k => crosscovEntry x y N q.1 q.2 k

/-! ### `fit_model` on one pair, and `GrangerAnalyzer` re-targeted with `set_input` -/

/-- `(order, Rxx, coef, ecov)` as returned by `fit_model` (`order` = what it REPORTS) -/
abbrev Fit := Nat × List Mat × List Mat × Mat

/-- a python `int or None` argument on the protocol line: negative = `None` -/
def optNat (z : Int) : Option Nat := if z ≥ 0 then some z.toNat else none

/-- `fit_model(x1, x2, order, max_order, criterion)` on the two rows `zs` (`2 × N`): the plan
(`fitPlan`: reported order, number of lags), then `autocov_vector(vstack, nlags)` and `lwr_recursion`
on exactly those lags; `none` = `ValueError` -/
def fitPair (crit : String) (order maxo : Option Nat) (N : Nat) (zs : List CF) : Option Fit :=
  let fitLag (lag : Nat) := lwrCF 2 (autocovMats 2 N lag zs)
  let c (lag : Nat) : Float := critVal crit (fitLag lag).2 (lag - 1) (2 * N)
  (fitPlan (fun a b => decide (a > b)) c order maxo).map fun pl =>
    let r := fitLag pl.2
    (pl.1, autocovMats 2 N pl.2 zs, r.1, r.2)

def showFit (f : Fit) : String :=
  s!"{f.1} " ++ showMats f.2.1 ++ " " ++ showMats f.2.2.1 ++ " " ++ showMats [f.2.2.2]

/-- integer-typed recordings `nc × N`, channel major -/
def chanOfInt (nc N : Nat) (a : Array Int) : Nat → Nat → Int :=
  fun i t => if i < nc ∧ t < N then a.getD (i * N + t) 0 else 0

/-- `crosscov_vector(x, y, nlags)` on integer-typed recordings, as the list of lag matrices -/
def crosscovMatsInt (nc N nlags : Nat) (xs ys : List Int) : List Mat :=
  let x := chanOfInt nc N xs.toArray
  let y := chanOfInt nc N ys.toArray
  (List.range nlags).map fun k => Mat.ofFn nc nc fun i j => crosscovEntryInt x y N i j k

/-- what a `GrangerAnalyzer` points at: the data of its input and the pair list -/
structure GIn where
  nproc : Nat
  ij : List (Nat × Nat)
  data : Array Float

def GIn.row (d : GIn) (i : Nat) : List CF :=
  let N := d.data.size / d.nproc
  (List.range N).map fun t => CF.ofFloat (d.data.getD (i * N + t) 0.0)

/-- `GrangerAnalyzer._model`: `fit_model(self.data[i], self.data[j], …)` for every pair of `ij`
(the first `ValueError` propagates) -/
def gFit (crit : String) (order maxo : Option Nat) (d : GIn) : Option (List Fit) :=
  d.ij.mapM fun q => fitPair crit order maxo (d.data.size / d.nproc) (d.row q.1 ++ d.row q.2)

/-- `S:<nproc>:<i0,j0,i1,j1,…>:<data>` = `GrangerAnalyzer(input)` / `set_input(input)`; `R` = read the model -/
def parseGOp? (s : String) : Option (GrangerObj.Op GIn) :=
  if s = "R" then some .readModel else
  match s.splitOn ":" with
  | ["S", np, ij, xs] => do
    let np ← np.toNat?
    let ij ← parseNatList? ij
    let xs ← parseFloatList? xs
    if np = 0 then none else pure (.setInput ⟨np, pairsOf ij, xs.toArray⟩)
  | _ => none

def showGOut : GrangerObj.Out (List Fit) Unit Unit → List String
  | .model (some fs) => fs.map fun f => "o" ++ showFit f
  | .model none => ["E"]
  | _ => []

/-- entry `[c, c]` of a lag matrix, and the matrix with that entry replaced (lists of rows) -/
def diagL {K : Type} [Scalar K] (c : Nat) (m : List (List K)) : K := GMat.entry m c c
def setDiagL {K : Type} (c : Nat) (m : List (List K)) (v : K) : List (List K) := m.set c ((m.getD c []).set c v)

/-- `c:p,c:p,…` -/
def parseSliceCalls? (s : String) : Option (List SliceCall) :=
  if s = "-" then some [] else
  (s.splitOn ",").mapM fun t => match t.splitOn ":" with
    | [c, p] => do let c ← c.toNat?; let p ← p.toNat?; pure ⟨c, p⟩
    | _ => none

/-- one pair of `_model`'s loop -/
def gFit1 (crit : String) (order maxo : Option Nat) (d : GIn) (q : Nat × Nat) : Option Fit :=
  fitPair crit order maxo (d.data.size / d.nproc) (d.row q.1 ++ d.row q.2)

def showGOutK : GrangerObj.OutK (Nat × Nat) Fit → List String
  | .model (some fs) => fs.map fun f => "o" ++ showFit f.2
  | .model none => ["E"]
  | .done => []

/-! ### exact rational runs of the block recursion (wave 6) -/

section exact
open Nitime.C10
variable {K : Type} [Scalar K]

/-- entrywise equality of two `n × n` lists of rows -/
def meqK (n : Nat) (a b : GSq K n) : Bool :=
  (List.range n).all fun i => (List.range n).all fun j => Scalar.beq (GMat.entry a i j) (GMat.entry b i j)

/-- `R(k - i)` with `R(-m) = R(m)ᴴ` -/
def lagK (n : Nat) (r : Nat → GSq K n) (k i : Nat) : GSq K n :=
  if i ≤ k then r (k - i) else MatOps.star (r (i - k))

/-- `A(0) = I`, `A(i) = a[i-1]` -/
def coefK (n : Nat) (a : List (GSq K n)) (i : Nat) : GSq K n :=
  if i = 0 then MatOps.one else a.getD (i - 1) MatOps.zero

/-- `lwr_recursion` on the lags `rs` over `K`, followed by the truth values (decided by `Scalar.beq`: exact at `K = CQ`) of:
the block Yule–Walker equations `Σ_{i=0..P} A(i)·R(k-i) = 0`, `k = 1..P` (`lwr_solves`); `Σ = Σ_i A(i)·R(-i)`; every inverse
the loop takes exists (`InvOK`); the early-exit variant `lwrBreak` returns the same coefficients -/
def lwrExact (n : Nat) (rs : List (List (List K))) : (List (GSq K n) × GSq K n) × List Bool :=
  let P := rs.length - 1
  let r : Nat → GSq K n := fun k => rs.getD k (GMat.zeros n)
  let res := lwr r P
  let ywOK := (List.range P).all fun k =>
    meqK n (msumRange (P + 1) fun i => coefK n res.1 i *: lagK n r (k + 1) i) (MatOps.zero)
  let sigOK := meqK n res.2 (msumRange (P + 1) fun i => coefK n res.1 i *: lagK n r 0 i)
  let invOK := (List.range P).all fun j =>
    (GMat.inv? n (lwrLoop r j).sigf).isSome && (GMat.inv? n (lwrLoop r j).sigb).isSome
  let brk := lwrBreak (fun d => meqK n d MatOps.zero) r P
  let brkSame := brk.1.length == res.1.length && (List.range P).all fun i =>
    meqK n (brk.1.getD i MatOps.zero) (res.1.getD i MatOps.zero)
  (res, [ywOK, sigOK, invOK, brkSame])

def matsOfQ (n cnt : Nat) (zs : List CQ) : List (List (List CQ)) :=
  (List.range cnt).map fun t => GMat.ofFn n n fun i j => zs.getD (t * n * n + i * n + j) ⟨0, 0⟩

def showMatsQ (ms : List (List (List CQ))) : String :=
  showCQList (ms.foldr (fun m acc => m.foldr (fun row a2 => row ++ a2) acc) [])

end exact

def handle (args : List String) : String :=
  match args with
  | ["lwrq", n, den, rs] => match n.toNat?, den.toNat?, parseIntList? rs with
    | some n, some den, some zi =>
      -- the lags as exact rationals `int / den` (binary64 values are dyadic rationals): `lwr` at `K = CQ`
      if n = 0 ∨ den = 0 ∨ zi.length % (n * n) ≠ 0 ∨ zi.length = 0 then "bad-op" else
      let zs : List Nitime.C10.CQ := zi.map fun (z : Int) => ⟨(z : Rat) / (den : Rat), 0⟩
      let out := lwrExact (K := Nitime.C10.CQ) n (matsOfQ n (zi.length / (n * n)) zs)
      "ok " ++ showMatsQ out.1.1 ++ " " ++ showMatsQ [out.1.2] ++ " " ++ showBoolList out.2
    | _, _, _ => "bad-op"
  | ["lwr", n, rs] => match n.toNat?, parseCList? rs with
    | some n, some zs =>
      if n = 0 ∨ zs.length % (n * n) ≠ 0 ∨ zs.length = 0 then "bad-op" else
      match matsOf n (zs.length / (n * n)) zs with
      | some ms => let r := lwrCF n ms; "ok " ++ showMats r.1 ++ " " ++ showMats [r.2]
      | none => "bad-op"
    | _, _ => "bad-op"
  | ["acov", nc, nl, xs] => match nc.toNat?, nl.toNat?, parseCList? xs with
    | some nc, some nl, some zs =>
      if nc = 0 then "bad-op" else "ok " ++ showMats (autocovMats nc (zs.length / nc) nl zs)
    | _, _, _ => "bad-op"
  | ["mar", nc, order, xs] => match nc.toNat?, order.toNat?, parseCList? xs with
    | some nc, some order, some zs =>
      if nc = 0 then "bad-op" else
      let rs := autocovMats nc (zs.length / nc) (marLags order) zs
      let r := marEstLWR (M := GSq CF nc) (fun k => rs.getD k (GMat.zeros nc)) order
      "ok " ++ showMats r.1 ++ " " ++ showMats [r.2]
    | _, _, _ => "bad-op"
  | ["marp", nc, order, prog, xs] => match nc.toNat?, order.toNat?, parseSliceCalls? prog, parseCList? xs with
    | some nc, some order, some calls, some zs =>
      -- `MAR_est_LWR` with other consumers (scalar estimators on `R[c, c, :p+1]`) of the same stack in between
      if nc = 0 then "bad-op" else
      let rs := autocovMats nc (zs.length / nc) (marLags order) zs
      let r := lwrAfterCalls (M := GSq CF nc) (K := CF) diagL setDiagL ⟨0.0, 0.0⟩ id calls
        (fun k => rs.getD k (GMat.zeros nc)) (marLags order - 1)
      "ok " ++ showMats r.1 ++ " " ++ showMats [r.2]
    | _, _, _, _ => "bad-op"
  | ["fit", crit, order, maxo, xs] => match order.toInt?, maxo.toInt?, parseCList? xs with
    | some order, some maxo, some zs =>
      match fitPair crit (optNat order) (optNat maxo) (zs.length / 2) zs with
      | some f => "ok " ++ showFit f
      | none => "err ValueError"
    | _, _, _ => "bad-op"
  | ["fitc", tbl, maxo, xs] => match parseFloatList? tbl, maxo.toNat?, parseCList? xs with
    | some tbl, some maxo, some zs =>
      -- a caller-supplied criterion that only looks at the order: c(lag) = tbl[lag - 1]
      let N := zs.length / 2
      match fitPlan (fun a b => decide (a > b)) (fun lag => tbl.getD (lag - 1) 0.0) none (some maxo) with
      | some pl =>
        let r := lwrCF 2 (autocovMats 2 N pl.2 zs)
        s!"ok {pl.1} " ++ showMats (autocovMats 2 N pl.2 zs) ++ " " ++ showMats r.1 ++ " " ++ showMats [r.2]
      | none => "err ValueError"
    | _, _, _ => "bad-op"
  | ["ccovi", nc, nl, xs, ys] => match nc.toNat?, nl.toNat?, parseIntList? xs, parseIntList? ys with
    | some nc, some nl, some xs, some ys =>
      if nc = 0 then "bad-op" else "ok " ++ showMats (crosscovMatsInt nc (xs.length / nc) nl xs ys)
    | _, _, _, _ => "bad-op"
  | ["gmar", nc, as, nz] => match nc.toNat?, parseCList? as, parseCList? nz with
    | some nc, some azs, some nzs =>
      if nc = 0 then "bad-op" else
      match matsOf nc (azs.length / (nc * nc)) azs with
      | some a =>
        let out := generateMar vsub (mact nc) [] (Mat.zeros nc) a (chunk nc nzs)
        "ok " ++ showCList (out.foldr (fun v acc => v ++ acc) [])
      | none => "bad-op"
    | _, _, _ => "bad-op"
  | ["acovs", nc, nl, prs, xs] => match nc.toNat?, nl.toNat?, parseNatList? prs, parseFloatList? xs with
    | some nc, some nl, some prs, some xs =>
      if nc = 0 then "bad-op" else
      let N := xs.length / nc
      let x := chanOfReal nc N xs.toArray
      "ok " ++ showCList (crosscovSample x x N nl (pairsOf prs))
    | _, _, _, _ => "bad-op"
  | ["ccovs", nc, nl, prs, xs, ys] =>
    match nc.toNat?, nl.toNat?, parseNatList? prs, parseFloatList? xs, parseFloatList? ys with
    | some nc, some nl, some prs, some xs, some ys =>
      if nc = 0 then "bad-op" else
      let N := xs.length / nc
      "ok " ++ showCList (crosscovSample (chanOfReal nc N xs.toArray) (chanOfReal nc N ys.toArray) N nl (pairsOf prs))
    | _, _, _, _, _ => "bad-op"
  | "gseq" :: crit :: order :: maxo :: toks => match order.toInt?, maxo.toInt?, toks.mapM parseGOp? with
    | some order, some maxo, some (.setInput d :: ops) =>
      let outs := GrangerObj.run (gFit crit (optNat order) (optNat maxo)) (fun _ _ => ()) (fun _ => ()) ops
        (GrangerObj.construct d : GrangerObj.Obj GIn (List Fit) Unit Unit)
      "ok " ++ " ".intercalate (outs.flatMap showGOut)
    | _, _, _ => "bad-op"
  | "gseqf" :: crit :: order :: maxo :: toks => match order.toInt?, maxo.toInt?, toks.mapM parseGOp? with
    | some order, some maxo, some (.setInput d :: ops) =>
      -- failure histories: `_model` as the per-pair loop (`GrangerObj.runK`, discipline generated from the source)
      let opsK : List (GrangerObj.OpK GIn) := ops.map fun o => match o with
        | .setInput d => .setInput d
        | _ => .readModel
      let outs := GrangerObj.runK (fun d : GIn => d.ij) (gFit1 crit (optNat order) (optNat maxo)) GrangerObj.keepPartial opsK
        (GrangerObj.constructK d)
      "ok " ++ " ".intercalate (outs.flatMap showGOutK)
    | _, _, _ => "bad-op"
  | _ => "bad-op"

end Nitime.C11
