/- C11 — model not written yet (stub so that the driver target exists). -/
namespace Nitime.C11

def handle (_args : List String) : String := "bad-op"

end Nitime.C11
