/-
Shared base of the coherence models (C08, C09).  Core Lean only.

One text, two readings: every numerical definition below is written once over the small
operations class `CScalar K` ("a complex scalar as numpy sees it").  The executable reading is
`K = Cx` (pairs of binary64, instance in this file; this is what the correspondence runs against
nitime).  The mathematical reading is `K = ℂ` (noncomputable instance in
`Nitime/Lemmas/CohC.lean`); the property theorems are about that instance of the *same*
definitions.

What is modelled here (by documented semantics, named in TRUSTED_EXTRA of the harnesses):
* `scipy.fftpack.fft` / `np.fft.fft`      → `segFft` (naive O(N²) DFT of a windowed segment)
* `matplotlib.mlab.csd(x, y, NFFT, Fs, detrend_none, window, noverlap, scale_by_freq=True)`
                                         → `welchBin` (segments at 0, step, 2·step, … ; zero padding
                                           of short input; mean over segments; one-sided doubling of
                                           every bin except DC and — for even NFFT — Nyquist;
                                           division by Fs and by Σ window²)
* `nitime.algorithms.spectral.get_spectra` (welch branch) → `welchBin w Fs NFFT step x_i x_j`
  (the "funny indexing" `mlab.csd(ts[j], ts[i])` gives  mean_s X_i·conj X_j)
-/
import Nitime.Model.Proto

namespace Nitime.Coh

/-- operations numpy performs on a complex128 scalar; real results (`re`, `abs`, `arg`) are
    embedded back into `K` with zero imaginary part -/
class CScalar (K : Type) where
  ofNat : Nat → K
  add : K → K → K
  sub : K → K → K
  mul : K → K → K
  div : K → K → K
  conj : K → K
  re : K → K
  abs : K → K
  sqrt : K → K            -- principal branch (np.sqrt on complex128)
  arg : K → K             -- np.angle
  cis : K → K             -- cos(re z) + i·sin(re z)
  twiddle : Nat → Nat → K -- exp(−2πi·k/n)
  twoPi : K

open CScalar

section generic
variable {K : Type} [CScalar K]

def sumRange (n : Nat) (f : Nat → K) : K :=
  (List.range n).foldl (fun acc i => add acc (f i)) (ofNat 0)

/-- reading past the end gives 0: this is `utils.zero_pad` / mlab's `np.resize(x, NFFT); x[n:] = 0` -/
def getK (xs : List K) (i : Nat) : K := xs.getD i (ofNat 0)

/-- length after zero padding up to NFFT -/
def paddedLen (n NFFT : Nat) : Nat := if n < NFFT then NFFT else n

/-- `len(range(0, n_time_points − NFFT + 1, step))`, also the number of columns of mlab's
    `sliding_window_view(x, NFFT)[::step]`; `step = NFFT − noverlap > 0` -/
def nSeg (n NFFT step : Nat) : Nat := (paddedLen n NFFT - NFFT) / step + 1

/-- array read with the same zero-padding convention as `getK` -/
def getA (xs : Array K) (i : Nat) : K := xs.getD i (ofNat 0)

/-- bin `k` of the FFT of the windowed segment of `x` starting at `s`.  The two lists are turned into
    arrays once per segment (constant-time reads; `Lemmas/CohC.segFft_eq` shows this is
    Σ_j w[j]·x[s+j]·twiddle(j·k) with the list reads `getK`) -/
def segFft (w x : List K) (NFFT s k : Nat) : K :=
  let wa := w.toArray
  let xa := x.toArray
  sumRange NFFT fun j => mul (mul (getA wa j) (getA xa (s + j))) (twiddle NFFT (j * k))

/-- Σ window² as mlab computes it -/
def sumW2 (w : List K) (NFFT : Nat) : K := sumRange NFFT fun j => mul (getK w j) (getK w j)

/-- Σ |window|² as cache_fft computes it -/
def sumAbsW2 (w : List K) (NFFT : Nat) : K :=
  sumRange NFFT fun j => mul (abs (getK w j)) (abs (getK w j))

/-- mlab's one-sided scaling factor for bin k -/
def oneSided (NFFT k : Nat) : K :=
  if k = 0 then ofNat 1 else if NFFT % 2 = 0 ∧ k = NFFT / 2 then ofNat 1 else ofNat 2

/-- mean over the segments of  X_i[k]·conj X_j[k] -/
def segMean (w : List K) (NFFT step : Nat) (xi xj : List K) (k : Nat) : K :=
  let L := nSeg xi.length NFFT step
  div (sumRange L fun s => mul (segFft w xi NFFT (s * step) k) (conj (segFft w xj NFFT (s * step) k)))
      (ofNat L)

/-- `get_spectra(…welch…)[i][j][k]` (i ≤ j), i.e. `mlab.csd(ts[j], ts[i], …, scale_by_freq=True)[k]` -/
def welchBin (w : List K) (Fs : K) (NFFT step : Nat) (xi xj : List K) (k : Nat) : K :=
  div (div (mul (oneSided NFFT k) (segMean w NFFT step xi xj k)) Fs) (sumW2 w NFFT)

/-- number of one-sided bins of a real signal: NFFT//2 + 1 (both parities) -/
def nFreq (NFFT : Nat) : Nat := NFFT / 2 + 1

/-! ### the coherence layer (`nitime/algorithms/cohere.py`) -/

/-- `coherency_spec` -/
def coherencySpec (fxy fxx fyy : K) : K := div fxy (sqrt (mul fxx fyy))

/-- `coherence_spec` -/
def coherenceSpec (fxy fxx fyy : K) : K :=
  div (mul (abs fxy) (abs fxy)) (mul (re fxx) (re fyy))

/-- the pair loop `for i: for j ≥ i: c[i][j] = coherency_spec(fxy[i][j], fxy[i][i], fxy[j][j])`
    followed by `c[tril] = c[triu].conj()`; `spec i j k` is only read for i ≤ j -/
def coherencyMat (spec : Nat → Nat → Nat → K) (i j k : Nat) : K :=
  if i ≤ j then coherencySpec (spec i j k) (spec i i k) (spec j j k)
  else conj (coherencySpec (spec j i k) (spec j j k) (spec i i k))

def coherenceMat (spec : Nat → Nat → Nat → K) (i j k : Nat) : K :=
  if i ≤ j then coherenceSpec (spec i j k) (spec i i k) (spec j j k)
  else conj (coherenceSpec (spec j i k) (spec j j k) (spec i i k))

/-- the full Hermitian read of a semi-filled spectrum -/
def hermSpec (spec : Nat → Nat → Nat → K) (i j k : Nat) : K :=
  if i ≤ j then spec i j k else conj (spec j i k)

/-- `_coherence_bavg` on the bins lb ≤ k < ub -/
def coherenceBavg (fxy fxx fyy : Nat → K) (lb ub : Nat) : K :=
  let s := sumRange (ub - lb) fun t => fxy (lb + t)
  div (mul (abs s) (abs s))
      (mul (sumRange (ub - lb) fun t => re (fxx (lb + t))) (sumRange (ub - lb) fun t => re (fyy (lb + t))))

/-- `_coherency_bavg`: mean phase and mean magnitude recombined -/
def coherencyBavg (fxy fxx fyy : Nat → K) (lb ub : Nat) : K :=
  let n := ub - lb
  let p := div (sumRange n fun t => arg (fxy (lb + t))) (ofNat n)
  let m := div (sumRange n fun t => abs (coherencySpec (fxy (lb + t)) (fxx (lb + t)) (fyy (lb + t)))) (ofNat n)
  mul m (cis p)

def bavgMat (bavg : (Nat → K) → (Nat → K) → (Nat → K) → Nat → Nat → K)
    (spec : Nat → Nat → Nat → K) (lb ub i j : Nat) : K :=
  if i ≤ j then bavg (spec i j) (spec i i) (spec j j) lb ub
  else conj (bavg (spec j i) (spec j j) (spec i i) lb ub)

/-- `coherence_partial_spec(fxy, fxx, fyy, fxr, fry, frr)` -/
def coherencePartialSpec (fxy fxx fyy fxr fry frr : K) : K :=
  let Rxr := coherencySpec fxr fxx frr
  let Rry := coherencySpec fry fyy frr
  let Rxy := coherencySpec fxy fxx fyy
  let d := abs (sub Rxy (mul Rxr Rry))
  div (mul d d)
      (mul (sub (ofNat 1) (mul (abs Rxr) (abs Rxr))) (sub (ofNat 1) (mul (abs Rry) (abs Rry))))

/-- partial coherence of channels i, j given channel r of one spectral matrix, with the
    cross-spectra in the orientation the formula needs: f_ir and f_rj (= conj f_jr).
    This is what `coherence_partial` (get_spectra_bi(x, r), get_spectra_bi(r, y)) and
    `CoherenceAnalyzer.coherence_partial` (csd(i, k), csd(k, j)) pass. -/
def partialOf (spec : Nat → Nat → Nat → K) (i j r k : Nat) : K :=
  coherencePartialSpec (hermSpec spec i j k) (spec i i k) (spec j j k)
    (hermSpec spec i r k) (hermSpec spec r j k) (spec r r k)

/-- `np.angle(fxy[i][j])` above the diagonal, `np.angle(fxy[i][j].conjugate())` below;
    the diagonal as `CoherenceAnalyzer.phase` fills it (first the angle, then the angle of the
    conjugate into the same cell) -/
def phaseMat (spec : Nat → Nat → Nat → K) (i j k : Nat) : K :=
  if i < j then arg (spec i j k) else arg (conj (spec j i k))

/-- `_coherency_phase_delay`: angle / (2π f) -/
def delayOf (phase f : K) : K := div phase (mul twoPi f)

/-- frequency of bin k as mlab reports it: `np.fft.fftfreq(NFFT, 1/Fs)[k]` (last one sign-fixed) -/
def welchFreq (Fs : K) (NFFT k : Nat) : K := div (mul (ofNat k) Fs) (ofNat NFFT)

/-- `utils.get_freqs(Fs, N)[k]` = `(np.fft.rfftfreq(N) * Fs)[k]` = (k · (1/N)) · Fs — the frequency vector of
    the cache, of SparseCoherenceAnalyzer and of SeedCoherenceAnalyzer -/
def rfftFreq (Fs : K) (N k : Nat) : K := mul (mul (ofNat k) (div (ofNat 1) (ofNat N))) Fs

/-! ### multitaper coherence (`MTCoherenceAnalyzer.coherence`, `mtm_cross_spectrum`) -/

/-- weight of taper t at bin k: weights have shape (K, L) (adaptive) or (K, 1) (fixed) -/
def wAt (w : List (List K)) (t k : Nat) : K :=
  let row := w.getD t []
  if row.length = 1 then getK row 0 else getK row k

def mtDouble (N k : Nat) : K := if 1 ≤ k ∧ k < (N + 1) / 2 then ofNat 2 else ofNat 1

/-- Σ_t |w_t|² at bin k -/
def mtW2 (w : List (List K)) (nt k : Nat) : K := sumRange nt fun t => mul (abs (wAt w t k)) (abs (wAt w t k))

/-- `mtm_cross_spectrum(tx, ty, (wx, wy), sides='onesided')[k]` -/
def mtCross (N nt : Nat) (tx ty wx wy : List (List K)) (k : Nat) : K :=
  let sf := sumRange nt fun t =>
    mul (mul (wAt wx t k) (getK (tx.getD t []) k)) (conj (mul (wAt wy t k) (getK (ty.getD t []) k)))
  mul (div sf (mul (sqrt (mtW2 wx nt k)) (sqrt (mtW2 wy nt k)))) (mtDouble N k)

/-- `mtm_cross_spectrum(tx, tx, wx, sides='onesided')[k]` (autospectrum branch: real part) -/
def mtAuto (N nt : Nat) (tx wx : List (List K)) (k : Nat) : K :=
  let sf := sumRange nt fun t =>
    mul (mul (wAt wx t k) (getK (tx.getD t []) k)) (conj (mul (wAt wx t k) (getK (tx.getD t []) k)))
  re (mul (div sf (mtW2 wx nt k)) (mtDouble N k))

/-- `coh_mat[i, j] = |sxy|² / (sxx·syy)` -/
def mtCoherence (N nt : Nat) (tx ty wx wy : List (List K)) (k : Nat) : K :=
  let sxy := mtCross N nt tx ty wx wy k
  div (mul (abs sxy) (abs sxy)) (mul (mtAuto N nt tx wx k) (mtAuto N nt ty wy k))

/-! ### the FFT cache (`cache_fft`, `cache_to_*`) -/

/-- `norm_val` of cache_fft -/
def normVal (w : List K) (Fs : K) (NFFT : Nat) (scaleByFreq : Bool) : K :=
  if scaleByFreq then mul (sumAbsW2 w NFFT) (div Fs (ofNat 2)) else div (sumAbsW2 w NFFT) (ofNat 2)

/-- `FFT_slices[chan][s, k − lb_idx]`: the cache stores `segFft` of every segment for the band bins.
    `conjCached = prefer_speed_over_memory`: the conjugates are stored too and read back instead of
    being recomputed; both settings read the same numbers. -/
def cachedSlice (w : List K) (NFFT step : Nat) (x : List K) (lbIdx s t : Nat) : K :=
  segFft w x NFFT (s * step) (lbIdx + t)

def cachedConj (conjCached : Bool) (w : List K) (NFFT step : Nat) (x : List K) (lbIdx s t : Nat) : K :=
  if conjCached then conj (cachedSlice w NFFT step x lbIdx s t)   -- read from FFT_conj_slices
  else conj (cachedSlice w NFFT step x lbIdx s t)                  -- np.conjugate(FFT_slices[j])

/-- mean over windows when there is more than one, the single row otherwise -/
def winMean (L : Nat) (f : Nat → K) : K :=
  if L > 1 then div (sumRange L f) (ofNat L) else f 0

/-- `cache_to_coherency(cache, ij)[i, j][t]`, t-th kept bin -/
def cacheCoherency (conjCached : Bool) (w : List K) (nv : K) (NFFT step : Nat) (xi xj : List K)
    (lbIdx t : Nat) : K :=
  let L := nSeg xi.length NFFT step
  let Fi := cachedSlice w NFFT step xi lbIdx
  let Fj := cachedSlice w NFFT step xj lbIdx
  let Ci := cachedConj conjCached w NFFT step xi lbIdx
  let Cj := cachedConj conjCached w NFFT step xj lbIdx
  let Pxy := div (winMean L fun s => mul (Fi s t) (Cj s t)) nv
  let Pxx := div (winMean L fun s => mul (Fi s t) (Ci s t)) nv
  let Pyy := div (winMean L fun s => mul (Fj s t) (Cj s t)) nv
  div Pxy (sqrt (mul Pxx Pyy))

/-- `cache_to_psd(cache, ij)[i][t]`: the one-sided correction (`Pxx[i][cache['edge_idx']] /= 2`) belongs to
    the DC and (even NFFT) Nyquist bins of the full grid, wherever the band starts -/
def cachePsd (conjCached : Bool) (w : List K) (nv : K) (NFFT step : Nat) (x : List K) (lbIdx t : Nat) : K :=
  let L := nSeg x.length NFFT step
  let F := cachedSlice w NFFT step x lbIdx
  let C := cachedConj conjCached w NFFT step x lbIdx
  let P := div (winMean L fun s => mul (F s t) (C s t)) nv
  mul P (div (oneSided NFFT (lbIdx + t)) (ofNat 2))

/-- `cache_to_relative_phase(cache, ij)[i, j][t]`: mean over windows of the per-window angle -/
def cacheRelPhase (conjCached : Bool) (w : List K) (NFFT step : Nat) (xi xj : List K) (lbIdx t : Nat) : K :=
  let L := nSeg xi.length NFFT step
  let Fi := cachedSlice w NFFT step xi lbIdx
  let Cj := cachedConj conjCached w NFFT step xj lbIdx
  winMean L fun s => arg (mul (Fi s t) (Cj s t))

/-- `cache_to_phase(cache, ij)[i][t]` -/
def cachePhase (w : List K) (NFFT step : Nat) (x : List K) (lbIdx t : Nat) : K :=
  let L := nSeg x.length NFFT step
  winMean L fun s => arg (cachedSlice w NFFT step x lbIdx s t)

end generic

/-! ## default parameters (the expressions in the source; integers) -/

/-- `get_spectra`: `int(np.ceil(NFFT // 2))` -/
def denseDefaultOverlap (NFFT : Nat) : Nat := NFFT / 2
/-- `cache_fft`: `int(np.ceil(NFFT // 2))`, the same expression -/
def cacheDefaultOverlap (NFFT : Nat) : Nat := NFFT / 2

/-! ## executable instance: pairs of binary64 -/

structure Cx where
  re : Float
  im : Float
deriving Inhabited

namespace Cx
def ofF (x : Float) : Cx := ⟨x, 0.0⟩
def add (a b : Cx) : Cx := ⟨a.re + b.re, a.im + b.im⟩
def sub (a b : Cx) : Cx := ⟨a.re - b.re, a.im - b.im⟩
def mul (a b : Cx) : Cx := ⟨a.re * b.re - a.im * b.im, a.re * b.im + a.im * b.re⟩
def div (a b : Cx) : Cx :=
  if b.im == 0.0 then ⟨a.re / b.re, a.im / b.re⟩ else
  let d := b.re * b.re + b.im * b.im
  ⟨(a.re * b.re + a.im * b.im) / d, (a.im * b.re - a.re * b.im) / d⟩
def conj (a : Cx) : Cx := ⟨a.re, -a.im⟩
def abs (a : Cx) : Float := Float.sqrt (a.re * a.re + a.im * a.im)
def pi : Float := 3.141592653589793
/-- principal square root -/
def sqrt (a : Cx) : Cx :=
  if a.im == 0.0 && a.re >= 0.0 then ⟨Float.sqrt a.re, a.im⟩ else
  let r := abs a
  let s := Float.sqrt ((r + Float.abs a.re) / 2.0)
  if a.re >= 0.0 then ⟨s, a.im / (2.0 * s)⟩
  else ⟨Float.abs a.im / (2.0 * s), if a.im < 0.0 || (a.im == 0.0 && 1.0 / a.im < 0.0) then -s else s⟩
def arg (a : Cx) : Float := Float.atan2 a.im a.re
end Cx

instance : CScalar Cx where
  ofNat n := Cx.ofF n.toFloat
  add := Cx.add
  sub := Cx.sub
  mul := Cx.mul
  div := Cx.div
  conj := Cx.conj
  re a := Cx.ofF a.re
  abs a := Cx.ofF (Cx.abs a)
  sqrt := Cx.sqrt
  arg a := Cx.ofF (Cx.arg a)
  cis a := ⟨Float.cos a.re, Float.sin a.re⟩
  twiddle n k :=
    let t := -2.0 * Cx.pi * (k % n).toFloat / n.toFloat
    ⟨Float.cos t, Float.sin t⟩
  twoPi := Cx.ofF (2.0 * Cx.pi)

/-! ## Float-level helpers (index arithmetic on real frequency grids) -/

/-- `utils.get_freqs(Fs, n)` = `np.fft.rfftfreq(int(n)) * Fs`, bit for bit: (k · (1.0/n)) · Fs -/
def getFreqs (Fs : Float) (n : Nat) : List Float :=
  let val := 1.0 / (n.toFloat * 1.0)
  (List.range (n / 2 + 1)).map fun k => (k.toFloat * val) * Fs

/-- `np.searchsorted(f, v, 'left')` on an ascending list, over any carrier with a decidable `<`
    (run at `Float`; `Lemmas/CohBounds` proves the band-selection property at `ℚ`) -/
def searchLeftBy {α : Type} (lt : α → α → Bool) (f : List α) (v : α) : Nat := (f.takeWhile (fun x => lt x v)).length
/-- `np.searchsorted(f, v, 'right')` -/
def searchRightBy {α : Type} (le : α → α → Bool) (f : List α) (v : α) : Nat := (f.takeWhile (fun x => le x v)).length

/-- `utils.get_bounds(f, lb, ub)`; `ub = none` is Python's `None` -/
def getBoundsBy {α : Type} (lt le : α → α → Bool) (f : List α) (lb : α) (ub : Option α) : Nat × Nat :=
  (searchLeftBy lt f lb, match ub with | none => f.length | some u => searchRightBy le f u)

def searchLeft (f : List Float) (v : Float) : Nat := searchLeftBy (fun a b => decide (a < b)) f v
def searchRight (f : List Float) (v : Float) : Nat := searchRightBy (fun a b => decide (a ≤ b)) f v
def getBounds (f : List Float) (lb : Float) (ub : Option Float) : Nat × Nat :=
  getBoundsBy (fun a b => decide (a < b)) (fun a b => decide (a ≤ b)) f lb ub

/-- `mlab.window_hanning(np.ones(N))` = `np.hanning(N)` -/
def hanning (N : Nat) : List Float :=
  if N = 1 then [1.0] else
  (List.range N).map fun n => 0.5 - 0.5 * Float.cos (2.0 * Cx.pi * n.toFloat / (N - 1).toFloat)

/-! ## protocol helpers -/

def showCx (zs : List Cx) : String :=
  if zs.isEmpty then "-" else ",".intercalate (zs.map fun z => Proto.showFloat z.re ++ "," ++ Proto.showFloat z.im)

def showRe (zs : List Cx) : String := Proto.showFloatList (zs.map (·.re))

def parseChans? (toks : List String) : Option (List (List Cx)) :=
  toks.mapM fun t => (Proto.parseFloatList? t).map (·.map Cx.ofF)

/-- interleaved re,im list -/
def parseCxList? (s : String) : Option (List Cx) := do
  let fs ← Proto.parseFloatList? s
  let rec go : List Float → List Cx
    | a :: b :: rest => ⟨a, b⟩ :: go rest
    | _ => []
  pure (go fs)

end Nitime.Coh
