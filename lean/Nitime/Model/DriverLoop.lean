/- Line-protocol loop shared by the per-property drivers (core Lean only). -/
namespace Nitime

partial def driverLoop (handle : List String → String) (h out : IO.FS.Stream) : IO Unit := do
  let line ← h.getLine
  if line.isEmpty then return ()
  let toks := (line.trimAscii.toString.splitOn " ").filter (· ≠ "")
  -- the first token is the property id; the model's `handle` sees the rest
  out.putStrLn (handle (toks.drop 1))
  driverLoop handle h out

def driverMain (handle : List String → String) : IO Unit := do
  let out ← IO.getStdout
  driverLoop handle (← IO.getStdin) out
  out.flush

end Nitime
