/-
C15 — descriptor types for output-series construction sites (core Lean only).
`lean/Nitime/Generated/SeriesCalls.lean` (regenerated from the source by harness/translate_c15.py)
holds one `SeriesCall` per `ts.TimeSeries(...)` call of the analyzers / readers.
-/
namespace Nitime.C15

/-- attributes of a source series that a call may forward -/
inductive Field where
  | interval | rate | t0 | unit
  deriving DecidableEq, Repr

/-- integer symbols multiplying the sampling interval in lag / offset axes -/
inductive Sym where
  | one | n | nMinus1 | offset | lenEt
  deriving DecidableEq, Repr

/-- where one constructor argument comes from -/
inductive Arg where
  | absent                          -- not passed (constructor default)
  | field (f : Field)               -- `<source series>.<f>`
  | scaled (neg : Bool) (s : Sym)   -- `± s * <source series>.sampling_interval`
  | param                           -- a value supplied by the caller (e.g. `TR`)
  | other                           -- outside the descriptor language
  deriving DecidableEq, Repr

structure Shape where
  interval : Arg
  rate : Arg
  t0 : Arg
  unit : Arg
  deriving DecidableEq, Repr

structure SeriesCall where
  key : String
  src : String
  shape : Shape
  deriving Repr

/-- where the sampling rate an analyzer hands to the algorithm layer comes from -/
inductive FsSrc where
  | inputRate      -- `<input series>.sampling_rate` (directly, through an alias, or through a method dict written from it)
  | userOrInput    -- `method.get('Fs', <input series>.sampling_rate)`: the caller's documented override, else the input's rate
  | other          -- anything else (e.g. recomputed from the interval)
  deriving DecidableEq, Repr

structure FsBinding where
  key : String
  how : String
  src : FsSrc
  deriving Repr

/-- where the file reader takes the image object whose `get_fdata()` array it uses -/
inductive ImgSrc where
  | freshLoad     -- `im = load(<file>)` (nibabel.load) in the same call: a NEW image object, hence a new array buffer
  | keepImages    -- image objects kept between calls (a nibabel image caches the array `get_fdata()` returned)
  | other         -- anything else: not vouched for
  deriving DecidableEq, Repr

structure FdataSite where
  key : String
  how : String
  src : ImgSrc
  deriving Repr

/-- a call of an FFT-type transform inside an analyzer; `lengthArg` = it is given a transform length (zero-padding /
truncation) instead of working on exactly the samples of the series -/
structure TransformCall where
  key : String
  fn : String
  lengthArg : Bool
  deriving Repr

end Nitime.C15
