/-
C09 — how `cache_fft` obtains the window VALUES from the `window` entry of the method dict (core Lean only).

  if np.iterable(window):  window_vals = <arrayConv>(window)          -- given as data: array / list / tuple, any dtype
  else:                    window_vals = window(np.ones(NFFT, <funcArg>))   -- given as a function

`harness/translate_c09.py` extracts `arrayConv` and `funcArg` from the CURRENT source into
`Nitime.Generated.CacheWin`; the driver resolves the window with `windowVals` before it runs the cache model of
`CohBase.lean`, so the model follows whatever conversion the source applies (a cast of the window to the dtype of the
data truncates a taper to zeros for integer recordings and rounds it for float32 ones).  `Props/C09.lean` proves the
refinement for an ARBITRARY real window given as data or as a multiplicative function, for the conversion as extracted.
-/
namespace Nitime.C09

/-- the dtype of the DATA array, as far as a cast of the window to it matters -/
inductive DType where
  | f64 | f32 | int
  deriving DecidableEq, Repr, Inhabited

/-- what `cache_fft` does with a window given as a sequence -/
inductive ArrConv where
  | asGiven        -- `window` itself / `np.asarray(window)` / `np.asarray(window, dtype=float)`: the values, exactly
  | castToData     -- `np.asarray(window, dtype=time_series.dtype)` / `.astype(time_series.dtype)`
  | unknown
  deriving DecidableEq, Repr, Inhabited

/-- what a window FUNCTION is applied to -/
inductive FuncArg where
  | onesOfDataDtype   -- `np.ones(NFFT, time_series.dtype)`: ones are exactly 1 in every dtype
  | ones              -- `np.ones(NFFT)`
  | unknown
  deriving DecidableEq, Repr, Inhabited

/-- how the caller gave the window -/
inductive WinArg (K : Type) where
  | func (f : List K → List K)
  | arr (vals : List K)

/-- numpy's casts of a float64 value -/
structure Casts (K : Type) where
  toF32 : K → K     -- nearest binary32 value
  toInt : K → K     -- truncation toward zero

def castTo {K : Type} (c : Casts K) : DType → K → K
  | .f64, x => x
  | .f32, x => c.toF32 x
  | .int, x => c.toInt x

/-- `window_vals` of `cache_fft` (`none`: the source's handling was not recognised) -/
def windowVals {K : Type} (c : Casts K) (one : K) (conv : ArrConv) (fa : FuncArg) (dt : DType) (NFFT : Nat) :
    WinArg K → Option (List K)
  | .arr v =>
    match conv with
    | .asGiven => some v
    | .castToData => some (v.map (castTo c dt))
    | .unknown => none
  | .func f =>
    match fa with
    | .unknown => none
    | _ => some (f (List.replicate NFFT one))

/-- the window function `lambda x: h * x` -/
def mulWindow {K : Type} (mul : K → K → K) (h : List K) : List K → List K := fun x => List.zipWith mul h x

end Nitime.C09
