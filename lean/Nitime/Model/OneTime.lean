/-
The `OneTime` machine: the executable model shared by C13 and C14 (core Lean only).

What it follows (nitime/descriptors.py):
* `OneTimeProperty.__get__`  = `readF`: memo hit when the instance dict holds the name, else run
  the getter (which reads other one-time attributes, `self.<x>` parameters and the input), store
  the value under the name (`setattr(obj, name, val)`).
* what a getter does besides returning a value is described by an `Eff` record that the
  translator extracts from the getter's source: parameter writes (`self.x = …`,
  `self.x[k] = …`), fill-if-missing writes (`self.m['Fs'] = self.m.get('Fs', …)`,
  `if self.ub is None: self.ub = …`), in-place rewrites of other cached results
  (`unwrap_phases(view of self.phase)`, `cache = self.target_cache; cache[k][-1] = …`) or of the
  input.
* `ResetMixin.reset` = `reset walked`: delete the fired entries among the names found in the class
  dictionaries that are walked; `BaseAnalyzer.set_input` = `setInput`.

The result of a getter is `F g (values of the attributes it reads) (parameters it reads) input`
with **F uninterpreted** (`Sem`); so are the values written (`W`), the in-place rewrites (`C`, `CI`)
and the state derived from the input in `__init__` (`D`).  Theorems (Props/C13, Props/C14) hold for
every `Sem`.  The driver instantiates `Sem` with symbolic terms (strings).
-/
namespace Nitime.OneTime

/-- guard of an effect: `none` = always; `some (f, pol)` = only when flag `f` has truth value `pol`
    on the constructed object (flags are facts such as `_unwrap_phases` or `ub is None`) -/
abbrev Guard := Option (Nat × Bool)

def Guard.active (cfg : List Nat) : Guard → Bool
  | none => true
  | some (f, pol) => cfg.contains f == pol

/-- one getter as extracted from the source -/
structure GetterRaw where
  deps : List (Nat × Guard) := []         -- other one-time attributes read through `self.`
  reads : List (Nat × Guard) := []        -- parameter slots read
  writes : List (Nat × Guard) := []       -- parameter slots overwritten
  dwrites : List (Nat × Guard) := []      -- parameter slots filled when missing / None
  clobbers : List (Nat × Guard) := []     -- cached results rewritten in place
  clobbersInput : List Guard := []        -- in-place rewrite of the input's data
  usesInput : Bool := true
  deriving Repr

structure AnalyzerSpec where
  cls : String
  getterNames : List String               -- position = getter id; dependencies come first
  slotNames : List String                 -- parameter slots (`method.Fs`, `ub`, …)
  flagNames : List String
  getters : List GetterRaw
  initPresent : List (Nat × Guard) := []  -- slots that are not missing/None after `__init__`
  initDerived : List Nat := []            -- slots `__init__` computes from the input
  inherited : List Nat := []              -- getters defined in a base class (not in the own class dict)
  refreshed : List Nat := []              -- slots an overriding `set_input` recomputes from the new input
  processBound : List Nat := []           -- slots `__init__` may bind to a module-level or class-level object that is written later
  argKept : List Nat := []                -- slots `__init__` binds to the caller's argument object itself and writes into
  deriving Repr

/-- HOW `ResetMixin.reset` obtains the names of the one-time attributes it deletes (generated from
    the source of `reset` by harness/translate_c13.py) -/
inductive NameSource where
  | walkPerCall      -- walks the class dictionaries on every call; nothing is kept on the class
  | ownTable         -- a table kept on the class, looked up in the class's OWN dictionary only
  | inheritedTable   -- a table kept on the class, found by attribute lookup (finds a PARENT's table)
  | walkFiltered     -- walks per call, but NOT every class of the MRO (a predicate / slice / `continue` on the class)
  | unknown          -- some other state outside the object (not recognised)
  deriving DecidableEq, Repr

/-- the sources for which `reset` clears exactly the fired attributes of the object's class and its
    ancestors in every process history (Lemmas/Sessions.lean: `namesFor_safe`, `session_proj`) -/
def NameSource.safe : NameSource → Bool
  | .walkPerCall => true
  | .ownTable => true
  | _ => false

/-- effects of one getter under a given configuration -/
structure Eff where
  deps : List Nat := []
  reads : List Nat := []
  writes : List Nat := []
  dwrites : List Nat := []
  clobbers : List Nat := []
  clobbersInput : Bool := false
  usesInput : Bool := true
  deriving DecidableEq, Repr

abbrev Spec := List Eff

def pick (cfg : List Nat) (l : List (Nat × Guard)) : List Nat :=
  ((l.filter fun e => e.2.active cfg).map (·.1)).eraseDups

def GetterRaw.resolve (cfg : List Nat) (g : GetterRaw) : Eff :=
  { deps := pick cfg g.deps, reads := pick cfg g.reads, writes := pick cfg g.writes,
    dwrites := pick cfg g.dwrites, clobbers := pick cfg g.clobbers,
    clobbersInput := g.clobbersInput.any (Guard.active cfg), usesInput := g.usesInput }

def AnalyzerSpec.resolve (sp : AnalyzerSpec) (cfg : List Nat) : Spec :=
  sp.getters.map (GetterRaw.resolve cfg)

def AnalyzerSpec.present (sp : AnalyzerSpec) (cfg : List Nat) : List Nat := pick cfg sp.initPresent

/-- the getters whose class dictionary `reset` walks -/
def AnalyzerSpec.walked (sp : AnalyzerSpec) (walksMRO : Bool) : List Nat :=
  (List.range sp.getters.length).filter fun g => walksMRO || !sp.inherited.contains g

/-- a name that is no one-time attribute of the class: reads nothing -/
def noEff : Eff := { usesInput := false }

def eff (spec : Spec) (g : Nat) : Eff := spec.getD g noEff

/-! ### the machine -/

structure Sem (V I : Type) where
  F : Nat → List V → List (Option V) → Option I → V            -- result of getter g
  raises : Nat → List V → List (Option V) → Option I → Bool    -- getter g raises instead of returning
  W : Nat → Nat → List V → List (Option V) → Option I → V      -- value getter g writes into slot p
  C : Nat → Nat → V → V                                         -- getter g rewrites cached k in place
  CI : Nat → I → I                                              -- getter g rewrites the input in place
  D : Nat → I → V                                               -- `__init__` derives slot p from the input

structure St (V I : Type) where
  cache : Nat → Option V        -- instance-dict entries stored by the one-time properties
  params : Nat → Option V       -- the other attributes (`none` = missing key / `None`)
  input : I
  count : Nat → Nat             -- ghost: how often each getter ran since construction / reset

variable {V I : Type}

/-- `__init__`: nothing is computed; slots derived from the input are filled from it -/
def construct (sem : Sem V I) (initDerived : List Nat) (cp : Nat → Option V) (x : I) : St V I :=
  { cache := fun _ => none
    params := fun p => if initDerived.contains p then some (sem.D p x) else cp p
    input := x
    count := fun _ => 0 }

/-- read the attributes a getter uses, left to right; `none` = that read raised (a getter raised or the
    recursion limit was hit): the exception propagates -/
def readDeps (rd : Nat → St V I → St V I × Option V) : List Nat → St V I → St V I × Option (List V)
  | [], s => (s, some [])
  | d :: ds, s =>
    match rd d s with
    | (s1, none) => (s1, none)
    | (s1, some v) =>
      match readDeps rd ds s1 with
      | (s2, none) => (s2, none)
      | (s2, some vs) => (s2, some (v :: vs))

def inputArg (e : Eff) (x : I) : Option I := if e.usesInput then some x else none

/-- the getter's body has run: apply its writes / in-place rewrites and store the value -/
def fire (sem : Sem V I) (e : Eff) (g : Nat) (dvs : List V) (pvs : List (Option V)) (v : V)
    (s : St V I) : St V I :=
  { input := if e.clobbersInput then sem.CI g s.input else s.input
    params := fun p =>
      if e.writes.contains p then some (sem.W g p dvs pvs (inputArg e s.input))
      else if e.dwrites.contains p && (s.params p).isNone then some (sem.W g p dvs pvs (inputArg e s.input))
      else s.params p
    cache := fun k =>
      if k = g then some v
      else if e.clobbers.contains k then (s.cache k).map (sem.C g k)
      else s.cache k
    count := fun k => if k = g then s.count k + 1 else s.count k }

/-- `OneTimeProperty.__get__` with a recursion budget; `none` = an exception reached the caller -/
def readF (spec : Spec) (sem : Sem V I) : Nat → Nat → St V I → St V I × Option V
  | 0, _, s => (s, none)
  | fuel + 1, g, s =>
    match s.cache g with
    | some v => (s, some v)
    | none =>
      match readDeps (readF spec sem fuel) (eff spec g).deps s with
      | (s1, none) => (s1, none)
      | (s1, some dvs) =>
        let pvs := (eff spec g).reads.map s1.params
        -- a getter that raises stores nothing and has no effect of its own (what its dependencies
        -- did before stays): `OneTimeProperty.__get__` reaches `setattr` only after the getter returned
        if sem.raises g dvs pvs (inputArg (eff spec g) s1.input) then (s1, none)
        else
          let v := sem.F g dvs pvs (inputArg (eff spec g) s1.input)
          (fire sem (eff spec g) g dvs pvs v s1, some v)

/-- a read as the user performs it.  The translator emits the getters in dependency order, so a
    budget of `g + 1` nested calls suffices; with a cyclic table the read fails (`none`), which is
    what Python does (RecursionError). -/
def read (spec : Spec) (sem : Sem V I) (g : Nat) (s : St V I) : St V I × Option V :=
  readF spec sem (g + 1) g s

def run (spec : Spec) (sem : Sem V I) (h : List Nat) (s : St V I) : St V I :=
  h.foldl (fun s g => (read spec sem g s).1) s

/-- `ResetMixin.reset`: delete the fired entries found in the walked class dictionaries -/
def reset (walked : List Nat) (s : St V I) : St V I :=
  { s with cache := fun k => if walked.contains k then none else s.cache k
           count := fun k => if walked.contains k then 0 else s.count k }

/-- `BaseAnalyzer.set_input` -/
def setInput (walked : List Nat) (x : I) (s : St V I) : St V I :=
  { reset walked s with input := x }

/-- reset, then the user assigns new values to the attributes `changed`, then the input is replaced
    (a `set_input` override recomputes the slots `refreshed` from the new input, as `__init__` does).
    `Epochs.__getitem__` is the instance `changed = data slots`, same input. -/
def retarget (sem : Sem V I) (walked refreshed changed : List Nat) (new : Nat → Option V) (x : I)
    (s : St V I) : St V I :=
  { cache := fun k => if walked.contains k then none else s.cache k
    count := fun k => if walked.contains k then 0 else s.count k
    input := x
    params := fun p => if refreshed.contains p then some (sem.D p x)
                       else if changed.contains p then new p else s.params p }

/-- plain attribute assignment by the user (`a.alpha = 0.1`) -/
def setParams (changed : List Nat) (new : Nat → Option V) (s : St V I) : St V I :=
  { s with params := fun p => if changed.contains p then new p else s.params p }

/-! ### the side conditions, as Boolean checks over the generated tables -/

def allG (spec : Spec) (f : Nat → Eff → Bool) : Bool :=
  (List.range spec.length).all fun g => f g (eff spec g)

/-- getters are listed after the getters they read -/
def sortedB (spec : Spec) : Bool := allG spec fun g e => e.deps.all (· < g)

/-- no getter rewrites a cached result or the input in place -/
def noClobberB (spec : Spec) : Bool := allG spec fun _ e => e.clobbers.isEmpty && !e.clobbersInput

/-- no getter writes a slot that *another* getter reads; a fill-if-missing of such a slot is
    allowed when `__init__` has already filled it -/
def noForeignWriteB (spec : Spec) (present : List Nat) : Bool :=
  allG spec fun g e => allG spec fun g' e' =>
    g == g' || (e.writes.all (fun p => !e'.reads.contains p) &&
                e.dwrites.all (fun p => !e'.reads.contains p || present.contains p))

/-- same, the own reads included (needed after a reset: the getter runs again) -/
def noWriteB (spec : Spec) (present : List Nat) : Bool :=
  allG spec fun _ e => allG spec fun _ e' =>
    e.writes.all (fun p => !e'.reads.contains p) &&
    e.dwrites.all (fun p => !e'.reads.contains p || present.contains p)

def noInterferenceB (spec : Spec) (present : List Nat) : Bool :=
  sortedB spec && noClobberB spec && noForeignWriteB spec present

/-- a getter that `reset` does not reach must not depend on anything that can change -/
def walkOKB (spec : Spec) (walked : List Nat) : Bool :=
  allG spec fun g e => walked.contains g || (e.deps.isEmpty && e.reads.isEmpty && !e.usesInput)

/-- every slot that `__init__` derives from the input and that some getter reads is recomputed on
    `set_input` -/
def derivedOKB (spec : Spec) (derived refreshed : List Nat) : Bool :=
  allG spec fun _ e => e.reads.all fun p => !derived.contains p || refreshed.contains p

def retargetOKB (spec : Spec) (present walked derived refreshed : List Nat) : Bool :=
  sortedB spec && noClobberB spec && noWriteB spec present && walkOKB spec walked &&
  derivedOKB spec derived refreshed && refreshed.all (derived.contains ·)

/-- a user subclass that adds nothing: every one-time attribute is inherited -/
def AnalyzerSpec.subclass (sp : AnalyzerSpec) : AnalyzerSpec :=
  { sp with inherited := List.range sp.getters.length }

def AnalyzerSpec.retargetOK (sp : AnalyzerSpec) (walksMRO : Bool) (cfg : List Nat) : Bool :=
  retargetOKB (sp.resolve cfg) (sp.present cfg) (sp.walked walksMRO) sp.initDerived sp.refreshed

/-- all configurations (subsets of the flags) -/
def allCfgs : Nat → List (List Nat)
  | 0 => [[]]
  | n + 1 => (allCfgs n) ++ (allCfgs n).map (· ++ [n])

/-! ### edits of a table (for `current` / `intended` variants of a recorded finding) -/

def GetterRaw.strip (g : GetterRaw) (clob : List Nat) (dw : List Nat) : GetterRaw :=
  { g with clobbers := g.clobbers.filter (fun e => !clob.contains e.1)
           dwrites := g.dwrites.filter (fun e => !dw.contains e.1) }

def mapAt {α} (l : List α) (i : Nat) (f : α → α) : List α :=
  l.zipIdx.map fun (a, j) => if j = i then f a else a

/-- the table without getter `g`'s in-place rewrites of `clob` and fill-writes of `dw` -/
def AnalyzerSpec.strip (sp : AnalyzerSpec) (g : Nat) (clob dw : List Nat) : AnalyzerSpec :=
  { sp with getters := mapAt sp.getters g (·.strip clob dw) }

/-- the table with an in-place rewrite of `k` by `g` (under `guard`) added -/
def AnalyzerSpec.addClobber (sp : AnalyzerSpec) (g k : Nat) (guard : Guard) : AnalyzerSpec :=
  { sp with getters := mapAt sp.getters g fun r =>
      { r with clobbers := (r.clobbers.filter (·.1 != k)) ++ [(k, guard)] } }

def AnalyzerSpec.addDWrite (sp : AnalyzerSpec) (g p : Nat) (guard : Guard) : AnalyzerSpec :=
  { sp with getters := mapAt sp.getters g fun r =>
      { r with dwrites := (r.dwrites.filter (·.1 != p)) ++ [(p, guard)] } }

def indexOf? (l : List String) (s : String) : Option Nat :=
  (l.zipIdx.find? (·.1 == s)).map (·.2)

def AnalyzerSpec.getter? (sp : AnalyzerSpec) (n : String) : Option Nat := indexOf? sp.getterNames n
def AnalyzerSpec.slot? (sp : AnalyzerSpec) (n : String) : Option Nat := indexOf? sp.slotNames n
def AnalyzerSpec.flag? (sp : AnalyzerSpec) (n : String) : Option Nat := indexOf? sp.flagNames n

end Nitime.OneTime
