/-
Numeric base for the C18 filter models (core Lean only): complex binary64 values as pairs of
`Float`, the naive O(n²) DFT (`scipy.fftpack.fft` / `ifft` by their documented semantics),
means.  (Deliberately independent of `Model/Num.lean`.)
-/
namespace Nitime.Filt

structure Cx where
  re : Float
  im : Float

namespace Cx
def zero : Cx := ⟨0, 0⟩
def add (a b : Cx) : Cx := ⟨a.re + b.re, a.im + b.im⟩
def mul (a b : Cx) : Cx := ⟨a.re * b.re - a.im * b.im, a.re * b.im + a.im * b.re⟩
def scale (s : Float) (a : Cx) : Cx := ⟨s * a.re, s * a.im⟩
end Cx

def pi : Float := 3.141592653589793

/-- `e^{sgn·2πi·m/n}` with the angle reduced to `m mod n` first -/
def twiddle (sgn : Float) (n m : Nat) : Cx :=
  let a := sgn * 2 * pi * (m % n).toFloat / n.toFloat
  ⟨Float.cos a, Float.sin a⟩

/-- `fft(x)[k] = Σ_j x[j]·e^{-2πi·jk/n}` -/
def dft (x : Array Cx) : Array Cx :=
  let n := x.size
  let tw := (Array.range n).map (twiddle (-1) n)
  (Array.range n).map fun k =>
    (List.range n).foldl (fun acc j => acc.add ((x.getD j Cx.zero).mul (tw.getD ((j * k) % n) Cx.zero))) Cx.zero

/-- `ifft(X)[t] = (1/n)·Σ_k X[k]·e^{+2πi·kt/n}` -/
def idft (X : Array Cx) : Array Cx :=
  let n := X.size
  let tw := (Array.range n).map (twiddle 1 n)
  (Array.range n).map fun t =>
    Cx.scale (1 / n.toFloat)
      ((List.range n).foldl (fun acc k => acc.add ((X.getD k Cx.zero).mul (tw.getD ((k * t) % n) Cx.zero))) Cx.zero)

def fsum (l : List Float) : Float := l.foldl (· + ·) 0
def fmean (l : List Float) : Float := fsum l / l.length.toFloat

end Nitime.Filt
