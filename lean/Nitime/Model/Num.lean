/-
Shared numerical base of the spectral / coherence / filtering models (core Lean only).

One definition, two readings.  The numerical models are written ONCE over a pair of types
`R` (reals) and `K` (complex numbers over `R`) carrying the small operation classes below, as
functions `Nat → K` (signals, spectra) combined with `sumRange`.  They are
  * executed with `R = Float`, `K = Nitime.Num.C` (pairs of binary64; instances in this file), and
  * reasoned about with `R = ℝ`, `K = ℂ` (noncomputable instances in
    `Nitime/Lemmas/NumReal.lean`, where `sumRange` is shown to be `Finset.sum`).
That the `Float` reading approximates the real reading is NOT proved (trusted base; the
correspondence compares at 1e-9 of the largest magnitude).

Contents (stable API, other models import this file):
  `RScalar`, `CScalar`, `RSqrt`  operation classes (notation `+ - * /` comes from the parents; `sqrt` separate)
  `sumRange z n f`               `z + f 0 + … + f (n-1)` (left fold, as a numpy sum)
  `rsum`, `ksum`                 `sumRange` starting from the class zero
  `sqmag z`                      `(z * conj z).real`
  `kscale r z`                   real times complex
  `dftAt tw N x k`               naive DFT: `Σ_{j<N} x j * tw ((j*k) % N)`, `tw m = e^{-2πi m/N}`
  `idftAt tw N X j`              inverse: `(1/N) Σ_k X k * conj (tw ((j*k) % N))`
  `padded n x`, `demean n x`     zero padding / mean removal of the first `n` samples
  `foldWith dbl N p k`           one-sided assembly: bin 0 once, `1 ≤ k < (N+1)/2` doubled, rest once
  `memoArr`, `memoGet`           tabulation that is provably the identity (`memoGet_memoArr`);
  `memoArr2/3`, `memoGet2/3`     the same for two / three indices; `matList` = M×M×L array in C order
  `C`, `twiddle`, `twiddleTable` the `Float` instance and its twiddle factors cos/sin(2π m/N)
  `Q2`, `twiddleQ?`              the exact instance (ℚ, ℚ(i)); exact twiddles for N ∈ {1,2,4}
  parsing / printing helpers for the line protocol
-/
import Nitime.Model.Proto

namespace Nitime.Num

/-- operations on the real scalars -/
class RScalar (R : Type) extends Add R, Sub R, Mul R, Div R, Neg R where
  ofNat : Nat → R

/-- square root, kept apart so that exact (rational) runs of everything that needs no root exist -/
class RSqrt (R : Type) where
  sqrt : R → R

/-- operations on the complex scalars over `R` -/
class CScalar (R : outParam Type) (K : Type) [RScalar R] extends Add K, Sub K, Mul K where
  zero : K
  conj : K → K
  ofReal : R → K
  re : K → R
  im : K → R

export RScalar (ofNat)
export RSqrt (sqrt)
export CScalar (conj ofReal re im)

section generic
variable {R K : Type} [RScalar R] [CScalar R K]

/-- `z + f 0 + f 1 + … + f (n-1)`, accumulated from the left -/
def sumRange {α : Type} [Add α] (z : α) (n : Nat) (f : Nat → α) : α :=
  (List.range n).foldl (fun acc i => acc + f i) z

/-- real sum `Σ_{i<n} f i` -/
def rsum (n : Nat) (f : Nat → R) : R := sumRange (ofNat 0) n f

/-- complex sum `Σ_{i<n} f i` -/
def ksum (n : Nat) (f : Nat → K) : K := sumRange CScalar.zero n f

/-- squared magnitude as the code computes it: `(z * z.conj()).real` -/
def sqmag (z : K) : R := re (z * conj z)

/-- real factor times complex number -/
def kscale (r : R) (z : K) : K := ofReal r * z

/-- naive DFT of the first `N` samples of `x` at bin `k`; `tw m` is the twiddle `e^{-2πi m/N}` -/
def dftAt (tw : Nat → K) (N : Nat) (x : Nat → K) (k : Nat) : K :=
  ksum N fun j => x j * tw ((j * k) % N)

/-- naive inverse DFT (numpy normalisation `1/N`) -/
def idftAt (tw : Nat → K) (N : Nat) (X : Nat → K) (j : Nat) : K :=
  kscale (ofNat 1 / ofNat N) (ksum N fun k => X k * conj (tw ((j * k) % N)))

/-- zero padding: samples `0..n-1` of `x`, then zeros -/
def padded (n : Nat) (x : Nat → K) (j : Nat) : K := if j < n then x j else CScalar.zero

/-- mean of the first `n` samples -/
def kmean (n : Nat) (x : Nat → K) : K := kscale (ofNat 1 / ofNat n) (ksum n x)

/-- `x - mean(x)` over the first `n` samples (`utils.remove_bias`) -/
def demean (n : Nat) (x : Nat → K) (j : Nat) : K := x j - kmean n x

/-- one-sided assembly used by `periodogram`, `periodogram_csd`, `mtm_cross_spectrum` and
`mlab`: bin 0 once, bins `1 ≤ k < (N+1)/2` doubled, the remaining (Nyquist) bin once -/
def foldWith {α : Type} (dbl : α → α) (N : Nat) (p : Nat → α) (k : Nat) : α :=
  if k = 0 then p 0 else if k < (N + 1) / 2 then dbl (p k) else p k

end generic

/-! ### tabulation that is provably the identity -/

/-- the values `f 0 … f (n-1)` -/
def memoArr {α : Type} (n : Nat) (f : Nat → α) : Array α := ((List.range n).map f).toArray

/-- look `i` up in a table of `f`, falling back on `f` itself outside the table -/
def memoGet {α : Type} (a : Array α) (f : Nat → α) (i : Nat) : α :=
  if h : i < a.size then a[i] else f i

theorem memoGet_memoArr {α : Type} (n : Nat) (f : Nat → α) (i : Nat) :
    memoGet (memoArr n f) f i = f i := by
  unfold memoGet memoArr
  split
  · simp
  · rfl

/-- two-level tabulation -/
def memoArr2 {α : Type} (m n : Nat) (F : Nat → Nat → α) : Array (Array α) :=
  memoArr m fun i => memoArr n (F i)

def memoGet2 {α : Type} (a : Array (Array α)) (F : Nat → Nat → α) (i k : Nat) : α :=
  if h : i < a.size then memoGet a[i] (F i) k else F i k

/-- three-level tabulation -/
def memoArr3 {α : Type} (m t n : Nat) (F : Nat → Nat → Nat → α) : Array (Array (Array α)) :=
  memoArr m fun i => memoArr2 t n (F i)

def memoGet3 {α : Type} (a : Array (Array (Array α))) (F : Nat → Nat → Nat → α) (i t k : Nat) : α :=
  if h : i < a.size then memoGet2 a[i] (F i) t k else F i t k

/-- an `M × M × L` array in C order -/
def matList {α : Type} (M L : Nat) (f : Nat → Nat → Nat → α) : List α :=
  (List.range M).flatMap fun i => (List.range M).flatMap fun j => (List.range L).map (f i j)

/-! ### the `Float` reading -/

/-- a complex binary64 number -/
structure C where
  re : Float
  im : Float
  deriving Inhabited

instance : RScalar Float where
  ofNat := Nat.toFloat

instance : RSqrt Float where
  sqrt := Float.sqrt

instance : CScalar Float C where
  add a b := ⟨a.re + b.re, a.im + b.im⟩
  sub a b := ⟨a.re - b.re, a.im - b.im⟩
  mul a b := ⟨a.re * b.re - a.im * b.im, a.re * b.im + a.im * b.re⟩
  zero := ⟨0.0, 0.0⟩
  conj a := ⟨a.re, -a.im⟩
  ofReal r := ⟨r, 0.0⟩
  re a := a.re
  im a := a.im

def pi : Float := 3.14159265358979323846

/-- `e^{-2πi m/N}` -/
def twiddle (N m : Nat) : C :=
  let t := 2.0 * pi * m.toFloat / N.toFloat
  ⟨Float.cos t, -Float.sin t⟩

/-- the `N` twiddles of a length-`N` transform, tabulated -/
def twiddleTable (N : Nat) : Array C := memoArr N (twiddle N)

/-- twiddle provider backed by a table (`memoGet`, hence equal to `twiddle N`) -/
def twiddleFn (N : Nat) (tab : Array C) : Nat → C := memoGet tab (twiddle N)

/-! ### the exact reading: rationals and Gaussian rationals

Everything that needs no square root (periodogram, all-pairs periodogram, Welch, the one-sided fold) also runs
exactly.  Exact twiddles `e^{-2πi m/N}` exist in ℚ(i) only for `N ∈ {1, 2, 4}`, so exact runs use
NFFT 1, 2 or 4 (any signal length, segments, overlap, window, zero padding). -/

instance : RScalar Rat where
  ofNat n := (n : Rat)

/-- a Gaussian rational -/
structure Q2 where
  re : Rat
  im : Rat
  deriving Inhabited

instance : CScalar Rat Q2 where
  add a b := ⟨a.re + b.re, a.im + b.im⟩
  sub a b := ⟨a.re - b.re, a.im - b.im⟩
  mul a b := ⟨a.re * b.re - a.im * b.im, a.re * b.im + a.im * b.re⟩
  zero := ⟨0, 0⟩
  conj a := ⟨a.re, -a.im⟩
  ofReal r := ⟨r, 0⟩
  re a := a.re
  im a := a.im

/-- `e^{-2πi m/N}` for `N ∈ {1, 2, 4}` (`none` otherwise) -/
def twiddleQ? (N : Nat) : Option (Nat → Q2) :=
  if N = 1 then some fun _ => ⟨1, 0⟩
  else if N = 2 then some fun m => if m % 2 = 0 then ⟨1, 0⟩ else ⟨-1, 0⟩
  else if N = 4 then some fun m =>
    match m % 4 with
    | 0 => ⟨1, 0⟩ | 1 => ⟨0, -1⟩ | 2 => ⟨-1, 0⟩ | _ => ⟨0, 1⟩
  else none

def parseRatList? (s : String) : Option (Array Rat) :=
  ((Proto.splitList s).mapM Proto.parseRat?).map List.toArray

def pairUpQ : List Rat → List Q2
  | a :: b :: rest => ⟨a, b⟩ :: pairUpQ rest
  | _ => []

def parseQList? (s : String) : Option (Array Q2) :=
  (parseRatList? s).map fun a => (pairUpQ a.toList).toArray

def showRatList (xs : List Rat) : String := Proto.joinList (xs.map Proto.showRat)
def showQList (zs : List Q2) : String := showRatList (zs.foldr (fun z acc => z.re :: z.im :: acc) [])
def qfn (a : Array Q2) (j : Nat) : Q2 := a.getD j ⟨0, 0⟩
def rfn (a : Array Rat) (j : Nat) : Rat := a.getD j 0

/-! ### protocol helpers -/

/-- interleaved `re,im,re,im,…` → complex numbers (a trailing odd element is dropped) -/
def pairUp : List Float → List C
  | a :: b :: rest => ⟨a, b⟩ :: pairUp rest
  | _ => []

def parseCList? (s : String) : Option (Array C) :=
  (Proto.parseFloatList? s).map fun xs => (pairUp xs).toArray

def parseFArray? (s : String) : Option (Array Float) :=
  (Proto.parseFloatList? s).map List.toArray

def showCList (zs : List C) : String :=
  Proto.showFloatList (zs.foldr (fun z acc => z.re :: z.im :: acc) [])

/-- an array as a total function (zero outside) -/
def cfn (a : Array C) (j : Nat) : C := a.getD j ⟨0.0, 0.0⟩
def ffn (a : Array Float) (j : Nat) : Float := a.getD j 0.0

end Nitime.Num
