/-
Shared numeric base of the C20 / C19 / C15 models (core Lean only).

One definition, several instantiations: the numerical models are written once over the small
operations class `Scalar` (`RScalar` adds `sqrt`, `log2`); the driver runs the `Float` instance
(real data) and the `CF` instance (complex data as pairs of `Float`), `Rat` is used for exact
counterexamples, and the proof files instantiate the same text at ℝ / ℂ (noncomputable).
-/
namespace Nitime.Ev

class Scalar (K : Type) where
  add : K → K → K
  sub : K → K → K
  mul : K → K → K
  div : K → K → K
  conj : K → K
  ofNat : Nat → K

class RScalar (K : Type) extends Scalar K where
  sqrt : K → K
  log2 : K → K

open Scalar

/-- binary64 complex numbers -/
structure CF where
  re : Float
  im : Float

instance : Scalar Float := ⟨(· + ·), (· - ·), (· * ·), (· / ·), id, Nat.toFloat⟩
instance : RScalar Float := { sqrt := Float.sqrt, log2 := Float.log2 }
instance : Scalar Rat := ⟨(· + ·), (· - ·), (· * ·), (· / ·), id, fun n => (n : Rat)⟩
instance : Scalar CF where
  add a b := ⟨a.re + b.re, a.im + b.im⟩
  sub a b := ⟨a.re - b.re, a.im - b.im⟩
  mul a b := ⟨a.re * b.re - a.im * b.im, a.re * b.im + a.im * b.re⟩
  div a b :=
    let d := b.re * b.re + b.im * b.im
    ⟨(a.re * b.re + a.im * b.im) / d, (a.im * b.re - a.re * b.im) / d⟩
  conj a := ⟨a.re, -a.im⟩
  ofNat n := ⟨n.toFloat, 0.0⟩

section
variable {K : Type} [Scalar K]

def zero : K := ofNat 0

/-- `Σ_{i<n} f i`, accumulated left to right from 0 -/
def sumRange (n : Nat) (f : Nat → K) : K :=
  (List.range n).foldl (fun acc i => add acc (f i)) zero

/-- sum of a list, accumulated left to right from 0 (python `H = 0; H += …`) -/
def sumList (l : List K) : K := l.foldl add zero

/-- element `i` of a 1-d array (0 outside; the models only read inside) -/
def nth (x : List K) (i : Nat) : K := x.getD i zero

def tabulate (n : Nat) (f : Nat → K) : List K := (List.range n).map f

/-- `np.mean` of a 1-d array -/
def mean (x : List K) : K := div (sumRange x.length (nth x)) (ofNat x.length)

/-- `x - mean(x)` (`remove_bias` on one lane) -/
def removeBias (x : List K) : List K := let m := mean x; x.map fun v => sub v m

/-! ### n-d arrays in C order and lanes along an axis -/

structure ND (K : Type) where
  shape : List Nat
  data : List K

def prodL (l : List Nat) : Nat := l.foldl (· * ·) 1

/-- numpy axis normalisation (negative axes count from the end) -/
def normAxis (ndim : Nat) (axis : Int) : Option Nat :=
  let a := if axis < 0 then axis + ndim else axis
  if 0 ≤ a ∧ a < ndim then some a.toNat else none

def outerOf (shape : List Nat) (ax : Nat) : Nat := prodL (shape.take ax)
def innerOf (shape : List Nat) (ax : Nat) : Nat := prodL (shape.drop (ax + 1))

/-- the 1-d lane of `a` along `ax` at outer index `o`, inner index `i` -/
def lane (a : ND K) (ax o i : Nat) : List K :=
  let n := a.shape.getD ax 0
  let inner := innerOf a.shape ax
  tabulate n fun t => nth a.data ((o * n + t) * inner + i)

/-- all lanes, lane `(o, i)` at position `o * inner + i` -/
def lanesOf (a : ND K) (ax : Nat) : List (List K) :=
  let inner := innerOf a.shape ax
  (List.range (outerOf a.shape ax * inner)).map fun k => lane a ax (k / inner) (k % inner)

/-- assemble an array from its lanes (all of the length of the first one) -/
def fromLanes (shape : List Nat) (ax : Nat) (lanes : List (List K)) : ND K :=
  let n' := (lanes.headD []).length
  let inner := innerOf shape ax
  let outer := outerOf shape ax
  { shape := shape.set ax n',
    data := tabulate (outer * n' * inner) fun idx =>
      let i := idx % inner
      let t := (idx / inner) % n'
      let o := idx / inner / n'
      nth (lanes.getD (o * inner + i) []) t }

end

end Nitime.Ev
