/-
C03 — model of time-based indexing in `nitime.timeseries` (core Lean only), on exact integer
picoseconds.

Follows the source branch by branch:
* `UniformTime.index_at / slice_during / at / during / __getitem__` → `UAxis.indexAt`, `UAxis.indexAtBool`, `UAxis.edge`,
  `UAxis.sliceDuring` (intended: clipped to the axis) and `UAxis.sliceDuringCurrent` (today's
  code: refuses epochs whose start or stop is outside `[t0, t0+duration)`), `UAxis.indexAtCurrent`
  (today's range check against the *reported* duration).
* `TimeArray.index_at / _index_closest / _index_before / _index_after / slice_during / at / during`
  → `whereIdx` (np.where), `argmaxFirst` / `argminFirst` (np.argmax / np.argmin: first extremum),
  `indexClosest`, `indexBefore`, `indexAfter`, `sliceDuring` (intended: duplicates of the last
  sample before the stop are kept) and `sliceDuringCurrent` (today's code).
* `Epochs.__init__` → `Epochs.mk`.
* `TimeSeries.at / during / __getitem__` → `Series.at`, `Series.during`, `Series.getInt`.
* `Events.__getitem__` → `Events.getInt / getFloat / getEpoch`.
Bare numbers are read through the C01 constructor model (`C01.ctorNums`).
-/
import Nitime.Model.Units
import Nitime.Model.Proto
import Nitime.Model.C01
import Nitime.Generated.Units

namespace Nitime.C03
open Nitime

inductive Err where
  | valueError | indexError | notImplemented
  deriving Repr, DecidableEq

def Err.name : Err → String
  | .valueError => "ValueError" | .indexError => "IndexError" | .notImplemented => "NotImplementedError"

/-! ### numpy helpers (documented semantics) -/

/-- `np.where(mask)[0]` for the mask `p ts[i]` -/
def whereIdx (p : Int → Bool) (ts : List Int) : List Nat :=
  (List.range ts.length).filter (fun i => p (ts.getD i 0))

/-- `np.where(mask)[0]` for an element-wise mask of two equally long arrays -/
def whereIdx2 (p : Int → Int → Bool) (ts tq : List Int) : List Nat :=
  (List.range ts.length).filter (fun i => p (ts.getD i 0) (tq.getD i 0))

/-- `np.argmax`: position of the FIRST maximum -/
def argmaxFirst : List Int → Nat
  | [] => 0
  | x :: xs => let k := argmaxFirst xs; if xs.getD k x > x then k + 1 else 0

/-- `np.argmin`: position of the FIRST minimum -/
def argminFirst : List Int → Nat
  | [] => 0
  | x :: xs => let k := argminFirst xs; if xs.getD k x < x then k + 1 else 0

/-- fancy indexing `row[pos]` -/
def sel (row : List Int) (pos : List Nat) : List Int := pos.map (fun i => row.getD i 0)

/-- positions of `slice(lo, hi)` -/
def slicePos (lo hi : Nat) : List Nat := List.range' lo (hi - lo)

/-- python integer key on an axis of length `n` -/
def normKey (n : Nat) (k : Int) : Except Err Nat :=
  if 0 ≤ k ∧ k < n then .ok k.toNat
  else if k < 0 ∧ -(n : Int) ≤ k then .ok (k + n).toNat
  else .error .indexError

/-! ### uniform axis -/

/-- samples are `t0 + i*dt`, `i < n`; `dur` is the duration the object reports -/
structure UAxis where
  t0 : Int
  dt : Int
  n : Nat
  dur : Int
  unit : TimeUnit
  deriving Repr, DecidableEq

namespace UAxis

def sample (a : UAxis) (i : Nat) : Int := a.t0 + (i : Int) * a.dt
/-- end of the covered range: every sample owns a bin of width `dt` -/
def stop (a : UAxis) : Int := a.t0 + (a.n : Int) * a.dt
def times (a : UAxis) : List Int := (List.range a.n).map a.sample

/-- `(ta - t0) // sampling_interval` (numpy floor division) -/
def bin (a : UAxis) (t : Int) : Int := Int.fdiv (t - a.t0) a.dt

/-- `index_at` with the range check against `[t0, hiEnd)` -/
def indexAtWith (a : UAxis) (hiEnd : Int) (ts : List Int) : Except Err (List Int) :=
  if ts.isEmpty then .error .valueError      -- min() of an empty array
  else if a.dt > 0 then
    (if C01.listMin ts < a.t0 ∨ C01.listMax ts ≥ hiEnd then .error .valueError else .ok (ts.map a.bin))
  else
    -- a reversed axis (negative interval and duration) covers (t0 + duration, t0]: sample i owns
    -- the instants (t_i + dt, t_i]; the floor division finds the bin
    (if C01.listMax ts > a.t0 ∨ C01.listMin ts ≤ hiEnd then .error .valueError else .ok (ts.map a.bin))

/-- intended: instants inside the last bin are accepted -/
def indexAt (a : UAxis) (ts : List Int) : Except Err (List Int) := a.indexAtWith a.stop ts
/-- today's code: `t0 + self.duration` as reported by the object -/
def indexAtCurrent (a : UAxis) (ts : List Int) : Except Err (List Int) := a.indexAtWith (a.t0 + a.dur) ts

/-- `index_at(t, boolean=True)`: mask over the axis, true at the bins that were hit -/
def indexAtBool (a : UAxis) (ts : List Int) : Except Err (List Bool) :=
  match a.indexAt ts with
  | .ok idx => .ok ((List.range a.n).map fun (i : Nat) => idx.contains (Int.ofNat i))
  | .error e => .error e

/-- the index of an epoch edge `s` inside the axis: `i = index_at(s); if s > self[i]: i += 1` -/
def edgeIn (a : UAxis) (s : Int) : Nat :=
  let i := a.bin s
  if s > a.t0 + i * a.dt then (i + 1).toNat else i.toNat

/-- intended: edges outside the axis are clipped -/
def edge (a : UAxis) (s : Int) : Nat :=
  if s < a.t0 then 0 else if s ≥ a.stop then a.n else a.edgeIn s

/-- `min(max(x, 0), len(self))` -/
def clipN (n : Nat) (x : Int) : Nat := if x < 0 then 0 else if x > n then n else x.toNat

/-- reversed axis: `(s - t0) // dt + 1`, clipped — the number of samples at or after `s` -/
def edgeRev (a : UAxis) (s : Int) : Nat := clipN a.n (Int.fdiv (s - a.t0) a.dt + 1)

/-- forward axis: from the edge of `start` to the edge of `stop`; reversed axis (the samples lying in
`[start, stop)` run from the first one before `stop` to the first one before `start`) -/
def sliceDuring (a : UAxis) (start stop : Int) : Nat × Nat :=
  if a.dt > 0 then (a.edge start, a.edge stop) else (a.edgeRev stop, a.edgeRev start)

/-- today's code: both edges go through `index_at`, which refuses instants outside -/
def sliceDuringCurrent (a : UAxis) (start stop : Int) : Except Err (Nat × Nat) :=
  match a.indexAtCurrent [start], a.indexAtCurrent [stop] with
  | .ok _, .ok _ => .ok (a.edgeIn start, a.edgeIn stop)
  | _, _ => .error .valueError

end UAxis

/-! ### arbitrary time arrays -/

/-- `_index_closest` for a scalar `t` -/
def indexClosest (ts : List Int) (t tol : Int) : List Nat :=
  whereIdx (fun x => decide (((x - t).natAbs : Int) ≤ tol)) ts

/-- `cond[self[cond].argmax()]`, or the empty array -/
def pickMax (ts : List Int) (cond : List Nat) : Option Nat :=
  if cond.isEmpty then none else some (cond.getD (argmaxFirst (sel ts cond)) 0)

def pickMin (ts : List Int) (cond : List Nat) : Option Nat :=
  if cond.isEmpty then none else some (cond.getD (argminFirst (sel ts cond)) 0)

def indexBefore (ts : List Int) (t : Int) : Option Nat := pickMax ts (whereIdx (fun x => decide (x ≤ t)) ts)
def indexAfter (ts : List Int) (t : Int) : Option Nat := pickMin ts (whereIdx (fun x => decide (t ≤ x)) ts)

/-- the same three lookups for an array `tq` as long as `ts` (element-wise masks) -/
def indexClosest2 (ts tq : List Int) (tol : Int) : List Nat :=
  whereIdx2 (fun x t => decide (((x - t).natAbs : Int) ≤ tol)) ts tq
def indexBefore2 (ts tq : List Int) : Option Nat := pickMax ts (whereIdx2 (fun x t => decide (x ≤ t)) ts tq)
def indexAfter2 (ts tq : List Int) : Option Nat := pickMin ts (whereIdx2 (fun x t => decide (t ≤ x)) ts tq)

/-- last position holding the value `v` (+1): `np.where(self == v)[0].max() + 1` -/
def afterLastEq (ts : List Int) (v : Int) : Nat :=
  match (whereIdx (fun x => decide (x = v)) ts).getLast? with
  | some j => j + 1
  | none => 0

/-- `TimeArray.slice_during`, parametrised by how the stop edge treats `stop > self[i_stop]` -/
def sliceDuringWith (bump : List Int → Nat → Nat) (ts : List Int) (start stop : Int) : Nat × Nat :=
  match indexAfter ts start, indexBefore ts stop with
  | some i, some j =>
    let i' := if start > ts.getD i 0 then i + 1 else i
    let j' := if stop > ts.getD j 0 then bump ts j else j
    (i', j')
  | _, _ => (0, 0)

/-- today's code: `i_stop += 1` -/
def sliceDuringCurrent := sliceDuringWith (fun _ j => j + 1)
/-- intended: every sample equal to `self[i_stop]` is included -/
def sliceDuring := sliceDuringWith (fun ts j => afterLastEq ts (ts.getD j 0))

/-! ### epochs -/

structure Epochs where
  starts : List Int
  stops : List Int
  scalar : Bool
  offset : Int
  unit : TimeUnit
  deriving Repr, DecidableEq

/-- an argument of a constructor: absent, a time object, or bare numbers -/
abbrev Arg := Option C01.Operand

/-- `TimeArray(x, time_unit=u)` -/
def toTime (u : Option TimeUnit) : C01.Operand → C01.TVal
  | .time t => C01.ctorFrom u t
  | .bare sc xs => C01.ctorNums u sc xs

def bc (f : Int → Int → Int) (a b : C01.TVal) : Except Err (List Int × Bool) :=
  match C01.broadcast f a.ps a.scalar b.ps b.scalar with
  | .ok r => .ok r
  | .error _ => .error .valueError

def Epochs.mk' (u : Option TimeUnit) (t0 stop offset start duration : Arg) : Except Err Epochs := do
  if t0.isNone ∧ start.isNone then throw .valueError
  if stop.isNone ∧ duration.isNone then throw .valueError
  if stop.isSome ∧ duration.isSome then throw .valueError
  let tOff := toTime u (offset.getD (.bare true [.int 0]))
  if !tOff.scalar then throw .valueError
  -- t_start (payload, 0-d?, unit)
  let (sPs, sSc, sUnit) ← match start, t0 with
    | some s, _ => let t := toTime u s; pure (t.ps, t.scalar, t.unit)
    | none, some z =>
      let t := toTime u z
      let (ps, sc) ← bc (· - ·) t tOff
      pure (ps, sc, t.unit)
    | none, none => throw .valueError
  let (ePs, eSc) ← match stop, duration with
    | some e, _ => let t := toTime u e; pure (t.ps, t.scalar)
    | none, some d =>
      bc (· + ·) { ps := sPs, unit := sUnit, scalar := sSc } (toTime u d)
    | none, none => throw .valueError
  if sSc != eSc ∨ sPs.length ≠ ePs.length then throw .valueError
  pure { starts := sPs, stops := ePs, scalar := sSc, offset := tOff.ps.headD 0, unit := sUnit }

/-- `Epochs.__getitem__` with a list of (already normalised) positions: the selected rows, in the
order and multiplicity of the key; `duration` is recomputed from them -/
def Epochs.getItem (e : Epochs) (pos : List Nat) : Epochs :=
  { e with starts := sel e.starts pos, stops := sel e.stops pos, scalar := false }

def Epochs.durations (e : Epochs) : List Int := List.zipWith (fun a b => b - a) e.starts e.stops

/-! ### time series (data rows × time) and events -/

structure Series where
  axis : UAxis
  data : List (List Int)
  deriving Repr, DecidableEq

structure SeriesOut where
  unit : TimeUnit
  t0 : Int
  /-- one block per epoch; each block is rows × selected samples -/
  blocks : List (List (List Int))
  deriving Repr, DecidableEq

/-- `self.data[..., self.time.index_at(t)]` -/
def Series.at (s : Series) (tq : List Int) : Except Err (List (List Int)) :=
  match s.axis.indexAt tq with
  | .ok idx => .ok (s.data.map fun row => sel row (idx.map Int.toNat))
  | .error e => .error e

/-- data of one epoch: `self.data[..., self.time.slice_during(e)]` -/
def Series.block (s : Series) (start stop : Int) : List (List Int) :=
  let (lo, hi) := s.axis.sliceDuring start stop
  s.data.map fun row => sel row (slicePos lo hi)

def allEq (xs : List Int) : Bool := match xs with
  | [] => true
  | x :: rest => rest.all (· == x)

/-- `TimeSeries.during` -/
def Series.during (s : Series) (e : Epochs) : Except Err SeriesOut :=
  if e.scalar then
    .ok { unit := s.axis.unit, t0 := e.offset,
          blocks := [s.block (e.starts.headD 0) (e.stops.headD 0)] }
  else if e.starts.isEmpty then .error .indexError
  else if !allEq (List.zipWith (fun a b => b - a) e.starts e.stops) then .error .valueError
  else
    let blocks := List.zipWith (fun a b => s.block a b) e.starts e.stops
    -- np.array of blocks of different widths is refused
    if allEq (blocks.map fun b => ((b.headD []).length : Int)) then
      .ok { unit := s.axis.unit, t0 := e.offset, blocks := blocks }
    else .error .valueError

/-- `self.data[..., k]` -/
def Series.getInt (s : Series) (k : Int) : Except Err (List Int) :=
  match normKey s.axis.n k with
  | .ok i => .ok (s.data.map fun row => row.getD i 0)
  | .error e => .error e

structure Events where
  time : List Int
  unit : TimeUnit
  data : List (List Int)
  deriving Repr, DecidableEq

def Events.select (ev : Events) (pos : List Nat) : Events :=
  { time := sel ev.time pos, unit := ev.unit, data := ev.data.map fun v => sel v pos }

def Events.getInt (ev : Events) (k : Int) : Except Err Events :=
  match normKey ev.time.length k with
  | .ok i => .ok (ev.select [i])
  | .error e => .error e

/-- float key: `index_at(key)` with the default tolerance of one clock tick -/
def Events.getFloat (ev : Events) (t : Int) : Events := ev.select (indexClosest ev.time t 1)

def Events.getEpoch (ev : Events) (e : Epochs) : Except Err Events :=
  if !e.scalar then .error .notImplemented
  else
    let (lo, hi) := sliceDuring ev.time (e.starts.headD 0) (e.stops.headD 0)
    .ok (ev.select (slicePos lo hi))

/-! ### line protocol -/
open Proto

def parseArg? (s : String) : Option Arg :=
  if s = "_" then some none else (C01.parseOperand? s).map some

/-- `U:<unit>:<t0>:<dt>:<n>:<dur>` -/
def parseU? (s : String) : Option UAxis :=
  match s.splitOn ":" with
  | ["U", u, t0, dt, n, dur] => do
    let u ← TimeUnit.ofString? u
    let t0 ← t0.toInt?
    let dt ← dt.toInt?
    let n ← n.toNat?
    let dur ← dur.toInt?
    pure { t0 := t0, dt := dt, n := n, dur := dur, unit := u }
  | _ => none

def chunk (n : Nat) : Nat → List Int → List (List Int)
  | 0, _ => []
  | r + 1, xs => xs.take n :: chunk n r (xs.drop n)

/-- `D:<rows>:<n>:<flat>` -/
def parseD? (s : String) : Option (List (List Int)) :=
  match s.splitOn ":" with
  | ["D", r, n, flat] => do
    let r ← r.toNat?
    let n ← n.toNat?
    let flat ← parseIntList? flat
    if flat.length = r * n then pure (chunk n r flat) else none
  | _ => none

def showErr (e : Err) : String := "err " ++ e.name

def showPos (lo hi : Nat) : String := "ok P:" ++ showNatList (slicePos lo hi)

def showT (u : TimeUnit) (sc : Bool) (ps : List Int) : String :=
  "ok " ++ C01.showT { ps := ps, unit := u, scalar := sc }

def showBlocks (ne : String) (k : String) (blocks : List (List (List Int))) : String :=
  s!"D:{ne}:{k}:{showIntList (blocks.flatMap fun b => b.flatMap id)}"

def showEvents (ev : Events) : String :=
  "ok EV:" ++ ev.unit.name ++ ":" ++ showIntList ev.time ++ (String.join (ev.data.map fun v => "|" ++ showIntList v))

/-- a query read as `TimeArray(t, time_unit=unit)`: payload and 0-d flag -/
def parseQuery? (unit : TimeUnit) (s : String) : Option (List Int × Bool) :=
  (C01.parseOperand? s).map fun o => let t := toTime (some unit) o; (t.ps, t.scalar)

def parseEpochs? (toks : List String) : Option (Except Err Epochs) :=
  match toks with
  | [u, t0, stop, offset, start, duration] => do
    let u ← C01.parseUnitOpt? u
    let t0 ← parseArg? t0
    let stop ← parseArg? stop
    let offset ← parseArg? offset
    let start ← parseArg? start
    let duration ← parseArg? duration
    pure (Epochs.mk' u t0 stop offset start duration)
  | _ => none

/-- scalar epoch required (slice_during / during of the time containers) -/
def withScalarEpoch (e : Except Err Epochs) (k : Int → Int → String) : String :=
  match e with
  | .error er => showErr er
  | .ok e => if e.scalar then k (e.starts.headD 0) (e.stops.headD 0) else showErr .notImplemented

def tarrayIndexAt (ts : List Int) (mode : String) (q : List Int) (tol : Int) : String :=
  let showOpt : Option Nat → String
    | some i => s!"ok i:{i}"
    | none => "ok a:-"
  match q with
  | [t] => match mode with
    | "closest" => "ok a:" ++ showNatList (indexClosest ts t tol)
    | "before" => showOpt (indexBefore ts t)
    | "after" => showOpt (indexAfter ts t)
    | _ => showErr .valueError
  | _ =>
    if q.length ≠ ts.length then showErr .valueError else
    match mode with
    | "closest" => "ok a:" ++ showNatList (indexClosest2 ts q tol)
    | "before" => showOpt (indexBefore2 ts q)
    | "after" => showOpt (indexAfter2 ts q)
    | _ => showErr .valueError

/-- tolerance: `_` = one clock tick, else `TimeArray(tol, time_unit=unit)` (0-d or length 1) -/
def parseTol? (unit : TimeUnit) (s : String) : Option Int :=
  if s = "_" then some 1 else
  match parseQuery? unit s with
  | some ([v], _) => some v
  | _ => none

def uaxisAt (a : UAxis) (q : List Int) (sc : Bool) : String :=
  match a.indexAt q with
  | .ok idx => showT a.unit sc (sel a.times (idx.map Int.toNat))
  | .error e => showErr e

def uaxisDuring (a : UAxis) (e : Except Err Epochs) : String :=
  withScalarEpoch e fun s t => let (lo, hi) := a.sliceDuring s t; showT a.unit false (sel a.times (slicePos lo hi))

def tarrayDuring (u : TimeUnit) (ts : List Int) (e : Except Err Epochs) : String :=
  withScalarEpoch e fun s t => let (lo, hi) := sliceDuring ts s t; showT u false (sel ts (slicePos lo hi))

def seriesAt (s : Series) (q : List Int) (sc : Bool) : String :=
  match s.at q with
  | .ok rows => "ok " ++ showBlocks "s" (if sc then "s" else toString q.length) [rows]
  | .error e => showErr e

def seriesDuring (s : Series) (e : Except Err Epochs) : String :=
  match e with
  | .error er => showErr er
  | .ok e => match s.during e with
    | .error er => showErr er
    | .ok r =>
      let k := ((r.blocks.headD []).headD []).length
      s!"ok TS:{r.unit.name}:{r.t0}:" ++ showBlocks (if e.scalar then "s" else toString r.blocks.length) (toString k) r.blocks

/-! ### containers, lookups as functions of the container's CURRENT contents -/

/-- what a lookup is asked of: the state of the specification is the contents only (sample times,
attributes that describe them, the parallel data) — no memo, no flag, no identity -/
inductive Cont where
  | uaxis (a : UAxis)
  | tarray (t : C01.TVal)
  | series (s : Series)
  | events (ev : Events)
  deriving Repr, DecidableEq

/-- the container tokens that follow `<op> <kind>`; returns the container and the remaining tokens -/
def parseCont? (kind : String) (toks : List String) : Option (Cont × List String) :=
  match kind, toks with
  | "uaxis", a :: rest => (parseU? a).map fun a => (.uaxis a, rest)
  | "tarray", t :: rest => (C01.parseT? t).map fun t => (.tarray t, rest)
  | "series", a :: d :: rest => match parseU? a, parseD? d with
    | some a, some d => some (.series { axis := a, data := d }, rest)
    | _, _ => none
  | "events", t :: d :: rest => match C01.parseT? t, parseD? d with
    | some t, some d => some (.events { time := t.ps, unit := t.unit, data := d }, rest)
    | _, _ => none
  | _, _ => none

def lookupUAxis (a : UAxis) (op : String) (rest : List String) : String :=
  match op, rest with
  | "index_at", [q] => match parseQuery? a.unit q with
    | some (q, sc) => match a.indexAt q with
      | .ok idx => if sc then s!"ok i:{idx.headD 0}" else "ok a:" ++ showIntList idx
      | .error e => showErr e
    | none => "bad-op"
  | "index_at_bool", [q] => match parseQuery? a.unit q with
    | some (q, _) => match a.indexAtBool q with
      | .ok m => "ok B:" ++ showBoolList m
      | .error e => showErr e
    | none => "bad-op"
  | "index_at_cur", [q] => match parseQuery? a.unit q with
    | some (q, sc) => match a.indexAtCurrent q with
      | .ok idx => if sc then s!"ok i:{idx.headD 0}" else "ok a:" ++ showIntList idx
      | .error e => showErr e
    | none => "bad-op"
  | "slice_during", ep => match parseEpochs? ep with
    | some e => withScalarEpoch e fun s t => let (lo, hi) := a.sliceDuring s t; showPos lo hi
    | none => "bad-op"
  | "slice_during_cur", ep => match parseEpochs? ep with
    | some e => withScalarEpoch e fun s t => match a.sliceDuringCurrent s t with
      | .ok (lo, hi) => showPos lo hi
      | .error er => showErr er
    | none => "bad-op"
  | "at", [q] => match parseQuery? a.unit q with
    | some (q, sc) => uaxisAt a q sc
    | none => "bad-op"
  | "during", ep => match parseEpochs? ep with
    | some e => uaxisDuring a e
    | none => "bad-op"
  | "getitem", ["int", k] => match k.toInt? with
    | some k => match normKey a.n k with
      | .ok i => showT a.unit true [a.sample i]
      | .error e => showErr e
    | none => "bad-op"
  | "getitem", ["q", q] => match parseQuery? a.unit q with
    | some (q, sc) => uaxisAt a q sc
    | none => "bad-op"
  | "getitem", "ep" :: ep => match parseEpochs? ep with
    | some e => uaxisDuring a e
    | none => "bad-op"
  | _, _ => "bad-op"

def lookupTArray (t : C01.TVal) (op : String) (rest : List String) : String :=
  match op, rest with
  | "index_at", [mode, q, tol] => match parseQuery? t.unit q, parseTol? t.unit tol with
    | some (q, _), some tol => tarrayIndexAt t.ps mode q tol
    | _, _ => "bad-op"
  | "slice_during", ep => match parseEpochs? ep with
    | some e => withScalarEpoch e fun s p => let (lo, hi) := sliceDuring t.ps s p; showPos lo hi
    | none => "bad-op"
  | "slice_during_cur", ep => match parseEpochs? ep with
    | some e => withScalarEpoch e fun s p => let (lo, hi) := sliceDuringCurrent t.ps s p; showPos lo hi
    | none => "bad-op"
  | "at", [q, tol] => match parseQuery? t.unit q, parseTol? t.unit tol with
    | some ([q], _), some tol => showT t.unit false (sel t.ps (indexClosest t.ps q tol))
    | some (q, _), some tol =>
      if q.length ≠ t.ps.length then showErr .valueError
      else showT t.unit false (sel t.ps (indexClosest2 t.ps q tol))
    | _, _ => "bad-op"
  | "during", ep => match parseEpochs? ep with
    | some e => tarrayDuring t.unit t.ps e
    | none => "bad-op"
  | "getitem", ["int", k] => match k.toInt? with
    | some k => match normKey t.ps.length k with
      | .ok i => showT t.unit true [t.ps.getD i 0]
      | .error e => showErr e
    | none => "bad-op"
  | "getitem", ["q", q] => match parseQuery? t.unit q with
    | some ([q], _) => showT t.unit false (sel t.ps (indexClosest t.ps q 1))
    | _ => "bad-op"
  | "getitem", "ep" :: ep => match parseEpochs? ep with
    | some e => tarrayDuring t.unit t.ps e
    | none => "bad-op"
  | _, _ => "bad-op"

def lookupSeries (s : Series) (op : String) (rest : List String) : String :=
  match op, rest with
  | "at", [q] => match parseQuery? s.axis.unit q with
    | some (q, sc) => seriesAt s q sc
    | none => "bad-op"
  | "during", ep => match parseEpochs? ep with
    | some e => seriesDuring s e
    | none => "bad-op"
  | "getitem", ["int", k] => match k.toInt? with
    | some k => match s.getInt k with
      | .ok col => "ok " ++ showBlocks "s" "s" [[col]]
      | .error e => showErr e
    | none => "bad-op"
  | "getitem", ["q", q] => match parseQuery? s.axis.unit q with
    | some (q, sc) => seriesAt s q sc
    | none => "bad-op"
  | "getitem", "ep" :: ep => match parseEpochs? ep with
    | some e => seriesDuring s e
    | none => "bad-op"
  | _, _ => "bad-op"

def lookupEvents (ev : Events) (op : String) (rest : List String) : String :=
  match op, rest with
  | "getitem", ["int", k] => match k.toInt? with
    | some k => match ev.getInt k with
      | .ok r => showEvents r
      | .error e => showErr e
    | none => "bad-op"
  | "getitem", ["q", q] => match parseQuery? ev.unit q with
    | some ([q], _) => showEvents (ev.getFloat q)
    | _ => "bad-op"
  | "getitem", "ep" :: ep => match parseEpochs? ep with
    | some (.ok e) => match ev.getEpoch e with
      | .ok r => showEvents r
      | .error er => showErr er
    | some (.error er) => showErr er
    | none => "bad-op"
  | _, _ => "bad-op"

/-- the answer to the lookup `op rest` asked of a container: a function of its contents alone -/
def lookup (c : Cont) (op : String) (rest : List String) : String :=
  match c with
  | .uaxis a => lookupUAxis a op rest
  | .tarray t => lookupTArray t op rest
  | .series s => lookupSeries s op rest
  | .events ev => lookupEvents ev op rest

def handleOne (args : List String) : String :=
  match args with
  | ["epochs_getitem", u, t0, stop, offset, start, duration, pos] =>
    match parseEpochs? [u, t0, stop, offset, start, duration], parseNatList? pos with
    | some (.ok e), some pos =>
      if e.scalar then "bad-op" else
      let r := e.getItem pos
      s!"ok E:{r.unit.name}:0:{showIntList r.starts}:{showIntList r.stops}:{r.offset}:{showIntList r.durations}"
    | some (.error er), some _ => showErr er
    | _, _ => "bad-op"
  | "epochs" :: ep => match parseEpochs? ep with
    | some (.ok e) => s!"ok E:{e.unit.name}:{if e.scalar then "1" else "0"}:{showIntList e.starts}:{showIntList e.stops}:{e.offset}"
    | some (.error er) => showErr er
    | none => "bad-op"
  | op :: kind :: toks => match parseCont? kind toks with
    | some (c, rest) => lookup c op rest
    | none => "bad-op"
  | _ => "bad-op"

/-! ### in-place changes and operation histories

The state of a history is the container's contents (`Cont`).  A step is a lookup (any `op rest`
of `lookup`) or an in-place change.  HOW the change reaches the buffer in python (`ta[i] = v` on
the object, through a view of it, through its parent, `+=`, a ufunc with `out=`, `sort`, `put`,
`flat`, `copyto`) is not part of the specification: every route to the same contents is the same
change. -/

/-- in-place changes of the samples of a time array (`Events.time` likewise) -/
inductive TChange where
  /-- one sample is overwritten (`ta[i] = v`, `view[j] = v`, `flat`, `put`, through the parent) -/
  | setAt (i : Nat) (v : Int)
  /-- `ta += x` / `np.add(ta, x, out=ta)`: equally long operand, or one element broadcast -/
  | add (xs : List Int)
  | sub (xs : List Int)
  /-- `ta *= k`, `np.multiply(ta, k, out=ta)`, `np.negative(ta, out=ta)` -/
  | mul (k : Int)
  /-- `ta.sort()` -/
  | sort
  /-- `ta[::-1].sort()`: descending -/
  | sortDesc
  /-- `ta[:] = ta[::-1].copy()` -/
  | reverse
  /-- `np.copyto(ta, x)`, `ta[...] = x` -/
  | assign (xs : List Int)
  deriving Repr, DecidableEq

/-- element-wise with numpy's in-place broadcasting: equal lengths, or a single element -/
def inplaceZip (f : Int → Int → Int) (ts xs : List Int) : Except Err (List Int) :=
  if xs.length = ts.length then .ok (List.zipWith f ts xs)
  else match xs with
    | [x] => .ok (ts.map fun t => f t x)
    | _ => .error .valueError

def TChange.apply (ts : List Int) : TChange → Except Err (List Int)
  | .setAt i v => if i < ts.length then .ok (ts.set i v) else .error .indexError
  | .add xs => inplaceZip (· + ·) ts xs
  | .sub xs => inplaceZip (· - ·) ts xs
  | .mul k => .ok (ts.map (· * k))
  | .sort => .ok (ts.mergeSort (fun a b => decide (a ≤ b)))
  | .sortDesc => .ok (ts.mergeSort (fun a b => decide (a ≤ b))).reverse
  | .reverse => .ok ts.reverse
  | .assign xs => inplaceZip (fun _ x => x) ts xs

namespace UAxis

/-- `_set_sampling`: the attributes describe `n` samples from `t0` at interval `dt` -/
def reset (a : UAxis) (t0 dt : Int) : UAxis := { a with t0 := t0, dt := dt, dur := (a.n : Int) * dt }

/-- all consecutive differences equal the first one (`np.diff`, `dv != dv[0]`) -/
def uniformDiffs : List Int → Bool
  | x :: y :: rest => (List.zipWith (fun a b => b - a) (y :: rest) rest).all (· == y - x)
  | _ => true

/-- `__iadd__` (`sign = 1`) / `__isub__` (`sign = -1`) with a 0-d operand (`sc`) or a 1-d one -/
def shifted (a : UAxis) (sign : Int) (xs : List Int) (sc : Bool) : Except Err UAxis :=
  if sc then .ok (a.reset (a.t0 + sign * xs.headD 0) a.dt)
  else match xs with
    | [] => .error .valueError                      -- an empty operand cannot shift a time axis
    | [x] => .ok (a.reset (a.t0 + sign * x) a.dt)    -- broadcast by numpy: a shift
    | x :: y :: rest =>
      if !uniformDiffs (x :: y :: rest) then .error .valueError
      else
        let d := y - x
        if d ≠ 0 ∧ a.dt + sign * d = 0 then .error .valueError      -- would collapse the axis
        else if (x :: y :: rest).length ≠ a.n then .error .valueError  -- numpy: shapes do not match
        else .ok (a.reset (a.t0 + sign * x) (a.dt + sign * d))

/-- `__imul__` -/
def scaled (a : UAxis) (k : Int) : Except Err UAxis :=
  if k = 0 then .error .valueError else .ok (a.reset (a.t0 * k) (a.dt * k))

/-- `__idiv__`: only a division that leaves whole numbers of the base unit -/
def divided (a : UAxis) (k : Int) : Except Err UAxis :=
  if k = 0 ∨ a.t0 % k ≠ 0 ∨ a.dt % k ≠ 0 then .error .valueError
  else .ok (a.reset (Int.fdiv a.t0 k) (Int.fdiv a.dt k))

end UAxis

/-- in-place changes of a uniform axis (`TimeSeries.time` likewise) -/
inductive UChange where
  | add (xs : List Int) (sc : Bool)
  | sub (xs : List Int) (sc : Bool)
  | mul (k : Int)
  | div (k : Int)
  /-- `x - axis`: subtract, then change the sign (only as a NEW object: python has no in-place form) -/
  | rsub (xs : List Int) (sc : Bool)
  deriving Repr, DecidableEq

def UChange.apply (a : UAxis) : UChange → Except Err UAxis
  | .add xs sc => a.shifted 1 xs sc
  | .sub xs sc => a.shifted (-1) xs sc
  | .mul k => a.scaled k
  | .div k => a.divided k
  | .rsub xs sc => (a.shifted (-1) xs sc).bind fun b => b.scaled (-1)

/-- `axis + x`, `axis - x`, `x + axis`, `x - axis` as a NEW object (INTENDED): the operation is done in place on a
copy, so that the result's attributes describe its samples; when the operand is refused in place (not uniform,
would collapse the axis, a longer array on a one-sample axis) the result is an ordinary array of times —
element-wise under numpy broadcasting, `ValueError` when the shapes do not match.  For what the contents are
concerned an accepted derivation is the in-place change (`hist` lines name it as the route `derived`). -/
def UAxis.derive (a : UAxis) (ch : UChange) : Except Err Cont :=
  match ch.apply a with
  | .ok b => .ok (.uaxis b)
  | .error _ =>
    let plain (f : Int → Int → Int) (xs : List Int) (sc : Bool) : Except Err Cont :=
      match C01.broadcast f a.times false xs sc with
      | .ok (ps, _) => .ok (.tarray { ps := ps, unit := a.unit, scalar := false })
      | .error _ => .error .valueError
    match ch with
    | .add xs sc => plain (· + ·) xs sc
    | .sub xs sc => plain (· - ·) xs sc
    | .rsub xs sc => plain (fun t x => x - t) xs sc
    | _ => .error .valueError

inductive Change where
  | tarr (c : TChange)
  | uax (c : UChange)
  deriving Repr, DecidableEq

/-- the change applied to the contents of a container; data arrays stay where they are -/
def Change.apply (c : Cont) : Change → Except Err Cont
  | .tarr ch => match c with
    | .tarray t => (ch.apply t.ps).map fun ps => .tarray { t with ps := ps }
    | .events ev => (ch.apply ev.time).map fun ps => .events { ev with time := ps }
    | _ => .error .notImplemented
  | .uax ch => match c with
    | .uaxis a => (ch.apply a).map .uaxis
    | .series s => (ch.apply s.axis).map fun a => .series { s with axis := a }
    | _ => .error .notImplemented

inductive HStep where
  | look (op : String) (rest : List String)
  | change (ch : Change)
  deriving Repr, DecidableEq

def showU (a : UAxis) : String := s!"U:{a.unit.name}:{a.t0}:{a.dt}:{a.n}:{a.dur}"

/-- the time contents as the harness reads them back from the real object after a change -/
def showCont : Cont → String
  | .uaxis a => showU a
  | .tarray t => C01.showT t
  | .series s => showU s.axis
  | .events ev => C01.showT { ps := ev.time, unit := ev.unit, scalar := false }

/-- one step: a lookup answers from the current contents and leaves them alone; an accepted change
replaces them; a refused change leaves them alone -/
def stepHist (st : Cont × List String) : HStep → Cont × List String
  | .look op rest => (st.1, lookup st.1 op rest :: st.2)
  | .change ch => match ch.apply st.1 with
    | .ok c' => (c', ("ok " ++ showCont c') :: st.2)
    | .error e => (st.1, showErr e :: st.2)

/-- final contents and the outputs (one per step, in order) of a history -/
def runHist (c : Cont) (h : List HStep) : Cont × List String :=
  let r := h.foldl stepHist (c, [])
  (r.1, r.2.reverse)

def parseSc? (s : String) : Option Bool := if s = "1" then some true else if s = "0" then some false else none

/-- `<change> <arguments>`, values in picoseconds -/
def parseChange? (toks : List String) : Option Change :=
  match toks with
  | ["set", i, v] => do let i ← i.toNat?; let v ← v.toInt?; pure (.tarr (.setAt i v))
  | ["add", xs] => (parseIntList? xs).map fun xs => .tarr (.add xs)
  | ["sub", xs] => (parseIntList? xs).map fun xs => .tarr (.sub xs)
  | ["mul", k] => k.toInt?.map fun k => .tarr (.mul k)
  | ["sort"] => some (.tarr .sort)
  | ["sortdesc"] => some (.tarr .sortDesc)
  | ["reverse"] => some (.tarr .reverse)
  | ["assign", xs] => (parseIntList? xs).map fun xs => .tarr (.assign xs)
  | ["uadd", sc, xs] => do let sc ← parseSc? sc; let xs ← parseIntList? xs; pure (.uax (.add xs sc))
  | ["usub", sc, xs] => do let sc ← parseSc? sc; let xs ← parseIntList? xs; pure (.uax (.sub xs sc))
  | ["umul", k] => k.toInt?.map fun k => .uax (.mul k)
  | ["udiv", k] => k.toInt?.map fun k => .uax (.div k)
  | ["ursub", sc, xs] => do let sc ← parseSc? sc; let xs ← parseIntList? xs; pure (.uax (.rsub xs sc))
  | _ => none

/-- `L <op> <arguments>` (a lookup, written as in the one-shot protocol without the container) or
`C <route> <change>`: the route by which python reaches the buffer is named on the line for the
record and IGNORED here — it is not part of the specification -/
def parseStep? (toks : List String) : Option HStep :=
  match toks with
  | "L" :: op :: rest => some (.look op rest)
  | "C" :: _route :: ch => (parseChange? ch).map .change
  | _ => none

/-- split a token list at the tokens equal to `sep` -/
def splitAt (sep : String) (toks : List String) : List (List String) :=
  toks.foldr (fun t acc => if t = sep then [] :: acc else match acc with
    | [] => [[t]]
    | x :: rest => (t :: x) :: rest) [[]]

def splitSteps (toks : List String) : List (List String) := splitAt ";" toks

/-- `hist <kind> <container tokens> | <step> | <step> …` with steps `L <op> <arguments>` (a lookup,
written as in the one-shot protocol without the container) and `C <change>` -/
def handleHist (kind : String) (toks : List String) : String :=
  match splitAt "|" toks with
  | cont :: steps => match parseCont? kind cont, steps.mapM parseStep? with
    | some (c, []), some h => " ; ".intercalate (runHist c h).2
    | _, _ => "bad-op"
  | [] => "bad-op"

/-! ### live objects that share parts (round 2, class L8)

Lookups by time on a series go through the series' `.time` object.  Python objects are positions in a `Store`:
every `UniformTime` the program can reach is an entry of `axes`, every `TimeSeries` an entry of `series` holding
its data, its OWN attribute values (`own`: t0, Δ, n, unit — what the lazily built `.time` is made from) and the
cache of the `time` property (`none` before the first read).  Constructors allocate; an in-place operator rewrites
the axis object it is applied to and nothing else.  `SCfg` switches on the two cooperating short-cuts of the
"avoid rebuilding the axis" kind: `seriesKeepsAxis` (the constructor caches the caller's axis object when it
already is the series' axis) and `copyPassesOwnAxis` (`copy()` — hence every arithmetic result — hands
`self.time` itself to the constructor).  The theorems are about `sIntended`. -/

structure SObj where
  data : List (List Int)
  own : UAxis
  time : Option Nat
  deriving Repr, DecidableEq

structure Store where
  axes : List UAxis
  series : List SObj
  deriving Repr, DecidableEq

structure SCfg where
  seriesKeepsAxis : Bool
  copyPassesOwnAxis : Bool
  deriving Repr, DecidableEq

def sIntended : SCfg := ⟨false, false⟩

inductive SCmd where
  /-- `TimeSeries(data, time=axes[ax], time_unit=axes[ax].time_unit)` -/
  | seriesOn (ax : Nat) (data : List (List Int))
  /-- read `series[sid].time` -/
  | readTime (sid : Nat)
  /-- `series[sid].copy()` -/
  | copy (sid : Nat)
  /-- `series[sid] + k` (all of `+ - * /` go through `copy()`) -/
  | arith (sid : Nat) (k : Int)
  /-- `series[sid].during(e)` -/
  | during (sid : Nat) (e : Epochs)
  /-- `axes[id].copy()`, `UniformTime(axes[id])` -/
  | axisCopy (id : Nat)
  /-- `axes[id] <op>= x` -/
  | inplaceAxis (id : Nat) (ch : UChange)
  /-- `series[sid].time <op>= x` -/
  | inplaceTime (sid : Nat) (ch : UChange)
  /-- a lookup by time / epoch / position on `series[sid]` -/
  | look (sid : Nat) (op : String) (rest : List String)
  /-- a lookup on `axes[id]` -/
  | lookAxis (id : Nat) (op : String) (rest : List String)
  deriving Repr, DecidableEq

namespace Store

def pushAxis (st : Store) (a : UAxis) : Store := { st with axes := st.axes ++ [a] }
def pushSeries (st : Store) (s : SObj) : Store := { st with series := st.series ++ [s] }
def setAxis (st : Store) (id : Nat) (a : UAxis) : Store := { st with axes := st.axes.set id a }

/-- first read of `.time`: the axis is built from the series' own attributes, allocated and cached -/
def allocTime (st : Store) (sid : Nat) : Store :=
  match st.series[sid]? with
  | none => st
  | some s => match s.time with
    | some _ => st
    | none => { axes := st.axes ++ [s.own], series := st.series.set sid { s with time := some st.axes.length } }

/-- the id `.time` of `series[sid]` returns (after `allocTime`) -/
def timeId (st : Store) (sid : Nat) : Option Nat := (st.series[sid]?).bind (·.time)

/-- what a lookup on `series[sid]` is asked of: its data and the CURRENT value of its time axis object
(the axis its own attributes describe as long as `.time` has not been read) -/
def viewOf (st : Store) (sid : Nat) : Option Series :=
  (st.series[sid]?).map fun s =>
    { axis := match s.time with
        | some p => (st.axes[p]?).getD s.own
        | none => s.own,
      data := s.data }

end Store

def rowLen (d : List (List Int)) : Nat := (d.headD []).length

/-- the attributes a series built on the axis value `a` gets -/
def ownOf (a : UAxis) : UAxis := a.reset a.t0 a.dt

/-- the new series made by `copy()` / arithmetic from `series[sid]` whose axis object is `p` -/
def copied (cfg : SCfg) (st : Store) (sid p : Nat) (f : Int → Int) : Store :=
  match st.series[sid]?, st.axes[p]? with
  | some s, some a =>
    st.pushSeries { data := s.data.map (·.map f), own := ownOf a,
                    time := if cfg.copyPassesOwnAxis && cfg.seriesKeepsAxis then some p else none }
  | _, _ => st

/-- one command: the store afterwards and what the program sees (`ok`, the axis after an in-place operator, a refusal,
the answer of a lookup) -/
def execS (cfg : SCfg) (st : Store) : SCmd → Store × String
  | .seriesOn ax data =>
    match st.axes[ax]? with
    | none => (st, "err IndexError")
    | some a =>
      if rowLen data ≠ a.n then (st, "err ValueError")
      else (st.pushSeries { data := data, own := ownOf a, time := if cfg.seriesKeepsAxis then some ax else none }, "ok")
  | .readTime sid =>
    let st1 := st.allocTime sid
    match st1.timeId sid with
    | some p => (st1, match st1.axes[p]? with | some a => "ok " ++ showU a | none => "err IndexError")
    | none => (st1, "err IndexError")
  | .copy sid =>
    let st1 := st.allocTime sid
    match st1.timeId sid with
    | some p => (copied cfg st1 sid p id, "ok")
    | none => (st1, "err IndexError")
  | .arith sid k =>
    let st1 := st.allocTime sid
    match st1.timeId sid with
    | some p => (copied cfg st1 sid p (· + k), "ok")
    | none => (st1, "err IndexError")
  | .during sid e =>
    let st1 := st.allocTime sid
    match st1.series[sid]?, st1.viewOf sid with
    | some s, some v =>
      match v.during e with
      | .error er => (st1, showErr er)
      | .ok out =>
        -- positions are found on the axis OBJECT; the result is built from `t0=e.offset, sampling_rate=self.sampling_rate`:
        -- its interval is the series' OWN attribute
        let block := out.blocks.headD []
        let n := rowLen block
        (st1.pushSeries { data := block, time := none,
                          own := { t0 := out.t0, dt := s.own.dt, n := n, dur := (n : Int) * s.own.dt, unit := out.unit } }, "ok")
    | _, _ => (st1, "err IndexError")
  | .axisCopy id =>
    match st.axes[id]? with
    | none => (st, "err IndexError")
    | some a => (st.pushAxis a, "ok")
  | .inplaceAxis id ch =>
    match st.axes[id]? with
    | none => (st, "err IndexError")
    | some a => match ch.apply a with
      | .ok a' => (st.setAxis id a', "ok " ++ showU a')
      | .error er => (st, showErr er)
  | .inplaceTime sid ch =>
    let st1 := st.allocTime sid
    match st1.timeId sid with
    | none => (st1, "err IndexError")
    | some p => match st1.axes[p]? with
      | none => (st1, "err IndexError")
      | some a => match ch.apply a with
        | .ok a' => (st1.setAxis p a', "ok " ++ showU a')
        | .error er => (st1, showErr er)
  | .look sid op rest =>
    let st1 := st.allocTime sid
    (st1, match st1.viewOf sid with
      | some v => lookup (.series v) op rest
      | none => "err IndexError")
  | .lookAxis id op rest =>
    (st, match st.axes[id]? with
      | some a => lookup (.uaxis a) op rest
      | none => "err IndexError")

def stepS (cfg : SCfg) (st : Store) (c : SCmd) : Store := (execS cfg st c).1

def runS (cfg : SCfg) (st : Store) (cs : List SCmd) : Store := cs.foldl (stepS cfg) st

/-- the outputs of a program, in order -/
def outS (cfg : SCfg) : Store → List SCmd → List String
  | _, [] => []
  | st, c :: cs => let r := execS cfg st c; r.2 :: outS cfg r.1 cs

/-- `N <ax> <data>` | `T <sid>` | `Y <sid>` | `A <sid> <k>` | `D <sid> <epoch tokens>` | `X <id>` | `IA <id> <change>` |
`IT <sid> <route> <change>` | `L <sid> <op> <args>` | `LA <id> <op> <args>` -/
def parseSCmd? (toks : List String) : Option SCmd :=
  match toks with
  | ["N", ax, d] => do let ax ← ax.toNat?; let d ← parseD? d; pure (.seriesOn ax d)
  | ["T", sid] => sid.toNat?.map .readTime
  | ["Y", sid] => sid.toNat?.map .copy
  | ["A", sid, k] => do let sid ← sid.toNat?; let k ← k.toInt?; pure (.arith sid k)
  | "D" :: sid :: e => do
    let sid ← sid.toNat?
    match ← parseEpochs? e with
    | .ok e => pure (.during sid e)
    | .error _ => none
  | ["X", id] => id.toNat?.map .axisCopy
  | "IA" :: id :: ch => do
    let id ← id.toNat?
    match ← parseChange? ch with
    | .uax c => pure (.inplaceAxis id c)
    | _ => none
  | "IT" :: sid :: _route :: ch => do
    let sid ← sid.toNat?
    match ← parseChange? ch with
    | .uax c => pure (.inplaceTime sid c)
    | _ => none
  | "L" :: sid :: op :: rest => sid.toNat?.map fun sid => .look sid op rest
  | "LA" :: id :: op :: rest => id.toNat?.map fun id => .lookAxis id op rest
  | _ => none

/-- the axis object every series holds (`-`: `.time` not read yet) -/
def showIds (st : Store) : String :=
  if st.series.isEmpty then "-" else ",".intercalate (st.series.map fun s => match s.time with
    | some p => toString p
    | none => "-")

/-- `share <axis> | <cmd> | <cmd> …`: a program over a store that starts with one axis object (id 0) -/
def handleShare (toks : List String) : String :=
  match splitAt "|" toks with
  | [a] :: cmds => match parseU? a, cmds.mapM parseSCmd? with
    | some a, some cs =>
      let st0 : Store := { axes := [a], series := [] }
      " ; ".intercalate (outS sIntended st0 cs ++ ["ids " ++ showIds (runS sIntended st0 cs)])
    | _, _ => "bad-op"
  | _ => "bad-op"

/-- one line = one operation, `seq step ; step ; …` (the model is pure, so the answer to a sequence
of lookups is the answer to each step with the arguments as written), `hist …`, or
`derive uaxis <axis> <uadd|usub|ursub> <0-d?> <operand ps>` (arithmetic that makes a NEW object) -/
def handle (args : List String) : String :=
  match args with
  | "seq" :: rest => " ; ".intercalate ((splitSteps rest).map handleOne)
  | "hist" :: kind :: rest => handleHist kind rest
  | "share" :: rest => handleShare rest
  | "derive" :: "uaxis" :: a :: ch => match parseU? a, parseChange? ch with
    | some a, some (.uax c) => match a.derive c with
      | .ok c' => "ok " ++ showCont c'
      | .error e => showErr e
    | _, _ => "bad-op"
  | _ => handleOne args

end Nitime.C03
