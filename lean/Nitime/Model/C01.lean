/-
C01 — model of `nitime.timeseries.TimeArray`: construction, unit handling, operators and
reductions, on exact integer picoseconds (core Lean only).

Follows the source branch by branch:
* `TimeArray.__new__`      → `ctorNums`, `ctorFrom`, `ctorFromList`
* `_convert_if_needed`     → `convertIfNeeded` (bare operands go through the constructor in the
                             time object's own unit; time objects are used as they are)
* `__add__ … __eq__`       → `arith`, `compare` with numpy broadcasting of 0-d / length-1 / equal
                             length operands
* `min/max/sum/ptp`, `convert_unit` → `reduce`, `convertUnit`
-/
import Nitime.Model.F64
import Nitime.Model.Units
import Nitime.Model.Proto
import Nitime.Generated.Units
import Nitime.Generated.C01Ctor
import Nitime.Generated.C01Fail

namespace Nitime.C01
open Nitime

/-- a bare number as the user wrote it: python/numpy integer, or a binary64 value (exact Rat) -/
inductive Num where
  | int (v : Int)
  | flt (x : Rat)
  deriving Repr, DecidableEq

/-- a time object: payload in whole picoseconds, display unit, 0-d flag -/
structure TVal where
  ps : List Int
  unit : TimeUnit
  scalar : Bool
  deriving Repr, DecidableEq

inductive Err where
  | valueError
  deriving Repr, DecidableEq

def factorOpt : Option TimeUnit → Nat
  | some u => Generated.factor u
  | none => Generated.factorNone

/-- `np.asarray` of a list of python numbers: one float makes the whole array float64 -/
def asarray (xs : List Num) : List Num :=
  if xs.any (fun n => match n with | .flt _ => true | .int _ => false) then
    xs.map fun n => match n with
      | .int v => .flt (F64.ofInt v)
      | .flt x => .flt x
  else xs

/-- payload of one bare number read with conversion factor `f`:
integers: `v * f` (int64); floats: `(x * f).round().astype(int64)`, the python-int factor being
converted to binary64 first -/
def toPsF (f : Nat) : Num → Int
  | .int v => v * (f : Int)
  | .flt x => F64.rint (F64.fmul x (F64.ofInt (f : Int)))

def toPs (u : TimeUnit) (n : Num) : Int := toPsF (Generated.factor u) n

/-- `TimeArray(data, time_unit=u)` for bare numbers (`scalar` = 0-d input) -/
def ctorNums (u : Option TimeUnit) (scalar : Bool) (xs : List Num) : TVal :=
  { ps := (asarray xs).map (toPsF (factorOpt u)), unit := u.getD .s, scalar := scalar }

/-- `TimeArray(t, time_unit=u)` for a time object `t`: the payload is copied, the unit is the
requested one, else the source's -/
def ctorFrom (u : Option TimeUnit) (t : TVal) : TVal :=
  { ps := t.ps, unit := u.getD t.unit, scalar := t.scalar }

/-- `TimeArray([t1, t2, …], time_unit=u)` for a non-empty list of time objects: 0-d elements give
a 1-d array; anything else would be 2-d and is refused.  Unit: requested, else the first's. -/
def ctorFromList (u : Option TimeUnit) (ts : List TVal) : Except Err TVal :=
  match ts with
  | [] => .error .valueError
  | t0 :: _ =>
    if ts.all (fun t => t.scalar) then
      .ok { ps := ts.flatMap (fun t => t.ps), unit := u.getD t0.unit, scalar := false }
    else .error .valueError

/-- the right-hand operand of an operator -/
inductive Operand where
  | time (t : TVal)
  | bare (scalar : Bool) (xs : List Num)
  deriving Repr

/-- `_convert_if_needed`: (payload, 0-d?) of the operand, bare numbers read in `self`'s unit -/
def convertIfNeeded (self : TVal) : Operand → List Int × Bool
  | .time t => (t.ps, t.scalar)
  | .bare sc xs => ((ctorNums (some self.unit) sc xs).ps, sc)

/-- numpy broadcasting of two operands that are 0-d or 1-d -/
def broadcast {α} (f : Int → Int → α) (a : List Int) (sa : Bool) (b : List Int) (sb : Bool) :
    Except Err (List α × Bool) :=
  if a.length = b.length then .ok (List.zipWith f a b, sa && sb)
  else match a, b with
    | [x], _ => .ok (b.map (f x), false)
    | _, [y] => .ok (a.map (fun x => f x y), false)
    | _, _ => .error .valueError

inductive ArithOp where | add | sub | radd | rsub deriving Repr, DecidableEq
inductive CmpOp where | lt | le | gt | ge | eq deriving Repr, DecidableEq

def ArithOp.fn : ArithOp → Int → Int → Int
  | .add => (· + ·) | .sub => (· - ·) | .radd => fun a b => b + a | .rsub => fun a b => b - a

def CmpOp.fn : CmpOp → Int → Int → Bool
  | .lt => fun a b => decide (a < b) | .le => fun a b => decide (a ≤ b)
  | .gt => fun a b => decide (a > b) | .ge => fun a b => decide (a ≥ b)
  | .eq => fun a b => decide (a = b)

/-- `self <op> val` for + - r+ r- : the result is a time object in `self`'s unit -/
def arith (op : ArithOp) (self : TVal) (val : Operand) : Except Err TVal :=
  let (b, sb) := convertIfNeeded self val
  match broadcast op.fn self.ps self.scalar b sb with
  | .ok (r, sc) => .ok { ps := r, unit := self.unit, scalar := sc }
  | .error e => .error e

/-- `self <op> val` for < <= > >= == : plain booleans -/
def compare (op : CmpOp) (self : TVal) (val : Operand) : Except Err (List Bool × Bool) :=
  let (b, sb) := convertIfNeeded self val
  broadcast op.fn self.ps self.scalar b sb

inductive RedOp where | min | max | sum | ptp deriving Repr, DecidableEq

def listMin : List Int → Int
  | [] => 0
  | x :: xs => xs.foldl (fun a b => if b < a then b else a) x
def listMax : List Int → Int
  | [] => 0
  | x :: xs => xs.foldl (fun a b => if a < b then b else a) x
def listSum (xs : List Int) : Int := xs.foldl (· + ·) 0

/-- reductions of a non-empty time array: a 0-d time object in the same unit -/
def reduce (op : RedOp) (t : TVal) : Except Err TVal :=
  if t.ps.isEmpty then .error .valueError else
  let v := match op with
    | .min => listMin t.ps
    | .max => listMax t.ps
    | .sum => listSum t.ps
    | .ptp => listMax t.ps - listMin t.ps
  .ok { ps := [v], unit := t.unit, scalar := true }

/-- `convert_unit` only relabels -/
def convertUnit (t : TVal) (u : TimeUnit) : TVal := { t with unit := u }

/-! ### live time objects: the unit LABEL and the conversion FACTOR as two attributes (session 3)

`TimeArray` keeps `time_unit` (what the object says its unit is) and `_conversion_factor` (what bare
numbers are multiplied with in `_convert_if_needed`, and what `__repr__` divides by) as two separate
instance attributes.  Every entry point that makes a time object sets them along one of the GENERATED
paths (`Generated.C01Ctor`); a `Discipline` collects these tables, `Discipline.current` is the one of
the source as it is today. -/
open C01Attr

structure Attrs where
  label : TimeUnit
  fac : Nat
  deriving Repr, DecidableEq

/-- the attributes one path leaves: `req` = value of the unit expression of the call, `inh` = what the
object carried before the explicit assignments (left there by `__array_finalize__`) -/
def applyPath (p : Path) (req : TimeUnit) (inh : Attrs) : Attrs :=
  let label := match p.label with
    | .arg => req
    | .lit s => (TimeUnit.ofString? s).getD inh.label
    | _ => inh.label
  let fac := match p.factor with
    | .tableOfLabel => Generated.factor label
    | _ => inh.fac
  { label := label, fac := fac }

structure Discipline where
  /-- `TimeArray.__new__` per (copy, data is a time object) -/
  new : Bool → Bool → List Path
  /-- `__array_finalize__` per (obj is a time object) -/
  finalize : Bool → List Path
  convert : List Path
  /-- reductions min max sum ptp -/
  red : String → RedKind

def Discipline.current : Discipline :=
  { new := Generated.C01Ctor.timeArrayNew, finalize := Generated.C01Ctor.timeArrayFinalize,
    convert := Generated.C01Ctor.convertUnit, red := Generated.C01Ctor.timeArrayReduction }

/-- the discipline of `UniformTime` objects handed to the same operators (its own `__array_finalize__`;
`convert_unit` and the operators are TimeArray's; min/max are element views, sum is ndarray's) -/
def Discipline.currentUniform : Discipline :=
  { new := Generated.C01Ctor.timeArrayNew, finalize := Generated.C01Ctor.uniformFinalize,
    convert := Generated.C01Ctor.convertUnit, red := Generated.C01Ctor.uniformReduction }

/-- the path taken (the table lists every return path of the cell; the model follows the first) -/
def pick (ps : List Path) : Path := ps.headD ⟨.other, .other⟩

/-- a live time object -/
structure TObj where
  ps : List Int
  scalar : Bool
  attrs : Attrs
  deriving Repr, DecidableEq

def TObj.ofTVal (t : TVal) : TObj := ⟨t.ps, t.scalar, ⟨t.unit, Generated.factor t.unit⟩⟩
def TObj.toTVal (o : TObj) : TVal := ⟨o.ps, o.attrs.label, o.scalar⟩

inductive ViewKind where
  | same                      -- view(TimeArray), copy, copy.copy, deepcopy, asanyarray, astype(int64), ravel of 1-d
  | flat                      -- reshape(-1): a 0-d object becomes 1-d
  | neg
  | item (i : Nat)            -- t[i]
  | slice (a b c : Nat)       -- t[a:b:c], 0 ≤ a ≤ b ≤ len, c ≥ 1
  | fancy (is : List Nat)     -- t[[i, j, …]]
  deriving Repr

def everyNth (c : Nat) : List Int → Nat → List Int
  | [], _ => []
  | x :: xs, k => if k % c = 0 then x :: everyNth c xs (k + 1) else everyNth c xs (k + 1)

def ViewKind.payload : ViewKind → List Int × Bool → List Int × Bool
  | .same, p => p
  | .flat, (ps, _) => (ps, false)
  | .neg, (ps, sc) => (ps.map (fun x => -x), sc)
  | .item i, (ps, _) => ([ps.getD i 0], true)
  | .slice a b c, (ps, _) => (everyNth (max c 1) ((ps.drop a).take (b - a)) 0, false)
  | .fancy is, (ps, _) => (is.map (fun i => ps.getD i 0), false)

inductive Step where
  | wrap (u : Option TimeUnit) (copy : Bool)   -- TimeArray(o, time_unit=u, copy=copy)
  | conv (u : TimeUnit)                        -- o.convert_unit(u)
  | view (k : ViewKind)                        -- anything that goes through __array_finalize__(obj = o)
  | strip                                      -- a view made from a bare ndarray / unpickling: __array_finalize__(no time object)
  | red (r : RedOp)
  | ar (op : ArithOp) (v : Operand)
  deriving Repr

def RedOp.name : RedOp → String
  | .min => "min" | .max => "max" | .sum => "sum" | .ptp => "ptp"

/-- `_convert_if_needed` on a live object: bare numbers are multiplied with the FACTOR attribute -/
def convertIfNeededO (self : TObj) : Operand → List Int × Bool
  | .time t => (t.ps, t.scalar)
  | .bare sc xs => ((asarray xs).map (toPsF self.attrs.fac), sc)

/-- attributes of a new view of `o` -/
def viewAttrs (D : Discipline) (o : TObj) : Attrs := applyPath (pick (D.finalize true)) o.attrs.label o.attrs

def arithO (D : Discipline) (op : ArithOp) (self : TObj) (val : Operand) : Except Err TObj :=
  let (b, sb) := convertIfNeededO self val
  match broadcast op.fn self.ps self.scalar b sb with
  | .ok (r, sc) => .ok { ps := r, scalar := sc, attrs := viewAttrs D self }
  | .error e => .error e

def compareO (op : CmpOp) (self : TObj) (val : Operand) : Except Err (List Bool × Bool) :=
  let (b, sb) := convertIfNeededO self val
  broadcast op.fn self.ps self.scalar b sb

def redValue (op : RedOp) (ps : List Int) : Int :=
  match op with
  | .min => listMin ps
  | .max => listMax ps
  | .sum => listSum ps
  | .ptp => listMax ps - listMin ps

def stepO (D : Discipline) (o : TObj) : Step → Except Err TObj
  | .wrap u copy =>
    .ok { o with attrs := applyPath (pick (D.new copy true)) (u.getD o.attrs.label) o.attrs }
  | .conv u => .ok { o with attrs := applyPath (pick D.convert) u o.attrs }
  | .view k =>
    let (ps, sc) := k.payload (o.ps, o.scalar)
    .ok { ps := ps, scalar := sc, attrs := viewAttrs D o }
  | .strip => .ok { o with attrs := applyPath (pick (D.finalize false)) .s ⟨.s, Generated.factor .s⟩ }
  | .red r =>
    if o.ps.isEmpty then .error .valueError else
    match D.red r.name with
    | .relabel =>
      -- TimeArray(value, time_unit=base_unit) and then convert_unit(self.time_unit)
      .ok { ps := [redValue r o.ps], scalar := true,
            attrs := applyPath (pick D.convert) o.attrs.label (applyPath (pick (D.new true false)) .ps ⟨.ps, 1⟩) }
    | _ => .ok { ps := [redValue r o.ps], scalar := true, attrs := viewAttrs D o }
  | .ar op v => arithO D op o v

/-- every object of a history, oldest first (the history stops at the first refused step) -/
def trace (D : Discipline) (o : TObj) : List Step → List TObj
  | [] => [o]
  | s :: ss => match stepO D o s with
    | .ok o' => o :: trace D o' ss
    | .error _ => [o]

def lastO (D : Discipline) (o : TObj) (ss : List Step) : TObj := (trace D o ss).getLastD o

/-! ### failure paths (round 2, class L7): refused calls and partial updates

A call may be REFUSED (`convert_unit(None)`, `convert_unit('bogus')`, `TimeArray(o, time_unit='bogus')`, an operator
with an operand that does not broadcast, a reduction with an unsupported argument …).  What the refused call leaves
behind on the object is decided by the ORDER of attribute writes and raises in the method body — the generated event
list `Generated.C01Fail.convertUnitEvents` — executed by `execEvents`. -/

/-- classes of values handed over as a unit -/
inductive UnitArg where
  | unit (u : TimeUnit)   -- a unit name
  | none                  -- `None`: a key of the table too (the constructors' "not given"), reads as seconds
  | bogus                 -- not a key: another string, a number, an unhashable object
  deriving Repr, DecidableEq

def UnitArg.isKey : UnitArg → Bool
  | .bogus => false
  | _ => true

/-- the label the object reports after `self.time_unit = <arg>` (`none` = names no unit) -/
def UnitArg.label? : UnitArg → Option TimeUnit
  | .unit u => some u
  | .none => some .s
  | .bogus => Option.none

def UnitArg.factor : UnitArg → Nat
  | .unit u => Generated.factor u
  | .none => Generated.factorNone
  | .bogus => 0

/-- the two attributes as they may be left by a partial update -/
structure RawAttrs where
  label : Option TimeUnit
  fac : Nat
  deriving Repr, DecidableEq

def Attrs.raw (a : Attrs) : RawAttrs := ⟨some a.label, a.fac⟩

def _root_.Nitime.C01Attr.Ev.isWrite : Ev → Bool
  | .writeLabel | .writeFactor => true
  | _ => false

def _root_.Nitime.C01Attr.Ev.canRaise : Ev → Bool
  | .lookup | .raiseIfNone | .raiseIfInvalid | .raiseOther | .unknown => true
  | _ => false

/-- runs the events of one call: (attributes left, raised?) -/
def execEvents : List Ev → UnitArg → RawAttrs → RawAttrs × Bool
  | [], _, st => (st, false)
  | .writeLabel :: es, a, st => execEvents es a { st with label := a.label? }
  | .writeFactor :: es, a, st => execEvents es a { st with fac := a.factor }
  | .lookup :: es, a, st => if a.isKey then execEvents es a st else (st, true)
  | .raiseIfNone :: es, a, st => if a = .none then (st, true) else execEvents es a st
  | .raiseIfInvalid :: es, a, st => if a.isKey then execEvents es a st else (st, true)
  | .raiseOther :: es, a, st => execEvents es a st     -- guard not met by the argument classes above
  | .unknown :: es, a, st => execEvents es a st

def noRaise (es : List Ev) : Bool := es.all (fun e => !e.canRaise)

/-- no attribute is written before something that can still raise -/
def atomic : List Ev → Bool
  | [] => true
  | e :: es => if e.isWrite then noRaise es else (e != Ev.unknown && atomic es)

/-- the failure-path facts of one class of time objects -/
structure FailDiscipline where
  convertEvents : List Ev
  /-- methods that write `self.time_unit` / `self._conversion_factor` -/
  attrWriters : List String
  /-- the constructor assigns to / works in place on its `data` argument -/
  newTouchesArgument : Bool

def FailDiscipline.current : FailDiscipline :=
  { convertEvents := Generated.C01Fail.convertUnitEvents, attrWriters := Generated.C01Fail.timeArrayAttrWriters,
    newTouchesArgument := Generated.C01Fail.timeArrayNewTouchesArgument }

def FailDiscipline.currentUniform : FailDiscipline :=
  { FailDiscipline.current with attrWriters := Generated.C01Fail.uniformAttrWriters }

/-- calls made with something that is not an ordinary, accepted argument -/
inductive BadStep where
  | conv (a : UnitArg)     -- `o.convert_unit(None | 'bogus' | 5 | [])`
  | wrap (a : UnitArg)     -- `TimeArray(o, time_unit='bogus')`: the constructor's first statement refuses
  | call (m : String)      -- method `m` with an argument it refuses (operand of another length, a string, `axis=…`, a key outside)
  deriving Repr

inductive HStep where
  | ok (s : Step)
  | bad (b : BadStep)
  deriving Repr

/-- outcome of a call on `o`: the attributes left ON `o`, whether it raised, and what the history goes on with -/
structure XOut where
  raw : RawAttrs
  refused : Bool
  next : Option TObj     -- `none`: the label of `o` names no unit any more (nothing further is modelled)
  deriving Repr

def RawAttrs.attrs? (r : RawAttrs) : Option Attrs := r.label.map fun l => ⟨l, r.fac⟩

def stepBad (D : Discipline) (F : FailDiscipline) (o : TObj) : BadStep → XOut
  | .conv a =>
    let (r, raised) := execEvents F.convertEvents a o.attrs.raw
    if raised then { raw := r, refused := true, next := r.attrs?.map fun at' => { o with attrs := at' } }
    else match a.label? with
      | some u => { raw := r, refused := false, next := (stepO D o (.conv u)).toOption }
      | none => { raw := r, refused := false, next := Option.none }
  | .wrap a =>
    -- `if time_unit not in time_unit_conversion: raise` is the first statement; the source object is an argument
    if a.isKey || F.newTouchesArgument then { raw := ⟨Option.none, 0⟩, refused := !a.isKey, next := Option.none }
    else { raw := o.attrs.raw, refused := true, next := some o }
  | .call m =>
    if F.attrWriters.contains m then { raw := ⟨Option.none, 0⟩, refused := true, next := Option.none }
    else { raw := o.attrs.raw, refused := true, next := some o }

/-- every object of a history with refused calls in it; after a refused call the object it was applied to is listed
again, as the call left it -/
def traceX (D : Discipline) (F : FailDiscipline) (o : TObj) : List HStep → List TObj
  | [] => [o]
  | .ok s :: hs => match stepO D o s with
    | .ok o' => o :: traceX D F o' hs
    | .error _ => [o]
  | .bad b :: hs => match (stepBad D F o b).next with
    | some o' => o :: traceX D F o' hs
    | Option.none => [o]

/-- the accepted calls of a history: refused ones dropped, an accepted `convert_unit(None)` is `convert_unit('s')` -/
def HStep.accepted? (F : FailDiscipline) : HStep → Option Step
  | .ok s => some s
  | .bad (.conv a) => if (execEvents F.convertEvents a ⟨Option.none, 0⟩).2 then Option.none else a.label?.map Step.conv
  | .bad _ => Option.none

/-! ### the `copy` flag as the caller wrote it (round 4, class "L3 sharper")

`TimeArray.__new__` tests `copy` with ONE comparison whose form (`== False`, truthiness, `is None` …) is GENERATED from the
source (`Generated.C01Ctor.copyTest`).  The caller may hand over any value class (`FlagVal`: `None`, `0`, `0.0`, `''`, `[]`,
`np.False_`, `1`, `'False'`, …).  When the test holds the NO-COPY branch is taken: data that are not an int64 array (or a
time object) are refused, int64 data are taken AS BASE UNITS (picoseconds), unscaled; otherwise the data are converted
(`ctorNums`).  Either way the label is the requested unit and the factor that of the label (constructor path). -/

/-- what the constructor is given: bare numbers (`int64` = an ndarray / numpy scalar of dtype int64) or a time object -/
inductive CtorData where
  | nums (int64 : Bool) (scalar : Bool) (xs : List Num)
  | time (t : TVal)
  deriving Repr

def Num.raw : Num → Int
  | .int v => v
  | .flt x => F64.rint x

/-- `TimeArray(data, time_unit=u, copy=<v>)` under the flag test `form` -/
def ctorFlag (form : FlagForm) (copy : FlagVal) (u : Option TimeUnit) : CtorData → Except Err TObj
  | .time t => .ok (TObj.ofTVal (ctorFrom u t))          -- a time object is in base units already; both branches keep the instant
  | .nums int64 scalar xs =>
    if form.holds copy then
      if int64 then .ok (TObj.ofTVal { ps := xs.map Num.raw, unit := u.getD .s, scalar := scalar })
      else .error .valueError
    else .ok (TObj.ofTVal (ctorNums u scalar xs))

/-- today's source -/
def ctorFlagCurrent := ctorFlag Generated.C01Ctor.copyTest

def parseFlagVal? : String → Option FlagVal
  | "none" => some .pyNone | "false" => some .pyFalse | "true" => some .pyTrue | "int0" => some .int0
  | "float0" => some .float0 | "estr" => some .emptyStr | "elist" => some .emptyList | "npfalse" => some .npFalse
  | "npbool0" => some .npFalse | "nptrue" => some .npTrue | "int1" => some .int1 | "strfalse" => some .strFalse
  | _ => none

/-- how ONE test reads a flag value: "the parameter was given" (a value to use / the option switched on) or not -/
def testSaysGiven (f : FlagForm) (v : FlagVal) : Bool :=
  match f with
  | .isNone | .notTruthy | .eqFalse | .isFalse | .neTrue => !f.holds v
  | _ => f.holds v

/-- how the source reads the value `v` handed to parameter `param` of `fn`: `some true` = given, `some false` = as if it were
`None` / left out, `none` = the tests of that parameter DISAGREE about `v` (one reads it as given, another as not given) or the
parameter is not tested at all.  From the GENERATED table. -/
def paramGivenIn (tests : List FlagTest) (fn param : String) (v : FlagVal) : Option Bool :=
  match (tests.filter fun t => t.fn == fn && t.param == param).map (fun t => testSaysGiven t.form v) with
  | [] => none
  | b :: bs => if bs.all (· == b) then some b else none

def paramGiven := paramGivenIn Generated.C01Ctor.flagTests

/-! ### line protocol -/
open Proto

def parseUnitOpt? (s : String) : Option (Option TimeUnit) :=
  if s = "none" then some none else (TimeUnit.ofString? s).map some

def parseNum? (s : String) : Option Num :=
  if s.startsWith "i" then ((s.drop 1).toString.toInt?).map .int
  else if s.startsWith "x" then (parseHex? (s.drop 1).toString).map fun n => .flt (F64.ofBits n)
  else none

def parseNums? (s : String) : Option (List Num) := (splitList s).mapM parseNum?

/-- `T:<unit>:<0|1>:<ps list>` -/
def parseT? (s : String) : Option TVal :=
  match s.splitOn ":" with
  | ["T", u, sc, ps] => do
    let u ← TimeUnit.ofString? u
    let ps ← parseIntList? ps
    pure { ps := ps, unit := u, scalar := sc = "1" }
  | _ => none

def showT (t : TVal) : String :=
  s!"T:{t.unit.name}:{if t.scalar then "1" else "0"}:{showIntList t.ps}"

/-- `T:…` or `N:<0|1>:<nums>` -/
def parseOperand? (s : String) : Option Operand :=
  match s.splitOn ":" with
  | ["N", sc, xs] => (parseNums? xs).map (Operand.bare (sc = "1"))
  | _ => (parseT? s).map .time

def parseArith? : String → Option ArithOp
  | "add" => some .add | "sub" => some .sub | "radd" => some .radd | "rsub" => some .rsub | _ => none
def parseCmp? : String → Option CmpOp
  | "lt" => some .lt | "le" => some .le | "gt" => some .gt | "ge" => some .ge | "eq" => some .eq | _ => none
def parseRed? : String → Option RedOp
  | "min" => some .min | "max" => some .max | "sum" => some .sum | "ptp" => some .ptp | _ => none

/-- one step of a history: `wrap=<unit|none>=<copy 0|1>`, `conv=<unit>`, `same`, `flat`, `neg`, `item=<i>`,
`slice=<a>=<b>=<c>`, `fancy=<i,j,…>`, `strip`, `red=<min|max|sum|ptp>`, `ar=<add|sub|radd|rsub>=<operand>` -/
def parseStep? (s : String) : Option Step :=
  match s.splitOn "=" with
  | ["wrap", u, c] => (parseUnitOpt? u).map fun u => .wrap u (c = "1")
  | ["conv", u] => (TimeUnit.ofString? u).map .conv
  | ["same"] => some (.view .same)
  | ["flat"] => some (.view .flat)
  | ["neg"] => some (.view .neg)
  | ["item", i] => i.toNat?.map fun i => .view (.item i)
  | ["slice", a, b, c] => match a.toNat?, b.toNat?, c.toNat? with
    | some a, some b, some c => some (.view (.slice a b c))
    | _, _, _ => none
  | ["fancy", is] => (parseNatList? is).map fun is => .view (.fancy is)
  | ["strip"] => some .strip
  | ["red", r] => (parseRed? r).map .red
  | ["ar", op, v] => match parseArith? op, parseOperand? v with
    | some op, some v => some (.ar op v)
    | _, _ => none
  | _ => none

def parseSteps? (s : String) : Option (List Step) :=
  if s = "-" then some [] else (s.splitOn ";").mapM parseStep?

/-- `T:<label>:<0|1>:<ps>~<factor>` -/
def showO (o : TObj) : String := showT o.toTVal ++ "~" ++ toString o.attrs.fac

def parseUnitArg? (s : String) : Option UnitArg :=
  if s = "none" then some .none else if s = "bogus" then some .bogus else (TimeUnit.ofString? s).map .unit

/-- a step, or `bad=conv=<none|bogus|unit>`, `bad=wrap=<bogus>`, `bad=call=<method>` -/
def parseHStep? (s : String) : Option HStep :=
  match s.splitOn "=" with
  | ["bad", "conv", a] => (parseUnitArg? a).map fun a => .bad (.conv a)
  | ["bad", "wrap", a] => (parseUnitArg? a).map fun a => .bad (.wrap a)
  | ["bad", "call", m] => some (.bad (.call m))
  | _ => (parseStep? s).map .ok

def parseHSteps? (s : String) : Option (List HStep) :=
  if s = "-" then some [] else (s.splitOn ";").mapM parseHStep?

def showRaw (o : TObj) (r : RawAttrs) : String :=
  match r.label with
  | some l => showO { o with attrs := ⟨l, r.fac⟩ }
  | Option.none => s!"T:?:{if o.scalar then "1" else "0"}:{showIntList o.ps}~{r.fac}"

/-- the printed objects of `traceX` (same recursion), and the object the final operator is applied to -/
def runX (D : Discipline) (F : FailDiscipline) (o : TObj) : List HStep → List String × Option TObj
  | [] => ([showO o], some o)
  | .ok s :: hs => match stepO D o s with
    | .ok o' => let (l, f) := runX D F o' hs; (showO o :: l, f)
    | .error _ => ([showO o, "err-step"], Option.none)
  | .bad b :: hs =>
    let out := stepBad D F o b
    match out.next with
    | some o' => let (l, f) := runX D F o' hs; (showO o :: l, f)
    | Option.none => ([showO o, showRaw o out.raw], Option.none)

/-- a history on one live object (refused calls included) and a final operator with `val`: every object made on the
way — after a refused call the object it was applied to again — then the result -/
def histLine (D : Discipline) (F : FailDiscipline) (src : TVal) (steps : List HStep) (op : String) (val : Operand) : String :=
  let (tr, last) := runX D F (TObj.ofTVal src) steps
  let fin := match last with
    | Option.none => "not-run"
    | some o => match parseArith? op, parseCmp? op with
      | some a, _ => (match arithO D a o val with
        | .ok r => "ok " ++ showO r
        | .error _ => "err ValueError")
      | Option.none, some c => (match compareO c o val with
        | .ok (bs, sc) => s!"ok B:{if sc then "1" else "0"}:{showBoolList bs}"
        | .error _ => "err ValueError")
      | Option.none, Option.none => "bad-op"
  "ok " ++ "|".intercalate tr ++ " # " ++ fin

def showExceptT : Except Err TVal → String
  | .ok t => "ok " ++ showT t
  | .error _ => "err ValueError"

def handle (args : List String) : String :=
  match args with
  | ["f64mul", a, b] => match parseHex? a, parseHex? b with
    | some a, some b => "ok " ++ hex64 (F64.toBits (F64.fmul (F64.ofBits a) (F64.ofBits b)))
    | _, _ => "bad-op"
  | ["f64div", a, b] => match parseHex? a, parseHex? b with
    | some a, some b => "ok " ++ hex64 (F64.toBits (F64.fdiv (F64.ofBits a) (F64.ofBits b)))
    | _, _ => "bad-op"
  | ["f64add", a, b] => match parseHex? a, parseHex? b with
    | some a, some b => "ok " ++ hex64 (F64.toBits (F64.fadd (F64.ofBits a) (F64.ofBits b)))
    | _, _ => "bad-op"
  | ["f64rint", a] => match parseHex? a with
    | some a => "ok " ++ toString (F64.rint (F64.ofBits a))
    | _ => "bad-op"
  | ["f64ofint", a] => match a.toInt? with
    | some a => "ok " ++ hex64 (F64.toBits (F64.ofInt a))
    | _ => "bad-op"
  | ["ctor", u, sc, xs] => match parseUnitOpt? u, parseNums? xs with
    | some u, some xs => "ok " ++ showT (ctorNums u (sc = "1") xs)
    | _, _ => "bad-op"
  | ["ctorflag", fl, u, dt, sc, xs] => match parseFlagVal? fl, parseUnitOpt? u, parseNums? xs with
    | some fl, some u, some xs => match ctorFlagCurrent fl u (.nums (dt = "int64") (sc = "1") xs) with
      | .ok o => "ok " ++ showO o
      | .error _ => "err ValueError"
    | _, _, _ => "bad-op"
  | ["ctorflagfrom", fl, u, t] => match parseFlagVal? fl, parseUnitOpt? u, parseT? t with
    | some fl, some u, some t => match ctorFlagCurrent fl u (.time t) with
      | .ok o => "ok " ++ showO o
      | .error _ => "err ValueError"
    | _, _, _ => "bad-op"
  | ["flagarg", fn, param, fl] => match parseFlagVal? fl with
    | some v => match paramGiven fn param v with
      | some true => "ok given"
      | some false => "ok notgiven"
      | none => "ok inconsistent"
    | none => "bad-op"
  | ["ctorfrom", u, t] => match parseUnitOpt? u, parseT? t with
    | some u, some t => "ok " ++ showT (ctorFrom u t)
    | _, _ => "bad-op"
  | "ctorlist" :: u :: ts => match parseUnitOpt? u, ts.mapM parseT? with
    | some u, some ts => showExceptT (ctorFromList u ts)
    | _, _ => "bad-op"
  | ["binop", op, t, v] => match parseT? t, parseOperand? v with
    | some t, some v =>
      let ar (o : ArithOp) := showExceptT (arith o t v)
      let cm (o : CmpOp) := match compare o t v with
        | .ok (bs, sc) => s!"ok B:{if sc then "1" else "0"}:{showBoolList bs}"
        | .error _ => "err ValueError"
      match op with
      | "add" => ar .add | "sub" => ar .sub | "radd" => ar .radd | "rsub" => ar .rsub
      | "lt" => cm .lt | "le" => cm .le | "gt" => cm .gt | "ge" => cm .ge | "eq" => cm .eq
      | _ => "bad-op"
    | _, _ => "bad-op"
  | ["reduce", op, t] => match parseT? t with
    | some t =>
      let r (o : RedOp) := showExceptT (reduce o t)
      match op with
      | "min" => r .min | "max" => r .max | "sum" => r .sum | "ptp" => r .ptp
      | _ => "bad-op"
    | none => "bad-op"
  | ["hist", cls, t, steps, op, v] => match parseT? t, parseHSteps? steps, parseOperand? v with
    | some t, some ss, some v =>
      histLine (if cls = "U" then Discipline.currentUniform else Discipline.current)
        (if cls = "U" then FailDiscipline.currentUniform else FailDiscipline.current) t ss op v
    | _, _, _ => "bad-op"
  | ["convert", t, u] => match parseT? t, TimeUnit.ofString? u with
    | some t, some u => "ok " ++ showT (convertUnit t u)
    | _, _ => "bad-op"
  | _ => "bad-op"

end Nitime.C01
