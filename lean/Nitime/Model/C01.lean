/-
C01 — model of `nitime.timeseries.TimeArray`: construction, unit handling, operators and
reductions, on exact integer picoseconds (core Lean only).

Follows the source branch by branch:
* `TimeArray.__new__`      → `ctorNums`, `ctorFrom`, `ctorFromList`
* `_convert_if_needed`     → `convertIfNeeded` (bare operands go through the constructor in the
                             time object's own unit; time objects are used as they are)
* `__add__ … __eq__`       → `arith`, `compare` with numpy broadcasting of 0-d / length-1 / equal
                             length operands
* `min/max/sum/ptp`, `convert_unit` → `reduce`, `convertUnit`
-/
import Nitime.Model.F64
import Nitime.Model.Units
import Nitime.Model.Proto
import Nitime.Generated.Units

namespace Nitime.C01
open Nitime

/-- a bare number as the user wrote it: python/numpy integer, or a binary64 value (exact Rat) -/
inductive Num where
  | int (v : Int)
  | flt (x : Rat)
  deriving Repr, DecidableEq

/-- a time object: payload in whole picoseconds, display unit, 0-d flag -/
structure TVal where
  ps : List Int
  unit : TimeUnit
  scalar : Bool
  deriving Repr, DecidableEq

inductive Err where
  | valueError
  deriving Repr, DecidableEq

def factorOpt : Option TimeUnit → Nat
  | some u => Generated.factor u
  | none => Generated.factorNone

/-- `np.asarray` of a list of python numbers: one float makes the whole array float64 -/
def asarray (xs : List Num) : List Num :=
  if xs.any (fun n => match n with | .flt _ => true | .int _ => false) then
    xs.map fun n => match n with
      | .int v => .flt (F64.ofInt v)
      | .flt x => .flt x
  else xs

/-- payload of one bare number read with conversion factor `f`:
integers: `v * f` (int64); floats: `(x * f).round().astype(int64)`, the python-int factor being
converted to binary64 first -/
def toPsF (f : Nat) : Num → Int
  | .int v => v * (f : Int)
  | .flt x => F64.rint (F64.fmul x (F64.ofInt (f : Int)))

def toPs (u : TimeUnit) (n : Num) : Int := toPsF (Generated.factor u) n

/-- `TimeArray(data, time_unit=u)` for bare numbers (`scalar` = 0-d input) -/
def ctorNums (u : Option TimeUnit) (scalar : Bool) (xs : List Num) : TVal :=
  { ps := (asarray xs).map (toPsF (factorOpt u)), unit := u.getD .s, scalar := scalar }

/-- `TimeArray(t, time_unit=u)` for a time object `t`: the payload is copied, the unit is the
requested one, else the source's -/
def ctorFrom (u : Option TimeUnit) (t : TVal) : TVal :=
  { ps := t.ps, unit := u.getD t.unit, scalar := t.scalar }

/-- `TimeArray([t1, t2, …], time_unit=u)` for a non-empty list of time objects: 0-d elements give
a 1-d array; anything else would be 2-d and is refused.  Unit: requested, else the first's. -/
def ctorFromList (u : Option TimeUnit) (ts : List TVal) : Except Err TVal :=
  match ts with
  | [] => .error .valueError
  | t0 :: _ =>
    if ts.all (fun t => t.scalar) then
      .ok { ps := ts.flatMap (fun t => t.ps), unit := u.getD t0.unit, scalar := false }
    else .error .valueError

/-- the right-hand operand of an operator -/
inductive Operand where
  | time (t : TVal)
  | bare (scalar : Bool) (xs : List Num)
  deriving Repr

/-- `_convert_if_needed`: (payload, 0-d?) of the operand, bare numbers read in `self`'s unit -/
def convertIfNeeded (self : TVal) : Operand → List Int × Bool
  | .time t => (t.ps, t.scalar)
  | .bare sc xs => ((ctorNums (some self.unit) sc xs).ps, sc)

/-- numpy broadcasting of two operands that are 0-d or 1-d -/
def broadcast {α} (f : Int → Int → α) (a : List Int) (sa : Bool) (b : List Int) (sb : Bool) :
    Except Err (List α × Bool) :=
  if a.length = b.length then .ok (List.zipWith f a b, sa && sb)
  else match a, b with
    | [x], _ => .ok (b.map (f x), false)
    | _, [y] => .ok (a.map (fun x => f x y), false)
    | _, _ => .error .valueError

inductive ArithOp where | add | sub | radd | rsub deriving Repr, DecidableEq
inductive CmpOp where | lt | le | gt | ge | eq deriving Repr, DecidableEq

def ArithOp.fn : ArithOp → Int → Int → Int
  | .add => (· + ·) | .sub => (· - ·) | .radd => fun a b => b + a | .rsub => fun a b => b - a

def CmpOp.fn : CmpOp → Int → Int → Bool
  | .lt => fun a b => decide (a < b) | .le => fun a b => decide (a ≤ b)
  | .gt => fun a b => decide (a > b) | .ge => fun a b => decide (a ≥ b)
  | .eq => fun a b => decide (a = b)

/-- `self <op> val` for + - r+ r- : the result is a time object in `self`'s unit -/
def arith (op : ArithOp) (self : TVal) (val : Operand) : Except Err TVal :=
  let (b, sb) := convertIfNeeded self val
  match broadcast op.fn self.ps self.scalar b sb with
  | .ok (r, sc) => .ok { ps := r, unit := self.unit, scalar := sc }
  | .error e => .error e

/-- `self <op> val` for < <= > >= == : plain booleans -/
def compare (op : CmpOp) (self : TVal) (val : Operand) : Except Err (List Bool × Bool) :=
  let (b, sb) := convertIfNeeded self val
  broadcast op.fn self.ps self.scalar b sb

inductive RedOp where | min | max | sum | ptp deriving Repr, DecidableEq

def listMin : List Int → Int
  | [] => 0
  | x :: xs => xs.foldl (fun a b => if b < a then b else a) x
def listMax : List Int → Int
  | [] => 0
  | x :: xs => xs.foldl (fun a b => if a < b then b else a) x
def listSum (xs : List Int) : Int := xs.foldl (· + ·) 0

/-- reductions of a non-empty time array: a 0-d time object in the same unit -/
def reduce (op : RedOp) (t : TVal) : Except Err TVal :=
  if t.ps.isEmpty then .error .valueError else
  let v := match op with
    | .min => listMin t.ps
    | .max => listMax t.ps
    | .sum => listSum t.ps
    | .ptp => listMax t.ps - listMin t.ps
  .ok { ps := [v], unit := t.unit, scalar := true }

/-- `convert_unit` only relabels -/
def convertUnit (t : TVal) (u : TimeUnit) : TVal := { t with unit := u }

/-! ### line protocol -/
open Proto

def parseUnitOpt? (s : String) : Option (Option TimeUnit) :=
  if s = "none" then some none else (TimeUnit.ofString? s).map some

def parseNum? (s : String) : Option Num :=
  if s.startsWith "i" then ((s.drop 1).toString.toInt?).map .int
  else if s.startsWith "x" then (parseHex? (s.drop 1).toString).map fun n => .flt (F64.ofBits n)
  else none

def parseNums? (s : String) : Option (List Num) := (splitList s).mapM parseNum?

/-- `T:<unit>:<0|1>:<ps list>` -/
def parseT? (s : String) : Option TVal :=
  match s.splitOn ":" with
  | ["T", u, sc, ps] => do
    let u ← TimeUnit.ofString? u
    let ps ← parseIntList? ps
    pure { ps := ps, unit := u, scalar := sc = "1" }
  | _ => none

def showT (t : TVal) : String :=
  s!"T:{t.unit.name}:{if t.scalar then "1" else "0"}:{showIntList t.ps}"

/-- `T:…` or `N:<0|1>:<nums>` -/
def parseOperand? (s : String) : Option Operand :=
  match s.splitOn ":" with
  | ["N", sc, xs] => (parseNums? xs).map (Operand.bare (sc = "1"))
  | _ => (parseT? s).map .time

def showExceptT : Except Err TVal → String
  | .ok t => "ok " ++ showT t
  | .error _ => "err ValueError"

def handle (args : List String) : String :=
  match args with
  | ["f64mul", a, b] => match parseHex? a, parseHex? b with
    | some a, some b => "ok " ++ hex64 (F64.toBits (F64.fmul (F64.ofBits a) (F64.ofBits b)))
    | _, _ => "bad-op"
  | ["f64div", a, b] => match parseHex? a, parseHex? b with
    | some a, some b => "ok " ++ hex64 (F64.toBits (F64.fdiv (F64.ofBits a) (F64.ofBits b)))
    | _, _ => "bad-op"
  | ["f64add", a, b] => match parseHex? a, parseHex? b with
    | some a, some b => "ok " ++ hex64 (F64.toBits (F64.fadd (F64.ofBits a) (F64.ofBits b)))
    | _, _ => "bad-op"
  | ["f64rint", a] => match parseHex? a with
    | some a => "ok " ++ toString (F64.rint (F64.ofBits a))
    | _ => "bad-op"
  | ["f64ofint", a] => match a.toInt? with
    | some a => "ok " ++ hex64 (F64.toBits (F64.ofInt a))
    | _ => "bad-op"
  | ["ctor", u, sc, xs] => match parseUnitOpt? u, parseNums? xs with
    | some u, some xs => "ok " ++ showT (ctorNums u (sc = "1") xs)
    | _, _ => "bad-op"
  | ["ctorfrom", u, t] => match parseUnitOpt? u, parseT? t with
    | some u, some t => "ok " ++ showT (ctorFrom u t)
    | _, _ => "bad-op"
  | "ctorlist" :: u :: ts => match parseUnitOpt? u, ts.mapM parseT? with
    | some u, some ts => showExceptT (ctorFromList u ts)
    | _, _ => "bad-op"
  | ["binop", op, t, v] => match parseT? t, parseOperand? v with
    | some t, some v =>
      let ar (o : ArithOp) := showExceptT (arith o t v)
      let cm (o : CmpOp) := match compare o t v with
        | .ok (bs, sc) => s!"ok B:{if sc then "1" else "0"}:{showBoolList bs}"
        | .error _ => "err ValueError"
      match op with
      | "add" => ar .add | "sub" => ar .sub | "radd" => ar .radd | "rsub" => ar .rsub
      | "lt" => cm .lt | "le" => cm .le | "gt" => cm .gt | "ge" => cm .ge | "eq" => cm .eq
      | _ => "bad-op"
    | _, _ => "bad-op"
  | ["reduce", op, t] => match parseT? t with
    | some t =>
      let r (o : RedOp) := showExceptT (reduce o t)
      match op with
      | "min" => r .min | "max" => r .max | "sum" => r .sum | "ptp" => r .ptp
      | _ => "bad-op"
    | none => "bad-op"
  | ["convert", t, u] => match parseT? t, TimeUnit.ofString? u with
    | some t, some u => "ok " ++ showT (convertUnit t u)
    | _, _ => "bad-op"
  | _ => "bad-op"

end Nitime.C01
