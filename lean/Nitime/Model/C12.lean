/-
C12 — executable model of the bivariate Granger-causality spectra
(`nitime/algorithms/autoregressive.py`: transfer_function_xy, spectral_matrix_xy,
coherence_from_spectral, interdependence_xy, granger_causality_xy; `nitime/analysis/granger.py`:
GrangerAnalyzer._dict2arr and the default `ij` list; the analyzer as an object re-targeted with
`set_input`: `Model/GrangerObj.lean`, op `anaseq`).  Core Lean only.

Everything numerical is written once over `Scalar K`, per frequency bin (the numpy code is the
same expression applied element-wise along the frequency axis); the driver runs `K = CF`,
`Props/C12.lean` proves the identities for `K = ℂ`.  The functions emit the *ratios*; the
logarithm is applied by the instance (`Float.log` in the driver, `Real.log` in the theorems).

`freq_response(b, n_freqs)` = `freqz(b, 1, worN = n_freqs//2+1, whole=False)` = the polynomial
`Σ_j b_j z^j` at `z = exp(-1j·π k/n)` (`polyEval`, shared with C10).
-/
import Nitime.Model.ARBase
import Nitime.Model.GrangerObj
import Nitime.Generated.FreqResponse

namespace Nitime.C12
open Nitime.AR Nitime.AR.Scalar Nitime.Proto

variable {K : Type} [Scalar K]

/-- a 2×2 array -/
structure M2 (K : Type) where
  m00 : K
  m01 : K
  m10 : K
  m11 : K

/-- the four coefficient sequences `a[:,0,0]`, `a[:,0,1]`, `a[:,1,0]`, `a[:,1,1]` -/
structure Coefs (K : Type) where
  c00 : List K
  c01 : List K
  c10 : List K
  c11 : List K

/-- `A(w)`: `aw, bw, cw, dw` of `transfer_function_xy` (`np.r_[1, a[:,0,0]]`, `np.r_[0, a[:,0,1]]`, …) -/
def polyA (c : Coefs K) (z : K) : M2 K :=
  ⟨polyEval (one :: c.c00) z, polyEval (zero :: c.c01) z,
   polyEval (zero :: c.c10) z, polyEval (one :: c.c11) z⟩

/-- `Hw = [[dw, -bw], [-cw, aw]] / detA` -/
def transferOfA (A : M2 K) : M2 K :=
  let detA := A.m00 *. A.m11 -. A.m01 *. A.m10
  ⟨A.m11 /. detA, neg A.m01 /. detA, neg A.m10 /. detA, A.m00 /. detA⟩

def transferAt (c : Coefs K) (z : K) : M2 K := transferOfA (polyA c z)

/-- `spectral_matrix_xy(Hw, cov)` at one frequency -/
def spectralAt (H cov : M2 K) : M2 K :=
  let t00 := cov.m00 *. conj H.m00 +. cov.m01 *. conj H.m01
  let t01 := cov.m00 *. conj H.m10 +. cov.m01 *. conj H.m11
  let t10 := cov.m10 *. conj H.m00 +. cov.m11 *. conj H.m01
  let t11 := cov.m10 *. conj H.m10 +. cov.m11 *. conj H.m11
  ⟨H.m00 *. t00 +. H.m01 *. t10, H.m00 *. t01 +. H.m01 *. t11,
   H.m10 *. t00 +. H.m11 *. t10, H.m10 *. t01 +. H.m11 *. t11⟩

/-- `coherence_from_spectral(Sw)` at one frequency -/
def coherenceAt (S : M2 K) : K := re (S.m01 *. S.m10) /. re S.m00 /. re S.m11

/-- the argument of the logarithm in `interdependence_xy`: `1 - Cw` (the result is `-log` of it) -/
def interdepArgAt (S : M2 K) : K := one -. coherenceAt S

/-- result of `granger_causality_xy` at one frequency, before the logarithms -/
structure GC (K : Type) where
  rX2Y : K     -- f_x_on_y = log rX2Y
  rY2X : K     -- f_y_on_x = log rY2X
  rXY : K      -- f_xy = log rXY
  S : M2 K     -- [[Sxx, Sxy], [Syx, Syy]]
  xxAuto : K
  yyAuto : K

def grangerAt (H cov : M2 K) : GC K :=
  let sigma := cov.m00
  let upsilon := cov.m01
  let gamma := cov.m11
  let gamma2 := gamma -. upsilon *. upsilon /. sigma
  let Hxy := H.m01
  let HxxHat := H.m00 +. (upsilon /. sigma) *. Hxy
  let xxAuto := re (sigma *. HxxHat *. conj HxxHat)
  let cross := gamma2 *. Hxy *. conj Hxy
  let Sxx := xxAuto +. cross
  let rY2X := re Sxx /. xxAuto
  let sigma2 := sigma -. upsilon *. upsilon /. gamma
  let Hyx := H.m10
  let HyyHat := H.m11 +. (upsilon /. gamma) *. Hyx
  let yyAuto := re (gamma *. HyyHat *. conj HyyHat)
  let cross2 := sigma2 *. Hyx *. conj Hyx
  let Syy := yyAuto +. cross2
  let rX2Y := re Syy /. yyAuto
  let Hxx := H.m00
  let HxyHat := H.m01 +. (upsilon /. gamma) *. Hxx
  let Sxy := sigma2 *. Hxx *. conj Hyx +. gamma *. HxyHat *. conj HyyHat
  let Syx := sigma2 *. Hyx *. conj Hxx +. gamma *. HyyHat *. conj HxyHat
  let detS := re (Sxx *. Syy -. Sxy *. Syx)
  let rXY := xxAuto *. yyAuto /. detS
  ⟨rX2Y, rY2X, rXY, ⟨Sxx, Sxy, Syx, Syy⟩, xxAuto, yyAuto⟩

/-- relabelling the two channels -/
def M2.swap (m : M2 K) : M2 K := ⟨m.m11, m.m10, m.m01, m.m00⟩
def Coefs.swap (c : Coefs K) : Coefs K := ⟨c.c11, c.c10, c.c01, c.c00⟩

/-! ### the four responses as OBJECTS (two of the four names may be bound to one array)

`transfer_function_xy` calls `freq_response` four times and binds the results to `aw, bw, cw, dw`.  Nothing in its
contract says that these are four DISTINCT arrays: whatever evaluates a polynomial may hand the same array out for
coefficient rows that coincide (reciprocal coupling `a[:,0,1] == a[:,1,0]`, equal diagonal polynomials, both
couplings absent).  The store below holds one value per object (at one frequency); `Roles` says which object each
name is bound to.  Today's code only READS the objects (`np.array([[aw, bw], [cw, dw]])`, `[[dw, -bw], [-cw, aw]]`
allocate): `transferShared`.  `transferSharedInplace` is the discipline "flip the off-diagonal signs in place". -/

/-- which object each of the names `aw, bw, cw, dw` is bound to (object `i` = the array evaluated from polynomial `i`) -/
structure Roles where
  ra : Nat
  rb : Nat
  rc : Nat
  rd : Nat

/-- the coefficient row polynomial `i` is evaluated from: `np.r_[1, a[:,0,0]]`, `np.r_[0, a[:,0,1]]`, `np.r_[0, a[:,1,0]]`,
`np.r_[1, a[:,1,1]]` -/
def polyOf (c : Coefs K) : Nat → List K
  | 0 => one :: c.c00
  | 1 => zero :: c.c01
  | 2 => zero :: c.c10
  | _ => one :: c.c11

/-- the store at one frequency: object `i` holds polynomial `i` at `z` -/
def storeOf (c : Coefs K) (z : K) : List K := (List.range 4).map fun i => polyEval (polyOf c i) z

def obj (s : List K) (i : Nat) : K := s.getD i zero

/-- today's `transfer_function_xy` on a store: reads only -/
def transferShared (r : Roles) (s : List K) : M2 K :=
  transferOfA ⟨obj s r.ra, obj s r.rb, obj s r.rc, obj s r.rd⟩

/-- `np.negative(x, out=x)` on object `i` -/
def negateObj (s : List K) (i : Nat) : List K := s.set i (neg (obj s i))

/-- the in-place discipline: `detA = aw*dw - bw*cw; np.negative(bw, out=bw); np.negative(cw, out=cw);
Hw = np.array([[dw, bw], [cw, aw]]) / detA` -/
def transferSharedInplace (r : Roles) (s : List K) : M2 K :=
  let detA := obj s r.ra *. obj s r.rd -. obj s r.rb *. obj s r.rc
  let s2 := negateObj (negateObj s r.rb) r.rc
  ⟨obj s2 r.rd /. detA, obj s2 r.rb /. detA, obj s2 r.rc /. detA, obj s2 r.ra /. detA⟩

/-- a binding a coefficient-keyed memo can produce: every name is bound to an object evaluated from a coefficient row
EQUAL to its own -/
def Roles.Valid (r : Roles) (c : Coefs K) : Prop :=
  (r.ra < 4 ∧ r.rb < 4 ∧ r.rc < 4 ∧ r.rd < 4) ∧
  polyOf c r.ra = polyOf c 0 ∧ polyOf c r.rb = polyOf c 1 ∧ polyOf c r.rc = polyOf c 2 ∧ polyOf c r.rd = polyOf c 3

/-! ### analyzer bookkeeping -/

/-- `_dict2arr`: start from all-NaN (`none`) and store the per-pair result at `[i, j]` for each
`(i, j)` of `self.ij`, in list order -/
def dict2arr {α : Type} (ij : List (Nat × Nat)) (val : Nat × Nat → α) : Nat × Nat → Option α :=
  ij.foldl (fun arr p => fun q => if q = p then some (val p) else arr q) (fun _ => none)

/-- the default `ij`: `zip(x[tril_indices_from(x,-1)], y[tril_indices_from(y,-1)])` with
`x, y = meshgrid(arange(n), arange(n))`, i.e. (column, row) over the strict lower triangle in
row-major order -/
def defaultIJ (n : Nat) : List (Nat × Nat) :=
  (List.range n).flatMap fun row => (List.range row).map fun col => (col, row)

/-- `GrangerAnalyzer.frequencies[k]` = `np.linspace(0, Fs/2, n_freqs//2 + 1, endpoint=False)[k]`
(`k·step`, `step = (Fs/2)/num`) -/
def analyzerFreq (Fs : K) (num k : Nat) : K := ofNat k *. ((Fs /. ofNat 2) /. ofNat num)

/-! ### line protocol (CF instance) -/

/-- `freq_response(…, n_freqs)` default `sides='onesided'`: generated point count -/
def nBins (nFreqs : Nat) : Nat := Nitime.Generated.FreqResponse.realN nFreqs true

def incl : Bool := Nitime.Generated.FreqResponse.includeNyquist

def ofReals (l : List Float) : List CF := l.map CF.ofFloat

/-- `a` arrives as P·4 reals, row-major per lag matrix -/
def coefsOf (p : Nat) (a : List Float) : Coefs CF :=
  let pick (o : Nat) := (List.range p).map fun k => CF.ofFloat (a.getD (4 * k + o) 0.0)
  ⟨pick 0, pick 1, pick 2, pick 3⟩

def covOf (c : List Float) : M2 CF :=
  ⟨CF.ofFloat (c.getD 0 0.0), CF.ofFloat (c.getD 1 0.0), CF.ofFloat (c.getD 2 0.0), CF.ofFloat (c.getD 3 0.0)⟩

def showM2 (ms : List (M2 CF)) : String :=
  showCList (ms.map (·.m00)) ++ " " ++ showCList (ms.map (·.m01)) ++ " " ++
  showCList (ms.map (·.m10)) ++ " " ++ showCList (ms.map (·.m11))

def gridZ (nf : Nat) : List CF := (List.range (nBins nf)).map fun k => (gridPhasor incl false k (nBins nf) : CF)

def logRe (z : CF) : Float := Float.log z.re

structure PairModel where
  i : Nat
  j : Nat
  p : Nat
  a : List Float
  cov : List Float

/-- `i:j:P:<flist a>:<flist cov>` -/
def parsePair? (s : String) : Option PairModel :=
  match s.splitOn ":" with
  | [i, j, p, a, c] => do
    let i ← i.toNat?; let j ← j.toNat?; let p ← p.toNat?
    let a ← parseFloatList? a; let c ← parseFloatList? c
    pure ⟨i, j, p, a, c⟩
  | _ => none

def nanF : Float := 0.0 / 0.0

/-- the three arrays `causality_xy`, `causality_yx`, `simultaneous_causality` (flattened `np × np × bins`)
of an analyzer whose pairs `ij` (in this order) have the fitted models `ps` -/
def anaArrays (np nf : Nat) (ps : List PairModel) : List Float × List Float × List Float :=
  let ij := ps.map fun q => (q.i, q.j)
  let res (q : Nat × Nat) : List (GC CF) :=
    match ps.find? (fun m => m.i = q.1 ∧ m.j = q.2) with
    | some m => (gridZ nf).map fun z => grangerAt (transferAt (coefsOf m.p m.a) z) (covOf m.cov)
    | none => []
  let arr := dict2arr ij res
  let flat (sel : GC CF → Float) : List Float :=
    (List.range np).flatMap fun i => (List.range np).flatMap fun j =>
      match arr (i, j) with
      | some g => g.map sel
      | none => List.replicate (nBins nf) nanF
  (flat fun g => logRe g.rX2Y, flat fun g => logRe g.rY2X, flat fun g => logRe g.rXY)

/-! ### the analyzer re-targeted with `set_input` (object model of `Model/GrangerObj.lean`) -/

/-- what the analyzer points at: channel count, sampling rate, and — fitting is C11's business — the
fitted model of every pair of its `ij` list ON THIS INPUT -/
structure AIn where
  nproc : Nat
  fs : Float
  pairs : List PairModel
  /-- `false`: `fit_model` raises for one of the pairs of this input (order estimation does not converge) -/
  ok : Bool := true

/-- what `_model` gets on this input: the fitted pairs, or the `ValueError` -/
def AIn.fitted (d : AIn) : Option (List PairModel) := if d.ok then some d.pairs else none

inductive ARead where
  | xy | yx | sim | freqs | model

/-- `S|<nproc>|<Fs>|<pair>;<pair>;…` (or `S|<nproc>|<Fs>|X`: fitting this input raises) = constructor / `set_input`; `Rxy Ryx Rsim Rf Rm` = reads -/
def parseAOp? (s : String) : Option (GrangerObj.Op AIn × ARead) :=
  if s = "Rxy" then some (.readGC, .xy) else
  if s = "Ryx" then some (.readGC, .yx) else
  if s = "Rsim" then some (.readGC, .sim) else
  if s = "Rf" then some (.readFreqs, .freqs) else
  if s = "Rm" then some (.readModel, .model) else
  match s.splitOn "|" with
  | ["S", np, fs, prs] => do
    let np ← np.toNat?
    let fs ← parseFloat? fs
    if prs = "X" then pure (.setInput ⟨np, fs, [], false⟩, .model) else
    let ps ← (if prs = "-" then [] else prs.splitOn ";").mapM parsePair?
    pure (.setInput ⟨np, fs, ps, true⟩, .model)
  | _ => none

def analyzerAxis (nf : Nat) (d : AIn) : List Float :=
  (List.range (nf / 2 + 1)).map fun k => (analyzerFreq (CF.ofFloat d.fs) (nf / 2 + 1) k).re

def showAOut : GrangerObj.Out (List PairModel) (List Float × List Float × List Float) (List Float) × ARead → List String
  | (.gc (some g), .xy) => [showFloatList g.1]
  | (.gc (some g), .yx) => [showFloatList g.2.1]
  | (.gc (some g), .sim) => [showFloatList g.2.2]
  | (.gc none, _) => ["E"]
  | (.freqs a, _) => [showFloatList a]
  | _ => []

def handle (args : List String) : String :=
  match args with
  | ["tf", nf, p, a] => match nf.toNat?, p.toNat?, parseFloatList? a with
    | some nf, some p, some a =>
      let c := coefsOf p a
      let w := (List.range (nBins nf)).map fun k => CF.gridWI incl false k (nBins nf)
      "ok " ++ showFloatList w ++ " " ++ showM2 ((gridZ nf).map fun z => transferAt c z)
    | _, _, _ => "bad-op"
  | ["tfs", nf, p, a, roles] => match nf.toNat?, p.toNat?, parseFloatList? a, roles.toList.map (fun ch => ch.toNat - 48) with
    | some nf, some p, some a, [ra, rb, rc, rd] =>
      -- the same call with the names bound as `roles` says (which of the four response arrays are one object)
      let c := coefsOf p a
      let w := (List.range (nBins nf)).map fun k => CF.gridWI incl false k (nBins nf)
      "ok " ++ showFloatList w ++ " " ++ showM2 ((gridZ nf).map fun z => transferShared ⟨ra, rb, rc, rd⟩ (storeOf c z))
    | _, _, _, _ => "bad-op"
  | ["sm", nf, p, a, cv] => match nf.toNat?, p.toNat?, parseFloatList? a, parseFloatList? cv with
    | some nf, some p, some a, some cv =>
      let c := coefsOf p a
      let S := (gridZ nf).map fun z => spectralAt (transferAt c z) (covOf cv)
      "ok " ++ showM2 S ++ " " ++ showFloatList (S.map fun s => (coherenceAt s).re) ++ " " ++
        showFloatList (S.map fun s => -(logRe (interdepArgAt s)))
    | _, _, _, _ => "bad-op"
  | ["gc", nf, p, a, cv] => match nf.toNat?, p.toNat?, parseFloatList? a, parseFloatList? cv with
    | some nf, some p, some a, some cv =>
      let c := coefsOf p a
      let G := (gridZ nf).map fun z => grangerAt (transferAt c z) (covOf cv)
      "ok " ++ showFloatList (G.map fun g => logRe g.rX2Y) ++ " " ++ showFloatList (G.map fun g => logRe g.rY2X) ++ " " ++
        showFloatList (G.map fun g => logRe g.rXY) ++ " " ++ showM2 (G.map (·.S))
    | _, _, _, _ => "bad-op"
  | ["gcs", nf, p, a, cv] => match nf.toNat?, p.toNat?, parseFloatList? a, parseFloatList? cv with
    | some nf, some p, some a, some cv =>
      -- the relabelled model: channels exchanged (`Coefs.swap`, `M2.swap`)
      let c := (coefsOf p a).swap
      let G := (gridZ nf).map fun z => grangerAt (transferAt c z) (covOf cv).swap
      "ok " ++ showFloatList (G.map fun g => logRe g.rX2Y) ++ " " ++ showFloatList (G.map fun g => logRe g.rY2X) ++ " " ++
        showFloatList (G.map fun g => logRe g.rXY) ++ " " ++ showM2 (G.map (·.S))
    | _, _, _, _ => "bad-op"
  | "ana" :: np :: nf :: pairs => match np.toNat?, nf.toNat?, pairs.mapM parsePair? with
    | some np, some nf, some ps =>
      let r := anaArrays np nf ps
      "ok " ++ showFloatList r.1 ++ " " ++ showFloatList r.2.1 ++ " " ++ showFloatList r.2.2
    | _, _, _ => "bad-op"
  | "anaseq" :: nf :: toks => match nf.toNat?, toks.mapM parseAOp? with
    | some nf, some ((.setInput d, _) :: ops) =>
      let outs := GrangerObj.run AIn.fitted (fun d ps => anaArrays d.nproc nf ps) (analyzerAxis nf)
        (ops.map (·.1)) (GrangerObj.construct d)
      "ok " ++ " ".intercalate ((outs.zip (ops.map (·.2))).flatMap showAOut)
    | _, _ => "bad-op"
  | ["afreq", fs, nf] => match parseFloat? fs, nf.toNat? with
    | some fs, some nf =>
      "ok " ++ showFloatList ((List.range (nf / 2 + 1)).map fun k => (analyzerFreq (CF.ofFloat fs) (nf / 2 + 1) k).re)
    | _, _ => "bad-op"
  | ["defij", n] => match n.toNat? with
    | some n => "ok " ++ joinList ((defaultIJ n).map fun q => s!"{q.1}:{q.2}")
    | none => "bad-op"
  | _ => "bad-op"

end Nitime.C12
