/-
C07 — object model of a RESULT MEMO in front of a pure function (`dpss_windows` and the call histories the
correspondence replays: other option values with the same (N, NW) before the judged call, evictions, callers that
overwrite in place what they were handed).  Core Lean only; theorems in `Lemmas/C07Hist.lean`.

A memo discipline is: a KEY function on the requests, a guard on the lookup, a guard on the store, a SERVE function
(how a filed value answers a request: as it is, or e.g. its first K rows), and whether a miss hands out the filed
buffer itself (`alias`) or a copy.  Today's `dpss_windows` is the discipline that never files anything (`today`).
The disciplines of the seeded changes are `nnwk` (key (N, NW, Kmax), lookup and store unguarded — C04-8), `nnwk9`
(same key, lookup only for `interp_from is None`, store unguarded — C07-9) and `prefix7` (key (N, NW, interp), a
filed set with >= K rows serves its first K rows, the miss hands out the filed buffers — C07-7).
-/
namespace Nitime.C07.Hist

structure Discipline (A R Key : Type) where
  key : A → Key
  guardL : A → Bool
  guardS : A → Bool
  serve : A → R → Option R
  alias : Bool

inductive Ev (A R Key : Type) where
  | call (a : A)
  | evict (k : Key)
  | scribble (k : Key) (r : R)

abbrev Store (Key R : Type) := Key → Option R

def Store.empty {Key R : Type} : Store Key R := fun _ => none

def Store.set {Key R : Type} [DecidableEq Key] (m : Store Key R) (k : Key) (v : Option R) : Store Key R :=
  fun k' => if k' = k then v else m k'

section
variable {A R Key : Type} [DecidableEq Key]

/-- what the memo finds for a request (none: not consulted, nothing filed, or the filed value cannot serve it) -/
def hit (D : Discipline A R Key) (m : Store Key R) (a : A) : Option R :=
  if D.guardL a then (m (D.key a)).bind (D.serve a) else none

/-- one request: answer and new store -/
def answer (D : Discipline A R Key) (f : A → R) (m : Store Key R) (a : A) : R × Store Key R :=
  match hit D m a with
  | some r => (r, m)
  | none => (f a, if D.guardS a then m.set (D.key a) (some (f a)) else m)

def step (D : Discipline A R Key) (f : A → R) (m : Store Key R) : Ev A R Key → Option R × Store Key R
  | .call a => (some (answer D f m a).1, (answer D f m a).2)
  | .evict k => (none, m.set k none)
  | .scribble k r =>
      (none, if D.alias then (match m k with | some _ => m.set k (some r) | none => m) else m)

/-- the answers of a whole history (none for the events that are not requests) -/
def run (D : Discipline A R Key) (f : A → R) : Store Key R → List (Ev A R Key) → List (Option R)
  | _, [] => []
  | m, e :: es => (step D f m e).1 :: run D f (step D f m e).2 es

/-- what a memo-free implementation answers -/
def expected (f : A → R) : Ev A R Key → Option R
  | .call a => some (f a)
  | _ => none

end

/-! ### the requests of `dpss_windows` -/

/-- (N, NW in hundredths, Kmax, interp_from (0 = None), interp_kind code) -/
structure Req where
  N : Nat
  NW : Nat
  K : Nat
  M : Nat
  kind : Nat
deriving DecidableEq, Repr

/-- symbolic result: row k of the set computed for (N, NW, M, kind) -/
structure Row where
  N : Nat
  NW : Nat
  M : Nat
  kind : Nat
  k : Nat
deriving DecidableEq, Repr
def symbolic (a : Req) : List Row := (List.range a.K).map fun k => ⟨a.N, a.NW, a.M, a.kind, k⟩

def whole {A R : Type} : A → R → Option R := fun _ r => some r

/-- today's code: nothing is ever filed -/
def today : Discipline Req (List Row) Req :=
  { key := id, guardL := fun _ => true, guardS := fun _ => false, serve := whole, alias := false }
/-- a memo keyed on every argument -/
def full : Discipline Req (List Row) Req :=
  { key := id, guardL := fun _ => true, guardS := fun _ => true, serve := whole, alias := false }
/-- C04-8: key (N, NW, Kmax) -/
def nnwk : Discipline Req (List Row) (Nat × Nat × Nat) :=
  { key := fun a => (a.N, a.NW, a.K), guardL := fun _ => true, guardS := fun _ => true, serve := whole, alias := false }
/-- C07-9: key (N, NW, Kmax), lookup only for plain requests, store in the shared tail -/
def nnwk9 : Discipline Req (List Row) (Nat × Nat × Nat) :=
  { key := fun a => (a.N, a.NW, a.K), guardL := fun a => a.M == 0, guardS := fun _ => true, serve := whole, alias := false }
/-- a filed set with at least K rows serves its first K rows -/
def prefixServe (a : Req) (r : List Row) : Option (List Row) := if a.K ≤ r.length then some (r.take a.K) else none
/-- C07-7: key (N, NW, interp_from, interp_kind), prefix service, the miss hands out the filed buffers -/
def prefix7 : Discipline Req (List Row) (Nat × Nat × Nat × Nat) :=
  { key := fun a => (a.N, a.NW, a.M, a.kind), guardL := fun _ => true, guardS := fun _ => true, serve := prefixServe, alias := true }
/-- the same with copies handed out -/
def prefixCopy : Discipline Req (List Row) (Nat × Nat × Nat × Nat) := { prefix7 with alias := false }

/-! ### driver: `hist <discipline> <event> …`, event = `c:N:NW:K:M:kind` | `e:N:NW:K:M:kind` (evict that request's key)
| `s:N:NW:K:M:kind` (the caller of that request scribbles on what it was handed); answer: one flag per request,
1 iff the answer is what a memo-free implementation returns -/

def parseReq? (xs : List String) : Option Req :=
  match xs.map String.toNat? with
  | [some n, some w, some k, some m, some kd] => some ⟨n, w, k, m, kd⟩
  | _ => none

def parseEv? {Key : Type} (key : Req → Key) (s : String) : Option (Ev Req (List Row) Key) :=
  match s.splitOn ":" with
  | "c" :: rest => (parseReq? rest).map Ev.call
  | "e" :: rest => (parseReq? rest).map fun a => Ev.evict (key a)
  | "s" :: rest => (parseReq? rest).map fun a => Ev.scribble (key a) [⟨0, 0, 0, 0, a.N + 1⟩]
  | _ => none

def flags {Key : Type} [DecidableEq Key] (D : Discipline Req (List Row) Key) (evs : List String) : Option String := do
  let es ← evs.mapM (parseEv? D.key)
  let got := run D symbolic Store.empty es
  let want := es.map (expected symbolic)
  let fl := (List.zip got want).filterMap fun (g, w) =>
    match w with
    | none => none
    | some _ => some (if g == w then "1" else "0")
  some ("ok " ++ (if fl.isEmpty then "-" else ",".intercalate fl))

def handleHist (args : List String) : Option String :=
  match args with
  | "today" :: evs => flags today evs
  | "full" :: evs => flags full evs
  | "nnwk" :: evs => flags nnwk evs
  | "nnwk9" :: evs => flags nnwk9 evs
  | "prefix7" :: evs => flags prefix7 evs
  | "prefixcopy" :: evs => flags prefixCopy evs
  | _ => none

end Nitime.C07.Hist
