/-
C04 / C06 — model of the spectral density estimators of `nitime.algorithms.spectral`
(core Lean only; written once over `RScalar R` / `CScalar R K`, see `Nitime/Model/Num.lean`).

Follows the source:
* `periodogram`           → `spec`, `pgOne`, `periodogramOf/At`, executable `periodogramList`
* `periodogram_csd`       → `csdPairOne`, `csdPair`, `lowerPairs`, `completeHermitian`,
                            `periodogramCsdAt`, executable `periodogramCsdList`
                            (normalised by `Fs·n` — the INTENDED normalisation; today's code divides
                            by `Fs·NFFT`, finding `periodogram_csd/zero-padded/…`)
* `tapered_spectra`       → `taperedSpec` (de-mean, taper, zero-pad, DFT); tapers are data
* `mtm_cross_spectrum`    → `mtmAuto` (single weights array: real result, denominator `Σ|w|²`),
                            `mtmCross` (pair of weights: denominator `√Σ|wx|²·√Σ|wy|²`)
* `multi_taper_psd/csd`   → `multiTaperPsdAt`, `multiTaperCsdAt` (+ `…List`); weights are data
                            (`√eigenvalue` per taper, or the adaptive weights per taper and bin)
* `get_spectra` (Welch)   → `welchCsdAt` models `matplotlib.mlab.csd` by its documented behaviour
                            (zero-pad to NFFT, segments every `NFFT-noverlap`, window, no detrend,
                            `conj(X)·Y` averaged over segments, one-sided doubling, `/Fs/Σw²`,
                            two-sided output rolled to start at the most negative frequency);
                            `welchSpectraAt` is the upper-triangle fill `fxy[i][j] = csd(x_j, x_i)`.

The `…At` functions are the pointwise mathematical definitions; the `…List` functions are what
the driver runs: the same definitions with the spectra tabulated once (`memoArr`/`memoGet`), and
`Nitime/Props/C04.lean` proves `…List = (List.range L).map …At` for every scalar type.
The index formulas `Fn`, `Fl`, `lastFreq` come from `Nitime/Generated/SpecIdx.lean`, regenerated
from the source on every run.
-/
import Nitime.Model.Num
import Nitime.Generated.SpecIdx
import Nitime.Generated.SpecWrites
import Nitime.Model.C04Sess
import Nitime.Generated.AnalyzerFs
import Nitime.Model.C04Block

namespace Nitime.C04
open Nitime.Num

/-- "putative Nyquist" count `N // 2 + 1` (generated from `periodogram`) -/
abbrev Fn (N : Nat) : Nat := Generated.SpecIdx.periodogram_Fn N
/-- "last duplicate frequency" `(N + 1) // 2` (generated from `periodogram`) -/
abbrev Fl (N : Nat) : Nat := Generated.SpecIdx.periodogram_Fl N

section generic
variable {R K : Type} [RScalar R] [CScalar R K]

/-- number of returned bins -/
def outLen (N : Nat) (onesided : Bool) : Nat := if onesided then Fn N else N

/-- `fftpack.fft(s, n=N)`: DFT of the signal zero-padded (or truncated) to `N` -/
def spec (tw : Nat → K) (N n : Nat) (x : Nat → K) (k : Nat) : K := dftAt tw N (padded n x) k

/-! ### periodogram -/

/-- one-sided assembly of `periodogram`: `P[0]`, `P[1:Fl] = 2|S|²`, `P[Fn-1]` when `Fn > Fl` -/
def pgOne (N : Nat) (S : Nat → K) (k : Nat) : R :=
  if k = 0 then sqmag (S 0)
  else if k < Fl N then ofNat 2 * sqmag (S k)
  else if Fl N < Fn N ∧ k = Fn N - 1 then sqmag (S k)
  else ofNat 0

/-- `periodogram` from the spectrum `S`, normalised by `Fs * s.shape[-1]` -/
def periodogramOf (Fs : R) (n N : Nat) (onesided : Bool) (S : Nat → K) (k : Nat) : R :=
  (if onesided then pgOne N S k else sqmag (S k)) / (Fs * ofNat n)

def periodogramAt (tw : Nat → K) (Fs : R) (n N : Nat) (onesided : Bool) (x : Nat → K) (k : Nat) : R :=
  periodogramOf Fs n N onesided (spec tw N n x) k

def periodogramList (tw : Nat → K) (Fs : R) (n N : Nat) (onesided : Bool) (x : Nat → K) : List R :=
  let S := memoArr N (spec tw N n x)
  (List.range (outLen N onesided)).map (periodogramOf Fs n N onesided (memoGet S (spec tw N n x)))

/-! ### all-pairs periodogram and the Hermitian completion -/

/-- one-sided `csd_pairs[i, j, k]` before normalisation -/
def csdPairOne (N : Nat) (Si Sj : Nat → K) (k : Nat) : K :=
  if k = 0 then Si 0 * conj (Sj 0)
  else if k < Generated.SpecIdx.periodogram_csd_Fl N then kscale (ofNat 2) (Si k * conj (Sj k))
  else if Generated.SpecIdx.periodogram_csd_Fl N < Generated.SpecIdx.periodogram_csd_Fn N
      ∧ k = Generated.SpecIdx.periodogram_csd_Fn N - 1 then Si k * conj (Sj k)
  else CScalar.zero

def csdPair (onesided : Bool) (N : Nat) (Si Sj : Nat → K) (k : Nat) : K :=
  if onesided then csdPairOne N Si Sj k else Si k * conj (Sj k)

/-- the pair loops fill only `j ≤ i`; the rest of `csd_pairs` stays zero -/
def lowerPairs (P : Nat → Nat → Nat → K) (i j k : Nat) : K :=
  if j ≤ i then P i j k else CScalar.zero

/-- `csd_pairs.transpose(1,0,2).conj() + csd_pairs`, diagonal halved -/
def completeHermitian (L : Nat → Nat → Nat → K) (i j k : Nat) : K :=
  let v := conj (L j i k) + L i j k
  if i = j then kscale (ofNat 1 / ofNat 2) v else v

/-- `periodogram_csd` from the channel spectra `S i` (normalisation `Fs·n`, see header) -/
def periodogramCsdOf (Fs : R) (n N : Nat) (onesided : Bool) (S : Nat → Nat → K) (i j k : Nat) : K :=
  completeHermitian (lowerPairs fun i j k =>
    kscale (ofNat 1 / (Fs * ofNat n)) (csdPair onesided N (S i) (S j) k)) i j k

def periodogramCsdAt (tw : Nat → K) (Fs : R) (n N : Nat) (onesided : Bool) (x : Nat → Nat → K)
    (i j k : Nat) : K :=
  periodogramCsdOf Fs n N onesided (fun i => spec tw N n (x i)) i j k

def periodogramCsdList (tw : Nat → K) (Fs : R) (n N M : Nat) (onesided : Bool)
    (x : Nat → Nat → K) : List K :=
  let S := memoArr2 M N fun i => spec tw N n (x i)
  matList M (if onesided then Generated.SpecIdx.periodogram_csd_Fn N else N)
    (periodogramCsdOf Fs n N onesided (memoGet2 S fun i => spec tw N n (x i)))

/-! ### multitaper -/

/-- `tapered_spectra`: de-mean, multiply by the taper `h`, zero-pad to `N`, DFT -/
def taperedSpec (tw : Nat → K) (N n : Nat) (h : Nat → R) (x : Nat → K) (k : Nat) : K :=
  dftAt tw N (padded n fun j => kscale (h j) (demean n x j)) k

/-- the doubling `sf[1:Fl] *= 2` of `mtm_cross_spectrum` for one-sided output -/
def dblIf {α : Type} (dbl : α → α) (onesided : Bool) (N k : Nat) (v : α) : α :=
  if onesided ∧ 1 ≤ k ∧ k < Generated.SpecIdx.mtm_Fl N then dbl v else v

/-- `mtm_cross_spectrum(tx, tx, weights)`: weighted tapered spectra `X t`, weights `w t k`,
divided by `Σ_t |w|²`, doubled at the duplicated bins, real part -/
def mtmAuto (N : Nat) (onesided : Bool) (T : Nat) (w : Nat → Nat → R) (X : Nat → Nat → K)
    (k : Nat) : R :=
  let denom := rsum T fun t => w t k * w t k
  let sf := ksum T fun t => kscale (w t k) (X t k) * conj (kscale (w t k) (X t k))
  dblIf (fun v => ofNat 2 * v) onesided N k (re sf / denom)

/-- `mtm_cross_spectrum(tx, ty, (wx, wy))`: denominator `(Σ|wx|²)^½ (Σ|wy|²)^½`, complex result -/
def mtmCross [RSqrt R] (N : Nat) (onesided : Bool) (T : Nat) (wx wy : Nat → Nat → R)
    (X Y : Nat → Nat → K) (k : Nat) : K :=
  let denom := sqrt (rsum T fun t => wx t k * wx t k) * sqrt (rsum T fun t => wy t k * wy t k)
  let sf := ksum T fun t => kscale (wx t k) (X t k) * conj (kscale (wy t k) (Y t k))
  dblIf (kscale (ofNat 2)) onesided N k (kscale (ofNat 1 / denom) sf)

/-- `multi_taper_psd` from the tapered spectra `Y t` -/
def multiTaperPsdOf (Fs : R) (N : Nat) (onesided : Bool) (T : Nat) (w : Nat → Nat → R)
    (Y : Nat → Nat → K) (k : Nat) : R :=
  mtmAuto N onesided T w Y k / Fs

def multiTaperPsdAt (tw : Nat → K) (Fs : R) (n N : Nat) (onesided : Bool) (T : Nat)
    (h : Nat → Nat → R) (w : Nat → Nat → R) (x : Nat → K) (k : Nat) : R :=
  multiTaperPsdOf Fs N onesided T w (fun t => taperedSpec tw N n (h t) x) k

/-- the direct spectral estimate of taper `t` alone (what the adaptive estimate averages) -/
def taperPsdAt (tw : Nat → K) (Fs : R) (n N : Nat) (onesided : Bool)
    (h : Nat → Nat → R) (x : Nat → K) (t k : Nat) : R :=
  dblIf (fun v => ofNat 2 * v) onesided N k (sqmag (taperedSpec tw N n (h t) x k)) / Fs

def multiTaperPsdList (tw : Nat → K) (Fs : R) (n N : Nat) (onesided : Bool) (T : Nat)
    (h : Nat → Nat → R) (w : Nat → Nat → R) (x : Nat → K) : List R :=
  let Y := memoArr2 T N fun t => taperedSpec tw N n (h t) x
  (List.range (Generated.SpecIdx.mt_psd_last_freq N onesided)).map
    (multiTaperPsdOf Fs N onesided T w (memoGet2 Y fun t => taperedSpec tw N n (h t) x))

/-- `multi_taper_csd` from the tapered spectra `Y i t` and per-channel weights `w i t k` -/
def multiTaperCsdOf [RSqrt R] (Fs : R) (N : Nat) (onesided : Bool) (T : Nat) (w : Nat → Nat → Nat → R)
    (Y : Nat → Nat → Nat → K) (i j k : Nat) : K :=
  kscale (ofNat 1 / Fs)
    (completeHermitian (lowerPairs fun i j k => mtmCross N onesided T (w i) (w j) (Y i) (Y j) k) i j k)

def multiTaperCsdAt [RSqrt R] (tw : Nat → K) (Fs : R) (n N : Nat) (onesided : Bool) (T : Nat)
    (h : Nat → Nat → R) (w : Nat → Nat → Nat → R) (x : Nat → Nat → K) (i j k : Nat) : K :=
  multiTaperCsdOf Fs N onesided T w (fun i t => taperedSpec tw N n (h t) (x i)) i j k

def multiTaperCsdList [RSqrt R] (tw : Nat → K) (Fs : R) (n N M : Nat) (onesided : Bool) (T : Nat)
    (h : Nat → Nat → R) (w : Nat → Nat → Nat → R) (x : Nat → Nat → K) : List K :=
  let Y := memoArr3 M T N fun i t => taperedSpec tw N n (h t) (x i)
  matList M (Generated.SpecIdx.mt_csd_last_freq N onesided)
    (multiTaperCsdOf Fs N onesided T w (memoGet3 Y fun i t => taperedSpec tw N n (h t) (x i)))

/-! ### Welch (matplotlib.mlab.csd as documented) -/

/-- number of segments: the signal is zero-padded to `N` when shorter, then one segment every
`N - noverlap` samples -/
def welchSegs (n N noverlap : Nat) : Nat := (max n N - N) / (N - noverlap) + 1

/-- windowed DFT of segment `s` -/
def segSpec (tw : Nat → K) (N n noverlap : Nat) (win : Nat → R) (x : Nat → K) (s k : Nat) : K :=
  dftAt tw N (fun j => kscale (win j) (padded n x (s * (N - noverlap) + j))) k

/-- which DFT bin is reported at output position `m`: one-sided `m`; two-sided output is rolled
by `freqcenter = (N+1)/2` so that it starts at the most negative frequency -/
def welchBin (N : Nat) (onesided : Bool) (m : Nat) : Nat :=
  if onesided then m else (m + (N + 1) / 2) % N

/-- `mlab.csd(x, y, NFFT=N, Fs, detrend_none, window, noverlap, scale_by_freq=True)[m]` from the
segment spectra -/
def welchCsdOf (Fs : R) (n N noverlap : Nat) (onesided : Bool) (win : Nat → R)
    (X Y : Nat → Nat → K) (m : Nat) : K :=
  let nseg := welchSegs n N noverlap
  let k := welchBin N onesided m
  let acc := ksum nseg fun s => conj (X s k) * Y s k
  let v := dblIf (kscale (ofNat 2)) onesided N k acc
  kscale (ofNat 1 / (ofNat nseg * (Fs * rsum N fun j => win j * win j))) v

def welchCsdAt (tw : Nat → K) (Fs : R) (n N noverlap : Nat) (onesided : Bool) (win : Nat → R)
    (x y : Nat → K) (m : Nat) : K :=
  welchCsdOf Fs n N noverlap onesided win
    (segSpec tw N n noverlap win x) (segSpec tw N n noverlap win y) m

/-- `get_spectra(…, method='welch')` for `M > 1` channels: `fxy[i][j] = csd(x_j, x_i)` for
`j ≥ i`, zeros below the diagonal -/
def welchSpectraOf (Fs : R) (n N noverlap : Nat) (onesided : Bool) (win : Nat → R)
    (X : Nat → Nat → Nat → K) (i j m : Nat) : K :=
  if i ≤ j then welchCsdOf Fs n N noverlap onesided win (X j) (X i) m else CScalar.zero

def welchSpectraAt (tw : Nat → K) (Fs : R) (n N noverlap : Nat) (onesided : Bool) (win : Nat → R)
    (x : Nat → Nat → K) (i j m : Nat) : K :=
  welchSpectraOf Fs n N noverlap onesided win (fun i => segSpec tw N n noverlap win (x i)) i j m

def welchSpectraList (tw : Nat → K) (Fs : R) (n N noverlap M : Nat) (onesided : Bool)
    (win : Nat → R) (x : Nat → Nat → K) : List K :=
  let X := memoArr3 M (welchSegs n N noverlap) N fun i => segSpec tw N n noverlap win (x i)
  matList M (outLen N onesided)
    (welchSpectraOf Fs n N noverlap onesided win
      (memoGet3 X fun i => segSpec tw N n noverlap win (x i)))

/-- single channel: `get_spectra` returns `csd(x, x)` as a vector -/
def welchPsdList (tw : Nat → K) (Fs : R) (n N noverlap : Nat) (onesided : Bool)
    (win : Nat → R) (x : Nat → K) : List K :=
  let X := memoArr2 (welchSegs n N noverlap) N (segSpec tw N n noverlap win x)
  (List.range (outLen N onesided)).map
    (welchCsdOf Fs n N noverlap onesided win
      (memoGet2 X (segSpec tw N n noverlap win x)) (memoGet2 X (segSpec tw N n noverlap win x)))

/-! ### session 3: option handling, the precomputed-transform branch, typed input, call histories -/

/-- how `periodogram`, `periodogram_csd`, `multi_taper_psd/csd` resolve `sides`:
`(sides == 'default' and iscomplexobj(s)) or sides == 'twosided'` ⇒ two-sided;
`sides in ('default', 'onesided')` ⇒ one-sided; any other string falls through to the two-sided branch -/
def onesidedOf (sides : String) (cplx : Bool) : Bool :=
  if (sides == "default" && cplx) || sides == "twosided" then false
  else sides == "default" || sides == "onesided"

/-- `periodogram(…, normalize=False)`: the assembled `P` before `P /= Fs * s.shape[-1]` -/
def periodogramRaw (N : Nat) (onesided : Bool) (S : Nat → K) (k : Nat) : R :=
  if onesided then pgOne N S k else sqmag (S k)

/-- `periodogram(s, Fs, Sk=Sk, sides=…, normalize=…)`: the caller supplies the transform; `N = Sk.shape[-1]`;
`s` is consulted only for `n = s.shape[-1]` (normalisation) and for `iscomplexobj(s)` (through `onesided`) -/
def periodogramSk (Fs : R) (n N : Nat) (onesided norm : Bool) (Sk : Nat → K) (k : Nat) : R :=
  if norm then periodogramOf Fs n N onesided Sk k else periodogramRaw N onesided Sk k

def periodogramSkList (Fs : R) (n N : Nat) (onesided norm : Bool) (Sk : Nat → K) : List R :=
  (List.range (outLen N onesided)).map (periodogramSk Fs n N onesided norm Sk)

/-- `periodogram_csd(…, normalize=False)` -/
def periodogramCsdRaw (N : Nat) (onesided : Bool) (S : Nat → Nat → K) (i j k : Nat) : K :=
  completeHermitian (lowerPairs fun i j k => csdPair onesided N (S i) (S j) k) i j k

/-- `periodogram_csd(s, Fs, Sk=Sk, sides=…, normalize=…)`: `Sk_loc = Sk.reshape(M, N)` is a VIEW of the caller's
array; `M` and `N` come from `Sk`, `n` and the complexity test from `s` -/
def periodogramCsdSk (Fs : R) (n N : Nat) (onesided norm : Bool) (Sk : Nat → Nat → K) (i j k : Nat) : K :=
  if norm then periodogramCsdOf Fs n N onesided Sk i j k else periodogramCsdRaw N onesided Sk i j k

def csdOutLen (N : Nat) (onesided : Bool) : Nat := if onesided then Generated.SpecIdx.periodogram_csd_Fn N else N

def periodogramCsdSkList (Fs : R) (n N M : Nat) (onesided norm : Bool) (Sk : Nat → Nat → K) : List K :=
  matList M (csdOutLen N onesided) (periodogramCsdSk Fs n N onesided norm Sk)

/-- `periodogram(s, Fs, N=N, sides, normalize)` with the transform computed inside (tabulated once) -/
def periodogramNormList (tw : Nat → K) (Fs : R) (n N : Nat) (onesided norm : Bool) (x : Nat → K) : List R :=
  let S := memoArr N (spec tw N n x)
  periodogramSkList Fs n N onesided norm (memoGet S (spec tw N n x))

def periodogramCsdNormList (tw : Nat → K) (Fs : R) (n N M : Nat) (onesided norm : Bool)
    (x : Nat → Nat → K) : List K :=
  let S := memoArr2 M N fun i => spec tw N n (x i)
  periodogramCsdSkList Fs n N M onesided norm (memoGet2 S fun i => spec tw N n (x i))

/-! #### typed input: integer recordings are embedded exactly before the estimator runs
(`fftpack.fft`, `remove_bias`, `mlab` convert int16/int32/int64/uint8 to binary64, which is exact; float32 is a
subset of binary64, its embedding is the inclusion) -/

/-- exact embedding of an integer sample -/
def ofInt (z : Int) : R := if z < 0 then -(ofNat z.natAbs) else ofNat z.natAbs

def embedInt (z : Int) : K := ofReal (ofInt z)

/-- an estimator applied to typed samples = the estimator applied to their embedding -/
def typed {α β : Type} (embed : α → K) (est : (Nat → K) → β) (x : Nat → α) : β := est fun j => embed (x j)

/-! #### histories of calls on ONE caller-supplied transform -/

/-- one use of the caller's `Sk` (`M` rows of length `N`): `periodogram(s, Sk=Sk)`, `periodogram(s[r], Sk=Sk[r])`,
`periodogram_csd(s, Sk=Sk)`, each with its `sides` / `normalize` -/
inductive SkCall where
  | pg (sides : String) (norm : Bool)
  | pgRow (sides : String) (norm : Bool) (row : Nat)
  | csd (sides : String) (norm : Bool)
  deriving Repr, DecidableEq

def SkCall.fn : SkCall → String
  | .pg .. => "periodogram"
  | .pgRow .. => "periodogram"
  | .csd .. => "periodogram_csd"

/-- what the call returns (real densities as complex numbers with zero imaginary part) -/
def skOut (Fs : R) (n N M : Nat) (cplx : Bool) (Sk : Nat → Nat → K) : SkCall → List K
  | .pg sides norm =>
    (List.range M).flatMap fun i => (periodogramSkList Fs n N (onesidedOf sides cplx) norm (Sk i)).map ofReal
  | .pgRow sides norm r => (periodogramSkList Fs n N (onesidedOf sides cplx) norm (Sk r)).map ofReal
  | .csd sides norm => periodogramCsdSkList Fs n N M (onesidedOf sides cplx) norm Sk

/-- the caller's buffer after the call: untouched unless the GENERATED write-set of the function (regenerated from the
source on every run, `Generated/SpecWrites.lean`) contains a name that may be a view of the `Sk` parameter — then
nothing is known about it (modelled as zeros) -/
def skAfter (c : SkCall) (Sk : Nat → Nat → K) : Nat → Nat → K :=
  if Generated.SpecWrites.writesAlias c.fn "Sk" then fun _ _ => CScalar.zero else Sk

/-- the outputs of a program `f₁(Sk); f₂(Sk); …` on one buffer -/
def skRun (Fs : R) (n N M : Nat) (cplx : Bool) : (Nat → Nat → K) → List SkCall → List (List K)
  | _, [] => []
  | Sk, c :: h => skOut Fs n N M cplx Sk c :: skRun Fs n N M cplx (skAfter c Sk) h

end generic

/-! ### a taper provider along a history of requests (`utils.dpss_windows`)

Today's `dpss_windows` is stateless: every request is computed from its arguments (`specTapers`).  `memoRun` is the
class of implementations that keep a memo keyed by `keyOf request`; `Props/C04.lean` proves that such a provider
answers every history like recomputation iff the key determines the result (`memoRun_eq_map`), and that a key which
forgets `interp_from` does not (`memo_forgets_interp_counterexample`).  The harness runs request histories through the
real `dpss_windows` and compares the kind of every answer (exact / interpolated tapers, judged against an independent
DPSS implementation) with this model. -/

structure TReq where
  N : Nat
  /-- `4·NW` (the harness uses quarter-integer NW) -/
  nw4 : Nat
  kmax : Nat
  /-- `interp_from`, 0 = `None` -/
  interp : Nat
  /-- `interp_kind` code: 0 linear, 1 nearest, 2 zero, 3 cubic… -/
  kind : Nat
  deriving Repr, DecidableEq

/-- kind of the answer: `false` = the exactly computed set, `true` = tapers interpolated from a shorter set -/
def TReq.interpolated (r : TReq) : Bool := r.interp != 0

def specTapers {ρ τ : Type} (compute : ρ → τ) (h : List ρ) : List τ := h.map compute

def mlook {κ τ : Type} [DecidableEq κ] (k : κ) : List (κ × τ) → Option τ
  | [] => none
  | (k', v) :: m => if k' = k then some v else mlook k m

/-- lookup first; on a miss compute, evict (any policy `evict`), store -/
def memoStep {ρ κ τ : Type} [DecidableEq κ] (compute : ρ → τ) (keyOf : ρ → κ)
    (evict : List (κ × τ) → List (κ × τ)) (memo : List (κ × τ)) (r : ρ) : τ × List (κ × τ) :=
  match mlook (keyOf r) memo with
  | some v => (v, memo)
  | none => (compute r, (keyOf r, compute r) :: evict memo)

def memoRun {ρ κ τ : Type} [DecidableEq κ] (compute : ρ → τ) (keyOf : ρ → κ)
    (evict : List (κ × τ) → List (κ × τ)) : List (κ × τ) → List ρ → List τ
  | _, [] => []
  | memo, r :: h => (memoStep compute keyOf evict memo r).1 :: memoRun compute keyOf evict (memoStep compute keyOf evict memo r).2 h

/-- `dpss_windows` REFUSES `interp_from > N` (`ValueError`) -/
def TReq.refused (r : TReq) : Bool := r.N < r.interp

/-- a provider history with refusals (L7): a refused request answers `none` and leaves the memo exactly as it was; the
next accepted request is answered as if the refused one had never been made -/
def memoRunE {κ τ : Type} [DecidableEq κ] (compute : TReq → τ) (keyOf : TReq → κ)
    (evict : List (κ × τ) → List (κ × τ)) : List (κ × τ) → List TReq → List (Option τ)
  | _, [] => []
  | memo, r :: h =>
    if r.refused then none :: memoRunE compute keyOf evict memo h
    else some (memoStep compute keyOf evict memo r).1 :: memoRunE compute keyOf evict (memoStep compute keyOf evict memo r).2 h

/-- the specification with refusals: stateless -/
def specTapersE {τ : Type} (compute : TReq → τ) (h : List TReq) : List (Option τ) :=
  h.map fun r => if r.refused then none else some (compute r)

/-- keep the 16 most recent entries -/
def evict16 {α : Type} (m : List α) : List α := m.take 15

/-- the key of the seeded memo: `(N, NW, Kmax)` — it forgets `interp_from` / `interp_kind` -/
def forgetfulKey (r : TReq) : Nat × Nat × Nat := (r.N, r.nw4, r.kmax)

/-! ### line protocol (Float reading)

    periodogram  <Fs> <N> <sides 1|2> <x: n complex>
    pcsd         <Fs> <N> <sides> <M> <x: M*n complex, row-major>
    mtpsd        <Fs> <N> <sides> <T> <tapers: T*n real> <wmode f|a> <weights: T | T*L real> <x: n complex>
    mtcsd        <Fs> <N> <sides> <M> <T> <tapers> <wmode> <weights: T | M*T*L> <x: M*n complex>
    welch        <Fs> <N> <noverlap> <sides> <M> <window: N real> <x: M*n complex>   (M = 1: vector)
  results: `ok <list of reals>` or `ok <interleaved complex list>`.
    xperiodogram / xpcsd / xwelch: the same operations run EXACTLY over ℚ / ℚ(i) (NFFT ∈ {1,2,4},
    all numbers as `p/q`); results are exact rationals.
-/

open Nitime.Proto

def chan (a : Array C) (n : Nat) (i : Nat) (j : Nat) : C := if j < n then cfn a (i * n + j) else ⟨0.0, 0.0⟩

/-- a signal argument: interleaved complex binary64 (`x…,x…`), or — typed input — decimal integers `i1,-2,3`
(int16/int32/int64/uint8 recordings), embedded exactly by `embedInt` -/
def parseSig? (s : String) : Option (Array C) :=
  if s.startsWith "i" then
    (parseIntList? (s.drop 1).toString).map fun zs => (zs.map fun z => (embedInt z : C)).toArray
  else parseCList? s

def parseBool? (s : String) : Option Bool := if s == "1" then some true else if s == "0" then some false else none

/-- `p:sides:norm`, `r:sides:norm:row`, `c:sides:norm` separated by `;` -/
def parseSkCalls? (s : String) : Option (List SkCall) :=
  (s.splitOn ";").mapM fun t =>
    match t.splitOn ":" with
    | ["p", sd, nm] => (parseBool? nm).map fun b => SkCall.pg sd b
    | ["r", sd, nm, r] => match parseBool? nm, r.toNat? with
      | some b, some r => some (SkCall.pgRow sd b r)
      | _, _ => none
    | ["c", sd, nm] => (parseBool? nm).map fun b => SkCall.csd sd b
    | _ => none

/-- `N:nw4:kmax:interp:kind` separated by `;` -/
def parseTReqs? (s : String) : Option (List TReq) :=
  (s.splitOn ";").mapM fun t =>
    match (t.splitOn ":").mapM String.toNat? with
    | some [a, b, c, d, e] => some ⟨a, b, c, d, e⟩
    | _ => none

/-- `ansess <method: none | nofs | p/q> <rate0 p/q> <ev> …` — a SpectralAnalyzer session with the getter table / constructor behaviour
`Generated.AnalyzerFs` extracted from the current source; events `s<rate p/q>:<series id>`, `r` (reset), `psd`, `cpsd`, `periodogram`,
`mt`, `fourier`; answer per read: `<getter>:<id of the series held>@<rate used p/q>` -/
def parseRatQ? (s : String) : Option Rat :=
  match s.splitOn "/" with
  | [a] => a.toInt?.map fun n => (n : Rat)
  | [a, b] => match a.toInt?, b.toNat? with
    | some n, some d => if d = 0 then none else some ((n : Rat) / (d : Rat))
    | _, _ => none
  | _ => none

def showRatQ (q : Rat) : String := if q.den = 1 then toString q.num else toString q.num ++ "/" ++ toString q.den

def parseAnEv? (t : String) : Option Sess.Ev :=
  if t = "r" then some .reset
  else if t = "psd" then some (.read .psd)
  else if t = "cpsd" then some (.read .cpsd)
  else if t = "periodogram" then some (.read .periodogram)
  else if t = "mt" then some (.read .multiTaper)
  else if t = "fourier" then some (.read .fourier)
  else if t.startsWith "s" then
    match (t.drop 1).toString.splitOn ":" with
    | [q, k] => match parseRatQ? q, k.toNat? with
      | some q, some k => some (.setInput ⟨q, k⟩)
      | _, _ => none
    | _ => none
  else none

def getterName : Sess.Getter → String
  | .psd => "psd" | .cpsd => "cpsd" | .periodogram => "periodogram" | .multiTaper => "mt" | .fourier => "fourier"

def handleAnSess (args : List String) : String :=
  match args with
  | um :: r0 :: evs =>
    let u : Option (Option (Option Rat)) :=
      if um = "none" then some none else if um = "nofs" then some (some none) else (parseRatQ? um).map fun q => some (some q)
    match u, parseRatQ? r0, evs.mapM parseAnEv? with
    | some u, some r0, some es =>
      let T := Nitime.Generated.AnalyzerFs.table
      if Nitime.Generated.AnalyzerFs.ctor == .unknown || !Nitime.Generated.AnalyzerFs.setInputIsBase ||
          [Sess.Getter.psd, .cpsd, .periodogram, .multiTaper, .fourier].any (fun g => (T g).src == .unknown) then "unsupported" else
      let out := Sess.run T (Sess.init Nitime.Generated.AnalyzerFs.ctor ⟨r0, 0⟩ u) es
      if out.isEmpty then "none" else " ".intercalate (out.map fun p => getterName p.1 ++ ":" ++ toString p.2.2 ++ "@" ++ showRatQ p.2.1)
    | _, _, _ => "bad-args"
  | _ => "bad-args"

def handle (args : List String) : String :=
  match args with
  | "ansess" :: rest => handleAnSess rest
  -- round 4 (L9): the one-sided assembly carried out in blocks of `b` bins on a supplied two-sided density / the rows
  -- filled by ⌈M/rows⌉ blocks of `rows` rows (`Model/C04Block.lean`)
  | ["blockfold", nfft, b, ps] =>
    match nfft.toNat?, b.toNat?, parseFArray? ps with
    | some N, some b, some p => "ok " ++ showFloatList (blockFoldList (fun v => 2.0 * v) N b loOffset (ffn p))
    | _, _, _ => "bad-op"
  | ["blockrows", m, rows] =>
    match m.toNat?, rows.toNat? with
    | some M, some rows => "ok " ++ ",".intercalate ((rowsFilled M rows (blocksCeil M rows)).map toString)
    | _, _ => "bad-op"
  | ["periodogram", fs, nfft, sides, xs] =>
    match parseFloat? fs, nfft.toNat?, parseSig? xs with
    | some Fs, some N, some x =>
      let tw := twiddleFn N (twiddleTable N)
      "ok " ++ showFloatList (periodogramList tw Fs x.size N (sides == "1") (cfn x))
    | _, _, _ => "bad-op"
  | ["pcsd", fs, nfft, sides, m, xs] =>
    match parseFloat? fs, nfft.toNat?, m.toNat?, parseSig? xs with
    | some Fs, some N, some M, some x =>
      if M = 0 then "bad-op" else
      let n := x.size / M
      let tw := twiddleFn N (twiddleTable N)
      "ok " ++ showCList (periodogramCsdList tw Fs n N M (sides == "1") (chan x n))
    | _, _, _, _ => "bad-op"
  | ["mtpsd", fs, nfft, sides, t, taps, wmode, ws, xs] =>
    match parseFloat? fs, nfft.toNat?, t.toNat?, parseFArray? taps, parseFArray? ws, parseSig? xs with
    | some Fs, some N, some T, some h, some w, some x =>
      let n := x.size
      let one := sides == "1"
      let L := Generated.SpecIdx.mt_psd_last_freq N one
      let tw := twiddleFn N (twiddleTable N)
      let hf : Nat → Nat → Float := fun t j => ffn h (t * n + j)
      let wf : Nat → Nat → Float := if wmode == "f" then fun t _ => ffn w t else fun t k => ffn w (t * L + k)
      "ok " ++ showFloatList (multiTaperPsdList tw Fs n N one T hf wf (cfn x))
    | _, _, _, _, _, _ => "bad-op"
  | ["mtcsd", fs, nfft, sides, m, t, taps, wmode, ws, xs] =>
    match parseFloat? fs, nfft.toNat?, m.toNat?, t.toNat?, parseFArray? taps, parseFArray? ws, parseSig? xs with
    | some Fs, some N, some M, some T, some h, some w, some x =>
      if M = 0 then "bad-op" else
      let n := x.size / M
      let one := sides == "1"
      let L := Generated.SpecIdx.mt_csd_last_freq N one
      let tw := twiddleFn N (twiddleTable N)
      let hf : Nat → Nat → Float := fun t j => ffn h (t * n + j)
      let wf : Nat → Nat → Nat → Float :=
        if wmode == "f" then fun _ t _ => ffn w t else fun i t k => ffn w ((i * T + t) * L + k)
      "ok " ++ showCList (multiTaperCsdList tw Fs n N M one T hf wf (chan x n))
    | _, _, _, _, _, _, _ => "bad-op"
  | ["welch", fs, nfft, nov, sides, m, win, xs] =>
    match parseFloat? fs, nfft.toNat?, nov.toNat?, m.toNat?, parseFArray? win, parseSig? xs with
    | some Fs, some N, some nov, some M, some w, some x =>
      if M = 0 ∨ N = 0 ∨ nov ≥ N then "bad-op" else
      let n := x.size / M
      let one := sides == "1"
      let tw := twiddleFn N (twiddleTable N)
      if M = 1 then "ok " ++ showCList (welchPsdList tw Fs n N nov one (ffn w) (cfn x))
      else "ok " ++ showCList (welchSpectraList tw Fs n N nov M one (ffn w) (chan x n))
    | _, _, _, _, _, _ => "bad-op"
  -- exact runs (ℚ / ℚ(i)); NFFT ∈ {1, 2, 4}; arguments as rationals `p/q`
  | ["xperiodogram", fs, nfft, sides, xs] =>
    match parseRat? fs, nfft.toNat?, parseQList? xs with
    | some Fs, some N, some x =>
      match twiddleQ? N with
      | some tw => "ok " ++ showRatList (periodogramList tw Fs x.size N (sides == "1") (qfn x))
      | none => "bad-op"
    | _, _, _ => "bad-op"
  | ["xpcsd", fs, nfft, sides, m, xs] =>
    match parseRat? fs, nfft.toNat?, m.toNat?, parseQList? xs with
    | some Fs, some N, some M, some x =>
      if M = 0 then "bad-op" else
      let n := x.size / M
      match twiddleQ? N with
      | some tw => "ok " ++ showQList (periodogramCsdList tw Fs n N M (sides == "1")
          (fun i j => if j < n then qfn x (i * n + j) else ⟨0, 0⟩))
      | none => "bad-op"
    | _, _, _, _ => "bad-op"
  | ["xwelch", fs, nfft, nov, sides, m, win, xs] =>
    match parseRat? fs, nfft.toNat?, nov.toNat?, m.toNat?, parseRatList? win, parseQList? xs with
    | some Fs, some N, some nov, some M, some w, some x =>
      if M = 0 ∨ N = 0 ∨ nov ≥ N then "bad-op" else
      let n := x.size / M
      let one := sides == "1"
      match twiddleQ? N with
      | some tw =>
        let xc : Nat → Nat → Q2 := fun i j => if j < n then qfn x (i * n + j) else ⟨0, 0⟩
        if M = 1 then "ok " ++ showQList (welchPsdList tw Fs n N nov one (rfn w) (xc 0))
        else "ok " ++ showQList (welchSpectraList tw Fs n N nov M one (rfn w) xc)
      | none => "bad-op"
    | _, _, _, _, _, _ => "bad-op"
  -- session 3: normalize=False, precomputed transform, histories on one transform, taper-provider histories
  | ["periodogramn", fs, nfft, sides, norm, xs] =>
    match parseFloat? fs, nfft.toNat?, parseBool? norm, parseSig? xs with
    | some Fs, some N, some nm, some x =>
      let tw := twiddleFn N (twiddleTable N)
      "ok " ++ showFloatList (periodogramNormList tw Fs x.size N (sides == "1") nm (cfn x))
    | _, _, _, _ => "bad-op"
  | ["pcsdn", fs, nfft, sides, norm, m, xs] =>
    match parseFloat? fs, nfft.toNat?, parseBool? norm, m.toNat?, parseSig? xs with
    | some Fs, some N, some nm, some M, some x =>
      if M = 0 then "bad-op" else
      let n := x.size / M
      let tw := twiddleFn N (twiddleTable N)
      "ok " ++ showCList (periodogramCsdNormList tw Fs n N M (sides == "1") nm (chan x n))
    | _, _, _, _, _ => "bad-op"
  | ["pgsk", fs, n, cplx, sides, norm, sk] =>
    match parseFloat? fs, n.toNat?, parseBool? cplx, parseBool? norm, parseCList? sk with
    | some Fs, some n, some cx, some nm, some S =>
      "ok " ++ showFloatList (periodogramSkList Fs n S.size (onesidedOf sides cx) nm (cfn S))
    | _, _, _, _, _ => "bad-op"
  | ["pcsdsk", fs, n, cplx, sides, norm, m, sk] =>
    match parseFloat? fs, n.toNat?, parseBool? cplx, parseBool? norm, m.toNat?, parseCList? sk with
    | some Fs, some n, some cx, some nm, some M, some S =>
      if M = 0 then "bad-op" else
      let N := S.size / M
      "ok " ++ showCList (periodogramCsdSkList Fs n N M (onesidedOf sides cx) nm (chan S N))
    | _, _, _, _, _, _ => "bad-op"
  | ["skhist", fs, n, cplx, m, sk, calls] =>
    match parseFloat? fs, n.toNat?, parseBool? cplx, m.toNat?, parseCList? sk, parseSkCalls? calls with
    | some Fs, some n, some cx, some M, some S, some h =>
      if M = 0 then "bad-op" else
      let N := S.size / M
      "ok " ++ showCList (skRun Fs n N M cx (chan S N) h).flatten
    | _, _, _, _, _, _ => "bad-op"
  | ["tapers", reqs] =>
    match parseTReqs? reqs with
    | some h =>
      -- a memo keyed by the WHOLE request (sound: `memoRun_eq_map`), evicting like the 16-entry cache
      "ok " ++ joinList ((memoRunE TReq.interpolated id evict16 [] h).map fun
        | none => "2" | some true => "1" | some false => "0")
    | none => "bad-op"
  | _ => "bad-op"

end Nitime.C04
