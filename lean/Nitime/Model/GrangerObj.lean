/-
`GrangerAnalyzer` as an object with state (core Lean only; shared by the C11 and C12 models).

What it follows (`nitime/analysis/granger.py`, `nitime/analysis/base.py`, `nitime/descriptors.py`):
* `__init__` / `set_input(input)`: the analyzer points at `input` (`self.data`, `self.sampling_rate`,
  `self._n_process` and — unless given — `self.ij` are refreshed from it); `BaseAnalyzer.set_input`
  calls `reset()`, which deletes every one-time attribute stored in the instance dict.
* `_model` (`setattr_on_read`): `fit_model` for every pair of `ij` on the CURRENT data, stored on
  first read; `order`, `autocov`, `model_coef`, `error_cov` are its projections.  `fit_model` may
  raise (`ValueError`, criterion never rises): then nothing is stored.
* `_granger_causality` (`setattr_on_read`): reads `model_coef` / `error_cov` (hence `_model`) and
  evaluates `granger_causality_xy` per pair; `causality_xy`, `causality_yx`,
  `simultaneous_causality`, `spectral_matrix` are its projections / `_dict2arr` placements.
* `frequencies` (`setattr_on_read`): a function of the current input's sampling rate only.

`fit`, `spec`, `axis` are parameters: C11 instantiates `fit` with its `fit_model` model, C12 takes
the fitted models from a table and instantiates `spec` with its spectra.  `Lemmas/GrangerObj.lean`
proves that for EVERY history of reads and `set_input`s each read returns what a fresh analyzer on
the current input returns.
-/
namespace Nitime.GrangerObj

/-- the analyzer's state: current input and the three one-time entries of the instance dict -/
structure Obj (D R G A : Type) where
  input : D
  model : Option R
  gc : Option G
  freqs : Option A

inductive Op (D : Type) where
  | setInput (d : D)
  | readModel
  | readGC
  | readFreqs

inductive Out (R G A : Type) where
  /-- `none` = the read raised -/
  | model (r : Option R)
  | gc (g : Option G)
  | freqs (a : A)
  | done

section
variable {D R G A : Type} (fit : D → Option R) (spec : D → R → G) (axis : D → A)

/-- `GrangerAnalyzer(input, …)`: nothing computed yet -/
def construct (d : D) : Obj D R G A := ⟨d, none, none, none⟩

/-- `BaseAnalyzer.set_input` + the overriding refresh: `reset()` empties the instance dict -/
def setInput (d : D) (_s : Obj D R G A) : Obj D R G A := ⟨d, none, none, none⟩

/-- reading `_model` (or one of its projections) -/
def readModel (s : Obj D R G A) : Obj D R G A × Option R :=
  match s.model with
  | some r => (s, some r)
  | none =>
    match fit s.input with
    | some r => ({ s with model := some r }, some r)
    | none => (s, none)

/-- reading `_granger_causality` (or one of its projections) -/
def readGC (s : Obj D R G A) : Obj D R G A × Option G :=
  match s.gc with
  | some g => (s, some g)
  | none =>
    match readModel fit s with
    | (s1, some r) => ({ s1 with gc := some (spec s1.input r) }, some (spec s1.input r))
    | (s1, none) => (s1, none)

/-- reading `frequencies` -/
def readFreqs (s : Obj D R G A) : Obj D R G A × A :=
  match s.freqs with
  | some a => (s, a)
  | none => ({ s with freqs := some (axis s.input) }, axis s.input)

def step (s : Obj D R G A) : Op D → Obj D R G A × Out R G A
  | .setInput d => (setInput d s, .done)
  | .readModel => let r := readModel fit s; (r.1, .model r.2)
  | .readGC => let r := readGC fit spec s; (r.1, .gc r.2)
  | .readFreqs => let r := readFreqs axis s; (r.1, .freqs r.2)

/-- a history of operations on ONE analyzer object: what each of them returned -/
def run : List (Op D) → Obj D R G A → List (Out R G A)
  | [], _ => []
  | o :: os, s => let r := step fit spec axis s o; r.2 :: run os r.1

/-- the reference: every operation answered by a fresh analyzer on the input current at that time -/
def ref : List (Op D) → D → List (Out R G A)
  | [], _ => []
  | .setInput d :: os, _ => .done :: ref os d
  | .readModel :: os, d => .model (fit d) :: ref os d
  | .readGC :: os, d => .gc ((fit d).map (spec d)) :: ref os d
  | .readFreqs :: os, d => .freqs (axis d) :: ref os d

end
end Nitime.GrangerObj
