/-
`GrangerAnalyzer` as an object with state (core Lean only; shared by the C11 and C12 models).

What it follows (`nitime/analysis/granger.py`, `nitime/analysis/base.py`, `nitime/descriptors.py`):
* `__init__` / `set_input(input)`: the analyzer points at `input` (`self.data`, `self.sampling_rate`,
  `self._n_process` and — unless given — `self.ij` are refreshed from it); `BaseAnalyzer.set_input`
  calls `reset()`, which deletes every one-time attribute stored in the instance dict.
* `_model` (`setattr_on_read`): `fit_model` for every pair of `ij` on the CURRENT data, stored on
  first read; `order`, `autocov`, `model_coef`, `error_cov` are its projections.  `fit_model` may
  raise (`ValueError`, criterion never rises): then nothing is stored.
* `_granger_causality` (`setattr_on_read`): reads `model_coef` / `error_cov` (hence `_model`) and
  evaluates `granger_causality_xy` per pair; `causality_xy`, `causality_yx`,
  `simultaneous_causality`, `spectral_matrix` are its projections / `_dict2arr` placements.
* `frequencies` (`setattr_on_read`): a function of the current input's sampling rate only.

`fit`, `spec`, `axis` are parameters: C11 instantiates `fit` with its `fit_model` model, C12 takes
the fitted models from a table and instantiates `spec` with its spectra.  `Lemmas/GrangerObj.lean`
proves that for EVERY history of reads and `set_input`s each read returns what a fresh analyzer on
the current input returns.
-/
import Nitime.Generated.GrangerAttrs

namespace Nitime.GrangerObj

/-- the analyzer's state: current input and the three one-time entries of the instance dict -/
structure Obj (D R G A : Type) where
  input : D
  model : Option R
  gc : Option G
  freqs : Option A

inductive Op (D : Type) where
  | setInput (d : D)
  | readModel
  | readGC
  | readFreqs

inductive Out (R G A : Type) where
  /-- `none` = the read raised -/
  | model (r : Option R)
  | gc (g : Option G)
  | freqs (a : A)
  | done

section
variable {D R G A : Type} (fit : D → Option R) (spec : D → R → G) (axis : D → A)

/-- `GrangerAnalyzer(input, …)`: nothing computed yet -/
def construct (d : D) : Obj D R G A := ⟨d, none, none, none⟩

/-- `BaseAnalyzer.set_input` + the overriding refresh: `reset()` empties the instance dict -/
def setInput (d : D) (_s : Obj D R G A) : Obj D R G A := ⟨d, none, none, none⟩

/-- reading `_model` (or one of its projections) -/
def readModel (s : Obj D R G A) : Obj D R G A × Option R :=
  match s.model with
  | some r => (s, some r)
  | none =>
    match fit s.input with
    | some r => ({ s with model := some r }, some r)
    | none => (s, none)

/-- reading `_granger_causality` (or one of its projections) -/
def readGC (s : Obj D R G A) : Obj D R G A × Option G :=
  match s.gc with
  | some g => (s, some g)
  | none =>
    match readModel fit s with
    | (s1, some r) => ({ s1 with gc := some (spec s1.input r) }, some (spec s1.input r))
    | (s1, none) => (s1, none)

/-- reading `frequencies` -/
def readFreqs (s : Obj D R G A) : Obj D R G A × A :=
  match s.freqs with
  | some a => (s, a)
  | none => ({ s with freqs := some (axis s.input) }, axis s.input)

def step (s : Obj D R G A) : Op D → Obj D R G A × Out R G A
  | .setInput d => (setInput d s, .done)
  | .readModel => let r := readModel fit s; (r.1, .model r.2)
  | .readGC => let r := readGC fit spec s; (r.1, .gc r.2)
  | .readFreqs => let r := readFreqs axis s; (r.1, .freqs r.2)

/-- a history of operations on ONE analyzer object: what each of them returned -/
def run : List (Op D) → Obj D R G A → List (Out R G A)
  | [], _ => []
  | o :: os, s => let r := step fit spec axis s o; r.2 :: run os r.1

/-- the reference: every operation answered by a fresh analyzer on the input current at that time -/
def ref : List (Op D) → D → List (Out R G A)
  | [], _ => []
  | .setInput d :: os, _ => .done :: ref os d
  | .readModel :: os, d => .model (fit d) :: ref os d
  | .readGC :: os, d => .gc ((fit d).map (spec d)) :: ref os d
  | .readFreqs :: os, d => .freqs (axis d) :: ref os d

end
/-! ### `_model` as a loop over the pairs that may FAIL part-way (L7)

`_model` calls `fit_model` pair by pair; for `order=None` each call may raise `ValueError` (criterion never rises below
`max_order`) after earlier pairs were fitted.  Today's loop collects into a LOCAL dict, so a failed read leaves nothing
behind.  `keep = true` is the other discipline (seed C15-10): the per-pair fits go to a plain instance attribute
(`kept`, not a one-time attribute, hence not cleared by `reset()` / `set_input`), pairs found there are skipped, and
the attribute is deleted only when the loop completes.  Which one the source has is GENERATED
(`Generated/GrangerAttrs.lean`: the instance attributes written outside `__init__` / `set_input` that are not one-time
properties; today none, so `keepPartial = false`). -/

/-- the discipline the SOURCE has: partial fits are kept iff `_model` writes a surviving instance attribute (generated) -/
def keepPartial : Bool :=
  !Nitime.Generated.GrangerAttrs.survivors.isEmpty || !Nitime.Generated.GrangerAttrs.modelAccumulatorIsLocal

structure ObjK (D P F : Type) where
  input : D
  model : Option (List (P × F))
  kept : List (P × F)

inductive OpK (D : Type) where
  | setInput (d : D)
  | readModel

inductive OutK (P F : Type) where
  /-- `none` = the read raised -/
  | model (r : Option (List (P × F)))
  | done

section
variable {D P F : Type} [DecidableEq P] (pairs : D → List P) (fit1 : D → P → Option F)

/-- what a fresh analyzer's `_model` returns on input `d`: every pair fitted, in `ij` order; the first failure propagates -/
def fitList (d : D) : List P → Option (List (P × F))
  | [] => some []
  | p :: ps =>
    match fit1 d p with
    | none => none
    | some f =>
      match fitList d ps with
      | none => none
      | some l => some ((p, f) :: l)

/-- the loop with its accumulator `k`; result = (accumulator at exit, completed?) -/
def loopK (keep : Bool) (d : D) : List P → List (P × F) → List (P × F) × Bool
  | [], k => (k, true)
  | p :: ps, k =>
    if keep && k.any (fun e => decide (e.1 = p)) then loopK keep d ps k else
    match fit1 d p with
    | some f => loopK keep d ps (k ++ [(p, f)])
    | none => (k, false)

def constructK (d : D) : ObjK D P F := ⟨d, none, []⟩

/-- `reset()` deletes the one-time attributes only -/
def setInputK (d : D) (s : ObjK D P F) : ObjK D P F := ⟨d, none, s.kept⟩

def readModelK (keep : Bool) (s : ObjK D P F) : ObjK D P F × Option (List (P × F)) :=
  match s.model with
  | some m => (s, some m)
  | none =>
    let r := loopK fit1 keep s.input (pairs s.input) (if keep then s.kept else [])
    if r.2 then ({ s with model := some r.1, kept := [] }, some r.1)
    else ({ s with kept := if keep then r.1 else [] }, none)

def stepK (keep : Bool) (s : ObjK D P F) : OpK D → ObjK D P F × OutK P F
  | .setInput d => (setInputK d s, .done)
  | .readModel => let r := readModelK pairs fit1 keep s; (r.1, .model r.2)

def runK (keep : Bool) : List (OpK D) → ObjK D P F → List (OutK P F)
  | [], _ => []
  | o :: os, s => let r := stepK pairs fit1 keep s o; r.2 :: runK keep os r.1

/-- the reference: every read answered by a fresh analyzer on the input current at that time -/
def refK : List (OpK D) → D → List (OutK P F)
  | [], _ => []
  | .setInput d :: os, _ => .done :: refK os d
  | .readModel :: os, d => .model (fitList fit1 d (pairs d)) :: refK os d

end

end Nitime.GrangerObj
