/-
C16 — operations never corrupt their operands, copies or inputs: object-store model (core Lean).

The store holds the caller-owned int64 arrays (`List Int` each; id = position).  Every model
function returns the store afterwards together with its result, so that "the operand is
bit-for-bit unchanged" is a statement about the returned store.

Follows the source:
* `TimeArray._convert_if_needed` + operators  → `convertOperand`, `binop` (values: the C01 model)
* `TimeArray.__setitem__`                     → `setItem`
* `UniformTime._convert_and_check_uniformity` → `checkUniform` (values and check: the C17 model)
* `__array_finalize__` for copies / views     → C17 (`inheritAttrs`; theorems in Props/C17)
* `TimeSeries.copy`, `__add__ … __idiv__`     → `seriesCopy`, `seriesArith`, `seriesInplace`
* `periodogram_csd`: reshape in place – compute – restore → `csd` (three steps, failure points)

`Cfg` switches select the unrepaired behaviour site by site: `fixed` = the intended behaviour
(= /repo HEAD after commits 88b21bc and 90529f2); `current` = the source as it stood when this
check was first run (`_convert_if_needed` and `_convert_and_check_uniformity` repaired,
`__setitem__` and `periodogram_csd` not); `beforeFirstRepair` = the original snapshot.
Operand dtypes (phase 3): the caller's ndarray operand is int64, int32 or float64.  A buffer in the
store is the raw element data — int64 / int32 elements as integers, float64 elements as their IEEE
bit patterns — so "bit for bit unchanged" is equality of stores for every dtype; the dtype lives in
the operand handle, as in numpy's array header.  `_convert_if_needed` dispatches on
`issubclass(val.dtype.type, np.integer)`: integer dtypes → `val.astype(np.int64) * factor`, anything
else → `(val * factor).round().astype(np.int64)` (exact binary64: `F64`).

`remove_bias` / `crosscov` (nitime/utils.py) as store transformers on exact rationals: which step
makes a fresh buffer, which hands back / works on its argument (`ChainCfg`; the switches of the
source as it stands are read off the translator's alias table `Generated.C16Alias`).
Metadata as a nested container graph, deep copy as a total `Except` function, the shallow-fallback variant: Model/C16Copy.lean (round 2).
-/
import Nitime.Model.C01
import Nitime.Model.C17
import Nitime.Generated.C16Alias
import Nitime.Model.C16Copy

namespace Nitime.C16
open Nitime

structure Cfg where
  /-- `_convert_if_needed` scales an ndarray operand in place (before commit 38397b6) -/
  binopInPlace : Bool
  /-- `__setitem__` does `val *= factor` -/
  setitemInPlace : Bool
  /-- `_convert_and_check_uniformity` does `val *= factor` before it checks anything -/
  uniformInPlace : Bool
  /-- `periodogram_csd` reshapes its input in place and restores it at the end -/
  csdInPlace : Bool
  deriving Repr, DecidableEq

def fixed : Cfg := ⟨false, false, false, false⟩
def current : Cfg := ⟨false, true, false, true⟩
def beforeFirstRepair : Cfg := ⟨true, true, true, true⟩

abbrev Store := List (List Int)

def aget (st : Store) (i : Nat) : List Int := st.getD i []

/-- the right-hand operand as the caller holds it -/
inductive Operand where
  | pyint (k : Int)                      -- python / numpy integer scalar
  | pylist (xs : List Int)               -- python list of integers
  | arr64 (id : Nat)                     -- the caller's int64 ndarray (in the store)
  | time (ps : List Int) (scalar : Bool) (u : TimeUnit)   -- a time object: never scaled
  | arr32 (id : Nat)                     -- the caller's int32 ndarray (elements in the store)
  | arrF (id : Nat)                      -- the caller's float64 ndarray (IEEE bit patterns in the store)
  deriving Repr, DecidableEq

/-- two's-complement wrap of an int32 element (numpy's same-kind cast back into an int32 buffer) -/
def wrap32 (v : Int) : Int := (v + 2147483648) % 4294967296 - 2147483648

/-- the exact value of a float64 element given by its bit pattern -/
def f64Of (b : Int) : Rat := F64.ofBits b.toNat

/-- `x * factor` in binary64 (the python-int factor is converted to binary64 first) -/
def f64Scale (f : Int) (b : Int) : Rat := F64.fmul (f64Of b) (F64.ofInt f)

/-- the operand read in base units with conversion factor `f`; with `inPlace` an ndarray operand
is overwritten by its scaled values (`val *= factor`) -/
def convertOperand (inPlace : Bool) (st : Store) (f : Int) : Operand → Store × List Int × Bool
  | .pyint k => (st, [k * f], true)
  | .pylist xs => (st, xs.map (· * f), false)
  | .arr64 id =>
    let scaled := (aget st id).map (· * f)
    (if inPlace then st.set id scaled else st, scaled, false)
  | .time ps sc _ => (st, ps, sc)
  | .arr32 id =>
    -- integer dtype: `val.astype(np.int64) * factor` — a new int64 array; the unrepaired `val *= factor`
    -- multiplied inside the int32 buffer (wrapping)
    let scaled := (aget st id).map (· * f)
    if inPlace then (st.set id (scaled.map wrap32), scaled.map wrap32, false) else (st, scaled, false)
  | .arrF id =>
    -- any other dtype: `(val * factor).round().astype(np.int64)` — two new arrays; the unrepaired
    -- `val *= factor` left the products in the caller's float64 buffer
    let prods := (aget st id).map (f64Scale f)
    (if inPlace then st.set id (prods.map fun q => (F64.toBits q : Int)) else st, prods.map F64.rint, false)

/-- the same operand as the C01 model sees it (for the result values) -/
def toC01 (st : Store) : Operand → C01.Operand
  | .pyint k => .bare true [.int k]
  | .pylist xs => .bare false (xs.map .int)
  | .arr64 id => .bare false ((aget st id).map .int)
  | .time ps sc u => .time ⟨ps, u, sc⟩
  | .arr32 id => .bare false ((aget st id).map .int)
  | .arrF id => .bare false ((aget st id).map fun b => .flt (f64Of b))

inductive BinOp where
  | ar (o : C01.ArithOp) | cm (o : C01.CmpOp)
  deriving Repr, DecidableEq

inductive BinRes where
  | time (t : C01.TVal) | bools (bs : List Bool) (scalar : Bool) | err
  deriving Repr, DecidableEq

/-- `self <op> val` on a TimeArray: store afterwards and result -/
def binop (cfg : Cfg) (st : Store) (self : C01.TVal) (op : BinOp) (v : Operand) : Store × BinRes :=
  let st' := (convertOperand cfg.binopInPlace st (C17.factorOf self.unit) v).1
  let r := match op with
    | .ar o => match C01.arith o self (toC01 st v) with
      | .ok t => BinRes.time t
      | .error _ => .err
    | .cm o => match C01.compare o self (toC01 st v) with
      | .ok (bs, sc) => .bools bs sc
      | .error _ => .err
  (st', r)

/-- `self[a:b] = val` (0 ≤ a ≤ b ≤ n; `b = a + 1` for an integer key) on a TimeArray:
store afterwards and the payload of `self` afterwards; `none` = ValueError (shape mismatch) -/
def setItem (cfg : Cfg) (st : Store) (self : C01.TVal) (a b : Nat) (v : Operand) :
    Store × Option (List Int) :=
  let (st', vals, _) := convertOperand cfg.setitemInPlace st (C17.factorOf self.unit) v
  let m := b - a
  if b ≤ self.ps.length ∧ a ≤ b then
    if vals.length = m then (st', some (self.ps.take a ++ vals ++ self.ps.drop b))
    else if vals.length = 1 then (st', some (self.ps.take a ++ List.replicate m (vals.headD 0) ++ self.ps.drop b))
    else (st', none)
  else (st', none)

/-- `np.diff` of a float64 array (binary64 subtraction) -/
def diffQ : List Rat → List Rat
  | a :: b :: rest => F64.fsub b a :: diffQ (b :: rest)
  | _ => []

/-- the uniformity check on float64 values: `dv[0]`, every difference equal to it; the caller takes `int(dv[0])` -/
def rampStepQ (vals : List Rat) : Except C17.Err Int :=
  match diffQ vals with
  | [] => .error .indexError
  | d :: ds => if ds.all (· == d) then .ok (F64.trunc d) else .error .valueError

/-- the operand conversion and uniformity check of `UniformTime += / -=` for a 1-d operand:
store afterwards and the step of the operand, or the refusal.  A float64 array is scaled in
binary64 and NOT rounded here (`val * factor`), its differences are compared as floats (numpy then
refuses to add the float array into the int64 axis — outside this function). -/
def checkUniform (cfg : Cfg) (st : Store) (u : TimeUnit) (v : Operand) : Store × Except C17.Err Int :=
  let c := convertOperand cfg.uniformInPlace st (C17.factorOf u) v
  match v with
  | .arrF id =>
    (c.1, match (aget st id).map (f64Scale (C17.factorOf u)) with
      | [] => .error .valueError
      | [_] => .ok 0
      | prods => rampStepQ prods)
  | _ =>
    if c.2.2 then (c.1, .ok 0)
    else match c.2.1 with
      | [] => (c.1, .error .valueError)      -- an empty operand is refused (repo fix 13e5132)
      | [_] => (c.1, .ok 0)                  -- a one-element 1-d operand is broadcast: a shift
      | _ => (c.1, C17.rampStep c.2.1)

/-! ### time series: copy, arithmetic through a copy, in-place arithmetic -/
structure Series where
  data : Nat
  t0 : Nat
  dt : Nat
  info : Nat
  /-- the lazily created `.time` axis object (`setattr_on_read`): absent until first read -/
  time : Option Nat := none
  deriving Repr, DecidableEq

def Series.ids (s : Series) : List Nat := [s.data, s.t0, s.dt, s.info] ++ s.time.toList

/-- content of the axis object of a series: the cached one, else what `.time` would build -/
def timeContent (st : Store) (s : Series) : List Int :=
  match s.time with
  | some i => aget st i
  | none => aget st s.t0 ++ aget st s.dt

/-- `TimeSeries.copy()`: new data buffer, new time axis (`self.time.copy()`: its own object whether
or not the operand's `.time` had been read before), own attribute objects, new metadata -/
def seriesCopy (st : Store) (s : Series) : Store × Series :=
  let n := st.length
  (st ++ [aget st s.data, aget st s.t0, aget st s.dt, aget st s.info, timeContent st s],
   { data := n, t0 := n + 1, dt := n + 2, info := n + 3, time := some (n + 4) })

/-- `a + other`, `a - other`, …: `out = self.copy(); out.data = out.data.__op__(other)` -/
def seriesArith (st : Store) (f : Int → Int → Int) (s : Series) (other : Nat) : Store × Series :=
  let (st1, out) := seriesCopy st s
  let n := st1.length
  (st1 ++ [List.zipWith f (aget st1 out.data) (aget st1 other)], { out with data := n })

/-- `a += other`: `self.data.__iadd__(other)` writes into the series' own buffer -/
def seriesInplace (st : Store) (f : Int → Int → Int) (s : Series) (other : Nat) : Store :=
  st.set s.data (List.zipWith f (aget st s.data) (aget st other))

/-! ### `periodogram_csd`: reshape – compute – restore -/
structure ArrMeta where
  shape : List Nat
  contiguous : Bool
  deriving Repr, DecidableEq

/-- `(-1, N)` -/
def flat2 (shape : List Nat) : List Nat := [shape.dropLast.foldl (· * ·) 1, shape.getLastD 1]

/-- where the middle step raises -/
inductive Fail where
  | none | compute
  deriving Repr, DecidableEq

inductive CErr where | attributeError | valueError deriving Repr, DecidableEq

def csd (cfg : Cfg) (s : ArrMeta) (fail : Fail) : ArrMeta × Option CErr :=
  if cfg.csdInPlace then
    -- step 1: `s.shape = (-1, N)` — numpy refuses when the new shape needs a copy
    if !s.contiguous && s.shape.length ≥ 3 then (s, some .attributeError)
    else
      let s1 := { s with shape := flat2 s.shape }
      -- step 2: `Sk.shape` / `fftpack.fft(s, n=NFFT)` may raise
      if fail = .compute then (s1, some .valueError)
      -- step 3: `s.shape = s_shape`
      else ({ s1 with shape := s.shape }, none)
  else
    -- `s.reshape((-1, N))`: a view or a copy; the caller's array is never touched
    if fail = .compute then (s, some .valueError) else (s, none)

/-! ### `remove_bias` / `crosscov` (nitime/utils.py): fresh buffer or the argument itself

Buffers of exact rationals; ids as before.  A routine returns the store afterwards and the id of
the buffer its result lives in. -/
abbrev QStore := List (List Rat)

def qget (st : QStore) (i : Nat) : List Rat := st.getD i []

structure ChainCfg where
  /-- `remove_bias` hands back its argument (no new array) when the mean along the axis is exactly 0 -/
  rbReturnsArg : Bool
  /-- `crosscov` applies the 1/N normalisation by an in-place division of the de-meaned `x` -/
  normalizeInX : Bool
  deriving Repr, DecidableEq

/-- the source as intended: `x - mean` is always a new array, 1/N is applied to the new `cxy` -/
def chainFixed : ChainCfg := ⟨false, false⟩

def qsum (xs : List Rat) : Rat := xs.foldl (· + ·) 0
def qmean (xs : List Rat) : Rat := if xs.length = 0 then 0 else qsum xs / (xs.length : Rat)

/-- `remove_bias(x, axis)`: `x - mean` in a new buffer (or, with the switch, `x` itself when the mean is 0) -/
def removeBias (cfg : ChainCfg) (st : QStore) (x : Nat) : QStore × Nat :=
  let xs := qget st x
  let mn := qmean xs
  if cfg.rbReturnsArg && mn == 0 then (st, x)
  else (st ++ [xs.map (· - mn)], st.length)

/-- full linear convolution (the documented result of `fftconvolve(a, b, mode='full')`), naive O(n²) -/
def fullConv (a b : List Rat) : List Rat :=
  if a.length = 0 ∨ b.length = 0 then [] else
  (List.range (a.length + b.length - 1)).map fun k =>
    qsum ((List.range a.length).map fun i => if i ≤ k ∧ k - i < b.length then a.getD i 0 * b.getD (k - i) 0 else 0)

/-- `if debias: x = remove_bias(x, axis)` -/
def debiasStep (cfg : ChainCfg) (st : QStore) (x : Nat) (debias : Bool) : QStore × Nat :=
  if debias then removeBias cfg st x else (st, x)

/-- the switch: `x /= N` inside the debias branch (then `normalize = False`) -/
def normInXStep (inX : Bool) (st : QStore) (x1 n : Nat) : QStore :=
  if inX then st.set x1 ((qget st x1).map (· / (n : Rat))) else st

/-- `cxy = fftconvolve(x, y[::-1].conj(), mode='full')` — the reversed view of `y` is only read, the
result is a new array — followed by `if normalize: cxy /= N`, in place on that new array -/
def convStep (st : QStore) (x1 y1 n : Nat) (divide : Bool) : QStore :=
  let cxy := fullConv (qget st x1) (qget st y1).reverse
  st ++ [if divide then cxy.map (· / (n : Rat)) else cxy]

/-- `crosscov(x, y, all_lags, debias, normalize)` on 1-d real input: `none` = ValueError (different
lengths, raised before anything is touched).  Result: (store afterwards, id of the result buffer,
the values returned — the whole buffer, or its slice `[N-1 : 2N-1]`) -/
def crosscov (cfg : ChainCfg) (st : QStore) (x y : Nat) (allLags debias normalize : Bool) :
    QStore × Option (Nat × List Rat) :=
  if (qget st x).length ≠ (qget st y).length then (st, none) else
  let n := (qget st x).length
  let p1 := debiasStep cfg st x debias
  let p2 := debiasStep cfg p1.1 y debias
  let inX := cfg.normalizeInX && debias && normalize
  let st3 := normInXStep inX p2.1 p1.2 n
  let st4 := convStep st3 p1.2 p2.2 n (normalize && !inX)
  let vals := qget st4 st3.length
  (st4, some (st3.length, if allLags then vals else (vals.drop (n - 1)).take n))

/-! the switches of the source as it stands, read off the translator's table -/
open Generated.C16Alias in
/-- does the return value of `module.func` possibly alias one of its parameters? -/
def returnsArg (m f : String) : Bool :=
  fns.any fun g => g.module == m && g.func == f && !g.returnsAlias.isEmpty

open Generated.C16Alias in
/-- does `module.func` contain an in-place statement whose target may be a parameter's object? -/
def writesArg (m f : String) : Bool :=
  writes.any fun w => w.module == m && w.func == f && !w.argAliases.isEmpty

open Generated.C16Alias in
/-- is `module.func` in the table at all (a renamed / removed routine must not satisfy the theorem vacuously) -/
def known (m f : String) : Bool := fns.any fun g => g.module == m && g.func == f

def sourceChain : ChainCfg := ⟨returnsArg "utils" "remove_bias", writesArg "utils" "crosscov"⟩

/-! ### line protocol -/
open Proto

def parseStoreArr? (s : String) : Option (List Int) := parseIntList? s

/-- `x<16 hex>` list: the bit patterns of float64 elements -/
def parseBitsList? (s : String) : Option (List Nat) :=
  (splitList s).mapM fun (t : String) => if t.startsWith "x" then parseHex? (t.drop 1).toString else none

/-- `i:<k>` | `l:<list>` | `a:<list>` (an int64 array, put into the store at id 0) | `T:…` -/
def parseOperand? (s : String) : Option (Store × Operand) :=
  match s.splitOn ":" with
  | ["i", k] => k.toInt?.map fun k => ([], .pyint k)
  | ["l", xs] => (parseIntList? xs).map fun xs => ([], .pylist xs)
  | ["a", xs] => (parseIntList? xs).map fun xs => ([xs], .arr64 0)
  | ["a32", xs] => (parseIntList? xs).map fun xs => ([xs], .arr32 0)
  | ["f", xs] => (parseBitsList? xs).map fun bs => ([bs.map fun (b : Nat) => (b : Int)], .arrF 0)
  | _ => (C01.parseT? s).map fun t => ([], .time t.ps t.scalar t.unit)

def showOperandAfter (st : Store) : Operand → String
  | .arr64 id => showIntList (aget st id)
  | .arr32 id => showIntList (aget st id)
  | .arrF id => joinList ((aget st id).map fun b => "x" ++ hex64 b.toNat)
  | _ => "same"

def cfgOf (s : String) : Option Cfg :=
  if s = "fixed" then some fixed else if s = "current" then some current
  else if s = "before" then some beforeFirstRepair else none

def handle1 (cfg : Cfg) (args : List String) : String :=
  match args with
  | ["binop", op, t, v] => match C01.parseT? t, parseOperand? v with
    | some t, some (st, v) =>
      let o? : Option BinOp := match op with
        | "add" => some (.ar .add) | "sub" => some (.ar .sub) | "radd" => some (.ar .radd) | "rsub" => some (.ar .rsub)
        | "lt" => some (.cm .lt) | "le" => some (.cm .le) | "gt" => some (.cm .gt) | "ge" => some (.cm .ge)
        | "eq" => some (.cm .eq) | _ => none
      match o? with
      | some o =>
        let (st', r) := binop cfg st t o v
        let rs := match r with
          | .time t => "ok " ++ C01.showT t
          | .bools bs sc => s!"ok B:{if sc then "1" else "0"}:{showBoolList bs}"
          | .err => "err"
        s!"{rs} operand={showOperandAfter st' v}"
      | none => "bad-op"
    | _, _ => "bad-op"
  | ["setitem", t, a, b, v] => match C01.parseT? t, a.toNat?, b.toNat?, parseOperand? v with
    | some t, some a, some b, some (st, v) =>
      let (st', r) := setItem cfg st t a b v
      let rs := match r with
        | some ps => "ok " ++ showIntList ps
        | none => "err"
      s!"{rs} operand={showOperandAfter st' v}"
    | _, _, _, _ => "bad-op"
  | ["uniform", u, v] => match TimeUnit.ofString? u, parseOperand? v with
    | some u, some (st, v) =>
      let (st', r) := checkUniform cfg st u v
      let rs := match r with
        | .ok d => s!"ok {d}"
        | .error e => "err " ++ e.name
      s!"{rs} operand={showOperandAfter st' v}"
    | _, _ => "bad-op"
  | ["series", data, other] => match parseIntList? data, parseIntList? other with
    | some d, some o =>
      -- store: 0 data, 1 t0, 2 dt, 3 meta, 4 other
      let st : Store := [d, [0], [1], [7], o]
      let s : Series := { data := 0, t0 := 1, dt := 2, info := 3 }
      let (st1, out) := seriesArith st (· + ·) s 4
      let st2 := seriesInplace st1 (· + ·) out 4
      let (st3, c) := seriesCopy st2 s
      let st4 := seriesInplace st3 (· * ·) c 4
      s!"ok sum={showIntList (aget st1 out.data)} sum2={showIntList (aget st2 out.data)} copyprod={showIntList (aget st4 c.data)} orig={showIntList (aget st4 0)} other={showIntList (aget st4 4)}"
    | _, _ => "bad-op"
  | ["csd", shape, contig, fail] => match parseNatList? shape with
    | some sh =>
      let f := if fail = "none" then Fail.none else Fail.compute
      let (s', e) := csd cfg ⟨sh, contig = "1"⟩ f
      let es := match e with
        | none => "ok" | some .attributeError => "err" | some .valueError => "err"
      s!"{es} shape={showNatList s'.shape}"
    | none => "bad-op"
  | ["crosscov", xs, ys, al, db, nm] => match parseIntList? xs, parseIntList? ys with
    | some xs, some ys =>
      let st : QStore := [xs.map fun (v : Int) => (v : Rat), ys.map fun (v : Int) => (v : Rat)]
      let (st', r) := crosscov chainFixed st 0 1 (al = "1") (db = "1") (nm = "1")
      let same := if qget st' 0 == qget st 0 && qget st' 1 == qget st 1 then "same" else "changed"
      match r with
      | some (_, vals) => s!"ok {showFloatList (vals.map F64.toFloat)} inputs={same}"
      | none => s!"err inputs={same}"
    | _, _ => "bad-op"
  | _ => "bad-op"

/-- every line is answered for the repaired and for the pinned behaviour: `<fixed> ## <current>` -/
def handle (args : List String) : String :=
  match args with
  | "seriescopy" :: rest =>
    -- round 2: copy / arithmetic on a series whose metadata is a container graph (Model/C16Copy.lean);
    -- `<the source: no handler> ## <the shallow-fallback variant>`
    Copy.handle ("strict" :: rest) ++ " ## " ++ Copy.handle ("fallback" :: rest)
  | _ => handle1 fixed args ++ " ## " ++ handle1 current args

end Nitime.C16
