/-
C20 — conditional mutual information on a finite box is non-negative (Gibbs), with its entropy
decomposition; and joint entropy dominates a marginal entropy.  Used for transfer entropy ≥ 0 and
the bounds of the entropy correlation coefficient.
-/
import Nitime.Lemmas.C20Info
import Mathlib.Algebra.BigOperators.Field

namespace Nitime.C20
open Finset Real

theorem sum3_reorder {α γ β : Type*} (FA : Finset α) (FC : Finset γ) (FB : Finset β) (f : α → γ → β → ℝ) :
    ∑ a ∈ FA, ∑ c ∈ FC, ∑ b ∈ FB, f a c b = ∑ b ∈ FB, ∑ a ∈ FA, ∑ c ∈ FC, f a c b := by
  calc ∑ a ∈ FA, ∑ c ∈ FC, ∑ b ∈ FB, f a c b
      = ∑ a ∈ FA, ∑ b ∈ FB, ∑ c ∈ FC, f a c b := sum_congr rfl fun a _ => sum_comm
    _ = ∑ b ∈ FB, ∑ a ∈ FA, ∑ c ∈ FC, f a c b := sum_comm

section ckl
variable {α γ β : Type*} (FA : Finset α) (FC : Finset γ) (FB : Finset β) (P : α → γ → β → ℝ)

/-- marginal over the middle variable -/
def mAB (a : α) (b : β) : ℝ := ∑ c ∈ FC, P a c b
/-- marginal over the first variable -/
def mCB (c : γ) (b : β) : ℝ := ∑ a ∈ FA, P a c b
/-- marginal of the conditioning variable -/
def mB (b : β) : ℝ := ∑ a ∈ FA, ∑ c ∈ FC, P a c b

variable (hP : ∀ a c b, 0 ≤ P a c b)
include hP

theorem mAB_nonneg (a : α) (b : β) : 0 ≤ mAB FC P a b := sum_nonneg fun _ _ => hP _ _ _
theorem mCB_nonneg (c : γ) (b : β) : 0 ≤ mCB FA P c b := sum_nonneg fun _ _ => hP _ _ _
theorem mB_nonneg (b : β) : 0 ≤ mB FA FC P b := sum_nonneg fun _ _ => sum_nonneg fun _ _ => hP _ _ _

theorem pos_margins {a : α} {c : γ} {b : β} (ha : a ∈ FA) (hc : c ∈ FC) (hpos : 0 < P a c b) :
    0 < mAB FC P a b ∧ 0 < mCB FA P c b ∧ 0 < mB FA FC P b := by
  have h1 : P a c b ≤ mAB FC P a b :=
    single_le_sum (f := fun c' => P a c' b) (fun c' _ => hP a c' b) hc
  have h2 : P a c b ≤ mCB FA P c b :=
    single_le_sum (f := fun a' => P a' c b) (fun a' _ => hP a' c b) ha
  have h3 : mAB FC P a b ≤ mB FA FC P b :=
    single_le_sum (f := fun a' => ∑ c' ∈ FC, P a' c' b) (fun a' _ => sum_nonneg fun c' _ => hP a' c' b) ha
  exact ⟨lt_of_lt_of_le hpos h1, lt_of_lt_of_le hpos h2, lt_of_lt_of_le hpos (h1.trans h3)⟩

omit hP in
theorem sum_mCB (b : β) : ∑ c ∈ FC, mCB FA P c b = mB FA FC P b := by
  unfold mCB mB; rw [sum_comm]

/-- conditional mutual information `I(A;C|B) ≥ 0` -/
theorem ckl_nonneg :
    0 ≤ ∑ a ∈ FA, ∑ c ∈ FC, ∑ b ∈ FB,
      P a c b * log (P a c b / (mAB FC P a b * mCB FA P c b / mB FA FC P b)) := by
  have key := gibbs_on (FA ×ˢ (FC ×ˢ FB)) (fun z => P z.1 z.2.1 z.2.2)
    (fun z => mAB FC P z.1 z.2.2 * mCB FA P z.2.1 z.2.2 / mB FA FC P z.2.2)
    (fun z _ => hP _ _ _)
    (fun z _ => div_nonneg (mul_nonneg (mAB_nonneg FC P hP _ _) (mCB_nonneg FA P hP _ _))
      (mB_nonneg FA FC P hP _))
    (fun z hz hpos => by
      obtain ⟨ha, hcb⟩ := mem_product.mp hz
      obtain ⟨hc, _⟩ := mem_product.mp hcb
      obtain ⟨h1, h2, h3⟩ := pos_margins FA FC P hP ha hc hpos
      exact div_pos (mul_pos h1 h2) h3)
    (by
      rw [sum_product, sum_product]
      simp only [sum_product]
      rw [sum3_reorder FA FC FB, sum3_reorder FA FC FB]
      refine sum_le_sum fun b _ => ?_
      have : ∑ a ∈ FA, ∑ c ∈ FC, mAB FC P a b * mCB FA P c b / mB FA FC P b
          = (∑ a ∈ FA, mAB FC P a b) * (∑ c ∈ FC, mCB FA P c b) / mB FA FC P b := by
        rw [sum_mul_sum, sum_div]
        refine sum_congr rfl fun a _ => ?_
        rw [sum_div]
      rw [this, sum_mCB FA FC P]
      have hA : ∑ a ∈ FA, mAB FC P a b = mB FA FC P b := rfl
      have hR : ∑ a ∈ FA, ∑ c ∈ FC, P a c b = mB FA FC P b := rfl
      rw [hA, hR]
      by_cases h0 : mB FA FC P b = 0
      · rw [h0]; simp
      · rw [mul_div_assoc, div_self h0, mul_one])
  rw [sum_product] at key
  simpa only [sum_product] using key

/-- the entropy decomposition of the conditional mutual information -/
theorem ckl_decomp :
    ∑ a ∈ FA, ∑ c ∈ FC, ∑ b ∈ FB,
        P a c b * log (P a c b / (mAB FC P a b * mCB FA P c b / mB FA FC P b))
      = (∑ a ∈ FA, ∑ c ∈ FC, ∑ b ∈ FB, P a c b * log (P a c b))
        + (∑ b ∈ FB, mB FA FC P b * log (mB FA FC P b))
        - (∑ a ∈ FA, ∑ b ∈ FB, mAB FC P a b * log (mAB FC P a b))
        - (∑ c ∈ FC, ∑ b ∈ FB, mCB FA P c b * log (mCB FA P c b)) := by
  have hB : ∑ b ∈ FB, mB FA FC P b * log (mB FA FC P b)
      = ∑ a ∈ FA, ∑ c ∈ FC, ∑ b ∈ FB, P a c b * log (mB FA FC P b) := by
    rw [sum3_reorder FA FC FB]
    refine sum_congr rfl fun b _ => ?_
    unfold mB
    rw [sum_mul]
    exact sum_congr rfl fun a _ => by rw [sum_mul]
  have hAB : ∑ a ∈ FA, ∑ b ∈ FB, mAB FC P a b * log (mAB FC P a b)
      = ∑ a ∈ FA, ∑ c ∈ FC, ∑ b ∈ FB, P a c b * log (mAB FC P a b) := by
    refine sum_congr rfl fun a _ => ?_
    symm
    rw [sum_comm (s := FC) (t := FB)]
    refine sum_congr rfl fun b _ => ?_
    unfold mAB
    rw [sum_mul]
  have hCB : ∑ c ∈ FC, ∑ b ∈ FB, mCB FA P c b * log (mCB FA P c b)
      = ∑ a ∈ FA, ∑ c ∈ FC, ∑ b ∈ FB, P a c b * log (mCB FA P c b) := by
    symm
    rw [sum_comm (s := FA) (t := FC)]
    refine sum_congr rfl fun c _ => ?_
    rw [sum_comm (s := FA) (t := FB)]
    refine sum_congr rfl fun b _ => ?_
    unfold mCB
    rw [sum_mul]
  rw [hB, hAB, hCB, ← sum_add_distrib, ← sum_sub_distrib, ← sum_sub_distrib]
  refine sum_congr rfl fun a ha => ?_
  rw [← sum_add_distrib, ← sum_sub_distrib, ← sum_sub_distrib]
  refine sum_congr rfl fun c hc => ?_
  rw [← sum_add_distrib, ← sum_sub_distrib, ← sum_sub_distrib]
  refine sum_congr rfl fun b _ => ?_
  rcases (hP a c b).eq_or_lt with h0 | hpos
  · rw [← h0]; simp
  · obtain ⟨h1, h2, h3⟩ := pos_margins FA FC P hP ha hc hpos
    rw [log_div hpos.ne' (div_pos (mul_pos h1 h2) h3).ne', log_div (mul_pos h1 h2).ne' h3.ne',
      log_mul h1.ne' h2.ne']
    ring

end ckl

/-- a joint entropy dominates the entropy of a marginal: `−Σ P log P ≥ −Σ p_b log p_b` -/
theorem joint_ge_marginal {α β : Type*} (FA : Finset α) (FB : Finset β) (P : α → β → ℝ)
    (hP : ∀ a b, 0 ≤ P a b) :
    -(∑ b ∈ FB, (∑ a ∈ FA, P a b) * log (∑ a ∈ FA, P a b))
      ≤ -(∑ a ∈ FA, ∑ b ∈ FB, P a b * log (P a b)) := by
  rw [neg_le_neg_iff, sum_comm]
  refine sum_le_sum fun b hb => ?_
  rw [sum_mul]
  refine sum_le_sum fun a ha => ?_
  rcases (hP a b).eq_or_lt with h0 | hpos
  · rw [← h0]; simp
  · have hle' : P a b ≤ ∑ a' ∈ FA, P a' b :=
      single_le_sum (f := fun a' => P a' b) (fun a' _ => hP a' b) ha
    exact mul_le_mul_of_nonneg_left (log_le_log hpos hle') hpos.le

end Nitime.C20
