/-
Helper definitions and lemmas for the C03 operation histories (`Nitime.C03.runHist`): the fold over
lookups and in-place changes, whose state is the container's contents only.
-/
import Nitime.Model.C03
import Nitime.Lemmas.C03
import Mathlib.Tactic.Linarith
import Mathlib.Tactic.Ring

namespace Nitime.C03

/-- is the step an in-place change? -/
def HStep.isChange : HStep → Bool
  | .change _ => true
  | .look _ _ => false

/-- the in-place changes of a history, lookups dropped -/
def changesOf (h : List HStep) : List HStep := h.filter HStep.isChange

/-- the lookups of a history, changes dropped -/
def lookupsOf (h : List HStep) : List HStep := h.filter (fun s => !s.isChange)

/-- the contents of the container after the history -/
def contentsAfter (c : Cont) (h : List HStep) : Cont := (runHist c h).1

/-- the answers given along the history, one per step -/
def answers (c : Cont) (h : List HStep) : List String := (runHist c h).2

theorem stepHist_fst (st : Cont × List String) (o : List String) (s : HStep) :
    (stepHist (st.1, o) s).1 = (stepHist st s).1 := by
  cases s with
  | look op rest => rfl
  | change ch =>
    simp only [stepHist]
    cases ch.apply st.1 <;> rfl

theorem stepHist_snd (c : Cont) (o : List String) (s : HStep) :
    (stepHist (c, o) s).2 = (stepHist (c, []) s).2 ++ o := by
  cases s with
  | look op rest => rfl
  | change ch =>
    simp only [stepHist]
    cases ch.apply c <;> rfl

theorem stepHist_fst' (c : Cont) (o : List String) (s : HStep) :
    (stepHist (c, o) s).1 = (stepHist (c, []) s).1 := stepHist_fst (c, []) o s

theorem foldl_stepHist (h : List HStep) : ∀ (c : Cont) (o : List String),
    h.foldl stepHist (c, o) = ((h.foldl stepHist (c, [])).1, (h.foldl stepHist (c, [])).2 ++ o) := by
  induction h with
  | nil => intro c o; rfl
  | cons s h ih =>
    intro c o
    simp only [List.foldl_cons]
    have e1 : stepHist (c, o) s = ((stepHist (c, []) s).1, (stepHist (c, []) s).2 ++ o) := by
      rw [← stepHist_fst' c o s, ← stepHist_snd c o s]
    rw [e1, ih]
    have e2 : stepHist (c, []) s = ((stepHist (c, []) s).1, (stepHist (c, []) s).2) := rfl
    conv_rhs => rw [e2, ih]
    simp [List.append_assoc]

theorem contentsAfter_nil (c : Cont) : contentsAfter c [] = c := rfl

theorem contentsAfter_cons (c : Cont) (s : HStep) (h : List HStep) :
    contentsAfter c (s :: h) = contentsAfter (stepHist (c, []) s).1 h := by
  simp only [contentsAfter, runHist, List.foldl_cons]
  have e2 : stepHist (c, []) s = ((stepHist (c, []) s).1, (stepHist (c, []) s).2) := rfl
  rw [e2, foldl_stepHist]

theorem stepHist_answers_length (c : Cont) (s : HStep) : (stepHist (c, []) s).2.length = 1 := by
  cases s with
  | look op rest => rfl
  | change ch =>
    simp only [stepHist]
    cases ch.apply c <;> rfl

theorem reverse_of_length_one {α} : ∀ (l : List α), l.length = 1 → l.reverse = l
  | [_], _ => rfl
  | [], h => by simp at h
  | _ :: _ :: _, h => by simp at h

theorem answers_cons (c : Cont) (s : HStep) (h : List HStep) :
    answers c (s :: h) = (stepHist (c, []) s).2 ++ answers (stepHist (c, []) s).1 h := by
  simp only [answers, runHist, List.foldl_cons]
  have e2 : stepHist (c, []) s = ((stepHist (c, []) s).1, (stepHist (c, []) s).2) := rfl
  rw [e2, foldl_stepHist]
  simp [List.reverse_append, reverse_of_length_one _ (stepHist_answers_length c s)]

theorem contentsAfter_append (c : Cont) (h₁ h₂ : List HStep) :
    contentsAfter c (h₁ ++ h₂) = contentsAfter (contentsAfter c h₁) h₂ := by
  induction h₁ generalizing c with
  | nil => rfl
  | cons s h ih => rw [List.cons_append, contentsAfter_cons, contentsAfter_cons, ih]

theorem answers_append (c : Cont) (h₁ h₂ : List HStep) :
    answers c (h₁ ++ h₂) = answers c h₁ ++ answers (contentsAfter c h₁) h₂ := by
  induction h₁ generalizing c with
  | nil => simp [answers, runHist, contentsAfter]
  | cons s h ih => rw [List.cons_append, answers_cons, answers_cons, contentsAfter_cons, ih, List.append_assoc]

theorem answers_length (c : Cont) (h : List HStep) : (answers c h).length = h.length := by
  induction h generalizing c with
  | nil => rfl
  | cons s h ih => rw [answers_cons, List.length_append, stepHist_answers_length, ih, List.length_cons]; omega

/-- lookups do not move the contents -/
theorem contentsAfter_look (c : Cont) (op : String) (rest : List String) (h : List HStep) :
    contentsAfter c (.look op rest :: h) = contentsAfter c h := by
  rw [contentsAfter_cons]; rfl

theorem contentsAfter_changesOf (c : Cont) (h : List HStep) :
    contentsAfter c h = contentsAfter c (changesOf h) := by
  induction h generalizing c with
  | nil => rfl
  | cons s h ih =>
    cases s with
    | look op rest =>
      rw [contentsAfter_look]
      simpa [changesOf, HStep.isChange] using ih c
    | change ch =>
      have : changesOf (.change ch :: h) = .change ch :: changesOf h := by
        simp [changesOf, List.filter_cons, HStep.isChange]
      rw [this, contentsAfter_cons, contentsAfter_cons, ih]

theorem answers_look (c : Cont) (op : String) (rest : List String) :
    answers c [.look op rest] = [lookup c op rest] := rfl

/-! ### element-wise description of the in-place changes of a time array -/

theorem inplaceZip_length (f : Int → Int → Int) (ts xs r : List Int) (h : inplaceZip f ts xs = .ok r) :
    r.length = ts.length := by
  unfold inplaceZip at h
  split at h
  · cases h; simp [*]
  · split at h
    · cases h; simp
    · cases h

theorem getD_zipWith (f : Int → Int → Int) (a b : List Int) (j : Nat) (h : a.length = b.length) (hj : j < a.length) :
    (List.zipWith f a b).getD j 0 = f (a.getD j 0) (b.getD j 0) := by
  have hb : j < b.length := by omega
  simp [List.getD_eq_getElem?_getD, hj, hb]

theorem getD_map (f : Int → Int) (a : List Int) (j : Nat) (hj : j < a.length) :
    (a.map f).getD j 0 = f (a.getD j 0) := by
  simp [List.getD_eq_getElem?_getD, hj]

/-- numpy's in-place broadcasting: position `j` is combined with operand element `j`, or with the single element -/
theorem inplaceZip_getD (f : Int → Int → Int) (ts xs r : List Int) (h : inplaceZip f ts xs = .ok r) (j : Nat)
    (hj : j < ts.length) :
    r.getD j 0 = f (ts.getD j 0) (if xs.length = ts.length then xs.getD j 0 else xs.headD 0) := by
  unfold inplaceZip at h
  split at h
  · rename_i hl
    cases h
    rw [if_pos hl, getD_zipWith f ts xs j hl.symm hj]
  · rename_i hl
    split at h
    · cases h
      rw [if_neg hl, getD_map _ ts j hj]; rfl
    · cases h

end Nitime.C03
