/- Helper lemmas for C17/C16: affine sample lists, `np.diff` uniformity, python slice indices,
   append-only object store. -/
import Nitime.Model.C17
import Mathlib.Tactic.Ring
import Mathlib.Tactic.Linarith

namespace Nitime.C17.Lemmas
open Nitime Nitime.C17

/-! ### affine lists -/
@[simp] theorem affine_length (t0 dt : Int) (n : Nat) : (affine t0 dt n).length = n := by
  simp [affine]

theorem affine_succ (t0 dt : Int) (n : Nat) :
    affine t0 dt (n + 1) = t0 :: affine (t0 + dt) dt n := by
  simp only [affine, List.range_succ_eq_map, List.map_cons, List.map_map]
  congr 1
  · simp
  · apply List.map_congr_left
    intro i _
    simp only [Function.comp]
    push_cast
    ring

@[simp] theorem affine_zero (t0 dt : Int) : affine t0 dt 0 = [] := by simp [affine]

theorem affine_getD (t0 dt : Int) (n i : Nat) (h : i < n) :
    (affine t0 dt n).getD i 0 = t0 + (i : Int) * dt := by
  simp [affine, List.getD, h]

theorem affine_map (t0 dt : Int) (n : Nat) (g : Int → Int) (t0' dt' : Int)
    (h : ∀ i : Nat, i < n → g (t0 + (i : Int) * dt) = t0' + (i : Int) * dt') :
    (affine t0 dt n).map g = affine t0' dt' n := by
  simp only [affine, List.map_map]
  apply List.map_congr_left
  intro i hi
  exact h i (List.mem_range.mp hi)

theorem affine_zipWith (t0 dt v0 d : Int) (n : Nat) (f : Int → Int → Int) (t0' dt' : Int)
    (h : ∀ i : Nat, i < n → f (t0 + (i : Int) * dt) (v0 + (i : Int) * d) = t0' + (i : Int) * dt') :
    List.zipWith f (affine t0 dt n) (affine v0 d n) = affine t0' dt' n := by
  simp only [affine, List.zipWith_map, List.zipWith_self]
  apply List.map_congr_left
  intro i hi
  exact h i (List.mem_range.mp hi)

theorem affine_headD (t0 dt : Int) (n : Nat) (h : 0 < n) : (affine t0 dt n).headD 0 = t0 := by
  cases n with
  | zero => omega
  | succ m => simp [affine_succ]

/-! ### `np.diff` and the uniformity check -/
theorem uniform_of_diff (d : Int) : ∀ (vals : List Int), (∀ x ∈ diff vals, x = d) →
    vals = affine (vals.headD 0) d vals.length
  | [], _ => by simp
  | [a], _ => by simp [affine_succ]
  | a :: b :: rest, h => by
    have hd : b - a = d := h _ (by simp [diff])
    have ih := uniform_of_diff d (b :: rest) (fun x hx => h x (by simp [diff, hx]))
    simp only [List.headD_cons, List.length_cons] at ih ⊢
    rw [affine_succ]
    congr 1
    have : a + d = b := by omega
    rw [this]
    exact ih

theorem rampStep_ok {vals : List Int} {d : Int} (h : rampStep vals = .ok d) :
    vals = affine (vals.headD 0) d vals.length ∧ 2 ≤ vals.length := by
  unfold rampStep at h
  cases hdiff : diff vals with
  | nil => rw [hdiff] at h; cases h
  | cons d' ds =>
    rw [hdiff] at h
    simp only at h
    by_cases hall : ds.all (· == d') = true
    · rw [if_pos hall] at h
      have hd : d' = d := by injection h
      subst hd
      refine ⟨uniform_of_diff d' vals ?_, ?_⟩
      · intro x hx
        rw [hdiff] at hx
        rcases List.mem_cons.mp hx with rfl | hx
        · rfl
        · have := List.all_eq_true.mp hall x hx
          simpa using this
      · match vals, hdiff with
        | [], hdiff => simp [diff] at hdiff
        | [_], hdiff => simp [diff] at hdiff
        | _ :: _ :: _, _ => simp
    · rw [if_neg hall] at h
      cases h

/-- a 1-d operand whose differences are not all equal is refused with ValueError -/
theorem rampStep_nonuniform {vals : List Int} {d : Int} {ds : List Int}
    (hd : diff vals = d :: ds) (hne : ∃ x ∈ ds, x ≠ d) : rampStep vals = .error .valueError := by
  unfold rampStep
  rw [hd]
  simp only
  have : ds.all (· == d) = false := by
    rcases hne with ⟨x, hx, hxd⟩
    apply Bool.eq_false_iff.mpr
    intro hall
    have := List.all_eq_true.mp hall x hx
    exact hxd (by simpa using this)
  simp [this]

/-! ### python slice indices -/
theorem adjust_bounds_pos (n x : Int) (hn : 0 ≤ n) : 0 ≤ adjust n false x ∧ adjust n false x ≤ n := by
  unfold adjust
  simp only [Bool.false_eq_true, if_false]
  split_ifs <;> constructor <;> omega

theorem adjust_bounds_neg (n x : Int) (hn : 0 ≤ n) : -1 ≤ adjust n true x ∧ adjust n true x ≤ n - 1 := by
  unfold adjust
  simp only [if_true]
  split_ifs <;> constructor <;> omega

theorem sliceCount_range (n : Nat) (start stop c : Int) (hc : c ≠ 0)
    (hs : if c < 0 then -1 ≤ start ∧ start ≤ n - 1 else 0 ≤ start ∧ start ≤ n)
    (ht : if c < 0 then -1 ≤ stop ∧ stop ≤ n - 1 else 0 ≤ stop ∧ stop ≤ n)
    (j : Nat) (hj : j < sliceCount start stop c) :
    0 ≤ start + (j : Int) * c ∧ start + (j : Int) * c < n := by
  unfold sliceCount at hj
  by_cases hneg : c < 0
  · rw [if_pos hneg] at hs ht hj
    by_cases hlt : stop < start
    · rw [if_pos hlt] at hj
      have hc' : 0 < -c := by omega
      have hq : 0 ≤ (start - stop - 1) / (-c) := Int.ediv_nonneg (by omega) (by omega)
      have hj' : (j : Int) ≤ (start - stop - 1) / (-c) := by omega
      have hm : (j : Int) * (-c) ≤ start - stop - 1 := (Int.le_ediv_iff_mul_le hc').mp hj'
      have hjc : (j : Int) * c = -((j : Int) * (-c)) := by ring
      have hnn : 0 ≤ (j : Int) * (-c) := Int.mul_nonneg (Int.natCast_nonneg j) (by omega)
      constructor <;> omega
    · rw [if_neg hlt] at hj
      simp at hj
  · rw [if_neg hneg] at hs ht hj
    have hpos : 0 < c := by omega
    by_cases hlt : start < stop
    · rw [if_pos hlt] at hj
      have hq : 0 ≤ (stop - start - 1) / c := Int.ediv_nonneg (by omega) (by omega)
      have hj' : (j : Int) ≤ (stop - start - 1) / c := by omega
      have hm : (j : Int) * c ≤ stop - start - 1 := (Int.le_ediv_iff_mul_le hpos).mp hj'
      have hnn : 0 ≤ (j : Int) * c := Int.mul_nonneg (Int.natCast_nonneg j) (by omega)
      constructor <;> omega
    · rw [if_neg hlt] at hj
      simp at hj

theorem sliceStart_bounds (n : Nat) (c : Int) (a : Option Int) :
    if c < 0 then -1 ≤ sliceStart n (decide (c < 0)) a ∧ sliceStart n (decide (c < 0)) a ≤ n - 1
    else 0 ≤ sliceStart n (decide (c < 0)) a ∧ sliceStart n (decide (c < 0)) a ≤ n := by
  have hn : (0 : Int) ≤ n := Int.natCast_nonneg n
  by_cases hneg : c < 0
  · rw [if_pos hneg]
    have hdec : decide (c < 0) = true := by simpa using hneg
    rw [hdec]
    cases a with
    | none => simp only [sliceStart, if_true]; omega
    | some x => exact adjust_bounds_neg n x hn
  · rw [if_neg hneg]
    have hdec : decide (c < 0) = false := by simpa using hneg
    rw [hdec]
    cases a with
    | none => simp only [sliceStart, Bool.false_eq_true, if_false]; omega
    | some x => exact adjust_bounds_pos n x hn

theorem sliceStop_bounds (n : Nat) (c : Int) (b : Option Int) :
    if c < 0 then -1 ≤ sliceStop n (decide (c < 0)) b ∧ sliceStop n (decide (c < 0)) b ≤ n - 1
    else 0 ≤ sliceStop n (decide (c < 0)) b ∧ sliceStop n (decide (c < 0)) b ≤ n := by
  have hn : (0 : Int) ≤ n := Int.natCast_nonneg n
  by_cases hneg : c < 0
  · rw [if_pos hneg]
    have hdec : decide (c < 0) = true := by simpa using hneg
    rw [hdec]
    cases b with
    | none => simp only [sliceStop, if_true]; omega
    | some x => exact adjust_bounds_neg n x hn
  · rw [if_neg hneg]
    have hdec : decide (c < 0) = false := by simpa using hneg
    rw [hdec]
    cases b with
    | none => simp only [sliceStop, Bool.false_eq_true, if_false]; omega
    | some x => exact adjust_bounds_pos n x hn

/-- every position a slice selects lies inside the array -/
theorem sliceIndices_range (n : Nat) (a b : Option Int) (c : Int) (hc : c ≠ 0) (j : Nat)
    (hj : j < (sliceIndices n a b c).2.2) :
    0 ≤ (sliceIndices n a b c).1 + (j : Int) * c ∧ (sliceIndices n a b c).1 + (j : Int) * c < n :=
  sliceCount_range n _ _ c hc (sliceStart_bounds n c a) (sliceStop_bounds n c b) j hj

theorem sliceSamples_affine (t0 dt : Int) (n : Nat) (start c : Int) (cnt : Nat)
    (h : ∀ j : Nat, j < cnt → 0 ≤ start + (j : Int) * c ∧ start + (j : Int) * c < n) :
    sliceSamples (affine t0 dt n) start c cnt = affine (t0 + start * dt) (dt * c) cnt := by
  simp only [sliceSamples]
  conv_rhs => rw [affine]
  apply List.map_congr_left
  intro j hj
  have hj' := h j (List.mem_range.mp hj)
  have hlt : (start + (j : Int) * c).toNat < n := by omega
  rw [affine_getD _ _ _ _ hlt]
  have : (((start + (j : Int) * c).toNat : Nat) : Int) = start + (j : Int) * c := Int.toNat_of_nonneg hj'.1
  rw [this]
  ring

@[simp] theorem sliceSamples_length (xs : List Int) (start c : Int) (cnt : Nat) :
    (sliceSamples xs start c cnt).length = cnt := by simp [sliceSamples]

/-! ### append-only store -/
theorem sget_append (s l : List Int) (i : Nat) (h : i < s.length) : sget (s ++ l) i = sget s i := by
  simp [sget, List.getD, List.getElem?_append_left h]

theorem sget_new0 (s : List Int) (a b c : Int) : sget (s ++ [a, b, c]) s.length = a := by
  simp [sget, List.getD]

theorem sget_new1 (s : List Int) (a b c : Int) : sget (s ++ [a, b, c]) (s.length + 1) = b := by
  simp [sget, List.getD]

theorem sget_new2 (s : List Int) (a b c : Int) : sget (s ++ [a, b, c]) (s.length + 2) = c := by
  simp [sget, List.getD]

end Nitime.C17.Lemmas
