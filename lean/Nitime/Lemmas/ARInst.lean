/-
The `ℂ` instance of `Nitime.AR.Scalar` (proof side of the "one definition, three instances"
pattern) and the bridge lemmas from the model's list folds to `Finset` sums.
-/
import Nitime.Model.ARBase
import Mathlib.Analysis.SpecialFunctions.Trigonometric.Basic
import Mathlib.Analysis.Real.Sqrt
import Mathlib.Data.Complex.BigOperators
import Mathlib.Algebra.BigOperators.Intervals

open Finset

namespace Nitime.AR

/-- the grid frequency `ω_k = k·(π or 2π)/n` of `scipy.signal.freqz` (mirrors `CF.gridW`) -/
noncomputable def gridOmega (whole : Bool) (k n : ℕ) : ℝ :=
  (k : ℝ) * ((if whole then 2 * Real.pi else Real.pi) / (n : ℝ))

/-- the grid with the `include_nyquist` option (mirrors `CF.gridWI`) -/
noncomputable def gridOmegaI (incl whole : Bool) (k n : ℕ) : ℝ :=
  if incl && !whole then gridOmega false k (n - 1) else gridOmega whole k n

noncomputable instance instScalarComplex : Scalar ℂ where
  add := (· + ·)
  mul := (· * ·)
  sub := (· - ·)
  div := (· / ·)
  neg := fun z => -z
  conj := fun z => starRingEnd ℂ z
  re := fun z => ((z.re : ℝ) : ℂ)
  zero := 0
  one := 1
  ofNat := fun n => (n : ℂ)
  sqrtRe := fun z => ((Real.sqrt z.re : ℝ) : ℂ)
  absGt := fun a b => @decide (Complex.normSq a > Complex.normSq b) (Classical.propDecidable _)
  beq := fun a b => @decide (a = b) (Classical.propDecidable _)
  phasor := fun whole k n => Complex.exp (-(Complex.I * (gridOmega whole k n : ℂ)))

open ComplexConjugate

@[simp] lemma sc_add (a b : ℂ) : Scalar.add a b = a + b := rfl
@[simp] lemma sc_mul (a b : ℂ) : Scalar.mul a b = a * b := rfl
@[simp] lemma sc_sub (a b : ℂ) : Scalar.sub a b = a - b := rfl
@[simp] lemma sc_div (a b : ℂ) : Scalar.div a b = a / b := rfl
@[simp] lemma sc_neg (a : ℂ) : Scalar.neg a = -a := rfl
@[simp] lemma sc_conj (a : ℂ) : Scalar.conj a = conj a := rfl
@[simp] lemma sc_re (a : ℂ) : Scalar.re a = ((a.re : ℝ) : ℂ) := rfl
@[simp] lemma sc_zero : (Scalar.zero : ℂ) = 0 := rfl
@[simp] lemma sc_one : (Scalar.one : ℂ) = 1 := rfl
@[simp] lemma sc_ofNat (n : ℕ) : (Scalar.ofNat n : ℂ) = (n : ℂ) := rfl
@[simp] lemma sc_sqrtRe (a : ℂ) : Scalar.sqrtRe a = ((Real.sqrt a.re : ℝ) : ℂ) := rfl
lemma sc_beq (a b : ℂ) : Scalar.beq a b = true ↔ a = b := by
  show @decide (a = b) (Classical.propDecidable _) = true ↔ a = b
  simp
lemma sc_phasor (w : Bool) (k n : ℕ) :
    (Scalar.phasor w k n : ℂ) = Complex.exp (-(Complex.I * (gridOmega w k n : ℂ))) := rfl

lemma gridPhasor_eq (incl w : Bool) (k n : ℕ) :
    (gridPhasor incl w k n : ℂ) = Complex.exp (-(Complex.I * (gridOmegaI incl w k n : ℂ))) := by
  unfold gridPhasor gridOmegaI
  split <;> rfl

/-- the model's left fold is the `Finset` sum -/
theorem sumRange_eq (n : ℕ) (f : ℕ → ℂ) : sumRange n f = ∑ i ∈ range n, f i := by
  unfold sumRange
  induction n with
  | zero => simp
  | succ n ih =>
    rw [List.range_succ, List.foldl_append, ih, Finset.sum_range_succ]; simp

theorem powNat_eq (z : ℂ) (n : ℕ) : powNat z n = z ^ n := by
  induction n with
  | zero => simp [powNat]
  | succ n ih => simp [powNat, ih, pow_succ]

theorem polyEval_eq (c : List ℂ) (z : ℂ) :
    polyEval c z = ∑ j ∈ range c.length, c.getD j 0 * z ^ j := by
  unfold polyEval
  rw [sumRange_eq]
  refine sum_congr rfl fun j _ => ?_
  simp [powNat_eq]

/-- `(z·conj z).real` embedded back is `z·conj z` -/
lemma re_mul_conj (z : ℂ) : (((z * conj z).re : ℝ) : ℂ) = z * conj z := by
  rw [Complex.mul_conj]; simp

end Nitime.AR
