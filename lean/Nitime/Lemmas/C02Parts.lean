/-
C02 — the buffer layer under the object store (`PHeap`, `stepHP`, `runHP` of `Nitime.C02`):
constructors allocate a buffer of their own, in-place operators write through the buffer of their
target only; hence every axis' buffer always holds exactly the grid its attributes describe.
-/
import Nitime.Model.C02
import Nitime.Lemmas.C02Heap

namespace Nitime.C02
open Nitime

/-- what a successful command does to the list of axis objects -/
theorem exec_shape {h h' : Heap} {c : Cmd} {r : Res} (he : exec hIntended h c = .ok (h', r)) :
    (∀ id op, c = .inplace id op →
        ∃ a a', h.axes[id]? = some a ∧ applyIOp a op = .ok a' ∧ h'.axes = h.axes.set id a') ∧
    ((∀ id op, c ≠ .inplace id op) → h'.axes = h.axes ∨ ∃ a, h'.axes = h.axes ++ [a]) := by
  cases c with
  | rebuild src unit length =>
    refine ⟨(fun _ _ hc => by cases hc), fun _ => ?_⟩
    simp only [exec] at he
    split at he
    · cases he
    · split at he
      · cases he
      · split at he
        · simp only [Except.ok.injEq, Prod.mk.injEq] at he
          obtain ⟨rfl, _⟩ := he
          exact .inl rfl
        · simp only [Heap.allocAxis, Except.ok.injEq, Prod.mk.injEq] at he
          obtain ⟨rfl, _⟩ := he
          exact .inr ⟨_, rfl⟩
  | copy src =>
    refine ⟨(fun _ _ hc => by cases hc), fun _ => ?_⟩
    simp only [exec] at he
    split at he
    · cases he
    · simp only [Heap.allocAxis, Except.ok.injEq, Prod.mk.injEq] at he
      obtain ⟨rfl, _⟩ := he
      exact .inr ⟨_, rfl⟩
  | series src m unit =>
    refine ⟨(fun _ _ hc => by cases hc), fun _ => ?_⟩
    simp only [exec] at he
    split at he
    · cases he
    · exact .inl (newSeries_spec he).1
  | time sid =>
    refine ⟨(fun _ _ hc => by cases hc), fun _ => ?_⟩
    simp only [exec] at he
    split at he
    · cases he
    · rename_i h1 p hr
      simp only [Except.ok.injEq, Prod.mk.injEq] at he
      obtain ⟨rfl, _⟩ := he
      obtain ⟨s, _, hcase⟩ := readTime_spec hr
      rcases hcase with ⟨_, rfl⟩ | ⟨_, _, a, _, hax, _⟩
      · exact .inl rfl
      · exact .inr ⟨a, hax⟩
  | seriesCopy sid =>
    refine ⟨(fun _ _ hc => by cases hc), fun _ => ?_⟩
    simp only [exec] at he
    split at he
    · cases he
    · rename_i h1 p hr
      split at he
      · obtain ⟨ha, _⟩ := newSeries_spec he
        rw [ha]
        obtain ⟨s, _, hcase⟩ := readTime_spec hr
        rcases hcase with ⟨_, rfl⟩ | ⟨_, _, a, _, hax, _⟩
        · exact .inl rfl
        · exact .inr ⟨a, hax⟩
      · cases he
  | inplace id op =>
    refine ⟨fun id' op' hc => ?_, fun hne => absurd rfl (hne id op)⟩
    cases hc
    simp only [exec] at he
    split at he
    · cases he
    · rename_i a ha
      split at he
      · cases he
      · rename_i a' ha'
        simp only [Except.ok.injEq, Prod.mk.injEq] at he
        obtain ⟨rfl, _⟩ := he
        exact ⟨a, a', ha, ha', rfl⟩

/-- the invariant that ties the two layers together (no sharing) -/
structure PInv (h : Heap) (p : PHeap) : Prop where
  len : p.parts.length = h.axes.length
  lt : ∀ b ∈ p.parts, b < p.next
  nodup : p.parts.Nodup
  holds : ∀ (j : Nat) (a : Axis) (b : Nat), h.axes[j]? = some a → p.parts[j]? = some b → p.read b = a.grid
  memo : p.memo = []

theorem read_cons_ne (p : PHeap) (b b' : Nat) (g : Grid) (hne : b' ≠ b) :
    PHeap.read { p with bufs := (b, g) :: p.bufs } b' = p.read b' := by
  have : (b == b') = false := by simpa using fun e => hne e.symm
  simp [PHeap.read, List.find?, this]

theorem read_cons_eq (p : PHeap) (b : Nat) (g : Grid) :
    PHeap.read { p with bufs := (b, g) :: p.bufs } b = g := by
  simp [PHeap.read, List.find?]

theorem PInv.start (a : Axis) : PInv (startHP a).1 (startHP a).2 := by
  refine ⟨rfl, ?_, ?_, ?_, rfl⟩
  · intro b hb
    simp [startHP, PHeap.alloc, PHeap.empty] at hb ⊢
    omega
  · simp [startHP, PHeap.alloc, PHeap.empty]
  · intro j a' b ha hb
    simp only [startHP, PHeap.alloc, PHeap.empty, Bool.false_eq_true, if_false, List.nil_append] at ha hb ⊢
    cases j with
    | zero =>
      simp only [List.getElem?_cons_zero, Option.some.injEq] at ha hb
      subst ha; subst hb
      simp [PHeap.read, List.find?]
    | succ j => simp at ha

theorem PInv.alloc {h : Heap} {p : PHeap} (hi : PInv h p) (a : Axis) (series : List SeriesObj) :
    PInv { axes := h.axes ++ [a], series := series } (p.alloc false a.grid) := by
  have hal : p.alloc false a.grid =
      (⟨p.next + 1, p.parts ++ [p.next], (p.next, a.grid) :: p.bufs, p.memo⟩ : PHeap) := by
    simp [PHeap.alloc]
  rw [hal]
  refine ⟨by simp [hi.len], ?_, ?_, ?_, hi.memo⟩
  · intro b hb
    simp only [List.mem_append, List.mem_singleton] at hb
    rcases hb with hb | rfl
    · have := hi.lt b hb; show b < p.next + 1; omega
    · show p.next < p.next + 1; omega
  · show (p.parts ++ [p.next]).Nodup
    rw [List.nodup_append]
    refine ⟨hi.nodup, by simp, ?_⟩
    intro x hx y hy
    simp only [List.mem_singleton] at hy
    subst hy
    exact Nat.ne_of_lt (hi.lt x hx)
  · intro j a' b ha hb
    simp only at ha hb
    by_cases hj : j < h.axes.length
    · rw [List.getElem?_append_left hj] at ha
      rw [List.getElem?_append_left (by rw [hi.len]; exact hj)] at hb
      have hne : b ≠ p.next := Nat.ne_of_lt (hi.lt b (List.mem_of_getElem? hb))
      have := read_cons_ne { p with next := p.next + 1, parts := p.parts ++ [p.next] } p.next b a.grid hne
      simp only [PHeap.read] at this ⊢
      rw [this]
      exact hi.holds j a' b ha hb
    · have hj' : j = h.axes.length := by
        have := (List.getElem?_eq_some_iff.mp ha).1
        simp at this; omega
      subst hj'
      rw [getElem?_append_single_self] at ha
      have hb' : (p.parts ++ [p.next])[p.parts.length]? = some p.next := getElem?_append_single_self _ _
      rw [← hi.len] at hb
      rw [hb'] at hb
      cases ha; cases hb
      simp [PHeap.read, List.find?]

theorem PInv.inplace {h : Heap} {p : PHeap} (hi : PInv h p) {id : Nat} {op : IOp} {a a' : Axis}
    (ha : h.axes[id]? = some a) (hop : applyIOp a op = .ok a') (series : List SeriesObj) :
    PInv { axes := h.axes.set id a', series := series } (p.inplace a id op) := by
  have hid : id < h.axes.length := (List.getElem?_eq_some_iff.mp ha).1
  obtain ⟨b, hb⟩ : ∃ b, p.parts[id]? = some b :=
    ⟨p.parts[id]'(by rw [hi.len]; exact hid), List.getElem?_eq_getElem _⟩
  have hg : p.read b = a.grid := hi.holds id a b ha hb
  have hself : ({ a with t0 := (p.read b).1, dt := (p.read b).2.1, n := (p.read b).2.2 } : Axis) = a := by
    rw [hg]; rfl
  have hin : p.inplace a id op = { p with bufs := (b, a'.grid) :: p.bufs } := by
    simp only [PHeap.inplace, hb, hself, hop]
  rw [hin]
  refine ⟨by simp [hi.len], hi.lt, hi.nodup, ?_, hi.memo⟩
  intro j x b' hx hb'
  simp only at hx hb'
  by_cases hj : j = id
  · subst hj
    rw [hb] at hb'
    cases hb'
    rw [List.getElem?_set_self hid] at hx
    cases hx
    exact read_cons_eq p b _
  · rw [List.getElem?_set_ne (Ne.symm hj)] at hx
    have hne : b' ≠ b := by
      intro e
      subst e
      have hj1 : j < p.parts.length := (List.getElem?_eq_some_iff.mp hb').1
      have hi1 : id < p.parts.length := (List.getElem?_eq_some_iff.mp hb).1
      have e1 : p.parts[j] = b' := (List.getElem?_eq_some_iff.mp hb').2
      have e2 : p.parts[id] = b' := (List.getElem?_eq_some_iff.mp hb).2
      exact hj ((hi.nodup.getElem_inj_iff).mp (e1.trans e2.symm))
    rw [read_cons_ne p b b' _ hne]
    exact hi.holds j x b' hx hb'

theorem PInv.step {hp : Heap × PHeap} (hi : PInv hp.1 hp.2) (c : Cmd) :
    PInv (stepHP false hp c).1 (stepHP false hp c).2 := by
  unfold stepHP
  cases he : exec hIntended hp.1 c with
  | error e => exact hi
  | ok res =>
    obtain ⟨h', r⟩ := res
    have hs := exec_shape he
    cases c with
    | inplace id op =>
      obtain ⟨a, a', ha, hop, hax⟩ := hs.1 id op rfl
      simp only [ha]
      have := hi.inplace ha hop h'.series
      rw [← hax] at this
      exact this
    | rebuild src unit length =>
      rcases hs.2 (fun _ _ hc => by cases hc) with hax | ⟨a, hax⟩
      · simp only [hax, List.drop_length]
        exact ⟨hax ▸ hi.len, hi.lt, hi.nodup, hax ▸ hi.holds, hi.memo⟩
      · simp only [hax, List.drop_left]
        have := hi.alloc a h'.series
        rw [← hax] at this
        exact this
    | copy src =>
      rcases hs.2 (fun _ _ hc => by cases hc) with hax | ⟨a, hax⟩
      · simp only [hax, List.drop_length]
        exact ⟨hax ▸ hi.len, hi.lt, hi.nodup, hax ▸ hi.holds, hi.memo⟩
      · simp only [hax, List.drop_left]
        have := hi.alloc a h'.series
        rw [← hax] at this
        exact this
    | series src m unit =>
      rcases hs.2 (fun _ _ hc => by cases hc) with hax | ⟨a, hax⟩
      · simp only [hax, List.drop_length]
        exact ⟨hax ▸ hi.len, hi.lt, hi.nodup, hax ▸ hi.holds, hi.memo⟩
      · simp only [hax, List.drop_left]
        have := hi.alloc a h'.series
        rw [← hax] at this
        exact this
    | time sid =>
      rcases hs.2 (fun _ _ hc => by cases hc) with hax | ⟨a, hax⟩
      · simp only [hax, List.drop_length]
        exact ⟨hax ▸ hi.len, hi.lt, hi.nodup, hax ▸ hi.holds, hi.memo⟩
      · simp only [hax, List.drop_left]
        have := hi.alloc a h'.series
        rw [← hax] at this
        exact this
    | seriesCopy sid =>
      rcases hs.2 (fun _ _ hc => by cases hc) with hax | ⟨a, hax⟩
      · simp only [hax, List.drop_length]
        exact ⟨hax ▸ hi.len, hi.lt, hi.nodup, hax ▸ hi.holds, hi.memo⟩
      · simp only [hax, List.drop_left]
        have := hi.alloc a h'.series
        rw [← hax] at this
        exact this

theorem PInv.run (cs : List Cmd) {hp : Heap × PHeap} (hi : PInv hp.1 hp.2) :
    PInv (runHP false hp cs).1 (runHP false hp cs).2 := by
  induction cs generalizing hp with
  | nil => exact hi
  | cons c cs ih => exact ih (hi.step c)

end Nitime.C02
