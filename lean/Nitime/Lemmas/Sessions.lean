/-
Lemmas about the PROCESS-level session model (Model/Sessions.lean).  Core Lean only; every statement holds
for every `Sem` (uninterpreted getter bodies), every class hierarchy, every per-object table and EVERY
session (list of constructions / reads / resets / re-targetings of any number of live objects, in any
order).

* `namesFor_safe`   — for a safe name source (`walkPerCall`, or a table looked up in the class's OWN
  dictionary) `reset` uses exactly the names of the object's class and its ancestors, whatever resets of
  whatever other objects came before, and leaves every cached table exact.
* `session_proj`    — hence the process run and the per-object runs agree: after any session, object `o`
  is in the state that ITS OWN operations alone produce (`objRun`), provided no slot is bound to a
  process-level cell.  This is "instances are independent".
* `objRun_*`        — the per-object run of a construct / reads / re-target / reads session is the
  single-object machine of Model/OneTime.lean, so `C13.Props.order_independent` and
  `C14.Props.retarget_eq_fresh` apply to every object of every session.
-/
import Nitime.Model.Sessions

namespace Nitime.OneTime.Sessions
open Nitime.OneTime

variable {V I : Type}

/-- every table kept on a class is the exact name list of that class -/
def TablesOK (h : Hier) (t : Tables) : Prop := ∀ c ns, t c = some ns → ns = h.allNames c

theorem tablesOK_empty (h : Hier) : TablesOK h (fun _ => none) := by
  intro c ns hc; cases hc

theorem tablesOK_upd {h : Hier} {t : Tables} (ht : TablesOK h t) (c : Nat) :
    TablesOK h (upd t c (some (h.allNames c))) := by
  intro c' ns hc
  unfold upd at hc
  by_cases e : c' = c
  · subst e; simp at hc; exact hc.symm
  · simp [e] at hc; exact ht c' ns hc

/-- SAFE SOURCES: the names used are exactly those of the class and its ancestors, and the tables stay
    exact — for every state of the tables that earlier resets (of any objects of any classes) left. -/
theorem namesFor_safe {src : NameSource} (hs : src.safe = true) (h : Hier) (t : Tables)
    (ht : TablesOK h t) (c : Nat) :
    (namesFor src h t c).1 = h.allNames c ∧ TablesOK h (namesFor src h t c).2 := by
  cases src with
  | walkPerCall => exact ⟨rfl, ht⟩
  | ownTable =>
    cases hc : t c with
    | some ns =>
      have e : namesFor .ownTable h t c = (ns, t) := by simp [namesFor, hc]
      rw [e]; exact ⟨ht c ns hc, ht⟩
    | none =>
      have e : namesFor .ownTable h t c = (h.allNames c, upd t c (some (h.allNames c))) := by
        simp [namesFor, hc]
      rw [e]; exact ⟨rfl, tablesOK_upd ht c⟩
  | inheritedTable => cases hs
  | walkFiltered => cases hs
  | unknown => cases hs

theorem upd_same {α : Type} (f : Nat → α) (i : Nat) (v : α) : upd f i v i = v := by simp [upd]
theorem upd_other {α : Type} (f : Nat → α) (i j : Nat) (v : α) (h : j ≠ i) : upd f i v j = f j := by
  simp [upd, h]

theorem load_unbound (cells : Nat → Option V) (s : St V I) : load cells [] s = s := by
  cases s; simp [load, List.lookup]

theorem store_unbound (cells : Nat → Option V) (s : St V I) : store cells [] s = cells := by
  funext c; simp [store]

/-- a read does not look at the names -/
theorem applyOp_names (sem : Sem V I) (ns ns' : List Nat) (spec : Spec) (op : Op V I) (s : St V I)
    (hn : op.resets = true → ns = ns') : applyOp sem ns spec op s = applyOp sem ns' spec op s := by
  cases op with
  | read g => rfl
  | reset => rw [hn rfl]
  | retarget r c new x => rw [hn rfl]

def Unbound (p : Proc V I) : Prop := ∀ o ob, p.obj o = some ob → ob.bound = []

def NewUnbound (ops : List (SOp V I)) : Prop := ∀ o ob, SOp.new o ob ∈ ops → ob.bound = []

/-- one step of the process = one step of every object's own run; the invariants are kept -/
theorem sstep_spec {src : NameSource} (hs : src.safe = true) (h : Hier) (sem : Sem V I) (p : Proc V I)
    (e : SOp V I) (ht : TablesOK h p.tables) (hu : Unbound p)
    (hn : ∀ o ob, e = SOp.new o ob → ob.bound = []) :
    (∀ o, (sstep src h sem p e).obj o = objStep h sem o (p.obj o) e) ∧
    TablesOK h (sstep src h sem p e).tables ∧ Unbound (sstep src h sem p e) := by
  cases e with
  | new o' ob =>
    refine ⟨?_, ht, ?_⟩
    · intro o
      by_cases e : o = o'
      · subst e; simp [sstep, objStep, upd]
      · simp [sstep, objStep, upd, e]
    · intro o ob' hob
      by_cases e : o = o'
      · subst e
        simp [sstep, upd] at hob
        rw [← hob]; exact hn o ob rfl
      · simp [sstep, upd, e] at hob
        exact hu o ob' hob
  | on o' op =>
    cases hob : p.obj o' with
    | none =>
      refine ⟨?_, ?_, ?_⟩
      · intro o
        by_cases e : o = o'
        · subst e; simp [sstep, objStep, hob]
        · simp [sstep, objStep, hob, e]
      · simpa [sstep, hob] using ht
      · simpa [sstep, hob] using hu
    | some ob =>
      have hb : ob.bound = [] := hu o' ob hob
      have hN := namesFor_safe hs h p.tables ht ob.cls
      have hst : applyOp sem (if op.resets = true then namesFor src h p.tables ob.cls else ([], p.tables)).1
            ob.spec op (load p.cells ob.bound ob.st)
          = applyOp sem (h.allNames ob.cls) ob.spec op ob.st := by
        rw [hb, load_unbound]
        apply applyOp_names
        intro hr
        simp [hr, hN.1]
      refine ⟨?_, ?_, ?_⟩
      · intro o
        by_cases e : o = o'
        · subst e
          simp only [sstep, hob, objStep, upd, if_true, Option.map_some]
          rw [hst]
        · simp [sstep, hob, objStep, upd, e]
      · simp only [sstep, hob]
        by_cases hr : op.resets = true
        · simp only [hr, if_true]; exact hN.2
        · simp only [hr]; exact ht
      · intro o ob' hob'
        by_cases e : o = o'
        · subst e
          simp [sstep, hob, upd] at hob'
          rw [← hob']; exact hb
        · simp [sstep, hob, upd, e] at hob'
          exact hu o ob' hob'

/-- INSTANCES ARE INDEPENDENT.  For a safe name source, after ANY session every object is in the
    state its own operations alone produce — whatever objects of whatever base / derived / sibling
    classes were constructed, read, reset or re-targeted in between, in whatever order. -/
theorem session_proj {src : NameSource} (hs : src.safe = true) (h : Hier) (sem : Sem V I) :
    ∀ (ops : List (SOp V I)) (p : Proc V I), TablesOK h p.tables → Unbound p → NewUnbound ops →
      ∀ o, (srun src h sem ops p).obj o = objRun h sem o ops (p.obj o) := by
  intro ops
  induction ops with
  | nil => intro p _ _ _ o; rfl
  | cons e ops ih =>
    intro p ht hu hn o
    have hstep := sstep_spec hs h sem p e ht hu
      (fun o ob he => hn o ob (by rw [he]; exact List.mem_cons_self))
    have := ih (sstep src h sem p e) hstep.2.1 hstep.2.2
      (fun o ob hm => hn o ob (List.mem_cons_of_mem _ hm)) o
    simp only [srun, objRun, List.foldl_cons] at this ⊢
    rw [this, hstep.1 o]

/-! ### the per-object run is the single-object machine -/

/-- operations on other objects do not concern `o` -/
theorem objRun_others (h : Hier) (sem : Sem V I) (o : Nat) (ops : List (SOp V I))
    (hoth : ∀ e ∈ ops, (∀ ob, e ≠ SOp.new o ob) ∧ (∀ op, e ≠ SOp.on o op)) (cur : Option (Obj V I)) :
    objRun h sem o ops cur = cur := by
  induction ops generalizing cur with
  | nil => rfl
  | cons e ops ih =>
    have he := hoth e List.mem_cons_self
    have : objStep h sem o cur e = cur := by
      cases e with
      | new o' ob =>
        by_cases e' : o = o'
        · subst e'; exact absurd rfl (he.1 ob)
        · simp [objStep, e']
      | on o' op =>
        by_cases e' : o = o'
        · subst e'; exact absurd rfl (he.2 op)
        · simp [objStep, e']
    simp only [objRun, List.foldl_cons, this]
    exact ih (fun e he => hoth e (List.mem_cons_of_mem _ he)) cur

theorem objRun_append (h : Hier) (sem : Sem V I) (o : Nat) (a b : List (SOp V I)) (cur : Option (Obj V I)) :
    objRun h sem o (a ++ b) cur = objRun h sem o b (objRun h sem o a cur) := by
  simp [objRun, List.foldl_append]

/-- a block of reads of `o` is `run` -/
theorem objRun_reads (h : Hier) (sem : Sem V I) (o : Nat) (l : List Nat) (ob : Obj V I) :
    objRun h sem o (l.map fun g => SOp.on o (Op.read g)) (some ob)
      = some { ob with st := run ob.spec sem l ob.st } := by
  induction l generalizing ob with
  | nil => rfl
  | cons g l ih =>
    simp only [List.map_cons, objRun, List.foldl_cons, objStep, if_true, Option.map_some]
    have := ih { ob with st := applyOp sem (h.allNames ob.cls) ob.spec (Op.read g) ob.st }
    simp only [objRun] at this
    rw [this]
    simp [applyOp, run]

/-- `reset` only asks whether a name is in the list: lists with the same members reset alike -/
theorem reset_congr (a b : List Nat) (hab : ∀ k, k ∈ a ↔ k ∈ b) (s : St V I) : reset a s = reset b s := by
  have : ∀ k, a.contains k = b.contains k := by
    intro k
    by_cases hk : k ∈ a
    · simp [hk, (hab k).1 hk]
    · have : k ∉ b := fun hb => hk ((hab k).2 hb)
      simp [hk, this]
  simp only [reset, this]

theorem retarget_congr (sem : Sem V I) (a b : List Nat) (hab : ∀ k, k ∈ a ↔ k ∈ b)
    (r c : List Nat) (new : Nat → Option V) (x : I) (s : St V I) :
    retarget sem a r c new x s = retarget sem b r c new x s := by
  have : ∀ k, a.contains k = b.contains k := by
    intro k
    by_cases hk : k ∈ a
    · simp [hk, (hab k).1 hk]
    · have : k ∉ b := fun hb => hk ((hab k).2 hb)
      simp [hk, this]
  simp only [retarget, this]

/-- does the operation concern object `o`? -/
def touches (o : Nat) : SOp V I → Bool
  | .new o' _ => o' == o
  | .on o' _ => o' == o

/-- the per-object run only sees the operations on that object -/
theorem objRun_filter (h : Hier) (sem : Sem V I) (o : Nat) (ops : List (SOp V I)) (cur : Option (Obj V I)) :
    objRun h sem o ops cur = objRun h sem o (ops.filter (touches o)) cur := by
  induction ops generalizing cur with
  | nil => rfl
  | cons e ops ih =>
    by_cases ht : touches o e = true
    · simp only [List.filter_cons, ht, if_true, objRun, List.foldl_cons]
      exact ih _
    · have hstep : objStep h sem o cur e = cur := by
        cases e with
        | new o' ob =>
          have : ¬ o = o' := by intro e'; subst e'; simp [touches] at ht
          simp [objStep, this]
        | on o' op =>
          have : ¬ o = o' := by intro e'; subst e'; simp [touches] at ht
          simp [objStep, this]
      simp only [List.filter_cons, ht, objRun, List.foldl_cons, hstep]
      exact ih cur

/-- a session in which object `o` is constructed and then only read: its state is the single-object
    `run` of those reads, whatever happened to the other objects in between -/
theorem session_reads_state {src : NameSource} (hs : src.safe = true) (h : Hier) (sem : Sem V I)
    (ops : List (SOp V I)) (hn : NewUnbound ops) (o : Nat) (ob0 : Obj V I) (l : List Nat)
    (hproj : ops.filter (touches o) = SOp.new o ob0 :: l.map (fun g => SOp.on o (Op.read g))) :
    (srun src h sem ops Proc.empty).obj o = some { ob0 with st := run ob0.spec sem l ob0.st } := by
  rw [session_proj hs h sem ops Proc.empty (tablesOK_empty h) (by intro o ob hob; cases hob) hn o,
      objRun_filter, hproj]
  simp only [objRun, List.foldl_cons, objStep, if_true]
  exact objRun_reads h sem o l ob0

/-- … constructed, read, re-targeted (reset + assignments + `set_input`), read again -/
theorem session_retarget_state {src : NameSource} (hs : src.safe = true) (h : Hier) (sem : Sem V I)
    (ops : List (SOp V I)) (hn : NewUnbound ops) (o : Nat) (ob0 : Obj V I) (l l' : List Nat)
    (r c : List Nat) (new : Nat → Option V) (x : I)
    (hproj : ops.filter (touches o) = SOp.new o ob0 :: (l.map (fun g => SOp.on o (Op.read g)) ++
      SOp.on o (Op.retarget r c new x) :: l'.map (fun g => SOp.on o (Op.read g)))) :
    (srun src h sem ops Proc.empty).obj o = some { ob0 with
      st := run ob0.spec sem l' (retarget sem (h.allNames ob0.cls) r c new x (run ob0.spec sem l ob0.st)) } := by
  rw [session_proj hs h sem ops Proc.empty (tablesOK_empty h) (by intro o ob hob; cases hob) hn o,
      objRun_filter, hproj]
  simp only [objRun, List.foldl_cons, objStep, if_true, List.foldl_append]
  have h1 := objRun_reads h sem o l ob0
  simp only [objRun] at h1
  rw [h1]
  simp only [Option.map_some, applyOp]
  have h2 := objRun_reads h sem o l'
    { ob0 with st := retarget sem (h.allNames ob0.cls) r c new x (run ob0.spec sem l ob0.st) }
  simp only [objRun] at h2
  rw [h2]

end Nitime.OneTime.Sessions
