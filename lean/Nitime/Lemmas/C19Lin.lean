/-
C19 helper lemmas: list-sum ↔ Finset-sum bridge for the model's `sumRange`, flattening of a
block-indexed sum, and uniqueness of the solution of the normal equations of a full-column-rank
least-squares problem over ℚ (the instance the driver runs).
-/
import Mathlib.Algebra.BigOperators.Intervals
import Mathlib.Algebra.BigOperators.Ring.Finset
import Mathlib.Algebra.Order.BigOperators.Group.Finset
import Mathlib.Algebra.Order.Field.Rat
import Mathlib.Tactic.Ring
import Mathlib.Tactic.Linarith
import Nitime.Model.C19

namespace Nitime.C19
open Finset

theorem sumRange_eq (n : ℕ) (f : ℕ → ℚ) : sumRange n f = ∑ i ∈ range n, f i := by
  unfold sumRange
  induction n with
  | zero => simp
  | succ n ih =>
    rw [List.range_succ, List.map_append, List.sum_append, ih, Finset.sum_range_succ]; simp

theorem sumRangeI_eq (n : ℕ) (f : ℕ → ℤ) : sumRangeI n f = ∑ i ∈ range n, f i := by
  unfold sumRangeI
  induction n with
  | zero => simp
  | succ n ih =>
    rw [List.range_succ, List.map_append, List.sum_append, ih, Finset.sum_range_succ]; simp

/-- a sum over the flat column index c = b*L + j is the double sum over (block, lag) -/
theorem sum_range_flat {M : Type*} [AddCommMonoid M] (T L : ℕ) (f : ℕ → M) :
    ∑ c ∈ range (T * L), f c = ∑ b ∈ range T, ∑ j ∈ range L, f (b * L + j) := by
  induction T with
  | zero => simp
  | succ T ih =>
    rw [Nat.succ_mul, Finset.sum_range_add, ih, Finset.sum_range_succ]

/-- `XᵀX d = 0` and full column rank force `d = 0` (on the first p coordinates) -/
theorem gram_kernel_trivial (n p : ℕ) (X : ℕ → ℕ → ℚ) (d : ℕ → ℚ)
    (hN : ∀ a < p, ∑ b ∈ range p, (∑ r ∈ range n, X r a * X r b) * d b = 0)
    (hrank : ∀ v : ℕ → ℚ, (∀ r < n, ∑ c ∈ range p, X r c * v c = 0) → ∀ c < p, v c = 0) :
    ∀ c < p, d c = 0 := by
  apply hrank d
  set s : ℕ → ℚ := fun r => ∑ c ∈ range p, X r c * d c with hs
  have key : ∑ r ∈ range n, s r * s r
      = ∑ a ∈ range p, d a * ∑ b ∈ range p, (∑ r ∈ range n, X r a * X r b) * d b := by
    simp only [hs, Finset.mul_sum, Finset.sum_mul]
    rw [Finset.sum_comm]
    apply Finset.sum_congr rfl; intro a _
    rw [Finset.sum_comm]
    apply Finset.sum_congr rfl; intro b _
    apply Finset.sum_congr rfl; intro r _; ring
  have hz : ∑ r ∈ range n, s r * s r = 0 := by
    rw [key]; apply Finset.sum_eq_zero; intro a ha
    rw [hN a (Finset.mem_range.mp ha), mul_zero]
  have hnn : ∀ r ∈ range n, 0 ≤ s r * s r := fun r _ => mul_self_nonneg _
  intro r hr
  have := (Finset.sum_eq_zero_iff_of_nonneg hnn).mp hz r (Finset.mem_range.mpr hr)
  exact mul_self_eq_zero.mp this

/-! ### `np.unique`: sorted, duplicate-free, same members -/

theorem mem_insertUniq (t u : ℤ) (l : List ℤ) : u ∈ insertUniq t l ↔ u = t ∨ u ∈ l := by
  induction l with
  | nil => simp [insertUniq]
  | cons v vs ih =>
    unfold insertUniq
    split_ifs with h1 h2
    · simp
    · subst h2; simp
    · simp [ih]; tauto

theorem pairwise_insertUniq (t : ℤ) (l : List ℤ) (h : l.Pairwise (· < ·)) :
    (insertUniq t l).Pairwise (· < ·) := by
  induction l with
  | nil => simp [insertUniq]
  | cons v vs ih =>
    unfold insertUniq
    rw [List.pairwise_cons] at h
    split_ifs with h1 h2
    · rw [List.pairwise_cons]
      refine ⟨?_, List.pairwise_cons.mpr h⟩
      intro a ha
      rcases List.mem_cons.mp ha with rfl | ha
      · exact h1
      · exact lt_trans h1 (h.1 a ha)
    · exact List.pairwise_cons.mpr h
    · rw [List.pairwise_cons]
      refine ⟨?_, ih h.2⟩
      intro a ha
      rcases (mem_insertUniq t a vs).mp ha with rfl | ha
      · omega
      · exact h.1 a ha

theorem pairwise_uniqueSorted (xs : List ℤ) : (uniqueSorted xs).Pairwise (· < ·) := by
  unfold uniqueSorted
  induction xs with
  | nil => simp
  | cons x xs ih => simpa [List.foldr] using pairwise_insertUniq x _ ih

theorem mem_uniqueSorted (xs : List ℤ) (u : ℤ) : u ∈ uniqueSorted xs ↔ u ∈ xs := by
  unfold uniqueSorted
  induction xs with
  | nil => simp
  | cons x xs ih => simp [List.foldr, mem_insertUniq, ih]

end Nitime.C19
