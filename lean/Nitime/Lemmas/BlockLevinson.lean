import Mathlib.Algebra.BigOperators.Intervals
import Mathlib.Algebra.BigOperators.Ring.Finset
import Mathlib.Algebra.Star.BigOperators
import Mathlib.Algebra.Star.Basic
import Mathlib.Tactic.Ring
import Mathlib.Tactic.Abel
import Mathlib.Tactic.NoncommRing
import Mathlib.Tactic.Linarith

open Finset

namespace LWR

variable {M : Type*} [Ring M] [StarRing M]

/-- state of the recursion at order p; A 0 = B 0 = 1, A i = B i = 0 for i > p -/
structure St (M : Type*) where
  A : ℕ → M
  B : ℕ → M
  sf : M
  sb : M

variable (R : ℤ → M)

def deltaF (p : ℕ) (s : St M) : M := ∑ i ∈ range (p + 1), s.A i * R ((p : ℤ) + 1 - i)
def deltaB (p : ℕ) (s : St M) : M := ∑ j ∈ range (p + 1), s.B j * R ((j : ℤ) - (p + 1))

structure Inv (p : ℕ) (s : St M) : Prop where
  A0 : s.A 0 = 1
  B0 : s.B 0 = 1
  Az : ∀ i, p < i → s.A i = 0
  Bz : ∀ i, p < i → s.B i = 0
  F : ∀ k : ℕ, 1 ≤ k → k ≤ p → ∑ i ∈ range (p + 1), s.A i * R ((k : ℤ) - i) = 0
  Bk : ∀ k : ℕ, 1 ≤ k → k ≤ p → ∑ j ∈ range (p + 1), s.B j * R ((j : ℤ) - k) = 0
  SF : s.sf = ∑ i ∈ range (p + 1), s.A i * R (-(i : ℤ))
  SB : s.sb = ∑ j ∈ range (p + 1), s.B j * R (j : ℤ)

variable {R}

/-- the key symmetry: the backward partial correlation is the adjoint of the forward one -/
theorem deltaB_eq_star_deltaF (hR : ∀ m, star (R m) = R (-m)) {p : ℕ} {s : St M}
    (h : Inv R p s) : deltaB R p s = star (deltaF R p s) := by
  -- T = Σ_i Σ_j A i * R(p+1-i-j) * star (B j)
  have hT1 : ∑ j ∈ range (p + 1), (∑ i ∈ range (p + 1), s.A i * R ((p : ℤ) + 1 - i - j)) * star (s.B j)
      = deltaF R p s := by
    rw [sum_range_succ' ]
    have hz : ∀ j ∈ range p, (∑ i ∈ range (p + 1), s.A i * R ((p : ℤ) + 1 - i - (j + 1 : ℕ)))
        * star (s.B (j + 1)) = 0 := by
      intro j hj
      simp only [mem_range] at hj
      have := h.F (p - j) (by omega) (by omega)
      have e : ∀ i : ℕ, ((p : ℤ) + 1 - i - (j + 1 : ℕ)) = ((p - j : ℕ) : ℤ) - i := by
        intro i; push_cast [Nat.cast_sub (by omega : j ≤ p)]; ring
      simp only [e, this, zero_mul]
    rw [sum_eq_zero hz, zero_add, h.B0, star_one, mul_one]
    simp [deltaF]
  have hT2 : ∑ j ∈ range (p + 1), (∑ i ∈ range (p + 1), s.A i * R ((p : ℤ) + 1 - i - j)) * star (s.B j)
      = star (deltaB R p s) := by
    simp_rw [sum_mul]
    rw [sum_comm]
    simp_rw [mul_assoc, ← mul_sum]
    have hin : ∀ i : ℕ, ∑ j ∈ range (p + 1), R ((p : ℤ) + 1 - i - j) * star (s.B j)
        = star (∑ j ∈ range (p + 1), s.B j * R ((j : ℤ) - ((p : ℤ) + 1 - i))) := by
      intro i
      rw [star_sum]
      refine sum_congr rfl fun j _ => ?_
      rw [star_mul, hR]
      congr 2; ring
    simp_rw [hin]
    rw [sum_range_succ']
    have hz : ∀ i ∈ range p, s.A (i + 1) *
        star (∑ j ∈ range (p + 1), s.B j * R ((j : ℤ) - ((p : ℤ) + 1 - (i + 1 : ℕ)))) = 0 := by
      intro i hi
      simp only [mem_range] at hi
      have := h.Bk (p - i) (by omega) (by omega)
      have e : ∀ j : ℕ, ((j : ℤ) - ((p : ℤ) + 1 - (i + 1 : ℕ))) = (j : ℤ) - ((p - i : ℕ) : ℤ) := by
        intro j; push_cast [Nat.cast_sub (by omega : i ≤ p)]; ring
      simp only [e, this, star_zero, mul_zero]
    rw [sum_eq_zero hz, zero_add, h.A0, one_mul]
    simp [deltaB]
  rw [← star_star (deltaB R p s), ← hT2, hT1]


/-- reflection helper: X vanishes above p -/
lemma reflect_sum {p : ℕ} (X φ : ℕ → M) (hX : ∀ i, p < i → X i = 0) :
    ∑ i ∈ range (p + 2), X (p + 1 - i) * φ i = ∑ j ∈ range (p + 1), X j * φ (p + 1 - j) := by
  have h1 : ∑ i ∈ range (p + 2), X (p + 1 - i) * φ i
      = ∑ i ∈ range (p + 2), (fun j => X j * φ (p + 1 - j)) (p + 2 - 1 - i) := by
    refine sum_congr rfl fun i hi => ?_
    simp only [mem_range] at hi
    have e1 : p + 2 - 1 - i = p + 1 - i := by omega
    have e2 : p + 1 - (p + 1 - i) = i := by omega
    simp only [e1, e2]
  rw [h1]
  refine (sum_range_reflect (fun j => X j * φ (p + 1 - j)) (p + 2)).trans ?_
  rw [sum_range_succ, hX (p + 1) (by omega), zero_mul, add_zero]

lemma ext_sum {p : ℕ} (X φ : ℕ → M) (hX : ∀ i, p < i → X i = 0) :
    ∑ i ∈ range (p + 2), X i * φ i = ∑ i ∈ range (p + 1), X i * φ i := by
  rw [sum_range_succ, hX (p + 1) (by omega), zero_mul, add_zero]

variable (R)

def step (p : ℕ) (s : St M) (sfi sbi : M) : St M :=
  let ka := deltaF R p s * sbi
  let kb := star (deltaF R p s) * sfi
  { A := fun i => if i ≤ p + 1 then s.A i - ka * s.B (p + 1 - i) else 0
    B := fun j => if j ≤ p + 1 then s.B j - kb * s.A (p + 1 - j) else 0
    sf := (1 - ka * kb) * s.sf
    sb := (1 - kb * ka) * s.sb }

variable {R}

theorem step_inv (hR : ∀ m, star (R m) = R (-m)) {p : ℕ} {s : St M} (h : Inv R p s)
    {sfi sbi : M} (hsf : sfi * s.sf = 1) (hsb : sbi * s.sb = 1) :
    Inv R (p + 1) (step R p s sfi sbi) := by
  set Δ := deltaF R p s with hΔ
  set ka := Δ * sbi with hka
  set kb := star Δ * sfi with hkb
  have hkasb : ka * s.sb = Δ := by rw [hka, mul_assoc, hsb, mul_one]
  have hkbsf : kb * s.sf = star Δ := by rw [hkb, mul_assoc, hsf, mul_one]
  have hΔb : deltaB R p s = star Δ := deltaB_eq_star_deltaF hR h
  -- expansions of sums against the new coefficient sequences
  have hA : ∀ φ : ℕ → M, ∑ i ∈ range (p + 2), (step R p s sfi sbi).A i * φ i
      = ∑ i ∈ range (p + 1), s.A i * φ i - ka * ∑ j ∈ range (p + 1), s.B j * φ (p + 1 - j) := by
    intro φ
    have : ∀ i ∈ range (p + 2), (step R p s sfi sbi).A i * φ i
        = s.A i * φ i - ka * (s.B (p + 1 - i) * φ i) := by
      intro i hi
      simp only [mem_range] at hi
      have : i ≤ p + 1 := by omega
      simp only [step, this, if_true, ← hΔ, ← hka]
      noncomm_ring
    rw [sum_congr rfl this, sum_sub_distrib, ← mul_sum, ext_sum s.A φ h.Az,
      reflect_sum s.B φ h.Bz]
  have hB : ∀ φ : ℕ → M, ∑ j ∈ range (p + 2), (step R p s sfi sbi).B j * φ j
      = ∑ j ∈ range (p + 1), s.B j * φ j - kb * ∑ i ∈ range (p + 1), s.A i * φ (p + 1 - i) := by
    intro φ
    have : ∀ j ∈ range (p + 2), (step R p s sfi sbi).B j * φ j
        = s.B j * φ j - kb * (s.A (p + 1 - j) * φ j) := by
      intro j hj
      simp only [mem_range] at hj
      have : j ≤ p + 1 := by omega
      simp only [step, this, if_true, ← hΔ, ← hkb]
      noncomm_ring
    rw [sum_congr rfl this, sum_sub_distrib, ← mul_sum, ext_sum s.B φ h.Bz,
      reflect_sum s.A φ h.Az]
  refine ⟨?_, ?_, ?_, ?_, ?_, ?_, ?_, ?_⟩
  · simp [step, h.A0, h.Bz (p + 1) (by omega)]
  · simp [step, h.B0, h.Az (p + 1) (by omega)]
  · intro i hi; have : ¬ i ≤ p + 1 := by omega
    simp [step, this]
  · intro i hi; have : ¬ i ≤ p + 1 := by omega
    simp [step, this]
  · -- forward equations at order p+1
    intro k hk1 hkp
    rw [show p + 1 + 1 = p + 2 from rfl, hA (fun i => R ((k : ℤ) - i))]
    by_cases hk : k ≤ p
    · rw [h.F k hk1 hk]
      have hb := h.Bk (p + 1 - k) (by omega) (by omega)
      have : ∑ j ∈ range (p + 1), s.B j * R ((k : ℤ) - ((p + 1 - j : ℕ) : ℤ)) = 0 := by
        rw [← hb]; refine sum_congr rfl fun j hj => ?_
        simp only [mem_range] at hj
        congr 2; push_cast [Nat.cast_sub (by omega : j ≤ p + 1), Nat.cast_sub (by omega : k ≤ p + 1)]; ring
      rw [this, mul_zero, sub_zero]
    · have hk' : k = p + 1 := by omega
      subst hk'
      have e1 : ∑ i ∈ range (p + 1), s.A i * R (((p + 1 : ℕ) : ℤ) - i) = Δ := by
        rw [hΔ, deltaF]; refine sum_congr rfl fun i _ => ?_
        congr 2
      have e2 : ∑ j ∈ range (p + 1), s.B j * R (((p + 1 : ℕ) : ℤ) - ((p + 1 - j : ℕ) : ℤ)) = s.sb := by
        rw [h.SB]; refine sum_congr rfl fun j hj => ?_
        simp only [mem_range] at hj
        congr 2; push_cast [Nat.cast_sub (by omega : j ≤ p + 1)]; ring
      rw [e1, e2, hkasb, sub_self]
  · -- backward equations at order p+1
    intro k hk1 hkp
    rw [show p + 1 + 1 = p + 2 from rfl, hB (fun j => R ((j : ℤ) - k))]
    by_cases hk : k ≤ p
    · rw [h.Bk k hk1 hk]
      have hf := h.F (p + 1 - k) (by omega) (by omega)
      have : ∑ i ∈ range (p + 1), s.A i * R (((p + 1 - i : ℕ) : ℤ) - k) = 0 := by
        rw [← hf]; refine sum_congr rfl fun i hi => ?_
        simp only [mem_range] at hi
        congr 2; push_cast [Nat.cast_sub (by omega : i ≤ p + 1), Nat.cast_sub (by omega : k ≤ p + 1)]; ring
      rw [this, mul_zero, sub_zero]
    · have hk' : k = p + 1 := by omega
      subst hk'
      have e1 : ∑ j ∈ range (p + 1), s.B j * R ((j : ℤ) - ((p + 1 : ℕ) : ℤ)) = star Δ := by
        rw [← hΔb, deltaB]; refine sum_congr rfl fun j _ => ?_
        congr 2
      have e2 : ∑ i ∈ range (p + 1), s.A i * R (((p + 1 - i : ℕ) : ℤ) - ((p + 1 : ℕ) : ℤ)) = s.sf := by
        rw [h.SF]; refine sum_congr rfl fun i hi => ?_
        simp only [mem_range] at hi
        congr 2; push_cast [Nat.cast_sub (by omega : i ≤ p + 1)]; ring
      rw [e1, e2, hkbsf, sub_self]
  · -- forward error covariance
    show (1 - ka * kb) * s.sf = _
    rw [show p + 1 + 1 = p + 2 from rfl, hA (fun i => R (-(i : ℤ))), ← h.SF]
    have : ∑ j ∈ range (p + 1), s.B j * R (-((p + 1 - j : ℕ) : ℤ)) = star Δ := by
      rw [← hΔb, deltaB]; refine sum_congr rfl fun j hj => ?_
      simp only [mem_range] at hj
      congr 2; push_cast [Nat.cast_sub (by omega : j ≤ p + 1)]; ring
    rw [this, sub_mul, one_mul, mul_assoc, hkbsf]
  · -- backward error covariance
    show (1 - kb * ka) * s.sb = _
    rw [show p + 1 + 1 = p + 2 from rfl, hB (fun j => R (j : ℤ)), ← h.SB]
    have : ∑ i ∈ range (p + 1), s.A i * R ((p + 1 - i : ℕ) : ℤ) = Δ := by
      rw [hΔ, deltaF]; refine sum_congr rfl fun i hi => ?_
      simp only [mem_range] at hi
      congr 2; push_cast [Nat.cast_sub (by omega : i ≤ p + 1)]; ring
    rw [this, sub_mul, one_mul, mul_assoc, hkasb]


variable (R)

def init : St M :=
  { A := fun i => if i = 0 then 1 else 0
    B := fun i => if i = 0 then 1 else 0
    sf := R 0
    sb := R 0 }

/-- the recursion, with the two inverses supplied by `inv` -/
def lwr (inv : M → M) : ℕ → St M
  | 0 => init R
  | p + 1 => step R p (lwr inv p) (inv (lwr inv p).sf) (inv (lwr inv p).sb)

variable {R}

theorem init_inv : Inv R 0 (init R) := by
  refine ⟨by simp [init], by simp [init], ?_, ?_, ?_, ?_, by simp [init], by simp [init]⟩
  · intro i hi; have : i ≠ 0 := by omega
    simp [init, this]
  · intro i hi; have : i ≠ 0 := by omega
    simp [init, this]
  · intro k h1 h2; omega
  · intro k h1 h2; omega

/-- Block Yule–Walker: after P steps, Σ_{i=0..P} A(i)·R(k−i) = 0 for k = 1..P with A(0) = 1,
and the returned covariance is Σ_i A(i)·R(−i). -/
theorem lwr_solves (hR : ∀ m, star (R m) = R (-m)) (inv : M → M) :
    ∀ P, (∀ j, j < P → inv (lwr R inv j).sf * (lwr R inv j).sf = 1 ∧
                       inv (lwr R inv j).sb * (lwr R inv j).sb = 1) →
      Inv R P (lwr R inv P) := by
  intro P
  induction P with
  | zero => intro _; exact init_inv
  | succ P ih =>
    intro h
    have hP := ih (fun j hj => h j (by omega))
    obtain ⟨h1, h2⟩ := h P (by omega)
    exact step_inv hR hP h1 h2

#print axioms lwr_solves
end LWR
