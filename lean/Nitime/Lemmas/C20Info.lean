/-
C20 — information inequalities on finite sets in the form the entropy model needs
(Finset versions of Gibbs' inequality, the KL form of mutual information, the uniform bound).
-/
import Nitime.Lemmas.Gibbs
import Mathlib.Algebra.BigOperators.Ring.Finset
import Mathlib.Tactic.Ring
import Mathlib.Tactic.FieldSimp

namespace Nitime.C20
open Finset Real

theorem gibbs_on {ι : Type*} (s : Finset ι) (p q : ι → ℝ) (hp : ∀ i ∈ s, 0 ≤ p i)
    (hq : ∀ i ∈ s, 0 ≤ q i) (hpq : ∀ i ∈ s, 0 < p i → 0 < q i)
    (hsum : ∑ i ∈ s, q i ≤ ∑ i ∈ s, p i) :
    0 ≤ ∑ i ∈ s, p i * log (p i / q i) := by
  have := gibbs (ι := s) (fun i => p i) (fun i => q i) (fun i => hp i i.2) (fun i => hq i i.2)
    (fun i => hpq i i.2)
    (by rw [Finset.sum_coe_sort s q, Finset.sum_coe_sort s p]; exact hsum)
  rwa [Finset.sum_coe_sort s (fun i => p i * log (p i / q i))] at this

/-- entropy ≤ log of the number of cells: `-Σ p log p ≤ log |s|` -/
theorem neg_sum_mul_log_le_log_card {ι : Type*} (s : Finset ι) (p : ι → ℝ) (hp : ∀ i ∈ s, 0 ≤ p i)
    (h1 : ∑ i ∈ s, p i = 1) : -(∑ i ∈ s, p i * log (p i)) ≤ log s.card := by
  have hne : s.Nonempty := by
    by_contra h
    rw [not_nonempty_iff_eq_empty] at h
    rw [h] at h1; simp at h1
  have hK : (0 : ℝ) < s.card := by exact_mod_cast hne.card_pos
  have hg := gibbs_on s p (fun _ => 1 / (s.card : ℝ)) hp (fun _ _ => by positivity)
    (fun _ _ _ => by positivity)
    (by rw [sum_const, nsmul_eq_mul, h1]; field_simp; exact le_refl _)
  have hterm : ∀ i ∈ s, p i * log (p i / (1 / (s.card : ℝ))) = p i * log (p i) + p i * log s.card := by
    intro i hi
    rcases (hp i hi).eq_or_lt with h0 | hpos
    · rw [← h0]; simp
    · rw [div_div_eq_mul_div, div_one, log_mul hpos.ne' hK.ne']; ring
  rw [sum_congr rfl hterm, sum_add_distrib, ← sum_mul, h1, one_mul] at hg
  linarith

/-- the KL form: `Σ P log(P/(Pa·Pb)) = Σ P log P − Σ Pa log Pa − Σ Pb log Pb` -/
theorem kl_decomp {α β : Type*} (FA : Finset α) (FB : Finset β) (P : α → β → ℝ)
    (hP : ∀ a b, 0 ≤ P a b) :
    ∑ a ∈ FA, ∑ b ∈ FB, P a b * log (P a b / ((∑ b' ∈ FB, P a b') * (∑ a' ∈ FA, P a' b)))
      = (∑ a ∈ FA, ∑ b ∈ FB, P a b * log (P a b))
        - (∑ a ∈ FA, (∑ b ∈ FB, P a b) * log (∑ b ∈ FB, P a b))
        - (∑ b ∈ FB, (∑ a ∈ FA, P a b) * log (∑ a ∈ FA, P a b)) := by
  have h2 : ∑ b ∈ FB, (∑ a ∈ FA, P a b) * log (∑ a ∈ FA, P a b)
      = ∑ a ∈ FA, ∑ b ∈ FB, P a b * log (∑ a' ∈ FA, P a' b) := by
    rw [sum_comm]
    exact sum_congr rfl fun b _ => by rw [sum_mul]
  have h1 : ∑ a ∈ FA, (∑ b ∈ FB, P a b) * log (∑ b ∈ FB, P a b)
      = ∑ a ∈ FA, ∑ b ∈ FB, P a b * log (∑ b' ∈ FB, P a b') :=
    sum_congr rfl fun a _ => by rw [sum_mul]
  rw [h1, h2, ← sum_sub_distrib, ← sum_sub_distrib]
  refine sum_congr rfl fun a ha => ?_
  rw [← sum_sub_distrib, ← sum_sub_distrib]
  refine sum_congr rfl fun b hb => ?_
  rcases (hP a b).eq_or_lt with h0 | hpos
  · rw [← h0]; simp
  · have ha' : 0 < ∑ b' ∈ FB, P a b' :=
      lt_of_lt_of_le hpos (single_le_sum (f := fun b' => P a b') (fun b' _ => hP a b') hb)
    have hb' : 0 < ∑ a' ∈ FA, P a' b :=
      lt_of_lt_of_le hpos (single_le_sum (f := fun a' => P a' b) (fun a' _ => hP a' b) ha)
    rw [log_div hpos.ne' (mul_pos ha' hb').ne', log_mul ha'.ne' hb'.ne']; ring

/-- mutual information of a joint distribution on a finite rectangle is non-negative -/
theorem kl_nonneg {α β : Type*} (FA : Finset α) (FB : Finset β) (P : α → β → ℝ)
    (hP : ∀ a b, 0 ≤ P a b) (h1 : ∑ a ∈ FA, ∑ b ∈ FB, P a b = 1) :
    0 ≤ ∑ a ∈ FA, ∑ b ∈ FB, P a b * log (P a b / ((∑ b' ∈ FB, P a b') * (∑ a' ∈ FA, P a' b))) := by
  have := gibbs_on (FA ×ˢ FB) (fun z => P z.1 z.2)
    (fun z => (∑ b' ∈ FB, P z.1 b') * (∑ a' ∈ FA, P a' z.2))
    (fun z _ => hP _ _)
    (fun z _ => mul_nonneg (sum_nonneg fun _ _ => hP _ _) (sum_nonneg fun _ _ => hP _ _))
    (fun z hz hpos => by
      obtain ⟨ha, hb⟩ := mem_product.mp hz
      exact mul_pos
        (lt_of_lt_of_le hpos (single_le_sum (f := fun b' => P z.1 b') (fun b' _ => hP _ b') hb))
        (lt_of_lt_of_le hpos (single_le_sum (f := fun a' => P a' z.2) (fun a' _ => hP a' _) ha)))
    (by
      have h2 : ∑ b ∈ FB, ∑ a ∈ FA, P a b = 1 := by rw [sum_comm]; exact h1
      rw [sum_product, sum_product, h1]
      simp only []
      rw [← sum_mul_sum, h1, h2]; norm_num)
  rwa [sum_product] at this

end Nitime.C20
