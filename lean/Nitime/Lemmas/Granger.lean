import Mathlib.Analysis.SpecialFunctions.Log.Basic
import Mathlib.Data.Complex.Basic
import Mathlib.Tactic.Ring
import Mathlib.Tactic.FieldSimp
import Mathlib.Tactic.Positivity
import Mathlib.Tactic.Linarith

open ComplexConjugate

/-- granger_causality_xy's S_xx (normalised form) equals (H Σ Hᴴ)_xx of spectral_matrix_xy -/
theorem Sxx_same (Hxx Hxy : ℂ) (σ υ γ : ℝ) (hσ : σ ≠ 0) :
    (σ : ℂ) * (Hxx + (υ / σ : ℝ) * Hxy) * conj (Hxx + (υ / σ : ℝ) * Hxy)
      + ((γ - υ ^ 2 / σ : ℝ) : ℂ) * Hxy * conj Hxy
    = Hxx * ((σ : ℂ) * conj Hxx + (υ : ℂ) * conj Hxy) + Hxy * ((υ : ℂ) * conj Hxx + (γ : ℂ) * conj Hxy) := by
  have hσ' : (σ : ℂ) ≠ 0 := by exact_mod_cast hσ
  simp only [map_add, map_mul, Complex.conj_ofReal]
  push_cast
  field_simp
  ring

/-- directional + instantaneous terms sum to the total interdependence -/
theorem decomposition (Sxx Syy ax ay c : ℝ) (hax : 0 < ax) (hay : 0 < ay)
    (hSxx : 0 < Sxx) (hSyy : 0 < Syy) (hdet : 0 < Sxx * Syy - c) :
    Real.log (Sxx / ax) + Real.log (Syy / ay) + Real.log (ax * ay / (Sxx * Syy - c))
      = - Real.log (1 - c / (Sxx * Syy)) := by
  have h1 : 1 - c / (Sxx * Syy) = (Sxx * Syy - c) / (Sxx * Syy) := by field_simp
  rw [h1, Real.log_div hSxx.ne' hax.ne', Real.log_div hSyy.ne' hay.ne',
    Real.log_div (by positivity) hdet.ne', Real.log_mul hax.ne' hay.ne',
    Real.log_div hdet.ne' (by positivity), Real.log_mul hSxx.ne' hSyy.ne']
  ring

/-- causality y→x is non-negative: S_xx = auto + γ₂|H_xy|² with γ₂ ≥ 0 -/
theorem causality_nonneg (auto cross : ℝ) (ha : 0 < auto) (hc : 0 ≤ cross) :
    0 ≤ Real.log ((auto + cross) / auto) := by
  apply Real.log_nonneg
  rw [le_div_iff₀ ha]; linarith

#print axioms Sxx_same
#print axioms decomposition
