/-
C20 — counting lemmas for the exact joint histograms of the entropy model
(`uniq`, `pairs`, `List.count` on zipped samples).
-/
import Nitime.Model.C20
import Mathlib.Algebra.BigOperators.Group.List.Basic
import Mathlib.Data.List.Nodup
import Mathlib.Data.List.Count
import Mathlib.Tactic.Ring

namespace Nitime.C20
-- the model counts with `instBEqOfDecidableEq`; make statements about products elaborate the same way
attribute [-instance] instBEqProd
set_option linter.unusedSectionVars false
variable {σ τ : Type} [DecidableEq σ] [DecidableEq τ]

theorem mem_uniq {a : σ} {l : List σ} : a ∈ uniq l ↔ a ∈ l := by
  induction l with
  | nil => simp [uniq]
  | cons b l ih =>
    unfold uniq
    split_ifs with h
    · rw [ih, List.mem_cons]
      constructor
      · exact Or.inr
      · rintro (rfl | h')
        · exact ih.mp h
        · exact h'
    · simp [List.mem_cons, ih]

theorem nodup_uniq (l : List σ) : (uniq l).Nodup := by
  induction l with
  | nil => simp [uniq]
  | cons b l ih =>
    unfold uniq
    split_ifs with h
    · exact ih
    · exact List.nodup_cons.mpr ⟨h, ih⟩

theorem sum_indicator_eq_count (A : List σ) (s : σ) :
    (A.map fun c => if s = c then 1 else 0).sum = A.count s := by
  induction A with
  | nil => simp
  | cons a A ih =>
    simp only [List.map_cons, List.sum_cons, ih, List.count_cons]
    by_cases h : s = a
    · subst h; simp; omega
    · have : ¬ a = s := fun h' => h h'.symm
      simp [h, this]

/-- every sample falls in exactly one cell -/
theorem sum_count_eq_length (A S : List σ) (hA : A.Nodup) (hS : ∀ s ∈ S, s ∈ A) :
    (A.map fun c => S.count c).sum = S.length := by
  induction S with
  | nil => simp
  | cons s S ih =>
    have h1 : ∀ c, (s :: S).count c = S.count c + if s = c then 1 else 0 := by
      intro c; rw [List.count_cons]; simp
    simp only [h1, List.sum_map_add]
    rw [ih (fun t ht => hS t (List.mem_cons_of_mem _ ht)), sum_indicator_eq_count,
      List.count_eq_one_of_mem hA (hS s List.mem_cons_self)]
    simp

/-- marginalising the joint histogram over the second variable -/
theorem sum_count_zip_right (B : List τ) (hB : B.Nodup) (a : σ) :
    ∀ (x : List σ) (y : List τ), x.length = y.length → (∀ t ∈ y, t ∈ B) →
      (B.map fun b => (x.zip y).count (a, b)).sum = x.count a := by
  intro x
  induction x with
  | nil => intro y _ _; simp
  | cons s x ih =>
    intro y hl hy
    cases y with
    | nil => simp at hl
    | cons t y =>
      have h1 : ∀ b, ((s :: x).zip (t :: y)).count (a, b)
          = (x.zip y).count (a, b) + if s = a then (if t = b then 1 else 0) else 0 := by
        intro b
        rw [List.zip_cons_cons, List.count_cons]
        by_cases hs : s = a <;> by_cases ht : t = b <;> simp [hs, ht]
      simp only [h1, List.sum_map_add]
      rw [ih y (by simpa using hl) (fun u hu => hy u (List.mem_cons_of_mem _ hu)), List.count_cons]
      by_cases hs : s = a
      · simp only [hs, if_true]
        rw [sum_indicator_eq_count, List.count_eq_one_of_mem hB (hy t List.mem_cons_self)]
        simp
      · simp [hs]

theorem count_zip_swap (x : List σ) (y : List τ) (a : σ) (b : τ) :
    (x.zip y).count (a, b) = (y.zip x).count (b, a) := by
  induction x generalizing y with
  | nil => simp
  | cons s x ih =>
    cases y with
    | nil => simp
    | cons t y =>
      rw [List.zip_cons_cons, List.zip_cons_cons, List.count_cons, List.count_cons, ih]
      by_cases hs : s = a <;> by_cases ht : t = b <;> simp [hs, ht]

/-- marginalising over the first variable -/
theorem sum_count_zip_left (A : List σ) (hA : A.Nodup) (b : τ) (x : List σ) (y : List τ)
    (hl : x.length = y.length) (hx : ∀ s ∈ x, s ∈ A) :
    (A.map fun a => (x.zip y).count (a, b)).sum = y.count b := by
  simp only [count_zip_swap x y]
  exact sum_count_zip_right A hA b y x hl.symm hx

theorem mem_pairs {A : List σ} {B : List τ} {a : σ} {b : τ} :
    (a, b) ∈ pairs A B ↔ a ∈ A ∧ b ∈ B := by
  simp [pairs]

theorem sum_pairs {M : Type} [AddCommMonoid M] (A : List σ) (B : List τ) (f : σ × τ → M) :
    ((pairs A B).map f).sum = (A.map fun a => (B.map fun b => f (a, b)).sum).sum := by
  induction A with
  | nil => simp [pairs]
  | cons a A ih =>
    have : pairs (a :: A) B = (B.map fun b => (a, b)) ++ pairs A B := by simp [pairs]
    rw [this, List.map_append, List.sum_append, ih, List.map_cons, List.sum_cons, List.map_map]
    rfl

theorem nodup_pairs {A : List σ} {B : List τ} (hA : A.Nodup) (hB : B.Nodup) : (pairs A B).Nodup := by
  induction A with
  | nil => simp [pairs]
  | cons a A ih =>
    have : pairs (a :: A) B = (B.map fun b => (a, b)) ++ pairs A B := by simp [pairs]
    rw [this, List.nodup_append]
    obtain ⟨ha, hA'⟩ := List.nodup_cons.mp hA
    refine ⟨?_, ih hA', ?_⟩
    · exact hB.map (fun b b' h => by simpa using h)
    · intro p hp q hq hpq
      subst hpq
      obtain ⟨b, _, rfl⟩ := List.mem_map.mp hp
      exact ha (mem_pairs.mp hq).1

/-- re-association of a zipped triple -/
theorem count_zip_assoc {ρ : Type} [DecidableEq ρ] (A : List σ) (C : List τ) (B : List ρ)
    (a : σ) (c : τ) (b : ρ) :
    (A.zip (C.zip B)).count (a, (c, b)) = ((A.zip B).zip C).count ((a, b), c) := by
  induction A generalizing C B with
  | nil => simp
  | cons s A ih =>
    cases C with
    | nil => simp
    | cons t C =>
      cases B with
      | nil => simp
      | cons r B =>
        simp only [List.zip_cons_cons, List.count_cons, ih]
        by_cases hs : s = a <;> by_cases ht : t = c <;> by_cases hr : r = b <;> simp [hs, ht, hr]

end Nitime.C20
