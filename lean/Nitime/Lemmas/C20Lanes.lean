/-
C20 — the lane plumbing of the n-d models: a lane of `fromLanes … L` is the corresponding
element of `L`, and lane `k` of `lanesOf` is `lane … (k / inner) (k % inner)`.
-/
import Nitime.Model.C20
import Nitime.Lemmas.EvInst

namespace Nitime.Ev
variable {K : Type} [Scalar K]

theorem tabulate_nth_eq (l : List K) (n : ℕ) (h : l.length = n) : tabulate n (nth l) = l := by
  subst h
  apply List.ext_getElem (by simp)
  intro i h1 h2
  simp [tabulate, nth, List.getD_eq_getElem?_getD, h2]

theorem innerOf_set (shape : List ℕ) (ax n' : ℕ) : innerOf (shape.set ax n') ax = innerOf shape ax := by
  simp [innerOf, List.drop_set_of_lt]

theorem outerOf_set (shape : List ℕ) (ax n' : ℕ) : outerOf (shape.set ax n') ax = outerOf shape ax := by
  simp [outerOf, List.take_set_of_le]

theorem getD_set_self (shape : List ℕ) {ax : ℕ} (n' : ℕ) (h : ax < shape.length) :
    (shape.set ax n').getD ax 0 = n' := by
  simp [List.getD_eq_getElem?_getD, h]

theorem idx_decomp {inner n' o t i : ℕ} (hi : i < inner) (ht : t < n') :
    ((o * n' + t) * inner + i) % inner = i ∧ ((o * n' + t) * inner + i) / inner % n' = t ∧
    ((o * n' + t) * inner + i) / inner / n' = o := by
  have hpos : 0 < inner := by omega
  have hn : 0 < n' := by omega
  have h1 : ((o * n' + t) * inner + i) % inner = i := by
    rw [Nat.add_comm, Nat.add_mul_mod_self_right, Nat.mod_eq_of_lt hi]
  have h2 : ((o * n' + t) * inner + i) / inner = o * n' + t := by
    rw [Nat.add_comm, Nat.add_mul_div_right _ _ hpos, Nat.div_eq_of_lt hi, Nat.zero_add]
  refine ⟨h1, ?_, ?_⟩
  · rw [h2, Nat.add_comm, Nat.add_mul_mod_self_right, Nat.mod_eq_of_lt ht]
  · rw [h2, Nat.add_comm, Nat.add_mul_div_right _ _ hn, Nat.div_eq_of_lt ht, Nat.zero_add]

theorem idx_lt {outer inner n' o t i : ℕ} (ho : o < outer) (hi : i < inner) (ht : t < n') :
    (o * n' + t) * inner + i < outer * n' * inner := by
  have h1 : o * n' + t + 1 ≤ outer * n' := by
    calc o * n' + t + 1 ≤ o * n' + n' := by omega
      _ = (o + 1) * n' := by ring
      _ ≤ outer * n' := Nat.mul_le_mul_right _ (by omega)
  calc (o * n' + t) * inner + i < (o * n' + t) * inner + inner := by omega
    _ = (o * n' + t + 1) * inner := by ring
    _ ≤ outer * n' * inner := Nat.mul_le_mul_right _ h1

/-- reading back a lane of an assembled array -/
theorem lane_fromLanes (shape : List ℕ) (ax : ℕ) (L : List (List K)) (hax : ax < shape.length)
    {o i : ℕ} (ho : o < outerOf shape ax) (hi : i < innerOf shape ax)
    (hlen : (L.getD (o * innerOf shape ax + i) []).length = (L.headD []).length) :
    lane (fromLanes shape ax L) ax o i = L.getD (o * innerOf shape ax + i) [] := by
  unfold lane fromLanes
  simp only [getD_set_self shape _ hax, innerOf_set]
  rw [← tabulate_nth_eq (L.getD (o * innerOf shape ax + i) []) _ hlen]
  unfold tabulate
  apply List.map_congr_left
  intro t ht
  have ht' : t < (L.headD []).length := List.mem_range.mp ht
  have hd := idx_decomp (o := o) hi ht'
  rw [← tabulate, nth_tabulate _ (idx_lt ho hi ht')]
  simp only [hd.1, hd.2.1, hd.2.2]

theorem getD_lanesOf (a : ND K) (ax : ℕ) {o i : ℕ} (ho : o < outerOf a.shape ax)
    (hi : i < innerOf a.shape ax) :
    (lanesOf a ax).getD (o * innerOf a.shape ax + i) [] = lane a ax o i := by
  have hk : o * innerOf a.shape ax + i < outerOf a.shape ax * innerOf a.shape ax := by
    calc o * innerOf a.shape ax + i < o * innerOf a.shape ax + innerOf a.shape ax := by omega
      _ = (o + 1) * innerOf a.shape ax := by ring
      _ ≤ _ := Nat.mul_le_mul_right _ (by omega)
  have hpos : 0 < innerOf a.shape ax := by omega
  have h1 : (o * innerOf a.shape ax + i) / innerOf a.shape ax = o := by
    rw [Nat.add_comm, Nat.add_mul_div_right _ _ hpos, Nat.div_eq_of_lt hi, Nat.zero_add]
  have h2 : (o * innerOf a.shape ax + i) % innerOf a.shape ax = i := by
    rw [Nat.add_comm, Nat.add_mul_mod_self_right, Nat.mod_eq_of_lt hi]
  simp only [lanesOf, List.getD_eq_getElem?_getD, List.getElem?_map, List.getElem?_range hk,
    Option.map_some, Option.getD_some, h1, h2]

@[simp] theorem length_lane (a : ND K) (ax o i : ℕ) : (lane a ax o i).length = a.shape.getD ax 0 := by
  simp [lane]

theorem length_lanesOf (a : ND K) (ax : ℕ) :
    (lanesOf a ax).length = outerOf a.shape ax * innerOf a.shape ax := by
  simp [lanesOf]

theorem normAxis_lt {ndim : ℕ} {axis : ℤ} {ax : ℕ} (h : normAxis ndim axis = some ax) : ax < ndim := by
  unfold normAxis at h
  simp only at h
  split_ifs at h <;> first | (cases h; omega) | skip

/-- lane-wise maps: every lane of the result is `f` of the corresponding input lane, for any `f`
whose output length depends only on the input length -/
theorem lane_mapLanes (f : List K → List K) (g : ℕ → ℕ) (hf : ∀ l, (f l).length = g l.length)
    (x : ND K) (ax : ℕ) (hax : ax < x.shape.length) {o i : ℕ} (ho : o < outerOf x.shape ax)
    (hi : i < innerOf x.shape ax) :
    lane (fromLanes x.shape ax ((lanesOf x ax).map f)) ax o i = f (lane x ax o i) := by
  have hne : 0 < (lanesOf x ax).length := by
    rw [length_lanesOf]; exact Nat.mul_pos (by omega) (by omega)
  have hget : ((lanesOf x ax).map f).getD (o * innerOf x.shape ax + i) [] = f (lane x ax o i) := by
    have hk : o * innerOf x.shape ax + i < (lanesOf x ax).length := by
      rw [length_lanesOf]
      calc o * innerOf x.shape ax + i < o * innerOf x.shape ax + innerOf x.shape ax := by omega
        _ = (o + 1) * innerOf x.shape ax := by ring
        _ ≤ _ := Nat.mul_le_mul_right _ (by omega)
    have := getD_lanesOf x ax ho hi
    simp only [List.getD_eq_getElem?_getD, List.getElem?_map, List.getElem?_eq_getElem hk,
      Option.map_some, Option.getD_some] at this ⊢
    rw [this]
  rw [lane_fromLanes _ _ _ hax ho hi, hget]
  rw [hget, hf]
  -- the first lane has the same length
  have key : ∀ (l : List (List K)) (h : 0 < l.length), (l.map f).headD [] = f (l[0]'h) := by
    intro l h
    cases l with
    | nil => simp at h
    | cons a l => simp
  rw [key _ hne, hf]
  have : (lanesOf x ax)[0]'hne = lane x ax (0 / innerOf x.shape ax) (0 % innerOf x.shape ax) := by
    simp [lanesOf]
  rw [this, length_lane, length_lane]

/-- lanes produced by a function of the lane number (all of one length) -/
theorem lane_fromLanes_tab (shape : List ℕ) (ax : ℕ) (F : ℕ → List K) (n' : ℕ)
    (hF : ∀ k, (F k).length = n') (hax : ax < shape.length) {o i : ℕ}
    (ho : o < outerOf shape ax) (hi : i < innerOf shape ax) :
    lane (fromLanes shape ax ((List.range (outerOf shape ax * innerOf shape ax)).map F)) ax o i
      = F (o * innerOf shape ax + i) := by
  have hk : o * innerOf shape ax + i < outerOf shape ax * innerOf shape ax := by
    calc o * innerOf shape ax + i < o * innerOf shape ax + innerOf shape ax := by omega
      _ = (o + 1) * innerOf shape ax := by ring
      _ ≤ _ := Nat.mul_le_mul_right _ (by omega)
  have hget : ((List.range (outerOf shape ax * innerOf shape ax)).map F).getD (o * innerOf shape ax + i) []
      = F (o * innerOf shape ax + i) := by
    simp only [List.getD_eq_getElem?_getD, List.getElem?_map, List.getElem?_range hk,
      Option.map_some, Option.getD_some]
  have hhead : (((List.range (outerOf shape ax * innerOf shape ax)).map F).headD []).length = n' := by
    have : ∃ m, outerOf shape ax * innerOf shape ax = m + 1 := ⟨_, (Nat.succ_pred_eq_of_pos (by omega)).symm⟩
    obtain ⟨m, hm⟩ := this
    rw [hm, List.range_succ_eq_map]
    simp [hF]
  rw [lane_fromLanes _ _ _ hax ho hi (by rw [hget, hhead, hF]), hget]

theorem lanesOf_eq (a : ND K) (ax : ℕ) :
    lanesOf a ax = (List.range (outerOf a.shape ax * innerOf a.shape ax)).map
      fun k => lane a ax (k / innerOf a.shape ax) (k % innerOf a.shape ax) := rfl

end Nitime.Ev
