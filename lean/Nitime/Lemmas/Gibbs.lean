import Mathlib.Analysis.SpecialFunctions.Log.Basic
import Mathlib.Algebra.BigOperators.Ring.Finset
import Mathlib.Algebra.Order.BigOperators.Group.Finset
import Mathlib.Tactic.Linarith
import Mathlib.Tactic.Positivity

open Finset Real

/-- Gibbs' inequality, finite form (0·log 0 = 0 as in the code: terms with p = 0 are skipped) -/
theorem gibbs {ι : Type*} [Fintype ι] (p q : ι → ℝ) (hp : ∀ i, 0 ≤ p i) (hq : ∀ i, 0 ≤ q i)
    (hpq : ∀ i, 0 < p i → 0 < q i) (hsum : ∑ i, q i ≤ ∑ i, p i) :
    0 ≤ ∑ i, p i * log (p i / q i) := by
  have hterm : ∀ i, p i - q i ≤ p i * log (p i / q i) := by
    intro i
    rcases (hp i).eq_or_lt with h0 | hpos
    · rw [← h0]; simp; exact hq i
    · have hqpos := hpq i hpos
      have h1 : log (q i / p i) ≤ q i / p i - 1 := log_le_sub_one_of_pos (by positivity)
      have h2 : log (p i / q i) = - log (q i / p i) := by
        rw [← log_inv, inv_div]
      rw [h2]
      have h3 : p i * (q i / p i - 1) = q i - p i := by field_simp
      nlinarith [mul_le_mul_of_nonneg_left h1 hpos.le]
  calc (0 : ℝ) ≤ ∑ i, p i - ∑ i, q i := by linarith
    _ = ∑ i, (p i - q i) := by rw [sum_sub_distrib]
    _ ≤ ∑ i, p i * log (p i / q i) := sum_le_sum fun i _ => hterm i

/-- mutual information of a joint distribution on a finite product is non-negative -/
theorem mi_nonneg {α β : Type*} [Fintype α] [Fintype β] (P : α × β → ℝ)
    (hP : ∀ z, 0 ≤ P z) (hP1 : ∑ z, P z = 1) :
    0 ≤ ∑ z : α × β, P z * log (P z / ((∑ b, P (z.1, b)) * (∑ a, P (a, z.2)))) := by
  apply gibbs P (fun z => (∑ b, P (z.1, b)) * (∑ a, P (a, z.2))) hP
  · intro z; exact mul_nonneg (sum_nonneg fun _ _ => hP _) (sum_nonneg fun _ _ => hP _)
  · intro z hz
    have h1 : P z ≤ ∑ b, P (z.1, b) :=
      single_le_sum (f := fun b => P (z.1, b)) (fun b _ => hP _) (mem_univ z.2)
    have h2 : P z ≤ ∑ a, P (a, z.2) :=
      single_le_sum (f := fun a => P (a, z.2)) (fun a _ => hP _) (mem_univ z.1)
    exact mul_pos (lt_of_lt_of_le hz h1) (lt_of_lt_of_le hz h2)
  · have hX : ∑ a, ∑ b, P (a, b) = 1 := by rw [← Fintype.sum_prod_type']; exact hP1
    have hY : ∑ b, ∑ a, P (a, b) = 1 := by rw [← Fintype.sum_prod_type_right']; exact hP1
    have : ∑ z : α × β, (∑ b, P (z.1, b)) * (∑ a, P (a, z.2))
        = (∑ a, ∑ b, P (a, b)) * (∑ b, ∑ a, P (a, b)) := by
      rw [Fintype.sum_prod_type, Finset.sum_mul_sum]
    rw [this, hX, hY, hP1]; norm_num

#print axioms mi_nonneg
