/-
C20 — three-variable entropies of the model at ℝ: transfer entropy is a conditional mutual
information (hence ≥ 0); conditional entropy ≥ 0; bounds of the entropy correlation coefficient.
-/
import Nitime.Lemmas.C20Entropy
import Nitime.Lemmas.C20Info3

namespace Nitime.C20
attribute [-instance] instBEqProd
open Finset Nitime.Ev Real
set_option linter.unusedSectionVars false
variable {σ : Type} [DecidableEq σ]

/-- joint empirical probability of a zipped triple -/
noncomputable def P3 (u v w : List σ) (a c b : σ) : ℝ :=
  pr ((u.zip (v.zip w)).count (a, (c, b))) u.length

theorem P3_nonneg (u v w : List σ) (a c b : σ) : 0 ≤ P3 u v w a c b := by
  unfold P3 pr; positivity

theorem P3_marg_mid (u v w : List σ) (h1 : u.length = v.length) (h2 : u.length = w.length) (a b : σ) :
    ∑ c ∈ (uniq v).toFinset, P3 u v w a c b = P2 u w a b := by
  unfold P3 P2 pr
  rw [← sum_div, ← Nat.cast_sum, List.sum_toFinset _ (nodup_uniq v)]
  simp only [count_zip_assoc]
  rw [sum_count_zip_right (uniq v) (nodup_uniq v) (a, b) (u.zip w) v (by simp [← h2, h1])
    (fun t ht => mem_uniq.mpr ht)]

theorem P3_marg_first (u v w : List σ) (h1 : u.length = v.length) (h2 : u.length = w.length) (c b : σ) :
    ∑ a ∈ (uniq u).toFinset, P3 u v w a c b = P2 v w c b := by
  unfold P3 P2 pr
  rw [← sum_div, ← Nat.cast_sum, List.sum_toFinset _ (nodup_uniq u),
    sum_count_zip_left (uniq u) (nodup_uniq u) (c, b) u (v.zip w) (by simp [← h1, ← h2])
      (fun t ht => mem_uniq.mpr ht), h1]

theorem entropy3_mul_log2 (u v w : List σ) (h1 : u.length = v.length) (h2 : u.length = w.length) :
    (entropyG (pairs (uniq u) (pairs (uniq v) (uniq w))) (u.zip (v.zip w)) : ℝ) * log 2
      = -(∑ a ∈ (uniq u).toFinset, ∑ c ∈ (uniq v).toFinset, ∑ b ∈ (uniq w).toFinset,
          P3 u v w a c b * log (P3 u v w a c b)) := by
  have hz : (u.zip (v.zip w)).length = u.length := by simp [← h1, ← h2]
  have hsum : (entropyG (pairs (uniq u) (pairs (uniq v) (uniq w))) (u.zip (v.zip w)) : ℝ)
      = ∑ a ∈ (uniq u).toFinset, ∑ c ∈ (uniq v).toFinset, ∑ b ∈ (uniq w).toFinset,
          (plogp ((u.zip (v.zip w)).count (a, (c, b))) u.length : ℝ) := by
    rw [entropyG_eq, sum_pairs, hz, List.sum_toFinset _ (nodup_uniq u)]
    congr 1
    apply List.map_congr_left
    intro a _
    rw [sum_pairs, List.sum_toFinset _ (nodup_uniq v)]
    congr 1
    apply List.map_congr_left
    intro c _
    rw [List.sum_toFinset _ (nodup_uniq w)]
  rw [hsum, sum_mul, ← sum_neg_distrib]
  refine sum_congr rfl fun a _ => ?_
  rw [sum_mul, ← sum_neg_distrib]
  refine sum_congr rfl fun c _ => ?_
  rw [sum_mul, ← sum_neg_distrib]
  exact sum_congr rfl fun b _ => plogp_mul_log2 _ _

/-- `(H(U,W) + H(V,W) − H(W) − H(U,V,W))·ln 2` is the conditional Kullback–Leibler sum, hence ≥ 0 -/
theorem cmi_nonneg (u v w : List σ) (h1 : u.length = v.length) (h2 : u.length = w.length) :
    0 ≤ (entropyG (pairs (uniq u) (uniq w)) (u.zip w) : ℝ)
        + entropyG (pairs (uniq v) (uniq w)) (v.zip w)
        - entropyG (uniq w) w
        - entropyG (pairs (uniq u) (pairs (uniq v) (uniq w))) (u.zip (v.zip w)) := by
  have hvw : v.length = w.length := h1.symm.trans h2
  have hnn := ckl_nonneg (uniq u).toFinset (uniq v).toFinset (uniq w).toFinset (P3 u v w) (P3_nonneg u v w)
  rw [ckl_decomp (uniq u).toFinset (uniq v).toFinset (uniq w).toFinset (P3 u v w) (P3_nonneg u v w)] at hnn
  have hmAB : ∀ a b, mAB (uniq v).toFinset (P3 u v w) a b = P2 u w a b := P3_marg_mid u v w h1 h2
  have hmCB : ∀ c b, mCB (uniq u).toFinset (P3 u v w) c b = P2 v w c b := P3_marg_first u v w h1 h2
  have hmB : ∀ b, mB (uniq u).toFinset (uniq v).toFinset (P3 u v w) b = pr (w.count b) w.length := by
    intro b
    have : mB (uniq u).toFinset (uniq v).toFinset (P3 u v w) b
        = ∑ a ∈ (uniq u).toFinset, mAB (uniq v).toFinset (P3 u v w) a b := rfl
    rw [this]
    simp only [hmAB]
    rw [P2_marg_left u w h2 b, h2]
  simp only [hmAB, hmCB, hmB] at hnn
  have e3 := entropy3_mul_log2 u v w h1 h2
  have e2a := entropy2_mul_log2 u w h2
  have e2b := entropy2_mul_log2 v w hvw
  have e1 := entropy1_mul_log2 w
  unfold entropy1 at e1
  refine nonneg_of_mul_nonneg_left (b := log 2) ?_ log_two_pos
  rw [sub_mul, sub_mul, add_mul, e3, e2a, e2b, e1]
  linarith

/-- a marginal entropy is at most the joint entropy: `H(Y) ≤ H(X,Y)` -/
theorem entropy_le_joint_right (x y : List σ) (hl : x.length = y.length) :
    (entropyG (uniq y) y : ℝ) ≤ entropyG (pairs (uniq x) (uniq y)) (x.zip y) := by
  have h := joint_ge_marginal (uniq x).toFinset (uniq y).toFinset (P2 x y) (P2_nonneg x y)
  simp only [P2_marg_left x y hl] at h
  have e1 := entropy1_mul_log2 y
  unfold entropy1 at e1
  rw [← hl] at e1
  rw [← e1, ← entropy2_mul_log2 x y hl] at h
  exact le_of_mul_le_mul_right h log_two_pos

theorem entropy_le_joint_left (x y : List σ) (hl : x.length = y.length) :
    (entropyG (uniq x) x : ℝ) ≤ entropyG (pairs (uniq x) (uniq y)) (x.zip y) := by
  rw [entropy2_symm x y hl]
  exact entropy_le_joint_right y x hl.symm

theorem length_rollLeft (x : List σ) (lag : ℕ) : (rollLeft x lag).length = x.length := by
  have key : ∀ (l : List σ) (i : ℕ), (l.rotateLeft i).length = l.length := by
    intro l i
    unfold List.rotateLeft
    simp only []
    split_ifs
    · rfl
    · simp only [List.length_append, List.length_drop, List.length_take]
      have : i % l.length ≤ l.length := (Nat.mod_lt _ (by omega)).le
      omega
  by_cases h : x.length = 0 <;> simp [rollLeft, h, key]

end Nitime.C20
