/- C17: the `sampling_rate` the source computes from an interval Δ (five binary64 roundings) is
   within 6·2⁻⁵³ (relative) of 10¹²/Δ — i.e. within 3 ulp. -/
import Nitime.Model.C17
import Nitime.Lemmas.F64Bound
import Nitime.Props.C01
import Mathlib.Tactic.FieldSimp
import Mathlib.Tactic.Linarith
import Mathlib.Tactic.Ring
import Mathlib.Tactic.NormNum

namespace Nitime.C17.Rate
open Nitime Nitime.F64 Nitime.C17

/-- unit roundoff of binary64 -/
def eps : Rat := pow2 (-53)

theorem eps_val : eps = 1 / 9007199254740992 := by
  simp [eps, pow2]

theorem eps_nonneg : 0 ≤ eps := (pow2_pos _).le

/-- every rounding is a relative perturbation of at most `eps` -/
theorem rne_factor (q : Rat) : ∃ δ : Rat, |δ| ≤ eps ∧ rne q = q * (1 + δ) := by
  by_cases h : q = 0
  · exact ⟨0, by simpa using eps_nonneg, by simp [h, rne]⟩
  · refine ⟨(rne q - q) / q, ?_, by field_simp; ring⟩
    rw [abs_div]
    have := rne_near q
    rw [div_le_iff₀ (abs_pos.mpr h), mul_comm]
    exact this

theorem near_mul {x y α β : Rat} (hx : |x - 1| ≤ α) (hy : |y - 1| ≤ β) :
    |x * y - 1| ≤ α + β + α * β := by
  have e : x * y - 1 = (x - 1) * (y - 1) + (x - 1) + (y - 1) := by ring
  have hα : 0 ≤ α := le_trans (abs_nonneg _) hx
  rw [e]
  calc |(x - 1) * (y - 1) + (x - 1) + (y - 1)|
      ≤ |(x - 1) * (y - 1)| + |x - 1| + |y - 1| := abs_add_three _ _ _
    _ = |x - 1| * |y - 1| + |x - 1| + |y - 1| := by rw [abs_mul]
    _ ≤ α * β + α + β := by
        have := mul_le_mul hx hy (abs_nonneg _) hα
        linarith
    _ = α + β + α * β := by ring

/-- three perturbations in the numerator, two in the denominator -/
theorem ratio_near {d1 d2 d3 d4 d5 e : Rat} (he0 : 0 ≤ e) (he : 16 * e + 7 * e ^ 2 ≤ 1)
    (h1 : |d1| ≤ e) (h2 : |d2| ≤ e) (h3 : |d3| ≤ e) (h4 : |d4| ≤ e) (h5 : |d5| ≤ e) :
    0 < (1 + d1) * (1 + d2) ∧
    |(1 + d3) * (1 + d4) * (1 + d5) / ((1 + d1) * (1 + d2)) - 1| ≤ 6 * e := by
  have e1 : e ≤ 1 / 16 := by nlinarith
  have a (d : Rat) (h : |d| ≤ e) : |(1 + d) - 1| ≤ e := by simpa using h
  have hN2 := near_mul (a d3 h3) (a d4 h4)
  have hN := near_mul hN2 (a d5 h5)
  have hD := near_mul (a d1 h1) (a d2 h2)
  have hDlow : 1 - (e + e + e * e) ≤ (1 + d1) * (1 + d2) := by
    have := (abs_le.mp hD).1; linarith
  have hDpos : 0 < (1 + d1) * (1 + d2) := by nlinarith
  refine ⟨hDpos, ?_⟩
  have hq : (1 + d3) * (1 + d4) * (1 + d5) / ((1 + d1) * (1 + d2)) - 1
      = (((1 + d3) * (1 + d4) * (1 + d5) - 1) - ((1 + d1) * (1 + d2) - 1)) / ((1 + d1) * (1 + d2)) := by
    have hne : (1 + d1) * (1 + d2) ≠ 0 := ne_of_gt hDpos
    rw [eq_div_iff hne, sub_mul, div_mul_cancel₀ _ hne]
    ring
  rw [hq, abs_div, abs_of_pos hDpos, div_le_iff₀ hDpos]
  have hnum : |((1 + d3) * (1 + d4) * (1 + d5) - 1) - ((1 + d1) * (1 + d2) - 1)|
      ≤ (e + e + e * e + e + (e + e + e * e) * e) + (e + e + e * e) := by
    calc _ ≤ |(1 + d3) * (1 + d4) * (1 + d5) - 1| + |(1 + d1) * (1 + d2) - 1| := abs_sub _ _
      _ ≤ _ := add_le_add hN hD
  have : (e + e + e * e + e + (e + e + e * e) * e) + (e + e + e * e) ≤ 6 * e * (1 - (e + e + e * e)) := by
    nlinarith
  calc _ ≤ _ := hnum
    _ ≤ 6 * e * (1 - (e + e + e * e)) := this
    _ ≤ 6 * e * ((1 + d1) * (1 + d2)) := by
        apply mul_le_mul_of_nonneg_left hDlow; linarith

/-- **the rate attribute is within 6·2⁻⁵³ (relative) of 10¹²/Δ** -/
theorem rateOf_near (u : TimeUnit) (dt : Int) (hdt : dt ≠ 0) :
    |rateOf u dt - 1000000000000 / (dt : Rat)| ≤ |1000000000000 / (dt : Rat)| * (6 * eps) := by
  have hf : F64.ofInt (factorOf u) = (Generated.factor u : Rat) := by
    have := Nitime.C01.Props.factor_exact_in_f64 u
    simpa [factorOf] using this
  have h12 : F64.ofInt 1000000000000 = (1000000000000 : Rat) := by
    have := Nitime.C01.Props.factor_exact_in_f64 .s
    simpa [Generated.factor] using this
  have hFpos : (0 : Rat) < (Generated.factor u : Rat) := by
    cases u <;> simp [Generated.factor]
  have hF : (Generated.factor u : Rat) ≠ 0 := ne_of_gt hFpos
  have hd : (dt : Rat) ≠ 0 := by exact_mod_cast hdt
  simp only [rateOf, fmul, fdiv, hf, h12]
  obtain ⟨d1, h1, e1⟩ := rne_factor (dt : Rat)
  have e1' : F64.ofInt dt = (dt : Rat) * (1 + d1) := e1
  rw [e1']
  obtain ⟨d2, h2, e2⟩ := rne_factor ((dt : Rat) * (1 + d1) / (Generated.factor u : Rat))
  rw [e2]
  obtain ⟨d3, h3, e3⟩ := rne_factor (1 / ((dt : Rat) * (1 + d1) / (Generated.factor u : Rat) * (1 + d2)))
  rw [e3]
  obtain ⟨d4, h4, e4⟩ := rne_factor ((1000000000000 : Rat) / (Generated.factor u : Rat))
  rw [e4]
  obtain ⟨d5, h5, e5⟩ := rne_factor (1 / ((dt : Rat) * (1 + d1) / (Generated.factor u : Rat) * (1 + d2)) * (1 + d3)
      * ((1000000000000 : Rat) / (Generated.factor u : Rat) * (1 + d4)))
  rw [e5]
  have hε : 16 * eps + 7 * eps ^ 2 ≤ 1 := by rw [eps_val]; norm_num
  obtain ⟨hDpos, hR⟩ := ratio_near eps_nonneg hε h1 h2 h3 h4 h5
  have hD1 : (1 + d1) ≠ 0 := fun h => by rw [h] at hDpos; simp at hDpos
  have hD2 : (1 + d2) ≠ 0 := fun h => by rw [h] at hDpos; simp at hDpos
  have key : 1 / ((dt : Rat) * (1 + d1) / (Generated.factor u : Rat) * (1 + d2)) * (1 + d3)
      * ((1000000000000 : Rat) / (Generated.factor u : Rat) * (1 + d4)) * (1 + d5)
      = 1000000000000 / (dt : Rat) * ((1 + d3) * (1 + d4) * (1 + d5) / ((1 + d1) * (1 + d2))) := by
    field_simp
  rw [key]
  have : 1000000000000 / (dt : Rat) * ((1 + d3) * (1 + d4) * (1 + d5) / ((1 + d1) * (1 + d2)))
      - 1000000000000 / (dt : Rat)
      = 1000000000000 / (dt : Rat) * ((1 + d3) * (1 + d4) * (1 + d5) / ((1 + d1) * (1 + d2)) - 1) := by ring
  rw [this, abs_mul]
  exact mul_le_mul_of_nonneg_left hR (abs_nonneg _)

end Nitime.C17.Rate
