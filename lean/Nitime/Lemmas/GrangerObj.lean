/-
The `GrangerAnalyzer` object model (`Model/GrangerObj.lean`): for every history of reads and
`set_input`s on one analyzer, each read returns what a fresh analyzer on the CURRENT input
returns (`run_eq_ref`).  Holds for every `fit` / `spec` / `axis`.  Core Lean only.
-/
import Nitime.Model.GrangerObj

namespace Nitime.GrangerObj
variable {D R G A : Type} (fit : D → Option R) (spec : D → R → G) (axis : D → A)

/-- every entry of the instance dict is absent or holds the value computed from the current input -/
def Inv (s : Obj D R G A) : Prop :=
  (s.model = none ∨ (s.model ≠ none ∧ s.model = fit s.input)) ∧
  (s.gc = none ∨ (s.gc ≠ none ∧ s.gc = (fit s.input).map (spec s.input))) ∧
  (s.freqs = none ∨ s.freqs = some (axis s.input))

theorem inv_construct (d : D) : Inv fit spec axis (construct d : Obj D R G A) :=
  ⟨Or.inl rfl, Or.inl rfl, Or.inl rfl⟩

theorem inv_setInput (d : D) (s : Obj D R G A) : Inv fit spec axis (setInput d s) :=
  ⟨Or.inl rfl, Or.inl rfl, Or.inl rfl⟩

theorem readModel_spec (s : Obj D R G A) (h : Inv fit spec axis s) :
    (readModel fit s).2 = fit s.input ∧ Inv fit spec axis (readModel fit s).1 ∧
    (readModel fit s).1.input = s.input := by
  obtain ⟨hm, hg, hf⟩ := h
  unfold readModel
  rcases hm with hm | ⟨hne, hm⟩
  · rw [hm]
    cases hfit : fit s.input with
    | none => exact ⟨rfl, ⟨Or.inl hm, hg, hf⟩, rfl⟩
    | some r =>
      refine ⟨rfl, ⟨Or.inr ⟨by simp, ?_⟩, hg, hf⟩, rfl⟩
      simp [hfit]
  · cases hmod : s.model with
    | none => exact absurd hmod hne
    | some r =>
      refine ⟨?_, ⟨Or.inr ⟨hne, hm⟩, hg, hf⟩, rfl⟩
      rw [← hm, hmod]

theorem readGC_spec (s : Obj D R G A) (h : Inv fit spec axis s) :
    (readGC fit spec s).2 = (fit s.input).map (spec s.input) ∧ Inv fit spec axis (readGC fit spec s).1 ∧
    (readGC fit spec s).1.input = s.input := by
  have h' := h
  obtain ⟨hm, hg, hf⟩ := h
  unfold readGC
  rcases hg with hg | ⟨hne, hg⟩
  · rw [hg]
    obtain ⟨e1, ⟨i1, i2, i3⟩, e3⟩ := readModel_spec fit spec axis s h'
    cases hrm : readModel fit s with
    | mk s1 o =>
      rw [hrm] at e1 i1 i2 i3 e3
      simp only at e1 i1 i2 i3 e3
      cases o with
      | none =>
        refine ⟨?_, ⟨i1, i2, i3⟩, e3⟩
        simp [← e1]
      | some r =>
        refine ⟨?_, ⟨i1, Or.inr ⟨by simp, ?_⟩, i3⟩, e3⟩
        · simp [← e1, e3]
        · show some (spec s1.input r) = (fit s1.input).map (spec s1.input)
          rw [e3, ← e1]; rfl
  · cases hgc : s.gc with
    | none => exact absurd hgc hne
    | some g =>
      refine ⟨?_, h', rfl⟩
      rw [← hg, hgc]

theorem readFreqs_spec (s : Obj D R G A) (h : Inv fit spec axis s) :
    (readFreqs axis s).2 = axis s.input ∧ Inv fit spec axis (readFreqs axis s).1 ∧
    (readFreqs axis s).1.input = s.input := by
  have h' := h
  obtain ⟨hm, hg, hf⟩ := h
  unfold readFreqs
  rcases hf with hf | hf
  · rw [hf]; exact ⟨rfl, ⟨hm, hg, Or.inr rfl⟩, rfl⟩
  · rw [hf]; exact ⟨rfl, h', rfl⟩

/-- **re-targeting.** Any history of `set_input`s and reads on one analyzer answers every read from
the input that is current at that moment. -/
theorem run_eq_ref_of_inv (ops : List (Op D)) :
    ∀ s : Obj D R G A, Inv fit spec axis s → run fit spec axis ops s = ref fit spec axis ops s.input := by
  induction ops with
  | nil => intro s _; rfl
  | cons o os ih =>
    intro s h
    cases o with
    | setInput d =>
      simp only [run, step, ref]
      rw [ih _ (inv_setInput fit spec axis d s)]; rfl
    | readModel =>
      obtain ⟨e, i, ei⟩ := readModel_spec fit spec axis s h
      simp only [run, step, ref]
      rw [ih _ i, e, ei]
    | readGC =>
      obtain ⟨e, i, ei⟩ := readGC_spec fit spec axis s h
      simp only [run, step, ref]
      rw [ih _ i, e, ei]
    | readFreqs =>
      obtain ⟨e, i, ei⟩ := readFreqs_spec fit spec axis s h
      simp only [run, step, ref]
      rw [ih _ i, e, ei]

theorem run_eq_ref (ops : List (Op D)) (d : D) :
    run fit spec axis ops (construct d : Obj D R G A) = ref fit spec axis ops d :=
  run_eq_ref_of_inv fit spec axis ops _ (inv_construct fit spec axis d)

end Nitime.GrangerObj

namespace Nitime.GrangerObj
variable {D R G A : Type} (fit : D → Option R) (spec : D → R → G) (axis : D → A)

/-- the input the analyzer points at after a history -/
def cur : List (Op D) → D → D
  | [], d => d
  | .setInput d' :: os, _ => cur os d'
  | _ :: os, d => cur os d

theorem ref_append (os os' : List (Op D)) (d : D) :
    ref fit spec axis (os ++ os') d = ref fit spec axis os d ++ ref fit spec axis os' (cur os d) := by
  induction os generalizing d with
  | nil => rfl
  | cons o os ih => cases o <;> simp [ref, cur, ih]

/-- whatever was read from the analyzer before, after `set_input(d')` the model-derived attributes
are the fit of `d'` (and the spectra those of `d'`) -/
theorem read_after_setInput (pre : List (Op D)) (d0 d' : D) :
    run fit spec axis (pre ++ [.setInput d', .readModel, .readGC, .readFreqs]) (construct d0 : Obj D R G A)
      = ref fit spec axis pre d0 ++
        [.done, .model (fit d'), .gc ((fit d').map (spec d')), .freqs (axis d')] := by
  rw [run_eq_ref, ref_append]; rfl

end Nitime.GrangerObj

/-! ## Round 2 (L7): `_model` as a per-pair loop that may fail part-way (`Model/GrangerObj.lean`: `ObjK`, `loopK`, `runK`) -/

namespace Nitime.GrangerObj
section failing
variable {D P F : Type} [DecidableEq P] (pairs : D → List P) (fit1 : D → P → Option F)

/-- the local-accumulator loop (no skipping): completes with `k ++ l` iff every pair fits (`fitList = some l`);
otherwise it stops -/
theorem loopK_false_spec (d : D) (ps : List P) : ∀ k : List (P × F),
    match fitList fit1 d ps with
    | some l => loopK fit1 false d ps k = (k ++ l, true)
    | none => (loopK fit1 false d ps k).2 = false := by
  induction ps with
  | nil => intro k; simp [fitList, loopK]
  | cons p ps ih =>
    intro k
    simp only [fitList, loopK, Bool.false_and, Bool.false_eq_true, if_false]
    cases hf : fit1 d p with
    | none => simp
    | some f =>
      have := ih (k ++ [(p, f)])
      cases hl : fitList fit1 d ps with
      | none => simpa [hl] using this
      | some l => simpa [hl] using this

/-- nothing but declared one-time attributes: `kept` empty, `_model` absent or the fit of the current input -/
def InvK (s : ObjK D P F) : Prop :=
  s.kept = [] ∧ (s.model = none ∨ (s.model ≠ none ∧ s.model = fitList fit1 s.input (pairs s.input)))

theorem readModelK_false_spec (s : ObjK D P F) (h : InvK pairs fit1 s) :
    (readModelK pairs fit1 false s).2 = fitList fit1 s.input (pairs s.input) ∧
    InvK pairs fit1 (readModelK pairs fit1 false s).1 ∧ (readModelK pairs fit1 false s).1.input = s.input := by
  obtain ⟨hk, hm⟩ := h
  unfold readModelK
  rcases hm with hm | ⟨hne, hm⟩
  · rw [hm]
    have hs := loopK_false_spec fit1 s.input (pairs s.input) []
    simp only [Bool.false_eq_true, if_false]
    cases hl : fitList fit1 s.input (pairs s.input) with
    | none =>
      rw [hl] at hs
      simp only at hs
      simp [hs, InvK, hl]
    | some l =>
      rw [hl] at hs
      simp only [List.nil_append] at hs
      simp [hs, InvK, hl]
  · cases hmod : s.model with
    | none => exact absurd hmod hne
    | some m =>
      refine ⟨?_, ⟨hk, Or.inr ⟨hne, hm⟩⟩, rfl⟩
      rw [← hm, hmod]

/-- **failure histories.** With the local accumulator, ANY history of reads (failing or not) and `set_input`s answers
every read as a fresh analyzer on the current input does. -/
theorem runK_false_eq_refK_of_inv (ops : List (OpK D)) :
    ∀ s : ObjK D P F, InvK pairs fit1 s → runK pairs fit1 false ops s = refK pairs fit1 ops s.input := by
  induction ops with
  | nil => intro s _; rfl
  | cons o os ih =>
    intro s h
    cases o with
    | setInput d =>
      simp only [runK, stepK, refK]
      have hi : InvK pairs fit1 (setInputK d s) := ⟨h.1, Or.inl rfl⟩
      rw [ih _ hi]; rfl
    | readModel =>
      obtain ⟨e, i, ei⟩ := readModelK_false_spec pairs fit1 s h
      simp only [runK, stepK, refK]
      rw [ih _ i, e, ei]

theorem runK_false_eq_refK (ops : List (OpK D)) (d : D) :
    runK pairs fit1 false ops (constructK d : ObjK D P F) = refK pairs fit1 ops d :=
  runK_false_eq_refK_of_inv pairs fit1 ops _ ⟨rfl, Or.inl rfl⟩

def curK : List (OpK D) → D → D
  | [], d => d
  | .setInput d' :: os, _ => curK os d'
  | _ :: os, d => curK os d

omit [DecidableEq P] in
theorem refK_append (os os' : List (OpK D)) (d : D) :
    refK pairs fit1 (os ++ os') d = refK pairs fit1 os d ++ refK pairs fit1 os' (curK os d) := by
  induction os generalizing d with
  | nil => rfl
  | cons o os ih => cases o <;> simp [refK, curK, ih]

/-- **set_input after any failure history answers from the new input only.** Whatever was read before — including reads
that raised after some pairs had been fitted — after `set_input(d')` the model is the per-pair fit of `d'`. -/
theorem retarget_after_failed_fit_is_fresh_local (pre : List (OpK D)) (d0 d' : D) :
    runK pairs fit1 false (pre ++ [.setInput d', .readModel]) (constructK d0 : ObjK D P F)
      = refK pairs fit1 pre d0 ++ [.done, .model (fitList fit1 d' (pairs d'))] := by
  rw [runK_false_eq_refK, refK_append]; rfl

/-- the same for the discipline the SOURCE has (`keepPartial`, generated): holds because no instance attribute is written
outside `__init__` / `set_input` and `_model`'s accumulator is a local — an edit that adds one re-opens this proof -/
theorem retarget_after_failed_fit_is_fresh (pre : List (OpK D)) (d0 d' : D) :
    runK pairs fit1 keepPartial (pre ++ [.setInput d', .readModel]) (constructK d0 : ObjK D P F)
      = refK pairs fit1 pre d0 ++ [.done, .model (fitList fit1 d' (pairs d'))] := by
  have hk : keepPartial = false := by decide
  rw [hk]; exact retarget_after_failed_fit_is_fresh_local pairs fit1 pre d0 d'

theorem runK_source_eq_refK (ops : List (OpK D)) (d : D) :
    runK pairs fit1 keepPartial ops (constructK d : ObjK D P F) = refK pairs fit1 ops d := by
  have hk : keepPartial = false := by decide
  rw [hk]; exact runK_false_eq_refK pairs fit1 ops d

end failing

/-! ### counter-model: the `_fitted` survivor (seed C15-10) -/

/-- two pairs `0, 1`; on input 0 pair 1 does not converge; a fit is tagged with the input it was computed from -/
def cxFit (d p : Nat) : Option Nat := if d = 0 ∧ p = 1 then none else some (10 * d + p)

/-- read (pair 0 fitted, pair 1 raises) — `set_input(1)` — read: with the surviving attribute pair 0 carries the fit of
input 0 (`0`), a fresh analyzer on input 1 gives `10` -/
theorem fitted_survivor_counterexample :
    runK (fun _ => [0, 1]) cxFit true [.readModel, .setInput 1, .readModel] (constructK 0)
      = [.model none, .done, .model (some [(0, 0), (1, 11)])] ∧
    refK (fun _ => [0, 1]) cxFit [.readModel, .setInput 1, .readModel] 0
      = [.model none, .done, .model (some [(0, 10), (1, 11)])] ∧
    runK (fun _ => [0, 1]) cxFit false [.readModel, .setInput 1, .readModel] (constructK 0)
      = [.model none, .done, .model (some [(0, 10), (1, 11)])] := ⟨rfl, rfl, rfl⟩

/-- what IS true of the survivor discipline: as long as no read has failed it agrees with the reference -/
theorem fitted_survivor_partial_example :
    runK (fun _ => [0, 1]) cxFit true [.setInput 1, .readModel, .setInput 2, .readModel] (constructK 0)
      = refK (fun _ => [0, 1]) cxFit [.setInput 1, .readModel, .setInput 2, .readModel] 0 := rfl

end Nitime.GrangerObj
