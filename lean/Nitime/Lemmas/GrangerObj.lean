/-
The `GrangerAnalyzer` object model (`Model/GrangerObj.lean`): for every history of reads and
`set_input`s on one analyzer, each read returns what a fresh analyzer on the CURRENT input
returns (`run_eq_ref`).  Holds for every `fit` / `spec` / `axis`.  Core Lean only.
-/
import Nitime.Model.GrangerObj

namespace Nitime.GrangerObj
variable {D R G A : Type} (fit : D → Option R) (spec : D → R → G) (axis : D → A)

/-- every entry of the instance dict is absent or holds the value computed from the current input -/
def Inv (s : Obj D R G A) : Prop :=
  (s.model = none ∨ (s.model ≠ none ∧ s.model = fit s.input)) ∧
  (s.gc = none ∨ (s.gc ≠ none ∧ s.gc = (fit s.input).map (spec s.input))) ∧
  (s.freqs = none ∨ s.freqs = some (axis s.input))

theorem inv_construct (d : D) : Inv fit spec axis (construct d : Obj D R G A) :=
  ⟨Or.inl rfl, Or.inl rfl, Or.inl rfl⟩

theorem inv_setInput (d : D) (s : Obj D R G A) : Inv fit spec axis (setInput d s) :=
  ⟨Or.inl rfl, Or.inl rfl, Or.inl rfl⟩

theorem readModel_spec (s : Obj D R G A) (h : Inv fit spec axis s) :
    (readModel fit s).2 = fit s.input ∧ Inv fit spec axis (readModel fit s).1 ∧
    (readModel fit s).1.input = s.input := by
  obtain ⟨hm, hg, hf⟩ := h
  unfold readModel
  rcases hm with hm | ⟨hne, hm⟩
  · rw [hm]
    cases hfit : fit s.input with
    | none => exact ⟨rfl, ⟨Or.inl hm, hg, hf⟩, rfl⟩
    | some r =>
      refine ⟨rfl, ⟨Or.inr ⟨by simp, ?_⟩, hg, hf⟩, rfl⟩
      simp [hfit]
  · cases hmod : s.model with
    | none => exact absurd hmod hne
    | some r =>
      refine ⟨?_, ⟨Or.inr ⟨hne, hm⟩, hg, hf⟩, rfl⟩
      rw [← hm, hmod]

theorem readGC_spec (s : Obj D R G A) (h : Inv fit spec axis s) :
    (readGC fit spec s).2 = (fit s.input).map (spec s.input) ∧ Inv fit spec axis (readGC fit spec s).1 ∧
    (readGC fit spec s).1.input = s.input := by
  have h' := h
  obtain ⟨hm, hg, hf⟩ := h
  unfold readGC
  rcases hg with hg | ⟨hne, hg⟩
  · rw [hg]
    obtain ⟨e1, ⟨i1, i2, i3⟩, e3⟩ := readModel_spec fit spec axis s h'
    cases hrm : readModel fit s with
    | mk s1 o =>
      rw [hrm] at e1 i1 i2 i3 e3
      simp only at e1 i1 i2 i3 e3
      cases o with
      | none =>
        refine ⟨?_, ⟨i1, i2, i3⟩, e3⟩
        simp [← e1]
      | some r =>
        refine ⟨?_, ⟨i1, Or.inr ⟨by simp, ?_⟩, i3⟩, e3⟩
        · simp [← e1, e3]
        · show some (spec s1.input r) = (fit s1.input).map (spec s1.input)
          rw [e3, ← e1]; rfl
  · cases hgc : s.gc with
    | none => exact absurd hgc hne
    | some g =>
      refine ⟨?_, h', rfl⟩
      rw [← hg, hgc]

theorem readFreqs_spec (s : Obj D R G A) (h : Inv fit spec axis s) :
    (readFreqs axis s).2 = axis s.input ∧ Inv fit spec axis (readFreqs axis s).1 ∧
    (readFreqs axis s).1.input = s.input := by
  have h' := h
  obtain ⟨hm, hg, hf⟩ := h
  unfold readFreqs
  rcases hf with hf | hf
  · rw [hf]; exact ⟨rfl, ⟨hm, hg, Or.inr rfl⟩, rfl⟩
  · rw [hf]; exact ⟨rfl, h', rfl⟩

/-- **re-targeting.** Any history of `set_input`s and reads on one analyzer answers every read from
the input that is current at that moment. -/
theorem run_eq_ref_of_inv (ops : List (Op D)) :
    ∀ s : Obj D R G A, Inv fit spec axis s → run fit spec axis ops s = ref fit spec axis ops s.input := by
  induction ops with
  | nil => intro s _; rfl
  | cons o os ih =>
    intro s h
    cases o with
    | setInput d =>
      simp only [run, step, ref]
      rw [ih _ (inv_setInput fit spec axis d s)]; rfl
    | readModel =>
      obtain ⟨e, i, ei⟩ := readModel_spec fit spec axis s h
      simp only [run, step, ref]
      rw [ih _ i, e, ei]
    | readGC =>
      obtain ⟨e, i, ei⟩ := readGC_spec fit spec axis s h
      simp only [run, step, ref]
      rw [ih _ i, e, ei]
    | readFreqs =>
      obtain ⟨e, i, ei⟩ := readFreqs_spec fit spec axis s h
      simp only [run, step, ref]
      rw [ih _ i, e, ei]

theorem run_eq_ref (ops : List (Op D)) (d : D) :
    run fit spec axis ops (construct d : Obj D R G A) = ref fit spec axis ops d :=
  run_eq_ref_of_inv fit spec axis ops _ (inv_construct fit spec axis d)

end Nitime.GrangerObj

namespace Nitime.GrangerObj
variable {D R G A : Type} (fit : D → Option R) (spec : D → R → G) (axis : D → A)

/-- the input the analyzer points at after a history -/
def cur : List (Op D) → D → D
  | [], d => d
  | .setInput d' :: os, _ => cur os d'
  | _ :: os, d => cur os d

theorem ref_append (os os' : List (Op D)) (d : D) :
    ref fit spec axis (os ++ os') d = ref fit spec axis os d ++ ref fit spec axis os' (cur os d) := by
  induction os generalizing d with
  | nil => rfl
  | cons o os ih => cases o <;> simp [ref, cur, ih]

/-- whatever was read from the analyzer before, after `set_input(d')` the model-derived attributes
are the fit of `d'` (and the spectra those of `d'`) -/
theorem read_after_setInput (pre : List (Op D)) (d0 d' : D) :
    run fit spec axis (pre ++ [.setInput d', .readModel, .readGC, .readFreqs]) (construct d0 : Obj D R G A)
      = ref fit spec axis pre d0 ++
        [.done, .model (fit d'), .gc ((fit d').map (spec d')), .freqs (axis d')] := by
  rw [run_eq_ref, ref_append]; rfl

end Nitime.GrangerObj
