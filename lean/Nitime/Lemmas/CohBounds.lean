/-
Band selection of the coherence models (`utils.get_bounds` = two `np.searchsorted` calls).

`CohBase.getBoundsBy` is the executable text (prefix scans with `takeWhile`), run at `Float` by the
drivers.  Here it is read at `ℚ`: on an ascending grid it coincides with the `filter`-count definition
of `Nitime.C05` and, through the C05 lemmas `searchLeft_le_iff` / `lt_searchRight_iff`, the kept
bins are exactly { k | lb ≤ f_k ≤ ub }.
-/
import Nitime.Model.CohBase
import Nitime.Lemmas.C05Grid

namespace Nitime.Coh

/-- on an ascending list the entries below `v` form a prefix: prefix scan = count -/
theorem takeWhile_lt_eq_filter (f : List ℚ) (hs : f.Pairwise (· ≤ ·)) (v : ℚ) :
    f.takeWhile (fun x => decide (x < v)) = f.filter (fun x => decide (x < v)) := by
  induction f with
  | nil => rfl
  | cons x xs ih =>
    rw [List.pairwise_cons] at hs
    by_cases hx : x < v
    · simp [hx, ih hs.2]
    · have : xs.filter (fun y => decide (y < v)) = [] := by
        rw [List.filter_eq_nil_iff]
        intro y hy
        have := hs.1 y hy
        simp only [decide_eq_true_eq, not_lt]
        exact (not_lt.mp hx).trans this
      simp [hx, this]

theorem takeWhile_le_eq_filter (f : List ℚ) (hs : f.Pairwise (· ≤ ·)) (v : ℚ) :
    f.takeWhile (fun x => decide (x ≤ v)) = f.filter (fun x => decide (x ≤ v)) := by
  induction f with
  | nil => rfl
  | cons x xs ih =>
    rw [List.pairwise_cons] at hs
    by_cases hx : x ≤ v
    · simp [hx, ih hs.2]
    · have : xs.filter (fun y => decide (y ≤ v)) = [] := by
        rw [List.filter_eq_nil_iff]
        intro y hy
        have := hs.1 y hy
        simp only [decide_eq_true_eq, not_le]
        exact (not_le.mp hx).trans_le this
      simp [hx, this]

/-- the executable prefix scans agree with the C05 definitions on ascending grids -/
theorem searchLeftBy_eq (f : List ℚ) (hs : f.Pairwise (· ≤ ·)) (v : ℚ) :
    searchLeftBy (fun a b => decide (a < b)) f v = Nitime.C05.searchLeft f v := by
  unfold searchLeftBy Nitime.C05.searchLeft
  rw [takeWhile_lt_eq_filter f hs v]

theorem searchRightBy_eq (f : List ℚ) (hs : f.Pairwise (· ≤ ·)) (v : ℚ) :
    searchRightBy (fun a b => decide (a ≤ b)) f v = Nitime.C05.searchRight f v := by
  unfold searchRightBy Nitime.C05.searchRight
  rw [takeWhile_le_eq_filter f hs v]

/-- **`get_bounds` keeps exactly the bins inside the band**: on an ascending frequency grid `f`, with
    `(l, u) = get_bounds(f, lb, ub)`, bin k is kept (l ≤ k < u) iff lb ≤ f_k ≤ ub -/
theorem getBounds_kept_bins (f : List ℚ) (hs : f.Pairwise (· ≤ ·)) (lb ub : ℚ) (k : ℕ) (hk : k < f.length) :
    ((getBoundsBy (fun a b => decide (a < b)) (fun a b => decide (a ≤ b)) f lb (some ub)).1 ≤ k
      ∧ k < (getBoundsBy (fun a b => decide (a < b)) (fun a b => decide (a ≤ b)) f lb (some ub)).2)
      ↔ (lb ≤ f[k] ∧ f[k] ≤ ub) := by
  unfold getBoundsBy
  simp only [searchLeftBy_eq f hs, searchRightBy_eq f hs]
  rw [Nitime.C05.searchLeft_le_iff f hs lb k hk, Nitime.C05.lt_searchRight_iff f hs ub k hk]

/-- `ub=None`: everything from the first bin ≥ lb -/
theorem getBounds_kept_bins_none (f : List ℚ) (hs : f.Pairwise (· ≤ ·)) (lb : ℚ) (k : ℕ) (hk : k < f.length) :
    ((getBoundsBy (fun a b => decide (a < b)) (fun a b => decide (a ≤ b)) f lb none).1 ≤ k
      ∧ k < (getBoundsBy (fun a b => decide (a < b)) (fun a b => decide (a ≤ b)) f lb none).2)
      ↔ lb ≤ f[k] := by
  unfold getBoundsBy
  simp only [searchLeftBy_eq f hs]
  rw [Nitime.C05.searchLeft_le_iff f hs lb k hk]
  exact ⟨fun h => h.1, fun h => ⟨h, hk⟩⟩

/-- … and the dense one-sided grid k·Fs/N is ascending, so the lemma applies to it -/
example (Fs : ℚ) (hFs : 0 ≤ Fs) (N : ℕ) : (Nitime.C05.trueOneSided Fs N).Pairwise (· ≤ ·) :=
  Nitime.C05.trueOneSided_sorted Fs hFs N

end Nitime.Coh
