/-
C03 — memoising implementations of the before/after lookups of a time array, as a class.

NOT a model of code that exists in the repository: this file states, for the CLASS of optimisation
"remember something about the samples and answer later lookups from it" (e.g. a flag "the array is
time-sorted" plus binary search), when such an implementation refines the specification
(`indexBefore` / `indexAfter` on the current contents, `Model/C03.lean`) along every history of
lookups and in-place changes — and that a memo which is revalidated only by SOME change routes does
not.  The harness's `hist` cases test exactly this on the real code.

* `MemoImpl`, `MemoImpl.run`, `specRun`; `memo_refines` — generic: memo valid ⇒ answers as the
  specification and stays valid; EVERY change leaves a valid memo ⇒ all answers along all histories
  are those of the specification.
* `bisectBefore/After` (numpy `searchsorted` as counts) with `countLE_spec` / `countLT_spec`.
* `sortedFlag` with the policies `dropAlways` / `dropOnSetitem`.
The theorems about them (`bisect_eq_scan`, `sortedFlag_refines`, `sortedFlag_stale_counterexample`,
`sortedFlag_setitem_only_refines`) are in `Props/C03.lean`.
-/
import Nitime.Model.C03
import Nitime.Lemmas.C03
import Mathlib.Tactic.Linarith

namespace Nitime.C03.Memo
open Nitime Nitime.C03

/-- a step on a time array: a `before` (`true`) / `after` lookup of one instant, or an in-place change -/
inductive MStep where
  | look (before : Bool) (t : Int)
  | change (ch : TChange)
  deriving Repr, DecidableEq

/-- the specification's answer: from the current contents -/
def specLook (ts : List Int) (before : Bool) (t : Int) : Option Nat :=
  if before then indexBefore ts t else indexAfter ts t

/-- answers of the specification along a history (a refused change leaves the contents) -/
def specRun : List Int → List MStep → List (Option Nat)
  | _, [] => []
  | ts, .look b t :: h => specLook ts b t :: specRun ts h
  | ts, .change ch :: h => match ch.apply ts with
    | .ok r => specRun r h
    | .error _ => specRun ts h

/-- an implementation that keeps a memo `μ` next to the samples -/
structure MemoImpl (μ : Type) where
  /-- answer and new memo -/
  look : List Int → μ → Bool → Int → Option Nat × μ
  /-- what an (accepted) in-place change does to the memo -/
  onChange : TChange → μ → μ

def MemoImpl.run {μ} (I : MemoImpl μ) : List Int → μ → List MStep → List (Option Nat)
  | _, _, [] => []
  | ts, m, .look b t :: h => (I.look ts m b t).1 :: I.run ts (I.look ts m b t).2 h
  | ts, m, .change ch :: h => match ch.apply ts with
    | .ok r => I.run r (I.onChange ch m) h
    | .error _ => I.run ts m h

/-- the refinement condition: with a valid memo a lookup answers as the specification and keeps the memo
valid; EVERY accepted change — whatever its kind — leaves a memo that is valid for the NEW contents -/
theorem memo_refines {μ} (I : MemoImpl μ) (valid : List Int → μ → Prop)
    (hlook : ∀ ts m b t, valid ts m → (I.look ts m b t).1 = specLook ts b t ∧ valid ts (I.look ts m b t).2)
    (hchg : ∀ ts m ch r, valid ts m → ch.apply ts = .ok r → valid r (I.onChange ch m))
    (ts : List Int) (m : μ) (hv : valid ts m) (h : List MStep) : I.run ts m h = specRun ts h := by
  induction h generalizing ts m with
  | nil => rfl
  | cons s h ih =>
    cases s with
    | look b t =>
      simp only [MemoImpl.run, specRun]
      rw [(hlook ts m b t hv).1, ih ts _ (hlook ts m b t hv).2]
    | change ch =>
      simp only [MemoImpl.run, specRun]
      cases hc : ch.apply ts with
      | ok r => exact ih r _ (hchg ts m ch r hv hc)
      | error e => exact ih ts m hv

/-! ### binary search on a sorted array -/

/-- `np.searchsorted(ts, t, 'right')` on a sorted array: the number of samples `≤ t` -/
def countLE (ts : List Int) (t : Int) : Nat := (ts.filter (fun x => decide (x ≤ t))).length
/-- `np.searchsorted(ts, t, 'left')` on a sorted array: the number of samples `< t` -/
def countLT (ts : List Int) (t : Int) : Nat := (ts.filter (fun x => decide (x < t))).length

/-- the last sample `≤ t`, then the first of the samples holding that time -/
def bisectBefore (ts : List Int) (t : Int) : Option Nat :=
  let r := countLE ts t
  if r = 0 then none else some (countLT ts (ts.getD (r - 1) 0))

/-- the first sample `≥ t` -/
def bisectAfter (ts : List Int) (t : Int) : Option Nat :=
  let l := countLT ts t
  if l = ts.length then none else some l

def isSortedB : List Int → Bool
  | x :: y :: rest => decide (x ≤ y) && isSortedB (y :: rest)
  | _ => true

theorem isSortedB_iff : ∀ ts : List Int, isSortedB ts = true ↔ ts.Pairwise (· ≤ ·)
  | [] => by simp [isSortedB]
  | [x] => by simp [isSortedB]
  | x :: y :: rest => by
    simp only [isSortedB, Bool.and_eq_true, decide_eq_true_eq, isSortedB_iff (y :: rest), List.pairwise_cons]
    constructor
    · rintro ⟨hxy, hy, hr⟩
      refine ⟨?_, hy, hr⟩
      intro a ha
      rcases List.mem_cons.mp ha with rfl | ha
      · exact hxy
      · exact le_trans hxy (hy a ha)
    · rintro ⟨hx, hy, hr⟩
      exact ⟨hx y (List.mem_cons_self), hy, hr⟩

/-- on a sorted list a downward-closed predicate holds exactly on a prefix, whose length is the count -/
theorem prefix_count (p : Int → Bool) (hp : ∀ a b : Int, a ≤ b → p b = true → p a = true) :
    ∀ (ts : List Int), ts.Pairwise (· ≤ ·) → ∀ i, i < ts.length → (i < (ts.filter p).length ↔ p (ts.getD i 0) = true)
  | [], _, i, hi => by simp at hi
  | x :: xs, hs, i, hi => by
    obtain ⟨hx, hxs⟩ := List.pairwise_cons.mp hs
    by_cases hpx : p x = true
    · rw [List.filter_cons_of_pos hpx]
      cases i with
      | zero => simp [hpx]
      | succ j =>
        have hj : j < xs.length := by simpa using hi
        have := prefix_count p hp xs hxs j hj
        rw [List.length_cons, List.getD_cons_succ, ← this]
        omega
    · have hnone : xs.filter p = [] := by
        rw [List.filter_eq_nil_iff]
        intro a ha hpa
        exact hpx (hp x a (hx a ha) hpa)
      rw [List.filter_cons_of_neg hpx, hnone]
      cases i with
      | zero => simp [hpx]
      | succ j =>
        have hj : j < xs.length := by simpa using hi
        have hmem : xs.getD j 0 ∈ xs := by
          rw [List.getD_eq_getElem?_getD, List.getElem?_eq_getElem hj]; exact List.getElem_mem hj
        have : ¬ p (xs.getD j 0) = true := fun hpa => hpx (hp x _ (hx _ hmem) hpa)
        rw [List.length_nil, List.getD_cons_succ]
        exact ⟨fun h => absurd h (by omega), fun h => absurd h this⟩

theorem sorted_getD {ts : List Int} (hs : ts.Pairwise (· ≤ ·)) {i j : Nat} (hij : i ≤ j) (hj : j < ts.length) :
    ts.getD i 0 ≤ ts.getD j 0 := by
  rcases Nat.lt_or_eq_of_le hij with h | h
  · have hi : i < ts.length := by omega
    rw [List.getD_eq_getElem?_getD, List.getD_eq_getElem?_getD, List.getElem?_eq_getElem hi, List.getElem?_eq_getElem hj]
    exact (List.pairwise_iff_getElem.mp hs) i j hi hj h
  · subst h; exact le_refl _

theorem countLE_spec (ts : List Int) (hs : ts.Pairwise (· ≤ ·)) (t : Int) (i : Nat) (hi : i < ts.length) :
    i < countLE ts t ↔ ts.getD i 0 ≤ t := by
  have := prefix_count (fun x => decide (x ≤ t)) (by intro a b hab hb; simp only [decide_eq_true_eq] at *; omega) ts hs i hi
  simpa [countLE] using this

theorem countLT_spec (ts : List Int) (hs : ts.Pairwise (· ≤ ·)) (t : Int) (i : Nat) (hi : i < ts.length) :
    i < countLT ts t ↔ ts.getD i 0 < t := by
  have := prefix_count (fun x => decide (x < t)) (by intro a b hab hb; simp only [decide_eq_true_eq] at *; omega) ts hs i hi
  simpa [countLT] using this

theorem countLE_le (ts : List Int) (t : Int) : countLE ts t ≤ ts.length := List.length_filter_le _ _
theorem countLT_le (ts : List Int) (t : Int) : countLT ts t ≤ ts.length := List.length_filter_le _ _

/-! ### the "array is sorted" flag -/

/-- `_is_sorted()` looked at once and remembered; sorted ⇒ binary search, else the exhaustive scan -/
def flagLook (ts : List Int) (m : Option Bool) (before : Bool) (t : Int) : Option Nat × Option Bool :=
  let srt := m.getD (isSortedB ts)
  (if srt then (if before then bisectBefore ts t else bisectAfter ts t) else specLook ts before t, some srt)

/-- the flag is dropped by every in-place change -/
def dropAlways : TChange → Option Bool → Option Bool := fun _ _ => none
/-- the flag is dropped by `ta[i] = v` only; `+=`, `*=`, `sort`, `copyto`, … keep it -/
def dropOnSetitem : TChange → Option Bool → Option Bool
  | .setAt _ _, _ => none
  | _, m => m

def sortedFlag (onChange : TChange → Option Bool → Option Bool) : MemoImpl (Option Bool) :=
  { look := flagLook, onChange := onChange }

/-- the memo is valid when it is empty or tells the truth about the current contents -/
def flagValid (ts : List Int) (m : Option Bool) : Prop := m = none ∨ m = some (isSortedB ts)

end Nitime.C03.Memo
