/-
C16, round 2 — proofs about `copy.deepcopy` on the metadata graph, `TimeSeries.copy()` and series arithmetic
(model: `Nitime/Model/C16Copy.lean`).
-/
import Nitime.Model.C16Copy

namespace Nitime.C16.Copy

/-! ### heap lookups -/

theorem obj_append_left (h e : Heap) (i : Nat) (hi : i < h.length) : obj (h ++ e) i = obj h i := by
  simp [obj, List.getD_eq_getElem?_getD, List.getElem?_append_left hi]

theorem obj_append_right (h e : Heap) (k : Nat) : obj (h ++ e) (h.length + k) = obj e k := by
  simp [obj, List.getD_eq_getElem?_getD, List.getElem?_append_right]

theorem obj_append_length (h : Heap) (x : Obj) (e : Heap) : obj (h ++ x :: e) h.length = x := by
  have := obj_append_right h (x :: e) 0
  simp [obj] at this ⊢

theorem obj_mem (h : Heap) (i : Nat) (hi : i < h.length) : obj h i ∈ h := by
  simp [obj, List.getD_eq_getElem?_getD, List.getElem?_eq_getElem hi]

theorem obj_out (h : Heap) (i : Nat) (hi : h.length ≤ i) : obj h i = [] := by
  simp [obj, List.getD_eq_getElem?_getD, List.getElem?_eq_none hi]

theorem obj_refs_lt (h : Heap) (hc : Closed h) (r i : Nat) (hm : Item.ref i ∈ obj h r) : i < h.length := by
  by_cases hr : r < h.length
  · exact hc _ (obj_mem h r hr) i hm
  · rw [obj_out h r (Nat.le_of_not_lt hr)] at hm
    cases hm

/-! ### congruence of the folds -/

theorem unfoldItems_congr (f f' : Nat → List Int) (xs : List Item)
    (hf : ∀ i, Item.ref i ∈ xs → f i = f' i) : unfoldItems f xs = unfoldItems f' xs := by
  induction xs with
  | nil => rfl
  | cons x xs ih =>
    have ih' := ih (fun i hi => hf i (List.mem_cons_of_mem _ hi))
    cases x with
    | val v => simp [unfoldItems, ih']
    | handle k => simp [unfoldItems, ih']
    | ref i => simp [unfoldItems, ih', hf i List.mem_cons_self]

theorem reachItems_congr (f f' : Nat → List Nat) (xs : List Item)
    (hf : ∀ i, Item.ref i ∈ xs → f i = f' i) : reachItems f xs = reachItems f' xs := by
  induction xs with
  | nil => rfl
  | cons x xs ih =>
    have ih' := ih (fun i hi => hf i (List.mem_cons_of_mem _ hi))
    cases x with
    | val v => simp [reachItems, ih']
    | handle k => simp [reachItems, ih']
    | ref i => simp [reachItems, ih', hf i List.mem_cons_self]

theorem mem_reachItems {f : Nat → List Nat} {xs : List Item} {j : Nat} (hj : j ∈ reachItems f xs) :
    ∃ i, Item.ref i ∈ xs ∧ j ∈ f i := by
  induction xs with
  | nil => simp [reachItems] at hj
  | cons x xs ih =>
    cases x with
    | val v =>
      simp only [reachItems] at hj
      obtain ⟨i, hi, hji⟩ := ih hj
      exact ⟨i, List.mem_cons_of_mem _ hi, hji⟩
    | handle k =>
      simp only [reachItems] at hj
      obtain ⟨i, hi, hji⟩ := ih hj
      exact ⟨i, List.mem_cons_of_mem _ hi, hji⟩
    | ref i =>
      simp only [reachItems, List.mem_append] at hj
      rcases hj with hj | hj
      · exact ⟨i, List.mem_cons_self, hj⟩
      · obtain ⟨i', hi, hji⟩ := ih hj
        exact ⟨i', List.mem_cons_of_mem _ hi, hji⟩

/-! ### stability under extension of a closed heap -/

theorem unfold_stable (h e : Heap) (hc : Closed h) (g i : Nat) (hi : i < h.length) :
    unfold g (h ++ e) i = unfold g h i := by
  induction g generalizing i with
  | zero => simp [unfold]
  | succ g ih =>
    simp only [unfold]
    rw [obj_append_left h e i hi]
    exact unfoldItems_congr _ _ _ (fun j hj => ih j (obj_refs_lt h hc i j hj))

theorem reach_stable (h e : Heap) (hc : Closed h) (g i : Nat) (hi : i < h.length) :
    reach g (h ++ e) i = reach g h i := by
  induction g generalizing i with
  | zero => simp [reach]
  | succ g ih =>
    simp only [reach]
    rw [obj_append_left h e i hi]
    rw [reachItems_congr _ _ _ (fun j hj => ih j (obj_refs_lt h hc i j hj))]

theorem reach_lt (h : Heap) (hc : Closed h) (g i : Nat) (hi : i < h.length) :
    ∀ j ∈ reach g h i, j < h.length := by
  induction g generalizing i with
  | zero => intro j hj; simp [reach] at hj; omega
  | succ g ih =>
    intro j hj
    simp only [reach, List.mem_cons] at hj
    rcases hj with rfl | hj
    · exact hi
    · obtain ⟨k, hk, hjk⟩ := mem_reachItems hj
      exact ih k (obj_refs_lt h hc i k hk) j hjk

/-! ### deep copy -/

/-- outcome of a successful deep copy -/
structure CopySpec (h : Heap) (r : Nat) (h' : Heap) (r' : Nat) : Prop where
  ext : ∃ e, h' = h ++ e
  closed : Closed h'
  root_fresh : h.length ≤ r' ∧ r' < h'.length
  fresh : ∀ g, ∀ j ∈ reach g h' r', h.length ≤ j
  content : ∀ g, unfold g h' r' = unfold g h r

/-- outcome of copying the slots of one container -/
structure ItemsSpec (h : Heap) (xs : List Item) (h2 : Heap) (ys : List Item) : Prop where
  ext : ∃ e, h2 = h ++ e
  closed : Closed h2
  refs : ∀ j, Item.ref j ∈ ys → h.length ≤ j ∧ j < h2.length
  fresh : ∀ g, ∀ j ∈ reachItems (reach g h2) ys, h.length ≤ j
  content : ∀ g, unfoldItems (unfold g h2) ys = unfoldItems (unfold g h) xs

theorem copyItems_spec (rec : Heap → Nat → Except Err (Heap × Nat))
    (hrec : ∀ h i h1 j, Closed h → rec h i = .ok (h1, j) → CopySpec h i h1 j) :
    ∀ (xs : List Item) (h h2 : Heap) (ys : List Item), Closed h → (∀ i, Item.ref i ∈ xs → i < h.length) →
      copyItemsWith rec h xs = .ok (h2, ys) → ItemsSpec h xs h2 ys := by
  intro xs
  induction xs with
  | nil =>
    intro h h2 ys hc _ e
    simp [copyItemsWith] at e
    obtain ⟨rfl, rfl⟩ := e
    exact ⟨⟨[], by simp⟩, hc, by simp, by simp [reachItems], fun g => rfl⟩
  | cons x xs ih =>
    intro h h2 ys hc hx e
    cases x with
    | val v =>
      simp only [copyItemsWith] at e
      split at e
      · rename_i h1 ys1 heq
        simp at e
        obtain ⟨rfl, rfl⟩ := e
        have s := ih h h1 ys1 hc (fun i hi => hx i (List.mem_cons_of_mem _ hi)) heq
        exact ⟨s.ext, s.closed, fun j hj => s.refs j (by simpa using hj),
          fun g j hj => s.fresh g j (by simpa [reachItems] using hj),
          fun g => by simp [unfoldItems, s.content g]⟩
      · simp at e
    | handle k => simp [copyItemsWith] at e
    | ref i =>
      simp only [copyItemsWith] at e
      split at e
      · simp at e
      · rename_i h1 j hrq
        split at e
        · rename_i h2' ys1 heq
          simp at e
          obtain ⟨rfl, rfl⟩ := e
          have c := hrec h i h1 j hc hrq
          obtain ⟨e1, he1⟩ := c.ext
          subst he1
          have hl : h.length ≤ (h ++ e1).length := by simp
          have s := ih (h ++ e1) h2' ys1 c.closed
            (fun i' hi' => Nat.lt_of_lt_of_le (hx i' (List.mem_cons_of_mem _ hi')) hl) heq
          obtain ⟨e2, he2⟩ := s.ext
          subst he2
          have hj2 : j < (h ++ e1 ++ e2).length := by
            have := c.root_fresh.2
            simp at this ⊢
            omega
          refine ⟨⟨e1 ++ e2, by simp⟩, s.closed, ?_, ?_, ?_⟩
          · intro j' hj'
            simp only [List.mem_cons] at hj'
            rcases hj' with hj' | hj'
            · injection hj' with hj'
              subst hj'
              exact ⟨c.root_fresh.1, hj2⟩
            · have := s.refs j' hj'
              exact ⟨Nat.le_trans hl this.1, this.2⟩
          · intro g j' hj'
            simp only [reachItems, List.mem_append] at hj'
            rcases hj' with hj' | hj'
            · rw [reach_stable (h ++ e1) e2 c.closed g j c.root_fresh.2] at hj'
              exact c.fresh g j' hj'
            · exact Nat.le_trans hl (s.fresh g j' hj')
          · intro g
            simp only [unfoldItems]
            rw [s.content g, unfold_stable (h ++ e1) e2 c.closed g j c.root_fresh.2, c.content g]
            rw [unfoldItems_congr (unfold g (h ++ e1)) (unfold g h) xs
              (fun i' hi' => unfold_stable h e1 hc g i' (hx i' (List.mem_cons_of_mem _ hi')))]
        · simp at e

theorem closed_snoc (h : Heap) (hc : Closed h) (o : Obj) (ho : ∀ i, Item.ref i ∈ o → i < h.length) :
    Closed (h ++ [o]) := by
  intro o' ho' i hi
  simp only [List.mem_append, List.mem_singleton] at ho'
  simp only [List.length_append, List.length_singleton]
  rcases ho' with ho' | rfl
  · exact Nat.lt_succ_of_lt (hc o' ho' i hi)
  · exact Nat.lt_succ_of_lt (ho i hi)

theorem deepCopy_spec (fuel : Nat) (h : Heap) (hc : Closed h) (r : Nat) (h' : Heap) (r' : Nat)
    (e : deepCopy fuel h r = .ok (h', r')) : CopySpec h r h' r' := by
  induction fuel generalizing h r h' r' with
  | zero => simp [deepCopy] at e
  | succ n ih =>
    simp only [deepCopy] at e
    split at e
    · rename_i h1 items heq
      simp at e
      obtain ⟨rfl, rfl⟩ := e
      have s := copyItems_spec (deepCopy n) (fun h i h1 j hc e => ih h hc i h1 j e) (obj h r) h h1 items hc
        (obj_refs_lt h hc r) heq
      obtain ⟨e1, he1⟩ := s.ext
      have hl : h.length ≤ h1.length := by rw [he1]; simp
      have hcl : Closed (h1 ++ [items]) := closed_snoc h1 s.closed items (fun i hi => (s.refs i hi).2)
      have hobj : obj (h1 ++ [items]) h1.length = items := obj_append_length h1 items []
      have hreach : ∀ g, reachItems (reach g (h1 ++ [items])) items = reachItems (reach g h1) items :=
        fun g => reachItems_congr _ _ _ (fun i hi => reach_stable h1 [items] s.closed g i (s.refs i hi).2)
      have hunf : ∀ g, unfoldItems (unfold g (h1 ++ [items])) items = unfoldItems (unfold g h1) items :=
        fun g => unfoldItems_congr _ _ _ (fun i hi => unfold_stable h1 [items] s.closed g i (s.refs i hi).2)
      refine ⟨⟨e1 ++ [items], by rw [he1]; simp⟩, hcl, ⟨hl, by simp⟩, ?_, ?_⟩
      · intro g j hj
        cases g with
        | zero => simp [reach] at hj; omega
        | succ g =>
          simp only [reach, List.mem_cons] at hj
          rcases hj with rfl | hj
          · exact hl
          · rw [hobj, hreach g] at hj
            exact s.fresh g j hj
      · intro g
        cases g with
        | zero => simp [unfold]
        | succ g =>
          simp only [unfold]
          rw [hobj, hunf g, s.content g]
    · simp at e

/-! ### writes -/

theorem write_append_right (h e : Heap) (j : Nat) (hj : h.length ≤ j) (o : Obj) :
    write (h ++ e) j o = h ++ e.set (j - h.length) o := by
  simp [write, List.set_append, Nat.not_lt.mpr hj]

/-- writing to an object that did not exist before leaves every old object and the value of every old graph unchanged -/
theorem write_fresh_preserves (h e : Heap) (hc : Closed h) (j : Nat) (hj : h.length ≤ j) (o : Obj) (g i : Nat)
    (hi : i < h.length) :
    unfold g (write (h ++ e) j o) i = unfold g h i ∧ obj (write (h ++ e) j o) i = obj h i := by
  rw [write_append_right h e j hj o]
  exact ⟨unfold_stable h _ hc g i hi, obj_append_left h _ i hi⟩

/-! ### flat objects -/

/-- no slot of the object is a reference (an ndarray of numbers, a time axis) -/
def Flat (o : Obj) : Prop := ∀ i, Item.ref i ∉ o

theorem reachItems_flat (f : Nat → List Nat) (o : Obj) (hf : Flat o) : reachItems f o = [] := by
  induction o with
  | nil => rfl
  | cons x xs ih =>
    have ih' := ih (fun i hi => hf i (List.mem_cons_of_mem _ hi))
    cases x with
    | val v => simp [reachItems, ih']
    | handle k => simp [reachItems, ih']
    | ref i => exact absurd List.mem_cons_self (hf i)

theorem reach_flat (g : Nat) (h : Heap) (r : Nat) (hf : Flat (obj h r)) : reach g h r = [r] := by
  cases g with
  | zero => rfl
  | succ g => simp [reach, reachItems_flat _ _ hf]

theorem flat_zipWith (f : Item → Item → Int) (a b : List Item) :
    Flat (List.zipWith (fun x y => Item.val (f x y)) a b) := by
  intro i
  induction a generalizing b with
  | nil => simp
  | cons x xs ih =>
    cases b with
    | nil => simp
    | cons y ys =>
      simp only [List.zipWith_cons_cons, List.mem_cons, not_or]
      exact ⟨(by intro hh; cases hh), ih ys⟩

theorem flat_zipVals (f : Int → Int → Int) (a b : Obj) : Flat (zipVals f a b) := by
  unfold zipVals
  split
  · intro i hi
    simp at hi
  · exact flat_zipWith (fun x y => f (itemVal x) (itemVal y)) a b

/-! ### the series -/

/-- what a successful deep copy of the metadata followed by ANY appended flat data/time objects gives -/
theorem result_spec (h : Heap) (hc : Closed h) (info : Nat) (h1 : Heap) (m : Nat) (c : CopySpec h info h1 m)
    (tl : Heap) (d t : Nat) (hd : h1.length ≤ d) (ht : h1.length ≤ t)
    (fd : Flat (obj (h1 ++ tl) d)) (ft : Flat (obj (h1 ++ tl) t)) :
    (∃ e, h1 ++ tl = h ++ e) ∧
    (∀ g, ∀ j ∈ reach g (h1 ++ tl) m ++ reach g (h1 ++ tl) d ++ reach g (h1 ++ tl) t, h.length ≤ j) ∧
    (∀ g, unfold g (h1 ++ tl) m = unfold g h info) ∧
    (∀ j o, h.length ≤ j → ∀ g i, i < h.length →
      unfold g (write (h1 ++ tl) j o) i = unfold g h i ∧ obj (write (h1 ++ tl) j o) i = obj h i) := by
  obtain ⟨e1, he1⟩ := c.ext
  have hl : h.length ≤ h1.length := by rw [he1]; simp
  refine ⟨⟨e1 ++ tl, by rw [he1]; simp⟩, ?_, ?_, ?_⟩
  · intro g j hj
    rw [reach_stable h1 tl c.closed g m c.root_fresh.2, reach_flat g _ d fd, reach_flat g _ t ft] at hj
    simp only [List.mem_append, List.mem_singleton] at hj
    rcases hj with (hj | rfl) | rfl
    · exact c.fresh g j hj
    · exact Nat.le_trans hl hd
    · exact Nat.le_trans hl ht
  · intro g
    rw [unfold_stable h1 tl c.closed g m c.root_fresh.2, c.content g]
  · intro j o hj g i hi
    have : h1 ++ tl = h ++ (e1 ++ tl) := by rw [he1]; simp
    rw [this]
    exact write_fresh_preserves h (e1 ++ tl) hc j hj o g i hi

theorem seriesCopy_strict_error (fuel : Nat) (h : Heap) (s : GSeries) (e : Err)
    (hd : deepCopy fuel h s.info = .error e) : seriesCopy .strict fuel h s = (h, .error e) := by
  simp [seriesCopy, copyMeta, hd]

theorem seriesCopy_ok (d : Discipline) (fuel : Nat) (h : Heap) (s : GSeries) (h1 : Heap) (m : Nat)
    (hd : deepCopy fuel h s.info = .ok (h1, m)) :
    seriesCopy d fuel h s = (h1 ++ [obj h1 s.data, obj h1 s.time], .ok ⟨h1.length, h1.length + 1, m⟩) := by
  simp [seriesCopy, copyMeta, hd]

/-- **copy shares nothing mutable**, for EVERY outcome of the deep copy of the metadata -/
theorem copy_shares_nothing_mutable_graph (fuel : Nat) (h : Heap) (hc : Closed h) (s : GSeries)
    (hs : s.data < h.length ∧ s.time < h.length ∧ s.info < h.length)
    (hflat : Flat (obj h s.data) ∧ Flat (obj h s.time)) :
    match seriesCopy .strict fuel h s with
    | (h', .error _) => h' = h ∧ ∃ e, deepCopy fuel h s.info = .error e
    | (h', .ok c) =>
        (∃ e, h' = h ++ e) ∧
        (∀ g, ∀ j ∈ reach g h' c.info ++ reach g h' c.data ++ reach g h' c.time, h.length ≤ j) ∧
        (∀ g, unfold g h' c.info = unfold g h s.info) ∧ obj h' c.data = obj h s.data ∧ obj h' c.time = obj h s.time ∧
        (∀ j o, h.length ≤ j → ∀ g i, i < h.length →
          unfold g (write h' j o) i = unfold g h i ∧ obj (write h' j o) i = obj h i) := by
  obtain ⟨hsd, hst, _⟩ := hs
  obtain ⟨fd, ft⟩ := hflat
  cases hdc : deepCopy fuel h s.info with
  | error e =>
    rw [seriesCopy_strict_error fuel h s e hdc]
    exact ⟨rfl, e, rfl⟩
  | ok p =>
    obtain ⟨h1, m⟩ := p
    rw [seriesCopy_ok .strict fuel h s h1 m hdc]
    have c := deepCopy_spec fuel h hc s.info h1 m hdc
    obtain ⟨e1, he1⟩ := c.ext
    have hod : obj h1 s.data = obj h s.data := by rw [he1]; exact obj_append_left h e1 _ hsd
    have hot : obj h1 s.time = obj h s.time := by rw [he1]; exact obj_append_left h e1 _ hst
    have hD : obj (h1 ++ [obj h1 s.data, obj h1 s.time]) h1.length = obj h s.data := by
      rw [obj_append_length, hod]
    have hT : obj (h1 ++ [obj h1 s.data, obj h1 s.time]) (h1.length + 1) = obj h s.time := by
      rw [obj_append_right, ← hot]; rfl
    have r := result_spec h hc s.info h1 m c [obj h1 s.data, obj h1 s.time] h1.length (h1.length + 1)
      (Nat.le_refl _) (Nat.le_succ _) (by rw [hD]; exact fd) (by rw [hT]; exact ft)
    exact ⟨r.1, r.2.1, r.2.2.1, hD, hT, r.2.2.2⟩

/-- the same through `+ - * /` (any elementwise f): refused (metadata not deep-copyable, or a shape numpy refuses) ⇒ heap
unchanged; returned ⇒ everything reachable from the result is new and writes to it never reach an old object -/
theorem arith_shares_nothing_mutable_graph (fuel : Nat) (f : Int → Int → Int) (h : Heap) (hc : Closed h) (s : GSeries)
    (other : Nat)
    (hs : s.data < h.length ∧ s.time < h.length ∧ s.info < h.length)
    (hflat : Flat (obj h s.data) ∧ Flat (obj h s.time)) :
    match seriesArith .strict fuel f h s other with
    | (h', .error _) => h' = h
    | (h', .ok c) =>
        (∃ e, h' = h ++ e) ∧
        (∀ g, ∀ j ∈ reach g h' c.info ++ reach g h' c.data ++ reach g h' c.time, h.length ≤ j) ∧
        (∀ g, unfold g h' c.info = unfold g h s.info) ∧ obj h' c.time = obj h s.time ∧
        (∀ j o, h.length ≤ j → ∀ g i, i < h.length →
          unfold g (write h' j o) i = unfold g h i ∧ obj (write h' j o) i = obj h i) := by
  obtain ⟨hsd, hst, _⟩ := hs
  obtain ⟨fd, ft⟩ := hflat
  unfold seriesArith
  cases hdc : deepCopy fuel h s.info with
  | error e =>
    rw [seriesCopy_strict_error fuel h s e hdc]
  | ok p =>
    obtain ⟨h1, m⟩ := p
    rw [seriesCopy_ok .strict fuel h s h1 m hdc]
    simp only
    by_cases hb : broadcastOK (obj (h1 ++ [obj h1 s.data, obj h1 s.time]) h1.length)
        (obj (h1 ++ [obj h1 s.data, obj h1 s.time]) other) = true
    · rw [if_pos hb]
      have c := deepCopy_spec fuel h hc s.info h1 m hdc
      obtain ⟨e1, he1⟩ := c.ext
      have hot : obj h1 s.time = obj h s.time := by rw [he1]; exact obj_append_left h e1 _ hst
      generalize hz : zipVals f (obj (h1 ++ [obj h1 s.data, obj h1 s.time]) h1.length)
        (obj (h1 ++ [obj h1 s.data, obj h1 s.time]) other) = z
      have fz : Flat z := by rw [← hz]; exact flat_zipVals _ _ _
      have hassoc : h1 ++ [obj h1 s.data, obj h1 s.time] ++ [z] = h1 ++ [obj h1 s.data, obj h1 s.time, z] := by simp
      have hlen : (h1 ++ [obj h1 s.data, obj h1 s.time]).length = h1.length + 2 := by simp
      rw [hassoc, hlen]
      have hD : obj (h1 ++ [obj h1 s.data, obj h1 s.time, z]) (h1.length + 2) = z := by
        rw [obj_append_right]; rfl
      have hT : obj (h1 ++ [obj h1 s.data, obj h1 s.time, z]) (h1.length + 1) = obj h s.time := by
        rw [obj_append_right, ← hot]; rfl
      have r := result_spec h hc s.info h1 m c [obj h1 s.data, obj h1 s.time, z] (h1.length + 2) (h1.length + 1)
        (Nat.le_add_right _ _) (Nat.le_succ _) (by rw [hD]; exact fz) (by rw [hT]; exact ft)
      exact ⟨r.1, r.2.1, r.2.2.1, hT, r.2.2.2⟩
    · rw [if_neg hb]

/-- a refusal of the deep copy is a refusal of copy() — never a substitute -/
theorem strict_copy_raises_iff (fuel : Nat) (h : Heap) (s : GSeries) (e : Err) :
    (seriesCopy .strict fuel h s).2 = .error e ↔ deepCopy fuel h s.info = .error e := by
  cases hdc : deepCopy fuel h s.info with
  | error e' => rw [seriesCopy_strict_error fuel h s e' hdc]; simp
  | ok p =>
    obtain ⟨h1, m⟩ := p
    rw [seriesCopy_ok .strict fuel h s h1 m hdc]
    simp

theorem copyItems_handle_raises (rec : Heap → Nat → Except Err (Heap × Nat)) (h : Heap) (vs : List Int) (k : Nat)
    (rest : List Item) : copyItemsWith rec h (vs.map Item.val ++ Item.handle k :: rest) = .error .typeError := by
  induction vs with
  | nil => simp [copyItemsWith]
  | cons v vs ih => simp [copyItemsWith, ih]

/-- deepcopy raises TypeError as soon as the root container itself holds a handle with only `val`s before it -/
theorem deepCopy_handle_raises (fuel : Nat) (h : Heap) (r : Nat) (vs : List Int) (k : Nat) (rest : List Item)
    (hr : obj h r = vs.map Item.val ++ Item.handle k :: rest) : deepCopy (fuel + 1) h r = .error .typeError := by
  simp [deepCopy, hr, copyItems_handle_raises]

/-- the shallow-fallback VARIANT violates the clause: lock + nested list; the write through the copy reaches the original -/
theorem shallow_fallback_counterexample :
    let h : Heap := [[.val 1], [.val 0], [.val 1, .val 2], [.handle 0, .ref 2]]
    seriesCopy .strict 5 h ⟨0, 1, 3⟩ = (h, .error .typeError) ∧
    ∃ h' c, seriesCopy .shallowFallback 5 h ⟨0, 1, 3⟩ = (h', .ok c) ∧ 2 ∈ reach 2 h' c.info ∧ c.info ≠ 3 ∧
      unfold 3 (write h' 2 [.val 9]) 3 ≠ unfold 3 h 3 := by
  intro h
  refine ⟨rfl, _, _, rfl, by decide, by decide, by decide⟩

/-! ### WHEN the deep copy raises -/

/-- a handle is met when the slots are walked as deepcopy walks them -/
def handleIn (rec : Nat → Bool) : List Item → Bool
  | [] => false
  | .handle _ :: _ => true
  | .val _ :: xs => handleIn rec xs
  | .ref i :: xs => rec i || handleIn rec xs

/-- an uncopyable handle is reachable from `r` (to depth g) -/
def reachesHandle : Nat → Heap → Nat → Bool
  | 0, _, _ => false
  | g + 1, h, r => handleIn (reachesHandle g h) (obj h r)

/-- the graph under `r` is no deeper than `g` (acyclic metadata) -/
def depthLE : Nat → Heap → Nat → Bool
  | 0, _, _ => false
  | g + 1, h, r => (obj h r).all fun it => match it with | .ref i => depthLE g h i | _ => true

theorem handleIn_congr (f f' : Nat → Bool) (xs : List Item)
    (hf : ∀ i, Item.ref i ∈ xs → f i = f' i) : handleIn f xs = handleIn f' xs := by
  induction xs with
  | nil => rfl
  | cons x xs ih =>
    have ih' := ih (fun i hi => hf i (List.mem_cons_of_mem _ hi))
    cases x with
    | val v => simp [handleIn, ih']
    | handle k => simp [handleIn]
    | ref i => simp [handleIn, ih', hf i List.mem_cons_self]

theorem reachesHandle_stable (h e : Heap) (hc : Closed h) (g i : Nat) (hi : i < h.length) :
    reachesHandle g (h ++ e) i = reachesHandle g h i := by
  induction g generalizing i with
  | zero => simp [reachesHandle]
  | succ g ih =>
    simp only [reachesHandle]
    rw [obj_append_left h e i hi]
    exact handleIn_congr _ _ _ (fun j hj => ih j (obj_refs_lt h hc i j hj))

theorem depthLE_refs (g : Nat) (h : Heap) (r : Nat) (hd : depthLE (g + 1) h r = true) (i : Nat)
    (hi : Item.ref i ∈ obj h r) : depthLE g h i = true := by
  simp only [depthLE, List.all_eq_true] at hd
  exact hd _ hi

theorem depthLE_ext (h e : Heap) (hc : Closed h) (g i : Nat) (hi : i < h.length) (hd : depthLE g h i = true) :
    depthLE g (h ++ e) i = true := by
  induction g generalizing i with
  | zero => simp [depthLE] at hd
  | succ g ih =>
    simp only [depthLE, List.all_eq_true]
    rw [obj_append_left h e i hi]
    intro x hx
    cases x with
    | val v => rfl
    | handle k => rfl
    | ref k => exact ih k (obj_refs_lt h hc i k hx) (depthLE_refs g h i hd k hx)

theorem copyItems_raises (g : Nat)
    (hrec : ∀ h r, Closed h → depthLE g h r = true →
      (reachesHandle g h r = true → deepCopy g h r = .error .typeError) ∧
      (reachesHandle g h r = false → ∃ x, deepCopy g h r = .ok x)) :
    ∀ (xs : List Item) (h : Heap), Closed h →
      (∀ i, Item.ref i ∈ xs → i < h.length ∧ depthLE g h i = true) →
      (handleIn (reachesHandle g h) xs = true → copyItemsWith (deepCopy g) h xs = .error .typeError) ∧
      (handleIn (reachesHandle g h) xs = false → ∃ x, copyItemsWith (deepCopy g) h xs = .ok x) := by
  intro xs
  induction xs with
  | nil => intro h _ _; simp [handleIn, copyItemsWith]
  | cons x xs ih =>
    intro h hc hx
    have hx' : ∀ i, Item.ref i ∈ xs → i < h.length ∧ depthLE g h i = true :=
      fun i hi => hx i (List.mem_cons_of_mem _ hi)
    cases x with
    | val v =>
      obtain ⟨a, b⟩ := ih h hc hx'
      refine ⟨fun q => ?_, fun q => ?_⟩
      · simp only [handleIn] at q
        simp [copyItemsWith, a q]
      · simp only [handleIn] at q
        obtain ⟨⟨h1, ys⟩, hy⟩ := b q
        simp only [copyItemsWith, hy]
        exact ⟨_, rfl⟩
    | handle k => simp [handleIn, copyItemsWith]
    | ref i =>
      obtain ⟨hi, hdi⟩ := hx i List.mem_cons_self
      obtain ⟨ra, rb⟩ := hrec h i hc hdi
      cases hb : reachesHandle g h i with
      | true => simp [handleIn, hb, copyItemsWith, ra hb]
      | false =>
        obtain ⟨⟨h1, j⟩, hj⟩ := rb hb
        have c := deepCopy_spec g h hc i h1 j hj
        obtain ⟨e1, he1⟩ := c.ext
        subst he1
        have hh : handleIn (reachesHandle g (h ++ e1)) xs = handleIn (reachesHandle g h) xs :=
          handleIn_congr _ _ _ (fun k hk => reachesHandle_stable h e1 hc g k (hx' k hk).1)
        obtain ⟨a, b⟩ := ih (h ++ e1) c.closed (fun k hk =>
          ⟨Nat.lt_of_lt_of_le (hx' k hk).1 (by simp), depthLE_ext h e1 hc g k (hx' k hk).1 (hx' k hk).2⟩)
        rw [hh] at a b
        refine ⟨fun q => ?_, fun q => ?_⟩
        · simp only [handleIn, hb, Bool.false_or] at q
          simp [copyItemsWith, hj, a q]
        · simp only [handleIn, hb, Bool.false_or] at q
          obtain ⟨⟨h2, ys⟩, hy⟩ := b q
          simp only [copyItemsWith, hj, hy]
          exact ⟨_, rfl⟩

/-- within the depth bound: a reachable handle ⇒ TypeError; none ⇒ the copy is returned -/
theorem deepCopy_raises_aux (g : Nat) : ∀ (h : Heap) (r : Nat), Closed h → depthLE g h r = true →
    (reachesHandle g h r = true → deepCopy g h r = .error .typeError) ∧
    (reachesHandle g h r = false → ∃ x, deepCopy g h r = .ok x) := by
  induction g with
  | zero => intro h r _ hd; simp [depthLE] at hd
  | succ g ih =>
    intro h r hc hd
    obtain ⟨a, b⟩ := copyItems_raises g ih (obj h r) h hc
      (fun i hi => ⟨obj_refs_lt h hc r i hi, depthLE_refs g h r hd i hi⟩)
    refine ⟨fun q => ?_, fun q => ?_⟩
    · simp only [reachesHandle] at q
      simp [deepCopy, a q]
    · simp only [reachesHandle] at q
      obtain ⟨⟨h1, ys⟩, hy⟩ := b q
      simp only [deepCopy, hy]
      exact ⟨_, rfl⟩

/-- **deepcopy raises iff an uncopyable handle is reachable** (and then it is a TypeError) -/
theorem deepCopy_raises_iff (fuel : Nat) (h : Heap) (hc : Closed h) (r : Nat) (hr : r < h.length)
    (hd : depthLE fuel h r = true) :
    (deepCopy fuel h r = .error .typeError ↔ reachesHandle fuel h r = true) ∧
    ((∃ x, deepCopy fuel h r = .ok x) ↔ reachesHandle fuel h r = false) := by
  have _ := hr  -- not needed: an out-of-range root is an empty object
  obtain ⟨a, b⟩ := deepCopy_raises_aux fuel h r hc hd
  cases hb : reachesHandle fuel h r with
  | true => simp [a hb]
  | false =>
    obtain ⟨x, hx⟩ := b hb
    simp [hx]

/-- hence copy() of the source discipline raises iff a handle is reachable from the metadata; otherwise it returns -/
theorem strict_copy_raises_iff_handle (fuel : Nat) (h : Heap) (hc : Closed h) (s : GSeries) (hs : s.info < h.length)
    (hd : depthLE fuel h s.info = true) :
    ((seriesCopy .strict fuel h s).2 = .error .typeError ↔ reachesHandle fuel h s.info = true) ∧
    ((∃ c, (seriesCopy .strict fuel h s).2 = .ok c) ↔ reachesHandle fuel h s.info = false) := by
  obtain ⟨p, q⟩ := deepCopy_raises_iff fuel h hc s.info hs hd
  refine ⟨(strict_copy_raises_iff fuel h s .typeError).trans p, Iff.trans ?_ q⟩
  cases hdc : deepCopy fuel h s.info with
  | error e => rw [seriesCopy_strict_error fuel h s e hdc]; simp
  | ok x =>
    obtain ⟨h1, m⟩ := x
    rw [seriesCopy_ok .strict fuel h s h1 m hdc]
    simp

/-- the fallback variant NEVER raises on a reachable handle: it returns a series whose metadata object has the operand's own slots -/
theorem fallback_returns_shared_slots (fuel : Nat) (h : Heap) (s : GSeries) (e : Err)
    (he : deepCopy fuel h s.info = .error e) :
    ∃ h' c, seriesCopy .shallowFallback fuel h s = (h', .ok c) ∧ obj h' c.info = obj h s.info ∧ c.info = h.length := by
  have : seriesCopy .shallowFallback fuel h s =
      ((h ++ [obj h s.info]) ++ [obj (h ++ [obj h s.info]) s.data, obj (h ++ [obj h s.info]) s.time],
        .ok ⟨(h ++ [obj h s.info]).length, (h ++ [obj h s.info]).length + 1, h.length⟩) := by
    simp only [seriesCopy, copyMeta, he, shallowCopy]
  refine ⟨_, _, this, ?_, rfl⟩
  show obj ((h ++ [obj h s.info]) ++ _) h.length = obj h s.info
  rw [List.append_assoc]
  exact obj_append_length h _ _

end Nitime.C16.Copy
