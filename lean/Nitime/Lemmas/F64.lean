/- Helper lemmas about the exact binary64 model and small list facts used by C01/C02/C03. -/
import Nitime.Model.F64
import Nitime.Model.C01
import Mathlib.Algebra.Order.Floor.Ring
import Mathlib.Data.Rat.Floor
import Mathlib.Tactic.Linarith
import Mathlib.Tactic.Ring
import Mathlib.Tactic.NormNum

namespace Nitime.F64

theorem rint_near (q : Rat) : |((rint q : Int) : Rat) - q| ≤ 1 / 2 := by
  unfold rint
  have h0 : (0 : Rat) ≤ q - (q.floor : Rat) := by
    have := Rat.floor_le q; linarith
  have h1 : q - (q.floor : Rat) < 1 := by
    have := Rat.lt_floor_add_one q; push_cast at this; linarith
  simp only
  split_ifs with ha hb hc
  · rw [abs_le]; constructor <;> linarith
  · rw [abs_le]; push_cast; constructor <;> linarith
  · have : q - (q.floor : Rat) = 1 / 2 := le_antisymm (not_lt.mp hb) (not_lt.mp ha)
    rw [abs_le]; constructor <;> linarith
  · have : q - (q.floor : Rat) = 1 / 2 := le_antisymm (not_lt.mp hb) (not_lt.mp ha)
    rw [abs_le]; push_cast; constructor <;> linarith

theorem rint_intCast (k : Int) : rint (k : Rat) = k := by
  unfold rint
  simp

end Nitime.F64

namespace Nitime.C01

theorem foldl_min_le (l : List Int) (a : Int) :
    (l.foldl (fun a b => if b < a then b else a) a ≤ a) ∧
    ∀ x ∈ l, l.foldl (fun a b => if b < a then b else a) a ≤ x := by
  induction l generalizing a with
  | nil => simp
  | cons y l ih =>
    simp only [List.foldl_cons, List.mem_cons]
    obtain ⟨h1, h2⟩ := ih (if y < a then y else a)
    refine ⟨?_, ?_⟩
    · split_ifs at h1 ⊢ <;> omega
    · rintro x (rfl | hx)
      · split_ifs at h1 ⊢ <;> omega
      · exact h2 x hx

theorem foldl_min_mem (l : List Int) (a : Int) :
    l.foldl (fun a b => if b < a then b else a) a = a ∨
    l.foldl (fun a b => if b < a then b else a) a ∈ l := by
  induction l generalizing a with
  | nil => simp
  | cons y l ih =>
    simp only [List.foldl_cons, List.mem_cons]
    rcases ih (if y < a then y else a) with h | h
    · rw [h]; split_ifs <;> simp
    · right; right; exact h

theorem listMin_mem {l : List Int} (h : l ≠ []) : listMin l ∈ l := by
  cases l with
  | nil => exact absurd rfl h
  | cons x xs =>
    simp only [listMin, List.mem_cons]
    rcases foldl_min_mem xs x with h | h
    · left; exact h
    · right; exact h

theorem listMin_le {l : List Int} : ∀ x ∈ l, listMin l ≤ x := by
  cases l with
  | nil => simp
  | cons y ys =>
    intro x hx
    simp only [listMin]
    rcases List.mem_cons.mp hx with rfl | hx
    · exact (foldl_min_le ys x).1
    · exact (foldl_min_le ys y).2 x hx

theorem foldl_max_ge (l : List Int) (a : Int) :
    (a ≤ l.foldl (fun a b => if a < b then b else a) a) ∧
    ∀ x ∈ l, x ≤ l.foldl (fun a b => if a < b then b else a) a := by
  induction l generalizing a with
  | nil => simp
  | cons y l ih =>
    simp only [List.foldl_cons, List.mem_cons]
    obtain ⟨h1, h2⟩ := ih (if a < y then y else a)
    refine ⟨?_, ?_⟩
    · split_ifs at h1 ⊢ <;> omega
    · rintro x (rfl | hx)
      · split_ifs at h1 ⊢ <;> omega
      · exact h2 x hx

theorem foldl_max_mem (l : List Int) (a : Int) :
    l.foldl (fun a b => if a < b then b else a) a = a ∨
    l.foldl (fun a b => if a < b then b else a) a ∈ l := by
  induction l generalizing a with
  | nil => simp
  | cons y l ih =>
    simp only [List.foldl_cons, List.mem_cons]
    rcases ih (if a < y then y else a) with h | h
    · rw [h]; split_ifs <;> simp
    · right; right; exact h

theorem listMax_mem {l : List Int} (h : l ≠ []) : listMax l ∈ l := by
  cases l with
  | nil => exact absurd rfl h
  | cons x xs =>
    simp only [listMax, List.mem_cons]
    rcases foldl_max_mem xs x with h | h
    · left; exact h
    · right; exact h

theorem le_listMax {l : List Int} : ∀ x ∈ l, x ≤ listMax l := by
  cases l with
  | nil => simp
  | cons y ys =>
    intro x hx
    simp only [listMax]
    rcases List.mem_cons.mp hx with rfl | hx
    · exact (foldl_max_ge ys x).1
    · exact (foldl_max_ge ys y).2 x hx

theorem listSum_eq (l : List Int) : listSum l = l.sum := by
  unfold listSum
  have : ∀ a, l.foldl (· + ·) a = a + l.sum := by
    induction l with
    | nil => simp
    | cons x xs ih => intro a; simp [List.foldl_cons, ih]; ring
  simpa using this 0

end Nitime.C01
