/-
The mathematical reading of the coherence models: `CScalar ℂ`, the unfolding lemmas, the bridge
from the model's `sumRange` fold to `Finset.sum`, and the facts about real inputs embedded in ℂ.
-/
import Mathlib.Analysis.SpecialFunctions.Pow.Real
import Mathlib.Analysis.SpecialFunctions.Complex.Arg
import Mathlib.Algebra.BigOperators.Intervals
import Nitime.Model.CohBase

open Finset

namespace Nitime.Coh

noncomputable instance instCScalarComplex : CScalar ℂ where
  ofNat n := (n : ℂ)
  add := (· + ·)
  sub := (· - ·)
  mul := (· * ·)
  div := (· / ·)
  conj := fun z => (starRingEnd ℂ) z
  re z := (z.re : ℂ)
  abs z := (‖z‖ : ℂ)
  sqrt z := z ^ (1 / 2 : ℂ)
  arg z := (Complex.arg z : ℂ)
  cis z := Complex.exp (Complex.I * (z.re : ℂ))
  twiddle n k := Complex.exp (-2 * (Real.pi : ℂ) * Complex.I * (k : ℂ) / (n : ℂ))
  twoPi := ((2 * Real.pi : ℝ) : ℂ)

open ComplexConjugate

section unfold
variable (a b : ℂ) (n k : ℕ)
@[simp] theorem c_ofNat : (CScalar.ofNat n : ℂ) = (n : ℂ) := rfl
@[simp] theorem c_add : CScalar.add a b = a + b := rfl
@[simp] theorem c_sub : CScalar.sub a b = a - b := rfl
@[simp] theorem c_mul : CScalar.mul a b = a * b := rfl
@[simp] theorem c_div : CScalar.div a b = a / b := rfl
@[simp] theorem c_conj : CScalar.conj a = conj a := rfl
@[simp] theorem c_re : CScalar.re a = (a.re : ℂ) := rfl
@[simp] theorem c_abs : CScalar.abs a = (‖a‖ : ℂ) := rfl
theorem c_sqrt : CScalar.sqrt a = a ^ (1 / 2 : ℂ) := rfl
@[simp] theorem c_arg : CScalar.arg a = (Complex.arg a : ℂ) := rfl
theorem c_cis : CScalar.cis a = Complex.exp (Complex.I * (a.re : ℂ)) := rfl
theorem c_twoPi : (CScalar.twoPi : ℂ) = ((2 * Real.pi : ℝ) : ℂ) := rfl
end unfold

/-- the model's fold is the finite sum -/
theorem sumRange_eq (n : ℕ) (f : ℕ → ℂ) : sumRange n f = ∑ i ∈ range n, f i := by
  unfold sumRange
  induction n with
  | zero => simp
  | succ n ih => rw [List.range_succ, List.foldl_append, ih, Finset.sum_range_succ]; simp

/-- principal square root of a non-negative real -/
theorem c_sqrt_ofReal {r : ℝ} (hr : 0 ≤ r) : CScalar.sqrt (r : ℂ) = (Real.sqrt r : ℂ) := by
  rw [c_sqrt, Real.sqrt_eq_rpow, Complex.ofReal_cpow hr]
  norm_num

theorem getA_toArray (xs : List ℂ) (i : ℕ) : getA xs.toArray i = getK xs i := by
  unfold getA getK
  simp [Array.getD_eq_getD_getElem?, List.getD_eq_getElem?_getD]

/-- the array-backed segment FFT is the sum over the list reads -/
theorem segFft_eq (w x : List ℂ) (N s k : ℕ) :
    segFft w x N s k = ∑ j ∈ range N, getK w j * getK x (s + j) * CScalar.twiddle N (j * k) := by
  unfold segFft
  simp only [sumRange_eq, getA_toArray, c_mul]

theorem getK_map_ofReal (xs : List ℝ) (i : ℕ) :
    getK (xs.map ((↑) : ℝ → ℂ)) i = ((xs.getD i 0 : ℝ) : ℂ) := by
  unfold getK
  simp only [c_ofNat, Nat.cast_zero, List.getD_eq_getElem?_getD, List.getElem?_map]
  cases xs[i]? <;> simp

/-- `coherence_spec` is the real number |f_xy|² / (Re f_xx · Re f_yy) -/
theorem coherenceSpec_eq (fxy fxx fyy : ℂ) :
    coherenceSpec fxy fxx fyy = ((Complex.normSq fxy / (fxx.re * fyy.re) : ℝ) : ℂ) := by
  unfold coherenceSpec
  simp only [c_div, c_mul, c_abs, c_re]
  rw [Complex.normSq_eq_norm_sq]
  push_cast
  ring

/-- `coherency_spec` on real non-negative auto-spectra -/
theorem coherencySpec_real (fxy : ℂ) {p q : ℝ} (hp : 0 ≤ p) (hq : 0 ≤ q) :
    coherencySpec fxy (p : ℂ) (q : ℂ) = fxy / ((Real.sqrt (p * q) : ℝ) : ℂ) := by
  unfold coherencySpec
  simp only [c_div, c_mul]
  rw [← Complex.ofReal_mul, c_sqrt_ofReal (mul_nonneg hp hq)]

end Nitime.Coh
