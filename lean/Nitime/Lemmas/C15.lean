/- Helper lemmas for the C15 property theorems (`Nitime/Props/C15.lean`). -/
import Nitime.Model.C15
import Mathlib.Tactic.Ring
import Mathlib.Tactic.Linarith
import Mathlib.Tactic.NormNum
import Mathlib.Tactic.FieldSimp
import Mathlib.Tactic.Push
import Mathlib.Data.List.Basic

namespace Nitime.C15.Lemmas
open Nitime Nitime.C15

/-- `mkSeries` returns the t0 / unit / n it was given -/
theorem mkSeries_fields (iv : Option IvArg) (r : Option Rat) (t0 : Option Int) (u : TimeUnit) (n : Nat)
    (out : Series) (h : mkSeries iv r t0 u n = .ok out) :
    out.ax.t0 = t0.getD 0 ∧ out.ax.unit = u ∧ out.ax.n = n := by
  unfold mkSeries at h
  split at h <;> first | (injection h with h; subst h; exact ⟨rfl, rfl, rfl⟩) | (cases h)

/-- decomposition of a successful `outputSeries` -/
theorem outputSeries_ok (sh : Shape) (src : Series) (p : Params) (nOut : Nat) (out : Series)
    (ho : outputSeries sh src p nOut = .ok out) :
    ∃ iv r t0 u, argInterval src p sh.interval = .ok iv ∧ argRate src sh.rate = .ok r ∧
      argT0 src p sh.t0 = .ok t0 ∧ argUnit src sh.unit = .ok u ∧ mkSeries iv r t0 u nOut = .ok out := by
  unfold outputSeries at ho
  cases h1 : argInterval src p sh.interval with
  | error e => simp [h1, bind, Except.bind] at ho
  | ok iv =>
    cases h2 : argRate src sh.rate with
    | error e => simp [h1, h2, bind, Except.bind] at ho
    | ok r =>
      cases h3 : argT0 src p sh.t0 with
      | error e => simp [h1, h2, h3, bind, Except.bind] at ho
      | ok t0 =>
        cases h4 : argUnit src sh.unit with
        | error e => simp [h1, h2, h3, h4, bind, Except.bind] at ho
        | ok u =>
          simp [h1, h2, h3, h4, bind, Except.bind] at ho
          exact ⟨iv, r, t0, u, rfl, rfl, rfl, rfl, ho⟩

theorem t0_of_absent (sh : Shape) (h : sh.t0 = .absent) (src : Series) (p : Params) (nOut : Nat)
    (out : Series) (ho : outputSeries sh src p nOut = .ok out) : out.ax.t0 = 0 := by
  obtain ⟨iv, r, t0, u, _, _, h3, _, hm⟩ := outputSeries_ok sh src p nOut out ho
  rw [h] at h3
  simp [argT0] at h3
  subst h3
  exact (mkSeries_fields _ _ _ _ _ _ hm).1

theorem unit_of_absent (sh : Shape) (h : sh.unit = .absent) (src : Series) (p : Params) (nOut : Nat)
    (out : Series) (ho : outputSeries sh src p nOut = .ok out) : out.ax.unit = .s := by
  obtain ⟨iv, r, t0, u, _, _, _, h4, hm⟩ := outputSeries_ok sh src p nOut out ho
  rw [h] at h4
  simp [argUnit] at h4
  subst h4
  exact (mkSeries_fields _ _ _ _ _ _ hm).2.1

/-- what a lag-shaped site returns -/
theorem lag_out (s : Sym) (src : Series) (p : Params) (u : Arg) (nOut : Nat) (out : Series)
    (ho : outputSeries ⟨.field .interval, .absent, .scaled true s, u⟩ src p nOut = .ok out) :
    out.ax.dt = src.ax.dt ∧ out.ax.t0 = -1 * symVal src p s * src.ax.dt ∧ out.ax.n = nOut := by
  obtain ⟨iv, r, t0, uu, h1, h2, h3, _, hm⟩ := outputSeries_ok _ src p nOut out ho
  simp [argInterval] at h1
  simp [argRate] at h2
  simp [argT0] at h3
  subst h1 h2 h3
  simp [mkSeries] at hm
  subst hm
  simp

theorem lag_intended (src : Series) (p : Params) (u : Arg) (out : Series) (hn : 0 < src.ax.n)
    (ho : outputSeries ⟨.field .interval, .absent, .scaled true .nMinus1, u⟩ src p (2 * src.ax.n - 1) = .ok out) :
    out.ax.dt = src.ax.dt ∧ timeAt out.ax (src.ax.n - 1) = 0 ∧
    (∀ k : Nat, timeAt out.ax k = ((k : Int) - ((src.ax.n : Int) - 1)) * src.ax.dt) ∧
    timeAt out.ax 0 = - timeAt out.ax (out.ax.n - 1) := by
  obtain ⟨h1, h2, h3⟩ := lag_out .nMinus1 src p u _ out ho
  have hk : ∀ k : Nat, timeAt out.ax k = ((k : Int) - ((src.ax.n : Int) - 1)) * src.ax.dt := by
    intro k; simp only [timeAt, h1, h2, symVal]; ring
  have hn1 : ((src.ax.n - 1 : Nat) : Int) = (src.ax.n : Int) - 1 := by omega
  have hlast : ((2 * src.ax.n - 1 - 1 : Nat) : Int) = 2 * (src.ax.n : Int) - 2 := by omega
  refine ⟨h1, ?_, hk, ?_⟩
  · rw [hk, hn1]; ring
  · rw [hk, hk, h3, hlast]; push_cast; ring

theorem lag_current (src : Series) (p : Params) (u : Arg) (out : Series)
    (hn : 0 < src.ax.n) (hd : src.ax.dt ≠ 0)
    (ho : outputSeries ⟨.field .interval, .absent, .scaled true .n, u⟩ src p (2 * src.ax.n - 1) = .ok out) :
    timeAt out.ax (src.ax.n - 1) = - src.ax.dt ∧ timeAt out.ax (src.ax.n - 1) ≠ 0 ∧
    timeAt out.ax src.ax.n = 0 := by
  obtain ⟨h1, h2, _⟩ := lag_out .n src p u _ out ho
  have hn1 : ((src.ax.n - 1 : Nat) : Int) = (src.ax.n : Int) - 1 := by omega
  have e1 : timeAt out.ax (src.ax.n - 1) = - src.ax.dt := by
    simp only [timeAt, h1, h2, symVal, hn1]; ring
  refine ⟨e1, ?_, ?_⟩
  · rw [e1]; simpa using hd
  · simp only [timeAt, h1, h2, symVal]; ring

/-! ### concatenation -/

theorem concat_spec {α} (d : List (List α)) (rest : List (List (List α))) (c : Nat) (hc : c < d.length) :
    (concatData (d :: rest)).length = d.length ∧
    (concatData (d :: rest)).getD c [] = ((d :: rest).map fun b => b.getD c []).flatten ∧
    ((concatData (d :: rest)).getD c []).length = (((d :: rest).map fun b => (b.getD c []).length)).sum := by
  have h2 : (concatData (d :: rest)).getD c [] = ((d :: rest).map fun b => b.getD c []).flatten := by
    simp [concatData, List.getD, hc]
  refine ⟨by simp [concatData], h2, ?_⟩
  rw [h2, List.length_flatten, List.map_map]
  rfl

theorem concat_two {α} [Inhabited α] (a b : List (List α)) (c : Nat) (hc : c < a.length) (i : Nat) :
    ((concatData [a, b]).getD c [])[i]! =
      if i < (a.getD c []).length then (a.getD c [])[i]! else (b.getD c [])[i - (a.getD c []).length]! := by
  have h := (concat_spec a [b] c hc).2.1
  rw [h]
  simp only [List.map_cons, List.map_nil, List.flatten_cons, List.flatten_nil, List.append_nil]
  by_cases hi : i < (a.getD c []).length
  · simp only [hi, if_true, getElem!_def]
    rw [List.getElem?_append_left hi]
  · have hle : (a.getD c []).length ≤ i := by omega
    simp only [hi, if_false, getElem!_def]
    rw [List.getElem?_append_right hle]

end Nitime.C15.Lemmas
