/-
C03 — live objects that share parts (round 2, class L8): invariants of the object store of `Model/C03.lean`
(section "live objects that share parts") and their preservation by every command.  The property-level
statements are in `Props/C03.lean`.
-/
import Nitime.Model.C03

namespace Nitime.C03
namespace Store

/-- every cached `.time` id names an existing axis object -/
def WF (st : Store) : Prop := ∀ (sid : Nat) (s : SObj) (p : Nat), st.series[sid]? = some s → s.time = some p → p < st.axes.length

/-- no two series hold the same axis object -/
def Priv (st : Store) : Prop :=
  ∀ (i j : Nat) (s t : SObj) (p : Nat), st.series[i]? = some s → st.series[j]? = some t → s.time = some p → t.time = some p → i = j

/-- series `sid` holds the axis object `p` (its `.time` has been read) and its lookups are asked of `v` -/
structure Holds (st : Store) (sid p : Nat) (v : Series) : Prop where
  wf : st.WF
  priv : st.Priv
  cached : st.timeId sid = some p
  view : st.viewOf sid = some v

theorem timeId_some {st : Store} {sid p : Nat} (h : st.timeId sid = some p) :
    ∃ s, st.series[sid]? = some s ∧ s.time = some p := by
  unfold timeId at h
  cases hs : st.series[sid]? with
  | none => simp [hs] at h
  | some s => exact ⟨s, rfl, by simpa [hs] using h⟩

theorem Holds.lt {st : Store} {sid p : Nat} {v : Series} (h : st.Holds sid p v) : p < st.axes.length := by
  obtain ⟨s, hs, ht⟩ := timeId_some h.cached
  exact h.wf sid s p hs ht

theorem holds_pushAxis {st : Store} {sid p : Nat} {v : Series} (h : st.Holds sid p v) (a : UAxis) :
    (st.pushAxis a).Holds sid p v := by
  have hlt := h.lt
  refine ⟨?_, fun i j x y q => h.priv i j x y q, h.cached, ?_⟩
  · intro i s q hs ht
    have := h.wf i s q hs ht
    simp only [pushAxis, List.length_append, List.length_singleton]
    omega
  · obtain ⟨s, hs, ht⟩ := timeId_some h.cached
    have hv := h.view
    simp only [viewOf, pushAxis, hs, Option.map_some, ht] at hv ⊢
    rw [List.getElem?_append_left hlt]
    exact hv

theorem getElem?_push {α} (l : List α) (x : α) (i : Nat) (y : α) (h : (l ++ [x])[i]? = some y) :
    l[i]? = some y ∨ (i = l.length ∧ y = x) := by
  by_cases hi : i < l.length
  · rw [List.getElem?_append_left hi] at h; exact Or.inl h
  · rw [List.getElem?_append_right (by omega)] at h
    have h0 : i - l.length = 0 := by
      cases hk : i - l.length with
      | zero => rfl
      | succ k => rw [hk] at h; simp at h
    rw [h0] at h
    simp at h
    exact Or.inr ⟨by omega, h.symm⟩

theorem holds_pushSeries {st : Store} {sid p : Nat} {v : Series} (h : st.Holds sid p v) (s' : SObj)
    (hn : s'.time = none) : (st.pushSeries s').Holds sid p v := by
  obtain ⟨s, hs, ht⟩ := timeId_some h.cached
  have hsid : sid < st.series.length := (List.getElem?_eq_some_iff.mp hs).1
  refine ⟨?_, ?_, ?_, ?_⟩
  · intro i x q hx hq
    rcases getElem?_push _ _ _ _ hx with hx | ⟨_, rfl⟩
    · exact h.wf i x q hx hq
    · rw [hn] at hq; cases hq
  · intro i j x y q hx hy hxq hyq
    rcases getElem?_push _ _ _ _ hx with hx | ⟨_, rfl⟩
    · rcases getElem?_push _ _ _ _ hy with hy | ⟨_, rfl⟩
      · exact h.priv i j x y q hx hy hxq hyq
      · rw [hn] at hyq; cases hyq
    · rw [hn] at hxq; cases hxq
  · simp only [timeId, pushSeries, List.getElem?_append_left hsid]
    exact h.cached
  · have hv := h.view
    simp only [viewOf, pushSeries, List.getElem?_append_left hsid] at hv ⊢
    exact hv

theorem holds_setAxis {st : Store} {sid p : Nat} {v : Series} (h : st.Holds sid p v) (id : Nat) (a : UAxis)
    (hne : id ≠ p) : (st.setAxis id a).Holds sid p v := by
  refine ⟨?_, fun i j x y q => h.priv i j x y q, h.cached, ?_⟩
  · intro i s q hs ht
    simp only [setAxis, List.length_set]
    exact h.wf i s q hs ht
  · obtain ⟨s, hs, ht⟩ := timeId_some h.cached
    have hv := h.view
    simp only [viewOf, setAxis, hs, Option.map_some, ht] at hv ⊢
    rw [List.getElem?_set_ne hne]
    exact hv

theorem allocTime_self {st : Store} {sid p : Nat} (h : st.timeId sid = some p) : st.allocTime sid = st := by
  obtain ⟨s, hs, ht⟩ := timeId_some h
  simp [allocTime, hs, ht]

theorem holds_allocTime {st : Store} {sid p : Nat} {v : Series} (h : st.Holds sid p v) (sid' : Nat) :
    (st.allocTime sid').Holds sid p v := by
  unfold allocTime
  cases hs' : st.series[sid']? with
  | none => exact h
  | some s' =>
    cases ht' : s'.time with
    | some q => simpa [ht'] using h
    | none =>
      simp only [ht']
      obtain ⟨s, hs, ht⟩ := timeId_some h.cached
      have hne : sid' ≠ sid := by
        rintro rfl
        rw [hs] at hs'; cases hs'
        rw [ht] at ht'; cases ht'
      have hlt := h.lt
      have hget : ∀ i x, (st.series.set sid' { s' with time := some st.axes.length })[i]? = some x →
          (i ≠ sid' ∧ st.series[i]? = some x) ∨ (i = sid' ∧ x = { s' with time := some st.axes.length }) := by
        intro i x hx
        by_cases hi : i = sid'
        · subst hi
          right
          have hl : i < st.series.length := (List.getElem?_eq_some_iff.mp hs').1
          rw [List.getElem?_set_self hl] at hx
          exact ⟨rfl, by cases hx; rfl⟩
        · left
          rw [List.getElem?_set_ne (Ne.symm hi)] at hx
          exact ⟨hi, hx⟩
      refine ⟨?_, ?_, ?_, ?_⟩
      · intro i x q hx hq
        simp only [List.length_append, List.length_singleton]
        rcases hget i x hx with ⟨_, hx⟩ | ⟨_, rfl⟩
        · have := h.wf i x q hx hq; omega
        · simp only [Option.some.injEq] at hq; omega
      · intro i j x y q hx hy hxq hyq
        rcases hget i x hx with ⟨hi, hx⟩ | ⟨hi, rfl⟩
        · rcases hget j y hy with ⟨hj, hy⟩ | ⟨hj, rfl⟩
          · exact h.priv i j x y q hx hy hxq hyq
          · simp only [Option.some.injEq] at hyq
            have := h.wf i x q hx hxq; omega
        · rcases hget j y hy with ⟨hj, hy⟩ | ⟨hj, rfl⟩
          · simp only [Option.some.injEq] at hxq
            have := h.wf j y q hy hyq; omega
          · rw [hi, hj]
      · simp only [timeId, List.getElem?_set_ne hne]
        exact h.cached
      · have hv := h.view
        simp only [viewOf, List.getElem?_set_ne hne, hs, Option.map_some, ht] at hv ⊢
        rw [List.getElem?_append_left hlt]
        exact hv

end Store

/-- the commands that leave series `sid` (holding axis object `p`) alone: every constructor, every lookup, and in-place
operators on any OTHER axis object / on the `.time` of any OTHER series -/
def SCmd.avoids (sid p : Nat) : SCmd → Prop
  | .inplaceAxis id _ => id ≠ p
  | .inplaceTime sid' _ => sid' ≠ sid
  | _ => True

instance (sid p : Nat) (c : SCmd) : Decidable (c.avoids sid p) := by
  cases c <;> simp only [SCmd.avoids] <;> infer_instance

theorem copied_holds {st : Store} {sid p : Nat} {v : Series} (h : st.Holds sid p v) (sid' p' : Nat) (f : Int → Int) :
    (copied sIntended st sid' p' f).Holds sid p v := by
  unfold copied
  cases st.series[sid']? with
  | none => exact h
  | some s =>
    cases st.axes[p']? with
    | none => exact h
    | some a => exact Store.holds_pushSeries h _ rfl

/-- FRAME RULE with sharing: a command that avoids (`sid`, `p`) keeps everything lookups on `sid` depend on -/
theorem stepS_holds {st : Store} {sid p : Nat} {v : Series} (h : st.Holds sid p v) (c : SCmd) (hc : c.avoids sid p) :
    (stepS sIntended st c).Holds sid p v := by
  cases c with
  | seriesOn ax data =>
    simp only [stepS, execS]
    cases st.axes[ax]? with
    | none => exact h
    | some a =>
      simp only
      split
      · exact h
      · exact Store.holds_pushSeries h _ rfl
  | readTime sid' =>
    simp only [stepS, execS]
    have := Store.holds_allocTime h sid'
    cases (st.allocTime sid').timeId sid' <;> exact this
  | copy sid' =>
    simp only [stepS, execS]
    have := Store.holds_allocTime h sid'
    cases (st.allocTime sid').timeId sid' with
    | none => exact this
    | some q => exact copied_holds this sid' q id
  | arith sid' k =>
    simp only [stepS, execS]
    have := Store.holds_allocTime h sid'
    cases (st.allocTime sid').timeId sid' with
    | none => exact this
    | some q => exact copied_holds this sid' q _
  | during sid' e =>
    simp only [stepS, execS]
    have := Store.holds_allocTime h sid'
    cases (st.allocTime sid').series[sid']? with
    | none => exact this
    | some s1 =>
      cases (st.allocTime sid').viewOf sid' with
      | none => exact this
      | some w =>
        simp only
        cases w.during e with
        | error er => exact this
        | ok out => exact Store.holds_pushSeries this _ rfl
  | axisCopy id =>
    simp only [stepS, execS]
    cases st.axes[id]? with
    | none => exact h
    | some a => exact Store.holds_pushAxis h a
  | inplaceAxis id ch =>
    simp only [stepS, execS]
    cases st.axes[id]? with
    | none => exact h
    | some a =>
      simp only
      cases ch.apply a with
      | error er => exact h
      | ok a' => exact Store.holds_setAxis h id a' hc
  | inplaceTime sid' ch =>
    simp only [stepS, execS]
    have h1 := Store.holds_allocTime h sid'
    cases hq : (st.allocTime sid').timeId sid' with
    | none => exact h1
    | some q =>
      simp only
      cases (st.allocTime sid').axes[q]? with
      | none => exact h1
      | some a =>
        simp only
        cases ch.apply a with
        | error er => exact h1
        | ok a' =>
          refine Store.holds_setAxis h1 q a' ?_
          rintro rfl
          obtain ⟨s1, hs1, ht1⟩ := Store.timeId_some hq
          obtain ⟨s2, hs2, ht2⟩ := Store.timeId_some h1.cached
          exact hc (h1.priv sid' sid s1 s2 q hs1 hs2 ht1 ht2)
  | look sid' op rest =>
    simp only [stepS, execS]
    exact Store.holds_allocTime h sid'
  | lookAxis id op rest =>
    simp only [stepS, execS]
    exact h

theorem runS_holds {st : Store} {sid p : Nat} {v : Series} (h : st.Holds sid p v) (cs : List SCmd)
    (hcs : ∀ c ∈ cs, c.avoids sid p) : (runS sIntended st cs).Holds sid p v := by
  induction cs generalizing st with
  | nil => exact h
  | cons c cs ih =>
    simp only [runS, List.foldl_cons]
    exact ih (stepS_holds h c (hcs c (List.mem_cons_self ..))) (fun x hx => hcs x (List.mem_cons_of_mem _ hx))

/-- a lookup on a series whose `.time` has been read answers from its data and the current value of that axis object -/
theorem look_answer {cfg : SCfg} {st : Store} {sid p : Nat} {v : Series} (h : st.Holds sid p v) (op : String) (rest : List String) :
    execS cfg st (.look sid op rest) = (st, lookup (.series v) op rest) := by
  simp only [execS, Store.allocTime_self h.cached, h.view]

end Nitime.C03
