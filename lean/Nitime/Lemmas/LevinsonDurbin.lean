import Mathlib.Data.Complex.BigOperators
import Mathlib.Algebra.BigOperators.Intervals
import Mathlib.Algebra.Order.BigOperators.Group.Finset
import Mathlib.Tactic.Ring
import Mathlib.Tactic.FieldSimp
import Mathlib.Tactic.Linarith
import Mathlib.Tactic.LinearCombination

open Finset ComplexConjugate

noncomputable section

namespace LD

variable (r : ℕ → ℂ)

/-- r_{k-i} with the Hermitian extension r_{-m} = conj r_m -/
def rr (k i : ℕ) : ℂ := if i ≤ k then r (k - i) else conj (r (i - k))

structure St where
  a : ℕ → ℂ
  b : ℂ

def kappa (p : ℕ) (s : St) : ℂ :=
  (r p - ∑ i ∈ Icc 1 (p - 1), s.a i * r (p - i)) / s.b

def step (p : ℕ) (s : St) : St :=
  let κ := kappa r p s
  { a := fun i => if i = p then κ else if 1 ≤ i ∧ i < p then s.a i - κ * conj (s.a (p - i)) else 0
    b := s.b * (1 - κ * conj κ) }

def ld : ℕ → St
  | 0 => ⟨fun _ => 0, r 0⟩
  | p + 1 => step r (p + 1) (ld p)

/-- order-p Yule–Walker equations -/
def YW (p : ℕ) (a : ℕ → ℂ) : Prop :=
  ∀ k, 1 ≤ k → k ≤ p → ∑ i ∈ Icc 1 p, a i * rr r k i = r k

def Err (p : ℕ) (a : ℕ → ℂ) : ℂ := r 0 - ∑ i ∈ Icc 1 p, a i * conj (r i)

variable {r}

lemma conj_rr_flip (h0 : conj (r 0) = r 0) {p k i : ℕ} (hk : k ≤ p) (hi : i ≤ p) :
    conj (rr r (p - k) (p - i)) = rr r k i := by
  unfold rr
  by_cases h : i ≤ k
  · have h1 : ¬ (p - i ≤ p - k) ∨ i = k := by
      by_cases e : i = k
      · right; exact e
      · left; omega
    rcases h1 with h1 | h1
    · rw [if_neg h1, if_pos h, Complex.conj_conj]
      congr 1; omega
    · subst h1; simp [h0]
  · have h1 : p - i ≤ p - k := by omega
    rw [if_pos h1, if_neg h]
    congr 2; omega

lemma sum_Icc_reflect (p : ℕ) (f : ℕ → ℂ) :
    ∑ i ∈ Icc 1 (p - 1), f (p - i) = ∑ i ∈ Icc 1 (p - 1), f i := by
  refine Finset.sum_nbij' (fun i => p - i) (fun i => p - i) ?_ ?_ ?_ ?_ ?_
  · intro i hi; simp only [mem_Icc] at hi ⊢; omega
  · intro i hi; simp only [mem_Icc] at hi ⊢; omega
  · intro i hi; simp only [mem_Icc] at hi; omega
  · intro i hi; simp only [mem_Icc] at hi; omega
  · intro i hi; rfl

/-- the reversed conjugate of an order-(p-1) solution solves the system with rhs r_{k-p} -/
lemma reversed_solves (h0 : conj (r 0) = r 0) {p : ℕ} {a : ℕ → ℂ} (hp : 1 ≤ p)
    (hyw : YW r (p - 1) a) {k : ℕ} (hk1 : 1 ≤ k) (hkp : k ≤ p - 1) :
    ∑ i ∈ Icc 1 (p - 1), conj (a (p - i)) * rr r k i = conj (r (p - k)) := by
  have h := hyw (p - k) (by omega) (by omega)
  have hc := congrArg conj h
  rw [map_sum] at hc
  rw [← hc, ← sum_Icc_reflect p (fun x => conj (a x * rr r (p - k) x))]
  refine sum_congr rfl fun i hi => ?_
  simp only [mem_Icc] at hi
  rw [map_mul, conj_rr_flip h0 (by omega) (by omega)]


lemma step_a_lt {p : ℕ} (s : St) {i : ℕ} (h1 : 1 ≤ i) (h2 : i ≤ p - 1) (hp : 1 ≤ p) :
    (step r p s).a i = s.a i - kappa r p s * conj (s.a (p - i)) := by
  have hne : i ≠ p := by omega
  have hlt : 1 ≤ i ∧ i < p := ⟨h1, by omega⟩
  simp [step, hne, hlt]

lemma step_a_top {p : ℕ} (s : St) : (step r p s).a p = kappa r p s := by
  simp [step]

lemma sum_split_top {p : ℕ} (hp : 1 ≤ p) (f : ℕ → ℂ) :
    ∑ i ∈ Icc 1 p, f i = ∑ i ∈ Icc 1 (p - 1), f i + f p := by
  obtain ⟨q, rfl⟩ : ∃ q, p = q + 1 := ⟨p - 1, by omega⟩
  rw [Finset.sum_Icc_succ_top (by omega)]; simp

/-- conj of the error power written with the reflected coefficients -/
lemma b_reflect (h0 : conj (r 0) = r 0) {p : ℕ} {s : St}
    (hb : s.b = Err r (p - 1) s.a) (hbreal : conj s.b = s.b) :
    s.b = r 0 - ∑ i ∈ Icc 1 (p - 1), conj (s.a (p - i)) * r (p - i) := by
  have : conj s.b = r 0 - ∑ i ∈ Icc 1 (p - 1), conj (s.a i) * r i := by
    rw [hb, Err, map_sub, h0, map_sum]
    congr 1
    refine sum_congr rfl fun i _ => ?_
    rw [map_mul, Complex.conj_conj]
  rw [← hbreal, this, ← sum_Icc_reflect p (fun i => conj (s.a i) * r i)]

theorem step_correct (h0 : conj (r 0) = r 0) {p : ℕ} (hp : 1 ≤ p) {s : St}
    (hyw : YW r (p - 1) s.a) (hb : s.b = Err r (p - 1) s.a) (hbreal : conj s.b = s.b)
    (hbne : s.b ≠ 0) :
    YW r p (step r p s).a ∧ (step r p s).b = Err r p (step r p s).a ∧
      conj (step r p s).b = (step r p s).b := by
  set κ := kappa r p s with hκ
  have hκb : κ * s.b = r p - ∑ i ∈ Icc 1 (p - 1), s.a i * r (p - i) := by
    rw [hκ, kappa, div_mul_cancel₀ _ hbne]
  have hsum : ∀ f : ℕ → ℂ, ∑ i ∈ Icc 1 (p - 1), (step r p s).a i * f i
      = ∑ i ∈ Icc 1 (p - 1), s.a i * f i - κ * ∑ i ∈ Icc 1 (p - 1), conj (s.a (p - i)) * f i := by
    intro f
    rw [mul_sum, ← sum_sub_distrib]
    refine sum_congr rfl fun i hi => ?_
    simp only [mem_Icc] at hi
    rw [step_a_lt s hi.1 hi.2 hp]; ring
  refine ⟨?_, ?_, ?_⟩
  · intro k hk1 hkp
    rw [sum_split_top hp, hsum, step_a_top]
    by_cases hk : k ≤ p - 1
    · rw [hyw k hk1 hk, reversed_solves h0 hp hyw hk1 hk]
      have : rr r k p = conj (r (p - k)) := by
        unfold rr; rw [if_neg (by omega)]
      rw [this]; ring
    · have hkp' : k = p := by omega
      subst hkp'
      have h1 : ∀ i ∈ Icc 1 (k - 1), s.a i * rr r k i = s.a i * r (k - i) := by
        intro i hi; simp only [mem_Icc] at hi
        unfold rr; rw [if_pos (by omega)]
      have h2 : ∀ i ∈ Icc 1 (k - 1), conj (s.a (k - i)) * rr r k i
          = conj (s.a (k - i)) * r (k - i) := by
        intro i hi; simp only [mem_Icc] at hi
        unfold rr; rw [if_pos (by omega)]
      have h3 : rr r k k = r 0 := by unfold rr; simp
      rw [sum_congr rfl h1, sum_congr rfl h2, h3, ← hκ]
      have hbr := b_reflect h0 hb hbreal
      -- κ * (r0 - Σ conj a_{k-i} r_{k-i}) = κ * b
      have : κ * r 0 - κ * ∑ i ∈ Icc 1 (k - 1), conj (s.a (k - i)) * r (k - i) = κ * s.b := by
        rw [hbr]; ring
      linear_combination this + hκb
  · -- error identity
    show s.b * (1 - κ * conj κ) = Err r p (step r p s).a
    rw [Err, sum_split_top hp, hsum, step_a_top, ← hκ]
    have hE : s.b = r 0 - ∑ i ∈ Icc 1 (p - 1), s.a i * conj (r i) := hb
    have hc : conj (κ * s.b) = conj (r p) - ∑ i ∈ Icc 1 (p - 1), conj (s.a (p - i)) * conj (r i) := by
      rw [hκb, map_sub, map_sum, ← sum_Icc_reflect p (fun i => conj (s.a i * r (p - i)))]
      congr 1
      refine sum_congr rfl fun i hi => ?_
      simp only [mem_Icc] at hi
      rw [map_mul]
      have : p - (p - i) = i := by omega
      rw [this]
    rw [map_mul, hbreal] at hc
    linear_combination hE - κ * hc
  · show conj (s.b * (1 - κ * conj κ)) = s.b * (1 - κ * conj κ)
    rw [map_mul, map_sub, map_mul, Complex.conj_conj, hbreal, map_one]; ring

theorem ld_correct (h0 : conj (r 0) = r 0) :
    ∀ p, (∀ j, j < p → (ld r j).b ≠ 0) →
      YW r p (ld r p).a ∧ (ld r p).b = Err r p (ld r p).a ∧ conj (ld r p).b = (ld r p).b := by
  intro p
  induction p with
  | zero =>
    intro _
    refine ⟨fun k h1 h2 => by omega, ?_, ?_⟩
    · simp [ld, Err]
    · simpa [ld] using h0
  | succ p ih =>
    intro hne
    obtain ⟨h1, h2, h3⟩ := ih (fun j hj => hne j (by omega))
    have := step_correct (r := r) h0 (p := p + 1) (by omega) (s := ld r p)
      (by simpa using h1) (by simpa using h2) h3 (hne p (by omega))
    simpa [ld] using this

#print axioms ld_correct
end LD
