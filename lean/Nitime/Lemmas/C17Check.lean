/- C17 — the uniformity check of a `+=` / `-=` operand as an exact integer predicate:
   `rampStep` accepts exactly the affine lists (two or more elements), and adding / subtracting a list
   to an affine list gives an affine list exactly when the list is affine. -/
import Nitime.Lemmas.C17

namespace Nitime.C17.Lemmas
open Nitime Nitime.C17

/-- every successive difference of an affine list is its step -/
theorem diff_affine (d : Int) : ∀ (n : Nat) (a : Int), ∀ x ∈ diff (affine a d n), x = d
  | 0, a => by simp [diff]
  | 1, a => by simp [affine_succ, diff]
  | n + 2, a => by
    intro x hx
    rw [affine_succ, affine_succ] at hx
    simp only [diff] at hx
    rcases List.mem_cons.mp hx with h | h
    · omega
    · exact diff_affine d (n + 1) (a + d) x (by rw [affine_succ]; exact h)

/-- the check accepts every affine list of two or more elements, with its step -/
theorem rampStep_affine (a d : Int) (n : Nat) (h : 2 ≤ n) : rampStep (affine a d n) = .ok d := by
  obtain ⟨m, rfl⟩ : ∃ m, n = m + 2 := ⟨n - 2, by omega⟩
  have hall := diff_affine d (m + 2) a
  rw [affine_succ, affine_succ] at hall ⊢
  unfold rampStep
  simp only [diff] at hall ⊢
  have hd : a + d - a = d := by omega
  have hrest : (diff ((a + d) :: affine (a + d + d) d m)).all (· == (a + d - a)) = true := by
    apply List.all_eq_true.mpr
    intro x hx
    have := hall x (List.mem_cons_of_mem _ hx)
    simp [this, hd]
  rw [if_pos hrest, hd]

/-- **accepted ⇔ exactly uniform**: the check answers `ok d` iff the operand has two or more elements
and is the affine list with step `d` from its first element -/
theorem rampStep_ok_iff (vals : List Int) (d : Int) :
    rampStep vals = .ok d ↔ (2 ≤ vals.length ∧ vals = affine (vals.headD 0) d vals.length) := by
  constructor
  · intro h; exact ⟨(rampStep_ok h).2, (rampStep_ok h).1⟩
  · rintro ⟨h2, hv⟩
    have := rampStep_affine (vals.headD 0) d vals.length h2
    rw [← hv] at this
    exact this

/-- the check never answers anything but `ok`, ValueError (not uniform) or IndexError (fewer than two
elements, excluded by the caller) -/
theorem rampStep_refuses (vals : List Int) (h2 : 2 ≤ vals.length)
    (hne : ¬ ∃ d, vals = affine (vals.headD 0) d vals.length) : rampStep vals = .error .valueError := by
  match vals, h2 with
  | x :: y :: rest, _ =>
    cases hr : rampStep (x :: y :: rest) with
    | ok d => exact absurd ⟨d, (rampStep_ok hr).1⟩ hne
    | error e =>
      unfold rampStep at hr
      simp only [diff] at hr
      split at hr
      · cases hr
      · injection hr with hr; rw [← hr]

/-- pointwise description of an affine list -/
theorem affine_getElem (t0 dt : Int) (n i : Nat) (h : i < (affine t0 dt n).length) :
    (affine t0 dt n)[i] = t0 + (i : Int) * dt := by
  simp [affine]

/-- a list that is pointwise affine is the affine list -/
theorem eq_affine_of_pointwise (vals : List Int) (c d : Int)
    (h : ∀ i (hi : i < vals.length), vals[i] = c + (i : Int) * d) : vals = affine c d vals.length := by
  apply List.ext_getElem
  · simp
  · intro i h1 h2
    rw [h i h1, affine_getElem]

/-- **uniformity is preserved exactly by uniform operands**: adding (`sgn = 1`) or subtracting
(`sgn = -1`) a list of the same length to an affine list gives an affine list iff the list is affine -/
theorem zip_uniform_iff (t0 dt sgn : Int) (hs : sgn = 1 ∨ sgn = -1) (vals : List Int) :
    (∃ a b, List.zipWith (fun x v => x + sgn * v) (affine t0 dt vals.length) vals = affine a b vals.length)
    ↔ ∃ c d, vals = affine c d vals.length := by
  constructor
  · rintro ⟨a, b, h⟩
    refine ⟨sgn * (a - t0), sgn * (b - dt), eq_affine_of_pointwise _ _ _ ?_⟩
    intro i hi
    have hlen : i < (List.zipWith (fun x v => x + sgn * v) (affine t0 dt vals.length) vals).length := by
      simp [hi]
    have h1 : (List.zipWith (fun x v => x + sgn * v) (affine t0 dt vals.length) vals)[i]
        = (affine a b vals.length)[i]'(by simp [hi]) := by
      simp only [h]
    rw [List.getElem_zipWith, affine_getElem, affine_getElem] at h1
    have hss : sgn * sgn = 1 := by rcases hs with h | h <;> rw [h] <;> norm_num
    have : sgn * (sgn * vals[i]) = sgn * (a + (i : Int) * b - (t0 + (i : Int) * dt)) := by
      rw [← h1]; ring
    rw [← mul_assoc, hss, one_mul] at this
    rw [this]; ring
  · rintro ⟨c, d, hv⟩
    refine ⟨t0 + sgn * c, dt + sgn * d, ?_⟩
    conv_lhs => rw [hv]
    simp only [affine_length]
    apply affine_zipWith
    intro i _
    ring

end Nitime.C17.Lemmas
