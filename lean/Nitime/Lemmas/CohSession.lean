/-
C05 / C09 — sessions with refused `set_input` calls (`Model/CohSession.lean`): the theorems.  Core Lean only.

* `refused_exec_unchanged`  a body in which every possible raise precedes every write leaves the analyzer as it was
                            when it raises (the model's `refused_ops_leave_state_unchanged`);
* `refused_exec_raises`     … and it does raise for an input the class refuses, if it has a guard at all;
* `session_reads`           for such a body which, when it does not raise, re-targets the analyzer (`Retargets`):
                            along EVERY session of accepted / refused `set_input` calls, resets and reads, every
                            frequency vector is the class's grid at the rate of the input ACTUALLY HELD (or at the
                            rate the caller fixed), and the input held is the last one that was not refused;
* `write_before_check_session_counterexample`, `swap_check_rollback_session_counterexample`: the two orders of the
  seeded changes C05-10 / C09-10 (write `method['Fs']`, then check; swap + write, check, roll back the input only):
  after one refused call the analyzer holds the old input and reports the refused one's axis.
-/
import Nitime.Model.CohSession

namespace Nitime.CohSession

theorem all_ne_check_of_not_hasCheck : ∀ p : List Stmt, hasCheck p = false → p.all (· != .check) = true := by
  intro p
  induction p with
  | nil => intro _; rfl
  | cons a r ih =>
    intro h
    unfold hasCheck at h ih
    cases a <;> simp_all

theorem exec_no_check (new : Inp) : ∀ (p : List Stmt) (sv : Option Inp) (s : St), p.all (· != .check) = true →
    exec true new p sv s = exec false new p sv s := by
  intro p
  induction p with
  | nil => intros; rfl
  | cons a r ih =>
    intro sv s h
    have hr : r.all (· != .check) = true := by simp_all [List.all_cons]
    cases a with
    | check => simp [List.all_cons] at h
    | save => simp only [exec]; exact ih _ _ hr
    | reset => simp only [exec]; exact ih _ _ hr
    | setInput src => simp only [exec]; exact ih _ _ hr
    | writeFs src => simp only [exec]; exact ih _ _ hr
    | unknown => simp only [exec]; exact ih _ _ hr

theorem exec_no_check_not_raised (b : Bool) (new : Inp) : ∀ (p : List Stmt) (sv : Option Inp) (s : St),
    p.all (· != .check) = true → (exec b new p sv s).2 = false := by
  intro p
  induction p with
  | nil => intros; rfl
  | cons a r ih =>
    intro sv s h
    have hr : r.all (· != .check) = true := by simp_all [List.all_cons]
    cases a with
    | check => simp [List.all_cons] at h
    | save => simp only [exec]; exact ih _ _ hr
    | reset => simp only [exec]; exact ih _ _ hr
    | setInput src => simp only [exec]; exact ih _ _ hr
    | writeFs src => simp only [exec]; exact ih _ _ hr
    | unknown => simp only [exec]; exact ih _ _ hr

/-- **a refused `set_input` leaves the analyzer unchanged**, for every body whose raises precede its writes -/
theorem refused_exec_unchanged (new : Inp) : ∀ (p : List Stmt) (sv : Option Inp) (s : St), checksFirst p = true →
    (exec true new p sv s).2 = true → (exec true new p sv s).1 = s := by
  intro p
  induction p with
  | nil => intro sv s _ h; simp [exec] at h
  | cons a r ih =>
    intro sv s hc h
    cases a with
    | check => simp [exec]
    | save => simp only [exec] at h ⊢; exact ih _ _ (by simpa [checksFirst] using hc) h
    | reset =>
      simp only [exec] at h
      rw [exec_no_check_not_raised true new r _ _ (by simpa [checksFirst] using hc)] at h; cases h
    | setInput src =>
      simp only [exec] at h
      rw [exec_no_check_not_raised true new r _ _ (by simpa [checksFirst] using hc)] at h; cases h
    | writeFs src =>
      simp only [exec] at h
      rw [exec_no_check_not_raised true new r _ _ (by simpa [checksFirst] using hc)] at h; cases h
    | unknown =>
      simp only [exec] at h
      rw [exec_no_check_not_raised true new r _ _ (by simpa [checksFirst] using hc)] at h; cases h

theorem refused_exec_raises (new : Inp) : ∀ (p : List Stmt) (sv : Option Inp) (s : St), checksFirst p = true →
    hasCheck p = true → (exec true new p sv s).2 = true := by
  intro p
  induction p with
  | nil => intro sv s _ h; simp [hasCheck] at h
  | cons a r ih =>
    intro sv s hc h
    have key : ∀ b : Stmt, b ≠ .check → (b :: r).contains Stmt.check = true → r.all (· != .check) = true → False := by
      intro b hb hcon hall
      have : hasCheck r = true := by
        unfold hasCheck
        simp at hcon
        rcases hcon with h1 | h1
        · exact absurd h1.symm hb
        · simpa using h1
      have h2 := all_ne_check_of_not_hasCheck r
      cases hh : hasCheck r with
      | true =>
        -- r contains a check and all its statements differ from check
        unfold hasCheck at hh
        have hm : Stmt.check ∈ r := by simpa using hh
        have := List.all_eq_true.mp hall _ hm
        simp at this
      | false => rw [hh] at this; cases this
    cases a with
    | check => simp [exec]
    | save =>
      simp only [exec]
      exact ih _ _ (by simpa [checksFirst] using hc) (by unfold hasCheck at h ⊢; simpa [List.contains_cons] using h)
    | reset => exact (key .reset (by decide) h (by simpa [checksFirst] using hc)).elim
    | setInput src => exact (key (.setInput src) (by simp) h (by simpa [checksFirst] using hc)).elim
    | writeFs src => exact (key (.writeFs src) (by simp) h (by simpa [checksFirst] using hc)).elim
    | unknown => exact (key .unknown (by decide) h (by simpa [checksFirst] using hc)).elim

/-- the analyzer's rate slot follows the input it holds, and a memoised vector is the grid at that slot -/
def Inv (G : Rat → List Rat) (s : St) : Prop :=
  (s.fsFromInput = true → s.fs = s.held.rate) ∧ (∀ v, s.cache = some v → v = G s.fs)

/-- a body that, when nothing is refused, re-targets the analyzer -/
def Retargets (p : List Stmt) : Prop := ∀ (new : Inp) (s : St), exec false new p none s = (retarget new s, false)

theorem inv_init (G : Rat → List Rat) (inp : Inp) (userFs : Option Rat) : Inv G (init inp userFs) := by
  cases userFs <;> simp [Inv, init]

theorem inv_retarget (G : Rat → List Rat) (new : Inp) (s : St) (_h : Inv G s) : Inv G (retarget new s) := by
  constructor
  · intro hf
    simp only [retarget] at hf ⊢
    simp [hf]
  · intro v hv
    simp [retarget] at hv

theorem fixedOf_retarget (new : Inp) (s : St) : fixedOf (retarget new s) = fixedOf s := by
  unfold fixedOf retarget
  cases s.fsFromInput <;> simp

theorem rate_eq (G : Rat → List Rat) (s : St) (h : Inv G s) : s.fs = (fixedOf s).getD s.held.rate := by
  unfold fixedOf
  cases hf : s.fsFromInput
  · simp
  · simp [h.1 hf]

/-- **after any history with refused steps every frequency vector is the grid of the input actually held** -/
theorem session_reads (G : Rat → List Rat) (p : List Stmt) (hd : checksFirst p = true) (hr : Retargets p) :
    ∀ (evs : List Ev) (s : St), Inv G s → run G p s evs = spec G (hasCheck p) (fixedOf s) s.held evs := by
  intro evs
  induction evs with
  | nil => intros; rfl
  | cons e es ih =>
    intro s hI
    cases e with
    | setInput new refused =>
      simp only [run, spec]
      by_cases hc : (refused && hasCheck p) = true
      · have h1 : refused = true := by cases refused <;> simp_all
        have h2 : hasCheck p = true := by cases refused <;> simp_all
        subst h1
        have hraise := refused_exec_raises new p none s hd h2
        rw [refused_exec_unchanged new p none s hd hraise]
        simp only [hc, if_true]
        exact ih s hI
      · have hex : exec refused new p none s = (retarget new s, false) := by
          cases refused with
          | false => exact hr new s
          | true =>
            have h2 : hasCheck p = false := by simpa using hc
            rw [exec_no_check new p none s (all_ne_check_of_not_hasCheck p h2)]
            exact hr new s
        rw [hex]
        have := ih (retarget new s) (inv_retarget G new s hI)
        rw [fixedOf_retarget] at this
        simp only [hc]
        simpa [retarget] using this
    | readFreq =>
      simp only [run, spec]
      have hv : (readFreq G s).2 = G ((fixedOf s).getD s.held.rate) := by
        rw [← rate_eq G s hI]
        unfold readFreq
        cases hcache : s.cache with
        | none => rfl
        | some v => exact hI.2 v hcache
      have hI' : Inv G (readFreq G s).1 := by
        unfold readFreq
        cases hcache : s.cache with
        | none => exact ⟨hI.1, by intro v hv; simp at hv; exact hv.symm⟩
        | some v => exact hI
      have hfix : fixedOf (readFreq G s).1 = fixedOf s := by
        unfold readFreq; cases s.cache <;> rfl
      have hheld : (readFreq G s).1.held = s.held := by
        unfold readFreq; cases s.cache <;> rfl
      rw [hv, ih _ hI', hfix, hheld]
    | reset =>
      simp only [run, spec]
      have hI' : Inv G { s with cache := none } := ⟨hI.1, by intro v hv; simp at hv⟩
      exact ih _ hI'

/-- from the constructor on -/
theorem session_reads_from_init (G : Rat → List Rat) (p : List Stmt) (hd : checksFirst p = true) (hr : Retargets p)
    (inp : Inp) (userFs : Option Rat) (evs : List Ev) :
    run G p (init inp userFs) evs = spec G (hasCheck p) userFs inp evs := by
  rw [session_reads G p hd hr evs _ (inv_init G inp userFs)]
  cases userFs <;> rfl

/-- seeded change C05-10 (`method['Fs'] = input.sampling_rate`, THEN the check, then reset + swap): an analyzer on a
100 Hz series refuses a 250 Hz one, keeps the old input (id 0) — and reports the axis of the refused series -/
theorem write_before_check_session_counterexample (G : Rat → List Rat) :
    run G [.writeFs .new, .check, .reset, .setInput .new] (init ⟨100, 0⟩ none) [.setInput ⟨250, 1⟩ true, .readFreq]
      = [(G 250, 0)] ∧
    spec G true none ⟨100, 0⟩ [.setInput ⟨250, 1⟩ true, .readFreq] = [(G 100, 0)] ∧
    checksFirst [.writeFs .new, .check, .reset, .setInput .new] = false := by
  refine ⟨?_, ?_, by decide⟩ <;> simp [run, exec, init, pick, readFreq, spec]

/-- seeded change C09-10 (swap + refresh `method['Fs']`, check, roll back `self.input` only) -/
theorem swap_check_rollback_session_counterexample (G : Rat → List Rat) :
    run G [.save, .reset, .setInput .new, .writeFs .held, .check] (init ⟨100, 0⟩ none)
      [.readFreq, .setInput ⟨250, 1⟩ true, .readFreq] = [(G 100, 0), (G 250, 1)] ∧
    checksFirst [.save, .reset, .setInput .new, .writeFs .held, .check] = false := by
  refine ⟨?_, by decide⟩
  simp [run, exec, init, pick, readFreq]

/-! ### constructors -/

theorem ctor_no_check_not_raised (b keeps : Bool) : ∀ (p : List CStmt) (w : Bool), p.all (· != .check) = true →
    (ctorExec b keeps p w).2 = false := by
  intro p
  induction p with
  | nil => intros; rfl
  | cons a r ih =>
    intro w h
    have hr : r.all (· != .check) = true := by simp_all [List.all_cons]
    cases a with
    | check => simp [List.all_cons] at h
    | writeMethod => simp only [ctorExec]; exact ih _ hr

/-- **a refused construction leaves the caller's method dict as it was** when every possible raise of `__init__`
precedes every write into `self.method` (which may be the caller's own dict) -/
theorem refused_ctor_leaves_callers_dict (keeps : Bool) : ∀ (p : List CStmt) (w : Bool), cChecksFirst p = true →
    (ctorExec true keeps p w).2 = true → (ctorExec true keeps p w).1 = w := by
  intro p
  induction p with
  | nil => intro w _ h; simp [ctorExec] at h
  | cons a r ih =>
    intro w hc h
    cases a with
    | check => simp [ctorExec]
    | writeMethod =>
      simp only [ctorExec] at h
      rw [ctor_no_check_not_raised true keeps r _ (by simpa [cChecksFirst] using hc)] at h; cases h

/-- a class that works on a copy never writes through the caller's dict, refused or not -/
theorem copying_ctor_never_writes_callers_dict (b : Bool) : ∀ (p : List CStmt), (ctorExec b false p false).1 = false := by
  intro p
  induction p with
  | nil => rfl
  | cons a r ih =>
    cases a with
    | check =>
      simp only [ctorExec]
      cases b <;> simp [ih]
    | writeMethod => simpa [ctorExec] using ih

/-- the order of seeded change C05-10's constructor (fill `Fs`, `NFFT`, `n_overlap` into the dict, then validate) -/
theorem ctor_write_before_check_counterexample :
    ctorExec true true [.writeMethod, .writeMethod, .writeMethod, .check] false = (true, true) ∧
    cChecksFirst [.writeMethod, .writeMethod, .writeMethod, .check] = false := by
  decide

end Nitime.CohSession
