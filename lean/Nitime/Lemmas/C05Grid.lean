/-
Helper lemmas for C05: the counts the grid terms evaluate to, and the three general facts
"`linspace(0, Fs, N, endpoint=False)` is the two-sided grid", "`rfftfreq(N)·Fs` is the one-sided
grid", "`linspace(0, Fs/2, N/2+1)` is the one-sided grid when `N` is even", plus the band
selection lemma for sorted lists.
-/
import Nitime.Model.C05Grid
import Mathlib.Data.Rat.Floor
import Mathlib.Tactic.Ring
import Mathlib.Tactic.FieldSimp
import Mathlib.Tactic.Linarith
import Mathlib.Algebra.Order.Floor.Ring

namespace Nitime.C05

theorem ratFloor_eq (q : ℚ) : q.floor = ⌊q⌋ := rfl

/-! ### counts -/

/-- `N // 2 + 1` -/
theorem count_floordiv (N : ℕ) :
    ((((((N : ℚ) / ((2 : ℤ) : ℚ)).floor : ℤ) : ℚ) + ((1 : ℤ) : ℚ)).floor).toNat = N / 2 + 1 := by
  simp only [ratFloor_eq]
  have h : ⌊(N : ℚ) / ((2 : ℤ) : ℚ)⌋ = ((N / 2 : ℕ) : ℤ) := by
    have := Rat.floor_natCast_div_natCast N 2
    simpa using this
  rw [h]
  have : (((N / 2 : ℕ) : ℤ) : ℚ) + ((1 : ℤ) : ℚ) = (((N / 2 + 1 : ℕ) : ℤ) : ℚ) := by push_cast; ring
  rw [this, Int.floor_intCast]
  omega

/-- `int(n / 2 + 1)` -/
theorem count_int_half (N : ℕ) :
    ((((truncQ ((N : ℚ) / ((2 : ℤ) : ℚ) + ((1 : ℤ) : ℚ)) : ℤ) : ℚ)).floor).toNat = N / 2 + 1 := by
  have hpos : ¬ ((N : ℚ) / ((2 : ℤ) : ℚ) + ((1 : ℤ) : ℚ) < 0) := by
    have : (0 : ℚ) ≤ (N : ℚ) / ((2 : ℤ) : ℚ) := by positivity
    push_cast; linarith
  simp only [truncQ, if_neg hpos, ratFloor_eq, Int.floor_intCast]
  have h : ⌊(N : ℚ) / ((2 : ℤ) : ℚ) + ((1 : ℤ) : ℚ)⌋ = ((N / 2 + 1 : ℕ) : ℤ) := by
    have h1 : ((1 : ℤ) : ℚ) = ((1 : ℤ) : ℚ) := rfl
    rw [Int.floor_add_intCast]
    have := Rat.floor_natCast_div_natCast N 2
    have h2 : ⌊(N : ℚ) / ((2 : ℤ) : ℚ)⌋ = ((N / 2 : ℕ) : ℤ) := by simpa using this
    rw [h2]; push_cast; ring
  rw [h]; omega

theorem count_n (N : ℕ) : ((N : ℚ).floor).toNat = N := by
  simp [ratFloor_eq]

/-- `int(n)` used as a count -/
theorem count_int_n (N : ℕ) : ((((truncQ (N : ℚ) : ℤ) : ℚ)).floor).toNat = N := by
  have hpos : ¬ ((N : ℚ) < 0) := by
    have : (0 : ℚ) ≤ (N : ℚ) := by positivity
    linarith
  simp [truncQ, hpos, ratFloor_eq]

/-! ### the three general grid facts -/

theorem linspace_full_noendpoint_is_true (Fs : ℚ) (N : ℕ) :
    linspace 0 Fs N false = trueTwoSided Fs N := by
  unfold linspace trueTwoSided
  apply List.map_congr_left
  intro k _
  simp only [Bool.false_eq_true, if_false]
  ring

theorem rfftfreq_scaled_is_true (Fs : ℚ) (N : ℕ) :
    (rfftfreq N).map (· * Fs) = trueOneSided Fs N := by
  unfold rfftfreq trueOneSided
  rw [List.map_map]
  apply List.map_congr_left
  intro k _
  simp only [Function.comp]
  ring

/-- `linspace(0, Fs/2, N//2+1)` is the one-sided grid **for even N** -/
theorem linspace_half_is_true (Fs : ℚ) (N : ℕ) (hN : Even N) :
    linspace 0 (Fs / 2) (N / 2 + 1) true = trueOneSided Fs N := by
  obtain ⟨m, rfl⟩ := hN
  unfold linspace trueOneSided
  apply List.map_congr_left
  intro k _
  have h2 : (m + m) / 2 = m := by omega
  simp only [if_true, h2, Nat.add_sub_cancel]
  rcases Nat.eq_zero_or_pos m with rfl | hm
  · simp
  · have : (m : ℚ) ≠ 0 := by exact_mod_cast hm.ne'
    push_cast
    field_simp
    ring

/-- what `linspace(0, Fs/2, N//2+1)` is for every N: the one-sided grid of the even length `2⌊N/2⌋` -/
theorem linspace_half_eq (Fs : ℚ) (N : ℕ) :
    linspace 0 (Fs / 2) (N / 2 + 1) true = trueOneSided Fs (2 * (N / 2)) := by
  have h := linspace_half_is_true Fs (2 * (N / 2)) ⟨N / 2, by ring⟩
  have h2 : 2 * (N / 2) / 2 = N / 2 := by omega
  rw [h2] at h
  exact h

/-- `linspace(0, Fs/2, L, endpoint=False)` is the `freqz(worN = L)` grid in Hz -/
theorem linspace_half_noendpoint_is_freqz (Fs : ℚ) (L : ℕ) :
    linspace 0 (Fs / 2) L false = trueFreqz Fs L := by
  unfold linspace trueFreqz
  apply List.map_congr_left
  intro k _
  simp only [Bool.false_eq_true, if_false]
  rcases Nat.eq_zero_or_pos L with rfl | hL
  · simp
  · have : (L : ℚ) ≠ 0 := by exact_mod_cast hL.ne'
    field_simp
    ring

/-- `(fftshift(fftfreq(N)))·Fs`, written as `linspace(-(N//2)·Fs/N, …)`: the centred grid -/
theorem shifted_grid_formula (Fs : ℚ) (N : ℕ) :
    (List.range N).map (fun (k : ℕ) => ((k : ℚ) - ((N / 2 : ℕ) : ℚ)) * (1 / (N : ℚ)) * Fs)
      = trueShifted Fs N := by
  unfold trueShifted
  apply List.map_congr_left
  intro k _
  ring

/-! ### band selection on a sorted list -/

theorem searchLeft_le_iff (f : List ℚ) (hs : f.Pairwise (· ≤ ·)) (lb : ℚ) (k : ℕ) (hk : k < f.length) :
    searchLeft f lb ≤ k ↔ lb ≤ f[k] := by
  induction f generalizing k with
  | nil => simp at hk
  | cons x xs ih =>
    rw [List.pairwise_cons] at hs
    obtain ⟨hx, hxs⟩ := hs
    by_cases hlt : x < lb
    · have hc : searchLeft (x :: xs) lb = searchLeft xs lb + 1 := by
        simp [searchLeft, hlt]
      cases k with
      | zero => simp [hc, hlt]
      | succ k =>
        have hk' : k < xs.length := by simpa using hk
        rw [hc]
        simp only [List.getElem_cons_succ, Nat.add_le_add_iff_right]
        exact ih hxs k hk'
    · have hle : lb ≤ x := not_lt.mp hlt
      have hall : ∀ y ∈ xs, ¬ (y < lb) := fun y hy => not_lt.mpr (hle.trans (hx y hy))
      have hc : searchLeft (x :: xs) lb = 0 := by
        simp only [searchLeft, List.length_eq_zero_iff, List.filter_eq_nil_iff, List.mem_cons]
        rintro y (rfl | hy)
        · simpa using hlt
        · simpa using hall y hy
      rw [hc]
      simp only [Nat.zero_le, true_iff]
      cases k with
      | zero => simpa using hle
      | succ k =>
        have hk' : k < xs.length := by simpa using hk
        simp only [List.getElem_cons_succ]
        exact hle.trans (hx _ (List.getElem_mem hk'))

theorem lt_searchRight_iff (f : List ℚ) (hs : f.Pairwise (· ≤ ·)) (ub : ℚ) (k : ℕ) (hk : k < f.length) :
    k < searchRight f ub ↔ f[k] ≤ ub := by
  induction f generalizing k with
  | nil => simp at hk
  | cons x xs ih =>
    rw [List.pairwise_cons] at hs
    obtain ⟨hx, hxs⟩ := hs
    by_cases hle : x ≤ ub
    · have hc : searchRight (x :: xs) ub = searchRight xs ub + 1 := by
        simp [searchRight, hle]
      cases k with
      | zero => simp [hc, hle]
      | succ k =>
        have hk' : k < xs.length := by simpa using hk
        rw [hc]
        simp only [List.getElem_cons_succ, Nat.add_lt_add_iff_right]
        exact ih hxs k hk'
    · have hgt : ub < x := not_le.mp hle
      have hall : ∀ y ∈ xs, ¬ (y ≤ ub) := fun y hy => not_le.mpr (hgt.trans_le (hx y hy))
      have hc : searchRight (x :: xs) ub = 0 := by
        simp only [searchRight, List.length_eq_zero_iff, List.filter_eq_nil_iff, List.mem_cons]
        rintro y (rfl | hy)
        · simpa using hle
        · simpa using hall y hy
      rw [hc]
      simp only [Nat.not_lt_zero, false_iff]
      cases k with
      | zero => simpa using hle
      | succ k =>
        have hk' : k < xs.length := by simpa using hk
        simp only [List.getElem_cons_succ]
        exact hall _ (List.getElem_mem hk')

/-! ### `get_bounds` + slice = filter (sorted input) -/

theorem searchLeft_eq_zero_of_le {x : ℚ} {xs : List ℚ} {lb : ℚ} (hle : lb ≤ x) (hx : ∀ y ∈ xs, x ≤ y) :
    searchLeft (x :: xs) lb = 0 := by
  simp only [searchLeft, List.length_eq_zero_iff, List.filter_eq_nil_iff, List.mem_cons]
  rintro y (rfl | hy)
  · simpa using hle
  · simpa using hle.trans (hx y hy)

/-- on a sorted list the entries `≤ ub` are the first `searchRight f ub` ones -/
theorem take_searchRight_eq_filter (f : List ℚ) (hs : f.Pairwise (· ≤ ·)) (ub : ℚ) :
    f.take (searchRight f ub) = f.filter (· ≤ ub) := by
  induction f with
  | nil => simp [searchRight]
  | cons x xs ih =>
    rw [List.pairwise_cons] at hs
    obtain ⟨hx, hxs⟩ := hs
    by_cases hle : x ≤ ub
    · have hc : searchRight (x :: xs) ub = searchRight xs ub + 1 := by simp [searchRight, hle]
      rw [hc, List.take_succ_cons, ih hxs]
      simp [hle]
    · have hgt : ub < x := not_le.mp hle
      have hall : ∀ y ∈ x :: xs, ¬ (y ≤ ub) := by
        intro y hy
        rcases List.mem_cons.mp hy with rfl | hy
        · exact hle
        · exact not_le.mpr (hgt.trans_le (hx y hy))
      have hnil : (x :: xs).filter (· ≤ ub) = [] := by
        rw [List.filter_eq_nil_iff]; intro y hy; simpa using hall y hy
      have hc : searchRight (x :: xs) ub = 0 := by simp [searchRight, hnil]
      rw [hc, hnil]; rfl

/-- on a sorted list the entries `≥ lb` are what is left after dropping the first `searchLeft f lb` -/
theorem drop_searchLeft_eq_filter (f : List ℚ) (hs : f.Pairwise (· ≤ ·)) (lb : ℚ) :
    f.drop (searchLeft f lb) = f.filter (lb ≤ ·) := by
  induction f with
  | nil => simp [searchLeft]
  | cons x xs ih =>
    rw [List.pairwise_cons] at hs
    obtain ⟨hx, hxs⟩ := hs
    by_cases hlt : x < lb
    · have hc : searchLeft (x :: xs) lb = searchLeft xs lb + 1 := by simp [searchLeft, hlt]
      rw [hc, List.drop_succ_cons, ih hxs]
      simp [not_le.mpr hlt]
    · have hle : lb ≤ x := not_lt.mp hlt
      rw [searchLeft_eq_zero_of_le hle hx, List.drop_zero]
      symm
      rw [List.filter_eq_self]
      intro y hy
      rcases List.mem_cons.mp hy with rfl | hy
      · simpa using hle
      · simpa using hle.trans (hx y hy)

/-- **`get_bounds` is correct on sorted input**: `f[lb_idx:ub_idx]` with `lb_idx = searchsorted(f, lb,
'left')`, `ub_idx = searchsorted(f, ub, 'right')` is exactly the sub-list of entries with
`lb ≤ x ≤ ub` — in particular it is empty when `lb > ub` (the index slice is empty as soon as
`lb_idx ≥ ub_idx`, and no entry satisfies both inequalities). -/
theorem sliceBand_eq_filter (f : List ℚ) (hs : f.Pairwise (· ≤ ·)) (lb ub : ℚ) :
    sliceBand f lb (some ub) = f.filter (fun x => lb ≤ x ∧ x ≤ ub) := by
  simp only [sliceBand, getBounds]
  induction f with
  | nil => simp [searchLeft, searchRight]
  | cons x xs ih =>
    have hs' := hs
    rw [List.pairwise_cons] at hs'
    obtain ⟨hx, hxs⟩ := hs'
    by_cases hle : x ≤ ub
    · have hr : searchRight (x :: xs) ub = searchRight xs ub + 1 := by simp [searchRight, hle]
      rw [hr, List.take_succ_cons]
      by_cases hlt : x < lb
      · have hl : searchLeft (x :: xs) lb = searchLeft xs lb + 1 := by simp [searchLeft, hlt]
        rw [hl, List.drop_succ_cons, ih hxs]
        simp [not_le.mpr hlt]
      · have hlb : lb ≤ x := not_lt.mp hlt
        rw [searchLeft_eq_zero_of_le hlb hx, List.drop_zero, take_searchRight_eq_filter xs hxs ub]
        have : (x :: xs).filter (fun y => decide (lb ≤ y ∧ y ≤ ub))
            = x :: xs.filter (fun y => decide (lb ≤ y ∧ y ≤ ub)) := by simp [hlb, hle]
        rw [this]
        congr 1
        apply List.filter_congr
        intro y hy
        have : lb ≤ y := hlb.trans (hx y hy)
        simp [this]
    · have hgt : ub < x := not_le.mp hle
      have hall : ∀ y ∈ x :: xs, ¬ (y ≤ ub) := by
        intro y hy
        rcases List.mem_cons.mp hy with rfl | hy
        · exact hle
        · exact not_le.mpr (hgt.trans_le (hx y hy))
      have hnil : (x :: xs).filter (· ≤ ub) = [] := by
        rw [List.filter_eq_nil_iff]; intro y hy; simpa using hall y hy
      have hr : searchRight (x :: xs) ub = 0 := by simp [searchRight, hnil]
      rw [hr, List.take_zero, List.drop_nil]
      symm
      rw [List.filter_eq_nil_iff]
      intro y hy
      have := hall y hy
      simp [this]

/-- no upper bound (`ub=None`): everything from `lb` to the end -/
theorem sliceBand_none_eq_filter (f : List ℚ) (hs : f.Pairwise (· ≤ ·)) (lb : ℚ) :
    sliceBand f lb none = f.filter (lb ≤ ·) := by
  simp only [sliceBand, getBounds, List.take_length]
  exact drop_searchLeft_eq_filter f hs lb

/-- the index pair itself: `ub_idx - lb_idx` is the number of entries in the band whenever the band
is not inverted -/
theorem getBounds_correct (f : List ℚ) (hs : f.Pairwise (· ≤ ·)) (lb ub : ℚ) :
    (f.take (getBounds f lb (some ub)).2).drop (getBounds f lb (some ub)).1
      = f.filter (fun x => lb ≤ x ∧ x ≤ ub) :=
  sliceBand_eq_filter f hs lb ub

theorem trueOneSided_sorted (Fs : ℚ) (hFs : 0 ≤ Fs) (N : ℕ) :
    (trueOneSided Fs N).Pairwise (· ≤ ·) := by
  unfold trueOneSided
  rw [List.pairwise_map]
  refine List.Pairwise.imp ?_ List.pairwise_lt_range
  intro a b hab
  have h1 : (a : ℚ) ≤ (b : ℚ) := by exact_mod_cast hab.le
  have hN : (0 : ℚ) ≤ (N : ℚ) := by positivity
  exact div_le_div_of_nonneg_right (mul_le_mul_of_nonneg_right h1 hFs) hN

end Nitime.C05
