/-
From the `Array` folds of the model (`Nitime.C07.elim/fwd/lastDiv/bwd`) to the recurrences of
`Lemmas/Tridiag.lean` (`Tridi.Sweep`), and from there to `A·x = b`.
-/
import Nitime.Model.C07
import Nitime.Lemmas.Tridiag
namespace Nitime.Tridi
open Nitime.C07
variable {K : Type}

section basic
variable [Inhabited K]
omit [Inhabited K] in
theorem size_set (a : Array K) (i : Nat) (v : K) : (set a i v).size = a.size := by
  simp [set]
theorem get_set (a : Array K) (i j : Nat) (v : K) :
    get (set a i v) j = if i = j ∧ i < a.size then v else get a j := by
  simp only [get, set, Array.getD_eq_getD_getElem?, Array.getElem?_setIfInBounds]
  by_cases h : i = j
  · subst h
    by_cases h2 : i < a.size
    · simp [h2]
    · simp [h2]
  · simp [h]
end basic

theorem forUp_succ {σ : Type} (lo hi : Nat) (h : lo ≤ hi) (s : σ) (f : Nat → σ → σ) :
    forUp lo (hi + 1) s f = f hi (forUp lo hi s f) := by
  unfold forUp
  have : hi + 1 - lo = (hi - lo) + 1 := by omega
  rw [this, List.range'_concat, List.foldl_append]
  simp
  congr 1; omega
theorem forUp_self {σ : Type} (lo : Nat) (s : σ) (f : Nat → σ → σ) : forUp lo lo s f = s := by
  simp [forUp]
theorem forDown_succ {σ : Type} (cnt : Nat) (s : σ) (f : Nat → σ → σ) :
    forDown (cnt + 1) s f = forDown cnt (f cnt s) f := by
  unfold forDown
  rw [List.range_succ, List.reverse_append]; simp
theorem forDown_zero {σ : Type} (s : σ) (f : Nat → σ → σ) : forDown 0 s f = s := by
  simp [forDown]

section spec
variable [Field K]
/-- pivots δ -/
def delta (d e : ℕ → K) : ℕ → K
  | 0 => d 0
  | k + 1 => d (k + 1) - e k * (e k / delta d e k)
def ell (d e : ℕ → K) (k : ℕ) : K := e k / delta d e k
def yy (l b : ℕ → K) : ℕ → K
  | 0 => b 0
  | k + 1 => b (k + 1) - l k * yy l b k
theorem yy_congr (l l' b : ℕ → K) (n : ℕ) (h : ∀ k < n, l k = l' k) : yy l b n = yy l' b n := by
  induction n with
  | zero => rfl
  | succ n ih => simp only [yy]; rw [h n (by omega), ih (fun k hk => h k (by omega))]

variable [Inhabited K]

theorem elim_inv (s0 : St K) (N m : ℕ) (hm : m + 1 ≤ N) (hd : N ≤ s0.dw.size) (he : N ≤ s0.ew.size + 1) :
    let s := elim (m + 1) s0
    s.dw.size = s0.dw.size ∧ s.ew.size = s0.ew.size ∧ s.x = s0.x ∧
    (∀ i, get s.dw i = if i ≤ m then delta (get s0.dw) (get s0.ew) i else get s0.dw i) ∧
    (∀ i, get s.ew i = if i < m then ell (get s0.dw) (get s0.ew) i else get s0.ew i) := by
  induction m with
  | zero =>
    simp only [elim, forUp_self]
    refine ⟨trivial, trivial, trivial, ?_, ?_⟩
    · intro i; split_ifs with h
      · have : i = 0 := by omega
        subst this; rfl
      · rfl
    · intro i; simp
  | succ m ih =>
    have ih := ih (by omega)
    simp only at ih ⊢
    obtain ⟨h1, h2, h3, h4, h5⟩ := ih
    unfold elim at h1 h2 h3 h4 h5 ⊢
    rw [forUp_succ 1 (m + 1) (by omega)]
    set s := forUp 1 (m + 1) s0 _ with hs
    simp only [Nat.add_sub_cancel, size_set, h1, h2, h3, get_set, true_and]
    refine ⟨?_, ?_⟩
    · intro i
      have hlt : m < s0.ew.size := by omega
      have hlt2 : m + 1 < s0.dw.size := by omega
      simp only [hlt, hlt2, and_true, if_true]
      by_cases hi : m + 1 = i
      · subst hi
        simp only [if_true, le_refl]
        rw [h4 (m + 1), h5 m, h4 m]
        simp [delta]
      · simp only [hi, if_false]
        rw [h4 i]
        by_cases h6 : i ≤ m
        · simp [h6, Nat.le_succ_of_le h6]
        · have : ¬ i ≤ m + 1 := by omega
          simp [h6, this]
    · intro i
      have hlt : m < s0.ew.size := by omega
      simp only [hlt, and_true]
      by_cases hi : m = i
      · subst hi
        simp only [if_true]
        rw [h5 m, h4 m]; simp [ell]
      · simp only [hi, if_false]
        rw [h5 i]
        by_cases h6 : i < m
        · simp [h6, Nat.lt_succ_of_lt h6]
        · have : ¬ i < m + 1 := by omega
          simp [h6, this]

theorem fwd_inv (s1 : St K) (N m : ℕ) (hm : m + 1 ≤ N) (hx : N ≤ s1.x.size) :
    let s := fwd (m + 1) s1
    s.dw = s1.dw ∧ s.ew = s1.ew ∧ s.x.size = s1.x.size ∧
    (∀ i, get s.x i = if i ≤ m then yy (get s1.ew) (get s1.x) i else get s1.x i) := by
  induction m with
  | zero =>
    simp only [fwd, forUp_self]
    refine ⟨trivial, trivial, trivial, ?_⟩
    intro i; split_ifs with h
    · have : i = 0 := by omega
      subst this; rfl
    · rfl
  | succ m ih =>
    have ih := ih (by omega)
    simp only at ih ⊢
    obtain ⟨h1, h2, h3, h4⟩ := ih
    unfold fwd at h1 h2 h3 h4 ⊢
    rw [forUp_succ 1 (m + 1) (by omega)]
    set s := forUp 1 (m + 1) s1 _ with hs
    simp only [Nat.add_sub_cancel, size_set, h1, h2, h3, get_set, true_and]
    intro i
    have hlt : m + 1 < s1.x.size := by omega
    simp only [hlt, and_true]
    by_cases hi : m + 1 = i
    · subst hi
      simp only [if_true, le_refl]
      rw [h4 (m + 1), h4 m]
      simp [yy]
    · simp only [hi, if_false]
      rw [h4 i]
      by_cases h6 : i ≤ m
      · simp [h6, Nat.le_succ_of_le h6]
      · have : ¬ i ≤ m + 1 := by omega
        simp [h6, this]

theorem bwd_inv (cnt : ℕ) : ∀ (s : St K), cnt < s.x.size →
    let r := forDown cnt s fun k s =>
      { s with x := set s.x k (get s.x k / get s.dw k - get s.ew k * get s.x (k + 1)) }
    r.dw = s.dw ∧ r.ew = s.ew ∧ r.x.size = s.x.size ∧
    (∀ k, k < cnt → get r.x k = get s.x k / get s.dw k - get s.ew k * get r.x (k + 1)) ∧
    (∀ i, cnt ≤ i → get r.x i = get s.x i) := by
  induction cnt with
  | zero =>
    intro s _
    simp only [forDown_zero]
    exact ⟨trivial, trivial, trivial, fun k hk => absurd hk (Nat.not_lt_zero k), fun _ _ => trivial⟩
  | succ cnt ih =>
    intro s hs
    rw [forDown_succ]
    have := ih { s with x := set s.x cnt (get s.x cnt / get s.dw cnt - get s.ew cnt * get s.x (cnt + 1)) }
      (by simp only [size_set]; omega)
    simp only [size_set, get_set] at this ⊢
    obtain ⟨h1, h2, h3, h4, h5⟩ := this
    refine ⟨h1, h2, h3, ?_, ?_⟩
    · intro k hk
      by_cases hkc : k = cnt
      · subst hkc
        rw [h5 k le_rfl, h5 (k + 1) (by omega)]
        have : k < s.x.size := by omega
        simp [this]
      · rw [h4 k (by omega)]
        have : ¬ (cnt = k ∧ cnt < s.x.size) := fun h => hkc h.1.symm
        simp only [this, if_false]
    · intro i hi
      rw [h5 i (by omega)]
      have : ¬ (cnt = i ∧ cnt < s.x.size) := fun h => by omega
      simp only [this, if_false]

/-- the model's run, read as functions ℕ → K, satisfies the recurrences of `Tridi.Sweep` -/
theorem sweep_of_model (d e b : Array K) (hN : 1 ≤ b.size) (hd : b.size ≤ d.size)
    (he : b.size ≤ e.size + 1)
    (hp : ∀ k, k < b.size → get (pivots d e b) k ≠ 0) :
    (tridisolve d e b).size = b.size ∧
    _root_.Tridi.Sweep b.size (get d) (get e) (get b) (delta (get d) (get e)) (ell (get d) (get e))
      (yy (ell (get d) (get e)) (get b)) (get (tridisolve d e b)) := by
  obtain ⟨n, hn⟩ : ∃ n, b.size = n + 1 := ⟨b.size - 1, by omega⟩
  have E := elim_inv (K := K) ⟨d, e, b⟩ b.size n (by omega) hd he
  simp only at E
  rw [← hn] at E
  obtain ⟨e1, e2, e3, e4, e5⟩ := E
  set s1 := elim b.size ⟨d, e, b⟩ with hs1
  have F := fwd_inv s1 b.size n (by omega) (by rw [e3])
  simp only at F
  rw [← hn] at F
  obtain ⟨f1, f2, f3, f4⟩ := F
  set s2 := fwd b.size s1 with hs2
  have hx2 : s2.x.size = b.size := by rw [f3, e3]
  have B := bwd_inv (K := K) (b.size - 1) (lastDiv b.size s2) (by simp only [lastDiv, size_set]; omega)
  simp only at B
  obtain ⟨b1, b2, b3, b4, b5⟩ := B
  have hres : tridisolve d e b = (bwd b.size (lastDiv b.size s2)).x := rfl
  have hδ : ∀ k, k < b.size → get s2.dw k = delta (get d) (get e) k := by
    intro k hk; rw [f1, e4 k]; simp [show k ≤ n by omega]
  have hl : ∀ k, k + 1 < b.size → get s2.ew k = ell (get d) (get e) k := by
    intro k hk; rw [f2, e5 k]; simp [show k < n by omega]
  have hy : ∀ k, k < b.size → get s2.x k = yy (ell (get d) (get e)) (get b) k := by
    intro k hk; rw [f4 k]; simp only [show k ≤ n by omega, if_true, e3]
    apply yy_congr
    intro j hj; rw [e5 j]; simp [show j < n by omega]
  have hpiv : ∀ k, k < b.size → delta (get d) (get e) k ≠ 0 := by
    intro k hk
    have := hp k hk
    unfold pivots at this
    rw [← hs1, e4 k] at this
    simpa [show k ≤ n by omega] using this
  refine ⟨?_, ?_⟩
  · rw [hres]; unfold bwd; rw [b3]; simp only [lastDiv, size_set]; exact hx2
  · rw [hres]; unfold bwd
    refine ⟨rfl, fun k _ => rfl, ?_, rfl, ?_, ?_, ?_, hpiv⟩
    · intro k _; rfl
    · intro k _; rfl
    · rw [b5 (b.size - 1) le_rfl]
      simp only [lastDiv, get_set, hx2]
      have : b.size - 1 < b.size := by omega
      simp only [this, and_self, if_true]
      rw [hδ _ this, hy _ this]
    · intro k hk
      rw [b4 k (by omega)]
      simp only [lastDiv, get_set, hx2]
      have : ¬ (b.size - 1 = k ∧ b.size - 1 < b.size) := fun h => by omega
      simp only [this, if_false]
      rw [hδ k (by omega), hl k hk, hy k (by omega)]
end spec
end Nitime.Tridi
