/-
C20 — `utils.crosscov_vector` / `autocov_vector` (lagged averages), integer recordings (exact
embedding `ofInt`, the FFT path on integer lanes) and what truncating a lagged average to an
integer array does (the seeded change C11-8).  ℂ instance of the model text of `Model/C20.lean`.
-/
import Nitime.Model.C20
import Nitime.Lemmas.EvInst
import Nitime.Lemmas.C20Corr
import Nitime.Lemmas.C20Fft
import Nitime.Lemmas.C20Lanes

namespace Nitime.C20
open Finset Nitime.Ev
open scoped ComplexConjugate

/-! ### the embedding of integer samples -/

theorem ofInt_c (z : ℤ) : (ofInt z : ℂ) = (z : ℂ) := by
  unfold ofInt
  split_ifs with h
  · simp only [c_ofNat]
    have : ((z.toNat : ℤ)) = z := Int.toNat_of_nonneg h
    exact_mod_cast congrArg (fun t : ℤ => (t : ℂ)) this
  · simp only [c_sub, c_ofNat]
    have : (((-z).toNat : ℤ)) = -z := Int.toNat_of_nonneg (by omega)
    have h2 : (((-z).toNat : ℕ) : ℂ) = -(z : ℂ) := by
      exact_mod_cast congrArg (fun t : ℤ => (t : ℂ)) this
    rw [h2]; simp

theorem conj_ofInt (z : ℤ) : conj (ofInt z : ℂ) = ofInt z := by
  rw [ofInt_c]; exact map_intCast (starRingEnd ℂ) z

@[simp] theorem length_embed (x : List ℤ) : (embed x : List ℂ).length = x.length := by simp [embed]

theorem nth_embed (x : List ℤ) {n : ℕ} (h : n < x.length) : nth (embed x : List ℂ) n = ((x.getD n 0 : ℤ) : ℂ) := by
  unfold embed
  simp [nth, List.getD_eq_getElem?_getD, h, ofInt_c]

theorem nth_embed_of_le (x : List ℤ) {n : ℕ} (h : x.length ≤ n) : nth (embed x : List ℂ) n = 0 := by
  have hle : (embed x : List ℂ).length ≤ n := by simpa using h
  unfold nth
  rw [List.getD_eq_getElem?_getD, List.getElem?_eq_none hle]
  exact c_zero

theorem embed_real (x : List ℤ) : ∀ v ∈ (embed x : List ℂ), conj v = v := by
  intro v hv
  simp only [embed, List.mem_map] at hv
  obtain ⟨z, _, rfl⟩ := hv
  exact conj_ofInt z

/-- integer lanes through the code's FFT path (`fftconvolve`, real branch `ret.real`) = the direct sums -/
theorem crosscovInt_fft (x y : List ℤ) (al db nm : Bool) :
    crosscovFftCore twTable false (embed x) (embed y) al db nm = (crosscovInt x y al db nm : List ℂ) :=
  crosscovFft_eq false (embed x) (embed y) al db nm (fun _ => ⟨embed_real x, embed_real y⟩)

/-! ### `crosscov_vector` -/

theorem nth_crosscovVector (x y : List (List ℂ)) (nl : Option ℕ) {i j k : ℕ} (hi : i < x.length)
    (hj : j < y.length) (hk : k < nl.getD (x.headD []).length) :
    nth (((crosscovVector x y nl).getD i []).getD j []) k
      = (∑ t ∈ range ((x.headD []).length - k), nth (x.getD i []) (t + k) * conj (nth (y.getD j []) t))
          / (((x.headD []).length - k : ℕ) : ℂ) := by
  simp only [crosscovVector, List.getD_eq_getElem?_getD, List.getElem?_map, List.getElem?_eq_getElem hi,
    List.getElem?_eq_getElem hj, Option.map_some, Option.getD_some]
  rw [nth_tabulate _ hk]
  simp only [laggedAvg, sumRange_eq_c, c_div, c_mul, c_conj, c_ofNat]

theorem length_crosscovVector (x y : List (List ℂ)) (nl : Option ℕ) {i j : ℕ} (hi : i < x.length)
    (hj : j < y.length) :
    (crosscovVector x y nl).length = x.length ∧ ((crosscovVector x y nl).getD i []).length = y.length ∧
    (((crosscovVector x y nl).getD i []).getD j []).length = nl.getD (x.headD []).length := by
  simp [crosscovVector, List.getD_eq_getElem?_getD, List.getElem?_map, List.getElem?_eq_getElem hi,
    List.getElem?_eq_getElem hj]

/-! ### truncation to an integer array (what `np.empty(..., dtype=np.result_type(x, y))` stores) -/

/-- C conversion of a rational value to an integer: towards zero -/
def truncInt (q : Rat) : Int := Int.tdiv q.num q.den

/-- `crosscov_vector` of integer channels with the result array allocated in the INTEGER type of the
inputs (seeded change C11-8): every lagged average is truncated on assignment -/
def crosscovVectorTrunc (x y : List (List Int)) (nl : Option Nat) : List (List (List Int)) :=
  (crosscovVectorInt (K := Rat) x y nl).map fun r => r.map fun s => s.map truncInt

/-! ### `autocov` / `autocorr` along an axis -/

theorem length_autocov1 (l : List ℂ) (al db nm : Bool) :
    (autocov1 l al db nm).length = if al then 2 * l.length - 1 else l.length := by
  unfold autocov1
  have hp : (if db = true then removeBias l else l) = pre db l := rfl
  rw [hp]
  cases al
  · simpa using length_crosscov_clip (pre db l) (pre db l) rfl false nm
  · simpa using length_crosscov_all (pre db l) (pre db l) rfl false nm

end Nitime.C20
