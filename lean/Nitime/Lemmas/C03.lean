/-
Helper lemmas for C03: the numpy primitives of the model (`whereIdx`, `argmaxFirst`,
`argminFirst`, `pickMax`, `pickMin`, `afterLastEq`) meet their membership specifications.
-/
import Nitime.Model.C03
import Mathlib.Tactic.Linarith
import Mathlib.Tactic.Ring

namespace Nitime.C03

theorem getD_of_lt {α} (l : List α) (i : Nat) (d e : α) (h : i < l.length) : l.getD i d = l.getD i e := by
  simp [List.getD_eq_getElem?_getD, List.getElem?_eq_getElem h]

theorem mem_whereIdx (p : Int → Bool) (ts : List Int) (i : Nat) :
    i ∈ whereIdx p ts ↔ i < ts.length ∧ p (ts.getD i 0) = true := by
  simp [whereIdx, List.mem_filter, List.mem_range]

theorem whereIdx_sorted (p : Int → Bool) (ts : List Int) : (whereIdx p ts).Pairwise (· < ·) :=
  List.Pairwise.filter _ List.pairwise_lt_range

/-- `np.argmax`: in range, a maximum, and the first one -/
theorem argmaxFirst_spec : ∀ (l : List Int), l ≠ [] →
    argmaxFirst l < l.length ∧
    (∀ i, i < l.length → l.getD i 0 ≤ l.getD (argmaxFirst l) 0) ∧
    (∀ i, i < argmaxFirst l → l.getD i 0 < l.getD (argmaxFirst l) 0) := by
  intro l
  induction l with
  | nil => intro h; exact absurd rfl h
  | cons x xs ih =>
    intro _
    by_cases hxs : xs = []
    · subst hxs
      simp [argmaxFirst]
    · obtain ⟨hk, hmax, hfirst⟩ := ih hxs
      have hd : xs.getD (argmaxFirst xs) x = xs.getD (argmaxFirst xs) 0 := getD_of_lt _ _ _ _ hk
      by_cases hgt : xs.getD (argmaxFirst xs) 0 > x
      · have hv : argmaxFirst (x :: xs) = argmaxFirst xs + 1 := by
          simp only [argmaxFirst, hd, hgt, if_true]
        rw [hv]
        refine ⟨by simp; omega, ?_, ?_⟩
        · intro i hi
          cases i with
          | zero => simp only [List.getD_cons_zero, List.getD_cons_succ]; omega
          | succ j =>
            simp only [List.getD_cons_succ]
            exact hmax j (by simpa using hi)
        · intro i hi
          cases i with
          | zero => simp only [List.getD_cons_zero, List.getD_cons_succ]; omega
          | succ j =>
            simp only [List.getD_cons_succ]
            exact hfirst j (by omega)
      · have hv : argmaxFirst (x :: xs) = 0 := by
          simp only [argmaxFirst, hd, hgt, if_false]
        rw [hv]
        refine ⟨by simp, ?_, ?_⟩
        · intro i hi
          cases i with
          | zero => simp
          | succ j =>
            simp only [List.getD_cons_succ, List.getD_cons_zero]
            have := hmax j (by simpa using hi)
            omega
        · intro i hi; omega

/-- `np.argmin`: in range, a minimum, and the first one -/
theorem argminFirst_spec : ∀ (l : List Int), l ≠ [] →
    argminFirst l < l.length ∧
    (∀ i, i < l.length → l.getD (argminFirst l) 0 ≤ l.getD i 0) ∧
    (∀ i, i < argminFirst l → l.getD (argminFirst l) 0 < l.getD i 0) := by
  intro l
  induction l with
  | nil => intro h; exact absurd rfl h
  | cons x xs ih =>
    intro _
    by_cases hxs : xs = []
    · subst hxs
      simp [argminFirst]
    · obtain ⟨hk, hmin, hfirst⟩ := ih hxs
      have hd : xs.getD (argminFirst xs) x = xs.getD (argminFirst xs) 0 := getD_of_lt _ _ _ _ hk
      by_cases hlt : xs.getD (argminFirst xs) 0 < x
      · have hv : argminFirst (x :: xs) = argminFirst xs + 1 := by
          simp only [argminFirst, hd, hlt, if_true]
        rw [hv]
        refine ⟨by simp; omega, ?_, ?_⟩
        · intro i hi
          cases i with
          | zero => simp only [List.getD_cons_zero, List.getD_cons_succ]; omega
          | succ j =>
            simp only [List.getD_cons_succ]
            exact hmin j (by simpa using hi)
        · intro i hi
          cases i with
          | zero => simp only [List.getD_cons_zero, List.getD_cons_succ]; omega
          | succ j =>
            simp only [List.getD_cons_succ]
            exact hfirst j (by omega)
      · have hv : argminFirst (x :: xs) = 0 := by
          simp only [argminFirst, hd, hlt, if_false]
        rw [hv]
        refine ⟨by simp, ?_, ?_⟩
        · intro i hi
          cases i with
          | zero => simp
          | succ j =>
            simp only [List.getD_cons_succ, List.getD_cons_zero]
            have := hmin j (by simpa using hi)
            omega
        · intro i hi; omega

theorem sel_length (row : List Int) (pos : List Nat) : (sel row pos).length = pos.length := by
  simp [sel]

theorem sel_getD (row : List Int) (pos : List Nat) (p : Nat) (hp : p < pos.length) :
    (sel row pos).getD p 0 = row.getD (pos.getD p 0) 0 := by
  simp [sel, List.getD_eq_getElem?_getD, List.getElem?_eq_getElem hp]

/-- position of an element in a strictly increasing list is monotone -/
theorem pos_lt_of_sorted {cond : List Nat} (hs : cond.Pairwise (· < ·)) {p k : Nat}
    (hp : p < cond.length) (hk : k < cond.length) (h : cond.getD p 0 < cond.getD k 0) : p < k := by
  by_contra hn
  have hkp : k ≤ p := by omega
  rcases Nat.lt_or_eq_of_le hkp with hlt | heq
  · have := (List.pairwise_iff_getElem.mp hs) k p hk hp hlt
    simp [List.getD_eq_getElem?_getD, List.getElem?_eq_getElem hp, List.getElem?_eq_getElem hk] at h
    omega
  · subst heq; omega

theorem mem_getD {cond : List Nat} {i : Nat} (h : i ∈ cond) : ∃ p, p < cond.length ∧ cond.getD p 0 = i := by
  obtain ⟨p, hp, he⟩ := List.mem_iff_getElem.mp h
  exact ⟨p, hp, by simp [List.getD_eq_getElem?_getD, List.getElem?_eq_getElem hp, he]⟩

theorem getD_mem {cond : List Nat} {p : Nat} (hp : p < cond.length) : cond.getD p 0 ∈ cond := by
  simp [List.getD_eq_getElem?_getD, List.getElem?_eq_getElem hp]

theorem pickMax_none (ts : List Int) (cond : List Nat) : pickMax ts cond = none ↔ cond = [] := by
  cases cond <;> simp [pickMax]

theorem pickMin_none (ts : List Int) (cond : List Nat) : pickMin ts cond = none ↔ cond = [] := by
  cases cond <;> simp [pickMin]

/-- `cond[self[cond].argmax()]` is a member holding the largest value, and the first such -/
theorem pickMax_some (ts : List Int) (cond : List Nat) (hs : cond.Pairwise (· < ·)) (j : Nat)
    (h : pickMax ts cond = some j) :
    j ∈ cond ∧ (∀ i ∈ cond, ts.getD i 0 ≤ ts.getD j 0) ∧ (∀ i ∈ cond, i < j → ts.getD i 0 < ts.getD j 0) := by
  have hne : cond ≠ [] := by
    intro hc; rw [(pickMax_none ts cond).mpr hc] at h; cases h
  have hsel : sel ts cond ≠ [] := by
    intro hc; apply hne; have := sel_length ts cond; rw [hc] at this
    exact List.length_eq_zero_iff.mp this.symm
  obtain ⟨hk, hmax, hfirst⟩ := argmaxFirst_spec (sel ts cond) hsel
  rw [sel_length] at hk
  have hj : j = cond.getD (argmaxFirst (sel ts cond)) 0 := by
    have : cond.isEmpty = false := by cases cond <;> simp_all
    simp only [pickMax, this] at h
    exact (Option.some.inj h).symm
  refine ⟨hj ▸ getD_mem hk, ?_, ?_⟩
  · intro i hi
    obtain ⟨p, hp, he⟩ := mem_getD hi
    have := hmax p (by rw [sel_length]; exact hp)
    rw [sel_getD _ _ _ hp, sel_getD _ _ _ hk, he, ← hj] at this
    exact this
  · intro i hi hij
    obtain ⟨p, hp, he⟩ := mem_getD hi
    have hpk : p < argmaxFirst (sel ts cond) := pos_lt_of_sorted hs hp hk (by rw [he, ← hj]; exact hij)
    have := hfirst p hpk
    rw [sel_getD _ _ _ hp, sel_getD _ _ _ hk, he, ← hj] at this
    exact this

theorem pickMin_some (ts : List Int) (cond : List Nat) (hs : cond.Pairwise (· < ·)) (j : Nat)
    (h : pickMin ts cond = some j) :
    j ∈ cond ∧ (∀ i ∈ cond, ts.getD j 0 ≤ ts.getD i 0) ∧ (∀ i ∈ cond, i < j → ts.getD j 0 < ts.getD i 0) := by
  have hne : cond ≠ [] := by
    intro hc; rw [(pickMin_none ts cond).mpr hc] at h; cases h
  have hsel : sel ts cond ≠ [] := by
    intro hc; apply hne; have := sel_length ts cond; rw [hc] at this
    exact List.length_eq_zero_iff.mp this.symm
  obtain ⟨hk, hmin, hfirst⟩ := argminFirst_spec (sel ts cond) hsel
  rw [sel_length] at hk
  have hj : j = cond.getD (argminFirst (sel ts cond)) 0 := by
    have : cond.isEmpty = false := by cases cond <;> simp_all
    simp only [pickMin, this] at h
    exact (Option.some.inj h).symm
  refine ⟨hj ▸ getD_mem hk, ?_, ?_⟩
  · intro i hi
    obtain ⟨p, hp, he⟩ := mem_getD hi
    have := hmin p (by rw [sel_length]; exact hp)
    rw [sel_getD _ _ _ hp, sel_getD _ _ _ hk, he, ← hj] at this
    exact this
  · intro i hi hij
    obtain ⟨p, hp, he⟩ := mem_getD hi
    have hpk : p < argminFirst (sel ts cond) := pos_lt_of_sorted hs hp hk (by rw [he, ← hj]; exact hij)
    have := hfirst p hpk
    rw [sel_getD _ _ _ hp, sel_getD _ _ _ hk, he, ← hj] at this
    exact this

/-- `np.where(self == v)[0].max() + 1`: just after the last position holding `v` -/
theorem afterLastEq_spec (ts : List Int) (v : Int) (j : Nat) (hj : j < ts.length) (hv : ts.getD j 0 = v) :
    0 < afterLastEq ts v ∧ afterLastEq ts v ≤ ts.length ∧ ts.getD (afterLastEq ts v - 1) 0 = v ∧
    (∀ i, i < ts.length → ts.getD i 0 = v → i < afterLastEq ts v) := by
  have hmem : j ∈ whereIdx (fun x => decide (x = v)) ts := by
    rw [mem_whereIdx]; exact ⟨hj, decide_eq_true hv⟩
  have hsorted := whereIdx_sorted (fun x => decide (x = v)) ts
  cases hl : (whereIdx (fun x => decide (x = v)) ts).getLast? with
  | none =>
    rw [List.getLast?_eq_none_iff] at hl
    rw [hl] at hmem; exact absurd hmem (List.not_mem_nil)
  | some l =>
    obtain ⟨ys, hys⟩ := List.getLast?_eq_some_iff.mp hl
    have hlmem : l ∈ whereIdx (fun x => decide (x = v)) ts := by rw [hys]; simp
    rw [mem_whereIdx] at hlmem
    have hval : ts.getD l 0 = v := by simpa using hlmem.2
    have hle : ∀ i ∈ whereIdx (fun x => decide (x = v)) ts, i ≤ l := by
      intro i hi
      rw [hys] at hi hsorted
      rcases List.mem_append.mp hi with h1 | h1
      · have := (List.pairwise_append.mp hsorted).2.2 i h1 l (by simp)
        omega
      · simp at h1; omega
    have he : afterLastEq ts v = l + 1 := by simp [afterLastEq, hl]
    rw [he]
    refine ⟨by omega, by omega, by simpa using hval, ?_⟩
    intro i hi hiv
    have := hle i ((mem_whereIdx _ _ _).mpr ⟨hi, decide_eq_true hiv⟩)
    omega

end Nitime.C03
