/-
Lemmas about the `OneTime` machine (Model/OneTime.lean): everything here holds for every `Sem`
(the getters' bodies are uninterpreted).  Used by Props/C13 and Props/C14.  Core Lean only.
-/
import Nitime.Model.OneTime
namespace Nitime.OneTime

variable {V I : Type}

/-! ### from the Boolean checks to usable facts -/

theorem eff_default (spec : Spec) (g : Nat) (h : spec.length ≤ g) : eff spec g = noEff := by
  unfold eff; rw [List.getD_eq_getElem?_getD, List.getElem?_eq_none h]; rfl

theorem allG_spec {spec : Spec} {f : Nat → Eff → Bool} (h : allG spec f = true) (g : Nat)
    (hg : g < spec.length) : f g (eff spec g) = true := by
  unfold allG at h
  rw [List.all_eq_true] at h
  exact h g (List.mem_range.2 hg)

/-- getters are listed after the getters they read -/
def Sorted (spec : Spec) : Prop := ∀ g d, d ∈ (eff spec g).deps → d < g

theorem sorted_of_B {spec : Spec} (h : sortedB spec = true) : Sorted spec := by
  intro g d hd
  by_cases hg : g < spec.length
  · have := allG_spec h g hg
    rw [List.all_eq_true] at this
    exact of_decide_eq_true (this d hd)
  · rw [eff_default spec g (Nat.le_of_not_lt hg)] at hd
    simp [noEff] at hd

structure NoClobber (spec : Spec) : Prop where
  cache : ∀ g, (eff spec g).clobbers = []
  input : ∀ g, (eff spec g).clobbersInput = false

theorem noClobber_of_B {spec : Spec} (h : noClobberB spec = true) : NoClobber spec := by
  have key : ∀ g, (eff spec g).clobbers = [] ∧ (eff spec g).clobbersInput = false := by
    intro g
    by_cases hg : g < spec.length
    · have := allG_spec h g hg
      simp only [Bool.and_eq_true, List.isEmpty_iff, Bool.not_eq_true'] at this
      exact this
    · rw [eff_default spec g (Nat.le_of_not_lt hg)]; exact ⟨rfl, rfl⟩
  exact ⟨fun g => (key g).1, fun g => (key g).2⟩

/-- the side condition of the order-independence theorem -/
structure NoInterference (spec : Spec) (present : List Nat) : Prop where
  sorted : Sorted spec
  noClobber : NoClobber spec
  writes : ∀ g g', g ≠ g' → ∀ p ∈ (eff spec g).writes, p ∉ (eff spec g').reads
  dwrites : ∀ g g', g ≠ g' → ∀ p ∈ (eff spec g).dwrites, p ∈ (eff spec g').reads → p ∈ present

theorem eff_default_lists (spec : Spec) (g : Nat) (h : ¬ g < spec.length) :
    (eff spec g).reads = [] ∧ (eff spec g).writes = [] ∧ (eff spec g).dwrites = [] := by
  rw [eff_default spec g (Nat.le_of_not_lt h)]; exact ⟨rfl, rfl, rfl⟩

theorem noInterference_of_B {spec : Spec} {present : List Nat}
    (h : noInterferenceB spec present = true) : NoInterference spec present := by
  unfold noInterferenceB at h
  simp only [Bool.and_eq_true] at h
  obtain ⟨⟨h1, h2⟩, h3⟩ := h
  refine ⟨sorted_of_B h1, noClobber_of_B h2, ?_, ?_⟩
  · intro g g' hne p hp hp'
    by_cases hg : g < spec.length
    · by_cases hg' : g' < spec.length
      · have := allG_spec (allG_spec h3 g hg) g' hg'
        simp only [Bool.or_eq_true, beq_iff_eq, Bool.and_eq_true, List.all_eq_true] at this
        rcases this with e | ⟨hw, _⟩
        · exact hne e
        · have := hw p hp
          simp only [Bool.not_eq_true', List.contains_eq_mem, decide_eq_false_iff_not] at this
          exact this hp'
      · rw [(eff_default_lists spec g' hg').1] at hp'; simp at hp'
    · rw [(eff_default_lists spec g hg).2.1] at hp; simp at hp
  · intro g g' hne p hp hp'
    by_cases hg : g < spec.length
    · by_cases hg' : g' < spec.length
      · have := allG_spec (allG_spec h3 g hg) g' hg'
        simp only [Bool.or_eq_true, beq_iff_eq, Bool.and_eq_true, List.all_eq_true] at this
        rcases this with e | ⟨_, hd⟩
        · exact absurd e hne
        · have := hd p hp
          simp only [Bool.not_eq_true', List.contains_eq_mem,
            decide_eq_false_iff_not, decide_eq_true_eq] at this
          rcases this with h | h
          · exact absurd hp' h
          · exact h
      · rw [(eff_default_lists spec g' hg').1] at hp'; simp at hp'
    · rw [(eff_default_lists spec g hg).2.2] at hp; simp at hp

/-! ### structural lemmas (no side condition beyond `Sorted`) -/

theorem readDeps_preserves (P : St V I → Prop) (rd : Nat → St V I → St V I × Option V) :
    ∀ (ds : List Nat), (∀ d ∈ ds, ∀ s, P s → P (rd d s).1) → ∀ s, P s → P (readDeps rd ds s).1 := by
  intro ds
  induction ds with
  | nil => intro _ s hs; exact hs
  | cons d ds ih =>
    intro hrd s hs
    have h1 : P (rd d s).1 := hrd d (List.mem_cons_self) s hs
    have ih' := ih (fun d' hd' => hrd d' (List.mem_cons_of_mem _ hd')) (rd d s).1 h1
    unfold readDeps
    split
    · next s1 heq => rw [heq] at h1; exact h1
    · next s1 v heq =>
      rw [heq] at ih'
      split
      · next s2 heq2 => rw [heq2] at ih'; exact ih'
      · next s2 vs heq2 => rw [heq2] at ih'; exact ih'

/-- reading `g` leaves un-fired every later getter (`Sorted` tables) -/
theorem readF_frame (spec : Spec) (sem : Sem V I) (hS : Sorted spec) :
    ∀ fuel g s k, g < k → s.cache k = none → (readF spec sem fuel g s).1.cache k = none := by
  intro fuel
  induction fuel with
  | zero => intro g s k _ hk; exact hk
  | succ fuel ih =>
    intro g s k hgk hk
    unfold readF
    split
    · exact hk
    · have hd : (readDeps (readF spec sem fuel) (eff spec g).deps s).1.cache k = none :=
        readDeps_preserves (fun s => s.cache k = none) _ _
          (fun d hd s hs => ih d s k (Nat.lt_trans (hS g d hd) hgk) hs) s hk
      split
      · next s1 heq => rw [heq] at hd; exact hd
      · next s1 dvs heq =>
        rw [heq] at hd
        dsimp only
        split
        · exact hd
        · simp only [fire]
          have : k ≠ g := Nat.ne_of_gt hgk
          simp only [this, if_false]
          split
          · simp at hd; rw [hd]; rfl
          · exact hd

/-- an invariant that every firing preserves is preserved by every read -/
theorem readF_preserves (spec : Spec) (sem : Sem V I) (hS : Sorted spec) (P : St V I → Prop)
    (hfire : ∀ g dvs pvs v s, P s → s.cache g = none → P (fire sem (eff spec g) g dvs pvs v s)) :
    ∀ fuel g s, P s → P (readF spec sem fuel g s).1 := by
  intro fuel
  induction fuel with
  | zero => intro g s hs; exact hs
  | succ fuel ih =>
    intro g s hs
    unfold readF
    split
    · exact hs
    · next hmiss =>
      have hd : (fun s => P s ∧ s.cache g = none) (readDeps (readF spec sem fuel) (eff spec g).deps s).1 :=
        readDeps_preserves (fun s => P s ∧ s.cache g = none) _ _
          (fun d hd s hs => ⟨ih d s hs.1, readF_frame spec sem hS fuel d s g (hS g d hd) hs.2⟩) s ⟨hs, hmiss⟩
      split
      · next s1 heq => rw [heq] at hd; exact hd.1
      · next s1 dvs heq =>
        rw [heq] at hd
        dsimp only
        split
        · exact hd.1
        · exact hfire g dvs _ _ s1 hd.1 hd.2

theorem run_preserves (spec : Spec) (sem : Sem V I) (P : St V I → Prop)
    (hread : ∀ g s, P s → P (read spec sem g s).1) : ∀ h s, P s → P (run spec sem h s) := by
  intro h
  induction h with
  | nil => intro s hs; exact hs
  | cons g h ih => intro s hs; exact ih _ (hread g s hs)

/-- a successful read leaves the value stored under the getter's name -/
theorem readF_stores (spec : Spec) (sem : Sem V I) (fuel g : Nat) (s : St V I) (v : V)
    (h : (readF spec sem fuel g s).2 = some v) : (readF spec sem fuel g s).1.cache g = some v := by
  cases fuel with
  | zero => simp [readF] at h
  | succ fuel =>
    unfold readF at h ⊢
    split
    · next w hw => simp only [hw] at h; rw [hw]; simpa using h
    · next hmiss =>
      simp only [hmiss] at h
      split
      · next s1 heq => simp only [heq] at h; simp at h
      · next s1 dvs heq =>
        simp only [heq] at h
        dsimp only at h ⊢
        split
        · next hr => simp [hr] at h
        · next hr =>
          simp only [hr] at h
          simp only [Bool.false_eq_true, if_false, Option.some.injEq] at h
          simp [fire, h]

/-! ### the value every read returns -/

/-- all values present, in order -/
def allSome : List (Option V) → Option (List V)
  | [] => some []
  | none :: _ => none
  | some v :: l => match allSome l with
    | none => none
    | some vs => some (v :: vs)

/-- the outcome of reading getter `g` on a freshly built object — `some v`, or `none` when the getter
    (or one of the getters it reads) raises — by recursion over the dependency order -/
def ideal (spec : Spec) (sem : Sem V I) (cp : Nat → Option V) (x : I) (g : Nat) : Option V :=
  match allSome (((eff spec g).deps.filter (· < g)).attach.map fun d => ideal spec sem cp x d.1) with
  | none => none
  | some dvs =>
    if sem.raises g dvs ((eff spec g).reads.map cp) (inputArg (eff spec g) x) then none
    else some (sem.F g dvs ((eff spec g).reads.map cp) (inputArg (eff spec g) x))
termination_by g
decreasing_by
  have := d.2
  simp only [List.mem_filter, decide_eq_true_eq] at this
  exact this.2

theorem ideal_eq (spec : Spec) (sem : Sem V I) (cp : Nat → Option V) (x : I) (hS : Sorted spec)
    (g : Nat) : ideal spec sem cp x g =
      match allSome ((eff spec g).deps.map (ideal spec sem cp x)) with
      | none => none
      | some dvs =>
        if sem.raises g dvs ((eff spec g).reads.map cp) (inputArg (eff spec g) x) then none
        else some (sem.F g dvs ((eff spec g).reads.map cp) (inputArg (eff spec g) x)) := by
  rw [ideal]
  have h1 : ∀ (l : List Nat) (f : Nat → Option V), (l.attach.map fun d => f d.1) = l.map f := by
    intro l f; simp
  rw [h1]
  have h2 : (eff spec g).deps.filter (· < g) = (eff spec g).deps :=
    List.filter_eq_self.2 (fun d hd => by simp [hS g d hd])
  rw [h2]

/-- what the getters cannot tell apart.  `norm p` maps the values of slot `p` to a canonical form
    (e.g. `None` and the default it stands for to the same thing); the getters' bodies see their
    parameters only through it, and a fill-if-missing write of a `benign` slot stores a value that is
    canonically the missing one.  With `norm = id`, `benign = []` this says nothing. -/
structure Blind (spec : Spec) (sem : Sem V I) (norm : Nat → Option V → Option V) (benign : List Nat) :
    Prop where
  F_congr : ∀ g (f f' : Nat → Option V), (∀ p ∈ (eff spec g).reads, norm p (f p) = norm p (f' p)) →
    ∀ dvs x, sem.F g dvs ((eff spec g).reads.map f) x = sem.F g dvs ((eff spec g).reads.map f') x
  raises_congr : ∀ g (f f' : Nat → Option V), (∀ p ∈ (eff spec g).reads, norm p (f p) = norm p (f' p)) →
    ∀ dvs x, sem.raises g dvs ((eff spec g).reads.map f) x = sem.raises g dvs ((eff spec g).reads.map f') x
  fill : ∀ g p dvs pvs x, p ∈ benign → norm p (some (sem.W g p dvs pvs x)) = norm p none

theorem blind_id (spec : Spec) (sem : Sem V I) : Blind spec sem (fun _ o => o) [] :=
  ⟨fun g f f' h dvs x => by rw [List.map_congr_left h],
   fun g f f' h dvs x => by rw [List.map_congr_left h],
   fun _ _ _ _ _ h => by simp at h⟩

structure InvN (norm : Nat → Option V → Option V) (spec : Spec) (sem : Sem V I) (cp : Nat → Option V)
    (x : I) (present : List Nat) (s : St V I) : Prop where
  input : s.input = x
  params : ∀ g, s.cache g = none → ∀ p ∈ (eff spec g).reads, norm p (s.params p) = norm p (cp p)
  cache : ∀ g v, s.cache g = some v → ideal spec sem cp x g = some v
  present : ∀ p ∈ present, (s.params p).isSome = true

/-- the invariant with parameter values compared exactly -/
abbrev Inv (spec : Spec) (sem : Sem V I) (cp : Nat → Option V) (x : I) (present : List Nat)
    (s : St V I) : Prop := InvN (fun _ o => o) spec sem cp x present s

theorem readDeps_correct (norm : Nat → Option V → Option V) (spec : Spec) (sem : Sem V I)
    (cp : Nat → Option V) (x : I)
    (present : List Nat) (g : Nat) (rd : Nat → St V I → St V I × Option V) :
    ∀ (ds : List Nat),
      (∀ d ∈ ds, ∀ s, InvN norm spec sem cp x present s →
        InvN norm spec sem cp x present (rd d s).1 ∧ (rd d s).2 = ideal spec sem cp x d) →
      (∀ d ∈ ds, ∀ s, s.cache g = none → (rd d s).1.cache g = none) →
      ∀ s, InvN norm spec sem cp x present s → s.cache g = none →
        InvN norm spec sem cp x present (readDeps rd ds s).1 ∧ (readDeps rd ds s).1.cache g = none ∧
        (readDeps rd ds s).2 = allSome (ds.map (ideal spec sem cp x)) := by
  intro ds
  induction ds with
  | nil => intro _ _ s hs hg; exact ⟨hs, hg, rfl⟩
  | cons d ds ih =>
    intro hrd hfr s hs hg
    have h1 := hrd d List.mem_cons_self s hs
    have f1 := hfr d List.mem_cons_self s hg
    have ih' := ih (fun d' hd' => hrd d' (List.mem_cons_of_mem _ hd'))
      (fun d' hd' => hfr d' (List.mem_cons_of_mem _ hd')) (rd d s).1 h1.1 f1
    unfold readDeps
    split
    · next s1 heq =>
      rw [heq] at h1 f1
      refine ⟨h1.1, f1, ?_⟩
      simp only [List.map_cons, ← h1.2, allSome]
    · next s1 v heq =>
      rw [heq] at ih' h1
      split
      · next s2 heq2 =>
        rw [heq2] at ih'
        refine ⟨ih'.1, ih'.2.1, ?_⟩
        simp only [List.map_cons, ← h1.2, allSome, ← ih'.2.2]
      · next s2 vs heq2 =>
        rw [heq2] at ih'
        refine ⟨ih'.1, ih'.2.1, ?_⟩
        simp only [List.map_cons, ← h1.2, allSome, ← ih'.2.2]

/-- MAIN LEMMA.  From any state satisfying the invariant (in particular a fresh object, or an
    object after any history of reads — successful or raising), a read with sufficient budget has
    the ideal outcome (the ideal value, or an exception exactly when the fresh read raises) and
    re-establishes the invariant.  Parameter values are compared up to `norm`; fill-if-missing
    writes of `benign` slots are allowed even when `__init__` left the slot empty. -/
theorem readF_correctN (norm : Nat → Option V → Option V) (benign : List Nat)
    (spec : Spec) (sem : Sem V I) (cp : Nat → Option V) (x : I)
    (present : List Nat) (hN : NoInterference spec (present ++ benign))
    (hB : Blind spec sem norm benign) :
    ∀ fuel g s, g < fuel → InvN norm spec sem cp x present s →
      InvN norm spec sem cp x present (readF spec sem fuel g s).1 ∧
      (readF spec sem fuel g s).2 = ideal spec sem cp x g := by
  intro fuel
  induction fuel with
  | zero => intro g s h; exact absurd h (Nat.not_lt_zero _)
  | succ fuel ih =>
    intro g s hg hs
    unfold readF
    split
    · next v hv => exact ⟨hs, (hs.cache g v hv).symm⟩
    · next hmiss =>
      have hd := readDeps_correct norm spec sem cp x present g (readF spec sem fuel) (eff spec g).deps
        (fun d hd s hs => ih d s (Nat.lt_of_lt_of_le (hN.sorted g d hd) (Nat.le_of_lt_succ hg)) hs)
        (fun d hd s hs => readF_frame spec sem hN.sorted fuel d s g (hN.sorted g d hd) hs) s hs hmiss
      have hid := ideal_eq spec sem cp x hN.sorted g
      split
      · next s1 heq =>
        rw [heq] at hd
        obtain ⟨hI, _, hv⟩ := hd
        refine ⟨hI, ?_⟩
        rw [hid, ← hv]
      · next s1 dvs heq =>
        rw [heq] at hd
        obtain ⟨hI, hgn, hv⟩ := hd
        have hin : s1.input = x := hI.input
        have hF := hB.F_congr g s1.params cp (fun p hp => hI.params g hgn p hp) dvs
          (inputArg (eff spec g) x)
        have hRz := hB.raises_congr g s1.params cp (fun p hp => hI.params g hgn p hp) dvs
          (inputArg (eff spec g) x)
        rw [← hv] at hid
        dsimp only at hid ⊢
        rw [hin, hRz, hF]
        split
        · next hr =>
          refine ⟨hI, ?_⟩
          rw [hid]; simp [hr]
        · next hr =>
          have hval : ideal spec sem cp x g = some (sem.F g dvs ((eff spec g).reads.map cp)
              (inputArg (eff spec g) x)) := by rw [hid]; simp [hr]
          refine ⟨⟨?_, ?_, ?_, ?_⟩, hval.symm⟩
          · simp only [fire, hN.noClobber.input g]; exact hin
          · intro g' hg' p hp
            have hne : g' ≠ g := by
              intro e; subst e; simp [fire] at hg'
            have hg1 : s1.cache g' = none := by
              simp only [fire, hne, if_false, hN.noClobber.cache g] at hg'
              simpa using hg'
            have hw : (eff spec g).writes.contains p = false := by
              simp only [List.contains_eq_mem, decide_eq_false_iff_not]
              exact fun h => hN.writes g g' (Ne.symm hne) p h hp
            have hold := hI.params g' hg1 p hp
            simp only [fire, hw]
            by_cases hc : p ∈ (eff spec g).dwrites
            · cases hsp : s1.params p with
              | some w => simp [hsp] at hold ⊢; exact hold
              | none =>
                rcases List.mem_append.1 (hN.dwrites g g' (Ne.symm hne) p hc hp) with h1 | h1
                · have := hI.present p h1
                  rw [hsp] at this; simp at this
                · rw [hsp] at hold
                  simp only [List.contains_eq_mem, hc, decide_true, Option.isNone_none, Bool.and_self,
                    Bool.false_eq_true, if_false, if_true]
                  rw [hB.fill g p _ _ _ h1]
                  exact hold
            · simp [hc]; exact hold
          · intro g' v' hv'
            by_cases e : g' = g
            · subst e
              simp only [fire, if_true, Option.some.injEq] at hv'
              rw [← hv', hval]
            · simp only [fire, e, if_false, hN.noClobber.cache g] at hv'
              exact hI.cache g' v' (by simpa using hv')
          · intro p hp
            have := hI.present p hp
            simp only [fire]
            split
            · rfl
            · split
              · rfl
              · exact this

/-- the main lemma with parameter values compared exactly (no benign slots) -/
theorem readF_correct (spec : Spec) (sem : Sem V I) (cp : Nat → Option V) (x : I)
    (present : List Nat) (hN : NoInterference spec present) :
    ∀ fuel g s, g < fuel → Inv spec sem cp x present s →
      Inv spec sem cp x present (readF spec sem fuel g s).1 ∧
      (readF spec sem fuel g s).2 = ideal spec sem cp x g :=
  readF_correctN (fun _ o => o) [] spec sem cp x present (by simpa using hN) (blind_id spec sem)

theorem run_invN (norm : Nat → Option V → Option V) (benign : List Nat)
    (spec : Spec) (sem : Sem V I) (cp : Nat → Option V) (x : I)
    (present : List Nat) (hN : NoInterference spec (present ++ benign))
    (hB : Blind spec sem norm benign) :
    ∀ h s, InvN norm spec sem cp x present s → InvN norm spec sem cp x present (run spec sem h s) :=
  run_preserves spec sem _ (fun g s hs => (readF_correctN norm benign spec sem cp x present hN hB
    (g + 1) g s (Nat.lt_succ_self g) hs).1)

theorem run_inv (spec : Spec) (sem : Sem V I) (cp : Nat → Option V) (x : I)
    (present : List Nat) (hN : NoInterference spec present) :
    ∀ h s, Inv spec sem cp x present s → Inv spec sem cp x present (run spec sem h s) :=
  run_preserves spec sem _ (fun g s hs => (readF_correct spec sem cp x present hN (g + 1) g s
    (Nat.lt_succ_self g) hs).1)

theorem construct_inv (spec : Spec) (sem : Sem V I) (dv : List Nat) (cp : Nat → Option V) (x : I)
    (present : List Nat) (hp : ∀ p ∈ present, ((construct sem dv cp x).params p).isSome = true) :
    Inv spec sem (construct sem dv cp x).params x present (construct sem dv cp x) :=
  ⟨rfl, fun _ _ _ _ => rfl, fun g v h => by simp [construct] at h, hp⟩

/-! ### exceptions and in-place rewrites, one step at a time (no side condition) -/

/-- reading attributes that are all stored already changes nothing -/
theorem readDeps_cached (spec : Spec) (sem : Sem V I) (fuel : Nat) :
    ∀ (ds : List Nat) (s : St V I), (∀ d ∈ ds, (s.cache d).isSome = true) →
      (readDeps (readF spec sem fuel) ds s).1 = s := by
  intro ds
  induction ds with
  | nil => intro s _; rfl
  | cons d ds ih =>
    intro s h
    have hd : (readF spec sem fuel d s).1 = s := by
      cases fuel with
      | zero => rfl
      | succ f =>
        have := h d List.mem_cons_self
        unfold readF
        split
        · rfl
        · next hm => rw [hm] at this; simp at this
    have ih' := ih s (fun d' hd' => h d' (List.mem_cons_of_mem _ hd'))
    unfold readDeps
    split
    · next s1 heq => rw [heq] at hd; exact hd
    · next s1 v heq =>
      rw [heq] at hd
      simp only at hd
      subst hd
      split
      · next s2 heq2 => rw [heq2] at ih'; exact ih'
      · next s2 vs heq2 => rw [heq2] at ih'; exact ih'

/-- A read that ends in an exception stores nothing under the getter's name (dependency-ordered
    tables): the next read runs the getter again. -/
theorem failed_read_stores_nothing (spec : Spec) (sem : Sem V I) (hS : Sorted spec) (g : Nat)
    (s : St V I) (h : (read spec sem g s).2 = none) : (read spec sem g s).1.cache g = none := by
  unfold read readF at h ⊢
  split
  · next v hv => simp [hv] at h
  · next hmiss =>
    simp only [hmiss] at h
    have hd : (readDeps (readF spec sem g) (eff spec g).deps s).1.cache g = none :=
      readDeps_preserves (fun s => s.cache g = none) _ _
        (fun d hd s hs => readF_frame spec sem hS g d s g (hS g d hd) hs) s hmiss
    split
    · next s1 heq => rw [heq] at hd; exact hd
    · next s1 dvs heq =>
      rw [heq] at hd
      simp only [heq] at h
      dsimp only at h ⊢
      split
      · exact hd
      · next hr => simp [hr] at h

/-- When everything the getter reads is stored already, a raising read leaves the whole object
    exactly as it was (no table condition at all). -/
theorem failed_read_changes_nothing (spec : Spec) (sem : Sem V I) (g : Nat) (s : St V I)
    (hdeps : ∀ d ∈ (eff spec g).deps, (s.cache d).isSome = true)
    (h : (read spec sem g s).2 = none) : (read spec sem g s).1 = s := by
  have hc := readDeps_cached spec sem g (eff spec g).deps s hdeps
  unfold read readF at h ⊢
  split
  · rfl
  · next hmiss =>
    simp only [hmiss] at h
    split
    · next s1 heq => rw [heq] at hc; exact hc
    · next s1 dvs heq =>
      rw [heq] at hc
      simp only at hc
      subst hc
      simp only [heq] at h
      dsimp only at h ⊢
      split
      · rfl
      · next hr => simp [hr] at h

theorem readDeps_cached_some (spec : Spec) (sem : Sem V I) (fuel : Nat) :
    ∀ (ds : List Nat) (s : St V I), (0 < fuel ∨ ds = []) → (∀ d ∈ ds, (s.cache d).isSome = true) →
      ∃ vs, readDeps (readF spec sem fuel) ds s = (s, some vs) := by
  intro ds
  induction ds with
  | nil => intro s _ _; exact ⟨[], rfl⟩
  | cons d ds ih =>
    intro s hf h
    have hpos : 0 < fuel := by
      rcases hf with h1 | h1
      · exact h1
      · simp at h1
    obtain ⟨f, rfl⟩ : ∃ f, fuel = f + 1 := ⟨fuel - 1, by omega⟩
    obtain ⟨w, hw⟩ := Option.isSome_iff_exists.1 (h d List.mem_cons_self)
    have e1 : readF spec sem (f + 1) d s = (s, some w) := by
      unfold readF; simp [hw]
    obtain ⟨vs, e2⟩ := ih s (Or.inl hpos) (fun d' hd' => h d' (List.mem_cons_of_mem _ hd'))
    refine ⟨w :: vs, ?_⟩
    unfold readDeps
    rw [e1]
    simp only
    rw [e2]

/-- INTERFERENCE IS OBSERVABLE, one step.  If getter `g` rewrites the stored result `k` in place
    (`k ∈ clobbers g`), `k` has been handed out, `g` has not run, everything `g` reads is stored and
    `g` does not raise, then after reading `g` the object holds `C g k v` under `k`: whenever the
    rewrite is not the identity on that value, the result already handed out has changed and every
    later read of `k` returns the changed value.  No condition on the rest of the table beyond the
    dependency order. -/
theorem clobber_observable (spec : Spec) (sem : Sem V I) (hS : Sorted spec) (g k : Nat)
    (s : St V I) (v : V)
    (hk : s.cache k = some v) (hg : s.cache g = none) (hkg : k ∈ (eff spec g).clobbers)
    (hdeps : ∀ d ∈ (eff spec g).deps, (s.cache d).isSome = true)
    (hnr : ∀ dvs, sem.raises g dvs ((eff spec g).reads.map s.params)
      (inputArg (eff spec g) s.input) = false) :
    (read spec sem g s).1.cache k = some (sem.C g k v) ∧
    (read spec sem k (read spec sem g s).1).2 = some (sem.C g k v) := by
  have hne : k ≠ g := by intro e; subst e; rw [hg] at hk; simp at hk
  have hf : 0 < g ∨ (eff spec g).deps = [] := by
    cases hds : (eff spec g).deps with
    | nil => right; rfl
    | cons d ds => left; exact Nat.lt_of_le_of_lt (Nat.zero_le d) (hS g d (by rw [hds]; exact List.mem_cons_self))
  obtain ⟨dvs, e⟩ := readDeps_cached_some spec sem g (eff spec g).deps s hf hdeps
  have key : (read spec sem g s).1.cache k = some (sem.C g k v) := by
    unfold read readF
    simp [hg, e, hnr dvs, fire, hne, hkg, hk]
  refine ⟨key, ?_⟩
  generalize (read spec sem g s).1 = s' at key
  unfold read readF
  simp [key]

end Nitime.OneTime
