/-
Lemmas about the `OneTime` machine (Model/OneTime.lean): everything here holds for every `Sem`
(the getters' bodies are uninterpreted).  Used by Props/C13 and Props/C14.  Core Lean only.
-/
import Nitime.Model.OneTime
namespace Nitime.OneTime

variable {V I : Type}

/-! ### from the Boolean checks to usable facts -/

theorem eff_default (spec : Spec) (g : Nat) (h : spec.length ≤ g) : eff spec g = noEff := by
  unfold eff; rw [List.getD_eq_getElem?_getD, List.getElem?_eq_none h]; rfl

theorem allG_spec {spec : Spec} {f : Nat → Eff → Bool} (h : allG spec f = true) (g : Nat)
    (hg : g < spec.length) : f g (eff spec g) = true := by
  unfold allG at h
  rw [List.all_eq_true] at h
  exact h g (List.mem_range.2 hg)

/-- getters are listed after the getters they read -/
def Sorted (spec : Spec) : Prop := ∀ g d, d ∈ (eff spec g).deps → d < g

theorem sorted_of_B {spec : Spec} (h : sortedB spec = true) : Sorted spec := by
  intro g d hd
  by_cases hg : g < spec.length
  · have := allG_spec h g hg
    rw [List.all_eq_true] at this
    exact of_decide_eq_true (this d hd)
  · rw [eff_default spec g (Nat.le_of_not_lt hg)] at hd
    simp [noEff] at hd

structure NoClobber (spec : Spec) : Prop where
  cache : ∀ g, (eff spec g).clobbers = []
  input : ∀ g, (eff spec g).clobbersInput = false

theorem noClobber_of_B {spec : Spec} (h : noClobberB spec = true) : NoClobber spec := by
  have key : ∀ g, (eff spec g).clobbers = [] ∧ (eff spec g).clobbersInput = false := by
    intro g
    by_cases hg : g < spec.length
    · have := allG_spec h g hg
      simp only [Bool.and_eq_true, List.isEmpty_iff, Bool.not_eq_true'] at this
      exact this
    · rw [eff_default spec g (Nat.le_of_not_lt hg)]; exact ⟨rfl, rfl⟩
  exact ⟨fun g => (key g).1, fun g => (key g).2⟩

/-- the side condition of the order-independence theorem -/
structure NoInterference (spec : Spec) (present : List Nat) : Prop where
  sorted : Sorted spec
  noClobber : NoClobber spec
  writes : ∀ g g', g ≠ g' → ∀ p ∈ (eff spec g).writes, p ∉ (eff spec g').reads
  dwrites : ∀ g g', g ≠ g' → ∀ p ∈ (eff spec g).dwrites, p ∈ (eff spec g').reads → p ∈ present

theorem eff_default_lists (spec : Spec) (g : Nat) (h : ¬ g < spec.length) :
    (eff spec g).reads = [] ∧ (eff spec g).writes = [] ∧ (eff spec g).dwrites = [] := by
  rw [eff_default spec g (Nat.le_of_not_lt h)]; exact ⟨rfl, rfl, rfl⟩

theorem noInterference_of_B {spec : Spec} {present : List Nat}
    (h : noInterferenceB spec present = true) : NoInterference spec present := by
  unfold noInterferenceB at h
  simp only [Bool.and_eq_true] at h
  obtain ⟨⟨h1, h2⟩, h3⟩ := h
  refine ⟨sorted_of_B h1, noClobber_of_B h2, ?_, ?_⟩
  · intro g g' hne p hp hp'
    by_cases hg : g < spec.length
    · by_cases hg' : g' < spec.length
      · have := allG_spec (allG_spec h3 g hg) g' hg'
        simp only [Bool.or_eq_true, beq_iff_eq, Bool.and_eq_true, List.all_eq_true] at this
        rcases this with e | ⟨hw, _⟩
        · exact hne e
        · have := hw p hp
          simp only [Bool.not_eq_true', List.contains_eq_mem, decide_eq_false_iff_not] at this
          exact this hp'
      · rw [(eff_default_lists spec g' hg').1] at hp'; simp at hp'
    · rw [(eff_default_lists spec g hg).2.1] at hp; simp at hp
  · intro g g' hne p hp hp'
    by_cases hg : g < spec.length
    · by_cases hg' : g' < spec.length
      · have := allG_spec (allG_spec h3 g hg) g' hg'
        simp only [Bool.or_eq_true, beq_iff_eq, Bool.and_eq_true, List.all_eq_true] at this
        rcases this with e | ⟨_, hd⟩
        · exact absurd e hne
        · have := hd p hp
          simp only [Bool.not_eq_true', List.contains_eq_mem,
            decide_eq_false_iff_not, decide_eq_true_eq] at this
          rcases this with h | h
          · exact absurd hp' h
          · exact h
      · rw [(eff_default_lists spec g' hg').1] at hp'; simp at hp'
    · rw [(eff_default_lists spec g hg).2.2] at hp; simp at hp

/-! ### structural lemmas (no side condition beyond `Sorted`) -/

theorem readDeps_preserves (P : St V I → Prop) (rd : Nat → St V I → St V I × Option V) :
    ∀ (ds : List Nat), (∀ d ∈ ds, ∀ s, P s → P (rd d s).1) → ∀ s, P s → P (readDeps rd ds s).1 := by
  intro ds
  induction ds with
  | nil => intro _ s hs; exact hs
  | cons d ds ih =>
    intro hrd s hs
    have h1 : P (rd d s).1 := hrd d (List.mem_cons_self) s hs
    have ih' := ih (fun d' hd' => hrd d' (List.mem_cons_of_mem _ hd')) (rd d s).1 h1
    unfold readDeps
    split
    · next s1 heq => rw [heq] at h1; exact h1
    · next s1 v heq =>
      rw [heq] at ih'
      split
      · next s2 heq2 => rw [heq2] at ih'; exact ih'
      · next s2 vs heq2 => rw [heq2] at ih'; exact ih'

/-- reading `g` leaves un-fired every later getter (`Sorted` tables) -/
theorem readF_frame (spec : Spec) (sem : Sem V I) (hS : Sorted spec) :
    ∀ fuel g s k, g < k → s.cache k = none → (readF spec sem fuel g s).1.cache k = none := by
  intro fuel
  induction fuel with
  | zero => intro g s k _ hk; exact hk
  | succ fuel ih =>
    intro g s k hgk hk
    unfold readF
    split
    · exact hk
    · have hd : (readDeps (readF spec sem fuel) (eff spec g).deps s).1.cache k = none :=
        readDeps_preserves (fun s => s.cache k = none) _ _
          (fun d hd s hs => ih d s k (Nat.lt_trans (hS g d hd) hgk) hs) s hk
      split
      · next s1 heq => rw [heq] at hd; exact hd
      · next s1 dvs heq =>
        rw [heq] at hd
        simp only [fire]
        have : k ≠ g := Nat.ne_of_gt hgk
        simp only [this, if_false]
        split
        · simp at hd; rw [hd]; rfl
        · exact hd

/-- an invariant that every firing preserves is preserved by every read -/
theorem readF_preserves (spec : Spec) (sem : Sem V I) (hS : Sorted spec) (P : St V I → Prop)
    (hfire : ∀ g dvs pvs v s, P s → s.cache g = none → P (fire sem (eff spec g) g dvs pvs v s)) :
    ∀ fuel g s, P s → P (readF spec sem fuel g s).1 := by
  intro fuel
  induction fuel with
  | zero => intro g s hs; exact hs
  | succ fuel ih =>
    intro g s hs
    unfold readF
    split
    · exact hs
    · next hmiss =>
      have hd : (fun s => P s ∧ s.cache g = none) (readDeps (readF spec sem fuel) (eff spec g).deps s).1 :=
        readDeps_preserves (fun s => P s ∧ s.cache g = none) _ _
          (fun d hd s hs => ⟨ih d s hs.1, readF_frame spec sem hS fuel d s g (hS g d hd) hs.2⟩) s ⟨hs, hmiss⟩
      split
      · next s1 heq => rw [heq] at hd; exact hd.1
      · next s1 dvs heq => rw [heq] at hd; exact hfire g dvs _ _ s1 hd.1 hd.2

theorem run_preserves (spec : Spec) (sem : Sem V I) (P : St V I → Prop)
    (hread : ∀ g s, P s → P (read spec sem g s).1) : ∀ h s, P s → P (run spec sem h s) := by
  intro h
  induction h with
  | nil => intro s hs; exact hs
  | cons g h ih => intro s hs; exact ih _ (hread g s hs)

/-- a successful read leaves the value stored under the getter's name -/
theorem readF_stores (spec : Spec) (sem : Sem V I) (fuel g : Nat) (s : St V I) (v : V)
    (h : (readF spec sem fuel g s).2 = some v) : (readF spec sem fuel g s).1.cache g = some v := by
  cases fuel with
  | zero => simp [readF] at h
  | succ fuel =>
    unfold readF at h ⊢
    split
    · next w hw => simp only [hw] at h; rw [hw]; simpa using h
    · next hmiss =>
      simp only [hmiss] at h
      split
      · next s1 heq => simp only [heq] at h; simp at h
      · next s1 dvs heq =>
        simp only [heq] at h
        simp only [Option.some.injEq] at h
        simp [fire, h]

/-! ### the value every read returns -/

/-- the value of getter `g` on a freshly built object, by recursion over the dependency order -/
def ideal (spec : Spec) (sem : Sem V I) (cp : Nat → Option V) (x : I) (g : Nat) : V :=
  sem.F g (((eff spec g).deps.filter (· < g)).attach.map fun d => ideal spec sem cp x d.1)
    ((eff spec g).reads.map cp) (inputArg (eff spec g) x)
termination_by g
decreasing_by
  have := d.2
  simp only [List.mem_filter, decide_eq_true_eq] at this
  exact this.2

theorem ideal_eq (spec : Spec) (sem : Sem V I) (cp : Nat → Option V) (x : I) (hS : Sorted spec)
    (g : Nat) : ideal spec sem cp x g =
      sem.F g ((eff spec g).deps.map (ideal spec sem cp x)) ((eff spec g).reads.map cp)
        (inputArg (eff spec g) x) := by
  rw [ideal]
  have h1 : ∀ (l : List Nat) (f : Nat → V), (l.attach.map fun d => f d.1) = l.map f := by
    intro l f; simp
  rw [h1]
  have h2 : (eff spec g).deps.filter (· < g) = (eff spec g).deps :=
    List.filter_eq_self.2 (fun d hd => by simp [hS g d hd])
  rw [h2]

structure Inv (spec : Spec) (sem : Sem V I) (cp : Nat → Option V) (x : I) (present : List Nat)
    (s : St V I) : Prop where
  input : s.input = x
  params : ∀ g, s.cache g = none → ∀ p ∈ (eff spec g).reads, s.params p = cp p
  cache : ∀ g v, s.cache g = some v → v = ideal spec sem cp x g
  present : ∀ p ∈ present, (s.params p).isSome = true

theorem readDeps_correct (spec : Spec) (sem : Sem V I) (cp : Nat → Option V) (x : I)
    (present : List Nat) (g : Nat) (rd : Nat → St V I → St V I × Option V) :
    ∀ (ds : List Nat),
      (∀ d ∈ ds, ∀ s, Inv spec sem cp x present s →
        Inv spec sem cp x present (rd d s).1 ∧ (rd d s).2 = some (ideal spec sem cp x d)) →
      (∀ d ∈ ds, ∀ s, s.cache g = none → (rd d s).1.cache g = none) →
      ∀ s, Inv spec sem cp x present s → s.cache g = none →
        Inv spec sem cp x present (readDeps rd ds s).1 ∧ (readDeps rd ds s).1.cache g = none ∧
        (readDeps rd ds s).2 = some (ds.map (ideal spec sem cp x)) := by
  intro ds
  induction ds with
  | nil => intro _ _ s hs hg; exact ⟨hs, hg, rfl⟩
  | cons d ds ih =>
    intro hrd hfr s hs hg
    have h1 := hrd d List.mem_cons_self s hs
    have f1 := hfr d List.mem_cons_self s hg
    have ih' := ih (fun d' hd' => hrd d' (List.mem_cons_of_mem _ hd'))
      (fun d' hd' => hfr d' (List.mem_cons_of_mem _ hd')) (rd d s).1 h1.1 f1
    unfold readDeps
    split
    · next s1 heq => rw [heq] at h1; simp at h1
    · next s1 v heq =>
      rw [heq] at ih' h1
      simp only [Option.some.injEq] at h1
      split
      · next s2 heq2 => rw [heq2] at ih'; simp at ih'
      · next s2 vs heq2 =>
        rw [heq2] at ih'
        simp only [Option.some.injEq] at ih'
        refine ⟨ih'.1, ih'.2.1, ?_⟩
        simp [h1.2, ih'.2.2]

/-- MAIN LEMMA.  From any state satisfying the invariant (in particular a fresh object, or an
    object after any history of reads), a read with sufficient budget returns the ideal value and
    re-establishes the invariant. -/
theorem readF_correct (spec : Spec) (sem : Sem V I) (cp : Nat → Option V) (x : I)
    (present : List Nat) (hN : NoInterference spec present) :
    ∀ fuel g s, g < fuel → Inv spec sem cp x present s →
      Inv spec sem cp x present (readF spec sem fuel g s).1 ∧
      (readF spec sem fuel g s).2 = some (ideal spec sem cp x g) := by
  intro fuel
  induction fuel with
  | zero => intro g s h; exact absurd h (Nat.not_lt_zero _)
  | succ fuel ih =>
    intro g s hg hs
    unfold readF
    split
    · next v hv => exact ⟨hs, by rw [hs.cache g v hv]⟩
    · next hmiss =>
      have hd := readDeps_correct spec sem cp x present g (readF spec sem fuel) (eff spec g).deps
        (fun d hd s hs => ih d s (Nat.lt_of_lt_of_le (hN.sorted g d hd) (Nat.le_of_lt_succ hg)) hs)
        (fun d hd s hs => readF_frame spec sem hN.sorted fuel d s g (hN.sorted g d hd) hs) s hs hmiss
      split
      · next s1 heq => rw [heq] at hd; simp at hd
      · next s1 dvs heq =>
        rw [heq] at hd
        obtain ⟨hI, hgn, hv⟩ := hd
        simp only [Option.some.injEq] at hv
        have hpv : (eff spec g).reads.map s1.params = (eff spec g).reads.map cp :=
          List.map_congr_left (fun p hp => hI.params g hgn p hp)
        have hval : sem.F g dvs ((eff spec g).reads.map s1.params) (inputArg (eff spec g) s1.input)
            = ideal spec sem cp x g := by
          rw [ideal_eq spec sem cp x hN.sorted g, hpv, hv, hI.input]
        refine ⟨⟨?_, ?_, ?_, ?_⟩, by simp only [hval]⟩
        · simp only [fire, hN.noClobber.input g]; exact hI.input
        · intro g' hg' p hp
          have hne : g' ≠ g := by
            intro e; subst e; simp [fire] at hg'
          have hg1 : s1.cache g' = none := by
            simp only [fire, hne, if_false, hN.noClobber.cache g] at hg'
            simpa using hg'
          have hw : (eff spec g).writes.contains p = false := by
            simp only [List.contains_eq_mem, decide_eq_false_iff_not]
            exact fun h => hN.writes g g' (Ne.symm hne) p h hp
          have hdw : ((eff spec g).dwrites.contains p && (s1.params p).isNone) = false := by
            by_cases hc : p ∈ (eff spec g).dwrites
            · have := hI.present p (hN.dwrites g g' (Ne.symm hne) p hc hp)
              cases hsp : s1.params p with
              | none => rw [hsp] at this; simp at this
              | some _ => simp
            · simp [hc]
          simp only [fire, hw, hdw]
          exact hI.params g' hg1 p hp
        · intro g' v' hv'
          by_cases e : g' = g
          · subst e
            simp only [fire, if_true, Option.some.injEq] at hv'
            rw [← hv', hval]
          · simp only [fire, e, if_false, hN.noClobber.cache g] at hv'
            exact hI.cache g' v' (by simpa using hv')
        · intro p hp
          have := hI.present p hp
          simp only [fire]
          split
          · rfl
          · split
            · rfl
            · exact this

theorem run_inv (spec : Spec) (sem : Sem V I) (cp : Nat → Option V) (x : I)
    (present : List Nat) (hN : NoInterference spec present) :
    ∀ h s, Inv spec sem cp x present s → Inv spec sem cp x present (run spec sem h s) :=
  run_preserves spec sem _ (fun g s hs => (readF_correct spec sem cp x present hN (g + 1) g s
    (Nat.lt_succ_self g) hs).1)

theorem construct_inv (spec : Spec) (sem : Sem V I) (dv : List Nat) (cp : Nat → Option V) (x : I)
    (present : List Nat) (hp : ∀ p ∈ present, ((construct sem dv cp x).params p).isSome = true) :
    Inv spec sem (construct sem dv cp x).params x present (construct sem dv cp x) :=
  ⟨rfl, fun _ _ _ _ => rfl, fun g v h => by simp [construct] at h, hp⟩

end Nitime.OneTime
