/-
C01 — live time objects (`Nitime.C01.TObj`): the unit LABEL and the conversion FACTOR are two
attributes; lemmas about one path / one step of a history.  The property-level statements are in
`Props/C01.lean`.
-/
import Nitime.Model.C01

namespace Nitime.C01Attr

/-- the path writes the requested label and the table's factor of that very label -/
def Path.relabels (p : Path) : Bool := p.label == .arg && p.factor == .tableOfLabel

/-- both attributes come along from the object the view is made from -/
def Path.inherits (p : Path) : Bool :=
  (p.label == .fromObj || p.label == .unset) && (p.factor == .fromObj || p.factor == .unset)

/-- a literal label together with the table's factor of it -/
def Path.literal (p : Path) : Bool :=
  (match p.label with | .lit _ => true | _ => false) && p.factor == .tableOfLabel

def Path.ok (p : Path) : Bool := p.relabels || p.inherits || p.literal

end Nitime.C01Attr

namespace Nitime.C01
open Nitime Nitime.C01Attr

/-- the invariant: the factor is the table's factor of the label -/
def Attrs.Inv (a : Attrs) : Prop := a.fac = Generated.factor a.label

def TObj.Inv (o : TObj) : Prop := o.attrs.Inv

instance (a : Attrs) : Decidable a.Inv := by unfold Attrs.Inv; infer_instance
instance (o : TObj) : Decidable o.Inv := by unfold TObj.Inv; infer_instance

def pathsAll (f : Path → Bool) (ps : List Path) : Bool := !ps.isEmpty && ps.all f

/-- every return path of every entry point keeps label and factor together -/
def Discipline.consistent (D : Discipline) : Bool :=
  pathsAll Path.relabels (D.new true true) && pathsAll Path.relabels (D.new true false) &&
  pathsAll Path.relabels (D.new false true) && pathsAll Path.relabels (D.new false false) &&
  pathsAll Path.inherits (D.finalize true) && pathsAll Path.literal (D.finalize false) &&
  pathsAll Path.relabels D.convert

theorem pick_of_pathsAll {f : Path → Bool} {ps : List Path} (h : pathsAll f ps = true) : f (pick ps) = true := by
  cases ps with
  | nil => simp [pathsAll] at h
  | cons p ps => simp [pathsAll] at h; simpa [pick] using h.1

theorem applyPath_relabels {p : Path} (h : p.relabels = true) (req : TimeUnit) (inh : Attrs) :
    applyPath p req inh = ⟨req, Generated.factor req⟩ := by
  obtain ⟨l, f⟩ := p
  simp only [Path.relabels, Bool.and_eq_true, beq_iff_eq] at h
  obtain ⟨h1, h2⟩ := h
  subst h1; subst h2
  rfl

theorem applyPath_inherits {p : Path} (h : p.inherits = true) (req : TimeUnit) (inh : Attrs) :
    applyPath p req inh = inh := by
  obtain ⟨l, f⟩ := p
  simp only [Path.inherits, Bool.and_eq_true, Bool.or_eq_true, beq_iff_eq] at h
  obtain ⟨h1 | h1, h2 | h2⟩ := h <;> subst h1 <;> subst h2 <;> rfl

theorem applyPath_literal_inv {p : Path} (h : p.literal = true) (req : TimeUnit) (inh : Attrs) :
    (applyPath p req inh).Inv := by
  obtain ⟨l, f⟩ := p
  simp only [Path.literal, Bool.and_eq_true, beq_iff_eq] at h
  obtain ⟨_, h2⟩ := h
  subst h2
  rfl

theorem inv_relabel (u : TimeUnit) : (Attrs.mk u (Generated.factor u)).Inv := rfl

section steps
variable {D : Discipline} (hD : D.consistent = true)
include hD

theorem cons_new (c t : Bool) : (pick (D.new c t)).relabels = true := by
  simp only [Discipline.consistent, Bool.and_eq_true] at hD
  obtain ⟨⟨⟨⟨⟨⟨h1, h2⟩, h3⟩, h4⟩, _⟩, _⟩, _⟩ := hD
  cases c <;> cases t
  · exact pick_of_pathsAll h4
  · exact pick_of_pathsAll h3
  · exact pick_of_pathsAll h2
  · exact pick_of_pathsAll h1

theorem cons_fin_true : (pick (D.finalize true)).inherits = true := by
  simp only [Discipline.consistent, Bool.and_eq_true] at hD
  exact pick_of_pathsAll hD.1.1.2

theorem cons_fin_false : (pick (D.finalize false)).literal = true := by
  simp only [Discipline.consistent, Bool.and_eq_true] at hD
  exact pick_of_pathsAll hD.1.2

theorem cons_convert : (pick D.convert).relabels = true := by
  simp only [Discipline.consistent, Bool.and_eq_true] at hD
  exact pick_of_pathsAll hD.2

/-- a view carries the attributes of the object it is made from -/
theorem viewAttrs_eq (o : TObj) : viewAttrs D o = o.attrs := by
  simp only [viewAttrs, applyPath_inherits (cons_fin_true hD)]

omit hD in
/-- with coupled attributes, a live object reads bare numbers exactly as the value model does: in the unit of its label -/
theorem convertIfNeededO_eq (o : TObj) (h : o.Inv) (v : Operand) :
    convertIfNeededO o v = convertIfNeeded o.toTVal v := by
  cases v with
  | time t => rfl
  | bare sc xs =>
    have h' : o.attrs.fac = Generated.factor o.attrs.label := h
    simp [convertIfNeededO, convertIfNeeded, ctorNums, factorOpt, TObj.toTVal, h']

theorem stepO_wrap (o : TObj) (u : Option TimeUnit) (c : Bool) :
    stepO D o (.wrap u c) = .ok ⟨o.ps, o.scalar, ⟨u.getD o.attrs.label, Generated.factor (u.getD o.attrs.label)⟩⟩ := by
  simp only [stepO, applyPath_relabels (cons_new hD c true)]

theorem stepO_conv (o : TObj) (u : TimeUnit) :
    stepO D o (.conv u) = .ok ⟨o.ps, o.scalar, ⟨u, Generated.factor u⟩⟩ := by
  simp only [stepO, applyPath_relabels (cons_convert hD)]

theorem stepO_view (o : TObj) (k : ViewKind) :
    stepO D o (.view k) = .ok ⟨(k.payload (o.ps, o.scalar)).1, (k.payload (o.ps, o.scalar)).2, o.attrs⟩ := by
  simp only [stepO, viewAttrs_eq hD]

theorem stepO_strip (o : TObj) :
    ∃ a : Attrs, a.Inv ∧ stepO D o .strip = .ok ⟨o.ps, o.scalar, a⟩ :=
  ⟨_, applyPath_literal_inv (cons_fin_false hD) _ _, rfl⟩

theorem stepO_red (o : TObj) (h : o.Inv) (r : RedOp) (hne : o.ps.isEmpty = false) :
    stepO D o (.red r) = .ok ⟨[redValue r o.ps], true, o.attrs⟩ := by
  simp only [stepO, hne, Bool.false_eq_true, if_false]
  have e : applyPath (pick D.convert) o.attrs.label
      (applyPath (pick (D.new true false)) .ps ⟨.ps, 1⟩) = o.attrs := by
    rw [applyPath_relabels (cons_convert hD)]
    rcases o with ⟨ps, sc, ⟨l, f⟩⟩
    have : f = Generated.factor l := h
    subst this
    rfl
  cases hk : D.red r.name <;> simp only [e, viewAttrs_eq hD]

theorem stepO_ar (o : TObj) (h : o.Inv) (op : ArithOp) (v : Operand) :
    stepO D o (.ar op v) = (arith op o.toTVal v).map fun t => ⟨t.ps, t.scalar, o.attrs⟩ := by
  simp only [stepO, arithO, arith, convertIfNeededO_eq o h, viewAttrs_eq hD]
  rcases convertIfNeeded o.toTVal v with ⟨b, sb⟩
  simp only [TObj.toTVal]
  cases broadcast op.fn o.ps o.scalar b sb with
  | error e => rfl
  | ok r => rfl

/-- every accepted step keeps label and factor together -/
theorem stepO_inv (o : TObj) (h : o.Inv) (s : Step) (o' : TObj) (hs : stepO D o s = .ok o') : o'.Inv := by
  cases s with
  | wrap u c => rw [stepO_wrap hD] at hs; cases hs; exact inv_relabel _
  | conv u => rw [stepO_conv hD] at hs; cases hs; exact inv_relabel _
  | view k => rw [stepO_view hD] at hs; cases hs; exact h
  | strip =>
    obtain ⟨a, ha, e⟩ := stepO_strip hD o
    rw [e] at hs; cases hs; exact ha
  | red r =>
    by_cases he : o.ps.isEmpty = true
    · simp [stepO, he] at hs
    · rw [stepO_red hD o h r (by simpa using he)] at hs; cases hs; exact h
  | ar op v =>
    rw [stepO_ar hD o h] at hs
    cases ha : arith op o.toTVal v with
    | error e => simp [ha, Except.map] at hs
    | ok t => simp only [ha, Except.map, Except.ok.injEq] at hs; subst hs; exact h

/-- every object of a history keeps label and factor together -/
theorem trace_inv (o : TObj) (h : o.Inv) (ss : List Step) : ∀ o' ∈ trace D o ss, o'.Inv := by
  induction ss generalizing o with
  | nil => intro o' ho'; simp only [trace, List.mem_singleton] at ho'; subst ho'; exact h
  | cons s ss ih =>
    intro o' ho'
    simp only [trace] at ho'
    cases hs : stepO D o s with
    | error e => simp only [hs, List.mem_singleton] at ho'; subst ho'; exact h
    | ok o1 =>
      simp only [hs, List.mem_cons] at ho'
      rcases ho' with rfl | ho'
      · exact h
      · exact ih o1 (stepO_inv hD o h s o1 hs) o' ho'

end steps

/-! ### failure paths (round 2): refused calls, partial updates -/

theorem execEvents_noRaise {es : List Ev} (h : noRaise es = true) (a : UnitArg) (st : RawAttrs) :
    (execEvents es a st).2 = false := by
  induction es generalizing st with
  | nil => rfl
  | cons e es ih =>
    simp only [noRaise, List.all_cons, Bool.and_eq_true] at h
    obtain ⟨he, hes⟩ := h
    cases e <;> simp [Ev.canRaise] at he <;> simp only [execEvents] <;> exact ih hes _

/-- when nothing is written before something that can still raise, a call that raises leaves both attributes as they were -/
theorem execEvents_atomic {es : List Ev} (h : atomic es = true) (a : UnitArg) (st : RawAttrs)
    (hr : (execEvents es a st).2 = true) : (execEvents es a st).1 = st := by
  induction es generalizing st with
  | nil => rfl
  | cons e es ih =>
    cases e with
    | writeLabel =>
      simp only [atomic, Ev.isWrite, if_true] at h
      simp only [execEvents, execEvents_noRaise h] at hr; cases hr
    | writeFactor =>
      simp only [atomic, Ev.isWrite, if_true] at h
      simp only [execEvents, execEvents_noRaise h] at hr; cases hr
    | lookup =>
      simp [atomic, Ev.isWrite] at h
      simp only [execEvents] at hr ⊢
      split
      · rename_i hk; simp only [hk, if_true] at hr; exact ih h _ hr
      · rfl
    | raiseIfNone =>
      simp [atomic, Ev.isWrite] at h
      simp only [execEvents] at hr ⊢
      split
      · rfl
      · rename_i hk; simp only [hk, if_false] at hr; exact ih h _ hr
    | raiseIfInvalid =>
      simp [atomic, Ev.isWrite] at h
      simp only [execEvents] at hr ⊢
      split
      · rename_i hk; simp only [hk, if_true] at hr; exact ih h _ hr
      · rfl
    | raiseOther =>
      simp [atomic, Ev.isWrite] at h
      simp only [execEvents] at hr ⊢
      exact ih h _ hr
    | unknown => simp [atomic, Ev.isWrite] at h

/-- whether a call raises depends on the argument only, not on what the object holds -/
theorem execEvents_raised_indep (es : List Ev) (a : UnitArg) (st st' : RawAttrs) :
    (execEvents es a st).2 = (execEvents es a st').2 := by
  induction es generalizing st st' with
  | nil => rfl
  | cons e es ih =>
    cases e <;> simp only [execEvents]
    · exact ih _ _
    · exact ih _ _
    · split
      · exact ih _ _
      · rfl
    · split
      · rfl
      · exact ih _ _
    · split
      · exact ih _ _
      · rfl
    · exact ih _ _
    · exact ih _ _

/-- the failure-path facts a class must satisfy: no attribute written before something that can still raise, and the
constructor never writes to its argument -/
def FailDiscipline.atomicAll (F : FailDiscipline) : Bool := atomic F.convertEvents && !F.newTouchesArgument

/-- a step the model covers: a refused method call is of a method that writes no attribute; the constructor is refused for
an invalid unit (a valid one is an ordinary `wrap` step); an ACCEPTED `convert_unit` was given something that names a unit -/
def HStep.covered (F : FailDiscipline) : HStep → Bool
  | .ok _ => true
  | .bad (.conv a) => (execEvents F.convertEvents a ⟨Option.none, 0⟩).2 || a.label?.isSome
  | .bad (.wrap a) => !a.isKey
  | .bad (.call m) => !F.attrWriters.contains m

theorem stepBad_refused (D : Discipline) {F : FailDiscipline} (hF : F.atomicAll = true) (o : TObj) (b : BadStep)
    (hc : (HStep.bad b).covered F = true) (hr : (stepBad D F o b).refused = true) :
    (stepBad D F o b).raw = o.attrs.raw ∧ (stepBad D F o b).next = some o := by
  simp only [FailDiscipline.atomicAll, Bool.and_eq_true, Bool.not_eq_true'] at hF
  obtain ⟨hat, hnew⟩ := hF
  cases b with
  | conv a =>
    simp only [stepBad] at hr ⊢
    cases hx : execEvents F.convertEvents a o.attrs.raw with
    | mk r raised =>
      simp only [hx] at hr ⊢
      cases raised with
      | true =>
        have := execEvents_atomic hat a o.attrs.raw (by rw [hx])
        rw [hx] at this
        simp only at this
        subst this
        simp [RawAttrs.attrs?, Attrs.raw]
      | false =>
        simp only [Bool.false_eq_true, if_false] at hr
        cases hl : a.label? <;> simp [hl] at hr
  | wrap a =>
    simp only [HStep.covered, Bool.not_eq_true'] at hc
    simp [stepBad, hc, hnew]
  | call m =>
    simp only [HStep.covered, Bool.not_eq_true', List.contains_eq_mem, decide_eq_false_iff_not] at hc
    simp [stepBad, hc]

/-- the object a history with refused calls ends with (`none`: it stopped) -/
def curX (D : Discipline) (F : FailDiscipline) (o : TObj) : List HStep → Option TObj
  | [] => some o
  | .ok s :: hs => match stepO D o s with
    | .ok o' => curX D F o' hs
    | .error _ => Option.none
  | .bad b :: hs => match (stepBad D F o b).next with
    | some o' => curX D F o' hs
    | Option.none => Option.none

/-- … of a history of accepted steps -/
def cur (D : Discipline) (o : TObj) : List Step → Option TObj
  | [] => some o
  | s :: ss => match stepO D o s with
    | .ok o' => cur D o' ss
    | .error _ => Option.none

theorem stepBad_next (D : Discipline) {F : FailDiscipline} (hF : F.atomicAll = true) (o : TObj) (b : BadStep)
    (hc : (HStep.bad b).covered F = true) :
    (stepBad D F o b).next = match (HStep.bad b).accepted? F with
      | some s => (stepO D o s).toOption
      | Option.none => some o := by
  by_cases hr : (stepBad D F o b).refused = true
  · rw [(stepBad_refused D hF o b hc hr).2]
    cases b with
    | conv a =>
      have : (execEvents F.convertEvents a ⟨Option.none, 0⟩).2 = true := by
        rw [execEvents_raised_indep _ _ _ o.attrs.raw]
        simp only [stepBad] at hr
        cases hx : execEvents F.convertEvents a o.attrs.raw with
        | mk r raised =>
          cases raised with
          | true => rfl
          | false =>
            simp only [hx, Bool.false_eq_true, if_false] at hr
            cases hl : a.label? <;> simp [hl] at hr
      simp [HStep.accepted?, this]
    | wrap a => rfl
    | call m => rfl
  · cases b with
    | conv a =>
      simp only [stepBad] at hr ⊢
      cases hx : execEvents F.convertEvents a o.attrs.raw with
      | mk r raised =>
        cases raised with
        | true => simp [hx] at hr
        | false =>
          have h0 : (execEvents F.convertEvents a ⟨Option.none, 0⟩).2 = false := by
            rw [execEvents_raised_indep _ _ _ o.attrs.raw, hx]
          simp only [HStep.covered, h0, Bool.false_or] at hc
          cases hl : a.label? with
          | none => simp [hl] at hc
          | some u => simp [HStep.accepted?, h0, hl]
    | wrap a =>
      simp only [HStep.covered, Bool.not_eq_true'] at hc
      simp only [FailDiscipline.atomicAll, Bool.and_eq_true, Bool.not_eq_true'] at hF
      simp [stepBad, hc, hF.2] at hr
    | call m =>
      simp only [HStep.covered, Bool.not_eq_true', List.contains_eq_mem, decide_eq_false_iff_not] at hc
      simp [stepBad, hc] at hr

/-- refused calls are invisible: the history ends with the object the accepted calls alone produce -/
theorem curX_eq_cur (D : Discipline) {F : FailDiscipline} (hF : F.atomicAll = true) (o : TObj) (hs : List HStep)
    (hc : ∀ h ∈ hs, h.covered F = true) : curX D F o hs = cur D o (hs.filterMap (HStep.accepted? F)) := by
  induction hs generalizing o with
  | nil => rfl
  | cons h hs ih =>
    have hc' : ∀ h ∈ hs, h.covered F = true := fun x hx => hc x (List.mem_cons_of_mem _ hx)
    cases h with
    | ok s =>
      simp only [curX, List.filterMap_cons, HStep.accepted?, cur]
      cases stepO D o s with
      | ok o' => exact ih o' hc'
      | error e => rfl
    | bad b =>
      have hn := stepBad_next D hF o b (hc _ (List.mem_cons_self ..))
      simp only [curX, List.filterMap_cons, hn]
      cases ha : (HStep.bad b).accepted? F with
      | none => exact ih o hc'
      | some s =>
        simp only [cur]
        cases stepO D o s with
        | ok o' => exact ih o' hc'
        | error e => rfl

theorem traceX_inv {D : Discipline} (hD : D.consistent = true) {F : FailDiscipline} (hF : F.atomicAll = true) (o : TObj)
    (h : o.Inv) (hs : List HStep) (hc : ∀ h ∈ hs, h.covered F = true) : ∀ o' ∈ traceX D F o hs, o'.Inv := by
  induction hs generalizing o with
  | nil => intro o' ho'; simp only [traceX, List.mem_singleton] at ho'; subst ho'; exact h
  | cons x hs ih =>
    have hc' : ∀ h ∈ hs, h.covered F = true := fun y hy => hc y (List.mem_cons_of_mem _ hy)
    intro o' ho'
    cases x with
    | ok s =>
      simp only [traceX] at ho'
      cases hs' : stepO D o s with
      | error e => simp only [hs', List.mem_singleton] at ho'; subst ho'; exact h
      | ok o1 =>
        simp only [hs', List.mem_cons] at ho'
        rcases ho' with rfl | ho'
        · exact h
        · exact ih o1 (stepO_inv hD o h s o1 hs') hc' o' ho'
    | bad b =>
      have hn := stepBad_next D hF o b (hc _ (List.mem_cons_self ..))
      simp only [traceX, hn] at ho'
      cases ha : (HStep.bad b).accepted? F with
      | none =>
        simp only [ha, List.mem_cons] at ho'
        rcases ho' with rfl | ho'
        · exact h
        · exact ih o h hc' o' ho'
      | some s =>
        simp only [ha] at ho'
        cases hs' : stepO D o s with
        | error e => simp only [hs', Except.toOption, List.mem_singleton] at ho'; subst ho'; exact h
        | ok o1 =>
          simp only [hs', Except.toOption, List.mem_cons] at ho'
          rcases ho' with rfl | ho'
          · exact h
          · exact ih o1 (stepO_inv hD o h s o1 hs') hc' o' ho'


end Nitime.C01
