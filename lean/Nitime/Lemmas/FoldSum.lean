import Mathlib.Algebra.BigOperators.Intervals
import Mathlib.Algebra.Order.BigOperators.Group.Finset
import Mathlib.Data.Real.Basic
import Mathlib.Algebra.BigOperators.Ring.Finset
import Mathlib.Tactic.Ring
import Mathlib.Tactic.Linarith
import Mathlib.Tactic.LinearCombination

open Finset

/-- the one-sided assembly used by periodogram / mtm_cross_spectrum -/
def foldOne (N : ℕ) (p : ℕ → ℝ) (k : ℕ) : ℝ :=
  if k = 0 then p 0 else if k < (N + 1) / 2 then 2 * p k else p k

/-- sum over an interior block, reflected -/
lemma reflect_block (N a b : ℕ) (p : ℕ → ℝ) (hsym : ∀ k, 1 ≤ k → k < N → p (N - k) = p k)
    (ha : 1 ≤ a) (hb : b ≤ N) :
    ∑ k ∈ Ico a b, p k = ∑ k ∈ Ico (N + 1 - b) (N + 1 - a), p k := by
  have h1 : ∑ k ∈ Ico a b, p k = ∑ k ∈ Ico a b, p (N - k) := by
    refine sum_congr rfl fun k hk => ?_
    simp only [mem_Ico] at hk
    exact (hsym k (by omega) (by omega)).symm
  rw [h1, sum_Ico_reflect p a (by omega)]

theorem fold_sum_eq (N : ℕ) (hN : 1 ≤ N) (p : ℕ → ℝ)
    (hsym : ∀ k, 1 ≤ k → k < N → p (N - k) = p k) :
    ∑ k ∈ range (N / 2 + 1), foldOne N p k = ∑ k ∈ range N, p k := by
  rcases Nat.even_or_odd' N with ⟨m, rfl | rfl⟩
  · -- N = 2m, m ≥ 1
    have hm : 1 ≤ m := by omega
    have e1 : 2 * m / 2 = m := by omega
    have e2 : (2 * m + 1) / 2 = m := by omega
    rw [e1]
    -- LHS = p0 + 2 Σ_{1≤k<m} p k + p m
    have hL : ∑ k ∈ range (m + 1), foldOne (2 * m) p k
        = p 0 + 2 * ∑ k ∈ Ico 1 m, p k + p m := by
      rw [sum_range_succ, ← Nat.Ico_zero_eq_range, ← sum_Ico_consecutive _ (Nat.zero_le 1) hm]
      have a0 : ∑ k ∈ Ico 0 1, foldOne (2 * m) p k = p 0 := by simp [foldOne]
      have a1 : ∑ k ∈ Ico 1 m, foldOne (2 * m) p k = 2 * ∑ k ∈ Ico 1 m, p k := by
        rw [mul_sum]; refine sum_congr rfl fun k hk => ?_
        simp only [mem_Ico] at hk
        have : k ≠ 0 := by omega
        simp [foldOne, this, e2, hk.2]
      have a2 : foldOne (2 * m) p m = p m := by
        have : m ≠ 0 := by omega
        simp [foldOne, this, e2]
      rw [a0, a1, a2]
    have hR : ∑ k ∈ range (2 * m), p k
        = p 0 + ∑ k ∈ Ico 1 m, p k + p m + ∑ k ∈ Ico (m + 1) (2 * m), p k := by
      rw [← Nat.Ico_zero_eq_range, ← sum_Ico_consecutive p (Nat.zero_le 1) (by omega : 1 ≤ 2 * m),
        ← sum_Ico_consecutive p hm (by omega : m ≤ 2 * m),
        ← sum_Ico_consecutive p (by omega : m ≤ m + 1) (by omega : m + 1 ≤ 2 * m)]
      simp; ring
    have hrefl := reflect_block (2 * m) 1 m p hsym le_rfl (by omega)
    have e3 : 2 * m + 1 - m = m + 1 := by omega
    have e4 : 2 * m + 1 - 1 = 2 * m := by omega
    rw [e3, e4] at hrefl
    rw [hL, hR, ← hrefl]; ring
  · -- N = 2m+1
    have e1 : (2 * m + 1) / 2 = m := by omega
    have e2 : (2 * m + 1 + 1) / 2 = m + 1 := by omega
    rw [e1]
    have hL : ∑ k ∈ range (m + 1), foldOne (2 * m + 1) p k
        = p 0 + 2 * ∑ k ∈ Ico 1 (m + 1), p k := by
      rw [← Nat.Ico_zero_eq_range, ← sum_Ico_consecutive _ (Nat.zero_le 1) (by omega : 1 ≤ m + 1)]
      have a0 : ∑ k ∈ Ico 0 1, foldOne (2 * m + 1) p k = p 0 := by simp [foldOne]
      have a1 : ∑ k ∈ Ico 1 (m + 1), foldOne (2 * m + 1) p k = 2 * ∑ k ∈ Ico 1 (m + 1), p k := by
        rw [mul_sum]; refine sum_congr rfl fun k hk => ?_
        simp only [mem_Ico] at hk
        have : k ≠ 0 := by omega
        simp [foldOne, this, e2, hk.2]
      rw [a0, a1]
    have hR : ∑ k ∈ range (2 * m + 1), p k
        = p 0 + ∑ k ∈ Ico 1 (m + 1), p k + ∑ k ∈ Ico (m + 1) (2 * m + 1), p k := by
      rw [← Nat.Ico_zero_eq_range,
        ← sum_Ico_consecutive p (Nat.zero_le 1) (by omega : 1 ≤ 2 * m + 1),
        ← sum_Ico_consecutive p (by omega : 1 ≤ m + 1) (by omega : m + 1 ≤ 2 * m + 1)]
      simp; ring
    have hrefl := reflect_block (2 * m + 1) 1 (m + 1) p hsym le_rfl (by omega)
    have e3 : 2 * m + 1 + 1 - (m + 1) = m + 1 := by omega
    have e4 : 2 * m + 1 + 1 - 1 = 2 * m + 1 := by omega
    rw [e3, e4] at hrefl
    rw [hL, hR, ← hrefl]; ring

#print axioms fold_sum_eq
