/-
C20 — lemmas at the ℝ instance: Pearson coefficient bound, z-score, percent change.
-/
import Nitime.Model.C20
import Nitime.Lemmas.EvInst
import Mathlib.Algebra.Order.Chebyshev
import Mathlib.Tactic.FieldSimp
import Mathlib.Tactic.Ring
import Mathlib.Tactic.Linarith

namespace Nitime.C20
open Finset Nitime.Ev

theorem sum_nth_eq (l : List ℝ) : ∑ i ∈ range l.length, nth l i = l.sum := by
  induction l with
  | nil => simp
  | cons a l ih =>
    rw [List.length_cons, sum_range_succ', List.sum_cons, ← ih]
    simp [nth, add_comm]

theorem mean_eq (l : List ℝ) : mean l = l.sum / l.length := by
  simp [mean, sumRange_eq_r, sum_nth_eq]

theorem sum_map_sub_const (l : List ℝ) (c : ℝ) : (l.map (fun v => v - c)).sum = l.sum - l.length * c := by
  induction l with
  | nil => simp
  | cons a l ih => simp [ih]; ring

theorem sum_map_div_const (l : List ℝ) (c : ℝ) : (l.map (fun v => v / c)).sum = l.sum / c := by
  induction l with
  | nil => simp
  | cons a l ih => simp [ih]; ring

theorem sum_map_sq_div (l : List ℝ) (c : ℝ) :
    (l.map (fun v => (v / c) * (v / c))).sum = (l.map (fun v => v * v)).sum / (c * c) := by
  induction l with
  | nil => simp
  | cons a l ih => simp [ih]; ring

theorem removeBias_eq (x : List ℝ) : removeBias x = x.map (fun v => v - mean x) := by
  simp [removeBias]

/-- deviations from the mean sum to zero -/
theorem sum_removeBias (x : List ℝ) : (removeBias x).sum = 0 := by
  rw [removeBias_eq, sum_map_sub_const, mean_eq]
  by_cases h : (x.length : ℝ) = 0
  · have : x = [] := by
      have : x.length = 0 := by exact_mod_cast h
      exact List.length_eq_zero_iff.mp this
    subst this; simp
  · field_simp; ring

theorem mean_removeBias (x : List ℝ) : mean (removeBias x) = 0 := by
  rw [mean_eq, sum_removeBias]; simp

theorem removeBias_of_mean_zero (x : List ℝ) (h : mean x = 0) : removeBias x = x := by
  rw [removeBias_eq, h]; simp

theorem variance_eq (x : List ℝ) :
    variance x = ((removeBias x).map (fun v => v * v)).sum / x.length := by
  simp [variance, mean_eq]

theorem variance_nonneg (x : List ℝ) : 0 ≤ variance x := by
  rw [variance_eq]
  apply div_nonneg _ (Nat.cast_nonneg _)
  apply List.sum_nonneg
  intro v hv
  obtain ⟨w, _, rfl⟩ := List.mem_map.mp hv
  exact mul_self_nonneg w

theorem zscore_eq (x : List ℝ) :
    zscore1 x = (removeBias x).map (fun v => v / Real.sqrt (variance x)) := by
  simp [zscore1]

theorem mean_zscore (x : List ℝ) : mean (zscore1 x) = 0 := by
  rw [mean_eq, zscore_eq, sum_map_div_const, sum_removeBias]; simp

theorem variance_zscore (x : List ℝ) (hσ : variance x ≠ 0) : variance (zscore1 x) = 1 := by
  have hm := mean_zscore x
  rw [variance_eq, removeBias_of_mean_zero _ hm, zscore_eq, List.map_map]
  have : ((fun v : ℝ => v * v) ∘ fun v => v / Real.sqrt (variance x))
      = fun v => (v / Real.sqrt (variance x)) * (v / Real.sqrt (variance x)) := rfl
  rw [this, sum_map_sq_div, Real.mul_self_sqrt (variance_nonneg x)]
  simp only [List.length_map, length_removeBias]
  rw [div_div, mul_comm, ← div_div, ← variance_eq]
  exact div_self hσ

theorem mean_percentChange (x : List ℝ) (hμ : mean x ≠ 0) : mean (percentChange1 x) = 0 := by
  have hlen : (x.length : ℝ) ≠ 0 := by
    intro h
    apply hμ
    rw [mean_eq, h]; simp
  have hs : x.sum = x.length * mean x := by rw [mean_eq]; field_simp
  have : percentChange1 x = x.map (fun v => (v / mean x - 1) * 100) := by simp [percentChange1]
  rw [mean_eq, this]
  have h2 : ∀ l : List ℝ, (l.map (fun v => (v / mean x - 1) * 100)).sum
      = (l.sum / mean x - l.length) * 100 := by
    intro l
    induction l with
    | nil => simp
    | cons a l ih => simp [ih]; ring
  rw [h2, List.length_map, hs]
  field_simp
  ring

/-- Cauchy–Schwarz for the model's `dot` -/
theorem dot_sq_le (x y : List ℝ) (h : x.length = y.length) :
    (dot x y) ^ 2 ≤ dot x x * dot y y := by
  simp only [dot, sumRange_eq_r, r_mul, ← h]
  have := Finset.sum_mul_sq_le_sq_mul_sq (range x.length) (nth x) (nth y)
  simpa [pow_two] using this

theorem abs_div_sqrt_le_one (a b : ℝ) (h : a ^ 2 ≤ b) : |a / Real.sqrt b| ≤ 1 := by
  by_cases hb : Real.sqrt b = 0
  · rw [hb]; simp
  · have hpos : 0 < Real.sqrt b := lt_of_le_of_ne (Real.sqrt_nonneg b) (Ne.symm hb)
    rw [abs_div, abs_of_pos hpos, div_le_one hpos]
    exact Real.abs_le_sqrt h

theorem dot_self_nonneg (x : List ℝ) : 0 ≤ dot x x := by
  simp only [dot, sumRange_eq_r, r_mul]
  exact Finset.sum_nonneg fun i _ => mul_self_nonneg _

theorem abs_seedCorrcoef_le_one (seed target : List ℝ) (h : seed.length = target.length) :
    |seedCorrcoef1 seed target| ≤ 1 := by
  simp only [seedCorrcoef1, r_div, r_sqrt, r_mul]
  rw [← Real.sqrt_mul (dot_self_nonneg _)]
  apply abs_div_sqrt_le_one
  apply dot_sq_le
  simp [h]

end Nitime.C20
