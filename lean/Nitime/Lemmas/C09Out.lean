/-
C09 — results of the `cache_to_*` functions never alias the cache or each other (`Model/C09Out.lean`).  Core Lean only.

* `results_never_alias_cache`: under the allocation discipline of the code that exists (`keep = false`), along EVERY
  history of queries of one cache — any pair lists, equal or different output shapes — nothing is kept in the cache dict,
  the results handed out are pairwise different arrays, and at the END each still holds what it held at hand-out;
* `kept_output_counterexample`: an output array kept with the cache and refilled on re-use (seeded change C09-11): two
  queries of equal output shape are ONE array and the earlier result turns into the later one's values.
-/
import Nitime.Model.C09Out

namespace Nitime.C09.Out

/-- nothing kept; every result exists, holds its hand-out content, ids are below the heap size and pairwise different -/
def Inv (s : St) : Prop :=
  s.kept = [] ∧ (∀ p ∈ s.handed, p.1 < s.heap.length ∧ s.heap[p.1]? = some p.2) ∧ (ids s).Nodup

theorem inv_init : Inv init := by
  refine ⟨rfl, ?_, ?_⟩
  · intro p hp; cases hp
  · simp [ids, init]

theorem inv_call (s : St) (c : Call) (h : Inv s) : Inv (call false s c) := by
  obtain ⟨hk, hh, hn⟩ := h
  refine ⟨by simp [call, hk], ?_, ?_⟩
  · intro p hp
    simp only [call, Bool.false_eq_true, if_false] at hp ⊢
    rcases List.mem_append.mp hp with hp | hp
    · obtain ⟨h1, h2⟩ := hh p hp
      refine ⟨by simp; omega, ?_⟩
      rw [List.getElem?_append_left h1]; exact h2
    · have : p = (s.heap.length, c.vals) := by simpa using hp
      subst this
      refine ⟨by simp, by simp⟩
  · simp only [ids, call, Bool.false_eq_true, if_false, List.map_append, List.map_cons, List.map_nil]
    rw [List.nodup_append]
    refine ⟨hn, by simp, ?_⟩
    intro a ha b hb
    have hb' : b = s.heap.length := by simpa using hb
    obtain ⟨p, hp, rfl⟩ := List.mem_map.mp ha
    have := (hh p hp).1
    omega

theorem inv_run (cs : List Call) : ∀ s, Inv s → Inv (run false s cs) := by
  induction cs with
  | nil => intro s h; exact h
  | cons c cs ih => intro s h; exact ih _ (inv_call s c h)

theorem finalViews_of_inv (s : St) (h : Inv s) : finalViews s = s.handed.map (·.2) := by
  unfold finalViews
  apply List.map_congr_left
  intro p hp
  rw [(h.2.1 p hp).2]; rfl

theorem handed_run (cs : List Call) : ∀ s, (run false s cs).handed.map (·.2) = s.handed.map (·.2) ++ cs.map (·.vals) := by
  induction cs with
  | nil => intro s; simp [run]
  | cons c cs ih =>
    intro s
    have := ih (call false s c)
    simp only [run, List.foldl_cons] at this ⊢
    rw [this]
    simp [call]

/-- **results never alias the cache, nor each other; every result held across later queries keeps its values** -/
theorem results_never_alias_cache (cs : List Call) :
    (run false init cs).kept = [] ∧ (ids (run false init cs)).Nodup ∧
    finalViews (run false init cs) = cs.map (·.vals) := by
  have h := inv_run cs init inv_init
  refine ⟨h.1, h.2.2, ?_⟩
  rw [finalViews_of_inv _ h, handed_run]
  simp [init]

/-- the change class of seeded change C09-11 -/
theorem kept_output_counterexample :
    finalViews (run true init [⟨7, [1, 2]⟩, ⟨7, [5, 6]⟩]) = [[5, 6], [5, 6]] ∧
    ids (run true init [⟨7, [1, 2]⟩, ⟨7, [5, 6]⟩]) = [0, 0] ∧
    finalViews (run false init [⟨7, [1, 2]⟩, ⟨7, [5, 6]⟩]) = [[1, 2], [5, 6]] := by
  decide

end Nitime.C09.Out
